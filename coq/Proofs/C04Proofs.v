(* C04 - every withdrawal L2 records can be claimed on L1.  Proof scripts.
   L1 and L2 both define [cfg], [step], [msg], [pairs] ...: they are used qualified. *)
From stdpp Require Import gmap numbers list.
From Coq Require Import ZArith Lia.
Require Import Model.Bytes Model.Bank Model.Hashes Model.Merkle Model.Valset.
Require Model.L1 Model.L2.
Require Import Proofs.MerkleProofs Proofs.L2Lemmas.

(* ------------------------------------------------------------------------------------ *)
(* 1. the two entry points bound the amount to a uint64                                   *)
(* ------------------------------------------------------------------------------------ *)
Definition two64 : Z := 18446744073709551616.
Lemma two64_same : two64 = L1.two64.
Proof. reflexivity. Qed.

Lemma l1_deposit_Some c e s sender b to d amt data s' r :
  L1.deposit c e s sender b to d amt data = Some (s', r) →
  is_Some (L1.resolve c sender) ∧ to ≠ [] ∧ valid_denom d = true ∧ (0 ≤ amt < L1.two64)%Z ∧
  (1 ≤ b)%N ∧ is_Some (L1.configs s !! b).
Proof.
  unfold L1.deposit. intros Hx.
  apply bind_Some in Hx as (sd & Hsd & Hx).
  case_bool_decide as Hto; [discriminate|].
  destruct (coin_valid d amt && (amt <? L1.two64)%Z) eqn:Hv; [|discriminate]. cbn [negb] in Hx.
  apply andb_true_iff in Hv as [Hcv Hlt]. unfold coin_valid in Hcv.
  apply andb_true_iff in Hcv as [Hd Hge]. apply Z.leb_le in Hge. apply Z.ltb_lt in Hlt.
  destruct (b =? 0)%N eqn:Hb; [discriminate|]. apply N.eqb_neq in Hb.
  apply bind_Some in Hx as (x & Hcfg & Hx).
  split; [eauto|]. split; [done|]. split; [done|]. split; [lia|]. split; [lia|eauto].
Qed.

Lemma c04_l1_deposit_bounded c e s sender b to d amt data s' r :
  L1.step c e s (L1.MDeposit sender b to d amt data) = (s', L1.Ok r) →
  to ≠ [] ∧ valid_denom d = true ∧ (0 ≤ amt < L1.two64)%Z.
Proof.
  unfold L1.step. cbn [L1.handle].
  destruct (L1.deposit c e s sender b to d amt data) as [[s1 r1]|] eqn:Hd; [|discriminate].
  intros _. apply l1_deposit_Some in Hd as (_ & ? & ? & ? & _). auto.
Qed.

Lemma withdraw_bound c s sender to d amt s' r :
  L2.withdraw c s sender to d amt = Some (s', r) → (0 < amt < two64)%Z.
Proof.
  intros Hx. pose proof (withdraw_uint64 _ _ _ _ _ _ _ _ Hx) as Hlt.
  apply withdraw_Some in Hx as (?&?&?&?&_&_&_&Hpos&_). unfold two64. lia.
Qed.

Lemma c04_l2_withdraw_bounded c s sender to d amt s' r :
  L2.step c s (L2.MWithdraw sender to d amt) = (s', L2.Ok r) → (0 < amt < two64)%Z.
Proof.
  unfold L2.step. cbn [L2.handle].
  destruct (L2.withdraw c s sender to d amt) as [[s1 r1]|] eqn:Hw; [|discriminate].
  intros _. eapply withdraw_bound; eauto.
Qed.

(* ------------------------------------------------------------------------------------ *)
(* 2. what L2's own validation guarantees about every recorded withdrawal                 *)
(* ------------------------------------------------------------------------------------ *)

(* A relayed deposit carries a recipient string and an amount that L1 accepts: the L1 entry
   point requires a non-empty [to] and an amount below 2^64 (c04_l1_deposit_bounded); L2's own
   validation of MsgFinalizeTokenDeposit checks neither. *)
Definition relayed_ok (f : L2.fdep) : Prop := L2.fd_to f ≠ [] ∧ (L2.fd_amt f < two64)%Z.

(* every deposit message of the history - also those wrapped in ExecuteMessages - is such *)
Fixpoint faithful (m : L2.msg) : Prop :=
  match m with
  | L2.MFinalizeDeposit f => relayed_ok f
  | L2.MExecute _ inner =>
      (fix go (l : list L2.msg) : Prop :=
         match l with [] => True | x :: l' => faithful x ∧ go l' end) inner
  | _ => True
  end.

Lemma faithful_exec sender inner : faithful (L2.MExecute sender inner) ↔ Forall faithful inner.
Proof.
  cbn [faithful]. induction inner as [|x l IH].
  - split; auto.
  - rewrite Forall_cons. rewrite <- IH. reflexivity.
Qed.

Record wrec_fields (c : L2.cfg) (s : L2.l2state) (w : L2.wrec) : Prop := {
  wf_from : L2.w_from w ≠ [];
  wf_to : L2.w_to w ≠ [];
  wf_denom : valid_denom (L2.w_denom w) = true;
  wf_pair : L2.pairs s !! L2.w_denom w = Some (L2.w_base w);
  wf_base : valid_denom (L2.w_base w) = true;
  wf_amt : (0 ≤ L2.w_amt w < two64)%Z;
  wf_user : L2.w_refund w = false →
            (0 < L2.w_amt w)%Z ∧ is_Some (L2.resolve c (L2.w_from w));
  wf_seq : (1 ≤ L2.w_seq w < L2.next_l2 s)%N;
}.

Definition pairs_valid (s : L2.l2state) : Prop :=
  ∀ d b, L2.pairs s !! d = Some b → valid_denom b = true.

Definition inv (c : L2.cfg) (s : L2.l2state) : Prop :=
  (1 ≤ L2.next_l2 s)%N ∧ pairs_valid s ∧ Forall (wrec_fields c s) (L2.wlog s).

Definition ext (s s' : L2.l2state) : Prop :=
  (∀ d b, L2.pairs s !! d = Some b → L2.pairs s' !! d = Some b) ∧ (L2.next_l2 s ≤ L2.next_l2 s')%N.

Lemma ext_refl s : ext s s.
Proof. split; auto; lia. Qed.
Lemma ext_trans s1 s2 s3 : ext s1 s2 → ext s2 s3 → ext s1 s3.
Proof. intros [A1 B1] [A2 B2]. split; [auto|lia]. Qed.

Lemma wrec_fields_ext c s s' w : ext s s' → wrec_fields c s w → wrec_fields c s' w.
Proof.
  intros [Hp Hn] [H1 H2 H3 H4 H5 H6 H7 H8]. split; auto. lia.
Qed.

Lemma inv_frame c s s' :
  L2.pairs s' = L2.pairs s → L2.wlog s' = L2.wlog s → L2.next_l2 s' = L2.next_l2 s →
  inv c s → inv c s' ∧ ext s s'.
Proof.
  intros Hp Hw Hn (I1 & I2 & I3).
  assert (E : ext s s') by (split; [rewrite Hp; auto|lia]).
  split; [|done]. split; [lia|]. split; [unfold pairs_valid; rewrite Hp; auto|].
  rewrite Hw. eapply Forall_impl; [exact I3|]. intros w. by apply wrec_fields_ext.
Qed.

Lemma fdep_valid_facts c m : L2.fdep_valid c m = true →
  L2.fd_from m ≠ [] ∧ valid_denom (L2.fd_denom m) = true ∧ (0 ≤ L2.fd_amt m)%Z ∧
  valid_denom (L2.fd_base m) = true.
Proof.
  unfold L2.fdep_valid, coin_valid. intros Hv.
  repeat (apply andb_true_iff in Hv as [Hv ?]).
  repeat match goal with H : negb _ = true |- _ => apply negb_true_iff in H end.
  repeat match goal with H : bool_decide _ = false |- _ => apply bool_decide_eq_false in H end.
  repeat match goal with H : (_ <=? _)%Z = true |- _ => apply Z.leb_le in H end.
  repeat match goal with H : _ && _ = true |- _ => apply andb_true_iff in H as [? ?] end.
  repeat match goal with H : (_ <=? _)%Z = true |- _ => apply Z.leb_le in H end.
  auto.
Qed.

(* appending one record with the right fields at the next sequence *)
Lemma inv_push c s w :
  inv c s → L2.w_seq w = L2.next_l2 s →
  L2.w_from w ≠ [] → L2.w_to w ≠ [] → valid_denom (L2.w_denom w) = true →
  L2.pairs s !! L2.w_denom w = Some (L2.w_base w) → (0 ≤ L2.w_amt w < two64)%Z →
  (L2.w_refund w = false → (0 < L2.w_amt w)%Z ∧ is_Some (L2.resolve c (L2.w_from w))) →
  inv c (L2.push_withdrawal s w) ∧ ext s (L2.push_withdrawal s w).
Proof.
  intros (I1 & I2 & I3) Hs Hf Ht Hd Hp Ha Hu.
  assert (E : ext s (L2.push_withdrawal s w)) by (split; cbn; [auto|lia]).
  split; [|done]. split; [cbn; lia|]. split; [exact I2|]. cbn [L2.push_withdrawal L2.wlog].
  apply Forall_cons. split.
  - split; cbn; auto; [eapply I2; eauto|lia].
  - eapply Forall_impl; [exact I3|]. intros w'. by apply wrec_fields_ext.
Qed.

Lemma withdraw_inv c s sender to d amt s' r :
  L2.resolve c [] = None → L2.withdraw c s sender to d amt = Some (s', r) → inv c s → inv c s' ∧ ext s s'.
Proof.
  intros Hnil Hh Hinv. pose proof (withdraw_bound _ _ _ _ _ _ _ _ Hh) as Hb.
  apply withdraw_Some in Hh as (a & b1' & b2' & base & Ha & Hto & Hd & Hamt & _ & _ & Hbase & _ & ->).
  destruct (inv_frame c s (L2.set_bk s b2') eq_refl eq_refl eq_refl Hinv) as [I1 E1].
  assert (Hfr : sender ≠ []) by (intros ->; congruence).
  assert (Hu : false = false → (0 < amt)%Z ∧ is_Some (L2.resolve c sender))
    by (intros _; split; [lia|rewrite Ha; eauto]).
  assert (Har : (0 ≤ amt < two64)%Z) by lia.
  destruct (inv_push c (L2.set_bk s b2')
              {| L2.w_seq := L2.next_l2 s; L2.w_from := sender; L2.w_to := to; L2.w_denom := d;
                 L2.w_base := base; L2.w_amt := amt; L2.w_refund := false |} I1 eq_refl Hfr Hto Hd Hbase Har Hu)
    as [I2 E2].
  split; [exact I2|]. exact (ext_trans _ _ _ E1 E2).
Qed.

Lemma hook_msg_inv c s signer m s' :
  L2.resolve c [] = None → L2.hook_msg c s signer m = Some s' → inv c s → inv c s' ∧ ext s s'.
Proof.
  intros Hnil. destruct m as [to d amt|sender to d amt]; cbn [L2.hook_msg].
  - intros Hx. apply bind_Some in Hx as (b & _ & [= <-]). by apply inv_frame.
  - destruct (negb _); [discriminate|]. intros Hx. apply bind_Some in Hx as ([s1 r1] & Hw & [= <-]).
    eapply withdraw_inv; eauto.
Qed.

Lemma hook_fold_inv c signer msgs : ∀ s s',
  L2.resolve c [] = None →
  foldl (λ os m, s ← os; L2.hook_msg c s signer m) (Some s) msgs = Some s' → inv c s → inv c s' ∧ ext s s'.
Proof.
  induction msgs as [|m msgs IH]; intros s s' Hnil; cbn [foldl].
  - intros [= <-] I. split; [done|apply ext_refl].
  - cbn [mbind option_bind]. destruct (L2.hook_msg c s signer m) as [s1|] eqn:E.
    + intros Hx I. destruct (hook_msg_inv _ _ _ _ _ Hnil E I) as [I1 E1].
      destruct (IH _ _ Hnil Hx I1) as [I2 E2]. split; [exact I2|]. exact (ext_trans _ _ _ E1 E2).
    + rewrite hook_fold_None. discriminate.
Qed.

Lemma run_hook_inv c s h s1 ok :
  L2.resolve c [] = None → L2.run_hook c s h = (s1, ok) → inv c s → inv c s1 ∧ ext s s1.
Proof.
  intros Hnil. unfold L2.run_hook. destruct h as [| |signer tseq sig_ok msgs].
  - intros [= <- <-] I. split; [done|apply ext_refl].
  - intros [= <- <-] I. split; [done|apply ext_refl].
  - destruct (_ <? _)%N. { intros [= <- <-] I. split; [done|apply ext_refl]. }
    destruct (negb _). { intros [= <- <-] I. split; [done|apply ext_refl]. }
    destruct (foldl _ _ msgs) as [s2|] eqn:Hf; intros [= <- <-] I.
    + destruct (inv_frame c s (L2.set_seqs s (<[signer:=(L2.getseq s signer + 1)%N]> (L2.seqs s)))
                  eq_refl eq_refl eq_refl I) as [I0 E0].
      destruct (hook_fold_inv _ _ _ _ _ Hnil Hf I0) as [I2 E2]. split; [exact I2|]. exact (ext_trans _ _ _ E0 E2).
    + by apply inv_frame.
Qed.

Lemma inv_pairs_insert c s d b :
  L2.pairs s !! d = None → valid_denom b = true → inv c s →
  inv c (L2.set_pairs s (<[d := b]> (L2.pairs s))) ∧ ext s (L2.set_pairs s (<[d := b]> (L2.pairs s))).
Proof.
  intros Hn Hb (I1 & I2 & I3).
  assert (E : ext s (L2.set_pairs s (<[d := b]> (L2.pairs s)))).
  { split; cbn; [|lia]. intros x y Hxy. destruct (decide (x = d)) as [->|Hne]; [congruence|].
    by rewrite lookup_insert_ne. }
  split; [|done]. split; [done|]. split.
  - intros x y. cbn. destruct (decide (x = d)) as [->|Hne].
    + rewrite lookup_insert. by intros [= <-].
    + rewrite lookup_insert_ne by done. apply I2.
  - cbn. eapply Forall_impl; [exact I3|]. intros w. by apply wrec_fields_ext.
Qed.

Lemma finalize_deposit_inv c s m s' r :
  L2.resolve c [] = None → relayed_ok m →
  L2.finalize_deposit c s m = Some (s', r) → inv c s → inv c s' ∧ ext s s'.
Proof.
  intros Hnil [Hto Hlt]. unfold L2.finalize_deposit.
  destruct (L2.fdep_valid c m) eqn:Hv; [|discriminate]. cbn [negb].
  destruct (L2.is_executor c s (L2.fd_sender m)); [|discriminate]. cbn [negb].
  destruct (L2.fd_seq m <? L2.next_l1 s)%N. { intros [= <- <-] I. split; [done|apply ext_refl]. }
  destruct (L2.next_l1 s <? L2.fd_seq m)%N; [discriminate|].
  apply fdep_valid_facts in Hv as (Hfrom & Hd & Hge & Hb).
  destruct (match L2.resolve c (L2.fd_to m) with
            | Some a => L2.safe_deposit c s a (L2.fd_denom m) (L2.fd_amt m)
            | None => (s, false) end) as [s1 dep_ok] eqn:Hdep.
  assert (F1 : frame_bk s s1).
  { destruct (L2.resolve c (L2.fd_to m)); [eapply safe_deposit_frame; eauto|].
    injection Hdep as <- <-. apply frame_bk_refl. }
  destruct F1 as (F1a & F1b & F1c & F1d & F1e & F1f & F1g & F1h & F1i).
  intros Hrest I.
  destruct (inv_frame c s s1 F1c F1h F1b I) as [I1 E1].
  set (s2 := L2.set_next_l1 s1 (L2.next_l1 s1 + 1)) in *.
  destruct (inv_frame c s1 s2 eq_refl eq_refl eq_refl I1) as [I2 E2].
  set (s3 := match L2.pairs s2 !! L2.fd_denom m with
             | Some _ => s2
             | None => L2.set_pairs s2 (<[L2.fd_denom m:=L2.fd_base m]> (L2.pairs s2)) end) in *.
  assert (I3 : inv c s3 ∧ ext s2 s3).
  { subst s3. destruct (L2.pairs s2 !! L2.fd_denom m) eqn:E; [split; [done|apply ext_refl]|].
    by apply inv_pairs_insert. }
  destruct I3 as [I3 E3].
  destruct (if dep_ok && L2.hook_nonempty (L2.fd_hook m) then L2.run_hook c s3 (L2.fd_hook m) else (s3, true))
    as [s4 hook_ok] eqn:Hhook.
  assert (I4 : inv c s4 ∧ ext s3 s4).
  { destruct (dep_ok && L2.hook_nonempty (L2.fd_hook m)); [eapply run_hook_inv; eauto|].
    injection Hhook as <- <-. split; [done|apply ext_refl]. }
  destruct I4 as [I4 E4].
  assert (E04 : ext s s4) by exact (ext_trans _ _ _ E1 (ext_trans _ _ _ E2 (ext_trans _ _ _ E3 E4))).
  destruct (dep_ok && hook_ok).
  { injection Hrest as <- <-. destruct (inv_frame c s4 (L2.push_deposit s4
        {| L2.d_seq := L2.fd_seq m; L2.d_to := L2.fd_to m; L2.d_denom := L2.fd_denom m;
           L2.d_amt := L2.fd_amt m; L2.d_ok := true |}) eq_refl eq_refl eq_refl I4) as [I5 E5].
    split; [exact I5|]. exact (ext_trans _ _ _ E04 E5). }
  apply bind_Some in Hrest as (s5 & Hs5 & Hrest).
  apply bind_Some in Hrest as (base & Hbase & Hrest). injection Hrest as <- <-.
  assert (F5 : frame_bk s4 s5).
  { destruct dep_ok; [|injection Hs5 as <-; apply frame_bk_refl].
    apply bind_Some in Hs5 as (a & _ & Hs5). apply bind_Some in Hs5 as (b1 & _ & Hs5).
    apply bind_Some in Hs5 as (b2 & _ & Hs5). injection Hs5 as <-. apply frame_bk_set. }
  destruct F5 as (F5a & F5b & F5c & F5d & F5e & F5f & F5g & F5h & F5i).
  destruct (inv_frame c s4 s5 F5c F5h F5b I4) as [I5 E5].
  set (s6 := L2.push_deposit s5 {| L2.d_seq := L2.fd_seq m; L2.d_to := L2.fd_to m; L2.d_denom := L2.fd_denom m;
                                   L2.d_amt := L2.fd_amt m; L2.d_ok := false |}).
  destruct (inv_frame c s5 s6 eq_refl eq_refl eq_refl I5) as [I6 E6].
  assert (Hpb : L2.pairs s6 !! L2.fd_denom m = Some base) by exact Hbase.
  assert (Har : (0 ≤ L2.fd_amt m < two64)%Z) by lia.
  assert (Hu : true = false → (0 < L2.fd_amt m)%Z ∧ is_Some (L2.resolve c (L2.fd_to m))) by discriminate.
  destruct (inv_push c s6 {| L2.w_seq := L2.next_l2 s5; L2.w_from := L2.fd_to m; L2.w_to := L2.fd_from m;
                             L2.w_denom := L2.fd_denom m; L2.w_base := base; L2.w_amt := L2.fd_amt m;
                             L2.w_refund := true |} I6 eq_refl Hto Hfrom Hd Hpb Har Hu) as [I7 E7].
  split; [exact I7|]. exact (ext_trans _ _ _ E04 (ext_trans _ _ _ E5 (ext_trans _ _ _ E6 E7))).
Qed.

Lemma handle_inv m : ∀ c s s' r,
  L2.resolve c [] = None → faithful m → L2.handle c s m = Some (s', r) →
  inv c s → inv c s' ∧ ext s s'.
Proof.
  induction m as [f|w1 w2 w3 w4|b1 b2 b3 b4|i1 i2|u1 u2|v1 v2 v3|r1 r2|p1 p2 p3|sender inner IH] using msg_ind';
    intros c s s' r Hnil Hf; [cbn [L2.handle]..|].
  - (* deposit *)
    intros Hh Hinv. cbn [faithful] in Hf. eapply finalize_deposit_inv; eauto.
  - (* user withdrawal *)
    intros Hh Hinv. eapply withdraw_inv; eauto.
  - intros Hh. apply bank_send_msg_Some in Hh as (? & -> & _). by apply inv_frame.
  - intros Hh. apply set_bridge_info_Some in Hh as (_&_&_&->&_). by apply inv_frame.
  - intros Hh. apply update_params_Some in Hh as (_&_&->&_). by apply inv_frame.
  - intros Hh. apply add_val_Some in Hh as (_&?&?&_&_&->&_). by apply inv_frame.
  - intros Hh. apply remove_val_Some in Hh as (_&?&?&_&_&->&_). by apply inv_frame.
  - intros Hh. apply spend_fee_pool_Some in Hh as (_&?&->&_). by apply inv_frame.
  - rewrite handle_execute. apply faithful_exec in Hf.
    destruct (negb (bool_decide (is_Some _))); [discriminate|].
    case_bool_decide; [discriminate|]. destruct (negb (L2.is_admin s sender)); [discriminate|].
    intros Hx. apply bind_Some in Hx as (auth & _ & Hx). clear -IH Hx Hf Hnil.
    revert s Hx. induction inner as [|im l IHl]; intros s.
    + intros [= <- <-] Hinv. split; [done|apply ext_refl].
    + rewrite exec_loop_cons. intros Hx Hinv.
      apply bind_Some in Hx as (sg & _ & Hx). apply bind_Some in Hx as (a & _ & Hx).
      destruct (negb (bool_decide (a = auth))); [discriminate|].
      apply bind_Some in Hx as ([s1 r1] & Hh & Hx).
      apply Forall_cons in IH as [IHim IHrest]. apply Forall_cons in Hf as [Hfim Hfrest].
      destruct (IHim c s s1 r1 Hnil Hfim Hh Hinv) as [Hinv1 E1].
      destruct (IHl IHrest Hfrest s1 Hx Hinv1) as [Hinv2 E2].
      split; [done|]. eapply ext_trans; eauto.
Qed.

Lemma run_inv c h : ∀ s, L2.resolve c [] = None → Forall faithful h → inv c s → inv c (L2.run c s h).1.
Proof.
  induction h as [|m h IH]; intros s Hnil Hf Hinv; cbn; [done|].
  apply Forall_cons in Hf as [Hfm Hfh].
  destruct (L2.step c s m) as [s1 r1] eqn:E. destruct (L2.run c s1 h) as [s2 rs] eqn:E2. cbn.
  assert (Hinv1 : inv c s1).
  { unfold L2.step in E. destruct (L2.handle c s m) as [[sx rx]|] eqn:Hh.
    - injection E as <- <-. eapply handle_inv; eauto.
    - injection E as <- <-. done. }
  specialize (IH s1 Hnil Hfh Hinv1). by rewrite E2 in IH.
Qed.

Lemma c04_recorded_fields c s0 h :
  L2.resolve c [] = None → Forall faithful h →
  L2.wlog s0 = [] → (1 ≤ L2.next_l2 s0)%N → pairs_valid s0 →
  Forall (wrec_fields c (L2.run c s0 h).1) (L2.wlog (L2.run c s0 h).1).
Proof.
  intros Hnil Hf Hw Hn Hp.
  assert (I0 : inv c s0) by (split; [done|split; [done|rewrite Hw; constructor]]).
  by destruct (run_inv c h s0 Hnil Hf I0) as (_ & _ & I3).
Qed.

(* ------------------------------------------------------------------------------------ *)
(* 3. Merkle facts needed for the Validate clauses                                        *)
(* ------------------------------------------------------------------------------------ *)
Section tree.
  Variable H : bytes → bytes.
  Hypothesis H_len : ∀ x, length (H x) = 32%nat.

  Lemma sibling_len l i : all32 l → (i < length l)%nat → length (sibling l i) = 32%nat.
  Proof.
    intros Hall Hi. unfold sibling. unfold all32 in Hall. rewrite List.Forall_forall in Hall.
    destruct (Nat.even i).
    - destruct (S i <? length l)%nat eqn:E.
      + apply Nat.ltb_lt in E. apply Hall, nth_In. lia.
      + apply Hall, nth_In. lia.
    - apply Hall, nth_In. lia.
  Qed.

  Lemma pair_up_length_half l i : (i < length l)%nat → (i / 2 < length (pair_up H l))%nat.
  Proof. intros Hi. by destruct (pair_up_nth H l i Hi). Qed.

  Lemma prove_fuel_all32 n : ∀ l i, all32 l → (i < length l)%nat → all32 (prove_fuel H n l i).
  Proof.
    induction n as [|n IH]; intros l i Hall Hi; cbn [prove_fuel]; [constructor|].
    destruct l as [|a [|b t]]; [cbn in Hi; lia|constructor|].
    unfold all32. constructor.
    - apply sibling_len; auto.
    - apply IH; [apply pair_up_all32; auto|]. by apply pair_up_length_half.
  Qed.

  Lemma prove_all32 l i : all32 l → (i < length l)%nat → all32 (prove H l i).
  Proof. apply prove_fuel_all32. Qed.

  Lemma build_len l : all32 l → l ≠ [] → length (build H l) = 32%nat.
  Proof.
    intros Hall Hne. unfold build.
    pose proof (root_in_nodes H (length l) l Hne) as Hin.
    pose proof (nodes_all32 H H_len (length l) l Hall) as Hn.
    unfold all32 in Hn. rewrite List.Forall_forall in Hn. by apply Hn.
  Qed.
End tree.

(* ------------------------------------------------------------------------------------ *)
(* 4. bank                                                                                 *)
(* ------------------------------------------------------------------------------------ *)
Lemma getb_credit b a d amt a' d' :
  getb (credit b a d amt) a' d' = (if decide ((a', d') = (a, d)) then getb b a d + amt else getb b a' d')%Z.
Proof.
  unfold getb, credit. cbn. destruct (decide ((a', d') = (a, d))) as [[= -> ->]|Hne].
  - by rewrite lookup_insert.
  - by rewrite lookup_insert_ne.
Qed.

Lemma debit_Some b a d amt b1 : debit b a d amt = Some b1 →
  (amt ≤ getb b a d)%Z ∧ sup b1 = sup b ∧
  ∀ a' d', getb b1 a' d' = (if decide ((a', d') = (a, d)) then getb b a d - amt else getb b a' d')%Z.
Proof.
  unfold debit. destruct (getb b a d <? amt)%Z eqn:E; [discriminate|]. intros [= <-].
  apply Z.ltb_ge in E. split; [done|]. split; [done|]. intros a' d'. unfold getb at 1. cbn.
  destruct (decide ((a', d') = (a, d))) as [[= -> ->]|Hne].
  - by rewrite lookup_insert.
  - by rewrite lookup_insert_ne.
Qed.

Lemma debit_enough b a d amt : (amt ≤ getb b a d)%Z → is_Some (debit b a d amt).
Proof. intros Hle. unfold debit. destruct (getb b a d <? amt)%Z eqn:E; [apply Z.ltb_lt in E; lia|eauto]. Qed.

Lemma bank_send_Some b from to d amt b' : bank_send b from to d amt = Some b' →
  (amt ≤ getb b from d)%Z ∧ sup b' = sup b ∧
  ∀ a' d', getb b' a' d' =
    ((if decide ((a', d') = (from, d)) then getb b a' d' - amt else getb b a' d') +
     (if decide ((a', d') = (to, d)) then amt else 0))%Z.
Proof.
  unfold bank_send. intros Hx. apply bind_Some in Hx as (b1 & Hd & [= <-]).
  apply debit_Some in Hd as (Hle & Hs & Hg). split; [done|]. split; [done|].
  intros a' d'. rewrite getb_credit, !Hg.
  destruct (decide ((a', d') = (to, d))) as [[= -> ->]|Hne];
    destruct (decide ((to, d) = (from, d))) as [[= ->]|Hne2];
    repeat (destruct (decide _) as [[= ? ?]|?]; simplify_eq; try congruence); lia.
Qed.

Lemma bank_send_enough b from to d amt : (amt ≤ getb b from d)%Z → is_Some (bank_send b from to d amt).
Proof.
  intros Hle. unfold bank_send. destruct (debit_enough b from d amt Hle) as [b1 ->]. cbn. eauto.
Qed.

(* ------------------------------------------------------------------------------------ *)
(* 5. claimability                                                                         *)
(* ------------------------------------------------------------------------------------ *)
Definition claim_leaf (c : L1.cfg) (b : N) (w : L2.wrec) : bytes :=
  leaf_hash (L1.hash c) b (L2.w_seq w) (L2.w_from w) (L2.w_to w) (L2.w_base w) (Z.to_N (L2.w_amt w)).

(* the claim message an L1 user submits for the recorded withdrawal [w]: it names the BASE denom *)
Definition claim_msg (c : L1.cfg) (sender : bytes) (b i : N) (w : L2.wrec) (ls : list bytes) (k : nat)
           (v : N) (bh : bytes) : L1.msg :=
  L1.MFinalize sender b i (L2.w_seq w) (prove (L1.hash c) ls k) (L2.w_from w) (L2.w_to w) (L2.w_base w)
               (L2.w_amt w) [v] (build (L1.hash c) ls) bh.

Lemma c04_claimable (c : L1.cfg) (e : L1.env) (s : L1.l1state) (c2 : L2.cfg) (s2 : L2.l2state) (w : L2.wrec)
      (sender : bytes) (b i : N) (x : L1.config) (o : L1.output) (rcv : N)
      (ls : list bytes) (k : nat) (v : N) (bh : bytes) :
  (∀ y, length (L1.hash c y) = 32%nat) →
  wrec_fields c2 s2 w →
  (0 < L2.w_amt w)%Z →
  L1.resolve c (L2.w_to w) = Some rcv →
  is_Some (L1.resolve c sender) →
  (1 ≤ b)%N → (1 ≤ i)%N →
  L1.configs s !! b = Some x →
  L1.outputs s !! (b, i) = Some o →
  L1.o_root o = output_root (L1.hash c) v (build (L1.hash c) ls) bh →
  L1.is_final x e o = true →
  Forall (λ y, length y = 32%nat) ls →
  (k < length ls)%nat → nth k ls [] = claim_leaf c b w →
  (b, claim_leaf c b w) ∉ L1.proven s →
  (L2.w_amt w ≤ getb (L1.bk s) (L1.escrow c b) (L2.w_base w))%Z →
  length bh = 32%nat →
  ∃ s', L1.step c e s (claim_msg c sender b i w ls k v bh) = (s', L1.Ok L1.RNone) ∧
        bank_send (L1.bk s) (L1.escrow c b) rcv (L2.w_base w) (L2.w_amt w) = Some (L1.bk s') ∧
        (∀ a d, getb (L1.bk s') a d =
           ((if decide ((a, d) = (L1.escrow c b, L2.w_base w)) then getb (L1.bk s) a d - L2.w_amt w
             else getb (L1.bk s) a d) +
            (if decide ((a, d) = (rcv, L2.w_base w)) then L2.w_amt w else 0))%Z) ∧
        L1.plog s' = {| L1.y_bridge := b; L1.y_leaf := claim_leaf c b w; L1.y_to := rcv;
                        L1.y_denom := L2.w_base w; L1.y_amt := L2.w_amt w |} :: L1.plog s ∧
        L1.proven s' = {[ (b, claim_leaf c b w) ]} ∪ L1.proven s.
Proof.
  intros Hlen [F1 F2 F3 F4 F5 F6 F7 F8] Hpos Hrcv Hsender Hb Hi Hcfg Hout Hroot Hfinal Hall Hk Hnth Hnew Hfund Hbh.
  assert (Hne : ls ≠ []) by (destruct ls; [cbn in Hk; lia|done]).
  destruct (bank_send_enough (L1.bk s) (L1.escrow c b) rcv (L2.w_base w) (L2.w_amt w) Hfund) as [b1 Hsend].
  pose proof (merkle_complete (L1.hash c) ls k Hk) as Hmc. unfold verify in Hmc.
  destruct (bytes_eq_dec _ _) as [Hrp|]; [|discriminate]. rewrite Hnth in Hrp.
  assert (Hvalid : L1.finalize_valid c sender b i (L2.w_seq w) (prove (L1.hash c) ls k) (L2.w_from w) (L2.w_to w)
                     (L2.w_base w) (L2.w_amt w) [v] (build (L1.hash c) ls) bh = true).
  { unfold L1.finalize_valid, L1.valid_addr, coin_valid.
    rewrite (bool_decide_eq_true_2 _ Hsender).
    rewrite (bool_decide_eq_false_2 _ F1).
    rewrite bool_decide_eq_true_2 by (rewrite Hrcv; eauto).
    rewrite F5.
    replace (0 <=? L2.w_amt w)%Z with true by (symmetry; apply Z.leb_le; lia).
    replace (L2.w_amt w =? 0)%Z with false by (symmetry; apply Z.eqb_neq; lia).
    replace (L2.w_seq w =? 0)%N with false by (symmetry; apply N.eqb_neq; lia).
    replace (b =? 0)%N with false by (symmetry; apply N.eqb_neq; lia).
    replace (i =? 0)%N with false by (symmetry; apply N.eqb_neq; lia).
    cbn [negb andb].
    assert (Hp32 : forallb (λ p, (length p =? 32)%nat) (prove (L1.hash c) ls k) = true).
    { apply forallb_forall. intros p Hp.
      pose proof (prove_all32 (L1.hash c) Hlen ls k Hall Hk) as Ha. unfold all32 in Ha. rewrite List.Forall_forall in Ha.
      apply Nat.eqb_eq. by apply Ha. }
    rewrite Hp32. rewrite (build_len (L1.hash c) Hlen ls Hall Hne), Hbh. reflexivity. }
  set (s' := {| L1.bk := b1; L1.next_bridge := L1.next_bridge s; L1.configs := L1.configs s;
                L1.next_seq := L1.next_seq s; L1.next_out := L1.next_out s; L1.outputs := L1.outputs s;
                L1.proven := {[ (b, claim_leaf c b w) ]} ∪ L1.proven s;
                L1.pairs := L1.pairs s; L1.batches := L1.batches s; L1.regfee := L1.regfee s;
                L1.chans := L1.chans s; L1.admins := L1.admins s; L1.elog := L1.elog s;
                L1.plog := {| L1.y_bridge := b; L1.y_leaf := claim_leaf c b w; L1.y_to := rcv;
                              L1.y_denom := L2.w_base w; L1.y_amt := L2.w_amt w |} :: L1.plog s |}).
  exists s'.
  assert (Hstep : L1.finalize c e s sender b i (L2.w_seq w) (prove (L1.hash c) ls k) (L2.w_from w) (L2.w_to w)
                    (L2.w_base w) (L2.w_amt w) [v] (build (L1.hash c) ls) bh = Some (s', L1.RNone)).
  { unfold L1.finalize. rewrite Hvalid. cbn [negb]. rewrite Hrcv. cbn [mbind option_bind].
    rewrite Hout. cbn [mbind option_bind]. rewrite Hcfg. cbn [mbind option_bind].
    rewrite Hfinal. cbn [negb hd].
    rewrite (bool_decide_eq_true_2 _ Hroot). cbn [negb].
    replace (L2.w_amt w <? L1.two64)%Z with true
      by (symmetry; apply Z.ltb_lt; rewrite <- two64_same; lia).
    cbn [negb]. fold (claim_leaf c b w).
    rewrite (bool_decide_eq_false_2 _ Hnew).
    rewrite (bool_decide_eq_true_2 _ Hrp). cbn [negb].
    rewrite Hsend. reflexivity. }
  split.
  { unfold L1.step, claim_msg. cbn [L1.handle]. rewrite Hstep. reflexivity. }
  split; [exact Hsend|]. split; [|split; reflexivity].
  apply bank_send_Some in Hsend as (_ & _ & Hg). intros a d. apply Hg.
Qed.

(* ------------------------------------------------------------------------------------ *)
(* 6. non-vacuity: a concrete L2 history (a credited deposit, a user withdrawal, a refunded *)
(*    deposit) and a concrete L1 state meet every hypothesis of the two theorems            *)
(* ------------------------------------------------------------------------------------ *)
Module C04Example.
  Import Coq.Strings.String. Local Open Scope string_scope. Notation length := List.length.
  Definition H32 (x : bytes) : bytes := firstn_pad 32 x.
  Lemma H32_len x : length (H32 x) = 32%nat.
  Proof.
    unfold H32. generalize 32%nat. intros n. revert x. induction n as [|n IH]; intros x; [done|].
    destruct x; cbn; by rewrite IH.
  Qed.

  Definition tbl2 (s : bytes) : option N :=
    if bytes_eqb s (bs "exec") then Some 1%N else if bytes_eqb s (bs "alice") then Some 2%N else None.
  Definition c2 : L2.cfg :=
    {| L2.resolve := tbl2; L2.blocked := λ _, false; L2.authority := bs "auth"; L2.modacc := 100; L2.feecol := 101 |}.
  Definition s2 : L2.l2state :=
    {| L2.bk := bank_empty; L2.next_l1 := 1; L2.next_l2 := 1; L2.pairs := ∅;
       L2.prm := {| L2.p_admin := bs "exec"; L2.p_execs := [bs "exec"]; L2.p_maxv := 1; L2.p_hist := 1;
                    L2.p_mingas := []; L2.p_whitelist := []; L2.p_hookgas := 0 |};
       L2.info := None; L2.vs := vempty; L2.seqs := ∅; L2.wlog := []; L2.dlog := [] |}.
  Definition dep (seq : N) (to : bytes) (amt : Z) : L2.msg :=
    L2.MFinalizeDeposit {| L2.fd_sender := bs "exec"; L2.fd_from := bs "l1user"; L2.fd_to := to;
                           L2.fd_denom := bs "l2/abc"; L2.fd_amt := amt; L2.fd_seq := seq; L2.fd_height := 5;
                           L2.fd_base := bs "uinit"; L2.fd_hook := L2.HNone |}.
  Definition h2 : list L2.msg :=
    [dep 1 (bs "alice") 100; L2.MWithdraw (bs "alice") (bs "l1user") (bs "l2/abc") 40; dep 2 (bs "nobody") 7].
  (* the recorded withdrawals, oldest first: alice's 40 and the refund of 7 *)
  Definition ws : list L2.wrec := rev (L2.wlog (L2.run c2 s2 h2).1).
  Example ws_two : map (λ w, (L2.w_seq w, L2.w_amt w, L2.w_refund w)) ws = [(1%N, 40%Z, false); (2%N, 7%Z, true)].
  Proof. vm_compute. reflexivity. Qed.

  Lemma h2_fields : Forall (wrec_fields c2 (L2.run c2 s2 h2).1) (L2.wlog (L2.run c2 s2 h2).1).
  Proof.
    apply c04_recorded_fields; [reflexivity| |reflexivity|cbn; lia|intros d b Hx; cbn in Hx; by rewrite lookup_empty in Hx].
    repeat constructor; cbn; try discriminate; vm_compute; done.
  Qed.

  Definition tbl1 (s : bytes) : option N :=
    if bytes_eqb s (bs "l1user") then Some 1%N else if bytes_eqb s (bs "prop") then Some 2%N else None.
  Definition c1 : L1.cfg :=
    {| L1.resolve := tbl1; L1.gov := bs "gov"; L1.escrow := λ b, (1000 + b)%N; L1.pool := 50; L1.hash := H32;
       L1.parse := λ _, None |}.
  Definition w1 : L2.wrec :=
    {| L2.w_seq := 1; L2.w_from := bs "alice"; L2.w_to := bs "l1user"; L2.w_denom := bs "l2/abc";
       L2.w_base := bs "uinit"; L2.w_amt := 40; L2.w_refund := false |}.
  Definition w2 : L2.wrec :=
    {| L2.w_seq := 2; L2.w_from := bs "nobody"; L2.w_to := bs "l1user"; L2.w_denom := bs "l2/abc";
       L2.w_base := bs "uinit"; L2.w_amt := 7; L2.w_refund := true |}.
  Example ws_are : ws = [w1; w2].
  Proof. vm_compute. reflexivity. Qed.
  Definition leaves : list bytes := [claim_leaf c1 1 w1; claim_leaf c1 1 w2].
  Definition bh : bytes := repeat 9%N 32.
  Definition x1 : L1.config :=
    {| L1.c_proposer := bs "prop"; L1.c_challenger := bs "prop"; L1.c_period := 7000000000; L1.c_interval := 1;
       L1.c_start := 1; L1.c_batch := {| L1.b_submitter := bs "prop"; L1.b_chain := 1 |}; L1.c_oracle := false;
       L1.c_meta := [] |}.
  Definition o1 : L1.output :=
    {| L1.o_root := output_root H32 0 (build H32 leaves) bh; L1.o_l1h := 3; L1.o_time := 1000000000; L1.o_l2 := 10 |}.
  Definition s1 : L1.l1state :=
    {| L1.bk := {| bal := {[ (1001%N, bs "uinit") := 107%Z ]}; sup := ∅ |};
       L1.next_bridge := 2; L1.configs := {[ 1%N := x1 ]}; L1.next_seq := {[ 1%N := 3%N ]};
       L1.next_out := {[ 1%N := 2%N ]}; L1.outputs := {[ (1%N, 1%N) := o1 ]}; L1.proven := ∅; L1.pairs := ∅;
       L1.batches := ∅; L1.regfee := []; L1.chans := ∅; L1.admins := ∅; L1.elog := []; L1.plog := [] |}.
  Definition e1 : L1.env := {| L1.now := 8000000000; L1.height := 9 |}.

  (* the refund (position 1 of the two-leaf tree) meets every hypothesis of c04_claimable *)
  Example refund_claimable :
    ∃ s', L1.step c1 e1 s1 (claim_msg c1 (bs "prop") 1 1 w2 leaves 1 0 bh) = (s', L1.Ok L1.RNone) ∧
          getb (L1.bk s') 1 (bs "uinit") = 7%Z ∧ getb (L1.bk s') 1001 (bs "uinit") = 100%Z.
  Proof.
    assert (Hw2 : wrec_fields c2 (L2.run c2 s2 h2).1 w2).
    { pose proof h2_fields as Hf. rewrite List.Forall_forall in Hf. apply Hf.
      apply in_rev. fold ws. rewrite ws_are. right; left; reflexivity. }
    assert (A1 : (0 < L2.w_amt w2)%Z) by (vm_compute; reflexivity).
    assert (A2 : L1.resolve c1 (L2.w_to w2) = Some 1%N) by (vm_compute; reflexivity).
    assert (A3 : is_Some (L1.resolve c1 (bs "prop"))) by (vm_compute; eauto).
    assert (A4 : (1 ≤ 1)%N) by lia.
    assert (A5 : L1.configs s1 !! 1%N = Some x1) by apply lookup_singleton.
    assert (A6 : L1.outputs s1 !! (1%N, 1%N) = Some o1) by apply lookup_singleton.
    assert (A7 : L1.o_root o1 = output_root (L1.hash c1) 0 (build (L1.hash c1) leaves) bh) by reflexivity.
    assert (A8 : L1.is_final x1 e1 o1 = true) by (vm_compute; reflexivity).
    assert (A9 : Forall (λ y, length y = 32%nat) leaves) by (repeat constructor; apply H32_len).
    assert (A10 : (1 < length leaves)%nat) by (cbn [leaves length]; lia).
    assert (A11 : nth 1 leaves [] = claim_leaf c1 1 w2) by reflexivity.
    assert (A12 : (1%N, claim_leaf c1 1 w2) ∉ L1.proven s1) by apply not_elem_of_empty.
    assert (A13 : (L2.w_amt w2 ≤ getb (L1.bk s1) (L1.escrow c1 1) (L2.w_base w2))%Z) by (vm_compute; discriminate).
    assert (A14 : length bh = 32%nat) by reflexivity.
    destruct (c04_claimable c1 e1 s1 c2 (L2.run c2 s2 h2).1 w2 (bs "prop") 1 1 x1 o1 1 leaves 1 0 bh
                H32_len Hw2 A1 A2 A3 A4 A4 A5 A6 A7 A8 A9 A10 A11 A12 A13 A14) as (s' & Hs & _ & Hb & _).
    exists s'. split; [exact Hs|]. rewrite !Hb. split; vm_compute; reflexivity.
  Qed.
End C04Example.
