(* C05: the challenge window is honoured and finality is irreversible. *)
From stdpp Require Import gmap numbers list.
From Coq Require Import ZArith Lia.
Require Import Model.Bytes Model.Bank Model.Hashes Model.L1 Model.L1OutSpec Proofs.L1OutLemmas.

(* ---- the window ---- *)
Lemma window_arith now t p : ((t + p) / 1000000000 ≤ now / 1000000000 → t + p - 1000000000 < now)%Z.
Proof.
  intros H. pose proof (Z.div_mod now 1000000000 ltac:(lia)). pose proof (Z.mod_pos_bound now 1000000000 ltac:(lia)).
  pose proof (Z.div_mod (t + p) 1000000000 ltac:(lia)). pose proof (Z.mod_pos_bound (t + p) 1000000000 ltac:(lia)). lia.
Qed.

Lemma is_final_window x e o :
  is_final x e o = true →
  ((o_time o + c_period x) / second ≤ now e / second)%Z ∧ (o_time o + c_period x - second < now e)%Z.
Proof.
  unfold is_final. intros Hf%Z.leb_le. split; [done|]. unfold second in *. by apply window_arith.
Qed.

(* a positive period never lets an output be final earlier than one second before ... and, when
   at least one second long, never in the unix second it was proposed in *)
Lemma is_final_not_before x e o :
  is_final x e o = true → (second ≤ c_period x)%Z → (o_time o / second < now e / second)%Z.
Proof.
  unfold is_final, second. intros Hf%Z.leb_le Hp.
  assert ((o_time o + 1000000000) / 1000000000 ≤ (o_time o + c_period x) / 1000000000)%Z by (apply Z.div_le_mono; lia).
  replace (o_time o + 1000000000)%Z with (o_time o + 1 * 1000000000)%Z in * by lia.
  rewrite Z.div_add in * by lia. lia.
Qed.

Lemma c05_window c e s sender b idx sq proofs from to d amt v sr bh s' r :
  step c e s (MFinalize sender b idx sq proofs from to d amt v sr bh) = (s', Ok r) →
  ∃ o x, outputs s !! (b, idx) = Some o ∧ configs s !! b = Some x ∧
         ((o_time o + c_period x) / second ≤ now e / second)%Z ∧
         (o_time o + c_period x - second < now e)%Z.
Proof.
  intros H%step_Ok. cbn [handle] in H. apply finalize_Some in H as (o & x & Ho & Hx & Hf & _).
  exists o, x. split; [done|]. split; [done|]. by apply is_final_window.
Qed.

(* ---- periods ---- *)
Lemma init_cfg_ok : cfg_ok init_state.
Proof. by intros b x Hx. Qed.

Lemma c05_period_positive c h b x : configs (run c init_state h).1 !! b = Some x → (0 < c_period x)%Z.
Proof. intros Hx. by destruct (run_cfg_ok c h init_state init_cfg_ok b x Hx). Qed.

Lemma c05_period_positive_create c e s creator x s' r :
  step c e s (MCreateBridge creator x) = (s', Ok r) → (0 < c_period x)%Z.
Proof.
  intros H%step_Ok. cbn [handle] in H. unfold create_bridge in H.
  destruct (resolve c creator); cbn [mbind option_bind] in H; [|done].
  destruct (config_valid c x) eqn:Hv; cbn [negb] in H; [|done]. by eapply config_valid_period.
Qed.

Lemma c05_period_immutable_step c e s m b x :
  cfg_ok s → configs s !! b = Some x →
  ∃ x', configs (step c e s m).1 !! b = Some x' ∧ c_period x' = c_period x.
Proof. apply step_period. Qed.

Lemma c05_period_immutable c h1 h2 b x :
  configs (run c init_state h1).1 !! b = Some x →
  ∃ x', configs (run c init_state (h1 ++ h2)).1 !! b = Some x' ∧ c_period x' = c_period x.
Proof.
  intros Hx. rewrite run_app. apply run_period; [|done]. apply run_cfg_ok, init_cfg_ok.
Qed.

(* ---- deletable until final ---- *)
Lemma c05_deletable_until_final c e s ch b i x o :
  log_ok s b → valid_addr c ch = true → b ≠ 0%N → configs s !! b = Some x → may_delete c x ch →
  outputs s !! (b, i) = Some o → is_final x e o = false →
  step c e s (MDelete ch b i) = (delete_post s b i, Ok RNone).
Proof.
  intros Hok Hv Hb Hx Hau Ho Hnf. apply step_Ok. cbn [handle]. apply delete_Some. split; [|done].
  pose proof (log_ok_stored _ _ _ _ Hok Ho) as Hr.
  split; [done|]. split; [done|]. split; [lia|]. exists x. split; [done|]. split; [done|]. split; [lia|].
  intros j Hj. destruct (log_ok_lookup _ _ j Hok) as [oj Hoj]; [lia|]. exists oj. split; [done|].
  destruct (is_final x e oj) eqn:Hf; [|done]. exfalso.
  destruct (decide (j = i)) as [->|Hne]; [simplify_eq; congruence|].
  destruct Hok as (_ & _ & Hord). destruct (Hord i j o oj Ho Hoj) as [_ Ht]; [lia|].
  rewrite (is_final_time x e o oj Ht Hf) in Hnf. done.
Qed.

(* ---- a deleted output cannot be used until it is proposed again ---- *)
Lemma c05_deleted_gone c e s ch b i s1 r j :
  log_ok s b → step c e s (MDelete ch b i) = (s1, Ok r) → (i ≤ j)%N → outputs s1 !! (b, j) = None.
Proof.
  intros Hok H Hj. apply step_Ok in H. cbn [handle] in H. apply delete_Some in H as (_ & _ & ->).
  rewrite delete_post_lookup. destruct (decide _) as [|Hn]; [done|].
  destruct (outputs s !! (b, j)) as [o|] eqn:Ho; [|done]. exfalso. apply Hn.
  pose proof (log_ok_stored _ _ _ _ Hok Ho). unfold in_range. cbn. lia.
Qed.

(* only a successful proposal of exactly that index fills an empty slot, and what it stores
   carries the block time and height of that proposal *)
Lemma c05_only_propose_fills c e s m s' r b j o :
  outputs s !! (b, j) = None → step c e s m = (s', r) → outputs s' !! (b, j) = Some o →
  ∃ p l2 root, m = MPropose p b j l2 root ∧ r = Ok RNone ∧ o = new_output e root l2.
Proof.
  intros Hn H Ho. destruct r as [r|]; [|apply step_Err in H as [_ ->]; congruence].
  apply step_Ok in H. destruct (out_msg_dec m) as [Hm|Hm].
  - destruct m; try done; cbn [handle] in H.
    + apply propose_Some in H as (_ & -> & ->). rewrite propose_post_lookup in Ho.
      destruct (decide _) as [[= <- <-]|]; [|congruence]. injection Ho as <-. eauto 10.
    + apply delete_Some in H as (_ & _ & ->). rewrite delete_post_lookup in Ho.
      destruct (decide _); congruence.
  - destruct (handle_cfg_step _ _ _ _ _ _ H Hm) as (Hout & _). congruence.
Qed.

Lemma c05_absent_unusable c h s b j :
  outputs s !! (b, j) = None →
  Forall2 (λ em r, is_propose_at b j em.2 → r = Err) h (run c s h).2 →
  outputs (run c s h).1 !! (b, j) = None ∧
  Forall2 (λ em r, is_finalize_at b j em.2 → r = Err) h (run c s h).2.
Proof.
  revert s. induction h as [|[e m] h IH]; intros s Hn HF; [by split; [|constructor]|].
  rewrite run_cons in *. cbn [fst snd] in *. apply Forall2_cons in HF as [Hp HF].
  destruct (step c e s m) as [s1 r] eqn:E. cbn [fst snd] in *.
  assert (Hn1 : outputs s1 !! (b, j) = None).
  { destruct (outputs s1 !! (b, j)) as [o|] eqn:Ho; [|done]. exfalso.
    destruct (c05_only_propose_fills _ _ _ _ _ _ _ _ _ Hn E Ho) as (p & l2 & root & -> & -> & _).
    by specialize (Hp (conj eq_refl eq_refl)). }
  destruct (IH s1 Hn1 HF) as [IH1 IH2]. split; [done|]. constructor; [|done].
  intros Hfin. destruct m; try done. cbn in Hfin. destruct Hfin as [-> ->].
  destruct r as [r|]; [|done]. apply step_Ok in E. cbn [handle] in E. by rewrite finalize_absent in E.
Qed.

(* ---- finality is irreversible ---- *)
Definition attacks (b i : N) (m : msg) : Prop := is_propose_at b i m ∨ is_delete_covering b i m.

Lemma final_step c e s m s' r t b i x o e0 :
  l1inv s t → configs s !! b = Some x → outputs s !! (b, i) = Some o →
  is_final x e0 o = true → (now e0 ≤ now e)%Z → step c e s m = (s', r) →
  outputs s' !! (b, i) = Some o ∧
  (∃ x', configs s' !! b = Some x' ∧ c_period x' = c_period x) ∧
  (attacks b i m → r = Err).
Proof.
  intros (Hcfg & Hlog & _) Hx Ho Hf0 Hle E.
  pose proof (is_final_mono x e0 e o Hle Hf0) as Hf.
  pose proof (log_ok_stored _ _ _ _ (Hlog b) Ho) as Hr.
  destruct r as [r|]; [|apply step_Err in E as [_ ->]; eauto].
  apply step_Ok in E. split_and!.
  - destruct (out_msg_dec m) as [Hm|Hm].
    + destruct m; try done; cbn [handle] in E.
      * apply propose_Some in E as ((_ & _ & _ & y & _ & _ & Hi & _) & _ & ->).
        rewrite propose_post_lookup. destruct (decide _) as [[= <- <-]|]; [lia|done].
      * apply delete_Some in E as ((_ & _ & _ & y & Hy & _ & _ & Hall) & _ & ->).
        rewrite delete_post_lookup. destruct (decide _) as [(Hb & H1 & H2)|]; [|done]. cbn in *. subst b0.
        destruct (Hall i) as (o' & Ho' & Hnf); [lia|]. simplify_eq. congruence.
    + destruct (handle_cfg_step _ _ _ _ _ _ E Hm) as (Hout & _). by rewrite Hout.
  - by eapply handle_period.
  - intros [Ha|Ha]; destruct m; try done; cbn in Ha; exfalso; cbn [handle] in E.
    + destruct Ha as [-> ->]. apply propose_Some in E as ((_ & _ & _ & y & _ & _ & Hi & _) & _ & _). lia.
    + destruct Ha as [-> Hidx]. apply delete_Some in E as ((_ & _ & _ & y & Hy & _ & _ & Hall) & _ & _).
      destruct (Hall i) as (o' & Ho' & Hnf); [lia|]. simplify_eq. congruence.
Qed.

Lemma c05_final_irreversible c h s t b i x o e0 :
  l1inv s t → mono_from t h → (now e0 ≤ t)%Z →
  configs s !! b = Some x → outputs s !! (b, i) = Some o → is_final x e0 o = true →
  outputs (run c s h).1 !! (b, i) = Some o ∧
  (∃ x', configs (run c s h).1 !! b = Some x' ∧ c_period x' = c_period x ∧
         ∀ e', (now e0 ≤ now e')%Z → is_final x' e' o = true) ∧
  Forall2 (λ em r, attacks b i em.2 → r = Err) h (run c s h).2.
Proof.
  revert s t x. induction h as [|[e m] h IH]; intros s t x Hinv Hm Ht Hx Ho Hf.
  - cbn. split; [done|]. split; [|constructor]. exists x. split; [done|]. split; [done|].
    intros e' Hle. by eapply is_final_mono.
  - destruct Hm as [Hle Hm]. rewrite run_cons. cbn [fst snd].
    destruct (step c e s m) as [s1 r] eqn:E. cbn [fst snd].
    destruct (final_step c e s m s1 r t b i x o e0 Hinv Hx Ho Hf ltac:(lia) E) as (Ho1 & (x1 & Hx1 & Hp1) & Hatt).
    assert (Hinv1 : l1inv s1 (now e)) by (eapply step_l1inv; done).
    assert (Hf1 : is_final x1 e0 o = true) by (by rewrite (is_final_period x x1)).
    destruct (IH s1 (now e) x1 Hinv1 Hm ltac:(lia) Hx1 Ho1 Hf1) as (Hoe & (x2 & Hx2 & Hp2 & Hfe) & HF).
    split; [done|]. split; [|by constructor]. exists x2. split; [done|]. split; [congruence|done].
Qed.

(* ---- the last-finalized query ---- *)
Lemma last_final_spec s e b x i o :
  last_final s e b x = (i, o) →
  ((i = 0%N ∧ o = empty_output) ∨ ((0 < i)%N ∧ outputs s !! (b, i) = Some o ∧ is_final x e o = true)) ∧
  ∀ j oj, outputs s !! (b, j) = Some oj → is_final x e oj = true → (j ≤ i)%N.
Proof.
  unfold last_final.
  set (f := λ (k : N * N) (o : output) (acc : N * output),
            if bool_decide (k.1 = b) && is_final x e o && (acc.1 <? k.2)%N then (k.2, o) else acc).
  set (P := λ (acc : N * output) (m : gmap (N * N) output),
            ((acc.1 = 0%N ∧ acc.2 = empty_output) ∨ ((0 < acc.1)%N ∧ m !! (b, acc.1) = Some acc.2 ∧ is_final x e acc.2 = true)) ∧
            ∀ j oj, m !! (b, j) = Some oj → is_final x e oj = true → (j ≤ acc.1)%N).
  assert (HP : P (map_fold f (0%N, empty_output) (outputs s)) (outputs s)).
  { apply (map_fold_ind P).
    - split; [by left|]. intros j oj Hj. by rewrite lookup_empty in Hj.
    - intros k v m acc Hk (Hacc & Hmax). unfold f, P.
      destruct (bool_decide (k.1 = b) && is_final x e v && (acc.1 <? k.2)%N) eqn:Hc.
      + apply andb_true_iff in Hc as [Hc Hlt]. apply andb_true_iff in Hc as [Hb Hfv].
        apply bool_decide_eq_true in Hb. apply N.ltb_lt in Hlt. destruct k as [kb ki]. cbn in *. subst kb.
        split.
        * right. split; [lia|]. by rewrite lookup_insert.
        * intros j oj. destruct (decide (j = ki)) as [->|Hne]; [lia|].
          rewrite lookup_insert_ne by congruence. intros Hj Hfj. specialize (Hmax j oj Hj Hfj). lia.
      + split.
        * destruct Hacc as [?|(Hpos & Hl & Hfa)]; [by left|]. right. split; [done|]. split; [|done].
          rewrite lookup_insert_ne; [done|]. intros ->. congruence.
        * intros j oj. destruct (decide (k = (b, j))) as [->|Hne].
          -- rewrite lookup_insert. intros [= ->] Hfj. cbn in Hc. rewrite bool_decide_true, Hfj in Hc by done.
             cbn in Hc. apply N.ltb_ge in Hc. done.
          -- rewrite lookup_insert_ne by done. apply Hmax. }
  intros Heq. unfold P in HP. fold f in Heq. rewrite Heq in HP. exact HP.
Qed.

Lemma c05_last_finalized_is_max s e b x i o :
  last_final s e b x = (i, o) →
  (∀ j oj, outputs s !! (b, j) = Some oj → is_final x e oj = true → (j ≤ i)%N) ∧
  ((0 < i)%N → outputs s !! (b, i) = Some o ∧ is_final x e o = true) ∧
  (i = 0%N → o = empty_output).
Proof.
  intros [Hcase Hmax]%last_final_spec. split; [done|]. split.
  - intros Hpos. destruct Hcase as [[-> _]|(_ & ? & ?)]; [lia|done].
  - intros ->. destruct Hcase as [[_ ?]|(? & _)]; [done|lia].
Qed.

Lemma c05_last_finalized_none s e b x o :
  log_ok s b → last_final s e b x = (0%N, o) →
  ∀ j oj, outputs s !! (b, j) = Some oj → is_final x e oj = false.
Proof.
  intros Hok [_ Hmax]%last_final_spec j oj Hj. destruct (is_final x e oj) eqn:Hf; [|done].
  specialize (Hmax j oj Hj Hf). pose proof (log_ok_stored _ _ _ _ Hok Hj). lia.
Qed.

Lemma c05_last_finalized_some s e b x j oj :
  outputs s !! (b, j) = Some oj → is_final x e oj = true → (1 ≤ j)%N →
  ∃ i o, last_final s e b x = (i, o) ∧ (j ≤ i)%N ∧ outputs s !! (b, i) = Some o ∧ is_final x e o = true.
Proof.
  intros Hj Hf Hpos. destruct (last_final s e b x) as [i o] eqn:E. exists i, o. split; [done|].
  apply last_final_spec in E as [Hcase Hmax]. specialize (Hmax j oj Hj Hf). split; [done|].
  destruct Hcase as [[-> _]|(_ & ? & ?)]; [lia|done].
Qed.

(* answers of the handlers that are not config updates *)
Lemma create_bridge_resp c e s creator x s' r : create_bridge c e s creator x = Some (s', r) → ∃ n, r = RId n.
Proof.
  unfold create_bridge. destruct (resolve c creator) as [cr|]; cbn [mbind option_bind]; [|done].
  destruct (config_valid c x); cbn [negb]; [|done].
  case_match; [done|].
  match goal with |- context [foldl ?f ?a ?l] => destruct (foldl f a l) as [b1|] end; cbn [mbind option_bind]; [|done].
  match goal with |- context [hook_created c ?s2 x] => destruct (hook_created c s2 x) as [s3|] end;
    cbn [mbind option_bind]; [|done].
  intros [= <- <-]. eauto.
Qed.
Lemma deposit_resp c e s sender b to d amt data s' r :
  deposit c e s sender b to d amt data = Some (s', r) → ∃ n, r = RId n.
Proof.
  unfold deposit. destruct (resolve c sender) as [sd|]; cbn [mbind option_bind]; [|done].
  case_bool_decide; [done|]. case_match; [done|]. case_match; [done|].
  destruct (configs s !! b) as [x|]; cbn [mbind option_bind]; [|done].
  match goal with |- context [if ?g then bank_send ?a1 ?a2 ?a3 ?a4 ?a5 else ?z] =>
    destruct (if g then bank_send a1 a2 a3 a4 a5 else z) as [b1|] end; cbn [mbind option_bind]; [|done].
  intros [= <- <-]. eauto.
Qed.
Lemma finalize_resp c e s sender b idx sq proofs from to d amt v sr bh s' r :
  finalize c e s sender b idx sq proofs from to d amt v sr bh = Some (s', r) → r = RNone.
Proof.
  unfold finalize. case_match; [done|].
  destruct (resolve c to) as [rcv|]; cbn [mbind option_bind]; [|done].
  destruct (outputs s !! (b, idx)) as [o|]; cbn [mbind option_bind]; [|done].
  destruct (configs s !! b) as [x|]; cbn [mbind option_bind]; [|done].
  repeat (case_match; try done).
  destruct (bank_send (bk s) (escrow c b) rcv d amt) as [b1|]; cbn [mbind option_bind]; [|done]. by intros [= <- <-].
Qed.
Lemma update_oracle_resp c e s auth b f s' r : update_oracle c e s auth b f = Some (s', r) → r = RNone.
Proof.
  unfold update_oracle. do 2 (case_match; [done|]).
  destruct (configs s !! b) as [x|]; cbn [mbind option_bind]; [|done].
  repeat (case_match; try done). by intros [= <- <-].
Qed.

(* the role / config updates answer with the last finalized output of the state they leave *)
Lemma c05_update_answer c e s m s' i l2 :
  step c e s m = (s', Ok (RFinal i l2)) →
  ∃ b x' o, configs s' !! b = Some x' ∧ last_final s' e b x' = (i, o) ∧ l2 = o_l2 o ∧
            match m with
            | MUpdateProposer _ b' _ | MUpdateChallenger _ b' _ | MUpdateBatchInfo _ b' _
            | MUpdateMetadata _ b' _ => b' = b
            | _ => False
            end.
Proof.
  intros H%step_Ok.
  assert (Hans : ∀ b, upd_answer e s' b (RFinal i l2) →
                 ∃ x' o, configs s' !! b = Some x' ∧ last_final s' e b x' = (i, o) ∧ l2 = o_l2 o).
  { intros b [?|(x' & Hx' & Hr)]; [done|]. unfold final_resp in Hr.
    destruct (last_final s' e b x') as [i' o'] eqn:E. injection Hr as -> ->. eauto. }
  destruct m; cbn [handle] in H.
  - by apply create_bridge_resp in H as [n ?].
  - by apply propose_Some in H as (_ & ? & _).
  - by apply delete_Some in H as (_ & ? & _).
  - by apply deposit_resp in H as [n ?].
  - by apply finalize_resp in H.
  - apply update_proposer_cfg in H as [_ Ha]. destruct (Hans _ Ha) as (x' & o & ? & ? & ?). by exists b, x', o.
  - apply update_challenger_cfg in H as [_ Ha]. destruct (Hans _ Ha) as (x' & o & ? & ? & ?). by exists b, x', o.
  - apply update_batch_info_cfg in H as [_ Ha]. destruct (Hans _ Ha) as (x' & o & ? & ? & ?). by exists b, x', o.
  - by apply update_oracle_resp in H.
  - apply update_metadata_cfg in H as [_ Ha]. destruct (Hans _ Ha) as (x' & o & ? & ? & ?). by exists b, x', o.
  - unfold update_params in H. repeat (case_match; try done).
  - unfold record_batch in H. repeat (case_match; try done).
  - unfold bank_send_msg in H. case_match; [done|].
    destruct (bank_send (bk s) from to d amt); cbn [mbind option_bind] in H; done.
  - done.
  - done.
Qed.

(* ---- non-vacuity: a concrete time line around the boundary (toy 32-byte hash) ---- *)
Definition toy_hash (x : bytes) : bytes := firstn 32 (x ++ replicate 32 0%N).
Definition ex5_cfg : cfg :=
  {| resolve := λ a, match a with [n] => Some n | _ => None end; gov := [9%N]; escrow := λ b, (1000 + b)%N;
     pool := 50%N; hash := toy_hash; parse := λ _, None |}.
Definition ex5_config (period : Z) : config :=
  {| c_proposer := [1%N]; c_challenger := [2%N]; c_period := period; c_interval := 1; c_start := 1;
     c_batch := {| b_submitter := [1%N]; b_chain := 1 |}; c_oracle := false; c_meta := [] |}.
Definition uinit : bytes := [117; 105; 110; 105; 116]%N.
Definition ex5_state : l1state :=
  upd_bk init_state {| bal := {[ (1%N, uinit) := 1000%Z ]}; sup := ∅ |}.
Definition ex5_leaf : bytes := leaf_hash toy_hash 1 1 [8%N] [3%N] uinit 40.
Definition ex5_bhash : bytes := replicate 32 1%N.
Definition ex5_root : bytes := output_root toy_hash 0 ex5_leaf ex5_bhash.
Definition ex5_claim : msg := MFinalize [5%N] 1 1 1 [] [8%N] [3%N] uinit 40 [0%N] ex5_leaf ex5_bhash.
Definition at5 (t : Z) (hgt : N) : env := {| now := t; height := hgt |}.
Definition ex5_hist : list (env * msg) :=
  [ (at5 1000000000 1, MCreateBridge [1%N] (ex5_config 0));                 (* period 0: rejected *)
    (at5 1000000000 1, MCreateBridge [1%N] (ex5_config (-1)));              (* negative: rejected *)
    (at5 1000000000 1, MCreateBridge [1%N] (ex5_config 2000000000));
    (at5 1000000000 1, MDeposit [1%N] 1 [7%N] uinit 100 []);
    (at5 1500000000 2, MPropose [1%N] 1 1 10 ex5_root);
    (at5 2999999999 3, ex5_claim);                                          (* unix 2 < 3: too early *)
    (at5 2999999999 3, MDelete [2%N] 1 1);                                  (* not final: deletable *)
    (at5 3000000000 4, ex5_claim);                                          (* deleted: unusable *)
    (at5 3000000000 4, MPropose [1%N] 1 1 10 ex5_root);                     (* clock restarts *)
    (at5 4999999999 5, ex5_claim);                                          (* unix 4 < 5 *)
    (at5 5000000000 6, ex5_claim);                                          (* unix 5 >= 5: paid *)
    (at5 5000000000 6, MDelete [2%N] 1 1);                                  (* final: refused *)
    (at5 5000000000 6, MPropose [1%N] 1 1 11 ex5_root);                     (* cannot be replaced *)
    (at5 6000000000 7, MUpdateProposer [9%N] 1 [4%N]) ].

Example ex5_mono : mono_from 0 ex5_hist.
Proof. cbn. lia. Qed.
Example ex5_results :
  (run ex5_cfg ex5_state ex5_hist).2 =
  [Err; Err; Ok (RId 1); Ok (RId 1); Ok RNone; Err; Ok RNone; Err; Ok RNone; Err; Ok RNone; Err; Err;
   Ok (RFinal 1 10)].
Proof. vm_compute. reflexivity. Qed.
Example ex5_inv : l1inv ex5_state 0.
Proof.
  destruct (init_l1inv 0) as (H1 & H2 & H3). split; [done|]. split; [|done].
  intros b. apply (log_ok_ext init_state); [done..|]. apply H2.
Qed.
