(* C09: supply ledger, exact burns, gap-free shared L2 sequence, immutable denom map. *)
From stdpp Require Import gmap numbers list.
From Coq Require Import ZArith Lia.
Require Import Model.Bytes Model.Bank Model.Valset Model.L2 Proofs.L2Lemmas Proofs.DepositLemmas.

Local Open Scope Z_scope.

(* Σ amounts of the processed deposits of denom d that were credited and kept *)
Definition credited (d : bytes) (l : list drec) : Z :=
  foldr Z.add 0 (map d_amt (List.filter (λ r, d_ok r && bool_decide (d_denom r = d)) l)).
(* Σ amounts of the withdrawal records of denom d emitted by users (not refunds) *)
Definition withdrawn (d : bytes) (l : list wrec) : Z :=
  foldr Z.add 0 (map w_amt (List.filter (λ w, negb (w_refund w) && bool_decide (w_denom w = d)) l)).

Lemma credited_cons d r l :
  credited d (r :: l) = (if d_ok r then deltad d (d_denom r) (d_amt r) else 0) + credited d l.
Proof.
  unfold credited, deltad. cbn [List.filter]. destruct (d_ok r); cbn [andb].
  - case_bool_decide as E; destruct (decide (d = d_denom r)); try congruence; cbn; lia.
  - lia.
Qed.
Lemma withdrawn_cons d w l :
  withdrawn d (w :: l) = (if w_refund w then 0 else deltad d (w_denom w) (w_amt w)) + withdrawn d l.
Proof.
  unfold withdrawn, deltad. cbn [List.filter]. destruct (w_refund w); cbn [andb negb].
  - lia.
  - case_bool_decide as E; destruct (decide (d = w_denom w)); try congruence; cbn; lia.
Qed.

(* the conserved quantity *)
Definition ledger (d : bytes) (s : l2state) : Z :=
  gets (bk s) d - credited d (dlog s) + withdrawn d (wlog s).

Lemma withdraw_spec c s sender to d amt s' r :
  withdraw c s sender to d amt = Some (s', r) →
  ∃ a base, resolve c sender = Some a ∧ to ≠ [] ∧ valid_denom d = true ∧ 0 < amt < 18446744073709551616 ∧
    pairs s !! d = Some base ∧ amt ≤ getb (bk s) a d ∧ r = RSeq (next_l2 s) ∧
    next_l2 s' = (next_l2 s + 1)%N ∧
    wlog s' = {| w_seq := next_l2 s; w_from := sender; w_to := to; w_denom := d; w_base := base;
                 w_amt := amt; w_refund := false |} :: wlog s ∧
    (∀ a' d', getb (bk s') a' d' = getb (bk s) a' d' - delta a' d' a d amt) ∧
    (∀ d', gets (bk s') d' = gets (bk s) d' - deltad d' d amt) ∧
    next_l1 s' = next_l1 s ∧ pairs s' = pairs s ∧ prm s' = prm s ∧ info s' = info s ∧
    vs s' = vs s ∧ seqs s' = seqs s ∧ dlog s' = dlog s.
Proof.
  intros H. pose proof (withdraw_uint64 _ _ _ _ _ _ _ _ H) as Hu.
  apply withdraw_Some in H as (a & b1 & b2 & base & Ha & Hto & Hd & Hamt & Hb1 & Hb2 & Hp & -> & ->).
  apply bank_send_Some in Hb1 as (Hle & H1b & H1s). apply bank_burn_Some in Hb2 as (_ & H2b & H2s).
  exists a, base. cbn. repeat (split; [done|]). split.
  - intros a' d'. rewrite H2b, H1b. lia.
  - split; [|done]. intros d'. rewrite H2s, H1s. done.
Qed.

Lemma withdraw_ledger c s sender to d0 amt s' r d :
  withdraw c s sender to d0 amt = Some (s', r) → ledger d s' = ledger d s.
Proof.
  intros H. apply withdraw_spec in H as (a & base & _ & _ & _ & _ & _ & _ & _ & _ & Hw & _ & Hs & _ & _ & _ & _ & _ & _ & Hd).
  unfold ledger. rewrite Hw, Hd, withdrawn_cons, Hs. cbn. lia.
Qed.

Lemma fd_hook_run_ledger c s3 dep_ok h s4 ok d :
  fd_hook_run c s3 dep_ok h = (s4, ok) → ledger d s4 = ledger d s3.
Proof.
  apply (fd_hook_run_R c (λ s s', ledger d s' = ledger d s)); [done|congruence|done| |].
  - intros s b Hb. unfold ledger. cbn. by rewrite Hb.
  - intros ? ? ? ? ? ? ?. apply withdraw_ledger.
Qed.

Lemma fd_tail_ledger c s m s' r d : fd_tail c s m = Some (s', r) → ledger d s' = ledger d s.
Proof.
  unfold fd_tail. destruct (fd_dep c s m) as [s1 dep_ok] eqn:Hdep.
  destruct (fd_hook_run c (fd_gate s1 m) dep_ok (fd_hook m)) as [s4 hook_ok] eqn:Hhook.
  apply fd_dep_spec in Hdep as (F1 & Hd0 & Hd1).
  destruct F1 as (_ & _ & _ & _ & _ & _ & _ & F1w & F1d).
  apply (fd_hook_run_ledger _ _ _ _ _ _ d) in Hhook.
  destruct (reg_pair_frame (set_next_l1 s1 (next_l1 s1 + 1)%N) (fd_denom m) (fd_base m))
    as (G1 & _ & _ & _ & _ & _ & _ & G8 & G9). fold (fd_gate s1 m) in G1, G8, G9. cbn in G1, G8, G9.
  assert (L3 : ledger d (fd_gate s1 m) = gets (bk s1) d - credited d (dlog s) + withdrawn d (wlog s)).
  { unfold ledger. by rewrite G1, G8, G9, F1w, F1d. }
  destruct (dep_ok && hook_ok) eqn:Hok.
  - intros [= <- <-]. apply andb_true_iff in Hok as [-> ->].
    destruct (Hd1 eq_refl) as (a & _ & _ & Hsup).
    unfold ledger in *. cbn [bk push_deposit dlog wlog]. rewrite credited_cons. cbn [deposit_rec d_ok d_denom d_amt].
    rewrite Hsup in L3. lia.
  - intros H. apply bind_Some in H as (s5 & H5 & H). apply bind_Some in H as (base & _ & [= <- <-]).
    apply fd_reclaim_spec in H5 as (F5 & H50 & H51).
    destruct F5 as (_ & _ & _ & _ & _ & _ & _ & F5w & F5d).
    unfold ledger in *. cbn [bk push_deposit push_withdrawal dlog wlog]. rewrite credited_cons, withdrawn_cons.
    cbn [deposit_rec refund_rec d_ok w_refund]. rewrite F5w, F5d.
    destruct dep_ok.
    + destruct (H51 eq_refl) as (a & _ & _ & Hs5). destruct (Hd1 eq_refl) as (a' & _ & _ & Hs1).
      rewrite Hs5. rewrite Hs1 in L3. lia.
    + rewrite (H50 eq_refl). rewrite (Hd0 eq_refl) in *. lia.
Qed.

Section history.
  Variable c : cfg.

  (* -- supply -- *)
  Lemma handle_ledger d m s s' r : handle c s m = Some (s', r) → ledger d s' = ledger d s.
  Proof.
    apply (handle_R c (λ s s', ledger d s' = ledger d s)); [done|congruence|].
    clear. intros s m s' r Hleaf H. apply leaf_cases in H.
    destruct m; try (destruct H as [[F Hs]|F]; unfold ledger;
      [destruct F as (_&_&_&_&_&_&_&->&->); by rewrite Hs
      |destruct F as (->&_&_&_&_&->&->); done]).
    - apply finalize_deposit_tail in H as [[_ ->]|(_ & _ & _ & H)]; [done|]. eapply fd_tail_ledger; eauto.
    - eapply withdraw_ledger; eauto.
    - by destruct (Hleaf sender inner).
  Qed.

  Lemma run_ledger d h s : ledger d (run c s h).1 = ledger d s.
  Proof.
    apply (run_R c (λ s s', ledger d s' = ledger d s)); [done|congruence|].
    intros ? ? ? ? _. apply handle_ledger.
  Qed.

  Lemma c09_supply_between d h s :
    gets (bk (run c s h).1) d =
    gets (bk s) d + (credited d (dlog (run c s h).1) - credited d (dlog s))
                  - (withdrawn d (wlog (run c s h).1) - withdrawn d (wlog s)).
  Proof. pose proof (run_ledger d h s) as H. unfold ledger in H. lia. Qed.

  Lemma c09_supply d h s s0 :
    gets (bk s) d = s0 → dlog s = [] → wlog s = [] →
    gets (bk (run c s h).1) d = s0 + credited d (dlog (run c s h).1) - withdrawn d (wlog (run c s h).1).
  Proof. intros H1 H2 H3. rewrite c09_supply_between, H1, H2, H3. cbn. lia. Qed.

  (* -- pairs -- *)
  Definition pairs_kept (s s' : l2state) : Prop :=
    ∀ d x, pairs s !! d = Some x → pairs s' !! d = Some x.

  Lemma fd_tail_pairs s m s' r : fd_tail c s m = Some (s', r) → pairs s' = pairs (fd_gate s m).
  Proof.
    unfold fd_tail. destruct (fd_dep c s m) as [s1 dep_ok] eqn:Hdep.
    destruct (fd_hook_run c (fd_gate s1 m) dep_ok (fd_hook m)) as [s4 hook_ok] eqn:Hhook.
    apply fd_dep_spec in Hdep as (F1 & _ & _).
    destruct F1 as (F1a & _ & F1p & _).
    apply fd_hook_run_spec in Hhook as (F4 & _).
    destruct F4 as (_ & F4p & _).
    assert (Hg : pairs (fd_gate s1 m) = pairs (fd_gate s m)).
    { unfold fd_gate, reg_pair. cbn. rewrite F1p. destruct (pairs s !! fd_denom m); cbn; congruence. }
    destruct (dep_ok && hook_ok).
    - intros [= <- <-]. cbn. congruence.
    - intros H. apply bind_Some in H as (s5 & H5 & H). apply bind_Some in H as (base & _ & [= <- <-]).
      apply fd_reclaim_spec in H5 as (F5 & _). destruct F5 as (_ & _ & F5p & _). cbn. congruence.
  Qed.

  Lemma handle_pairs_kept m s s' r : handle c s m = Some (s', r) → pairs_kept s s'.
  Proof.
    apply (handle_R c pairs_kept); [by intros ? ? ?|by intros ? ? ? H1 H2 ? ? ?; apply H2, H1|].
    clear. intros s m s' r Hleaf H. apply leaf_cases in H.
    destruct m; try (destruct H as [[F _]|F];
      [destruct F as (_&_&Hp&_)|destruct F as (_&_&_&Hp&_)]; intros ? ?; by rewrite Hp).
    - apply finalize_deposit_tail in H as [[_ ->]|(_ & _ & _ & H)]; [by intros ? ?|].
      apply fd_tail_pairs in H. intros d x Hd. rewrite H. unfold fd_gate. by apply reg_pair_keeps.
    - apply withdraw_spec in H as (a & base & H). destruct H as (_&_&_&_&_&_&_&_&_&_&_&_&Hp&_).
      intros ? ?; by rewrite Hp.
    - by destruct (Hleaf sender inner).
  Qed.

  Lemma c09_pairs_immutable h s d x :
    pairs s !! d = Some x → pairs (run c s h).1 !! d = Some x.
  Proof.
    revert d x. change (pairs_kept s (run c s h).1).
    apply (run_R c pairs_kept); [by intros ? ? ?|by intros ? ? ? H1 H2 ? ? ?; apply H2, H1|].
    intros ? ? ? ? _. apply handle_pairs_kept.
  Qed.

  (* a later deposit naming another base denom for a mapped L2 denom leaves the entry alone *)
  Lemma c09_deposit_keeps_pair s m s' r x :
    pairs s !! fd_denom m = Some x → step c s (MFinalizeDeposit m) = (s', r) →
    pairs s' !! fd_denom m = Some x.
  Proof.
    intros Hp Hs. pose proof (c09_pairs_immutable [MFinalizeDeposit m] s _ _ Hp) as H.
    cbn in H. rewrite Hs in H. exact H.
  Qed.

  (* the first deposit of a denom sets the entry to the base denom it names *)
  Lemma c09_first_deposit_sets_pair s m s' :
    pairs s !! fd_denom m = None → step c s (MFinalizeDeposit m) = (s', Ok RSuccess) →
    pairs s' !! fd_denom m = Some (fd_base m).
  Proof.
    intros Hp. unfold step. cbn [handle]. destruct (finalize_deposit c s m) as [[s1 r]|] eqn:E; [|discriminate].
    intros [= <- ->]. apply finalize_deposit_tail in E as [[? _]|(_ & _ & _ & H)]; [discriminate|].
    apply fd_tail_pairs in H. rewrite H. unfold fd_gate. rewrite reg_pair_lookup. cbn. by rewrite Hp.
  Qed.

  (* -- the shared L2 sequence -- *)
  Definition emitted_between (s s' : l2state) : Prop :=
    ∃ k, next_l2 s' = (next_l2 s + N.of_nat k)%N ∧
         map w_seq (wlog s') = rev (upto k (next_l2 s)) ++ map w_seq (wlog s).

  Lemma emitted_refl s s' : next_l2 s' = next_l2 s → wlog s' = wlog s → emitted_between s s'.
  Proof. intros H1 H2. exists 0%nat. cbn. rewrite H1, H2. split; [lia|done]. Qed.

  Lemma emitted_one s s' w :
    next_l2 s' = (next_l2 s + 1)%N → wlog s' = w :: wlog s → w_seq w = next_l2 s → emitted_between s s'.
  Proof. intros H1 H2 H3. exists 1%nat. split; [lia|]. rewrite H2. cbn. by rewrite H3. Qed.

  Lemma emitted_trans s1 s2 s3 :
    emitted_between s1 s2 → emitted_between s2 s3 → emitted_between s1 s3.
  Proof.
    intros (k1 & Hn1 & Hl1) (k2 & Hn2 & Hl2). exists (k1 + k2)%nat. split; [lia|].
    rewrite Hl2, Hl1, Hn1, upto_app, rev_app_distr, app_assoc. done.
  Qed.

  Lemma handle_emitted m s s' r : handle c s m = Some (s', r) → emitted_between s s'.
  Proof.
    apply (handle_R c emitted_between); [by intros; apply emitted_refl|apply emitted_trans|].
    clear. intros s m s' r Hleaf H. apply leaf_cases in H.
    destruct m; try (destruct H as [[F _]|F];
      [destruct F as (_&Hn&_&_&_&_&_&Hw&_)|destruct F as (_&_&Hn&_&_&Hw&_)]; by apply emitted_refl).
    - apply finalize_deposit_Some in H as (_ & _ & [(_ & -> & _)|(_ & _ & _ & ok & _ & _ & _ & _ & Hc)]).
      { by apply emitted_refl. }
      destruct Hc as [(_ & ws & Hw & Hn & _ & Hs)|(_ & Hn & base & Hw)]; [|eapply emitted_one; eauto].
      exists (length ws). split; [done|]. by rewrite Hw, map_app, Hs.
    - apply withdraw_spec in H as (a & base & H). destruct H as (_&_&_&_&_&_&_&Hn&Hw&_).
      eapply emitted_one; eauto.
    - by destruct (Hleaf sender inner).
  Qed.

  Lemma run_emitted h s : emitted_between s (run c s h).1.
  Proof.
    apply (run_R c emitted_between); [by intros; apply emitted_refl|apply emitted_trans|].
    intros ? ? ? ? _. apply handle_emitted.
  Qed.

  Lemma c09_l2_seq_gapfree h s :
    next_l2 s = 1%N → wlog s = [] →
    ∃ k : nat, next_l2 (run c s h).1 = (1 + N.of_nat k)%N ∧
               rev (map w_seq (wlog (run c s h).1)) = upto k 1.
  Proof.
    intros Hn Hw. destruct (run_emitted h s) as (k & Hk & Hl). exists k.
    rewrite Hn in *. split; [done|]. rewrite Hl, Hw. cbn. by rewrite app_nil_r, rev_involutive.
  Qed.

  (* -- single withdrawal -- *)
  Lemma c09_withdraw_exact s sender to d amt s' q :
    step c s (MWithdraw sender to d amt) = (s', Ok q) →
    ∃ a base, resolve c sender = Some a ∧ pairs s !! d = Some base ∧ 0 < amt < 18446744073709551616 ∧
      amt ≤ getb (bk s) a d ∧
      q = RSeq (next_l2 s) ∧ next_l2 s' = (next_l2 s + 1)%N ∧
      wlog s' = {| w_seq := next_l2 s; w_from := sender; w_to := to; w_denom := d; w_base := base;
                   w_amt := amt; w_refund := false |} :: wlog s ∧
      (∀ a' d', getb (bk s') a' d' = getb (bk s) a' d' - (if decide ((a', d') = (a, d)) then amt else 0)) ∧
      (∀ d', gets (bk s') d' = gets (bk s) d' - (if decide (d' = d) then amt else 0)) ∧
      next_l1 s' = next_l1 s ∧ pairs s' = pairs s ∧ prm s' = prm s ∧ info s' = info s ∧
      vs s' = vs s ∧ seqs s' = seqs s ∧ dlog s' = dlog s.
  Proof.
    unfold step. cbn [handle]. destruct (withdraw c s sender to d amt) as [[s1 r]|] eqn:E; [|discriminate].
    intros [= <- ->]. apply withdraw_spec in E as (a & base & H). exists a, base.
    destruct H as (?&?&?&?&?&?&?&?&?&?&?&?&?&?&?&?&?&?). auto 20.
  Qed.

  Lemma c09_non_l1_rejected s sender to d amt :
    pairs s !! d = None → step c s (MWithdraw sender to d amt) = (s, Err).
  Proof.
    intros Hp. unfold step. cbn [handle]. destruct (withdraw c s sender to d amt) as [[s1 r]|] eqn:E; [|done].
    apply withdraw_spec in E as (a & base & H). destruct H as (_&_&_&_&Hb&_). congruence.
  Qed.

  (* what makes a withdrawal succeed: exactly these guards *)
  Lemma c09_withdraw_accepts s sender to d amt a base :
    resolve c sender = Some a → to ≠ [] → valid_denom d = true → 0 < amt < 18446744073709551616 →
    amt ≤ getb (bk s) a d → 0 ≤ getb (bk s) (modacc c) d → pairs s !! d = Some base →
    ∃ s', step c s (MWithdraw sender to d amt) = (s', Ok (RSeq (next_l2 s))).
  Proof.
    intros Ha Hto Hd Hamt Hle Hmod Hp. unfold step. cbn [handle]. unfold withdraw. rewrite Ha. cbn.
    rewrite bool_decide_false by done. rewrite Hd. destruct Hamt as [Hamt Hu].
    apply Z.ltb_lt in Hamt as Hamt'. apply Z.ltb_lt in Hu as Hu'. rewrite Hamt', Hu'. cbn.
    destruct (bank_send_ok (bk s) a (modacc c) d amt Hle) as (b1 & Hb1). rewrite Hb1. cbn.
    apply bank_send_Some in Hb1 as (_ & H1b & _).
    assert (Hm : amt ≤ getb b1 (modacc c) d).
    { rewrite H1b. rewrite delta_eq. unfold delta. destruct (decide _); simplify_eq; lia. }
    destruct (bank_burn_ok b1 (modacc c) d amt Hm) as (b2 & ->). cbn. rewrite Hp. cbn. eauto.
  Qed.
End history.

(* ---- non-vacuity: a concrete history ---- *)
Definition ex_cfg : cfg :=
  {| resolve := λ s, match s with [n] => if (n <? 10)%N then Some n else None | _ => None end;
     blocked := λ a, (100 <=? a)%N; authority := [9%N]; modacc := 100%N; feecol := 101%N |}.
Definition ex_params : params :=
  {| p_admin := [3%N]; p_execs := [[1%N]]; p_maxv := 3; p_hist := 1; p_mingas := []; p_whitelist := [];
     p_hookgas := 100000 |}.
Definition ex_init : l2state :=
  {| bk := bank_empty; next_l1 := 1; next_l2 := 1; pairs := ∅; prm := ex_params; info := None;
     vs := vempty; seqs := ∅; wlog := []; dlog := [] |}.
Definition dA : bytes := [108; 50; 47; 97]%N.   (* "l2/a" *)
Definition dB : bytes := [108; 50; 47; 98]%N.
Definition ex_dep (seq : N) (to : bytes) (d base : bytes) (amt : Z) (h : hookp) : msg :=
  MFinalizeDeposit {| fd_sender := [1%N]; fd_from := [77%N]; fd_to := to; fd_denom := d; fd_amt := amt;
                      fd_seq := seq; fd_height := 5; fd_base := base; fd_hook := h |}.
(* credited deposit, refunded deposit (bad recipient), deposit renaming the base denom, a
   transfer, a withdrawal, an over-withdrawal, a withdrawal of an unmapped denom, a hook failure *)
Definition ex_hist : list msg :=
  [ ex_dep 1 [4%N] dA [117; 97; 97]%N 50 HNone;
    ex_dep 2 [55%N] dA [117; 97; 97]%N 7 HNone;
    ex_dep 3 [5%N] dA [117; 98; 98]%N 20 HNone;
    MBankSend 4 5 dA 10;
    MWithdraw [5%N] [88%N] dA 25;
    MWithdraw [5%N] [88%N] dA 26;
    MWithdraw [5%N] [88%N] dB 1;
    ex_dep 4 [4%N] dA [117; 97; 97]%N 9 (HTx 4 0 true [HSend 5 dA 1000]) ].

Example c09_example :
  let s := (run ex_cfg ex_init ex_hist).1 in
  (run ex_cfg ex_init ex_hist).2 =
    [Ok RSuccess; Ok RSuccess; Ok RSuccess; Ok RNone; Ok (RSeq 2); Err; Err; Ok RSuccess] ∧
  gets (bk s) dA = 45 ∧ credited dA (dlog s) = 70 ∧ withdrawn dA (wlog s) = 25 ∧
  rev (map w_seq (wlog s)) = [1; 2; 3]%N ∧ next_l2 s = 4%N ∧
  pairs s !! dA = Some [117; 97; 97]%N ∧ getb (bk s) 5 dA = 5 ∧ getb (bk s) 4 dA = 40.
Proof. vm_compute. repeat split; reflexivity. Qed.
