(* C18: results do not depend on the iteration order of Go maps where the code sorts. *)
From stdpp Require Import gmap numbers sorting list.
From Coq Require Import ZArith.
Require Import Model.Bytes Model.Bank Model.Valset Model.ValsetOrder Model.L1 Model.L2.

Section sort.
  Context {A : Type}.
  Implicit Types l : list (N * A).

  Global Instance key_le_trans : Transitive (@key_le A).
  Proof. intros x y z. unfold key_le. lia. Qed.
  Global Instance key_le_total : Total (@key_le A).
  Proof. intros x y. unfold key_le. lia. Qed.

  Lemma nodup_fst_inj l x y : NoDup l.*1 → x ∈ l → y ∈ l → x.1 = y.1 → x = y.
  Proof.
    induction l as [|z l IH]; intros Hnd Hx Hy Heq; [by apply elem_of_nil in Hx|].
    rewrite fmap_cons in Hnd. apply NoDup_cons in Hnd as [Hnotin Hnd].
    apply elem_of_cons in Hx as [->|Hx]; apply elem_of_cons in Hy as [->|Hy]; try done.
    - exfalso. apply Hnotin. rewrite Heq. by apply elem_of_list_fmap_1.
    - exfalso. apply Hnotin. rewrite <- Heq. by apply elem_of_list_fmap_1.
    - by apply IH.
  Qed.

  (* two sorted arrangements of the same key-distinct entries are the same list *)
  Lemma sorted_perm_unique l1 l2 :
    StronglySorted key_le l1 → StronglySorted key_le l2 → l1 ≡ₚ l2 → NoDup l1.*1 → l1 = l2.
  Proof.
    intros Hs1. revert l2. induction Hs1 as [|x1 l1 Hs1 IH Hx1]; intros l2 Hs2 Hp Hnd.
    { symmetry. by apply Permutation_nil_l in Hp. }
    destruct Hs2 as [|x2 l2 Hs2 Hx2]; [by apply Permutation_nil_r in Hp|].
    assert (Hin1 : x1 ∈ x2 :: l2) by (rewrite <- Hp; left).
    assert (Hin2 : x2 ∈ x1 :: l1) by (rewrite Hp; left).
    assert (x1 = x2) as ->.
    { apply elem_of_cons in Hin1 as [?|Hin1]; [done|].
      apply elem_of_cons in Hin2 as [?|Hin2]; [done|].
      rewrite Forall_forall in Hx1, Hx2.
      apply (nodup_fst_inj (x1 :: l1)); [done|left|by right|].
      specialize (Hx1 _ Hin2). specialize (Hx2 _ Hin1). unfold key_le in *. lia. }
    f_equal. apply IH; [done|by apply (inj (cons x2))|].
    rewrite fmap_cons in Hnd. by apply NoDup_cons in Hnd as [_ ?].
  Qed.

  (* sorting by key is invariant under permutation of a key-distinct list *)
  Lemma merge_sort_perm_invariant l1 l2 :
    l1 ≡ₚ l2 → NoDup l1.*1 → merge_sort key_le l1 = merge_sort key_le l2.
  Proof.
    intros Hp Hnd. apply sorted_perm_unique.
    - apply StronglySorted_merge_sort; apply _.
    - apply StronglySorted_merge_sort; apply _.
    - by rewrite !merge_sort_Permutation.
    - by rewrite merge_sort_Permutation.
  Qed.
End sort.

Lemma end_block_order_independent iter s :
  is_enumeration iter → end_block_updates_iter iter s = end_block_updates s.
Proof.
  intros Hiter. unfold end_block_updates_iter, end_block_updates, sorted_ops.
  destruct (foldl (pass1_step (last s)) (s, [], last s) (merge_sort key_le (map_to_list (vals s))))
    as [[s1 ups] rest].
  f_equal. f_equal. apply merge_sort_perm_invariant; [apply Hiter|].
  rewrite (Hiter rest). apply NoDup_fst_map_to_list.
Qed.

Lemma end_block_two_orders iter1 iter2 s :
  is_enumeration iter1 → is_enumeration iter2 →
  end_block_updates_iter iter1 s = end_block_updates_iter iter2 s.
Proof. intros H1 H2. by rewrite !end_block_order_independent. Qed.

(* ---- the sort is needed: without it two enumerations give different update lists ---- *)
Definition ex_state : vstate :=
  {| vals := list_to_map [(1%N, {| v_key := 11%N; v_pow := 0 |}); (2%N, {| v_key := 12%N; v_pow := 0 |});
                          (3%N, {| v_key := 13%N; v_pow := 0 |}); (4%N, {| v_key := 14%N; v_pow := 1 |})];
     idx := list_to_map [(11%N, 1%N); (12%N, 2%N); (13%N, 3%N); (14%N, 4%N)];
     last := list_to_map [(1%N, 1%Z); (2%N, 1%Z); (3%N, 1%Z); (4%N, 1%Z)] |}.
Definition iter_fwd (m : gmap N Z) : list (N * Z) := map_to_list m.
Definition iter_rev (m : gmap N Z) : list (N * Z) := reverse (map_to_list m).

Lemma iter_fwd_enum : is_enumeration iter_fwd.
Proof. by intros m. Qed.
Lemma iter_rev_enum : is_enumeration iter_rev.
Proof. intros m. apply reverse_Permutation. Qed.

Lemma unsorted_order_dependent :
  snd <$> end_block_updates_unsorted iter_fwd ex_state ≠ snd <$> end_block_updates_unsorted iter_rev ex_state.
Proof. vm_compute. intros H. discriminate H. Qed.

(* with the sort: three simultaneous removals come out in operator order under both *)
Example sorted_three_removals :
  snd <$> end_block_updates_iter iter_rev ex_state = Some [(11%N, 0%Z); (12%N, 0%Z); (13%N, 0%Z)] ∧
  snd <$> end_block_updates_iter iter_fwd ex_state = Some [(11%N, 0%Z); (12%N, 0%Z); (13%N, 0%Z)].
Proof. split; vm_compute; reflexivity. Qed.

(* ---- the model's transitions are functions ---- *)
Lemma l1_run_functional (c : L1.cfg) s h r1 r2 : L1.run c s h = r1 → L1.run c s h = r2 → r1 = r2.
Proof. congruence. Qed.
Lemma l2_run_functional (c : L2.cfg) s h r1 r2 : L2.run c s h = r1 → L2.run c s h = r2 → r1 = r2.
Proof. congruence. Qed.
Lemma end_block_functional s r1 r2 : end_block_updates s = r1 → end_block_updates s = r2 → r1 = r2.
Proof. congruence. Qed.
