(* Proofs about Model/Lanes.v (property C20: lanes and redundant-relay filter). *)
From Coq Require Import List NArith Bool Lia.
Require Import Model.Bytes Model.Lanes.
Import ListNotations.
Local Open Scope N_scope.

Lemma bytes_eqb_eq : forall a b, bytes_eqb a b = true <-> a = b.
Proof.
  induction a as [|x a IH]; intros [|y b]; cbn [bytes_eqb]; split; try congruence; try reflexivity.
  - intros H. apply andb_true_iff in H as [Hx Hab]. apply N.eqb_eq in Hx. apply IH in Hab. congruence.
  - intros H. inversion H; subst. apply andb_true_iff. split; [apply N.eqb_refl|now apply IH].
Qed.

(* ---------- system lane ---------- *)

Lemma system_match_iff : forall msgs,
  system_match msgs = true <-> msgs = [UpdateOracle] \/ msgs = [Exec [UpdateOracle]].
Proof.
  intros msgs. split.
  - unfold system_match. intros H.
    repeat (match type of H with context [match ?x with _ => _ end] => destruct x end; try discriminate H);
      auto.
  - intros [->| ->]; reflexivity.
Qed.

Lemma system_match_length : forall msgs, system_match msgs = true -> length msgs = 1%nat.
Proof. intros msgs H. apply system_match_iff in H as [->| ->]; reflexivity. Qed.

Lemma system_match_two_levels : forall inner, system_match [Exec [Exec inner]] = false.
Proof. reflexivity. Qed.

Lemma system_match_undecodable : system_match [ExecUndecodable] = false.
Proof. reflexivity. Qed.

(* ---------- free lane ---------- *)

Definition granter_string (granter : option bytes) : bytes :=
  match granter with Some g => g | None => [] end.

Lemma free_match_exact : forall wl payer granter,
  free_match (Some wl) payer granter = true <-> In payer wl \/ In (granter_string granter) wl.
Proof.
  intros wl payer granter. unfold free_match. fold (granter_string granter).
  rewrite existsb_exists. split.
  - intros [a [Hin Hc]]. apply orb_true_iff in Hc as [H|H]; apply bytes_eqb_eq in H; subst; tauto.
  - intros [H|H]; eexists; (split; [exact H|]); apply orb_true_iff; [left|right]; now apply bytes_eqb_eq.
Qed.

Lemma free_match_iff : forall wl payer granter, ~ In [] wl ->
  (free_match (Some wl) payer granter = true <->
   In payer wl \/ exists g, granter = Some g /\ In g wl).
Proof.
  intros wl payer granter Hne. rewrite free_match_exact. split; intros [H|H]; try tauto.
  - destruct granter as [g|]; cbn [granter_string] in H; [right; now exists g|contradiction].
  - destruct H as [g [-> Hin]]. now right.
Qed.

Lemma free_match_no_whitelist : forall payer granter, free_match None payer granter = false.
Proof. reflexivity. Qed.

(* ---------- redundant-relay filter ---------- *)

Definition all_stale (n : N) (ds : list (bool * N)) : Prop :=
  forall v s, In (v, s) ds -> v = true /\ s < n.

Lemma scan_skip : forall n m rest red pk,
  (forall v s, m <> Deposit v s) -> scan n (m :: rest) red pk = scan n rest red pk.
Proof. intros n m rest red pk H. destruct m; try reflexivity. exfalso. eapply H. reflexivity. Qed.

(* counting: packetMsgs grows by the number of deposit messages, redundancies by at most that *)
Lemma scan_counts : forall msgs n red pk r p,
  scan n msgs red pk = Some (r, p) ->
  p = pk + N.of_nat (length (deposits msgs)) /\ red <= r /\ r + pk <= p + red.
Proof.
  induction msgs as [|m msgs IH]; intros n red pk r p H.
  - cbn in H. inversion H; subst. cbn. lia.
  - destruct m as [|inner| |v s|]; cbn [scan deposits] in *; try (apply IH in H; exact H).
    destruct (dep_handle n v s) as [[n' noop]|]; [|discriminate].
    apply IH in H. cbn [length]. destruct noop; lia.
Qed.

(* no handler error <-> every deposit is valid and stale-or-next when its turn comes *)
Lemma scan_some_iff : forall msgs n red pk,
  (exists rp, scan n msgs red pk = Some rp) <-> in_order n (deposits msgs).
Proof.
  induction msgs as [|m msgs IH]; intros n red pk.
  - cbn. split; [auto|]. intros _. eexists; reflexivity.
  - destruct m as [|inner| |v s|]; cbn [scan deposits]; try apply IH.
    cbn [in_order]. unfold dep_handle. destruct v; cbn [negb].
    + destruct (N.ltb_spec s n) as [Hlt|Hge].
      * assert (E : (s =? n) = false) by (apply N.eqb_neq; lia). rewrite E.
        rewrite IH. split; [intros H; repeat split; [lia|exact H]|tauto].
      * destruct (N.ltb_spec n s) as [Hlt2|Hge2].
        -- split; [intros [rp H]; discriminate|intros (_ & Hle & _); lia].
        -- assert (s = n) by lia. subst s. rewrite N.eqb_refl. rewrite IH.
           split; [intros H; repeat split; [lia|exact H]|tauto].
    + split; [intros [rp H]; discriminate|intros (Hv & _); discriminate].
Qed.

(* all counted as redundant <-> all stale with respect to the sequence at entry *)
Lemma scan_all_stale : forall msgs n red pk, all_stale n (deposits msgs) ->
  scan n msgs red pk = Some (red + N.of_nat (length (deposits msgs)), pk + N.of_nat (length (deposits msgs))).
Proof.
  induction msgs as [|m msgs IH]; intros n red pk Hall.
  - cbn. f_equal. f_equal; lia.
  - destruct m as [|inner| |v s|]; cbn [scan deposits] in *; try (now apply IH).
    destruct (Hall v s (or_introl eq_refl)) as [-> Hlt].
    unfold dep_handle. cbn [negb]. apply N.ltb_lt in Hlt. rewrite Hlt.
    rewrite IH by (intros v' s' Hin; apply Hall; now right).
    cbn [length]. f_equal. f_equal; lia.
Qed.

Lemma scan_equal_counts_stale : forall msgs n red pk r p,
  scan n msgs red pk = Some (r, p) -> r + pk = p + red -> all_stale n (deposits msgs).
Proof.
  induction msgs as [|m msgs IH]; intros n red pk r p H Heq.
  - intros v s [].
  - destruct m as [|inner| |v s|]; cbn [scan deposits] in *; try (eapply IH; eassumption).
    unfold dep_handle in H. destruct v; cbn [negb] in H; [|discriminate].
    destruct (N.ltb_spec s n) as [Hlt|Hge].
    + intros v' s' [Hin|Hin]; [inversion Hin; subst; split; [reflexivity|exact Hlt]|].
      eapply IH; [exact H|lia|exact Hin].
    + destruct (n <? s); [discriminate|]. apply scan_counts in H. lia.
Qed.

(* a fresh message keeps the redundancy count strictly below the message count *)
Lemma scan_fresh_lt : forall msgs n red pk r p,
  scan n msgs red pk = Some (r, p) -> has_fresh n (deposits msgs) -> r + pk < p + red.
Proof.
  induction msgs as [|m msgs IH]; intros n red pk r p H Hf.
  - destruct Hf.
  - destruct m as [|inner| |v s|]; cbn [scan deposits] in *; try (eapply IH; eassumption).
    cbn [has_fresh] in Hf. unfold dep_handle in H. destruct v; cbn [negb] in H; [|discriminate].
    destruct (N.ltb_spec s n) as [Hlt|Hge].
    + assert (E : (s =? n) = false) by (apply N.eqb_neq; lia). rewrite E in Hf.
      destruct Hf as [Hf|Hf]; [lia|]. specialize (IH _ _ _ _ _ H Hf). lia.
    + destruct (n <? s); [discriminate|]. apply scan_counts in H. lia.
Qed.

Lemma stale_no_fresh : forall ds n, all_stale n ds -> ~ has_fresh n ds.
Proof.
  induction ds as [|[v s] ds IH]; intros n Hall Hf; [exact Hf|].
  destruct (Hall v s (or_introl eq_refl)) as [_ Hlt]. cbn [has_fresh] in Hf.
  assert (E : (s =? n) = false) by (apply N.eqb_neq; lia). rewrite E in Hf.
  destruct Hf as [Hf|Hf]; [lia|]. apply (IH n); [|exact Hf]. intros v' s' Hin. apply Hall. now right.
Qed.

Lemma stale_in_order : forall ds n, all_stale n ds -> in_order n ds.
Proof.
  induction ds as [|[v s] ds IH]; intros n Hall; [exact I|].
  destruct (Hall v s (or_introl eq_refl)) as [-> Hlt]. cbn [in_order].
  assert (E : (s =? n) = false) by (apply N.eqb_neq; lia). rewrite E.
  repeat split; [lia|]. apply IH. intros v' s' Hin. apply Hall. now right.
Qed.

(* in_order without a fresh message means all stale *)
Lemma in_order_no_fresh_stale : forall ds n, in_order n ds -> ~ has_fresh n ds -> all_stale n ds.
Proof.
  induction ds as [|[v s] ds IH]; intros n Hio Hnf; [intros v s []|].
  cbn [in_order has_fresh] in *. destruct Hio as (-> & Hle & Hio).
  destruct (N.eqb_spec s n) as [->|Hne]; [exfalso; apply Hnf; now left|].
  intros v' s' [Hin|Hin]; [inversion Hin; subst; split; [reflexivity|lia]|].
  apply (IH n Hio); [tauto|exact Hin].
Qed.

Lemma inactive_pass : forall m sim n msgs, filter_active m sim = false -> redundant_ante m sim n msgs = Pass.
Proof. intros m sim n msgs H. unfold redundant_ante. now rewrite H. Qed.

Lemma deliver_or_simulate_pass : forall m sim n msgs, m = MDeliver \/ sim = true -> redundant_ante m sim n msgs = Pass.
Proof.
  intros m sim n msgs H. apply inactive_pass. destruct H as [->| ->]; [reflexivity|]. now destruct m.
Qed.

Lemma active_iff : forall m sim, filter_active m sim = true <-> (m = MCheck \/ m = MReCheck) /\ sim = false.
Proof. intros [] []; cbn; split; intros H; try discriminate; try tauto; destruct H as [[H|H] H2]; discriminate. Qed.

Section Active.
  Variables (m : mode) (sim : bool) (n : N) (msgs : list shape).
  Hypothesis Hact : filter_active m sim = true.

  Lemma redundant_reject_iff :
    redundant_ante m sim n msgs = RejectRedundant <-> deposits msgs <> [] /\ all_stale n (deposits msgs).
  Proof.
    unfold redundant_ante. rewrite Hact. split.
    - destruct (scan n msgs 0 0) as [[r p]|] eqn:E; [|discriminate].
      destruct ((r =? p) && (0 <? p)) eqn:C; [|discriminate]. intros _.
      apply andb_true_iff in C as [Hrp Hp]. apply N.eqb_eq in Hrp. apply N.ltb_lt in Hp. subst r.
      split.
      + apply scan_counts in E as (Hp' & _). intro Hnil. rewrite Hnil in Hp'. cbn in Hp'. lia.
      + eapply scan_equal_counts_stale; [exact E|lia].
    - intros [Hne Hall]. rewrite (scan_all_stale msgs n 0 0 Hall).
      assert (0 < N.of_nat (length (deposits msgs))) by (destruct (deposits msgs); [congruence|cbn [length]; lia]).
      rewrite !N.add_0_l, N.eqb_refl. cbn [andb]. apply N.ltb_lt in H. now rewrite H.
  Qed.

  Lemma redundant_error_iff :
    redundant_ante m sim n msgs = RejectError <-> ~ in_order n (deposits msgs).
  Proof.
    unfold redundant_ante. rewrite Hact. rewrite <- (scan_some_iff msgs n 0 0). split.
    - destruct (scan n msgs 0 0) as [[r p]|] eqn:E.
      + destruct ((r =? p) && (0 <? p)); discriminate.
      + intros _ [rp H]. discriminate.
    - intros Hno. destruct (scan n msgs 0 0) as [[r p]|] eqn:E; [|reflexivity].
      exfalso. apply Hno. eexists; reflexivity.
  Qed.

  Lemma redundant_pass_iff :
    redundant_ante m sim n msgs = Pass <->
    in_order n (deposits msgs) /\ (deposits msgs = [] \/ has_fresh n (deposits msgs)).
  Proof.
    split.
    - intros Hp.
      assert (Hio : in_order n (deposits msgs)).
      { apply (scan_some_iff msgs n 0 0). unfold redundant_ante in Hp. rewrite Hact in Hp.
        destruct (scan n msgs 0 0) as [rp|]; [now exists rp|discriminate]. }
      split; [exact Hio|].
      destruct (deposits msgs) as [|d ds] eqn:Ed; [now left|right].
      unfold redundant_ante in Hp. rewrite Hact in Hp.
      destruct (scan n msgs 0 0) as [[r p]|] eqn:E; [|discriminate].
      destruct ((r =? p) && (0 <? p)) eqn:C; [discriminate|].
      pose proof (scan_counts _ _ _ _ _ _ E) as (Hp' & _ & Hle). rewrite Ed in Hp'. cbn [length] in Hp'.
      assert (Hrp : r <> p).
      { intro Heq. subst r. apply andb_false_iff in C as [C|C]; [apply N.eqb_neq in C; congruence|].
        apply N.ltb_ge in C. lia. }
      (* not all stale, yet in order: some message was fresh *)
      rewrite <- Ed. rewrite <- Ed in Hio.
      assert (Hdec : forall ds k, in_order k ds -> has_fresh k ds \/ ~ has_fresh k ds).
      { induction ds0 as [|[v s] ds0 IHd]; intros k Hk; [right; intros []|].
        cbn [in_order has_fresh] in *. destruct Hk as (_ & _ & Hk).
        destruct (N.eq_dec s k) as [->|Hne]; [left; now left|].
        destruct (IHd _ Hk) as [Hf|Hnf]; [left; now right|right; tauto]. }
      destruct (Hdec _ _ Hio) as [Hf|Hnf]; [exact Hf|exfalso].
      pose proof (in_order_no_fresh_stale _ _ Hio Hnf) as Hall.
      rewrite (scan_all_stale msgs n 0 0 Hall) in E. inversion E; subst. lia.
    - intros [Hio Hor]. unfold redundant_ante. rewrite Hact.
      apply (scan_some_iff msgs n 0 0) in Hio as [[r p] E]. rewrite E.
      destruct Hor as [Hnil|Hf].
      + apply scan_counts in E as (Hp & _). rewrite Hnil in Hp. cbn in Hp. subst p.
        now rewrite andb_false_r.
      + pose proof (scan_fresh_lt _ _ _ _ _ _ E Hf) as Hlt.
        assert (C : (r =? p) = false) by (apply N.eqb_neq; lia). now rewrite C.
  Qed.
End Active.

(* the plain reading of the property text: all deposit sequences are at most the next expected
   one (none is ahead), all are valid, and the next expected one occurs *)
Lemma fresh_simple : forall ds n,
  (forall v s, In (v, s) ds -> v = true /\ s <= n) -> (exists v, In (v, n) ds) ->
  in_order n ds /\ has_fresh n ds.
Proof.
  assert (Hio : forall ds n k, n <= k -> (forall v s, In (v, s) ds -> v = true /\ s <= n) -> in_order k ds).
  { induction ds as [|[v s] ds IH]; intros n k Hnk Hall; [exact I|].
    destruct (Hall v s (or_introl eq_refl)) as [-> Hle]. cbn [in_order]. repeat split; [lia|].
    apply (IH n); [destruct (s =? k); lia|]. intros v' s' Hin. apply Hall. now right. }
  intros ds n Hall Hex. split; [apply (Hio ds n n); [lia|exact Hall]|].
  revert Hall Hex. induction ds as [|[v s] ds IH]; intros Hall [v0 Hin]; [destruct Hin|].
  cbn [has_fresh]. destruct (N.eqb_spec s n) as [->|Hne]; [now left|right].
  destruct Hin as [Hin|Hin]; [inversion Hin; congruence|].
  apply IH; [intros v' s' Hin'; apply Hall; now right|now exists v0].
Qed.

Lemma redundant_fresh_passes : forall m sim n msgs, filter_active m sim = true ->
  (forall v s, In (v, s) (deposits msgs) -> v = true /\ s <= n) ->
  (exists v, In (v, n) (deposits msgs)) ->
  redundant_ante m sim n msgs = Pass.
Proof.
  intros m sim n msgs Hact Hall Hex. apply (redundant_pass_iff m sim n msgs Hact).
  destruct (fresh_simple _ _ Hall Hex) as [Hio Hf]. split; [exact Hio|now right].
Qed.

(* ---------- non-vacuity ---------- *)
Example ex_sys1 : system_match [UpdateOracle] = true. Proof. reflexivity. Qed.
Example ex_sys2 : system_match [Exec [UpdateOracle]] = true. Proof. reflexivity. Qed.
Example ex_sys3 : system_match [UpdateOracle; UpdateOracle] = false. Proof. reflexivity. Qed.
Example ex_sys4 : system_match [Exec [UpdateOracle; UpdateOracle]] = false. Proof. reflexivity. Qed.
Example ex_free1 : free_match (Some [[1]; [2]]) [3] (Some [2]) = true. Proof. reflexivity. Qed.
Example ex_free2 : free_match (Some [[1]; [2]]) [3] None = false. Proof. reflexivity. Qed.
(* an empty string on the whitelist (refused by Params.Validate) would exempt every
   transaction without a granter *)
Example ex_free_empty : free_match (Some [[]]) [3] None = true. Proof. reflexivity. Qed.
Example ex_red1 : redundant_ante MCheck false 3 [Deposit true 1; Other; Deposit true 2] = RejectRedundant.
Proof. reflexivity. Qed.
Example ex_red2 : redundant_ante MCheck false 3 [Deposit true 1; Deposit true 3; Deposit true 4] = Pass.
Proof. reflexivity. Qed.
Example ex_red3 : redundant_ante MReCheck false 3 [Deposit true 3; Deposit true 5] = RejectError.
Proof. reflexivity. Qed.
Example ex_red4 : redundant_ante MDeliver false 3 [Deposit true 1] = Pass. Proof. reflexivity. Qed.
Example ex_red5 : redundant_ante MCheck true 3 [Deposit true 1] = Pass. Proof. reflexivity. Qed.
Example ex_red6 : redundant_ante MCheck false 3 [Other; Exec [Deposit true 1]] = Pass. Proof. reflexivity. Qed.
