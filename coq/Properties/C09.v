(* C09 - L2 bridged supply is conserved; withdrawals burn exactly what they record; one gap-free
   L2 sequence shared by user and refund withdrawals; the denom map is write-once; tokens that
   did not come from L1 cannot be withdrawn.
   Statements only; proofs are in Proofs/.  [run] executes any finite history of L2 messages of
   every kind (deposits with any hook payload, withdrawals, transfers, fee-pool spends, admin
   messages, ExecuteMessages batches nested to any depth); [dlog] is the log of processed deposits
   ([d_ok] = credited and kept), [wlog] the log of initiate_token_withdrawal events
   ([w_refund] = emitted by a failed deposit), both newest first.
   [credited d l]  = sum of [d_amt] over the entries of [l] with [d_ok] and [d_denom = d];
   [withdrawn d l] = sum of [w_amt] over the entries of [l] with [w_refund = false], [w_denom = d].
   In the model the only operations that change a supply are the deposit handler's mint / burn
   and the withdrawal's burn, so the ledger equation holds for EVERY denom; on a real chain it is
   a statement about the denoms no other module mints or burns (the bridged ones). *)
From stdpp Require Import gmap numbers list.
From Coq Require Import ZArith.
Require Import Model.Bytes Model.Bank Model.Valset Model.L2.
Require Import Proofs.L2Lemmas Proofs.DepositLemmas Proofs.C09Proofs.

(* From a state in which denom d has supply s0 and nothing has been logged yet, after ANY
   history: supply = s0 + credited deposits - user withdrawals.  Refunded deposits and their
   refund withdrawals do not appear: they are net zero. *)
Theorem C09_supply : ∀ (c : cfg) (d : bytes) (h : list msg) (s : l2state) (s0 : Z),
  gets (bk s) d = s0 → dlog s = [] → wlog s = [] →
  gets (bk (run c s h).1) d
  = (s0 + credited d (dlog (run c s h).1) - withdrawn d (wlog (run c s h).1))%Z.
Proof. exact c09_supply. Qed.

(* The same between any two states of a history (so it holds for every prefix and suffix). *)
Theorem C09_supply_between : ∀ (c : cfg) (d : bytes) (h : list msg) (s : l2state),
  gets (bk (run c s h).1) d
  = (gets (bk s) d + (credited d (dlog (run c s h).1) - credited d (dlog s))
                   - (withdrawn d (wlog (run c s h).1) - withdrawn d (wlog s)))%Z.
Proof. exact c09_supply_between. Qed.

(* An accepted user withdrawal: the signer held at least amt; the signer's balance of d and the
   supply of d go down by exactly amt and NO other balance or supply changes (the module
   account receives and burns amt: net zero); the response is the old next L2 sequence, which
   advances by one; exactly one record is appended and it carries the base denom of the map;
   nothing else in the state changes. *)
Theorem C09_withdraw_exact : ∀ c s sender to d amt s' q,
  step c s (MWithdraw sender to d amt) = (s', Ok q) →
  ∃ a base, resolve c sender = Some a ∧ pairs s !! d = Some base ∧ (0 < amt < 18446744073709551616)%Z ∧
    (amt ≤ getb (bk s) a d)%Z ∧
    q = RSeq (next_l2 s) ∧ next_l2 s' = (next_l2 s + 1)%N ∧
    wlog s' = {| w_seq := next_l2 s; w_from := sender; w_to := to; w_denom := d; w_base := base;
                 w_amt := amt; w_refund := false |} :: wlog s ∧
    (∀ a' d', getb (bk s') a' d' = (getb (bk s) a' d' - (if decide ((a', d') = (a, d)) then amt else 0))%Z) ∧
    (∀ d', gets (bk s') d' = (gets (bk s) d' - (if decide (d' = d) then amt else 0))%Z) ∧
    next_l1 s' = next_l1 s ∧ pairs s' = pairs s ∧ prm s' = prm s ∧ info s' = info s ∧
    vs s' = vs s ∧ seqs s' = seqs s ∧ dlog s' = dlog s.
Proof. exact c09_withdraw_exact. Qed.

(* Conversely the listed guards suffice (the withdrawal is not rejected for any other reason). *)
Theorem C09_withdraw_accepts : ∀ c s sender to d amt a base,
  resolve c sender = Some a → to ≠ [] → valid_denom d = true → (0 < amt < 18446744073709551616)%Z →
  (amt ≤ getb (bk s) a d)%Z → (0 ≤ getb (bk s) (modacc c) d)%Z → pairs s !! d = Some base →
  ∃ s', step c s (MWithdraw sender to d amt) = (s', Ok (RSeq (next_l2 s))).
Proof. exact c09_withdraw_accepts. Qed.

(* From next_l2 = 1 and an empty log, after ANY history the withdrawal records - user and
   refund together, oldest first - carry exactly 1, 2, ..., k and the next sequence is k + 1. *)
Theorem C09_l2_seq_gapfree : ∀ (c : cfg) (h : list msg) (s : l2state),
  next_l2 s = 1%N → wlog s = [] →
  ∃ k : nat, next_l2 (run c s h).1 = (1 + N.of_nat k)%N ∧
             rev (map w_seq (wlog (run c s h).1)) = upto k 1.
Proof. exact c09_l2_seq_gapfree. Qed.

(* The same from any state: the records appended by a history carry next_l2 s, next_l2 s + 1, ... *)
Theorem C09_l2_seq_between : ∀ c h s, emitted_between s (run c s h).1.
Proof. exact run_emitted. Qed.

(* Once a denom is mapped, the entry never changes along any history. *)
Theorem C09_pairs_immutable : ∀ (c : cfg) (h : list msg) (s : l2state) (d x : bytes),
  pairs s !! d = Some x → pairs (run c s h).1 !! d = Some x.
Proof. exact c09_pairs_immutable. Qed.

(* In particular a later deposit naming a different base denom does not overwrite it
   (whatever the deposit's outcome) ... *)
Theorem C09_deposit_keeps_pair : ∀ c s m s' r x,
  pairs s !! fd_denom m = Some x → step c s (MFinalizeDeposit m) = (s', r) →
  pairs s' !! fd_denom m = Some x.
Proof. exact c09_deposit_keeps_pair. Qed.

(* ... while the first processed deposit of a denom sets it to the base denom it names. *)
Theorem C09_first_deposit_sets_pair : ∀ c s m s',
  pairs s !! fd_denom m = None → step c s (MFinalizeDeposit m) = (s', Ok RSuccess) →
  pairs s' !! fd_denom m = Some (fd_base m).
Proof. exact c09_first_deposit_sets_pair. Qed.

(* A denom without an entry (native or unknown) cannot be withdrawn: the message fails and the
   state - including the balance that the handler had already moved and burnt - is unchanged. *)
Theorem C09_non_l1_rejected : ∀ c s sender to d amt,
  pairs s !! d = None → step c s (MWithdraw sender to d amt) = (s, Err).
Proof. exact c09_non_l1_rejected. Qed.

(* Non-vacuity: a concrete history with a credited, a refunded and a renaming deposit, a
   transfer, an accepted, an over-balance and a non-L1 withdrawal, and a failing hook. *)
Theorem C09_example :
  let s := (run ex_cfg ex_init ex_hist).1 in
  (run ex_cfg ex_init ex_hist).2 =
    [Ok RSuccess; Ok RSuccess; Ok RSuccess; Ok RNone; Ok (RSeq 2); Err; Err; Ok RSuccess] ∧
  gets (bk s) dA = 45%Z ∧ credited dA (dlog s) = 70%Z ∧ withdrawn dA (wlog s) = 25%Z ∧
  rev (map w_seq (wlog s)) = [1; 2; 3]%N ∧ next_l2 s = 4%N ∧
  pairs s !! dA = Some [117; 97; 97]%N ∧ getb (bk s) 5 dA = 5%Z ∧ getb (bk s) 4 dA = 40%Z.
Proof. exact c09_example. Qed.

Print Assumptions C09_supply.
Print Assumptions C09_supply_between.
Print Assumptions C09_withdraw_exact.
Print Assumptions C09_withdraw_accepts.
Print Assumptions C09_l2_seq_gapfree.
Print Assumptions C09_l2_seq_between.
Print Assumptions C09_pairs_immutable.
Print Assumptions C09_deposit_keeps_pair.
Print Assumptions C09_first_deposit_sets_pair.
Print Assumptions C09_non_l1_rejected.
Print Assumptions C09_example.
