(* C16 - exporting and re-importing genesis preserves all bridge state and behaviour.
   Statements only; proofs are in Proofs/.  [Genesis1.export] walks the ophost collections as
   ExportGenesis does, [validate] is ValidateGenesis, [import c base g] is InitGenesis into
   fresh ophost stores next to the other modules' state of [base] (x/bank, IBC keepers). *)
From stdpp Require Import gmap numbers list.
From Coq Require Import ZArith.
Require Import Model.Bytes Model.Bank Model.Hashes Model.Valset Model.L1 Model.Genesis1.
Require Model.L2 Model.Genesis2.
Require Import Proofs.Genesis1Lemmas Proofs.Genesis1Proofs Proofs.Genesis1Inv Proofs.Genesis1Behave.
Require Proofs.Genesis2Proofs Proofs.Genesis2Inv Proofs.Genesis2Reach.

(* The invariant [l1_inv] (everything is recorded under an existing bridge id below the next
   bridge id, counters are at least 1, configs are valid, hashes have 32 bytes, denoms are
   valid, every bridge has a batch-info history with contiguous indices from 0 whose first
   entry carries the empty output and whose last entry is the current batch info, the
   registration fee is a valid coin set) holds in EVERY state reachable by any history of all
   message kinds from an empty ophost store (whatever the bank balances and IBC channels). *)
Theorem C16_l1_invariant_reachable : ∀ (c : cfg) (s0 : l1state) (h : list (env * msg)),
  hash_wf c → same_ophost init_state s0 → l1_inv c (run c s0 h).1.
Proof. exact reachable_inv. Qed.

(* For every L1 state satisfying the invariant: the exported genesis passes ValidateGenesis,
   InitGenesis of it succeeds and yields a state equal to the original on every ophost
   component (Leibniz equality of configs, outputs, claim records, token pairs, batch-info
   history, params, next bridge id; the two per-bridge counter tables agree as the functions
   the keeper's getters expose - an absent entry reads as 1, InitGenesis writes it
   explicitly), and exporting again gives the identical genesis. *)
Theorem C16_l1_roundtrip : ∀ (c : cfg) (s : l1state), l1_inv c s →
  validate c (export s) = true ∧
  ∃ f, import c s (export s) = Some f ∧ l1_eqv f s ∧ export f = export s.
Proof. exact c16_l1_roundtrip. Qed.

(* Equivalent states answer every message identically and stay equivalent. *)
Theorem C16_l1_step_congruence : ∀ (c : cfg) (e : env) (s t : l1state) (m : msg), l1_eqv s t →
  (step c e s m).2 = (step c e t m).2 ∧ l1_eqv (step c e s m).1 (step c e t m).1.
Proof. exact step_eqv. Qed.

(* Hence the re-imported chain answers EVERY later history of messages exactly as the original
   would, its states stay equivalent to the original's and export the same genesis for ever. *)
Theorem C16_l1_same_behaviour : ∀ (c : cfg) (s : l1state) (h : list (env * msg)), l1_inv c s →
  ∃ f, import c s (export s) = Some f ∧
       (run c f h).2 = (run c s h).2 ∧ l1_eqv (run c f h).1 (run c s h).1 ∧
       export (run c f h).1 = export (run c s h).1.
Proof. exact c16_l1_same_behaviour. Qed.

(* The hypotheses are satisfiable: a hash function with [hash_wf], and a reached state with two
   bridges (one without deposits: its counter entry is absent before and explicit after). *)
Theorem C16_l1_nonvacuous :
  hash_wf ex_cfg ∧ length (g_bridges (export ex_state)) = 2%nat ∧
  next_seq ex_state !! 1%N = None ∧
  ((λ f, (next_seq f !! 1%N, next_seq f !! 2%N)) <$> import ex_cfg ex_state (export ex_state)) = Some (Some 1%N, Some 2%N).
Proof. split; [exact hash_wf_sat|]. pose proof ex_roundtrip. tauto. Qed.

(* ---- L2 (opchild) ---- *)
(* For every L2 state satisfying [l2_inv] (valid params, at most MaxValidators validators, the
   consensus-key index is exactly the inverse of the validators' keys, every last power belongs
   to a stored validator, sequences at least 1, valid bridge info and denoms): the exported
   genesis passes ValidateGenesis and InitGenesis of it returns THE SAME STATE - params,
   validators, key index, last powers, both sequences, bridge info, denom pairs (Leibniz
   equality of the whole model state; the L1 validator snapshot and the per-height history are
   not part of the state) - so every later message and EndBlocker is answered identically,
   and exporting again gives the identical genesis. *)
Theorem C16_l2_roundtrip : ∀ (c : L2.cfg) (s : L2.l2state), Genesis2.l2_inv c s →
  Genesis2.validate2 c (Genesis2.export2 s) = true ∧
  ∃ ups, Genesis2.import2 c s (Genesis2.export2 s) = Some (s, ups) ∧
         (∀ f ups', Genesis2.import2 c s (Genesis2.export2 s) = Some (f, ups') →
                    Genesis2.export2 f = Genesis2.export2 s).
Proof. exact Genesis2Proofs.c16_l2_roundtrip. Qed.

(* The validator updates InitGenesis returns are exactly the bonded set: one update per entry
   of the last-power table, in table order, carrying that validator's consensus key and its
   last power. *)
Theorem C16_l2_initial_updates : ∀ (c : L2.cfg) (s : L2.l2state), Genesis2.l2_inv c s →
  ∃ ups, Genesis2.import2 c s (Genesis2.export2 s) = Some (s, ups) ∧
         Forall2 (λ (u : update) (lp : N * Z), u.2 = lp.2 ∧ ∃ x, vals (L2.vs s) !! lp.1 = Some x ∧ u.1 = v_key x)
                 ups (sorted_ops (last (L2.vs s))).
Proof. exact Genesis2Proofs.c16_l2_initial_updates. Qed.

(* [l2_inv] holds in EVERY state reachable from a freshly started chain by any interleaving of
   opchild messages (incl. nested ExecuteMessages; failing messages have no effect) and block
   ends - the EndBlocker without a plan, or with an executor-change plan whose operator address
   and consensus key are not in use (C14's freshness premise, part of [l2_reach]; a failing
   EndBlocker - e.g. a plan at the validator cap, finding D10 - halts the chain and has no
   successor state; plans reusing an operator or a key are the open findings D8 / D9 and are
   NOT covered).  Both block-boundary and mid-block states are reachable states. *)
Theorem C16_l2_invariant_reachable : ∀ (c : L2.cfg) (s0 s : L2.l2state),
  L2.params_valid c (L2.prm s0) = true → L2.vs s0 = vempty → L2.info s0 = None →
  (1 ≤ L2.next_l1 s0)%N → (1 ≤ L2.next_l2 s0)%N →
  (∀ d v, L2.pairs s0 !! d = Some v → valid_denom d = true) →
  Genesis2.l2_reach c s0 s → Genesis2.l2_inv c s.
Proof. exact Genesis2Reach.c16_l2_reachable. Qed.

(* Hence the round trip holds in every reachable state. *)
Theorem C16_l2_reachable_roundtrip : ∀ (c : L2.cfg) (s0 s : L2.l2state),
  L2.params_valid c (L2.prm s0) = true → L2.vs s0 = vempty → L2.info s0 = None →
  (1 ≤ L2.next_l1 s0)%N → (1 ≤ L2.next_l2 s0)%N →
  (∀ d v, L2.pairs s0 !! d = Some v → valid_denom d = true) →
  Genesis2.l2_reach c s0 s →
  Genesis2.validate2 c (Genesis2.export2 s) = true ∧
  ∃ ups, Genesis2.import2 c s (Genesis2.export2 s) = Some (s, ups).
Proof. exact Genesis2Reach.c16_l2_reachable_roundtrip. Qed.

Theorem C16_l2_invariant_fresh : ∀ (c : L2.cfg) (s : L2.l2state),
  L2.params_valid c (L2.prm s) = true → L2.vs s = vempty → L2.info s = None →
  (1 ≤ L2.next_l1 s)%N → (1 ≤ L2.next_l2 s)%N →
  (∀ d v, L2.pairs s !! d = Some v → valid_denom d = true) → Genesis2.l2_inv c s.
Proof. exact Genesis2Inv.fresh_inv2. Qed.

Print Assumptions C16_l1_invariant_reachable.
Print Assumptions C16_l1_roundtrip.
Print Assumptions C16_l1_step_congruence.
Print Assumptions C16_l1_same_behaviour.
Print Assumptions C16_l1_nonvacuous.
Print Assumptions C16_l2_roundtrip.
Print Assumptions C16_l2_initial_updates.
Print Assumptions C16_l2_invariant_reachable.
Print Assumptions C16_l2_reachable_roundtrip.
Print Assumptions C16_l2_invariant_fresh.
