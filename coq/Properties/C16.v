(* C16 - exporting and re-importing genesis preserves all bridge state and behaviour.
   Statements only; proofs are in Proofs/.  [Genesis1.export] walks the ophost collections as
   ExportGenesis does, [validate] is ValidateGenesis, [import c base g] is InitGenesis into
   fresh ophost stores next to the other modules' state of [base]. *)
From stdpp Require Import gmap numbers list.
From Coq Require Import ZArith.
Require Import Model.Bytes Model.Bank Model.Hashes Model.Valset Model.L1 Model.Genesis1.
Require Import Proofs.Genesis1Lemmas Proofs.Genesis1Proofs.

(* For every L1 state satisfying the reachable-state invariant: the exported genesis passes
   ValidateGenesis, InitGenesis of it succeeds and yields a state equal to the original on
   every ophost component (Leibniz equality of configs, outputs, claim records, token pairs,
   batch-info history, params, next bridge id; the two per-bridge counter tables agree as the
   functions the keeper's getters expose), and exporting again gives the identical genesis. *)
Theorem C16_l1_roundtrip : ∀ (c : cfg) (s : l1state), l1_inv c s →
  validate c (export s) = true ∧
  ∃ f, import c s (export s) = Some f ∧ l1_eqv f s ∧ export f = export s.
Proof. exact c16_l1_roundtrip. Qed.

Print Assumptions C16_l1_roundtrip.
