(* C03 - withdrawals cannot be forged: proof soundness and field binding.
   Statements only; proofs are in Proofs/.  [step] is the complete L1 (ophost) message server
   of Model/L1.v; the hash function is the field [hash c] of the configuration, so every
   statement holds for every hash function. *)
From stdpp Require Import gmap numbers list.
From Coq Require Import ZArith.
Require Import Model.Bytes Model.Bank Model.Hashes Model.L1.
Require Import Proofs.C03Finalize Proofs.C03Proofs.

(* In ANY state, a withdrawal finalization that succeeds was checked against the output stored
   at exactly the named (bridge, index): its root equals the commitment to the (version, storage
   root, block hash) of the message, it is final at the block time, the leaf computed from exactly
   the claimed (bridge, sequence, sender, recipient, denom, amount) hashes up to that storage root
   through the supplied proof, the amount fits 64 bits, all lengths are as documented, the claim
   was not recorded before; and the successor state is exactly: one transfer of the amount from
   the bridge's escrow to the recipient, the claim recorded, the payout logged, nothing else. *)
Theorem C03_finalize_only_if : ∀ c e s s' r sender b idx sq proofs from to d amt v sr bh,
  step c e s (MFinalize sender b idx sq proofs from to d amt v sr bh) = (s', Ok r) →
  ∃ o x rcv b1,
    outputs s !! (b, idx) = Some o ∧
    o_root o = output_root (hash c) (hd 0%N v) sr bh ∧
    configs s !! b = Some x ∧ is_final x e o = true ∧
    root_from_proof (hash c) (claim_leaf c b sq from to d amt) proofs = sr ∧
    (0 < amt < two64)%Z ∧ length v = 1 ∧ length sr = 32 ∧ length bh = 32 ∧
    Forall (λ p, length p = 32) proofs ∧ b ≠ 0%N ∧ idx ≠ 0%N ∧ sq ≠ 0%N ∧
    (b, claim_leaf c b sq from to d amt) ∉ proven s ∧ resolve c to = Some rcv ∧
    bank_send (bk s) (escrow c b) rcv d amt = Some b1 ∧
    s' = finalized_state s b1 b (claim_leaf c b sq from to d amt) rcv d amt.
Proof. exact c03_finalize_only_if. Qed.

(* A rejected message (of any kind, in any state) changes nothing. *)
Theorem C03_reject_no_effect : ∀ c e s m s', step c e s m = (s', Err) → s' = s.
Proof. exact c03_reject_no_effect. Qed.

Print Assumptions C03_finalize_only_if.
Print Assumptions C03_reject_no_effect.
