(* C03 - withdrawals cannot be forged: proof soundness and field binding.
   Statements only; proofs are in Proofs/.  [step] is the complete L1 (ophost) message server
   of Model/L1.v.  The hash function is the field [hash c] of the configuration (or the
   argument [H]); nothing is assumed about it except, where stated, that it returns 32 bytes.
   [Collision H] is "exists x y, x <> y /\ H x = H y" - every proof constructs the pair. *)
From stdpp Require Import gmap numbers list.
From Coq Require Import ZArith.
Require Import Model.Bytes Model.Bank Model.Hashes Model.Merkle Model.L1.
Require Import Proofs.MerkleProofs Proofs.C03Binding Proofs.C03Finalize Proofs.C03Proofs Proofs.C03Examples.

(* In ANY state, a withdrawal finalization that succeeds was checked against the output stored
   at exactly the named (bridge, index): its root equals the commitment to the (version, storage
   root, block hash) of the message, it is final at the block time, the leaf computed from exactly
   the claimed (bridge, sequence, sender, recipient, denom, amount) hashes up to that storage root
   through the supplied proof, the amount fits 64 bits, all lengths are as documented, the claim
   was not recorded before; and the successor state is exactly: one transfer of the amount from
   the bridge's escrow to the recipient, the claim recorded, the payout logged, nothing else
   ([finalized_state] spells out every component). *)
Theorem C03_finalize_only_if : ∀ c e s s' r sender b idx sq proofs from to d amt v sr bh,
  step c e s (MFinalize sender b idx sq proofs from to d amt v sr bh) = (s', Ok r) →
  ∃ o x rcv b1,
    outputs s !! (b, idx) = Some o ∧
    o_root o = output_root (hash c) (hd 0%N v) sr bh ∧
    configs s !! b = Some x ∧ is_final x e o = true ∧
    root_from_proof (hash c) (claim_leaf c b sq from to d amt) proofs = sr ∧
    (0 < amt < two64)%Z ∧ length v = 1 ∧ length sr = 32 ∧ length bh = 32 ∧
    Forall (λ p, length p = 32) proofs ∧ b ≠ 0%N ∧ idx ≠ 0%N ∧ sq ≠ 0%N ∧
    (b, claim_leaf c b sq from to d amt) ∉ proven s ∧ resolve c to = Some rcv ∧
    bank_send (bk s) (escrow c b) rcv d amt = Some b1 ∧
    s' = finalized_state s b1 b (claim_leaf c b sq from to d amt) rcv d amt.
Proof. exact c03_finalize_only_if. Qed.

(* Soundness of the proof check for EVERY tree size, leaf position and proof length: if a
   leaf-form value x (the hash of a 32-byte string, as every withdrawal hash is) verifies against
   the root of the published tree of the leaves l through ANY proof p of 32-byte elements, then x
   is one of the leaves - or a collision is exhibited (a proof that stops early offers an inner
   node, whose preimage has 64 bytes against the leaf's 32). *)
Theorem C03_merkle_sound : ∀ (H : bytes → bytes), (∀ x, length (H x) = 32) →
  ∀ l p x, l ≠ [] → all32 l → Forall (leaf_form H) l → all32 p → leaf_form H x →
  verify H (build H l) x p = true → In x l ∨ Collision H.
Proof. exact merkle_sound. Qed.

(* The leaf binds all six fields (64-bit integers): equal leaves of different field tuples
   exhibit a collision. *)
Theorem C03_leaf_binding : ∀ (H : bytes → bytes), (∀ x, length (H x) = 32) →
  ∀ b1 s1 f1 t1 d1 a1 b2 s2 f2 t2 d2 a2,
  (b1 < two64N)%N → (s1 < two64N)%N → (a1 < two64N)%N → (b2 < two64N)%N → (s2 < two64N)%N → (a2 < two64N)%N →
  leaf_hash H b1 s1 f1 t1 d1 a1 = leaf_hash H b2 s2 f2 t2 d2 a2 →
  (b1 = b2 ∧ s1 = s2 ∧ f1 = f2 ∧ t1 = t2 ∧ d1 = d2 ∧ a1 = a2) ∨ Collision H.
Proof. exact leaf_binding. Qed.

(* The output root binds the version byte, the storage root and the block hash. *)
Theorem C03_output_root_binding : ∀ (H : bytes → bytes) v1 sr1 bh1 v2 sr2 bh2,
  length sr1 = 32 → length bh1 = 32 → length sr2 = 32 → length bh2 = 32 →
  output_root H v1 sr1 bh1 = output_root H v2 sr2 bh2 →
  (v1 = v2 ∧ sr1 = sr2 ∧ bh1 = bh2) ∨ Collision H.
Proof. exact output_root_binding. Qed.

(* If index (b, idx) stores the honest commitment (any version, any block hash) to the published
   tree of a non-empty list L of leaf-form hashes, then EVERY successful finalization against
   (b, idx), in any state, by anybody, with any proof, is for a claim whose leaf is in L and was
   unclaimed (and names L's root as storage root) - or a collision is exhibited. *)
Theorem C03_forgery_needs_collision : ∀ c e s s' r sender b idx sq proofs from to d amt v sr bh L,
  (∀ x, length (hash c x) = 32) →
  L ≠ [] → Forall (leaf_form (hash c)) L →
  honest_commitment c s b idx L →
  step c e s (MFinalize sender b idx sq proofs from to d amt v sr bh) = (s', Ok r) →
  (In (claim_leaf c b sq from to d amt) L ∧ (b, claim_leaf c b sq from to d amt) ∉ proven s ∧
   sr = build (hash c) L) ∨ Collision (hash c).
Proof. exact c03_forgery_needs_collision. Qed.

(* The same in terms of fields: if the committed leaves are the hashes of the withdrawals ws of
   bridge b (64-bit sequence numbers and amounts), a successful claim carries exactly the
   (sequence, sender, recipient, denom, amount) of one of them, not paid before.  Hence changing
   any field of a valid claim makes it fail (with no effect: C03_reject_no_effect) unless the
   changed claim is itself another committed, unclaimed withdrawal. *)
Theorem C03_forged_fields : ∀ c e s s' r sender b idx sq proofs from to d amt v sr bh ws,
  (∀ x, length (hash c x) = 32) →
  (b < two64N)%N → (sq < two64N)%N → ws ≠ [] → Forall wd_u64 ws →
  honest_commitment c s b idx (map (wd_leaf (hash c) b) ws) →
  step c e s (MFinalize sender b idx sq proofs from to d amt v sr bh) = (s', Ok r) →
  (∃ w, In w ws ∧ w_seq w = sq ∧ w_from w = from ∧ w_to w = to ∧ w_denom w = d ∧ Z.of_N (w_amt w) = amt ∧
        (b, wd_leaf (hash c) b w) ∉ proven s) ∨ Collision (hash c).
Proof. exact c03_forged_fields. Qed.

(* A rejected message (of any kind, in any state) changes nothing. *)
Theorem C03_reject_no_effect : ∀ c e s m s', step c e s m = (s', Err) → s' = s.
Proof. exact c03_reject_no_effect. Qed.

(* Non-vacuity (real SHA3-256): a state in which output (1,1) honestly commits to three
   withdrawals; the second one is paid once. *)
Theorem C03_nonvacuous :
  honest_commitment ex_c ex_s3 1 1 (map (wd_leaf (hash ex_c) 1) ex_ws) ∧ Forall wd_u64 ex_ws ∧
  (step ex_c ex_e1 ex_s3 ex_claim).2 = Ok RNone ∧
  (step ex_c ex_e1 (step ex_c ex_e1 ex_s3 ex_claim).1 ex_claim).2 = Err.
Proof. exact (conj ex_honest (conj ex_u64 (conj ex_claim_ok ex_claim_twice))). Qed.

Print Assumptions C03_finalize_only_if.
Print Assumptions C03_merkle_sound.
Print Assumptions C03_leaf_binding.
Print Assumptions C03_output_root_binding.
Print Assumptions C03_forgery_needs_collision.
Print Assumptions C03_forged_fields.
Print Assumptions C03_reject_no_effect.
Print Assumptions C03_nonvacuous.
