(* C12 - authorization is complete and follows the current role holder (L1 and L2); a batch
   is all-or-nothing; the L2's binding to its bridge can never be re-pointed.
   Statements only; proofs are in Proofs/C12L1Proofs.v and Proofs/C12L2Proofs.v.  The tables
   [allowed_l1] / [allowed_l2] are in Model/C12Spec.v and read like the property text.
   [step] returns (unchanged state, Err) for a refused message.  Every theorem quantifies
   over ALL states, hence over all states reached by rotations, parameter changes and
   executor changes. *)
From stdpp Require Import gmap numbers list.
From Coq Require Import ZArith.
Require Import Model.Bytes Model.Bank Model.Valset Model.L1 Model.L2 Model.C12Spec.
Require Import Proofs.L2Lemmas Proofs.C12L1Proofs Proofs.C12L2Proofs Proofs.C12Examples.

(* ---------------------------------- L1 (ophost) ------------------------------------- *)

(* Whatever the state, block and message: if the message succeeds, its declared signer holds
   a role the table allows for that message kind, read from the state at that moment. *)
Theorem C12_l1_complete : ∀ (c : L1.cfg) (e : L1.env) (s : l1state) (m : L1.msg) s' r,
  L1.step c e s m = (s', L1.Ok r) → allowed_l1 c s m (l1_signer m).
Proof. exact c12_l1_complete. Qed.

(* The same, read the other way: a signer the table does not allow is refused and nothing
   changes. *)
Theorem C12_l1_refused : ∀ (c : L1.cfg) (e : L1.env) (s : l1state) (m : L1.msg),
  ¬ allowed_l1 c s m (l1_signer m) → L1.step c e s m = (s, L1.Err).
Proof. exact c12_l1_refused. Qed.

(* The role is ALL that matters about the signer: for a permissioned message, two valid
   address strings that the table both allows get the same verdict, the same successor state
   and the same response.  Together with C12_l1_complete: a signer is never refused "for lack
   of the role" once it holds one, and never accepted because of anything else it is. *)
Theorem C12_l1_role_suffices : ∀ (c : L1.cfg) (e : L1.env) (s : l1state) (m : L1.msg) a a',
  l1_permissioned m = true → valid_addr c a = true → valid_addr c a' = true →
  allowed_l1 c s m a → allowed_l1 c s m a' →
  L1.handle c e s (l1_with_signer m a) = L1.handle c e s (l1_with_signer m a').
Proof. exact c12_l1_role_suffices. Qed.

(* Immediate effect of a proposer rotation on the table: in the state right after an Ok
   MsgUpdateProposer the proposer of that bridge is exactly the new address; that bridge's
   challenger and both roles of every other bridge are untouched. *)
Theorem C12_immediate_proposer_rotation : ∀ (c : L1.cfg) e s a b p s' r,
  L1.step c e s (L1.MUpdateProposer a b p) = (s', L1.Ok r) →
  (∀ who, is_proposer s' b who ↔ who = p) ∧
  (∀ who, is_challenger s' b who ↔ is_challenger s b who) ∧
  (∀ b' who, b' ≠ b → (is_proposer s' b' who ↔ is_proposer s b' who) ∧
                       (is_challenger s' b' who ↔ is_challenger s b' who)).
Proof. exact c12_proposer_rotation. Qed.

(* The same for a challenger rotation. *)
Theorem C12_immediate_challenger_rotation : ∀ (c : L1.cfg) e s a b p s' r,
  L1.step c e s (L1.MUpdateChallenger a b p) = (s', L1.Ok r) →
  (∀ who, is_challenger s' b who ↔ who = p) ∧
  (∀ who, is_proposer s' b who ↔ is_proposer s b who) ∧
  (∀ b' who, b' ≠ b → (is_proposer s' b' who ↔ is_proposer s b' who) ∧
                       (is_challenger s' b' who ↔ is_challenger s b' who)).
Proof. exact c12_challenger_rotation. Qed.

(* Concretely, for the OLD proposer (old <> new): its next output proposal is refused in any
   block; if it is not governance its proposer / batch-info / oracle-flag / metadata updates
   are refused; and its deletions too unless it is also the challenger. *)
Theorem C12_immediate_old_proposer : ∀ (c : L1.cfg) e s a b p s' r old,
  L1.step c e s (L1.MUpdateProposer a b p) = (s', L1.Ok r) → old ≠ p →
  (∀ e' idx l2 root, L1.step c e' s' (L1.MPropose old b idx l2 root) = (s', L1.Err)) ∧
  (gov c ≠ old →
     (∀ e' q, L1.step c e' s' (L1.MUpdateProposer old b q) = (s', L1.Err)) ∧
     (∀ e' bi, L1.step c e' s' (L1.MUpdateBatchInfo old b bi) = (s', L1.Err)) ∧
     (∀ e' f, L1.step c e' s' (L1.MUpdateOracle old b f) = (s', L1.Err)) ∧
     (∀ e' md, L1.step c e' s' (L1.MUpdateMetadata old b md) = (s', L1.Err)) ∧
     (¬ is_challenger s b old → ∀ e' idx, L1.step c e' s' (L1.MDelete old b idx) = (s', L1.Err))).
Proof. exact c12_old_proposer_refused. Qed.

(* For the OLD challenger (old <> new, not governance): its next challenger update is
   refused, and its deletions too unless it is also the proposer. *)
Theorem C12_immediate_old_challenger : ∀ (c : L1.cfg) e s a b p s' r old,
  L1.step c e s (L1.MUpdateChallenger a b p) = (s', L1.Ok r) → old ≠ p → gov c ≠ old →
  (∀ e' q, L1.step c e' s' (L1.MUpdateChallenger old b q) = (s', L1.Err)) ∧
  (¬ is_proposer s b old → ∀ e' idx, L1.step c e' s' (L1.MDelete old b idx) = (s', L1.Err)).
Proof. exact c12_old_challenger_refused. Qed.

(* The NEW proposer is no longer refused for lack of the role: its oracle-flag update (a
   handler with no precondition besides the role) succeeds in the very next message. *)
Theorem C12_immediate_new_proposer : ∀ (c : L1.cfg) e s a b p s' r e' f,
  L1.step c e s (L1.MUpdateProposer a b p) = (s', L1.Ok r) →
  ∃ s'', L1.step c e' s' (L1.MUpdateOracle p b f) = (s'', L1.Ok L1.RNone).
Proof. exact c12_new_proposer_accepted. Qed.

(* The NEW challenger can use the role at once (here: hand it on to itself). *)
Theorem C12_immediate_new_challenger : ∀ (c : L1.cfg) e s a b p s' r e',
  L1.step c e s (L1.MUpdateChallenger a b p) = (s', L1.Ok r) →
  ∃ s'' r', L1.step c e' s' (L1.MUpdateChallenger p b p) = (s'', L1.Ok r').
Proof. exact c12_new_challenger_accepted. Qed.

(* ---------------------------------- L2 (opchild) ------------------------------------ *)

(* Whatever the state and message: if it succeeds, its declared signer is allowed by the L2
   table - a listed executor (compared as decoded address bytes), the module authority
   string, or - for a batch - the current admin, with every inner message signed by the
   authority. *)
Theorem C12_l2_complete : ∀ (c : L2.cfg) (s : l2state) (m : L2.msg) s' r,
  L2.step c s m = (s', L2.Ok r) → allowed_l2 c s m (l2_signer m).
Proof. exact c12_l2_complete. Qed.

Theorem C12_l2_refused : ∀ (c : L2.cfg) (s : l2state) (m : L2.msg),
  ¬ allowed_l2 c s m (l2_signer m) → L2.step c s m = (s, L2.Err).
Proof. exact c12_l2_refused. Qed.

(* ExecuteMessages is all-or-nothing: either it is Ok and the new state is exactly the inner
   messages applied one after the other (each one succeeding), or it is Err and the state
   is unchanged. *)
Theorem C12_exec_all_or_nothing : ∀ (c : L2.cfg) s sender inner s' r,
  L2.step c s (MExecute sender inner) = (s', r) →
  (r = L2.Ok L2.RNone ∧ inner ≠ [] ∧ fold_handle c s inner = Some s') ∨ (r = L2.Err ∧ s' = s).
Proof. exact c12_exec_all_or_nothing. Qed.

(* If any inner message fails at its turn, the whole batch is refused with no effect. *)
Theorem C12_exec_fails_if_any_fails : ∀ (c : L2.cfg) s sender inner,
  fold_handle c s inner = None → L2.step c s (MExecute sender inner) = (s, L2.Err).
Proof. exact c12_exec_fails_if_any_fails. Qed.

(* Conversely a well-formed batch from the admin whose inner messages are all signed by the
   authority and all succeed in order is applied completely. *)
Theorem C12_exec_applies_all : ∀ (c : L2.cfg) s sender inner s' au,
  is_Some (L2.resolve c sender) → inner ≠ [] → p_admin (prm s) = sender →
  L2.resolve c (authority c) = Some au → Forall (inner_signer_is c au) inner →
  fold_handle c s inner = Some s' →
  L2.step c s (MExecute sender inner) = (s', L2.Ok L2.RNone).
Proof. exact c12_exec_applies_all. Qed.

(* Every inner message of a successful batch was itself allowed on the state it ran on. *)
Theorem C12_exec_inner_allowed : ∀ (c : L2.cfg) l1 m l2 s s',
  fold_handle c s (l1 ++ m :: l2) = Some s' →
  ∃ si, fold_handle c s l1 = Some si ∧ allowed_l2 c si m (l2_signer m).
Proof. exact c12_exec_inner_allowed. Qed.

(* Immediate effect of a parameter change (admin / executor list): the stored params are
   exactly the new ones, so the table is evaluated on them from the next message on. *)
Theorem C12_immediate_params : ∀ (c : L2.cfg) s a p s' r,
  L2.step c s (L2.MUpdateParams a p) = (s', L2.Ok r) →
  prm s' = p ∧ info s' = info s ∧ params_valid c p = true.
Proof. exact c12_params_take_effect. Qed.

(* An executor dropped from the list is refused at once for both executor messages. *)
Theorem C12_immediate_old_executor : ∀ (c : L2.cfg) s a p s' r old,
  L2.step c s (L2.MUpdateParams a p) = (s', L2.Ok r) →
  (∀ e, e ∈ p_execs p → L2.resolve c e ≠ L2.resolve c old) →
  (∀ f, fd_sender f = old → L2.step c s' (MFinalizeDeposit f) = (s', L2.Err)) ∧
  (∀ bi, L2.step c s' (MSetBridgeInfo old bi) = (s', L2.Err)).
Proof. exact c12_old_executor_refused. Qed.

(* An executor added to the list is accepted at once. *)
Theorem C12_immediate_new_executor : ∀ (c : L2.cfg) s a p s' r new bi,
  L2.step c s (L2.MUpdateParams a p) = (s', L2.Ok r) →
  new ∈ p_execs p → binfo_valid bi = true →
  match info s' with None => True | Some old => binfo_compatible old bi = true end →
  L2.step c s' (MSetBridgeInfo new bi) = (set_info s' (Some bi), L2.Ok L2.RNone).
Proof. exact c12_new_executor_accepted. Qed.

(* The replaced admin's batch is refused at once, whatever it carries ... *)
Theorem C12_immediate_old_admin : ∀ (c : L2.cfg) s a p s' r old inner,
  L2.step c s (L2.MUpdateParams a p) = (s', L2.Ok r) → old ≠ p_admin p →
  L2.step c s' (MExecute old inner) = (s', L2.Err).
Proof. exact c12_old_admin_refused. Qed.

(* ... and the new admin's batch is accepted at once. *)
Theorem C12_immediate_new_admin : ∀ (c : L2.cfg) s a p s' r,
  L2.step c s (L2.MUpdateParams a p) = (s', L2.Ok r) →
  ∃ s'', L2.step c s' (MExecute (p_admin p) [L2.MUpdateParams (authority c) p]) = (s'', L2.Ok L2.RNone) ∧
         prm s'' = p.
Proof. exact c12_new_admin_accepted. Qed.

(* The binding of the L2 to its bridge: along EVERY history of messages (any signer, batches
   included) and end blockers (executor-change plans included), once the bridge info is
   set, bridge id, bridge address and L1 chain id never change, nor the L1 client id once it
   is non-empty. *)
Theorem C12_binding_immutable : ∀ (c : L2.cfg) (h : list l2ev) (s : l2state),
  binding_kept (info s) (info (run_ev c s h)).
Proof. exact c12_binding_immutable. Qed.

Theorem C12_binding_fields : ∀ (c : L2.cfg) (h : list l2ev) (s : l2state) bi,
  info s = Some bi →
  ∃ bi', info (run_ev c s h) = Some bi' ∧ bi_id bi' = bi_id bi ∧ bi_addr bi' = bi_addr bi ∧
         bi_chain bi' = bi_chain bi ∧ (bi_client bi ≠ [] → bi_client bi' = bi_client bi).
Proof. exact c12_binding_fields. Qed.

(* A SetBridgeInfo that would re-point any of the four is refused, whoever sends it. *)
Theorem C12_repoint_refused : ∀ (c : L2.cfg) s sender old bi,
  info s = Some old →
  (bi_id bi ≠ bi_id old ∨ bi_addr bi ≠ bi_addr old ∨ bi_chain bi ≠ bi_chain old ∨
   (bi_client old ≠ [] ∧ bi_client bi ≠ bi_client old)) →
  L2.step c s (MSetBridgeInfo sender bi) = (s, L2.Err).
Proof. exact c12_repoint_refused. Qed.

Print Assumptions C12_l1_complete.
Print Assumptions C12_l1_refused.
Print Assumptions C12_l1_role_suffices.
Print Assumptions C12_immediate_proposer_rotation.
Print Assumptions C12_immediate_challenger_rotation.
Print Assumptions C12_immediate_old_proposer.
Print Assumptions C12_immediate_old_challenger.
Print Assumptions C12_immediate_new_proposer.
Print Assumptions C12_immediate_new_challenger.
Print Assumptions C12_l2_complete.
Print Assumptions C12_l2_refused.
Print Assumptions C12_exec_all_or_nothing.
Print Assumptions C12_exec_fails_if_any_fails.
Print Assumptions C12_exec_applies_all.
Print Assumptions C12_exec_inner_allowed.
Print Assumptions C12_immediate_params.
Print Assumptions C12_immediate_old_executor.
Print Assumptions C12_immediate_new_executor.
Print Assumptions C12_immediate_old_admin.
Print Assumptions C12_immediate_new_admin.
Print Assumptions C12_binding_immutable.
Print Assumptions C12_binding_fields.
Print Assumptions C12_repoint_refused.
