(* C07 - a deposit can neither be lost nor block the bridge; hooks are contained.
   Statements only; proofs are in Proofs/.

   Two handlers are involved.  [step c s (MFinalizeDeposit m)] is the opchild deposit handler of
   Model/L2.v (validated against the code by the correspondence streams).  [step_f c fe s m]
   (Model/L2Fault.v) is the same handler written as the sequence of bank / account keeper calls
   the Go code makes, each consulting the fault schedule [fault fe : call index -> option
   (FErr | FPanic)]; [(finalize_deposit_f c fe s m).1] is the list of call sites it went
   through; [confined fe tr] says the schedule fires at no call of [tr] outside the guarded ones
   (MintCoins, SendCoinsFromModuleToAccount, keeper calls of hook messages).  The hook payload
   [fd_hook m] is arbitrary: empty, undecodable, or a tx with any signer, sequence, signature
   validity and any list of messages (bank sends, token withdrawals of the signer).

   Vocabulary (Proofs/C07Proofs.v, Proofs/DepositLemmas.v):
     [processed s m s']   next_l1 advanced by one; params, bridge info, validators unchanged;
                          denom map = old map plus (denom -> base denom) if the denom was new;
     [outcome_A c s m s'] the recipient resolves to an account a, and s' is the state [s_mid]
                          (s with: recipient balance + amount, supply + amount, L1 sequence
                          advanced, denom registered, NOTHING else changed) followed by: nothing
                          if the payload is empty, the hook's effects ([run_hook] returned
                          success) if it is not; plus one entry (d_ok = true) in the deposit log;
     [outcome_B s m s']   every balance and every supply exactly as in s; exactly one new
                          withdrawal record (seq = old next_l2, from = recipient string, to = L1
                          sender string, denom, base denom from the map, full amount); next_l2
                          advanced by one; deposit log entry with d_ok = false; account
                          sequences unchanged except possibly the hook signer's, incremented;
     [funds_sane c s m]   the module account's and the recipient's balances of the denom are
                          not negative in s (true of every state of a real chain);
     [refunded_state s m] the (B) state computed from s and the non-hook fields of m alone. *)
From stdpp Require Import gmap numbers list.
From Coq Require Import ZArith.
Require Import Model.Bytes Model.Bank Model.Valset Model.L2 Model.L2Fault.
Require Import Proofs.L2Lemmas Proofs.DepositLemmas Proofs.C09Proofs Proofs.C07Proofs Proofs.C07Examples Proofs.BankNonneg.

(* Every well-formed deposit (any recipient bytes, any amount including 0, any payload) at the
   expected sequence from a current executor, under EVERY fault schedule confined to the guarded
   calls: the handler returns SUCCESS, the L1 sequence advances, and exactly one of (A), (B). *)
Theorem C07_total : ∀ (c : cfg) (fe : fenv) (s : l2state) (m : fdep),
  fdep_valid c m = true → is_executor c s (fd_sender m) = true → fd_seq m = next_l1 s →
  funds_sane c s m → confined fe (finalize_deposit_f c fe s m).1 →
  ∃ s', step_f c fe s m = (s', Ok RSuccess) ∧ processed s m s' ∧
        ((outcome_A c s m s' ∧ ¬ outcome_B s m s') ∨ (outcome_B s m s' ∧ ¬ outcome_A c s m s')).
Proof. exact c07_total. Qed.

(* The same for the handler of Model/L2.v (the one all other theorems and the correspondence
   streams are about): for every hook outcome, SUCCESS and exactly one of (A), (B). *)
Theorem C07_total_no_fault : ∀ (c : cfg) (s : l2state) (m : fdep),
  fdep_valid c m = true → is_executor c s (fd_sender m) = true → fd_seq m = next_l1 s →
  funds_sane c s m →
  ∃ s', step c s (MFinalizeDeposit m) = (s', Ok RSuccess) ∧ processed s m s' ∧
        ((outcome_A c s m s' ∧ ¬ outcome_B s m s') ∨ (outcome_B s m s' ∧ ¬ outcome_A c s m s')).
Proof. exact c07_total_plain. Qed.

(* With no fault the call-by-call handler IS the handler of Model/L2.v, whatever accounts and
   denom metadata exist. *)
Theorem C07_fault_model_refines : ∀ c fe s m,
  no_faults fe → step_f c fe s m = step c s (MFinalizeDeposit m).
Proof. exact step_f_nofault. Qed.

(* In outcome (A) no REFUND is recorded: the only withdrawal records appended are those of
   the hook's own withdrawal messages ([user_records]: w_refund = false, consecutive sequences
   from the old next_l2, next_l2 advanced by their number); (A) and (B) exclude each other. *)
Theorem C07_credit_records_no_refund : ∀ c s m s',
  outcome_A c s m s' → user_records s s' ∧ dlog s' = deposit_rec m true :: dlog s.
Proof. exact outcome_A_logs. Qed.

(* A credited deposit whose hook fails - for whatever reason: undecodable, bad signature or
   sequence, any message failing - ends in the (B) state computed as if no hook message had
   run: all components equal to [refunded_state s m] (bank extensionally), except the account
   sequences, which are what the hook's ante handler left: unchanged or the signer's + 1. *)
Theorem C07_hook_contained : ∀ c s m s1 s4,
  fdep_valid c m = true → is_executor c s (fd_sender m) = true → fd_seq m = next_l1 s →
  funds_sane c s m →
  fd_dep c s m = (s1, true) → hook_nonempty (fd_hook m) = true →
  run_hook c (fd_gate s1 m) (fd_hook m) = (s4, false) →
  ∃ s', step c s (MFinalizeDeposit m) = (s', Ok RSuccess) ∧
        frame_bk_seqs (refunded_state s m) s' ∧
        (∀ a d, getb (bk s') a d = getb (bk (refunded_state s m)) a d) ∧
        (∀ d, gets (bk s') d = gets (bk (refunded_state s m)) d) ∧
        seqs s' = seqs s4 ∧
        (seqs s' = seqs s ∨ ∃ signer, seqs s' = <[signer := (getseq s signer + 1)%N]> (seqs s)).
Proof. exact c07_hook_contained. Qed.

(* PARTIAL (gas clause): only the arithmetic of the limit.  The meter handed to the hook is
   min(remaining, hook_max_gas) and what is charged back to the outer meter (consumed-to-limit)
   never exceeds it.  That the store really charges every hook operation to that meter is
   runtime behaviour the model does not exhibit; the harness monitors it on the real code. *)
Theorem C07_gas_bound_partial : ∀ remaining hook_max consumed : N,
  (gas_for_hook remaining hook_max ≤ hook_max)%N ∧ (gas_for_hook remaining hook_max ≤ remaining)%N ∧
  (gas_charged consumed (gas_for_hook remaining hook_max) ≤ hook_max)%N ∧
  (gas_charged consumed (gas_for_hook remaining hook_max) ≤ remaining)%N ∧
  (gas_charged consumed (gas_for_hook remaining hook_max) ≤ consumed)%N.
Proof. exact c07_gas_bound. Qed.

(* KNOWN FINDING D11.  The statement "for every fault schedule the handler returns SUCCESS" is
   false: for EVERY call site outside the guarded region (HasAccount / NewAccountWithAddress /
   SetAccount of the zero-amount path, HasDenomMetaData / SetDenomMetaData, the reclaim
   transfer, the burn) there is a well-formed deposit and a schedule with a single fault, at
   that call, on which the handler returns an error (and by the in-order rule every later
   deposit is then stuck behind it). *)
Theorem C07_unguarded_faults_refuted :
  ∀ st, guarded st = false → ∃ c fe s m i, unguarded_witness st c fe s m i.
Proof. exact c07_unguarded_faults_refuted. Qed.

(* ... in the short form: *)
Theorem C07_unguarded_fault_exists :
  ∃ c fe s m, fdep_valid c m = true ∧ is_executor c s (fd_sender m) = true ∧ fd_seq m = next_l1 s ∧
              step_f c fe s m = (s, Err).
Proof. exact c07_unguarded_fault_exists. Qed.

(* Conversely these are the ONLY ways to fail: if the call-by-call handler fails on a
   well-formed deposit at the expected sequence, a fault fired at an unguarded call. *)
Theorem C07_err_only_unguarded : ∀ c fe s m,
  fdep_valid c m = true → is_executor c s (fd_sender m) = true → fd_seq m = next_l1 s →
  funds_sane c s m → (finalize_deposit_f c fe s m).2 = None →
  ∃ i st, (finalize_deposit_f c fe s m).1 !! i = Some st ∧ guarded st = false ∧ is_Some (fault fe i).
Proof. exact c07_err_only_unguarded. Qed.

(* The hypothesis [funds_sane] costs nothing on reachable states: balances never become
   negative along any history (every debit is checked, every credited amount is >= 0). *)
Theorem C07_balances_never_negative : ∀ (c : cfg) (h : list msg) (s : l2state),
  bank_nonneg (bk s) → bank_nonneg (bk (run c s h).1).
Proof. exact run_nonneg. Qed.

Theorem C07_funds_sane_reachable : ∀ (c : cfg) (h : list msg) (s : l2state) (m : fdep),
  bank_nonneg (bk s) → funds_sane c (run c s h).1 m.
Proof. exact reachable_funds_sane. Qed.

(* Non-vacuity: guarded faults that really fire (a panic in MintCoins, an error in the transfer
   to the recipient, a panic inside a hook message) are absorbed into outcome (B). *)
Theorem C07_example_mint_panic :
  let fe := fe_at 0 FPanic in
  confined fe (finalize_deposit_f ex_cfg fe ex_init m_plain).1 ∧
  ∃ s', step_f ex_cfg fe ex_init m_plain = (s', Ok RSuccess) ∧
        map w_seq (wlog s') = [1%N] ∧ gets (bk s') dA = 0%Z ∧ getb (bk s') 4 dA = 0%Z ∧
        next_l1 s' = 2%N ∧ next_l2 s' = 2%N.
Proof. exact ex_mint_panic. Qed.

Theorem C07_example_hook_fault :
  let fe := fe_at 4 FPanic in
  confined fe (finalize_deposit_f ex_cfg fe ex_init m_hookok).1 ∧
  ∃ s', step_f ex_cfg fe ex_init m_hookok = (s', Ok RSuccess) ∧
        map w_seq (wlog s') = [1%N] ∧ gets (bk s') dA = 0%Z ∧ getb (bk s') 4 dA = 0%Z ∧
        getb (bk s') 5 dA = 0%Z ∧ getseq s' 4 = 1%N.
Proof. exact ex_hook_fault. Qed.

(* A withdrawal carried by a succeeding hook is an ordinary user withdrawal (record 1, burnt);
   when a later hook message fails nothing of it survives: the only record is the refund. *)
Theorem C07_example_hook_withdrawals :
  (∃ s', step ex_cfg ex_init (MFinalizeDeposit m_hookwd) = (s', Ok RSuccess) ∧
         map (λ w, (w_seq w, w_refund w, w_amt w)) (wlog s') = [(1%N, false, 20%Z)] ∧ next_l2 s' = 2%N ∧
         getb (bk s') 4 dA = 30%Z ∧ gets (bk s') dA = 30%Z ∧ map d_ok (dlog s') = [true]) ∧
  (∃ s', step ex_cfg ex_init (MFinalizeDeposit m_hookwd_fail) = (s', Ok RSuccess) ∧
         map (λ w, (w_seq w, w_refund w, w_amt w)) (wlog s') = [(1%N, true, 50%Z)] ∧ next_l2 s' = 2%N ∧
         getb (bk s') 4 dA = 0%Z ∧ gets (bk s') dA = 0%Z ∧ map d_ok (dlog s') = [false]).
Proof. exact ex_hook_withdrawals. Qed.

Print Assumptions C07_total.
Print Assumptions C07_total_no_fault.
Print Assumptions C07_fault_model_refines.
Print Assumptions C07_credit_records_no_refund.
Print Assumptions C07_hook_contained.
Print Assumptions C07_gas_bound_partial.
Print Assumptions C07_unguarded_faults_refuted.
Print Assumptions C07_unguarded_fault_exists.
Print Assumptions C07_err_only_unguarded.
Print Assumptions C07_balances_never_negative.
Print Assumptions C07_funds_sane_reachable.
Print Assumptions C07_example_mint_panic.
Print Assumptions C07_example_hook_fault.
Print Assumptions C07_example_hook_withdrawals.
