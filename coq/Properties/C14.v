(* C14 - a registered executor-change plan replaces the sequencer safely and exactly once.
   Statements only; proofs are in Proofs/C14Proofs.v (and Proofs/ValsetLemmas.v for the end
   blocker).  Model: Model/L2.v [change_executor] / [end_block] (ChangeExecutor + EndBlocker),
   Model/Plans.v [register] / [end_block_at] (RegisterExecutorChangePlan, the plan table
   height -> plan), Model/Valset.v.  [mid_inv (vs s) e] is the invariant of every validator
   state reachable under C13 (any point inside a block) together with the engine's set [e]. *)
From stdpp Require Import gmap numbers list.
From Coq Require Import ZArith.
Require Import Model.Bytes Model.Bank Model.Valset Model.L2 Model.ValChain Model.Plans Model.TraceVal.
Require Import Proofs.ValsetLemmas Proofs.C13Proofs Proofs.C14Proofs.

(* For every reachable validator state and every plan whose operator address and consensus
   key are not in use and for which stored validators + 1 <= MaxValidators (params valid, the
   plan's executor addresses decodable - registration guarantees it): the end blocker does not
   fail; its batch is well-formed and the engine accepts it; afterwards engine, validators,
   key index and last powers contain exactly the plan's validator with power 1; the executors
   are exactly the plan's list; every other parameter and the rest of the module state is
   unchanged. *)
Theorem C14_plan_good : ∀ (c : cfg) (s : l2state) (e : gmap N Z) (p : plan),
  mid_inv (vs s) e → plan_fresh (vs s) p →
  (N.of_nat (size (vals (vs s))) + 1 ≤ p_maxv (prm s))%N →
  params_valid c (prm s) = true → Forall (λ x, is_Some (resolve c x)) (pl_execs p) →
  ∃ s' ups,
    end_block c s (Some p) = Some (s', ups) ∧
    batch_wellformed e ups ∧
    engine_apply e ups = Some ({[pl_key p := 1%Z]} : gmap N Z) ∧
    vals (vs s') = {[pl_op p := {| v_key := pl_key p; v_pow := 1 |}]} ∧
    idx (vs s') = {[pl_key p := pl_op p]} ∧
    last (vs s') = {[pl_op p := 1%Z]} ∧
    blk_inv (vs s') ({[pl_key p := 1%Z]} : gmap N Z) ∧
    p_execs (prm s') = pl_execs p ∧
    p_admin (prm s') = p_admin (prm s) ∧ p_maxv (prm s') = p_maxv (prm s) ∧ p_hist (prm s') = p_hist (prm s) ∧
    p_mingas (prm s') = p_mingas (prm s) ∧ p_whitelist (prm s') = p_whitelist (prm s) ∧
    p_hookgas (prm s') = p_hookgas (prm s) ∧
    bk s' = bk s ∧ next_l1 s' = next_l1 s ∧ next_l2 s' = next_l2 s ∧ pairs s' = pairs s ∧ info s' = info s.
Proof. exact plan_good. Qed.

(* The same outcome for a plan that names an EXISTING validator with its OWN consensus key
   (keep the sequencer, drop every other validator, swap the executors) - no extra room is
   needed, so it also works when stored validators = MaxValidators.  Together with
   C14_plan_good this leaves exactly three failing structural situations: a stored operator
   given a different key (D8), a key in use by another operator (D9), a new validator at the
   cap (D10). *)
Theorem C14_plan_same_validator : ∀ (c : cfg) (s : l2state) (e : gmap N Z) (p : plan),
  mid_inv (vs s) e → plan_same (vs s) p →
  (N.of_nat (size (vals (vs s))) ≤ p_maxv (prm s))%N →
  params_valid c (prm s) = true → Forall (λ x, is_Some (resolve c x)) (pl_execs p) →
  ∃ s' ups,
    end_block c s (Some p) = Some (s', ups) ∧
    batch_wellformed e ups ∧
    engine_apply e ups = Some ({[pl_key p := 1%Z]} : gmap N Z) ∧
    vals (vs s') = {[pl_op p := {| v_key := pl_key p; v_pow := 1 |}]} ∧
    idx (vs s') = {[pl_key p := pl_op p]} ∧
    last (vs s') = {[pl_op p := 1%Z]} ∧
    blk_inv (vs s') ({[pl_key p := 1%Z]} : gmap N Z) ∧
    p_execs (prm s') = pl_execs p ∧
    p_admin (prm s') = p_admin (prm s) ∧ p_maxv (prm s') = p_maxv (prm s) ∧ p_hist (prm s') = p_hist (prm s) ∧
    p_mingas (prm s') = p_mingas (prm s) ∧ p_whitelist (prm s') = p_whitelist (prm s) ∧
    p_hookgas (prm s') = p_hookgas (prm s) ∧
    bk s' = bk s ∧ next_l1 s' = next_l1 s ∧ next_l2 s' = next_l2 s ∧ pairs s' = pairs s ∧ info s' = info s.
Proof. exact plan_same_validator. Qed.

(* At a height without a plan the end blocker is the one of the empty table: the ordinary
   validator update of C13, parameters (executors included) and everything else untouched. *)
Theorem C14_only_at_h : ∀ (c : cfg) (t : plan_table) (s : l2state) (h : N),
  t !! h = None →
  end_block_at c t s h = end_block_at c (∅ : gmap N plan) s h ∧
  ∀ s' ups, end_block_at c t s h = Some (s', ups) →
    prm s' = prm s ∧ end_block_updates (vs s) = Some (vs s', ups) ∧ bk s' = bk s ∧ next_l1 s' = next_l1 s ∧
    next_l2 s' = next_l2 s ∧ pairs s' = pairs s ∧ info s' = info s.
Proof. exact only_at_h. Qed.

(* A successful registration writes exactly the entry of its own height. *)
Theorem C14_register_only_its_height : ∀ c t r t' h,
  register c t r = Some t' → h ≠ rq_height r → t' !! h = t !! h.
Proof. exact register_other_heights. Qed.

(* Registration fails - there is then no new table, the old one stays - for a zero proposal id,
   a zero height, a height that already has a plan, an undecodable operator address, an
   undecodable consensus key or an undecodable executor address ... *)
Theorem C14_register_spec : ∀ (c : cfg) (t : plan_table) (r : plan_req),
  (rq_pid r = 0%N ∨ rq_height r = 0%N ∨ is_Some (t !! rq_height r) ∨ rq_op r = None ∨ rq_key r = None ∨
   Exists (λ e, resolve c e = None) (rq_execs r)) → register c t r = None.
Proof. exact register_spec. Qed.

(* ... and only then: a well-formed request is registered, as exactly the requested plan. *)
Theorem C14_register_accepts : ∀ c t r, req_wellformed c t r → is_Some (register c t r).
Proof. exact register_wellformed. Qed.
Theorem C14_register_exact : ∀ c t r t',
  register c t r = Some t' →
  req_wellformed c t r ∧
  ∃ op key, rq_op r = Some op ∧ rq_key r = Some key ∧
            t' = <[rq_height r := {| pl_op := op; pl_key := key; pl_execs := rq_execs r |}]> t.
Proof. exact register_Some. Qed.

(* The full statement "for ALL plans" is false of the faithful model (and of the code): three
   computed witnesses on a state reached from a valid genesis - the known findings D8, D9, D10.
   D8: operator address already stored under ANOTHER key (the plan's key is not indexed) -> no
   update, engine keeps key 1, state has key 2. *)
Theorem C14_reuse_operator_refuted :
  ∃ (g : vgenesis) (p : plan) st0 ups0 s',
    genesis_valid g ∧ genesis_chain g 0 = Some (st0, ups0) ∧
    params_valid wit_cfg (prm (wit_l2 g st0)) = true ∧
    is_Some (vals (vs (wit_l2 g st0)) !! pl_op p) ∧ idx (vs (wit_l2 g st0)) !! pl_key p = None ∧
    (N.of_nat (size (vals (vs (wit_l2 g st0)))) + 1 ≤ p_maxv (prm (wit_l2 g st0)))%N ∧
    end_block wit_cfg (wit_l2 g st0) (Some p) = Some (s', []) ∧
    apply_updates (ch_eng st0) [] ≠ state_set (vs s') ∧
    ch_eng st0 !! 1%N = Some 1%Z ∧ state_set (vs s') !! 1%N = None ∧ state_set (vs s') !! 2%N = Some 1%Z.
Proof. exact reuse_operator_refuted. Qed.

(* D9: consensus key in use by ANOTHER operator (the plan's operator is not stored) -> the batch
   lists the key twice, the engine rejects it, the
   key's index entry is deleted although the plan's validator carries it. *)
Theorem C14_reuse_key_refuted :
  ∃ (g : vgenesis) (p : plan) st0 ups0 s' ups,
    genesis_valid g ∧ genesis_chain g 0 = Some (st0, ups0) ∧
    params_valid wit_cfg (prm (wit_l2 g st0)) = true ∧
    vals (vs (wit_l2 g st0)) !! pl_op p = None ∧ is_Some (idx (vs (wit_l2 g st0)) !! pl_key p) ∧
    (N.of_nat (size (vals (vs (wit_l2 g st0)))) + 1 ≤ p_maxv (prm (wit_l2 g st0)))%N ∧
    end_block wit_cfg (wit_l2 g st0) (Some p) = Some (s', ups) ∧
    ups = [(1%N, 1%Z); (1%N, 0%Z)] ∧ ¬ NoDup (map fst ups) ∧
    engine_apply (ch_eng st0) ups = None ∧
    is_Some (vals (vs s') !! pl_op p) ∧ idx (vs s') !! pl_key p = None.
Proof. exact reuse_key_refuted. Qed.

(* D10: fresh operator and key, but stored validators = MaxValidators -> the end blocker fails. *)
Theorem C14_at_cap_refuted :
  ∃ (g : vgenesis) (p : plan) st0 ups0,
    genesis_valid g ∧ genesis_chain g 0 = Some (st0, ups0) ∧
    params_valid wit_cfg (prm (wit_l2 g st0)) = true ∧
    vals (vs (wit_l2 g st0)) !! pl_op p = None ∧ idx (vs (wit_l2 g st0)) !! pl_key p = None ∧
    N.of_nat (size (vals (vs (wit_l2 g st0)))) = p_maxv (prm (wit_l2 g st0)) ∧
    end_block wit_cfg (wit_l2 g st0) (Some p) = None.
Proof. exact at_cap_refuted. Qed.

Print Assumptions C14_plan_good.
Print Assumptions C14_plan_same_validator.
Print Assumptions C14_only_at_h.
Print Assumptions C14_register_only_its_height.
Print Assumptions C14_register_spec.
Print Assumptions C14_register_accepts.
Print Assumptions C14_register_exact.
Print Assumptions C14_reuse_operator_refuted.
Print Assumptions C14_reuse_key_refuted.
Print Assumptions C14_at_cap_refuted.
