(* C19 - the relayer admin of a permissioned IBC channel follows the bridge's challenger.
   Statements only; proofs in Proofs/L1HookLemmas.v and Proofs/C19Proofs.v.
   [admins s] is the IBC permission keeper (channel -> admin account), [chans s] the channel
   keeper (channel -> next send sequence; 1 = never sent a packet).  [parse c] stands for
   "metadata has the key perm_channels AND decodes strictly as the documented structure"; it
   is a field of [cfg], so every theorem holds for EVERY parse function - whatever Go's JSON
   decoder accepts, the grant checks apply to its result unchanged. *)
From stdpp Require Import gmap numbers list.
From Coq Require Import ZArith.
Require Import Model.Bytes Model.Bank Model.Hashes Model.L1 Model.C19Spec.
Require Import Proofs.L1HookLemmas Proofs.C19Proofs.

(* Creating a bridge whose metadata lists channels succeeds only if the challenger is an
   address, the list has no repetition, and EVERY listed channel exists with next-send = 1 and
   has no admin; then exactly the listed channels get the challenger as admin and no other
   entry changes. *)
Theorem C19_grant_spec_create : ∀ (c : cfg) e s creator x s' r chs,
  step c e s (MCreateBridge creator x) = (s', Ok r) → parse c (c_meta x) = Some chs →
  ∃ a, resolve c (c_challenger x) = Some a ∧ NoDup chs ∧
    (∀ pc, pc ∈ chs → chans s !! pc = Some 1%N ∧ admins s !! pc = None ∧ admins s' !! pc = Some a) ∧
    (∀ pc, pc ∉ chs → admins s' !! pc = admins s !! pc).
Proof. exact c19_grant_create. Qed.

(* Otherwise the WHOLE creation fails and nothing changes (no bridge, no fee, no admin entry -
   also not for channels earlier in the list). *)
Theorem C19_grant_spec_create_refused : ∀ (c : cfg) e s creator x chs pc,
  parse c (c_meta x) = Some chs → pc ∈ chs →
  (chans s !! pc ≠ Some 1%N ∨ admins s !! pc ≠ None) →
  step c e s (MCreateBridge creator x) = (s, Err).
Proof. exact c19_grant_create_refused. Qed.

(* Updating the metadata of bridge b to a list succeeds only if every listed channel either
   already has b's challenger as admin (then its entry is unchanged) or exists with
   next-send = 1 and no admin (then it gets the challenger); no other entry changes. *)
Theorem C19_grant_spec_metadata : ∀ (c : cfg) e s auth b md s' r x chs,
  step c e s (MUpdateMetadata auth b md) = (s', Ok r) → configs s !! b = Some x → parse c md = Some chs →
  ∃ a, resolve c (c_challenger x) = Some a ∧
    (∀ pc, pc ∈ chs → admins s' !! pc = Some a ∧
       (admins s !! pc = Some a ∨ (chans s !! pc = Some 1%N ∧ admins s !! pc = None))) ∧
    (∀ pc, pc ∉ chs → admins s' !! pc = admins s !! pc).
Proof. exact c19_grant_metadata. Qed.

(* Otherwise the whole update fails and nothing changes. *)
Theorem C19_grant_spec_metadata_refused : ∀ (c : cfg) e s auth b md x chs pc,
  configs s !! b = Some x → parse c md = Some chs → pc ∈ chs →
  admins s !! pc ≠ resolve c (c_challenger x) →
  (chans s !! pc ≠ Some 1%N ∨ admins s !! pc ≠ None) →
  step c e s (MUpdateMetadata auth b md) = (s, Err).
Proof. exact c19_grant_metadata_refused. Qed.

(* A refused message changes nothing at all. *)
Theorem C19_refused_no_change : ∀ (c : cfg) e s m s', step c e s m = (s', Err) → s' = s.
Proof. exact step_err_unchanged. Qed.

(* An Ok challenger update of bridge b sets the admin of every channel listed in b's STORED
   metadata to the new challenger's account and touches no other entry. *)
Theorem C19_handover : ∀ (c : cfg) e s auth b p s' r x chs,
  step c e s (MUpdateChallenger auth b p) = (s', Ok r) → configs s !! b = Some x →
  parse c (c_meta x) = Some chs →
  ∃ a, resolve c p = Some a ∧ (∀ pc, pc ∈ chs → admins s' !! pc = Some a) ∧
       (∀ pc, pc ∉ chs → admins s' !! pc = admins s !! pc).
Proof. exact c19_handover. Qed.

(* Metadata that does not parse never touches channel permissions: the whole admin table is
   the same after create / update-metadata / update-challenger, whether they succeed or not. *)
Theorem C19_unparsed_untouched : ∀ (c : cfg) e s,
  (∀ cr x, parse c (c_meta x) = None → admins (step c e s (MCreateBridge cr x)).1 = admins s) ∧
  (∀ auth b md, parse c md = None → admins (step c e s (MUpdateMetadata auth b md)).1 = admins s) ∧
  (∀ auth b p x, configs s !! b = Some x → parse c (c_meta x) = None →
                 admins (step c e s (MUpdateChallenger auth b p)).1 = admins s).
Proof. exact c19_unparsed_untouched. Qed.

(* Whatever the L1 message and state: an admin entry that differs afterwards was changed by
   the environment (another module), a grant on creation, a grant on a metadata update, or a
   handover - with all their side conditions (Model/C19Spec.v admin_change_rule). *)
Theorem C19_admin_changes_only_by_step : ∀ (c : cfg) e s m s' r pc,
  step c e s m = (s', r) → admins s' !! pc ≠ admins s !! pc → admin_change_rule c s m s' pc.
Proof. exact c19_step_only_by. Qed.

(* Along every history: if an entry differs between the start and the end, some message of
   the history changed it by one of the rules, on the state reached at that point. *)
Theorem C19_admin_changes_only_by : ∀ (c : cfg) h s pc,
  admins (run c s h).1 !! pc ≠ admins s !! pc →
  ∃ h1 e m h2, h = h1 ++ (e, m) :: h2 ∧
    admin_change_rule c (run c s h1).1 m (step c e (run c s h1).1 m).1 pc.
Proof. exact c19_history_only_by. Qed.

(* OBSERVATION, not a violation of the statement: the stronger reading "the admin of every
   channel a bridge lists is that bridge's current challenger" is FALSE.  Witness (DESIGN.md
   section 7): six successful messages, no grant by another module, after which bridge 1 lists
   the channel, its challenger is account 2 (installed by governance), and the admin is
   account 3 (chosen by the replaced challenger through its own bridge 2).
     the full statement  [forall c h, no_adminset h ->
       admin_follows_challenger c (run c init_state h).1]  does not hold. *)
Theorem C19_strong_no_capture_refuted :
  ∃ c h, no_adminset h ∧ all_ok (run c init_state h).2 ∧
         ¬ admin_follows_challenger c (run c init_state h).1.
Proof. exact c19_strong_no_capture_refuted. Qed.

Print Assumptions C19_grant_spec_create.
Print Assumptions C19_grant_spec_create_refused.
Print Assumptions C19_grant_spec_metadata.
Print Assumptions C19_grant_spec_metadata_refused.
Print Assumptions C19_refused_no_change.
Print Assumptions C19_handover.
Print Assumptions C19_unparsed_untouched.
Print Assumptions C19_admin_changes_only_by_step.
Print Assumptions C19_admin_changes_only_by.
Print Assumptions C19_strong_no_capture_refuted.
