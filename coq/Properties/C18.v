(* C18 - state transitions are deterministic (partial by nature for this technique).
   Statements only; proofs are in Proofs/.  What a theorem about a Gallina model can carry:
   (a) where the code ranges over a Go map and then sorts (the no-longer-bonded operators in
   x/opchild/keeper/val_state_change.go), the enumeration order of the map is a parameter
   [iter] and the returned update list and the resulting state are proved independent of it;
   (b) the model's transition functions are functions.  Wall-clock reads, randomness and
   dependence on process history cannot be exhibited by a Gallina function; they are only
   sampled by the repeated executions of the correspondence stream (harness/gen_c18.go). *)
From stdpp Require Import gmap numbers sorting list.
From Coq Require Import ZArith.
Require Import Model.Bytes Model.Bank Model.Valset Model.ValsetOrder Model.L1 Model.L2.
Require Import Model.Genesis1 Model.Genesis2.
Require Import Proofs.C18Proofs Proofs.C18GenesisProofs.

(* Sorting a key-distinct list by key gives the same list for every permutation of the input. *)
Theorem C18_sort_permutation_invariant : ∀ (A : Type) (l1 l2 : list (N * A)),
  l1 ≡ₚ l2 → NoDup l1.*1 → merge_sort key_le l1 = merge_sort key_le l2.
Proof. exact @merge_sort_perm_invariant. Qed.

(* The end blocker's validator updates (in order) and resulting state do not depend on the
   order in which the runtime enumerates the map of no-longer-bonded operators: with ANY
   enumeration the result is that of the reference model (which sorts the store order). *)
Theorem C18_valset_order_independent : ∀ iter s,
  is_enumeration iter → end_block_updates_iter iter s = end_block_updates s.
Proof. exact end_block_order_independent. Qed.

(* Hence any two runs, whatever their map iteration orders, agree. *)
Theorem C18_valset_two_runs_agree : ∀ iter1 iter2 s,
  is_enumeration iter1 → is_enumeration iter2 →
  end_block_updates_iter iter1 s = end_block_updates_iter iter2 s.
Proof. exact end_block_two_orders. Qed.

(* The sort is what makes this true: without it two enumerations of the same map give
   different update lists on a state with three simultaneous removals. *)
Theorem C18_unsorted_order_dependent :
  is_enumeration iter_fwd ∧ is_enumeration iter_rev ∧
  snd <$> end_block_updates_unsorted iter_fwd ex_state ≠ snd <$> end_block_updates_unsorted iter_rev ex_state.
Proof. exact (conj iter_fwd_enum (conj iter_rev_enum unsorted_order_dependent)). Qed.

(* The model's transitions are functions of (configuration, state, history): two evaluations
   give the same state and the same result list.  Trivial for a Gallina function; the content
   is the correspondence, which shows the implementation agrees with these functions. *)
Theorem C18_step_functional_l1 : ∀ (c : L1.cfg) s h r1 r2, L1.run c s h = r1 → L1.run c s h = r2 → r1 = r2.
Proof. exact l1_run_functional. Qed.
Theorem C18_step_functional_l2 : ∀ (c : L2.cfg) s h r1 r2, L2.run c s h = r1 → L2.run c s h = r2 → r1 = r2.
Proof. exact l2_run_functional. Qed.
Theorem C18_step_functional_endblock : ∀ s r1 r2, end_block_updates s = r1 → end_block_updates s = r2 → r1 = r2.
Proof. exact end_block_functional. Qed.

(* Import of an exported L2 genesis (Model/Genesis2.v, the model of InitGenesis validated by the
   C16 stream): the validator updates handed to the consensus engine are, entry by entry and in the
   order of the document's last_validator_powers list, the consensus key of that entry's validator
   with the recorded power - a function of the document alone, no enumeration order enters.
   (C16's round-trip theorem shows the hypothesis is met by every exported reachable state.) *)
Theorem C18_genesis_updates_order : ∀ c base g s ups,
  import2 c base g = Some (s, ups) → h_exported g = true →
  mapM (update_of (foldl import_val vempty (h_vals g))) (h_last g) = Some ups.
Proof. exact import2_updates_in_file_order. Qed.

Print Assumptions C18_sort_permutation_invariant.
Print Assumptions C18_valset_order_independent.
Print Assumptions C18_valset_two_runs_agree.
Print Assumptions C18_unsorted_order_dependent.
Print Assumptions C18_step_functional_l1.
Print Assumptions C18_step_functional_l2.
Print Assumptions C18_step_functional_endblock.
Print Assumptions C18_genesis_updates_order.
