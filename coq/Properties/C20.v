(* C20 - L2 mempool admission: fee floor, lane matching, redundant-relay filtering.
   Statements only; proofs are in Proofs/.  Model: Model/Fee.v (prices are raw sdk.LegacyDec
   values, i.e. integers in units of 10^-18; [prec] = 10^18; denoms are ids in denom order;
   [ssorted] = sorted by denom without duplicates, which DecCoins.Validate / Coins.Validate
   guarantee for the chain parameter, the node configuration and the transaction fee). *)
From Coq Require Import List NArith Bool.
Require Import Model.Fee.
Require Import Proofs.FeeProofs.
Import ListNotations.
Local Open Scope N_scope.

(* CombinedMinGasPrices: the combined floor of every denom is the larger of the node's and the
   chain's price; a denom present in only one vector keeps that price. *)
Theorem C20_combined_is_max : forall node chain d, ssorted node -> ssorted chain ->
  amount_of (combined node chain) d = N.max (amount_of node d) (amount_of chain d).
Proof. exact combined_is_max. Qed.

(* Exact admission rule in check mode (check and re-check): admitted iff every combined floor is
   zero, or some fee coin (d, f) has a non-zero required amount Ceil(max(node_d, chain_d) * gas)
   and f is at least that amount. *)
Theorem C20_fee_iff : forall gas node chain fee, ssorted node -> ssorted chain ->
  (check_fee true gas node chain fee = true <->
   (forall d, floor_of node chain d = 0) \/
   exists d f, In (d, f) fee /\ required (floor_of node chain d) gas <> 0 /\
               required (floor_of node chain d) gas <= f).
Proof. exact check_fee_iff. Qed.

(* The same without any rounding function: f * 10^18 >= max(node_d, chain_d) * gas > 0. *)
Theorem C20_fee_iff_arith : forall gas node chain fee, ssorted node -> ssorted chain ->
  (check_fee true gas node chain fee = true <->
   (forall d, N.max (amount_of node d) (amount_of chain d) = 0) \/
   exists d f, In (d, f) fee /\
               0 < N.max (amount_of node d) (amount_of chain d) * gas /\
               N.max (amount_of node d) (amount_of chain d) * gas <= f * prec).
Proof. exact check_fee_arith. Qed.

(* [required p g] is the product p * g / 10^18 rounded up: the least r with r * 10^18 >= p * g. *)
Theorem C20_required_is_ceil : forall p g,
  p * g <= required p g * prec /\ (required p g <> 0 -> (required p g - 1) * prec < p * g).
Proof. exact required_is_ceil. Qed.

(* The "only if" of the property: admission under a non-zero floor implies that for at least
   one denom with a positive floor the fee is at least gas times the larger price, rounded up. *)
Theorem C20_fee_only_if : forall gas node chain fee, ssorted node -> ssorted chain -> ssorted fee ->
  check_fee true gas node chain fee = true ->
  (exists d, floor_of node chain d <> 0) ->
  exists d, 0 < floor_of node chain d /\
            required (floor_of node chain d) gas <= amount_of fee d /\
            floor_of node chain d * gas <= amount_of fee d * prec.
Proof. exact check_fee_only_if. Qed.

(* Nothing is enforced outside transaction checking. *)
Theorem C20_fee_outside_check : forall gas node chain fee, check_fee false gas node chain fee = true.
Proof. exact check_fee_outside_check. Qed.

(* Gas limit zero under a positive floor is always rejected (required fee 0 never counts). *)
Theorem C20_fee_gas_zero_rejected : forall node chain fee d, ssorted node -> ssorted chain ->
  floor_of node chain d <> 0 -> check_fee true 0 node chain fee = false.
Proof. exact check_fee_gas_zero. Qed.

Print Assumptions C20_combined_is_max.
Print Assumptions C20_fee_iff.
Print Assumptions C20_fee_iff_arith.
Print Assumptions C20_required_is_ceil.
Print Assumptions C20_fee_only_if.
Print Assumptions C20_fee_outside_check.
Print Assumptions C20_fee_gas_zero_rejected.
