(* C20 - L2 mempool admission: fee floor, lane matching, redundant-relay filtering.
   Statements only; proofs are in Proofs/.  Model: Model/Fee.v (prices are raw sdk.LegacyDec
   values, i.e. integers in units of 10^-18; [prec] = 10^18; denoms are ids in denom order;
   [ssorted] = sorted by denom without duplicates, which DecCoins.Validate / Coins.Validate
   guarantee for the chain parameter, the node configuration and the transaction fee) and
   Model/Lanes.v (a transaction is the list of shapes of its top-level messages; [redundant_ante]
   is the decorator with next expected L1 sequence [n]; [deposits msgs] are the top-level
   deposit messages as (valid, sequence) pairs in order). *)
From Coq Require Import List NArith Bool.
Require Import Model.Bytes Model.Fee Model.Lanes.
Require Import Proofs.FeeProofs Proofs.LanesProofs.
Import ListNotations.
Local Open Scope N_scope.

(* CombinedMinGasPrices: the combined floor of every denom is the larger of the node's and the
   chain's price; a denom present in only one vector keeps that price. *)
Theorem C20_combined_is_max : forall node chain d, ssorted node -> ssorted chain ->
  amount_of (combined node chain) d = N.max (amount_of node d) (amount_of chain d).
Proof. exact combined_is_max. Qed.

(* Exact admission rule in check mode (check and re-check): admitted iff every combined floor is
   zero, or some fee coin (d, f) has a non-zero required amount Ceil(max(node_d, chain_d) * gas)
   and f is at least that amount. *)
Theorem C20_fee_iff : forall gas node chain fee, ssorted node -> ssorted chain ->
  (check_fee true gas node chain fee = true <->
   (forall d, floor_of node chain d = 0) \/
   exists d f, In (d, f) fee /\ required (floor_of node chain d) gas <> 0 /\
               required (floor_of node chain d) gas <= f).
Proof. exact check_fee_iff. Qed.

(* The same without any rounding function: f * 10^18 >= max(node_d, chain_d) * gas > 0. *)
Theorem C20_fee_iff_arith : forall gas node chain fee, ssorted node -> ssorted chain ->
  (check_fee true gas node chain fee = true <->
   (forall d, N.max (amount_of node d) (amount_of chain d) = 0) \/
   exists d f, In (d, f) fee /\
               0 < N.max (amount_of node d) (amount_of chain d) * gas /\
               N.max (amount_of node d) (amount_of chain d) * gas <= f * prec).
Proof. exact check_fee_arith. Qed.

(* [required p g] is the product p * g / 10^18 rounded up: the least r with r * 10^18 >= p * g. *)
Theorem C20_required_is_ceil : forall p g,
  p * g <= required p g * prec /\ (required p g <> 0 -> (required p g - 1) * prec < p * g).
Proof. exact required_is_ceil. Qed.

(* The "only if" of the property: admission under a non-zero floor implies that for at least
   one denom with a positive floor the fee is at least gas times the larger price, rounded up. *)
Theorem C20_fee_only_if : forall gas node chain fee, ssorted node -> ssorted chain -> ssorted fee ->
  check_fee true gas node chain fee = true ->
  (exists d, floor_of node chain d <> 0) ->
  exists d, 0 < floor_of node chain d /\
            required (floor_of node chain d) gas <= amount_of fee d /\
            floor_of node chain d * gas <= amount_of fee d * prec.
Proof. exact check_fee_only_if. Qed.

(* Nothing is enforced outside transaction checking. *)
Theorem C20_fee_outside_check : forall gas node chain fee, check_fee false gas node chain fee = true.
Proof. exact check_fee_outside_check. Qed.

(* Gas limit zero under a positive floor is always rejected (required fee 0 never counts). *)
Theorem C20_fee_gas_zero_rejected : forall node chain fee d, ssorted node -> ssorted chain ->
  floor_of node chain d <> 0 -> check_fee true 0 node chain fee = false.
Proof. exact check_fee_gas_zero. Qed.

(* ----- system lane ----- *)

(* Matched iff the transaction is exactly one oracle update, or exactly one authz execution
   whose only inner message is directly an oracle update. *)
Theorem C20_system_lane : forall msgs,
  system_match msgs = true <-> msgs = [UpdateOracle] \/ msgs = [Exec [UpdateOracle]].
Proof. exact system_match_iff. Qed.

(* In particular: never a transaction with two (or zero) messages, never two levels of
   wrapping, never an execution whose inner messages cannot be decoded. *)
Theorem C20_system_lane_one_message : forall msgs, system_match msgs = true -> length msgs = 1%nat.
Proof. exact system_match_length. Qed.
Theorem C20_system_lane_not_two_levels : forall inner, system_match [Exec [Exec inner]] = false.
Proof. exact system_match_two_levels. Qed.

(* ----- free lane ----- *)

(* With a whitelist of non-empty strings (Params.Validate refuses others): matched iff the fee
   payer is on the whitelist, or a fee granter is named and is on the whitelist. *)
Theorem C20_free_lane : forall wl payer granter, ~ In [] wl ->
  (free_match (Some wl) payer granter = true <->
   In payer wl \/ exists g, granter = Some g /\ In g wl).
Proof. exact free_match_iff. Qed.

(* Without that hypothesis: an absent granter is compared as the empty string. *)
Theorem C20_free_lane_exact : forall wl payer granter,
  free_match (Some wl) payer granter = true <-> In payer wl \/ In (granter_string granter) wl.
Proof. exact free_match_exact. Qed.

(* If the keeper cannot return the whitelist nothing is fee-exempt. *)
Theorem C20_free_lane_no_whitelist : forall payer granter, free_match None payer granter = false.
Proof. exact free_match_no_whitelist. Qed.

(* ----- redundant-relay filter ----- *)

(* The filter is active exactly in check / re-check mode when not simulating ... *)
Theorem C20_redundant_active : forall m sim,
  filter_active m sim = true <-> (m = MCheck \/ m = MReCheck) /\ sim = false.
Proof. exact active_iff. Qed.

(* ... and in deliver or simulate mode it never rejects, whatever the messages. *)
Theorem C20_redundant_inactive : forall m sim n msgs,
  m = MDeliver \/ sim = true -> redundant_ante m sim n msgs = Pass.
Proof. exact deliver_or_simulate_pass. Qed.

(* When active: rejected as redundant iff there is at least one top-level deposit message and
   every one of them is valid and already processed (sequence below the next expected one).
   Other message types mixed into the transaction do not matter. *)
Theorem C20_redundant : forall m sim n msgs, filter_active m sim = true ->
  (redundant_ante m sim n msgs = RejectRedundant <->
   deposits msgs <> [] /\ all_stale n (deposits msgs)).
Proof. exact redundant_reject_iff. Qed.

(* When active: passes iff every deposit message is valid and stale-or-next when its turn comes,
   and either there is no deposit message at all or at least one of them is fresh. *)
Theorem C20_redundant_pass : forall m sim n msgs, filter_active m sim = true ->
  (redundant_ante m sim n msgs = Pass <->
   in_order n (deposits msgs) /\ (deposits msgs = [] \/ has_fresh n (deposits msgs))).
Proof. exact redundant_pass_iff. Qed.

(* When active: the handler's error is returned iff some deposit message is invalid or ahead of
   the next expected sequence when its turn comes. *)
Theorem C20_redundant_error : forall m sim n msgs, filter_active m sim = true ->
  (redundant_ante m sim n msgs = RejectError <-> ~ in_order n (deposits msgs)).
Proof. exact redundant_error_iff. Qed.

(* The plain reading: all deposit messages valid, none beyond the next expected sequence [n],
   and [n] itself among them - then the transaction passes. *)
Theorem C20_redundant_fresh_passes : forall m sim n msgs, filter_active m sim = true ->
  (forall v s, In (v, s) (deposits msgs) -> v = true /\ s <= n) ->
  (exists v, In (v, n) (deposits msgs)) ->
  redundant_ante m sim n msgs = Pass.
Proof. exact redundant_fresh_passes. Qed.

Print Assumptions C20_combined_is_max.
Print Assumptions C20_fee_iff.
Print Assumptions C20_fee_iff_arith.
Print Assumptions C20_required_is_ceil.
Print Assumptions C20_fee_only_if.
Print Assumptions C20_fee_outside_check.
Print Assumptions C20_fee_gas_zero_rejected.
Print Assumptions C20_system_lane.
Print Assumptions C20_system_lane_one_message.
Print Assumptions C20_system_lane_not_two_levels.
Print Assumptions C20_free_lane.
Print Assumptions C20_free_lane_exact.
Print Assumptions C20_free_lane_no_whitelist.
Print Assumptions C20_redundant_active.
Print Assumptions C20_redundant_inactive.
Print Assumptions C20_redundant.
Print Assumptions C20_redundant_pass.
Print Assumptions C20_redundant_error.
Print Assumptions C20_redundant_fresh_passes.
