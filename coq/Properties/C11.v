(* C11 - the output oracle of every bridge is a contiguous, strictly increasing log; deletion
   removes exactly a not-yet-final suffix.  Statements only; proofs are in Proofs/.
   [run c s h] executes any finite history of L1 messages of ALL kinds (create, propose,
   delete, deposit, finalize, role / config updates, params, bank sends, IBC environment);
   [mono_from t h] says the block times of h never decrease (and start at or after t);
   [log_ok s b] is the invariant: stored indices of bridge b are exactly 1..next-1, L2 block
   numbers strictly increase and recorded L1 times never decrease with the index. *)
From stdpp Require Import gmap numbers list.
From Coq Require Import ZArith.
Require Import Model.Bytes Model.Bank Model.Hashes Model.L1 Model.L1OutSpec.
Require Import Proofs.L1OutLemmas Proofs.C11Proofs.

(* From the empty chain, after ANY history with non-decreasing block times, the log of EVERY
   bridge id (created or not) satisfies the invariant. *)
Theorem C11_invariant : ∀ (c : cfg) (h : list (env * msg)) (t0 : Z) (b : N),
  mono_from t0 h → log_ok (run c init_state h).1 b.
Proof. exact c11_invariant. Qed.

(* The same from any state that satisfies the invariant (all bridges, configs below the bridge
   counter with positive period, no stored time later than t): it is inductive. *)
Theorem C11_invariant_from : ∀ c s t h,
  l1inv s t → mono_from t h → l1inv (run c s h).1 (last_time t h).
Proof. exact c11_invariant_from. Qed.

(* A proposal is accepted iff the signer is a valid address and the CURRENT proposer of an
   existing bridge, the root has 32 bytes, the index is exactly the next index, and (the index
   is 1 or the L2 block number exceeds that of the previous output); the state afterwards is
   exactly the old one plus the new output, which records the block height and time of the
   environment, and the counter of that bridge incremented. *)
Theorem C11_propose_spec : ∀ c e s p b idx l2 root s' r,
  step c e s (MPropose p b idx l2 root) = (s', Ok r) ↔
  propose_guard c s p b idx l2 root ∧ r = RNone ∧ s' = propose_post e s b idx l2 root.
Proof. exact c11_propose_spec. Qed.

(* ... spelled out pointwise: the new entry, every other entry of every bridge unchanged, the
   counter of b is idx+1, other counters and every other component of the state unchanged. *)
Theorem C11_propose_effect : ∀ e s b idx l2 root,
  let s' := propose_post e s b idx l2 root in
  outputs s' !! (b, idx) = Some {| o_root := root; o_l1h := height e; o_time := now e; o_l2 := l2 |} ∧
  (∀ k, k ≠ (b, idx) → outputs s' !! k = outputs s !! k) ∧
  out_of s' b = (idx + 1)%N ∧ (∀ b', b' ≠ b → out_of s' b' = out_of s b') ∧ same_rest s s'.
Proof. exact c11_propose_effect. Qed.

(* A deletion is accepted iff the signer is a valid address and is the authority, the current
   proposer or the current challenger of an existing bridge, 1 <= idx < next, and every index
   of [idx, next) is stored and NOT final at the current block time. *)
Theorem C11_delete_spec : ∀ c e s ch b idx s' r,
  step c e s (MDelete ch b idx) = (s', Ok r) ↔
  delete_guard c e s ch b idx ∧ r = RNone ∧ s' = delete_post s b idx.
Proof. exact c11_delete_spec. Qed.

(* In a state satisfying the invariant: accepted iff authorised, 1 <= idx < next and no stored
   output of the bridge at an index >= idx is final. *)
Theorem C11_delete_spec_reachable : ∀ c e s ch b idx s' r,
  log_ok s b →
  step c e s (MDelete ch b idx) = (s', Ok r) ↔
  (valid_addr c ch = true ∧ b ≠ 0%N ∧
   ∃ x, configs s !! b = Some x ∧ may_delete c x ch ∧ (1 ≤ idx ∧ idx < out_of s b)%N ∧
        ∀ i o, (idx ≤ i)%N → outputs s !! (b, i) = Some o → is_final x e o = false) ∧
  r = RNone ∧ s' = delete_post s b idx.
Proof. exact c11_delete_spec_inv. Qed.

(* The state after a deletion: exactly the indices [idx, next) of bridge b are gone, everything
   else stored for b and for every other bridge is untouched, next := idx, other counters and
   every other component of the state unchanged. *)
Theorem C11_delete_effect : ∀ s b idx,
  let s' := delete_post s b idx in
  (∀ b' i, outputs s' !! (b', i) =
           if decide (b' = b ∧ (idx ≤ i ∧ i < out_of s b)%N) then None else outputs s !! (b', i)) ∧
  out_of s' b = idx ∧ (∀ b', b' ≠ b → out_of s' b' = out_of s b') ∧ same_rest s s'.
Proof. exact c11_delete_effect. Qed.

(* Final outputs form a prefix: if index j is final then so is every index 1..j. *)
Theorem C11_final_prefix : ∀ s e b x i j oj,
  log_ok s b → configs s !! b = Some x → outputs s !! (b, j) = Some oj → is_final x e oj = true →
  (1 ≤ i ∧ i ≤ j)%N → ∃ oi, outputs s !! (b, i) = Some oi ∧ is_final x e oi = true.
Proof. exact c11_final_prefix. Qed.

(* ... in particular in every reachable state, at any observation time. *)
Theorem C11_final_prefix_reachable : ∀ c h t0 e b i j,
  mono_from t0 h → final_at (run c init_state h).1 e b j → (1 ≤ i ∧ i ≤ j)%N →
  final_at (run c init_state h).1 e b i.
Proof. exact c11_final_prefix_reachable. Qed.

(* A rejected message changes nothing. *)
Theorem C11_error_no_change : ∀ c e s m s', step c e s m = (s', Err) → s' = s.
Proof. exact step_err_unchanged. Qed.

(* Non-vacuity: a concrete two-bridge history with accepted and rejected proposals (equal L2
   block, index gap), a suffix deletion, a re-proposal and a refused deletion of a final output. *)
Theorem C11_example_results :
  mono_from 0 ex_hist ∧
  (run ex_cfg init_state ex_hist).2 =
  [Ok (RId 1); Ok (RId 2); Ok RNone; Err; Ok RNone; Err; Ok RNone; Ok RNone; Ok RNone; Ok RNone; Err].
Proof. exact (conj ex_hist_mono ex_hist_results). Qed.

Print Assumptions C11_invariant.
Print Assumptions C11_invariant_from.
Print Assumptions C11_propose_spec.
Print Assumptions C11_propose_effect.
Print Assumptions C11_delete_spec.
Print Assumptions C11_delete_spec_reachable.
Print Assumptions C11_delete_effect.
Print Assumptions C11_final_prefix.
Print Assumptions C11_final_prefix_reachable.
Print Assumptions C11_error_no_change.
Print Assumptions C11_example_results.
