(* C10 - L1 deposits: gap-free per-bridge sequences, real bridges only, faithful events,
   immutable token pairs.  Statements only; proofs are in Proofs/C10Proofs.v (over the inversion
   lemmas of Proofs/L1DepLemmas.v).  [run c s h] executes ANY finite history of L1 messages of all
   fifteen kinds (creations, proposals, deletions, deposits, finalizations, role and parameter
   updates, bank sends, environment changes) by arbitrary signers; [elog] is the log of emitted
   initiate_token_deposit events, newest first; [genesis bank0] is the initial state with
   arbitrary balances.  The hash function is the field [hash c] of the configuration, so every
   statement holds for every hash function. *)
From stdpp Require Import gmap numbers list.
From Coq Require Import ZArith.
Require Import Model.Bytes Model.Bank Model.Hashes Model.L1.
Require Import Proofs.L1DepLemmas Proofs.C10Proofs.
Require Proofs.MerkleProofs.

(* From any genesis, after ANY history, the events of bridge b - oldest first - carry exactly
   the sequences 1, 2, ..., n in that order, and the bridge's next sequence is n + 1. *)
Theorem C10_sequences : ∀ (c : cfg) (bank0 : bank) (h : list (env * msg)) (b : N),
  let s := (run c (genesis bank0) h).1 in
  ∃ n : nat, map e_seq (events_of b (rev (elog s))) = upto n 1 ∧ seq_of s b = (1 + N.of_nat n)%N.
Proof. exact c10_sequences. Qed.

(* The same from an arbitrary start state: the events appended by a history carry, per bridge,
   the consecutive sequences starting at that bridge's counter, which advances by their number. *)
Theorem C10_sequences_from : ∀ (c : cfg) (h : list (env * msg)) (s : l1state) (b : N),
  let s' := (run c s h).1 in
  ∃ evs, elog s' = rev evs ++ elog s ∧
         map e_seq (events_of b evs) = upto (length (events_of b evs)) (seq_of s b) ∧
         seq_of s' b = (seq_of s b + N.of_nat (length (events_of b evs)))%N.
Proof. exact c10_sequences_from. Qed.

(* Exactly one event per accepted deposit, built from the request, and no event for any other
   message or for a rejected deposit ([new_events] is [[dep_event ..]] resp. [[]]). *)
Theorem C10_events_exactly : ∀ c e s m s' r,
  step c e s m = (s', r) →
  elog s' = match m, r with
            | MDeposit sender b to d amt data, Ok _ =>
                [{| e_bridge := b; e_seq := seq_of s b; e_from := sender; e_to := to; e_l1denom := d;
                    e_l2denom := l2_denom (hash c) b d; e_amt := amt; e_data := data |}]
            | _, _ => []
            end ++ elog s.
Proof. exact c10_events_exactly. Qed.

(* An accepted deposit returns the bridge's current counter, announces the same number in an
   event whose eight fields are the request's (and the derived L2 denom), advances that bridge's
   counter by one and no other bridge's, targets an existing bridge, and moves exactly the
   announced amount of the announced denom from the sender to that bridge's escrow account -
   every other balance is unchanged. *)
Theorem C10_deposit_ok : ∀ c e s sender b to d amt data s' r,
  step c e s (MDeposit sender b to d amt data) = (s', Ok r) →
  r = RId (seq_of s b) ∧
  elog s' = {| e_bridge := b; e_seq := seq_of s b; e_from := sender; e_to := to; e_l1denom := d;
               e_l2denom := l2_denom (hash c) b d; e_amt := amt; e_data := data |} :: elog s ∧
  seq_of s' b = (seq_of s b + 1)%N ∧ (∀ b', b' ≠ b → seq_of s' b' = seq_of s b') ∧
  is_Some (configs s !! b) ∧ (0 ≤ amt)%Z ∧
  ∃ sd, resolve c sender = Some sd ∧
        ∀ a d', getb (bk s') a d' =
                (getb (bk s) a d' + at_acct a d' (escrow c b) d amt - at_acct a d' sd d amt)%Z.
Proof. exact c10_deposit_ok. Qed.

(* A deposit to an id without a stored bridge configuration is rejected; nothing changes. *)
Theorem C10_real_bridges_only : ∀ c e s sender b to d amt data,
  configs s !! b = None → step c e s (MDeposit sender b to d amt data) = (s, Err).
Proof. exact c10_real_bridges_only. Qed.

(* In every state reachable from a genesis nothing at all is recorded under ids that have not
   been assigned yet: no config, no deposit counter, no output counter, no outputs, no claims,
   no token pairs, no batch records, no events, no payouts. *)
Theorem C10_new_bridge_clean : ∀ c bank0 h b,
  let s := (run c (genesis bank0) h).1 in
  (next_bridge s ≤ b)%N →
  configs s !! b = None ∧ next_seq s !! b = None ∧ next_out s !! b = None ∧
  (∀ i, outputs s !! (b, i) = None) ∧ (∀ x, (b, x) ∉ proven s) ∧ (∀ d, pairs s !! (b, d) = None) ∧
  (∀ i, batches s !! (b, i) = None) ∧ (∀ ev, ev ∈ elog s → e_bridge ev ≠ b) ∧
  (∀ y, y ∈ plog s → y_bridge y ≠ b).
Proof. exact c10_new_bridge_clean. Qed.

(* Hence a bridge created in a reachable state gets the next id and starts at deposit sequence
   1 and output index 1 with no outputs, claims, token pairs or events under its id. *)
Theorem C10_created_starts_at_one : ∀ c bank0 h e creator x s' id,
  step c e (run c (genesis bank0) h).1 (MCreateBridge creator x) = (s', Ok (RId id)) →
  id = next_bridge (run c (genesis bank0) h).1 ∧ configs s' !! id = Some x ∧
  seq_of s' id = 1%N ∧ out_of s' id = 1%N ∧
  (∀ i, outputs s' !! (id, i) = None) ∧ (∀ y, (id, y) ∉ proven s') ∧ (∀ d, pairs s' !! (id, d) = None) ∧
  (∀ ev, ev ∈ elog s' → e_bridge ev ≠ id).
Proof. intros c bank0 h. intros. eapply c10_created_fresh; [apply c10_new_bridge_clean|eassumption]. Qed.

(* After an accepted deposit of d into b the slot (b, derived L2 denom) holds d if it was free and
   keeps its earlier value otherwise; no other slot changes. *)
Theorem C10_token_pair_step : ∀ c e s sender b to d amt data s' r,
  step c e s (MDeposit sender b to d amt data) = (s', Ok r) →
  pairs s' !! (b, l2_denom (hash c) b d) = Some (default d (pairs s !! (b, l2_denom (hash c) b d))) ∧
  ∀ k, k ≠ (b, l2_denom (hash c) b d) → pairs s' !! k = pairs s !! k.
Proof. exact c10_token_pair_step. Qed.

(* In every reachable state: after an accepted deposit of d into b the derived L2 denom maps to
   d - unless two different L1 denoms have the same derivation, in which case a collision of
   the hash function is exhibited. *)
Theorem C10_token_pair : ∀ c bank0 h e sender b to d amt data s' r,
  step c e (run c (genesis bank0) h).1 (MDeposit sender b to d amt data) = (s', Ok r) →
  pairs s' !! (b, l2_denom (hash c) b d) = Some d ∨ MerkleProofs.Collision (hash c).
Proof. exact c10_token_pair_reachable. Qed.

(* A recorded pair never changes, whatever later messages name (from any state, any history). *)
Theorem C10_pairs_immutable : ∀ c h s k d,
  pairs s !! k = Some d → pairs (run c s h).1 !! k = Some d.
Proof. exact c10_pairs_immutable. Qed.

(* Every recorded pair is the documented derivation 'l2/' + hex(H(be64 bridge || l1 denom)). *)
Theorem C10_pairs_are_derivations : ∀ c bank0 h b l2 d,
  pairs (run c (genesis bank0) h).1 !! (b, l2) = Some d → l2 = l2_denom (hash c) b d.
Proof. intros c bank0 h. exact (run_pairs_derived c h _ (pairs_derived_genesis c bank0)). Qed.

(* A rejected message leaves the whole state unchanged. *)
Theorem C10_error_no_change : ∀ c e s m s', step c e s m = (s', Err) → s' = s.
Proof. exact c10_error_no_change. Qed.

(* Non-vacuity: a concrete history on the real SHA3-256 with rejected deposits to ids 1 and 2
   before their creation, a zero-amount deposit and an unfunded one. *)
Theorem C10_example :
  (run ex_cfg (genesis ex_bank) ex_hist).2 =
  [Err; Ok (RId 1); Ok (RId 1); Err; Ok (RId 2); Ok (RId 1); Ok (RId 2); Err].
Proof. exact c10_example_results. Qed.

Print Assumptions C10_sequences.
Print Assumptions C10_sequences_from.
Print Assumptions C10_events_exactly.
Print Assumptions C10_deposit_ok.
Print Assumptions C10_real_bridges_only.
Print Assumptions C10_new_bridge_clean.
Print Assumptions C10_created_starts_at_one.
Print Assumptions C10_token_pair_step.
Print Assumptions C10_token_pair.
Print Assumptions C10_pairs_immutable.
Print Assumptions C10_pairs_are_derivations.
Print Assumptions C10_error_no_change.
Print Assumptions C10_example.
