(* C02 - a withdrawal is paid out at most once; the Claimed query is exact.
   Statements only; proofs are in Proofs/C02Proofs.v.  [run c s h] executes ANY finite history
   of L1 messages of all kinds from ANY start state: proposals, deletions, re-proposals, role
   changes and finalization attempts by arbitrary submitters against arbitrary output indices with
   arbitrary proofs, interleaved in any order.  [proven] is the claim set read by Query/Claimed,
   [plog] the ghost log of payouts (newest first).  No hypothesis about the hash function is
   needed: the recorded leaf is a function of the claim tuple. *)
From stdpp Require Import gmap numbers list.
From Coq Require Import ZArith String.
Require Import Model.Bytes Model.Bank Model.Hashes Model.L1.
Require Import Proofs.L1DepLemmas Proofs.C02Proofs.

(* No message ever removes a claim record. *)
Theorem C02_proven_monotone : ∀ c h s x, x ∈ proven s → x ∈ proven (run c s h).1.
Proof. exact run_proven_mono. Qed.

(* In every history from every start state, for every claim tuple k = (bridge, sequence, from, to,
   denom, amount): at most one finalization message carrying k has result Ok. *)
Theorem C02_at_most_once : ∀ (c : cfg) (k : claim) (h : list (env * msg)) (s : l1state),
  count_paid k h (run c s h).2 ≤ 1.
Proof. exact c02_at_most_once. Qed.

(* Once the leaf of a tuple is recorded every submission of the tuple is rejected without any
   state change - whoever submits, against whichever output index, with whichever proof. *)
Theorem C02_recorded_rejected : ∀ c e s sender b idx sq proofs from to d amt v sr bh,
  (b, fin_leaf c b sq from to d amt) ∈ proven s →
  step c e s (MFinalize sender b idx sq proofs from to d amt v sr bh) = (s, Err).
Proof. exact c02_recorded_rejected. Qed.

(* Claimed(b, x) after a history iff it was pre-recorded or some accepted finalization of the
   history has bridge b and leaf hash x. *)
Theorem C02_claimed_exact : ∀ c h s x,
  x ∈ proven (run c s h).1 ↔ x ∈ proven s ∨ x ∈ paid_keys c h (run c s h).2.
Proof. exact c02_claimed_exact. Qed.

(* From any state with no claims and no payouts (every genesis): Claimed is true exactly for
   the (bridge, leaf) keys of the payouts made, and no key was paid twice. *)
Theorem C02_claimed_iff_paid : ∀ c h s,
  proven s = ∅ → plog s = [] →
  (∀ x, x ∈ proven (run c s h).1 ↔ x ∈ map payout_key (plog (run c s h).1)) ∧
  NoDup (map payout_key (plog (run c s h).1)).
Proof. exact c02_claimed_iff_paid. Qed.

(* An accepted finalization found its leaf unclaimed, records it, logs exactly one payout and
   moves exactly the claimed amount of the claimed denom from the escrow of the named bridge to
   the named recipient; every other balance is unchanged. *)
Theorem C02_finalize_ok : ∀ c e s sender b idx sq proofs from to d amt v sr bh s' r,
  step c e s (MFinalize sender b idx sq proofs from to d amt v sr bh) = (s', Ok r) →
  (b, fin_leaf c b sq from to d amt) ∉ proven s ∧
  proven s' = {[ (b, fin_leaf c b sq from to d amt) ]} ∪ proven s ∧
  (0 < amt)%Z ∧
  ∃ rcv, resolve c to = Some rcv ∧
    plog s' = {| y_bridge := b; y_leaf := fin_leaf c b sq from to d amt; y_to := rcv; y_denom := d;
                 y_amt := amt |} :: plog s ∧
    (amt ≤ getb (bk s) (escrow c b) d)%Z ∧
    ∀ a d', getb (bk s') a d' =
            (getb (bk s) a d' + at_acct a d' rcv d amt - at_acct a d' (escrow c b) d amt)%Z.
Proof. exact c02_finalize_ok. Qed.

(* A rejected message - in particular a refused resubmission - changes nothing. *)
Theorem C02_error_no_change : ∀ c e s m s', step c e s m = (s', Err) → s' = s.
Proof. exact step_err_unchanged. Qed.

(* Non-vacuity (real SHA3-256): a claim rejected before finality, paid once, then refused for
   the same submitter and - against a later output containing the same leaf - for another one. *)
Theorem C02_example :
  (run ex_cfg (upd_bk init_state ex_bank) ex_hist).2 =
  [Ok (RId 1); Ok (RId 1); Ok RNone; Err; Ok RNone; Err; Ok RNone; Err] ∧
  getb (bk (run ex_cfg (upd_bk init_state ex_bank) ex_hist).1) 4 (bs "uinit"%string) = 30%Z ∧
  getb (bk (run ex_cfg (upd_bk init_state ex_bank) ex_hist).1) 1001 (bs "uinit"%string) = 70%Z.
Proof. exact c02_example_results. Qed.

Print Assumptions C02_proven_monotone.
Print Assumptions C02_at_most_once.
Print Assumptions C02_recorded_rejected.
Print Assumptions C02_claimed_exact.
Print Assumptions C02_claimed_iff_paid.
Print Assumptions C02_finalize_ok.
Print Assumptions C02_error_no_change.
Print Assumptions C02_example.
