(* C04 - every withdrawal L2 records can be claimed on L1.
   Statements only; proofs are in Proofs/C04Proofs.v and Proofs/MerkleProofs.v.
   [L1] is the ophost machine, [L2] the opchild machine (both define cfg/step/msg: qualified).
   [L2.wlog] is the log of emitted initiate_token_withdrawal events (user withdrawals and the
   refunds of failed deposits), [Merkle.build]/[prove] the published tree rule. *)
From stdpp Require Import gmap numbers list.
From Coq Require Import ZArith.
Require Import Model.Bytes Model.Bank Model.Hashes Model.Merkle.
Require Model.L1 Model.L2.
Require Import Proofs.MerkleProofs Proofs.C04Proofs.

(* For every hash function, every non-empty leaf list of every size and every position i, the
   proof computed by [prove] verifies against the root computed by [build]. *)
Theorem C04_merkle_complete : ∀ (H : bytes → bytes) (ls : list bytes) (i : nat),
  (i < length ls)%nat → verify H (build H ls) (nth i ls []) (prove H ls i) = true.
Proof. exact merkle_complete. Qed.

(* Both entry points bound the bridged amount to a uint64 (the width the withdrawal hash
   commits to): an accepted L1 deposit names a non-empty recipient, a valid denom and an amount
   in [0, 2^64); an accepted L2 user withdrawal has an amount in (0, 2^64). *)
Theorem C04_entry_points_bounded :
  (∀ c e s sender b to d amt data s' r,
     L1.step c e s (L1.MDeposit sender b to d amt data) = (s', L1.Ok r) →
     to ≠ [] ∧ valid_denom d = true ∧ (0 ≤ amt < 18446744073709551616)%Z) ∧
  (∀ c s sender to d amt s' r,
     L2.step c s (L2.MWithdraw sender to d amt) = (s', L2.Ok r) →
     (0 < amt < 18446744073709551616)%Z).
Proof. exact (conj c04_l1_deposit_bounded c04_l2_withdraw_bounded). Qed.

(* What L2's own validation guarantees about EVERY recorded withdrawal (user withdrawals and
   refunds, also those produced inside ExecuteMessages), after any history from a state with
   an empty log, next sequence >= 1 and valid base denoms in the denom map, provided the
   relayed deposits are faithful in the two fields L2 does not validate itself (recipient
   string non-empty, amount < 2^64 - both guaranteed by the L1 entry point, above) and the
   address codec rejects the empty string:
   non-empty from and to; valid L2 denom whose registered base denom is the recorded one and is
   a valid denom; 0 <= amount < 2^64 (positive for user withdrawals, whose sender is a valid
   address); 1 <= sequence < next sequence. *)
Theorem C04_recorded_fields : ∀ (c : L2.cfg) (s0 : L2.l2state) (h : list L2.msg),
  L2.resolve c [] = None → Forall faithful h →
  L2.wlog s0 = [] → (1 ≤ L2.next_l2 s0)%N → pairs_valid s0 →
  Forall (wrec_fields c (L2.run c s0 h).1) (L2.wlog (L2.run c s0 h).1).
Proof. exact c04_recorded_fields. Qed.

(* Claimability.  Let [w] be a withdrawal with the fields C04_recorded_fields guarantees,
   positive amount and a recipient string that is an L1 address.  In EVERY L1 state in which
   some index (b,i) of an existing bridge b >= 1 stores the output root of version byte v,
   storage root [build ls] and 32-byte block hash bh, for a list ls of 32-byte leaves that
   contains the leaf of [w] (bridge b, recorded sequence/from/to, BASE denom, amount) at
   position k; that output is final at the block time; the leaf is unclaimed; the escrow of b
   holds at least the amount of the base denom; the submitter is an L1 address; and the hash
   function has 32-byte outputs: the claim with the proof [prove ls k] is accepted, moves
   exactly the amount of the base denom from the escrow to the recipient and nothing else,
   logs that payout and marks exactly that leaf claimed. *)
Theorem C04_claimable : ∀ (c : L1.cfg) (e : L1.env) (s : L1.l1state) (c2 : L2.cfg) (s2 : L2.l2state)
    (w : L2.wrec) (sender : bytes) (b i : N) (x : L1.config) (o : L1.output) (rcv : N)
    (ls : list bytes) (k : nat) (v : N) (bh : bytes),
  (∀ y, length (L1.hash c y) = 32%nat) →
  wrec_fields c2 s2 w →
  (0 < L2.w_amt w)%Z →
  L1.resolve c (L2.w_to w) = Some rcv →
  is_Some (L1.resolve c sender) →
  (1 ≤ b)%N → (1 ≤ i)%N →
  L1.configs s !! b = Some x →
  L1.outputs s !! (b, i) = Some o →
  L1.o_root o = output_root (L1.hash c) v (build (L1.hash c) ls) bh →
  L1.is_final x e o = true →
  Forall (λ y, length y = 32%nat) ls →
  (k < length ls)%nat → nth k ls [] = claim_leaf c b w →
  (b, claim_leaf c b w) ∉ L1.proven s →
  (L2.w_amt w ≤ getb (L1.bk s) (L1.escrow c b) (L2.w_base w))%Z →
  length bh = 32%nat →
  ∃ s', L1.step c e s (claim_msg c sender b i w ls k v bh) = (s', L1.Ok L1.RNone) ∧
        bank_send (L1.bk s) (L1.escrow c b) rcv (L2.w_base w) (L2.w_amt w) = Some (L1.bk s') ∧
        (∀ a d, getb (L1.bk s') a d =
           ((if decide ((a, d) = (L1.escrow c b, L2.w_base w)) then getb (L1.bk s) a d - L2.w_amt w
             else getb (L1.bk s) a d) +
            (if decide ((a, d) = (rcv, L2.w_base w)) then L2.w_amt w else 0))%Z) ∧
        L1.plog s' = {| L1.y_bridge := b; L1.y_leaf := claim_leaf c b w; L1.y_to := rcv;
                        L1.y_denom := L2.w_base w; L1.y_amt := L2.w_amt w |} :: L1.plog s ∧
        L1.proven s' = {[ (b, claim_leaf c b w) ]} ∪ L1.proven s.
Proof. exact c04_claimable. Qed.

Print Assumptions C04_merkle_complete.
Print Assumptions C04_entry_points_bounded.
Print Assumptions C04_recorded_fields.
Print Assumptions C04_claimable.
