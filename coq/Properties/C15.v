(* C15 - L1 oracle prices reach L2 only with a signed two-thirds quorum, never backwards.
   Statements only; proofs are in Proofs/OracleLemmas.v and Proofs/C15Proofs.v.  The model is
   Model/Oracle.v: [update_oracle] is the MsgUpdateOracle handler (msg server checks,
   L2OracleHandler.UpdateOracle, ValidateVoteExtensions with its int64 arithmetic and double
   counting, connect's vote aggregator and stake-weighted median with the 0.667 threshold,
   WritePrices), [update_host_validators] is Keeper.UpdateHostValidatorSet, [step]/[run]
   execute any history of these plus executor-list, bridge-info and currency-pair changes.
   A vote's [v_sig_ok] (the signature verifies under the key of the vote's validator for
   (L1 chain id, update height - 1, round, extension)) and [v_dec] (the decoded extension) are
   data; theorems quantify over all of them.  Powers are the bonded tokens recorded for the
   validator; [total_tokens] is the recorded set's total; [power_sum m vals] adds the recorded
   tokens of the listed validators. *)
From stdpp Require Import gmap numbers list.
From Coq Require Import ZArith.
Require Import Model.Oracle Proofs.OracleLemmas Proofs.C15Proofs Proofs.C15Median.
Local Open Scope Z_scope.

(* If an update is accepted and the stored quote of pair cp changes, then the sender is a
   current executor, the bridge info has the oracle enabled, and there is a duplicate-free list
   of validators of the recorded set - each with a commit vote in the submitted commit whose
   signature is present and valid and whose decoded extension carries a price for cp - whose
   recorded powers sum to at least two thirds of the recorded total (3 W >= 2 T, derived from
   round_half_even(W * 10^18 / T) >= 667 * 10^15). *)
Theorem C15_quorum : ∀ s blk sender height commit s' cp,
  update_oracle s blk sender height commit = Some s' →
  quotes s' !! cp ≠ quotes s !! cp →
  ∃ snd i votes vals,
    sender = Some snd ∧ snd ∈ execs s ∧ info s = Some i ∧ bi_oracle i = true ∧ commit = Some votes ∧
    NoDup vals ∧ (∀ a, a ∈ vals → signed_price_vote s votes cp a) ∧
    2 * total_tokens (hset s) <= 3 * power_sum (hset s) vals.
Proof. exact c15_quorum. Qed.

(* The quote of an existing pair changes by no operation other than an accepted oracle update
   (so C15_quorum covers every price change in every history) - or the oracle module's own
   removal of that very pair (an environment step outside opchild: RemoveCurrencyPair deletes
   the pair together with its quote). *)
Theorem C15_price_changes_only_by_update : ∀ s o cp,
  is_Some (quotes s !! cp) → quotes (step s o).1 !! cp ≠ quotes s !! cp →
  o = ORemovePair cp ∨
  ∃ blk sender height commit, o = OUpdateOracle blk sender height commit ∧
                              update_oracle s blk sender height commit = Some (step s o).1.
Proof. exact c15_price_changes_only_by. Qed.

(* Nothing from unknown validators, non-commit votes, repeated votes and bad signatures:
   (1) an accepted update has exactly the same result when every vote of a validator that is
       not in the recorded set and every non-commit vote is deleted from the commit ([counts]
       = recorded validator and commit flag).  The converse is not claimed: such a vote can
       make an update fail (e.g. an undecodable extension), never succeed or write otherwise;
   (2) an earlier vote of a validator that votes again later with a non-empty extension
       changes no aggregated price of any pair;
   (3) a commit vote of a recorded validator whose signature does not verify makes the whole
       update fail, wherever it stands in the commit. *)
Theorem C15_nothing_from :
  (∀ s blk sender height votes s',
     update_oracle s blk sender height (Some votes) = Some s' →
     update_oracle s blk sender height (Some (filter (λ v, counts s v = true) votes)) = Some s') ∧
  (∀ s l1 v l2 v' ps' cp,
     v' ∈ l2 → v_addr v' = v_addr v → eff_dec v' = Some (true, ps') →
     agg_price s (providers (l1 ++ v :: l2)) cp = agg_price s (providers (l1 ++ l2)) cp) ∧
  (∀ s blk sender height votes v,
     v ∈ votes → is_Some (hset s !! v_addr v) → v_commit v = true → v_sig_ok v = false →
     update_oracle s blk sender height (Some votes) = None).
Proof. exact c15_nothing_from. Qed.

(* Clause (2) at the level of results: an accepted update has the same result without the
   earlier vote, provided the remaining votes still pass the first power check (the earlier
   vote's power is counted there once per entry, finding D12, so deleting it can only turn
   acceptance into rejection). *)
Theorem C15_repeated_vote_same_result : ∀ s blk sender height l1 v l2 v' ps' s',
  v' ∈ l2 → v_addr v' = v_addr v → eff_dec v' = Some (true, ps') →
  update_oracle s blk sender height (Some (l1 ++ v :: l2)) = Some s' →
  validate_ves (hset s) (l1 ++ l2) = true →
  update_oracle s blk sender height (Some (l1 ++ l2)) = Some s'.
Proof. exact c15_earlier_vote_same_result. Qed.

(* A non-commit vote of a recorded validator that carries an extension or a signature makes
   the whole update fail. *)
Theorem C15_noncommit_payload_rejects : ∀ s blk sender height votes v,
  v ∈ votes → is_Some (hset s !! v_addr v) → v_commit v = false →
  v_ext_empty v = false ∨ v_sig_empty v = false →
  update_oracle s blk sender height (Some votes) = None.
Proof. exact c15_noncommit_payload_rejects. Qed.

(* Per currency pair the stored timestamp strictly increases along every history: between any
   two points of a history the quote is either untouched or its timestamp is strictly larger.
   Stated for stretches of history [h2] in which the oracle module does not REMOVE the pair:
   a removed and re-created pair comes back without a quote (C15_remove_create), its timestamp
   history restarts; the other pairs' quotes - hence their no-replay protection - stay. *)
Theorem C15_timestamp_monotone : ∀ s h1 h2 cp q1,
  ORemovePair cp ∉ h2 →
  quotes (run s h1) !! cp = Some (Some q1) →
  ∃ q2, quotes (run s (h1 ++ h2)) !! cp = Some (Some q2) ∧ (q2 = q1 ∨ q_ts q1 < q_ts q2).
Proof. exact c15_timestamp_monotone. Qed.

Theorem C15_remove_create : ∀ s cp s1 s2,
  remove_pair s cp = Some s1 → create_pair s1 cp = Some s2 →
  quotes s2 !! cp = Some None ∧ ∀ cp', cp' ≠ cp → quotes s2 !! cp' = quotes s !! cp'.
Proof. exact c15_remove_create. Qed.

(* No replay or rollback: an update whose aggregated timestamp is not after the stored
   timestamp of some pair it would write is rejected as a whole. *)
Theorem C15_replay_rejected : ∀ s blk sender height votes tsp cp p q,
  agg_price s (providers votes) ts_pair = Some tsp →
  agg_price s (providers votes) cp = Some p → quotes s !! cp = Some (Some q) →
  wrap64 tsp <= q_ts q →
  update_oracle s blk sender height (Some votes) = None.
Proof. exact c15_replay_rejected. Qed.

(* What is written for a changed pair: the aggregated price, the aggregated timestamp of the
   TIMESTAMP pair (as int64 nanoseconds) and the L2 block height of the update. *)
Theorem C15_written_quote : ∀ s blk sender height commit s' cp,
  update_oracle s blk sender height commit = Some s' → quotes s' !! cp ≠ quotes s !! cp →
  ∃ votes tsp p, commit = Some votes ∧ agg_price s (providers votes) ts_pair = Some tsp ∧
                 agg_price s (providers votes) cp = Some p ∧
                 quotes s' !! cp = Some (Some (MkQuote p (wrap64 tsp) blk)).
Proof. exact c15_written_quote. Qed.

(* The exact value: when the recorded powers are non-negative (they come from an L1 light
   client), a changed quote carries the stake-weighted median of the contributors - the
   recorded validators whose latest non-empty vote carries a price for cp ([contributors],
   characterised by C15_contributors): a submitted price p such that the weight of all prices
   <= p reaches half (rounded down) of the contributing weight, while for every smaller
   submitted price it does not. *)
Theorem C15_median : ∀ s blk sender height commit s' cp,
  (∀ a pk w, hset s !! a = Some (pk, w) → 0 <= w) →
  update_oracle s blk sender height commit = Some s' → quotes s' !! cp ≠ quotes s !! cp →
  ∃ votes q, commit = Some votes ∧ quotes s' !! cp = Some (Some q) ∧
    let cs := contributors (hset s) (providers votes) cp in
    (∃ c, c ∈ cs ∧ c.2 = q_price q) ∧
    Z.quot (weight_total cs) 2 <= weight_upto cs (q_price q) ∧
    (∀ c, c ∈ cs → c.2 < q_price q → weight_upto cs c.2 < Z.quot (weight_total cs) 2).
Proof. exact c15_median. Qed.

Theorem C15_contributors : ∀ s votes cp c,
  c ∈ contributors (hset s) (providers votes) cp ↔
  ∃ pk ps, hset s !! c.1.1 = Some (pk, c.1.2) ∧ providers votes !! c.1.1 = Some ps ∧ price_of ps cp = Some c.2.
Proof. exact c15_contributors. Qed.

(* ... where the provider entry of a validator is the decoded price map of its LAST vote with a
   non-empty extension. *)
Theorem C15_latest_vote_wins : ∀ l1 v l2 ps,
  eff_dec v = Some (true, ps) →
  (∀ v', v' ∈ l2 → v_addr v' = v_addr v → ∀ ps', eff_dec v' ≠ Some (true, ps')) →
  providers (l1 ++ v :: l2) !! v_addr v = Some ps.
Proof. exact c15_latest_vote_wins. Qed.

(* The update height (as the int64 the handler compares) is never older than the recorded set. *)
Theorem C15_height : ∀ s blk sender height commit s',
  update_oracle s blk sender height commit = Some s' →
  ∃ hh, hheight s = Some hh ∧ hh <= wrap64 (Z.of_N height).
Proof. exact c15_height. Qed.

(* In every state reached from the initial one, for a uint64 message height: the recorded
   height is positive, the update height is at least the recorded height and below 2^63. *)
Theorem C15_height_reachable : ∀ h blk sender height commit s',
  (height < 18446744073709551616)%N →
  update_oracle (run oinit h) blk sender height commit = Some s' →
  ∃ hh, hheight (run oinit h) = Some hh ∧ 0 < hh <= Z.of_N height ∧ Z.of_N height < two63.
Proof. exact c15_height_reachable. Qed.

(* The recorded set (validators or height) changes only by a validator-set update that names
   the configured, non-empty L1 client id and has a strictly higher height; the new record is
   exactly that update's set and height. *)
Theorem C15_set_replacement : ∀ s o,
  (hset (step s o).1 ≠ hset s ∨ hheight (step s o).1 ≠ hheight s) →
  ∃ client height entries i,
    o = OUpdateHostSet client height entries ∧ info s = Some i ∧ client = bi_client i ∧ client ≠ 0%N ∧
    default 0 (hheight s) < height ∧
    hheight (step s o).1 = Some height ∧ hset (step s o).1 = build_set entries.
Proof. exact c15_set_replacement. Qed.

(* Along every history the recorded height never decreases. *)
Theorem C15_set_height_monotone : ∀ h s, default 0 (hheight s) <= default 0 (hheight (run s h)).
Proof. exact run_height_mono. Qed.

(* A rejected operation leaves the whole state unchanged. *)
Theorem C15_error_no_change : ∀ s o s', step s o = (s', false) → s' = s.
Proof. exact step_err_unchanged. Qed.

Print Assumptions C15_quorum.
Print Assumptions C15_price_changes_only_by_update.
Print Assumptions C15_nothing_from.
Print Assumptions C15_repeated_vote_same_result.
Print Assumptions C15_noncommit_payload_rejects.
Print Assumptions C15_timestamp_monotone.
Print Assumptions C15_remove_create.
Print Assumptions C15_replay_rejected.
Print Assumptions C15_written_quote.
Print Assumptions C15_median.
Print Assumptions C15_contributors.
Print Assumptions C15_latest_vote_wins.
Print Assumptions C15_height.
Print Assumptions C15_height_reachable.
Print Assumptions C15_set_replacement.
Print Assumptions C15_set_height_monotone.
Print Assumptions C15_error_no_change.
