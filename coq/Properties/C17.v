(* C17 - commitment and identifier formats match the published spec; verification is pure.
   The executable definitions of the formats are Model/Hashes.v (validated against the chain's
   exported functions and Python-pinned vectors on every run by the C17 stream).
   Statements only; proofs are in Proofs/. *)
From Coq Require Import List NArith.
Require Import Model.Bytes Model.Hashes.
Require Import Proofs.C17Proofs.

(* The node hash is order-independent in its two arguments, for every hash function and all
   byte strings (any lengths). *)
Theorem C17_node_commutative : forall (H : bytes -> bytes) (a b : bytes), node H a b = node H b a.
Proof. exact c17_node_commutative. Qed.

Print Assumptions C17_node_commutative.
