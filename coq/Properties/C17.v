(* C17 - commitment and identifier formats match the published spec; verification is pure.
   The executable definitions of the formats are Model/Hashes.v: [leaf_hash], [node],
   [root_from_proof], [output_root], [l2_denom], [bridge_address] - they ARE the independent
   implementation of the documented formats, and are compared on every run with the chain's
   exported Go functions and with vectors pinned from Python's hashlib (stream C17, through
   Model/TraceFmt.v with the Gallina SHA3-256 / SHA-256).
   Purity / memory-layout independence is proved about a transcription of the Go code against a
   model of Go slices (Model/GoSlice.v).  Statements only; proofs are in Proofs/. *)
From Coq Require Import List NArith.
Require Import Model.Bytes Model.Hashes Model.GoSlice Model.Sha3.
Require Import Proofs.C17Proofs Proofs.GoSliceProofs.
Import ListNotations.

(* The node hash is order-independent in its two arguments, for every hash function and all
   byte strings (any lengths). *)
Theorem C17_node_commutative : forall (H : bytes -> bytes) (a b : bytes), node H a b = node H b a.
Proof. exact c17_node_commutative. Qed.

(* The current GenerateRootHashFromProofs, run on ANY heap, with ANY proof list made of slices of
   allocated buffers - separately allocated, sub-slices of one buffer in any order, with spare
   capacity, overlapping or aliased: no condition relates the slices to each other - and for any
   reallocation policy [grow] of the runtime, returns the pure function [root_from_proof] of the
   byte values, and every buffer that existed before the call holds the same bytes after it. *)
Theorem C17_layout_independent : forall (H : bytes -> bytes) (grow : nat -> nat),
  (forall x, length (H x) = 32) ->
  forall (h : heap) (leaf : bytes) (proofs : list slice) (h' : heap) (r : bytes),
  length leaf = 32 -> Forall (wf_slice h) proofs ->
  go_root_from_proofs H grow h leaf proofs = (h', r) ->
  r = root_from_proof H leaf (map (read h) proofs) /\
  length h <= length h' /\ (forall k, k < length h -> buf_of h' k = buf_of h k).
Proof. exact go_root_layout_independent. Qed.

(* Hence two layouts (two heaps, two slice lists) of the same byte values give the same root. *)
Theorem C17_same_bytes_same_root : forall (H : bytes -> bytes) (grow : nat -> nat),
  (forall x, length (H x) = 32) ->
  forall h1 ps1 h2 ps2 leaf,
  length leaf = 32 -> Forall (wf_slice h1) ps1 -> Forall (wf_slice h2) ps2 ->
  map (read h1) ps1 = map (read h2) ps2 ->
  snd (go_root_from_proofs H grow h1 leaf ps1) = snd (go_root_from_proofs H grow h2 leaf ps2).
Proof. exact go_root_same_bytes. Qed.

(* The current GenerateNodeHash alone: the pure [node] of the two byte values (any lengths, any
   overlap of a and b), pre-existing buffers unchanged. *)
Theorem C17_node_hash_layout_independent : forall (H : bytes -> bytes) (grow : nat -> nat) h a b h' r,
  wf_slice h a -> wf_slice h b -> go_node_hash H grow h a b = (h', r) ->
  r = node H (read h a) (read h b) /\
  length h <= length h' /\ (forall k, k < length h -> buf_of h' k = buf_of h k).
Proof. exact go_node_hash_layout_independent. Qed.

(* The statement C17_layout_independent is FALSE for the code before commit 617a8e1
   (append(b, a...) into the proof element): a two-element proof sliced from one 64-byte buffer,
   the first element with capacity to the end of the buffer, real SHA3-256: the returned root is
   not the pure function's value AND the caller's buffer is modified. *)
Theorem C17_inplace_append_refuted :
  exists (h : heap) (leaf : bytes) (proofs : list slice),
    length leaf = 32 /\ Forall (wf_slice h) proofs /\
    let '(h', r) := go_root_from_proofs_old sha3_256 (fun n => n) h leaf proofs in
    r <> root_from_proof sha3_256 leaf (map (read h) proofs) /\ buf_of h' 0 <> buf_of h 0.
Proof. exact (ex_intro _ bad_heap (ex_intro _ bad_leaf (ex_intro _ bad_proofs inplace_append_refuted))). Qed.

(* ... and the current code is correct on that very input (non-vacuity of the hypotheses). *)
Theorem C17_current_code_on_that_layout :
  let '(h', r) := go_root_from_proofs sha3_256 (fun n => n) bad_heap bad_leaf bad_proofs in
  r = root_from_proof sha3_256 bad_leaf (map (read bad_heap) bad_proofs) /\ buf_of h' 0 = buf_of bad_heap 0.
Proof. exact good_on_bad_layout. Qed.

Print Assumptions C17_node_commutative.
Print Assumptions C17_layout_independent.
Print Assumptions C17_same_bytes_same_root.
Print Assumptions C17_node_hash_layout_independent.
Print Assumptions C17_inplace_append_refuted.
Print Assumptions C17_current_code_on_that_layout.
