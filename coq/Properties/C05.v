(* C05 - the challenge window is honoured and finality is irreversible.  Statements only;
   proofs are in Proofs/.  [is_final x e o] is the code's test
   (o_time o + c_period x) / 10^9 <= now e / 10^9 (unix seconds, floor division);
   [run c s h] executes any finite history of L1 messages of all kinds; [mono_from t h]: the
   block times of h never decrease and start at or after t; [l1inv s t]: the invariant of C11
   (log shape of every bridge, configs below the bridge counter with positive period, no stored
   time later than t), which holds in every state reachable from the empty chain. *)
From stdpp Require Import gmap numbers list.
From Coq Require Import ZArith.
Require Import Model.Bytes Model.Bank Model.Hashes Model.L1 Model.L1OutSpec.
Require Import Proofs.L1OutLemmas Proofs.C05Proofs Proofs.C05Hist.

(* A withdrawal is finalized at block time [now e] only against a STORED output of that bridge
   whose window has elapsed in unix seconds; hence never earlier than one second before
   proposal time + period. *)
Theorem C05_window : ∀ c e s sender b idx sq proofs from to d amt v sr bh s' r,
  step c e s (MFinalize sender b idx sq proofs from to d amt v sr bh) = (s', Ok r) →
  ∃ o x, outputs s !! (b, idx) = Some o ∧ configs s !! b = Some x ∧
         ((o_time o + c_period x) / second ≤ now e / second)%Z ∧
         (o_time o + c_period x - second < now e)%Z.
Proof. exact c05_window. Qed.

(* Every output stored in a state reachable from the empty chain (time-monotone history h) was
   written by a successful proposal step of h for exactly that bridge and index, and carries the
   block time and height of that step. *)
Theorem C05_stored_time_is_proposal_time : ∀ c h t0 b i o,
  mono_from t0 h → outputs (run c init_state h).1 !! (b, i) = Some o →
  ∃ h1 e p l2 root h2,
    h = h1 ++ (e, MPropose p b i l2 root) :: h2 ∧
    step c e (run c init_state h1).1 (MPropose p b i l2 root) =
      (propose_post e (run c init_state h1).1 b i l2 root, Ok RNone) ∧
    o = {| o_root := root; o_l1h := height e; o_time := now e; o_l2 := l2 |}.
Proof. exact c05_stored_time_is_proposal_time. Qed.

(* The window end to end: a claim accepted after history h at block time [now e] was made
   against an output created by a successful proposal INSIDE h at block time [now ep], and
   now e / 10^9 >= (now ep + period) / 10^9 for the period of the bridge. *)
Theorem C05_window_history : ∀ c h t0 e sender b idx sq proofs from to d amt v sr bh s' r,
  mono_from t0 h →
  step c e (run c init_state h).1 (MFinalize sender b idx sq proofs from to d amt v sr bh) = (s', Ok r) →
  ∃ h1 ep p l2 root h2 x,
    h = h1 ++ (ep, MPropose p b idx l2 root) :: h2 ∧
    step c ep (run c init_state h1).1 (MPropose p b idx l2 root) =
      (propose_post ep (run c init_state h1).1 b idx l2 root, Ok RNone) ∧
    configs (run c init_state h).1 !! b = Some x ∧
    ((now ep + c_period x) / second ≤ now e / second)%Z ∧ (now ep + c_period x - second < now e)%Z.
Proof. exact c05_window_history. Qed.

(* With a period of at least one second an output is never final within the unix second in
   which it was proposed. *)
Theorem C05_not_in_same_second : ∀ x e o,
  is_final x e o = true → (second ≤ c_period x)%Z → (o_time o / second < now e / second)%Z.
Proof. exact is_final_not_before. Qed.

(* Every config of every state reachable from the empty chain (any history, any times) has a
   strictly positive period; a creation with a non-positive period is rejected. *)
Theorem C05_period_positive : ∀ c h b x,
  configs (run c init_state h).1 !! b = Some x → (0 < c_period x)%Z.
Proof. exact c05_period_positive. Qed.
Theorem C05_period_positive_create : ∀ c e s creator x s' r,
  step c e s (MCreateBridge creator x) = (s', Ok r) → (0 < c_period x)%Z.
Proof. exact c05_period_positive_create. Qed.

(* No message changes the period of an existing bridge (nor removes its config) ... *)
Theorem C05_period_immutable_step : ∀ c e s m b x,
  cfg_ok s → configs s !! b = Some x →
  ∃ x', configs (step c e s m).1 !! b = Some x' ∧ c_period x' = c_period x.
Proof. exact c05_period_immutable_step. Qed.
(* ... so along every continuation of a history the period of a bridge stays what it was. *)
Theorem C05_period_immutable : ∀ c h1 h2 b x,
  configs (run c init_state h1).1 !! b = Some x →
  ∃ x', configs (run c init_state (h1 ++ h2)).1 !! b = Some x' ∧ c_period x' = c_period x.
Proof. exact c05_period_immutable. Qed.

(* Until it is final, a stored output can be deleted by the authority, the proposer or the
   challenger (together with everything after it). *)
Theorem C05_deletable_until_final : ∀ c e s ch b i x o,
  log_ok s b → valid_addr c ch = true → b ≠ 0%N → configs s !! b = Some x → may_delete c x ch →
  outputs s !! (b, i) = Some o → is_final x e o = false →
  step c e s (MDelete ch b i) = (delete_post s b i, Ok RNone).
Proof. exact c05_deletable_until_final. Qed.

(* After a successful delete of index i nothing is stored at any index >= i of that bridge; *)
Theorem C05_deleted_gone : ∀ c e s ch b i s1 r j,
  log_ok s b → step c e s (MDelete ch b i) = (s1, Ok r) → (i ≤ j)%N → outputs s1 !! (b, j) = None.
Proof. exact c05_deleted_gone. Qed.
(* while nothing is stored at (b, j), along ANY history in which no proposal of exactly (b, j)
   succeeds the slot stays empty and every finalization against it is rejected; *)
Theorem C05_deleted_unusable : ∀ c h s b j,
  outputs s !! (b, j) = None →
  Forall2 (λ em r, is_propose_at b j em.2 → r = Err) h (run c s h).2 →
  outputs (run c s h).1 !! (b, j) = None ∧
  Forall2 (λ em r, is_finalize_at b j em.2 → r = Err) h (run c s h).2.
Proof. exact c05_absent_unusable. Qed.
(* and the only step that fills the slot is a successful proposal of that index, whose stored
   output carries the block time and height of THAT step (the clock restarts). *)
Theorem C05_reproposal_restarts_clock : ∀ c e s m s' r b j o,
  outputs s !! (b, j) = None → step c e s m = (s', r) → outputs s' !! (b, j) = Some o →
  ∃ p l2 root, m = MPropose p b j l2 root ∧ r = Ok RNone ∧
               o = {| o_root := root; o_l1h := height e; o_time := now e; o_l2 := l2 |}.
Proof. exact c05_only_propose_fills. Qed.

(* Once final, always final: if (b, i) holds o and is final at a time not later than t, then
   after ANY history with non-decreasing block times from t the same o is stored at (b, i),
   the bridge has the same period, o is final at every later time, and no proposal of index i
   and no delete whose range covers i succeeded anywhere in that history. *)
Theorem C05_final_irreversible : ∀ c h s t b i x o e0,
  l1inv s t → mono_from t h → (now e0 ≤ t)%Z →
  configs s !! b = Some x → outputs s !! (b, i) = Some o → is_final x e0 o = true →
  outputs (run c s h).1 !! (b, i) = Some o ∧
  (∃ x', configs (run c s h).1 !! b = Some x' ∧ c_period x' = c_period x ∧
         ∀ e', (now e0 ≤ now e')%Z → is_final x' e' o = true) ∧
  Forall2 (λ em r, attacks b i em.2 → r = Err) h (run c s h).2.
Proof. exact c05_final_irreversible. Qed.

(* The last-finalized computation (the LastFinalizedOutput query and the answer of the role
   updates) returns an index that bounds every final index of the bridge, is itself stored and
   final when positive, and is 0 with the empty output otherwise. *)
Theorem C05_last_finalized_is_max : ∀ s e b x i o,
  last_final s e b x = (i, o) →
  (∀ j oj, outputs s !! (b, j) = Some oj → is_final x e oj = true → (j ≤ i)%N) ∧
  ((0 < i)%N → outputs s !! (b, i) = Some o ∧ is_final x e o = true) ∧
  (i = 0%N → o = empty_output).
Proof. exact c05_last_finalized_is_max. Qed.
(* 0 is returned only when no output of the bridge is final. *)
Theorem C05_last_finalized_zero_iff_none : ∀ s e b x o,
  log_ok s b → last_final s e b x = (0%N, o) →
  ∀ j oj, outputs s !! (b, j) = Some oj → is_final x e oj = false.
Proof. exact c05_last_finalized_none. Qed.
(* Role / config updates that answer with an output index answer with exactly that value,
   computed in the state they leave. *)
Theorem C05_update_answer_is_last_final : ∀ c e s m s' i l2,
  step c e s m = (s', Ok (RFinal i l2)) →
  ∃ b x' o, configs s' !! b = Some x' ∧ last_final s' e b x' = (i, o) ∧ l2 = o_l2 o ∧
            match m with
            | MUpdateProposer _ b' _ | MUpdateChallenger _ b' _ | MUpdateBatchInfo _ b' _
            | MUpdateMetadata _ b' _ => b' = b
            | _ => False
            end.
Proof. exact c05_update_answer. Qed.

(* Non-vacuity: a concrete time line (period 2 s, proposal at 1.5 s): periods 0 and -1 ns
   rejected at creation; a claim one nanosecond before the unix-second boundary rejected; the
   not-yet-final output deleted; the deleted index unusable; re-proposal restarts the clock;
   claim paid exactly at the boundary; the final output can neither be deleted nor replaced;
   a role update answers (1, 10).  The start state satisfies the invariant. *)
Theorem C05_example :
  l1inv ex5_state 0 ∧ mono_from 0 ex5_hist ∧
  (run ex5_cfg ex5_state ex5_hist).2 =
  [Err; Err; Ok (RId 1); Ok (RId 1); Ok RNone; Err; Ok RNone; Err; Ok RNone; Err; Ok RNone; Err; Err;
   Ok (RFinal 1 10)].
Proof. exact (conj ex5_inv (conj ex5_mono ex5_results)). Qed.

Print Assumptions C05_window.
Print Assumptions C05_stored_time_is_proposal_time.
Print Assumptions C05_window_history.
Print Assumptions C05_not_in_same_second.
Print Assumptions C05_period_positive.
Print Assumptions C05_period_positive_create.
Print Assumptions C05_period_immutable_step.
Print Assumptions C05_period_immutable.
Print Assumptions C05_deletable_until_final.
Print Assumptions C05_deleted_gone.
Print Assumptions C05_deleted_unusable.
Print Assumptions C05_reproposal_restarts_clock.
Print Assumptions C05_final_irreversible.
Print Assumptions C05_last_finalized_is_max.
Print Assumptions C05_last_finalized_zero_iff_none.
Print Assumptions C05_update_answer_is_last_final.
Print Assumptions C05_example.
