(* C08 - end-to-end solvency of one bridge.  Statements only; proofs are in Proofs/C08Proofs.v.
   [Model/System.v]: L1 state x L2 state x bookkeeping ([paid] = L2 sequences claimed OK,
   [donated] = plain bank credits to the escrow, incl. claims addressed to the escrow itself).
   System steps: L1 user deposit into the bridge; L1 bank send (never signed by the escrow);
   EVERY L2 message, also nested ExecuteMessages batches of the admin, provided each deposit
   message in it is a faithful relay (recipient, L1 sender, denoms and amount copied from the
   emitted L1 event of its sequence; sender, height, hook free); Relay k (the deposit message
   whose fields are COPIED from the emitted L1 event of sequence k - any k, any number of
   times, any sender, any hook, including hook transactions that carry withdrawals); Propose (honest root over any event range) / Delete; Claim m
   (the claim built from the RECORDED withdrawal m with [Merkle.prove] at the position found by its sequence); block time and height
   are free per L1 step; Admin1 (every L1 role / config / params update, batch record and IBC
   environment change, for any bridge); Other (bridge creation, and deposit / propose / delete /
   claim addressed to ANY OTHER bridge - guarded by the account-space assumptions: not spent
   from our escrow, the other escrow and the community pool are not our escrow; a payout of
   another bridge to our escrow counts as a donation).  Every message kind of both modules is
   covered; the only restriction is the faithfulness of relayed deposits. *)
From stdpp Require Import gmap numbers list.
From Coq Require Import ZArith.
Require Import Model.Bytes Model.Bank Model.Hashes Model.Merkle Model.System.
Require Model.L1 Model.L2 Model.Genesis1.
Require Import Proofs.MerkleProofs Proofs.C03Binding Proofs.C04Proofs Proofs.C08Proofs Proofs.C08Drain Proofs.C08Schedule.

(* After ANY system history from fresh states, for every L1 denom d with L2 denom
   d' = l2_denom bridge d:
     escrow(bridge, d) = supply_L2(d') + sum of emitted-but-unrelayed deposits of d
                         + sum of recorded-but-unpaid withdrawals of d' + donations(d)
   or two different L1 denoms with the same derived L2 denom are exhibited. *)
Theorem C08_solvency_invariant : ∀ (c : scfg) (s0 : sys) (h : list smsg) (d : bytes),
  fresh c s0 → solvent c (sys_run c s0 h) d ∨ denom_collision c.
Proof. exact c08_solvency_invariant. Qed.

(* The same as a step invariant from ANY state satisfying it (with the bookkeeping facts it
   is proved with: unique event / withdrawal sequences, denom map of the derived form, every
   paid sequence recorded and its leaf marked claimed on L1). *)
Theorem C08_invariant_step : ∀ c s m, inv c s → inv c (sys_step c s m).1.
Proof. exact step_inv. Qed.

(* [genesis c s] = fresh, and the L2 bank is consistent (no negative balance; the supply of every
   denom is the sum of its balances).  Along every system history the L2 bank stays consistent
   (Proofs/BankNonneg.v, Proofs/BankTotal.v), so the L2 supply is never negative. *)

(* Drain, part 1 (funding).  After ANY system history from genesis, every recorded and unpaid
   withdrawal of the L2 denom derived from d is covered by the escrow's balance of d, or a denom
   collision is exhibited.  (Codec premise as in C04_recorded_fields.) *)
Theorem C08_drain_funded : ∀ (c : scfg) (s0 : sys) (h : list smsg) (d : bytes) (w : L2.wrec),
  genesis c s0 → L2.resolve (c2 c) [] = None →
  let s := sys_run c s0 h in
  w ∈ L2.wlog (l2 s) → L2.w_seq w ∉ paid s → L2.w_denom w = l2d c d →
  (L2.w_amt w ≤ getb (L1.bk (l1 s)) (escrow_of c) d)%Z ∨ denom_collision c.
Proof. exact c08_drain_funded. Qed.

(* Drain, part 2 (acceptance of one claim).  After ANY system history from genesis: the claim
   step for a recorded, UNPAID withdrawal m with positive amount and an L1-valid recipient,
   against an output index that stores the honest root over an event range (lo,hi] containing m
   and is final at the step's block time, is ACCEPTED - or a denom collision, or an explicit
   collision of the hash function, is exhibited.  Counters are assumed not to wrap (bridge id
   and next L2 sequence below 2^64, DESIGN section 8).  By C08_invariant_step the state after
   the claim satisfies the equation again, with m paid. *)
Theorem C08_drain_claim : ∀ (c : scfg) (s0 : sys) (h : list smsg) (e : L1.env) (sender : bytes)
    (idx m lo hi v : N) (bh : bytes) (w : L2.wrec) (x : L1.config) (o : L1.output) (rcv : N),
  genesis c s0 → L2.resolve (c2 c) [] = None → (∀ y, length (L1.hash (c1 c) y) = 32%nat) →
  let s := sys_run c s0 h in
  (bid c < 18446744073709551616)%N → (L2.next_l2 (l2 s) ≤ 18446744073709551616)%N →
  find_w (l2 s) m = Some w → m ∉ paid s → (lo < m ≤ hi)%N →
  (0 < L2.w_amt w)%Z → L1.resolve (c1 c) (L2.w_to w) = Some rcv → is_Some (L1.resolve (c1 c) sender) →
  (1 ≤ bid c)%N → (1 ≤ idx)%N →
  L1.configs (l1 s) !! bid c = Some x → L1.outputs (l1 s) !! (bid c, idx) = Some o →
  L1.o_root o = honest_root c (l2 s) lo hi v bh → L1.is_final x e o = true → length bh = 32%nat →
  (sys_step c s (SClaim e sender idx m lo hi v bh)).2 = true ∨ denom_collision c ∨ Collision (L1.hash (c1 c)).
Proof. exact c08_drain_claim_g. Qed.

(* Drain, claim phase as a schedule.  From ANY state reachable from genesis in which output idx
   commits honestly to the recorded events (lo,hi] and is final at e: running the claim steps of
   a duplicate-free list ms of claimable sequences in that range ([claimable]: recorded, unpaid,
   positive amount, L1-valid recipient), in ANY order, makes EVERY step Ok; afterwards every one
   of them is rejected, whatever the submission (exactly once); L2 is untouched; the solvency
   equation holds; and if ms contained every claimable sequence, every record that is still
   unpaid is an excluded one (zero amount, or a recipient that is not an L1 address - DESIGN
   section 7), so that escrow = supply2 + unrelayed deposits + donations + sum of excluded
   records.  Or a denom / hash collision is exhibited. *)
Theorem C08_drain_claims : ∀ (c : scfg) (s0 : sys) (e : L1.env) (sender : bytes) (idx lo hi v : N) (bh : bytes)
    (h : list smsg) (ms : list N),
  genesis c s0 → L2.resolve (c2 c) [] = None → (∀ y, length (L1.hash (c1 c) y) = 32%nat) →
  (1 ≤ bid c < 18446744073709551616)%N → is_Some (L1.resolve (c1 c) sender) → (1 ≤ idx)%N → length bh = 32%nat →
  let s := sys_run c s0 h in
  NoDup ms → committed_final c s e idx lo hi v bh → (L2.next_l2 (l2 s) ≤ 18446744073709551616)%N →
  (∀ m, m ∈ ms → claimable c s m ∧ (lo < m ≤ hi)%N) →
  let s' := sys_run c s (claim_steps e sender idx lo hi v bh ms) in
  (Forall (λ b, b = true) (sys_oks c s (claim_steps e sender idx lo hi v bh ms)) ∧
   (∀ m e' sender' idx' lo' hi' v' bh', m ∈ ms →
      (sys_step c s' (SClaim e' sender' idx' m lo' hi' v' bh')).2 = false) ∧
   l2 s' = l2 s ∧
   (∀ d, solvent c s' d ∨ denom_collision c) ∧
   ((∀ m, claimable c s m → m ∈ ms) →
    ∀ w, w ∈ L2.wlog (l2 s') → L2.w_seq w ∉ paid s' →
         ¬ ((0 < L2.w_amt w)%Z ∧ is_Some (L1.resolve (c1 c) (L2.w_to w))))) ∨
  denom_collision c ∨ Collision (L1.hash (c1 c)).
Proof. exact c08_drain_claims. Qed.

(* C08_drain.  From ANY state s reachable from genesis, the schedule [drain] -
     relay every pending emitted event in order (executor ex, any hook descriptions hk);
     propose the honest output over ALL withdrawals recorded after those relays (index idx =
     the bridge's next output index, by its proposer, at block time e1);
     at a block time e2 at least the finalization period later, submit the claims of the
     listed sequences ms, where ms is ANY duplicate-free enumeration of the claimable sequences
     (recorded, unpaid, positive amount, L1-valid recipient) of the state after the relays -
   has EVERY step accepted (each pending deposit is credited or refunded; every claim is Ok),
   after which: a second submission of any of those claims is rejected, whatever its
   parameters (exactly once); no emitted deposit is pending; every record that is still unpaid
   is an excluded one (zero amount, or a recipient that is not an L1 address - DESIGN section
   7); and the equation holds, i.e. escrow(b,d) = supply2(d') + donations(d) + sum of the
   excluded records of d'.  Or a denom collision / an explicit hash collision is exhibited.
   Hypotheses: the codecs reject the empty string; the hash has 32-byte outputs of bytes;
   ex is a current executor; counters do not wrap (bridge id, next L2 sequence <= 2^64). *)
Theorem C08_drain : ∀ (c : scfg) (s0 : sys) (h : list smsg) (ex : bytes) (height : N) (hk : N → L2.hookp)
    (e1 : L1.env) (proposer : bytes) (idx l2b v : N) (bh : bytes) (e2 : L1.env) (sender : bytes)
    (ms : list N) (x : L1.config),
  genesis c s0 → L2.resolve (c2 c) [] = None → L1.resolve (c1 c) [] = None → Genesis1.hash_wf (c1 c) →
  (1 ≤ bid c < 18446744073709551616)%N → height ≠ 0%N → length bh = 32%nat → (1 ≤ idx)%N →
  let s := sys_run c s0 h in
  L2.is_executor (c2 c) (l2 s) ex = true →
  L1.configs (l1 s) !! bid c = Some x → proposer = L1.c_proposer x → is_Some (L1.resolve (c1 c) proposer) →
  idx = L1.out_of (l1 s) (bid c) →
  (if (idx =? 1)%N then true
   else match L1.outputs (l1 s) !! (bid c, (idx - 1)%N) with Some o => (L1.o_l2 o <? l2b)%N | None => false end) = true →
  (L1.now e1 + L1.c_period x ≤ L1.now e2)%Z → is_Some (L1.resolve (c1 c) sender) →
  let s1 := sys_run c s (relay_steps ex height hk (pending_seqs c s)) in
  (L2.next_l2 (l2 s1) ≤ 18446744073709551616)%N →
  NoDup ms → (∀ m, m ∈ ms ↔ claimable c s1 m) →
  let sched := drain c s ex height hk e1 proposer idx l2b v bh e2 sender ms in
  let s' := sys_run c s sched in
  (Forall (λ b, b = true) (sys_oks c s sched) ∧
   (∀ m e' sender' idx' lo' hi' v' bh', m ∈ ms →
      (sys_step c s' (SClaim e' sender' idx' m lo' hi' v' bh')).2 = false) ∧
   (∀ d, pending_dep c s' d = 0%Z) ∧
   (∀ w, w ∈ L2.wlog (l2 s') → L2.w_seq w ∉ paid s' →
         ¬ ((0 < L2.w_amt w)%Z ∧ is_Some (L1.resolve (c1 c) (L2.w_to w)))) ∧
   (∀ d, solvent c s' d ∨ denom_collision c)) ∨
  denom_collision c ∨ Collision (L1.hash (c1 c)).
Proof. exact c08_drain. Qed.

(* Conservation of combined holdings.  After ANY system history from fresh states: what is held
   of d on L1 outside the escrow (sum of all L1 balances of d minus the escrow's), plus the L2
   supply of the derived denom, plus the value in flight (unrelayed deposits, unpaid
   withdrawals) and the donations, equals the initial L1 total of d - or a denom collision. *)
Theorem C08_holdings_conserved : ∀ (c : scfg) (s0 : sys) (h : list smsg) (d : bytes),
  fresh c s0 →
  let s := sys_run c s0 h in
  ((bal_total (L1.bk (l1 s)) d - getb (L1.bk (l1 s)) (escrow_of c) d) +
   gets (L2.bk (l2 s)) (l2d c d) + pending_dep c s d + pending_wd s (l2d c d) + donations s d
   = bal_total (L1.bk (l1 s0)) d)%Z ∨ denom_collision c.
Proof. exact c08_holdings_conserved. Qed.

Print Assumptions C08_solvency_invariant.
Print Assumptions C08_invariant_step.
Print Assumptions C08_drain_funded.
Print Assumptions C08_drain_claim.
Print Assumptions C08_drain_claims.
Print Assumptions C08_drain.
Print Assumptions C08_holdings_conserved.
