(* C08 - end-to-end solvency of one bridge.  Statements only; proofs are in Proofs/C08Proofs.v.
   [Model/System.v]: L1 state x L2 state x bookkeeping ([paid] = L2 sequences claimed OK,
   [donated] = plain bank credits to the escrow, incl. claims addressed to the escrow itself).
   System steps: L1 user deposit into the bridge; L1 bank send (never signed by the escrow);
   every L2 message except deposits and ExecuteMessages wrappers; Relay k (the deposit message
   whose fields are COPIED from the emitted L1 event of sequence k - any k, any number of
   times, any sender, any hook); Propose (honest root over any event range) / Delete; Claim m
   (the claim built from the RECORDED withdrawal m with [Merkle.prove]); block time and height
   are free per L1 step.  Not system steps (see docs/C08.md): CreateBridge and the L1
   role/config updates, ExecuteMessages-wrapped L2 messages. *)
From stdpp Require Import gmap numbers list.
From Coq Require Import ZArith.
Require Import Model.Bytes Model.Bank Model.Hashes Model.Merkle Model.System.
Require Model.L1 Model.L2.
Require Import Proofs.C08Proofs.

(* After ANY system history from fresh states, for every L1 denom d with L2 denom
   d' = l2_denom bridge d:
     escrow(bridge, d) = supply_L2(d') + sum of emitted-but-unrelayed deposits of d
                         + sum of recorded-but-unpaid withdrawals of d' + donations(d)
   or two different L1 denoms with the same derived L2 denom are exhibited. *)
Theorem C08_solvency_invariant : ∀ (c : scfg) (s0 : sys) (h : list smsg) (d : bytes),
  fresh c s0 → solvent c (sys_run c s0 h) d ∨ denom_collision c.
Proof. exact c08_solvency_invariant. Qed.

(* The same as a step invariant from ANY state satisfying it (with the bookkeeping facts it
   is proved with: unique event / withdrawal sequences, denom map of the derived form, every
   paid sequence recorded and its leaf marked claimed on L1). *)
Theorem C08_invariant_step : ∀ c s m, inv c s → inv c (sys_step c s m).1.
Proof. exact step_inv. Qed.

(* Partial drain statement: in a state satisfying the equation in which no ledger term is
   negative, the escrow funds every recorded, unpaid withdrawal of that denom.  MISSING for
   the full C08_drain: the non-negativity premises as invariants (supply: C09's ledger; logged
   amounts: C04), and the drain schedule itself (relay all, propose honestly, wait, claim all:
   every claim Ok exactly once, then escrow = supply + donations) - the per-claim acceptance is
   C04_claimable, exactly-once is exercised by the C08 stream's forced drain. *)
Theorem C08_drain_partial : ∀ c s d w,
  solvent c s d →
  (0 ≤ gets (L2.bk (l2 s)) (l2d c d))%Z →
  (∀ ev, ev ∈ bevents c (l1 s) → (0 ≤ L1.e_amt ev)%Z) →
  (∀ w', w' ∈ L2.wlog (l2 s) → (0 ≤ L2.w_amt w')%Z) →
  (∀ x, x ∈ donated s → (0 ≤ x.2)%Z) →
  w ∈ L2.wlog (l2 s) → L2.w_seq w ∉ paid s → L2.w_denom w = l2d c d →
  (L2.w_amt w ≤ getb (L1.bk (l1 s)) (escrow_of c) d)%Z.
Proof. exact c08_drain_partial. Qed.

Print Assumptions C08_solvency_invariant.
Print Assumptions C08_invariant_step.
Print Assumptions C08_drain_partial.
