(* C06 - L2 credits each L1 deposit exactly once, in order, under any relay schedule.
   Statements only; proofs are in Proofs/.  [dlog] is the log of processed deposits (one
   entry per finalize_token_deposit event, newest first), [run] executes any finite
   history of L2 messages - deposits from any sender with any sequence, interleaved with
   every other message kind, including deposits wrapped in ExecuteMessages. *)
From stdpp Require Import gmap numbers list.
From Coq Require Import ZArith.
Require Import Model.Bytes Model.Bank Model.Valset Model.L2.
Require Import Proofs.L2Lemmas Proofs.C06Proofs.

(* From a fresh L2, after ANY history the processed sequences are exactly 1,2,...,n in that
   order (each once), and the next expected sequence is 1 + n. *)
Theorem C06_exactly_once_in_order : ∀ (c : cfg) (s : l2state) (h : list msg),
  next_l1 s = 1%N → dlog s = [] →
  ∃ n : nat, next_l1 (run c s h).1 = (1 + N.of_nat n)%N ∧
             rev (map d_seq (dlog (run c s h).1)) = upto n 1.
Proof. exact c06_exactly_once_in_order. Qed.

(* The same from any start state: between two states of a history exactly the sequences
   next_l1 s .. next_l1 s' - 1 were processed, in order. *)
Theorem C06_processed_between : ∀ c h s, processed_between s (run c s h).1.
Proof. exact run_processed. Qed.

(* A deposit message reports SUCCESS only at the expected sequence, from a current executor,
   and is then the newest processed deposit. *)
Theorem C06_success_only_at_next : ∀ c s m s',
  step c s (MFinalizeDeposit m) = (s', Ok RSuccess) →
  fd_seq m = next_l1 s ∧ is_executor c s (fd_sender m) = true ∧
  next_l1 s' = (next_l1 s + 1)%N ∧ ∃ ok, dlog s' = deposit_rec m ok :: dlog s.
Proof. exact c06_success. Qed.

(* An already processed sequence is a no-op with no state change at all ... *)
Theorem C06_noop_no_change : ∀ c s m,
  fdep_valid c m = true → is_executor c s (fd_sender m) = true → (fd_seq m < next_l1 s)%N →
  step c s (MFinalizeDeposit m) = (s, Ok RNoop).
Proof. exact c06_noop. Qed.

(* ... and a no-op is only ever reported for an already processed sequence. *)
Theorem C06_noop_only_if_processed : ∀ c s m s',
  step c s (MFinalizeDeposit m) = (s', Ok RNoop) → s' = s ∧ (fd_seq m < next_l1 s)%N.
Proof. exact c06_noop_inv. Qed.

(* A message ahead of the next expected sequence is rejected, whoever sends it. *)
Theorem C06_ahead_rejected : ∀ c s m,
  (next_l1 s < fd_seq m)%N → step c s (MFinalizeDeposit m) = (s, Err).
Proof. exact c06_ahead. Qed.

(* A sender that is not in the CURRENT executor list is rejected whatever the sequence. *)
Theorem C06_unauthorised : ∀ c s m,
  is_executor c s (fd_sender m) = false → step c s (MFinalizeDeposit m) = (s, Err).
Proof. exact c06_unauth. Qed.

(* Any rejected message leaves the state unchanged. *)
Theorem C06_error_no_change : ∀ c s m s', step c s m = (s', Err) → s' = s.
Proof. exact step_err_unchanged. Qed.

Print Assumptions C06_exactly_once_in_order.
Print Assumptions C06_processed_between.
Print Assumptions C06_success_only_at_next.
Print Assumptions C06_noop_no_change.
Print Assumptions C06_noop_only_if_processed.
Print Assumptions C06_ahead_rejected.
Print Assumptions C06_unauthorised.
Print Assumptions C06_error_no_change.
