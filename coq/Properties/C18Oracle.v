(* C18 (determinism) over the oracle path - statements only; proofs in Proofs/C18OracleProofs.v.
   The Go code of an oracle update leaves four iteration orders to the runtime or the store:
   the entries of each vote extension's price map (Go map), the provider map inside connect's
   aggregator and median (Go map, keyed by validator), the contributions inside the median, and
   the pairs visited by WritePrices (store range).  The model Model/Oracle.v fixes one order for
   each; Model/OracleOrder.v makes the orders explicit.  These theorems say the RESULT of an
   update (verdict and every written quote) is the same for all of them - and state exactly
   which reordering of the commit is NOT harmless.  The last block is the formal record of
   defect D15 (gas = number of currency-pair walks of the id cache). *)
From stdpp Require Import gmap numbers list.
From Coq Require Import ZArith.
Require Import Model.Oracle Model.OracleOrder Proofs.OracleLemmas Proofs.C15Proofs Proofs.C15Median Proofs.C18OracleProofs.
Local Open Scope Z_scope.

(* The result of an oracle update is invariant under (a) any permutation of the price entries
   inside each vote's price map (distinct pair ids) and then (b) any permutation of the commit's
   entries that keeps, for every validator, the relative order of that validator's own entries. *)
Theorem C18_oracle_vote_order_independent : ∀ s blk sender height votes votes1 votes2,
  Forall2 vote_entries_perm votes votes1 → same_validator_order votes1 votes2 →
  update_oracle s blk sender height (Some votes) = update_oracle s blk sender height (Some votes2).
Proof. exact c18_oracle_vote_order_independent. Qed.

(* In particular every permutation of a commit with one entry per validator is harmless. *)
Theorem C18_oracle_distinct_validators_any_order : ∀ s blk sender height votes votes',
  votes ≡ₚ votes' → NoDup (v_addr <$> votes) →
  update_oracle s blk sender height (Some votes) = update_oracle s blk sender height (Some votes').
Proof. exact c18_distinct_validators_any_order. Qed.

(* Arbitrary reordering is NOT invariant: the later non-empty vote of a validator wins, so
   swapping two entries of the same validator can change what is written (the commit is an
   ordered list in the transaction bytes, so this is no nondeterminism of the chain). *)
Theorem C18_oracle_arbitrary_reorder_refuted :
  ∃ s blk sender height votes votes',
    votes ≡ₚ votes' ∧
    update_oracle s blk sender height (Some votes) ≠ update_oracle s blk sender height (Some votes').
Proof. exact c18_arbitrary_reorder_refuted. Qed.

(* WritePrices as the sequential loop it is ([write_prices_seq]: every write at once, a stale
   pair aborts): visiting exactly the existing pairs in ANY order gives the same verdict and the
   same set of written quotes ... *)
Theorem C18_write_prices_order_independent : ∀ agg ts blk visit1 visit2 q,
  NoDup visit1 → NoDup visit2 →
  (∀ cp, cp ∈ visit1 ↔ is_Some (q !! cp)) → (∀ cp, cp ∈ visit2 ↔ is_Some (q !! cp)) →
  write_prices_seq visit1 q agg ts blk = write_prices_seq visit2 q agg ts blk.
Proof. exact c18_write_prices_order_independent. Qed.

(* ... namely the all-or-nothing result the update model uses: rejected iff some pair that would
   be written has a stored timestamp not before the new one, otherwise all of them written. *)
Theorem C18_write_prices_seq_is_model : ∀ agg ts blk visit q,
  NoDup visit → (∀ cp, cp ∈ visit ↔ is_Some (q !! cp)) →
  write_prices_seq visit q agg ts blk = if write_ok q agg ts then Some (write_quotes q agg ts blk) else None.
Proof. exact write_prices_seq_model. Qed.

(* The stake-weighted median of non-negative weights does not depend on the order of the
   contributions (the VALUE; equal prices with different weights may be sorted differently). *)
Theorem C18_median_order_independent : ∀ cs cs' : list (N * Z * Z),
  cs ≡ₚ cs' → (∀ c, c ∈ cs → 0 <= c.1.2) → median cs = median cs'.
Proof. exact c18_median_order_independent. Qed.

(* Nor does the aggregated price of a pair (participation threshold + median): [agg_price] is
   [agg_of] applied to the contributors in the model's order (agg_price_agg_of), and any other
   order - the Go code ranges over the provider map - gives the same. *)
Theorem C18_aggregate_order_independent : ∀ total (cs cs' : list (N * Z * Z)),
  cs ≡ₚ cs' → (∀ c, c ∈ cs → 0 <= c.1.2) → agg_of total cs = agg_of total cs'.
Proof. exact c18_agg_order_independent. Qed.

Theorem C18_agg_price_is_agg_of : ∀ s prov cp,
  agg_price s prov cp = match quotes s !! cp with
                        | None => None
                        | Some _ => agg_of (total_tokens (hset s)) (contributors (hset s) prov cp)
                        end.
Proof. exact agg_price_agg_of. Qed.

(* The non-negativity hypothesis is needed: with a negative weight the value depends on the order. *)
Theorem C18_median_negative_weight_refuted :
  ∃ cs cs' : list (N * Z * Z), cs ≡ₚ cs' ∧ median cs ≠ median cs'.
Proof. exact c18_median_negative_weight_refuted. Qed.

(* D15.  [walks_from filled pairs ids]: number of walks over all currency pairs done by
   HashCurrencyPairStrategy.FromID for the looked-up ids in that order (a miss walks and fills
   the cache).  After the repair (fresh strategy per update, one up-front fill) the count is
   the same for every order of the ids and is 1 + the number of ids of non-existing pairs ... *)
Theorem C18_walks_new_order_independent : ∀ pairs ids ids',
  ids ≡ₚ ids' → walks_new pairs ids = walks_new pairs ids'.
Proof. exact c18_walks_new_order_independent. Qed.

Theorem C18_walks_new_value : ∀ pairs ids,
  walks_new pairs ids = S (length (filter (λ id, id ∉ pairs) ids)).
Proof. exact walks_new_value. Qed.

(* ... before the repair it depended on the map order (is the first id known?) ... *)
Theorem C18_walks_old_order_refuted :
  ∃ pairs ids ids', ids ≡ₚ ids' ∧ walks_old false pairs ids ≠ walks_old false pairs ids'.
Proof. exact c18_walks_old_order_refuted. Qed.

(* ... and on process history (cache warm from an execution on a discarded branch). *)
Theorem C18_walks_old_history_refuted :
  ∃ pairs ids, walks_old false pairs ids ≠ walks_old true pairs ids.
Proof. exact c18_walks_old_history_refuted. Qed.

Print Assumptions C18_oracle_vote_order_independent.
Print Assumptions C18_oracle_distinct_validators_any_order.
Print Assumptions C18_oracle_arbitrary_reorder_refuted.
Print Assumptions C18_write_prices_order_independent.
Print Assumptions C18_write_prices_seq_is_model.
Print Assumptions C18_median_order_independent.
Print Assumptions C18_aggregate_order_independent.
Print Assumptions C18_agg_price_is_agg_of.
Print Assumptions C18_median_negative_weight_refuted.
Print Assumptions C18_walks_new_order_independent.
Print Assumptions C18_walks_new_value.
Print Assumptions C18_walks_old_order_refuted.
Print Assumptions C18_walks_old_history_refuted.
