(* C01 - L1 bridge escrow: conservation ledger and per-bridge isolation.
   Statements only; proofs are in Proofs/C01Proofs.v.  [run c s h] executes ANY finite history of
   L1 messages of all kinds by arbitrary signers over any number of bridges and denoms from ANY
   start state [s]; since the statements hold for every [h] they hold for every prefix.
   Two explicit hypotheses about the account space (trusted-base items):
   [escrow_ok c] - escrow addresses are pairwise distinct and differ from the community pool
   (BridgeAddress is a hash-derived module address; checked per run for the harness' table, and
   proved for the harness' numbering in [C01_escrow_numbering_ok]);
   [not_escrow_signed c m] - no message spends from an escrow account on a signer's behalf
   (nobody holds the key of a module-derived address). *)
From stdpp Require Import gmap numbers list.
From Coq Require Import ZArith String.
Require Import Model.Bytes Model.Bank Model.Hashes Model.L1 Model.TraceL1.
Require Import Proofs.L1DepLemmas Proofs.C01Proofs.
Require Proofs.C10Proofs.

(* The ledger: after any history the escrow balance of bridge b in denom d equals the initial
   balance + the accepted deposits into b of d + the plain credits to the escrow address (bank
   sends to it, payouts of ANY bridge naming it as recipient) - the accepted finalizations of b
   in d.  Every column is read off the messages and verdicts alone. *)
Theorem C01_escrow_ledger : ∀ (c : cfg) (b : N) (d : bytes) (h : list (env * msg)) (s : l1state),
  escrow_ok c → Forall (λ em, not_escrow_signed c em.2) h →
  getb (bk (run c s h).1) (escrow c b) d =
    (getb (bk s) (escrow c b) d + sum_flow (dep_in b d) h (run c s h).2
     + sum_flow (plain_in c b d) h (run c s h).2 - sum_flow (wd_out b d) h (run c s h).2)%Z.
Proof. exact c01_escrow_ledger. Qed.

(* One step of the ledger, with the signs of the columns. *)
Theorem C01_escrow_step : ∀ c e s m s' r b d,
  escrow_ok c → not_escrow_signed c m → step c e s m = (s', r) →
  getb (bk s') (escrow c b) d =
    (getb (bk s) (escrow c b) d + dep_in b d m r + plain_in c b d m r - wd_out b d m r)%Z ∧
  (0 ≤ dep_in b d m r)%Z ∧ (0 ≤ plain_in c b d m r)%Z ∧ (0 ≤ wd_out b d m r)%Z.
Proof. exact step_escrow_delta. Qed.

(* A step that lowers the escrow balance of bridge b in denom d is an accepted finalization
   whose bridge id is b and whose denom is d. *)
Theorem C01_outflow_only_own_withdrawal : ∀ c e s m s' r b d,
  escrow_ok c → not_escrow_signed c m → step c e s m = (s', r) →
  (getb (bk s') (escrow c b) d < getb (bk s) (escrow c b) d)%Z →
  ∃ sender idx sq proofs from to amt v sr bh,
    m = MFinalize sender b idx sq proofs from to d amt v sr bh ∧ r = Ok RNone ∧ (0 < amt)%Z.
Proof. exact c01_outflow_only_own_withdrawal. Qed.

(* Isolation of records: a step whose message is not addressed to bridge b' (a creation is
   addressed to the id it assigns; parameter updates, bank sends and environment changes are
   addressed to no bridge) leaves everything recorded under b' unchanged: config, deposit
   counter, output counter, every output, the claim set restricted to b', every token pair,
   every batch record. *)
Theorem C01_isolation : ∀ c e s m s' r b',
  step c e s m = (s', r) → addressed s m ≠ Some b' →
  configs s' !! b' = configs s !! b' ∧ next_seq s' !! b' = next_seq s !! b' ∧
  next_out s' !! b' = next_out s !! b' ∧ (∀ i, outputs s' !! (b', i) = outputs s !! (b', i)) ∧
  (∀ x, (b', x) ∈ proven s' ↔ (b', x) ∈ proven s) ∧ (∀ d, pairs s' !! (b', d) = pairs s !! (b', d)) ∧
  (∀ i, batches s' !! (b', i) = batches s !! (b', i)).
Proof. exact c01_isolation_view. Qed.

(* Isolation of balances: a step changes the balance of no account outside
   {depositor, escrow b} for a deposit into b, {named recipient, escrow b} for a finalization
   on b, {creator, community pool} for a creation, {from, to} for a bank send - and of no
   account at all for every other message; deposits, finalizations and sends move only the
   denom they name. *)
Theorem C01_isolation_balances : ∀ c e s m s' r a d,
  step c e s m = (s', r) → getb (bk s') a d ≠ getb (bk s) a d → may_touch c m a ∧ may_move m d.
Proof. exact c01_isolation_balances. Qed.

(* A message addressed to bridge b never lowers the escrow balance of another bridge. *)
Theorem C01_other_escrow_untouched : ∀ c e s m s' r b b' d,
  escrow_ok c → not_escrow_signed c m → step c e s m = (s', r) → addressed s m = Some b → b' ≠ b →
  (getb (bk s) (escrow c b') d ≤ getb (bk s') (escrow c b') d)%Z.
Proof. exact c01_other_escrow_untouched. Qed.

(* In every state reachable from a genesis (initial state with arbitrary balances) nothing is
   recorded under ids that have not been assigned yet, so a new bridge shares no record with any
   earlier activity (same statement as C10_new_bridge_clean). *)
Theorem C01_new_bridge_clean : ∀ c bank0 h b,
  let s := (run c (C10Proofs.genesis bank0) h).1 in
  (next_bridge s ≤ b)%N →
  configs s !! b = None ∧ next_seq s !! b = None ∧ next_out s !! b = None ∧
  (∀ i, outputs s !! (b, i) = None) ∧ (∀ x, (b, x) ∉ proven s) ∧ (∀ d, pairs s !! (b, d) = None) ∧
  (∀ i, batches s !! (b, i) = None) ∧ (∀ ev, ev ∈ elog s → e_bridge ev ≠ b) ∧
  (∀ y, y ∈ plog s → y_bridge y ≠ b).
Proof. exact C10Proofs.c10_new_bridge_clean. Qed.

(* The escrow numbering used by the correspondence harness satisfies [escrow_ok]. *)
Theorem C01_escrow_numbering_ok : ∀ k : l1case, (∀ b, (1000 + b)%N ≠ k_pool k) → escrow_ok (cfg_of k).
Proof. exact escrow_id_ok. Qed.

(* Non-vacuity (real SHA3-256): two bridges, a deposit into each, a donation, the bridge-1 root
   proposed on both, the claim paid by bridge 1 and refused on bridge 2; the hypotheses hold. *)
Theorem C01_example :
  escrow_ok ex_cfg ∧ Forall (λ em, not_escrow_signed ex_cfg em.2) ex_hist ∧
  (run ex_cfg (upd_bk init_state ex_bank) ex_hist).2 =
  [Ok (RId 1); Ok (RId 2); Ok (RId 1); Ok (RId 1); Ok RNone; Ok RNone; Ok RNone; Ok RNone; Err] ∧
  getb (bk (run ex_cfg (upd_bk init_state ex_bank) ex_hist).1) (escrow ex_cfg 1) (bs "uinit"%string) = (100 + 7 - 30)%Z ∧
  getb (bk (run ex_cfg (upd_bk init_state ex_bank) ex_hist).1) (escrow ex_cfg 2) (bs "uinit"%string) = 200%Z.
Proof. split; [exact ex_cfg_ok|exact c01_example]. Qed.

Print Assumptions C01_escrow_ledger.
Print Assumptions C01_escrow_step.
Print Assumptions C01_outflow_only_own_withdrawal.
Print Assumptions C01_isolation.
Print Assumptions C01_isolation_balances.
Print Assumptions C01_other_escrow_untouched.
Print Assumptions C01_new_bridge_clean.
Print Assumptions C01_escrow_numbering_ok.
Print Assumptions C01_example.
