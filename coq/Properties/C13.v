(* C13 - the L2 validator set in state always equals what the consensus engine was told.
   Statements only; proofs are in Proofs/ValsetLemmas.v and Proofs/C13Proofs.v.
   Model: Model/Valset.v (validator records, consensus-key index, last powers, the two-pass
   end blocker, historical info, CometBFT's UpdateWithChangeSet as [engine_apply]) and
   Model/ValChain.v (genesis, the authority's messages, blocks, histories of blocks). *)
From stdpp Require Import gmap numbers list.
From Coq Require Import ZArith.
Require Import Model.Valset Model.ValChain.
Require Import Proofs.ValsetLemmas Proofs.C13Proofs.

(* For every genesis accepted by ValidateGenesis (positive powers) and every history of blocks,
   each block any list of add / remove / max-validators / retention messages (failing ones
   included): no begin or end blocker ever fails; every batch - the genesis batch included -
   has no key twice, no negative power and removes only keys the engine holds (the three
   acceptance criteria); the batches applied in order give exactly the set
   {(key v, power v) | v stored}, every stored validator having positive power, and that is
   the last-power table mapped through the validators' keys. *)
Theorem C13_engine_equals_state : ∀ (g : vgenesis) (h0 : Z) (bs : list (list vop)),
  genesis_valid g → g_exported g = false →
  ∃ st0 ups0 st bl,
    genesis_chain g h0 = Some (st0, ups0) ∧ run_blocks st0 bs = Some (st, bl) ∧
    length bl = length bs ∧
    batches_ok ∅ (ups0 :: bl) ∧
    ch_eng st = foldl apply_updates ∅ (ups0 :: bl) ∧
    ch_eng st = state_set (vc_vs (ch_core st)) ∧
    engine_is_state (vc_vs (ch_core st)) (ch_eng st) ∧
    (∀ op v, vals (vc_vs (ch_core st)) !! op = Some v → (0 < v_pow v)%Z) ∧
    last (vc_vs (ch_core st)) = v_pow <$> vals (vc_vs (ch_core st)) ∧
    eng_last (vc_vs (ch_core st)) (ch_eng st).
Proof. exact c13_engine_equals_state. Qed.

Print Assumptions C13_engine_equals_state.
