(* C13 - the L2 validator set in state always equals what the consensus engine was told.
   Statements only; proofs are in Proofs/ValsetLemmas.v and Proofs/C13Proofs.v.
   Model: Model/Valset.v (validator records, consensus-key index, last powers, the two-pass
   end blocker, historical info, CometBFT's UpdateWithChangeSet as [engine_apply]) and
   Model/ValChain.v (genesis, the authority's messages, blocks, histories of blocks). *)
From stdpp Require Import gmap numbers list.
From Coq Require Import ZArith.
Require Import Model.Bytes Model.Bank Model.Valset Model.L2 Model.ValChain Model.TraceVal.
Require Import Proofs.ValsetLemmas Proofs.C13Proofs Proofs.C13L2.

(* [genesis_ok g]: g is accepted by ValidateGenesis (no consensus key twice, no operator address
   twice, at most MaxValidators validators, MaxValidators <> 0), all powers are positive, and g
   is either fresh (no last powers: InitGenesis runs the end-block computation) or an export
   whose last powers are exactly the validators' powers (one update per entry).
   For every such genesis and every history of blocks,
   each block any list of add / remove / max-validators / retention messages (failing ones
   included): no begin or end blocker ever fails; every batch - the genesis batch included -
   has no key twice, no negative power and removes only keys the engine holds (the three
   acceptance criteria); the batches applied in order give exactly the set
   {(key v, power v) | v stored}, every stored validator having positive power, and that is
   the last-power table mapped through the validators' keys. *)
Theorem C13_engine_equals_state : ∀ (g : vgenesis) (h0 : Z) (bs : list (list vop)),
  genesis_ok g →
  ∃ st0 ups0 st bl,
    genesis_chain g h0 = Some (st0, ups0) ∧ run_blocks st0 bs = Some (st, bl) ∧
    length bl = length bs ∧
    batches_ok ∅ (ups0 :: bl) ∧
    ch_eng st = foldl apply_updates ∅ (ups0 :: bl) ∧
    ch_eng st = state_set (vc_vs (ch_core st)) ∧
    engine_is_state (vc_vs (ch_core st)) (ch_eng st) ∧
    (∀ op v, vals (vc_vs (ch_core st)) !! op = Some v → (0 < v_pow v)%Z) ∧
    last (vc_vs (ch_core st)) = v_pow <$> vals (vc_vs (ch_core st)) ∧
    eng_last (vc_vs (ch_core st)) (ch_eng st).
Proof. exact c13_engine_equals_state. Qed.

(* The same with the engine's full acceptance rule (CometBFT also refuses a batch that empties
   the set or pushes the total power above MaxInt64/8): for a block of a reachable chain whose
   batch has bounded powers and leaves a non-empty set of bounded total power,
   UpdateWithChangeSet (engine_apply) succeeds and returns exactly the chain's engine set. *)
Theorem C13_engine_accepts : ∀ st ops st' ups,
  reachable st → block st ops = Some (st', ups) →
  Forall (λ u, u.2 ≤ maxtotal)%Z ups → ch_eng st' ≠ ∅ → (total_power (ch_eng st') ≤ maxtotal)%Z →
  engine_apply (ch_eng st) ups = Some (ch_eng st').
Proof. exact c13_full_acceptance. Qed.

(* Every block of every reachable chain runs to its end (no begin / end blocker failure) and
   its batch has no key twice, no negative power, and removes only keys the engine holds. *)
Theorem C13_batch_wellformed : ∀ st ops,
  reachable st → ∃ st' ups, block st ops = Some (st', ups) ∧ batch_wellformed (ch_eng st) ups ∧ reachable st'.
Proof. exact c13_batch_wellformed. Qed.

(* In every reachable state - also between the messages of a block - the consensus-key index
   is exactly the inverse of "key of" on the stored validators: every index entry points to a
   stored validator carrying that key, every stored validator is indexed under its key, and
   no two stored validators share a key. *)
Theorem C13_indexes_bijective : ∀ st ops,
  reachable st →
  let s := vc_vs (foldl vop_exec (ch_core st) ops) in
  idx_ok s ∧
  (∀ op1 op2 v1 v2, vals s !! op1 = Some v1 → vals s !! op2 = Some v2 → v_key v1 = v_key v2 → op1 = op2) ∧
  (∀ op v, vals s !! op = Some v → idx s !! v_key v = Some op).
Proof. exact c13_indexes_bijective. Qed.

(* Bonded <= stored <= MaxValidators at every point of every reachable chain, and the begin
   blocker (GetLastValidators' "more validators than maxValidators" panic, mustGetValidator)
   never fails, for any height and any stored history. *)
Theorem C13_bonded_le_max : ∀ st ops,
  reachable st →
  let c := foldl vop_exec (ch_core st) ops in
  (N.of_nat (size (vals (vc_vs c))) ≤ vc_maxv c)%N ∧
  size (last (vc_vs c)) ≤ size (vals (vc_vs c)) ∧
  ∀ h hist, is_Some (begin_block (vc_maxv (ch_core st)) (vc_entries (ch_core st)) h (vc_vs (ch_core st)) hist).
Proof. exact c13_bonded_le_max. Qed.

(* A validator whose MsgRemoveValidator succeeded in a block - whatever came before it in the
   block (also its own MsgAddValidator) and whatever comes after - is not stored after that
   block's end blocker. *)
Theorem C13_removed_is_gone : ∀ st ops1 op ops2 st' ups,
  reachable st →
  is_Some (vop_step (foldl vop_exec (ch_core st) ops1) (VRemove op)) →
  block st (ops1 ++ VRemove op :: ops2) = Some (st', ups) →
  vals (vc_vs (ch_core st')) !! op = None ∧ ¬ (∃ v, vals (vc_vs (ch_core st')) !! op = Some v).
Proof. exact c13_removed_is_gone. Qed.

(* Historical records, one block (HistoricalEntries >= 1 at its begin blocker): the record of
   the new height h is the bonded set at the beginning of the block (also kept in the ghost
   log [ch_snaps]); a record of an older height j survives iff h - entries < j; nothing at or
   below h - entries and nothing above h is stored; the stored heights stay a contiguous run
   whose records equal the snapshots taken at their own blocks ([hist_inv]). *)
Theorem C13_history_exact_block : ∀ st ops st' ups,
  chain_inv st → hist_inv st → (0 ≤ ch_height st)%Z → (1 ≤ vc_entries (ch_core st))%N →
  block st ops = Some (st', ups) →
  let h := (ch_height st + 1)%Z in
  let c := ch_core st in
  hist_inv st' ∧
  (∃ r, last_validators (vc_maxv c) (vc_vs c) = Some r ∧ ch_hist st' !! h = Some r ∧ ch_snaps st' !! h = Some r) ∧
  (∀ j, (j < h)%Z → ch_hist st' !! j = if bool_decide (h - Z.of_N (vc_entries c) < j)%Z then ch_hist st !! j else None) ∧
  (∀ j, (h < j)%Z → ch_hist st' !! j = None) ∧
  (∀ j, (j ≤ h - Z.of_N (vc_entries c))%Z → ch_hist st' !! j = None).
Proof. exact history_block. Qed.

(* ... and the snapshot [last_validators] lists exactly the engine's set. *)
Theorem C13_history_record_is_bonded_set : ∀ maxv s e r,
  blk_inv s e → last_validators maxv s = Some r → ∀ k p, (k, p) ∈ r ↔ e !! k = Some p.
Proof. exact last_validators_is_engine. Qed.

(* Historical records, whole histories: from any valid genesis with retention >= 1, through
   any blocks whose parameter changes keep retention >= 1, the hypotheses of the one-block
   theorem hold at every block boundary. *)
Theorem C13_history_exact : ∀ g h0 bs,
  genesis_ok g → (0 ≤ h0)%Z → (1 ≤ g_entries g)%N →
  Forall (Forall op_entries_pos) bs →
  ∃ st0 ups0 st bl, genesis_chain g h0 = Some (st0, ups0) ∧ run_blocks st0 bs = Some (st, bl) ∧
    chain_inv st ∧ hist_inv st ∧ (1 ≤ vc_entries (ch_core st))%N ∧ (0 ≤ ch_height st)%Z.
Proof. exact c13_history_exact. Qed.

(* Without "retention >= 1" the pruning half is false (known finding D7): retention 2 for
   blocks 1-3, 0 in blocks 4-5, 1 from block 6: after block 7 the records of heights 2 and 3
   are still stored, although the window is the single height 7. *)
Theorem C13_history_zero_refuted :
  ∃ st0 ups0 st bl, genesis_valid d7_genesis ∧ genesis_chain d7_genesis 0 = Some (st0, ups0) ∧
    run_blocks st0 d7_blocks = Some (st, bl) ∧ ch_height st = 7%Z ∧ vc_entries (ch_core st) = 1%N ∧
    is_Some (ch_hist st !! 2%Z) ∧ is_Some (ch_hist st !! 3%Z) ∧ is_Some (ch_hist st !! 7%Z) ∧ ch_hist st !! 6%Z = None.
Proof. exact history_zero_refuted. Qed.

(* The blocks above are lists of the three validator operations.  They cover ALL histories of
   L2 messages: every successful message of the complete opchild message server (deposits,
   withdrawals, parameter updates, ExecuteMessages with nested messages, ...) changes the
   validator core (validators, key index, last powers, MaxValidators, HistoricalEntries) exactly
   like some finite list of validator operations, and a failing message not at all. *)
Theorem C13_l2_messages_refine : ∀ (m : msg) (c : cfg) (s s' : l2state) (r : resp),
  handle c s m = Some (s', r) → ∃ ops, core_of s' = foldl vop_exec (core_of s) ops.
Proof. exact handle_val_reach. Qed.
Theorem C13_l2_histories_refine : ∀ (c : cfg) (h : list msg) (s : l2state),
  ∃ ops, core_of (run c s h).1 = foldl vop_exec (core_of s) ops.
Proof. exact run_val_reach. Qed.

(* An EDITED export (restart from a genesis whose LastValidatorPowers differ from the validators'
   ConsPower: powers changed up or down, power 0 for a bonded validator, validators without a
   last power; every last power positive and naming a genesis validator - otherwise InitGenesis
   panics).  ValidateGenesis does not look at last powers.  InitGenesis tells the engine the
   LAST powers (well-formed batch; engine = last powers through keys); the first block - with any
   messages - reconciles, and from then on everything of C13_engine_equals_state holds. *)
Theorem C13_edited_export_reconciled : ∀ (g : vgenesis) (h0 : Z) (b : list vop) (bs : list (list vop)),
  genesis_valid_edited g → g_exported g = true →
  ∃ st0 ups0 st bl, genesis_chain g h0 = Some (st0, ups0) ∧ batch_wellformed ∅ ups0 ∧
    eng_last (vc_vs (ch_core st0)) (ch_eng st0) ∧
    run_blocks st0 (b :: bs) = Some (st, bl) ∧ batches_ok ∅ (ups0 :: bl) ∧
    ch_eng st = foldl apply_updates ∅ (ups0 :: bl) ∧
    chain_inv st ∧ ch_eng st = state_set (vc_vs (ch_core st)) ∧
    last (vc_vs (ch_core st)) = v_pow <$> vals (vc_vs (ch_core st)).
Proof. exact c13_edited_export_reconciled. Qed.

Print Assumptions C13_engine_equals_state.
Print Assumptions C13_edited_export_reconciled.
Print Assumptions C13_engine_accepts.
Print Assumptions C13_batch_wellformed.
Print Assumptions C13_indexes_bijective.
Print Assumptions C13_bonded_le_max.
Print Assumptions C13_removed_is_gone.
Print Assumptions C13_history_exact_block.
Print Assumptions C13_history_record_is_bonded_set.
Print Assumptions C13_history_exact.
Print Assumptions C13_history_zero_refuted.
Print Assumptions C13_l2_messages_refine.
Print Assumptions C13_l2_histories_refine.
