package main

import (
	"bytes"
	"fmt"
	"math/big"
	"sort"
	"strings"
	"time"

	abci "github.com/cometbft/cometbft/abci/types"
	sdk "github.com/cosmos/cosmos-sdk/types"

	opchild "github.com/initia-labs/OPinit/x/opchild"
	opchildkeeper "github.com/initia-labs/OPinit/x/opchild/keeper"
	opchildtypes "github.com/initia-labs/OPinit/x/opchild/types"
	ophosttypes "github.com/initia-labs/OPinit/x/ophost/types"
)

// Stream C16L2 (L2 half of C16): a block-boundary state of the real opchild keeper is reached by
// a random schedule of deposits (in order, stale, ahead; to good, undecodable and blocked
// recipients, i.e. refunded deposits), withdrawals, parameter updates, bridge-info updates,
// validator additions / removals through the message server and EndBlocker calls.  Then
// ExportGenesis -> JSON -> ValidateGenesis -> InitGenesis into fresh stores -> ExportGenesis:
// byte-identical; the validator updates returned by InitGenesis must be exactly the bonded set
// (last-power table joined with the validators' consensus keys) of the original instance; a
// probe schedule (messages and EndBlockers) is run on both instances and every observation,
// every EndBlocker update list and the exported genesis after every probe must agree.
// Model tie: Model/TraceGen.v G2.run_gen2 replays the schedule on the model, applies the
// Gallina export2 / validate2 / import2 and must print the same trees and the same updates.

func init() { register("C16L2", genC16L2) }

type gop struct {
	End bool
	Op  L2Op
}

func (g gop) Coq() string {
	if g.End {
		return "G2.GEnd"
	}
	return "G2.GMsg (" + g.Op.Coq() + ")"
}

func (e *L2Env) opID(valAddr []byte) uint64 {
	for i, a := range e.ValOps {
		if bytes.Equal(a, valAddr) {
			return uint64(i + 1)
		}
	}
	return 0
}
func (e *L2Env) keyIDOfBytes(pk []byte) uint64 {
	for i, k := range e.ValKeys {
		if bytes.Equal(k.Bytes(), pk) {
			return uint64(i + 1)
		}
	}
	return 0
}

func mkBInfo(id uint64, addr, chain, client string, cfg ophosttypes.BridgeConfig) *BInfo {
	bz, err := cfg.Marshal()
	if err != nil {
		panic(err)
	}
	return &BInfo{ID: id, Addr: addr, Chain: chain, Client: client, CfgOK: cfg.ValidateWithNoAddrValidation() == nil,
		Oracle: cfg.OracleEnabled, Cfg: bz,
		Real: opchildtypes.BridgeInfo{BridgeId: id, BridgeAddr: addr, L1ChainId: chain, L1ClientId: client, BridgeConfig: cfg}}
}

// genesis2Ov projects a real opchild GenesisState exactly as Model/TraceGen.v G2.genesis2_ov.
func (e *L2Env) genesis2Ov(gs *opchildtypes.GenesisState) Ov {
	p := gs.Params
	var execs, mg, wl, last, vals, prs []Ov
	for _, x := range p.BridgeExecutors {
		execs = append(execs, OB{[]byte(x)})
	}
	for _, g := range p.MinGasPrices {
		mg = append(mg, ol(OB{[]byte(g.Denom)}, ozB(g.Amount.BigInt())))
	}
	for _, x := range p.FeeWhitelist {
		wl = append(wl, OB{[]byte(x)})
	}
	pov := ol(OB{[]byte(p.Admin)}, OL{execs}, onU(uint64(p.MaxValidators)), onU(uint64(p.HistoricalEntries)), OL{mg}, OL{wl}, onU(p.HookMaxGas))
	for _, lp := range gs.LastValidatorPowers {
		va, err := sdk.ValAddressFromBech32(lp.Address)
		if err != nil {
			panic(err)
		}
		last = append(last, ol(onU(e.opID(va)), ozI(lp.Power)))
	}
	for _, v := range gs.Validators {
		va, err := sdk.ValAddressFromBech32(v.OperatorAddress)
		if err != nil {
			panic(err)
		}
		pk, err := v.ConsPubKey()
		if err != nil {
			panic(err)
		}
		vals = append(vals, ol(onU(e.opID(va)), onU(e.keyIDOfBytes(pk.Bytes())), ozI(v.ConsPower)))
	}
	var info Ov = ol()
	if gs.BridgeInfo != nil {
		b := gs.BridgeInfo
		bz, err := b.BridgeConfig.Marshal()
		if err != nil {
			panic(err)
		}
		info = ol(ol(onU(b.BridgeId), OB{[]byte(b.BridgeAddr)}, OB{[]byte(b.L1ChainId)}, OB{[]byte(b.L1ClientId)}, obool(b.BridgeConfig.OracleEnabled), OB{bz}))
	}
	for _, dp := range gs.DenomPairs {
		prs = append(prs, ol(OB{[]byte(dp.Denom)}, OB{[]byte(dp.BaseDenom)}))
	}
	return ol(pov, OL{last}, OL{vals}, obool(gs.Exported), onU(gs.NextL1Sequence), onU(gs.NextL2Sequence), info, OL{prs})
}

func (e *L2Env) updatesOv(ups []abci.ValidatorUpdate) Ov {
	var out []Ov
	for _, u := range ups {
		out = append(out, ol(onU(e.keyIDOfBytes(u.PubKey.GetEd25519())), ozI(u.Power)))
	}
	return OL{out}
}

// endBlock runs the real EndBlocker atomically and returns its updates
func (e *L2Env) endBlock() (ExecResult, []abci.ValidatorUpdate) {
	var ups []abci.ValidatorUpdate
	r := execAtomic(e.Ctx, func(ctx sdk.Context) (interface{}, error) {
		u, err := opchild.EndBlocker(ctx, e.K)
		ups = u
		return nil, err
	})
	return r, ups
}

// valView is what the validator queries of an instance answer, independently of ExportGenesis:
// the Validators list, Validator(op) for every operator of the universe, the consensus-key
// index lookup for every key of the universe, and the last-power table.
func (e *L2Env) valView() string {
	q := opchildkeeper.NewQuerier(e.K)
	var sb strings.Builder
	if resp, err := q.Validators(e.Ctx, &opchildtypes.QueryValidatorsRequest{}); err != nil {
		sb.WriteString("validators:ERR;")
	} else {
		for _, v := range resp.Validators {
			pk, _ := v.ConsPubKey()
			va, _ := sdk.ValAddressFromBech32(v.OperatorAddress)
			fmt.Fprintf(&sb, "v(%d,%d,%d);", e.opID(va), e.keyIDOfBytes(pk.Bytes()), v.ConsPower)
		}
	}
	for i, op := range e.ValOps {
		resp, err := q.Validator(e.Ctx, &opchildtypes.QueryValidatorRequest{ValidatorAddr: op.String()})
		if err != nil {
			fmt.Fprintf(&sb, "op%d:-;", i+1)
		} else {
			pk, _ := resp.Validator.ConsPubKey()
			fmt.Fprintf(&sb, "op%d:(%d,%d);", i+1, e.keyIDOfBytes(pk.Bytes()), resp.Validator.ConsPower)
		}
	}
	for i, k := range e.ValKeys {
		v, found := e.K.GetValidatorByConsAddr(e.Ctx, sdk.ConsAddress(k.Address()))
		if !found {
			fmt.Fprintf(&sb, "key%d:-;", i+1)
		} else {
			va, _ := sdk.ValAddressFromBech32(v.OperatorAddress)
			fmt.Fprintf(&sb, "key%d:%d;", i+1, e.opID(va))
		}
	}
	_ = e.K.IterateLastValidatorPowers(e.Ctx, func(op []byte, power int64) (bool, error) {
		fmt.Fprintf(&sb, "last(%d,%d);", e.opID(op), power)
		return false, nil
	})
	// the other collections, entry by entry (not through ExportGenesis)
	np := 0
	_ = e.K.DenomPairs.Walk(e.Ctx, nil, func(denom, base string) (bool, error) {
		np++
		got, err := q.BaseDenom(e.Ctx, &opchildtypes.QueryBaseDenomRequest{Denom: denom})
		g := "ERR"
		if err == nil {
			g = got.BaseDenom
		}
		fmt.Fprintf(&sb, "pair(%s=%s/%s);", denom, base, g)
		return false, nil
	})
	n1, _ := e.K.GetNextL1Sequence(e.Ctx)
	n2, _ := e.K.GetNextL2Sequence(e.Ctx)
	ps, _ := e.K.GetParams(e.Ctx)
	fmt.Fprintf(&sb, "pairs=%d;n1=%d;n2=%d;params=%s;", np, n1, n2, ps.String())
	if ok, _ := e.K.BridgeInfo.Has(e.Ctx); ok {
		bi, _ := e.K.BridgeInfo.Get(e.Ctx)
		fmt.Fprintf(&sb, "info=%s;", bi.String())
	}
	return sb.String()
}

func copyL2Foreign(from, to *L2Env) {
	to.AK.InitGenesis(to.Ctx, *from.AK.ExportGenesis(from.Ctx))
	to.BK.InitGenesis(to.Ctx, from.BK.ExportGenesis(from.Ctx))
}

// one random L2 step of the C16 schedule
func (sc *L2Scenario) c16Step(binfoID uint64) gop {
	e, r, c := sc.Env, sc.R, sc.Case
	n1, _ := e.K.GetNextL1Sequence(e.Ctx)
	switch r.Weighted([]int{34, 10, 6, 6, 16, 10, 14, 4}) {
	case 0: // deposit
		seq := n1
		switch r.Weighted([]int{70, 12, 12, 6}) {
		case 1:
			if n1 > 1 {
				seq = 1 + uint64(r.Intn(int(n1-1)))
			}
		case 2:
			seq = n1 + 1 + uint64(r.Intn(2))
		case 3:
			seq = 0
		}
		sender := sc.SenderString(r.Weighted([]int{75, 8, 12, 0, 0, 5}))
		to := e.User(uint64(1 + r.Intn(6))).Str
		switch r.Intn(10) {
		case 0:
			to = "notanaddress" // refunded
		case 1:
			to = e.ModAddr[ModFeeCol].String() // blocked account: refunded
		}
		amt := big.NewInt(int64(r.Intn(60)))
		di := r.Intn(2)
		hook := Hook{Kind: "none"}
		switch r.Intn(6) {
		case 0: // a signed hook tx of the recipient forwarding part of the deposit
			signer := uint64(1 + r.Intn(6))
			to = e.User(signer).Str
			amt = big.NewInt(int64(10 + r.Intn(50)))
			txSeq := e.AccSeq(signer)
			if r.Chance(10) {
				txSeq++
			}
			sends := []HookSend{{To: uint64(1 + r.Intn(6)), Denom: sc.L2Denoms[di], Amt: big.NewInt(int64(1 + r.Intn(12)))}}
			if r.Chance(30) {
				sends = append(sends, HookSend{To: uint64(1 + r.Intn(6)), Denom: sc.L2Denoms[di], Amt: big.NewInt(int64(1 + r.Intn(70)))})
			}
			hook = e.MakeHookTx(signer, txSeq, !r.Chance(10), sends)
		case 1:
			if r.Chance(30) {
				hook = Hook{Kind: "garbage", Raw: []byte{1, 2, 3}}
			}
		}
		return gop{Op: sc.Deposit(sender, seq, to, di, amt, hook)}
	case 1: // withdrawal
		u := e.User(uint64(1 + r.Intn(6)))
		d := c.Track.Denoms[r.Intn(len(c.Track.Denoms))]
		return gop{Op: L2Op{Kind: "withdraw", Sender: u.Str, To: sc.L1Addrs[r.Intn(len(sc.L1Addrs))], Denom: d, Amt: big.NewInt(int64(1 + r.Intn(30)))}}
	case 2: // transfer
		from, to := uint64(1+r.Intn(6)), uint64(1+r.Intn(6))
		d := c.Track.Denoms[r.Intn(len(c.Track.Denoms))]
		return gop{Op: L2Op{Kind: "send", FromID: from, ToID: to, Denom: d, Amt: big.NewInt(int64(1 + r.Intn(30)))}}
	case 3: // params
		ps, _ := e.K.GetParams(e.Ctx)
		np := &L2Params{Admin: ps.Admin, MaxV: uint64(1 + r.Intn(5)), Hist: uint64(r.Intn(4)), MinGas: c.Params.MinGas, Whitelist: []string{}, HookGas: ps.HookMaxGas}
		// boundary values of every field
		switch r.Intn(4) {
		case 0:
			np.HookGas = []uint64{0, 1, 1000000, 1 << 62}[r.Intn(4)]
		case 1:
			np.HookGas = 0
		}
		if r.Chance(30) { // MaxValidators = the current number of stored validators (0 is invalid)
			vs, _ := e.K.GetAllValidators(e.Ctx)
			np.MaxV = uint64(len(vs))
		}
		if r.Chance(20) {
			np.Hist = 0
		}
		switch r.Intn(5) {
		case 0:
			np.MinGas = []GasPrice{}
		case 1: // several entries (sorted by denom), one a tiny fraction
			np.MinGas = []GasPrice{{"unative", big.NewInt(1)}, {"uusdc", big.NewInt(150000000000000000)}}
		case 2:
			np.MinGas = []GasPrice{{"aaa", big.NewInt(2500000000000000000)}, {"unative", big.NewInt(3)}, {"zzz", new(big.Int).Exp(big.NewInt(10), big.NewInt(30), nil)}}
		}
		if r.Chance(30) {
			np.Admin = e.User(uint64(1 + r.Intn(6))).Str
		}
		switch r.Intn(4) {
		case 0:
			np.Whitelist = []string{e.User(uint64(1 + r.Intn(6))).Str}
		case 1:
			np.Whitelist = []string{e.User(1).Str, e.User(4).Str, e.User(6).Str}
		}
		n := 1 + r.Intn(3)
		for j := 0; j < n; j++ {
			np.Execs = append(np.Execs, e.User(uint64(1+r.Intn(6))).Str)
		}
		auth := sc.SenderString(r.Weighted([]int{8, 0, 8, 80, 4, 0}))
		sc.register(auth)
		return gop{Op: L2Op{Kind: "params", Sender: auth, Params: np}}
	case 4: // add validator
		auth := sc.SenderString(r.Weighted([]int{5, 0, 5, 88, 2, 0}))
		sc.register(auth)
		return gop{Op: L2Op{Kind: "addval", Sender: auth, OpID: uint64(1 + r.Intn(5)), KeyID: uint64(1 + r.Intn(5))}}
	case 5: // remove validator
		auth := sc.SenderString(r.Weighted([]int{5, 0, 5, 88, 2, 0}))
		sc.register(auth)
		return gop{Op: L2Op{Kind: "rmval", Sender: auth, OpID: uint64(1 + r.Intn(5))}}
	case 6:
		return gop{End: true}
	default: // bridge info
		cfg := ophosttypes.BridgeConfig{Challenger: "chal", Proposer: "prop", BatchInfo: ophosttypes.BatchInfo{Submitter: "sub", ChainType: ophosttypes.BatchInfo_ChainType(1 + r.Intn(2))},
			SubmissionInterval: time.Second, FinalizationPeriod: time.Duration(1+r.Intn(5)) * time.Second, SubmissionStartHeight: 1, OracleEnabled: r.Bool(), Metadata: r.Bytes(r.Intn(4))}
		if r.Chance(10) {
			cfg.Proposer = ""
		}
		id := binfoID
		if r.Chance(10) {
			id = binfoID + 1
		}
		client := []string{"", "07-tendermint-0", "07-tendermint-1"}[r.Intn(3)]
		sender := sc.SenderString(r.Weighted([]int{85, 5, 10, 0, 0, 0}))
		sc.register(sender)
		return gop{Op: L2Op{Kind: "setinfo", Sender: sender, Info: mkBInfo(id, "init1bridgeaddr", "l1chain", client, cfg)}}
	}
}

type bonded struct {
	key   uint64
	power int64
}

func runC16L2(seed uint64, id int, histLen, probeLen int, boundary, manyVals, bigPairs bool, rep *Report) (string, bool) {
	sc := NewL2Scenario(seed, id, false)
	e := sc.Env
	c := sc.Case
	var ops []gop
	do := func(g gop) (ExecResult, []abci.ValidatorUpdate) {
		if g.End {
			r, ups := e.endBlock()
			if r.OK {
				rep.Hist("endblock:OK")
			} else {
				rep.Hist("endblock:ERR")
			}
			return r, ups
		}
		r := e.L2Exec(g.Op)
		if g.Op.Kind == "fdep" && g.Op.Hook.Kind != "none" {
			rep.Hist("fdep-with-hook-data")
		}
		if r.OK {
			rep.Hist(g.Op.Kind + ":OK")
		} else {
			rep.Hist(g.Op.Kind + ":ERR")
		}
		return r, nil
	}
	var bigDenoms []string
	if bigPairs { // more than 100 denom pairs: one-unit deposits of distinct denoms, in order
		nd := 101 + sc.R.Intn(25)
		for i := 0; i < nd; i++ {
			n1, _ := e.K.GetNextL1Sequence(e.Ctx)
			d := fmt.Sprintf("l2/%064x", 1000+i)
			bigDenoms = append(bigDenoms, d)
			sc.register(e.User(1).Str, e.User(4).Str)
			g := gop{Op: L2Op{Kind: "fdep", Sender: e.User(1).Str, From: sc.L1Addrs[0], To: e.User(4).Str, Denom: d, Base: fmt.Sprintf("base%03d", i),
				Amt: big.NewInt(1), Seq: n1, Height: 7, Hook: Hook{Kind: "none"}}}
			do(g)
			ops = append(ops, g)
		}
		rep.Hist("l2-state:big-collections-case")
	}
	if manyVals { // 3..5 bonded validators: the order of the initial updates matters
		np := &L2Params{Admin: c.Params.Admin, Execs: c.Params.Execs, MaxV: 5, Hist: c.Params.Hist, MinGas: c.Params.MinGas, Whitelist: []string{}, HookGas: c.Params.HookGas}
		pre := []gop{{Op: L2Op{Kind: "params", Sender: e.Auth, Params: np}}}
		nv := 3 + sc.R.Intn(3)
		perm := []uint64{3, 1, 5, 2, 4}
		for i := 0; i < nv; i++ {
			pre = append(pre, gop{Op: L2Op{Kind: "addval", Sender: e.Auth, OpID: perm[i], KeyID: perm[(i+2)%5]}})
		}
		pre = append(pre, gop{End: true})
		sc.register(e.Auth)
		for _, g := range pre {
			do(g)
			ops = append(ops, g)
		}
	}
	for i := 0; i < histLen; i++ {
		g := sc.c16Step(sc.BridgeID)
		do(g)
		ops = append(ops, g)
	}
	// most cases end at a block boundary; the others are exported in the middle of a block
	// (validators added or removed but not yet processed by the EndBlocker)
	if boundary {
		do(gop{End: true})
		ops = append(ops, gop{End: true})
		rep.Hist("l2-state:block-boundary")
	} else {
		rep.Hist("l2-state:mid-block")
		if id%2 == 0 { // export directly after accepted AddValidator(s) and a RemoveValidator of a bonded one
			ps, _ := e.K.GetParams(e.Ctx)
			vs, _ := e.K.GetAllValidators(e.Ctx)
			if int(ps.MaxValidators) < len(vs)+2 {
				ps2 := &L2Params{Admin: ps.Admin, Execs: ps.BridgeExecutors, MaxV: uint64(len(vs) + 2), Hist: uint64(ps.HistoricalEntries), MinGas: c.Params.MinGas, Whitelist: []string{}, HookGas: ps.HookMaxGas}
				g := gop{Op: L2Op{Kind: "params", Sender: e.Auth, Params: ps2}}
				sc.register(e.Auth)
				do(g)
				ops = append(ops, g)
			}
			usedOp, usedKey := map[uint64]bool{}, map[uint64]bool{}
			var bondedOp uint64
			for _, v := range vs {
				va, _ := sdk.ValAddressFromBech32(v.OperatorAddress)
				pk, _ := v.ConsPubKey()
				usedOp[e.opID(va)] = true
				usedKey[e.keyIDOfBytes(pk.Bytes())] = true
				if lp, err := e.K.GetLastValidatorPower(e.Ctx, va); err == nil && lp > 0 && v.ConsPower > 0 {
					bondedOp = e.opID(va)
				}
			}
			added := 0
			want := 1 + sc.R.Intn(2)
			for o := uint64(1); o <= 5 && added < want; o++ {
				if usedOp[o] {
					continue
				}
				for k := uint64(1); k <= 5; k++ {
					if !usedKey[k] {
						g := gop{Op: L2Op{Kind: "addval", Sender: e.Auth, OpID: o, KeyID: k}}
						sc.register(e.Auth)
						if r, _ := do(g); r.OK {
							added++
							usedKey[k] = true
						}
						ops = append(ops, g)
						break
					}
				}
			}
			if bondedOp != 0 {
				g := gop{Op: L2Op{Kind: "rmval", Sender: e.Auth, OpID: bondedOp}}
				do(g)
				ops = append(ops, g)
				rep.Hist("l2-state:exported-after-remove")
			}
			if added > 0 {
				rep.Hist("l2-state:exported-after-accepted-add")
			}
		}
	}
	internOff = true
	hist := make([]string, len(ops))
	for i, o := range ops {
		hist[i] = o.Coq()
	}
	internOff = false
	viol := func(step int, sig, what string, detail interface{}) {
		rep.Violate(Violation{Case: id, Step: step, What: what, Sig: sig, Ops: hist, Detail: detail})
	}
	gs := e.K.ExportGenesis(e.Ctx)
	exp := e.genesis2Ov(gs)
	nontrivial := len(gs.Validators) > 0 && gs.NextL1Sequence > 1
	rep.Hist(fmt.Sprintf("l2-state:validators=%d", len(gs.Validators)))
	rep.Hist(fmt.Sprintf("l2-state:bonded=%d", len(gs.LastValidatorPowers)))
	rep.Hist(fmt.Sprintf("l2-state:refunds=%d", bucket(int(gs.NextL2Sequence-1))))
	if gs.BridgeInfo != nil {
		rep.Hist("l2-state:bridge-info")
	}
	rep.Hist(fmt.Sprintf("l2-state:hook-max-gas=%d", gs.Params.HookMaxGas))
	rep.Hist(fmt.Sprintf("l2-state:min-gas-entries=%d", len(gs.Params.MinGasPrices)))
	rep.Hist(fmt.Sprintf("l2-state:whitelist=%d", len(gs.Params.FeeWhitelist)))
	// expected initial updates: the bonded set of the ORIGINAL instance with its last powers
	var want []bonded
	err := e.K.IterateLastValidatorPowers(e.Ctx, func(op []byte, power int64) (bool, error) {
		v, found := e.K.GetValidator(e.Ctx, op)
		if !found {
			return true, fmt.Errorf("last power without validator")
		}
		pk, err := v.ConsPubKey()
		if err != nil {
			return true, err
		}
		want = append(want, bonded{e.keyIDOfBytes(pk.Bytes()), power})
		return false, nil
	})
	if err != nil {
		viol(len(ops), "C16:l2-bonded-set", "the original instance's bonded set cannot be read: "+err.Error(), nil)
	}
	var wantOv []Ov
	for _, b := range want {
		wantOv = append(wantOv, ol(onU(b.key), ozI(b.power)))
	}
	caseText := func(upsOv Ov) string {
		c.Ops = nil
		base := c.Coq()
		// base is "(id, {| ... c_ops := [] |}, [])": turn it into an l2gcase
		i := strings.LastIndex(base, ",\n [")
		rec := base[strings.Index(base, "{|"):i]
		opsS := make([]string, len(ops))
		for k, o := range ops {
			opsS[k] = o.Coq()
		}
		obs := []string{exp.Coq(), obool(true).Coq(), ol(exp, upsOv, obool(true)).Coq()}
		return fmt.Sprintf("(%d%%N,\n {| G2.q_base := %s;\n    G2.q_ops := [\n      %s] |},\n [\n  %s])", id, rec, strings.Join(opsS, ";\n      "), strings.Join(obs, ";\n  "))
	}
	json1, err := e.Enc.Marshaler.MarshalJSON(gs)
	if err != nil {
		viol(len(ops), "C16:l2-export-marshal", "exported genesis does not marshal: "+err.Error(), nil)
		return caseText(OL{wantOv}), nontrivial
	}
	if err := opchildtypes.ValidateGenesis(gs, e.AK.AddressCodec()); err != nil {
		viol(len(ops), "C16:l2-validate", "ValidateGenesis rejects the exported genesis of a reached state: "+err.Error(), string(json1))
		return caseText(OL{wantOv}), nontrivial
	}
	var gs2 opchildtypes.GenesisState
	if err := e.Enc.Marshaler.UnmarshalJSON(json1, &gs2); err != nil {
		viol(len(ops), "C16:l2-unmarshal", "exported genesis JSON does not unmarshal: "+err.Error(), string(json1))
		return caseText(OL{wantOv}), nontrivial
	}
	e3 := NewL2Env(seed, 6, false)
	e3.Table = e.Table
	copyL2Foreign(e, e3)
	var ups []abci.ValidatorUpdate
	panicked := func() (p interface{}) {
		defer func() { p = recover() }()
		ups = e3.K.InitGenesis(e3.Ctx, &gs2)
		return nil
	}()
	if panicked != nil {
		viol(len(ops), "C16:l2-init-panics", fmt.Sprintf("InitGenesis panics on the exported genesis: %v", panicked), string(json1))
		return caseText(OL{wantOv}), nontrivial
	}
	upsOv := e3.updatesOv(ups)
	// monitor: initial updates == bonded set with last powers (as sets and in table order)
	got := upsOv.Coq()
	if got != (OL{wantOv}).Coq() {
		internOff = true
		d := map[string]string{"returned": e3.updatesOv(ups).Coq(), "bonded": (OL{wantOv}).Coq()}
		internOff = false
		what := "the validator updates returned by InitGenesis are not the bonded set with its last powers"
		a, b := []string{}, []string{}
		for _, x := range upsOv.(OL).V {
			a = append(a, x.Coq())
		}
		for _, x := range wantOv {
			b = append(b, x.Coq())
		}
		sort.Strings(a)
		sort.Strings(b)
		if strings.Join(a, ";") == strings.Join(b, ";") {
			what = "the validator updates returned by InitGenesis are the bonded set but NOT in the order of the last-power table (store order)"
		}
		viol(len(ops), "C16:l2-initial-updates", what, d)
	}
	json2, err := e3.Enc.Marshaler.MarshalJSON(e3.K.ExportGenesis(e3.Ctx))
	if err != nil || !bytes.Equal(json1, json2) {
		viol(len(ops), "C16:l2-reexport-differs", "export after import differs from the first export", map[string]string{"first": string(json1), "second": string(json2)})
	}
	// probes on both instances: first what the validator queries answer, then a fixed sequence
	// (EndBlocker; add / remove attempts re-using every operator and key of the universe;
	// EndBlocker), then random steps.  After every probe: result, L2Obs, EndBlocker updates,
	// the validator queries and the exported genesis of both instances must agree.
	if v1, v2 := e.valView(), e3.valView(); v1 != v2 {
		viol(len(ops), "C16:l2-probe-differs", "the stored collections read entry by entry (validators, key index, last powers, denom pairs, sequences, params, bridge info) of the re-imported instance differ from the original's: "+firstDiff(v1, v2),
			map[string]string{"original": v1, "reimported": v2})
	} else {
		sc.register(e.Auth)
		fixed := []gop{{End: true}}
		for _, i := range []int{0, 99, 100, len(bigDenoms) - 1} { // follow-up withdrawals in denoms beyond the first page
			if i >= 0 && i < len(bigDenoms) {
				fixed = append(fixed, gop{Op: L2Op{Kind: "withdraw", Sender: e.User(4).Str, To: sc.L1Addrs[0], Denom: bigDenoms[i], Amt: big.NewInt(1)}})
			}
		}
		for i := uint64(1); i <= 5; i++ {
			fixed = append(fixed, gop{Op: L2Op{Kind: "addval", Sender: e.Auth, OpID: i, KeyID: 1 + (i+1)%5}})
		}
		for i := uint64(1); i <= 5; i++ {
			fixed = append(fixed, gop{Op: L2Op{Kind: "addval", Sender: e.Auth, OpID: 1 + (i+2)%5, KeyID: i}})
		}
		fixed = append(fixed, gop{End: true})
		for i := uint64(1); i <= 5; i++ {
			fixed = append(fixed, gop{Op: L2Op{Kind: "rmval", Sender: e.Auth, OpID: i}})
		}
		fixed = append(fixed, gop{End: true})
		for i := 0; i < len(fixed)+probeLen; i++ {
			var g gop
			if i < len(fixed) {
				g = fixed[i]
			} else {
				g = sc.c16Step(sc.BridgeID) // generated against the original (live) instance
			}
			r1, u1 := do(g)
			var r2 ExecResult
			var u2 []abci.ValidatorUpdate
			if g.End {
				r2, u2 = e3.endBlock()
			} else {
				r2 = e3.L2Exec(g.Op)
			}
			o1 := e.L2Obs(c.Track, r1).Coq() + e.updatesOv(u1).Coq() + e.valView()
			o2 := e3.L2Obs(c.Track, r2).Coq() + e3.updatesOv(u2).Coq() + e3.valView()
			j1, _ := e.Enc.Marshaler.MarshalJSON(e.K.ExportGenesis(e.Ctx))
			j2, _ := e3.Enc.Marshaler.MarshalJSON(e3.K.ExportGenesis(e3.Ctx))
			if o1 != o2 || !bytes.Equal(j1, j2) {
				internOff = true
				d := map[string]string{"probe": g.Coq(), "original": e.L2Obs(c.Track, r1).Coq() + e.updatesOv(u1).Coq() + e.valView(),
					"reimported": e3.L2Obs(c.Track, r2).Coq() + e3.updatesOv(u2).Coq() + e3.valView(),
					"err1": r1.Err, "err2": r2.Err, "genesis1": string(j1), "genesis2": string(j2)}
				internOff = false
				viol(len(ops)+i, "C16:l2-probe-differs", "a probe message / EndBlocker / validator query is answered differently by the re-imported instance", d)
				break
			}
		}
	}
	rep.Ops += len(ops) + probeLen + 18
	return caseText(upsOv), nontrivial
}

const gen2CaseHeader = `Require Import Model.Bytes Model.Obs Model.Bank Model.Valset Model.L2 Model.TraceL2 Model.TraceGen.
From Coq Require Import List NArith ZArith String.
Import ListNotations.
Local Open Scope string_scope.
`

func genC16L2(seed uint64, tier, outdir string) *Report {
	rep := NewReport("C16", seed, tier)
	rep.Rule = "a case is one random L2 schedule (messages and EndBlockers) ending at a block boundary, followed by export / validate / import into fresh stores / re-export and a probe schedule on both instances; distinct by hash of the op list; non-trivial = the exported state has at least one validator and at least one processed deposit"
	n, histLen, probeLen := 40, 60, 25
	if tier == "thorough" {
		n, histLen, probeLen = 600, 100, 40
	}
	var texts []string
	for k := 0; k < n; k++ {
		id := k + 1
		hl := histLen
		if k%8 == 7 {
			hl = 6
		}
		many := k%4 == 1
		if many && hl > 20 {
			hl = 20 // keep the validators of the prefix until the export
		}
		text, nt := runC16L2(seed*100019+uint64(k), id, hl, probeLen, k%3 != 2, many, false, rep)
		rep.CountCase(text, nt)
		if k == 0 {
			rep.Sample(map[string]interface{}{"kind": "random L2 schedule, then export/validate/import/export + probes (case text, truncated)", "case": text[:min(len(text), 1500)]})
		}
		texts = append(texts, text)
	}
	writeShards(outdir, "C16L2", gen2CaseHeader, "G2.run_gen2", "G2.l2gcase", texts, 12, rep)
	// collections larger than a default page (denom pairs): one scripted case in its own file
	bigText, nt := runC16L2(seed*100019+900000, n+1, 10, 10, true, false, true, rep)
	rep.CountCase(bigText, nt)
	writeShards(outdir, "C16L2big", gen2CaseHeader, "G2.run_gen2", "G2.l2gcase", []string{bigText}, 1, rep)
	return rep
}

var _ = sort.Strings
