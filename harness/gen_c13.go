package main

import (
	"fmt"
	"strings"
)

// C13: the L2 validator set in state always equals what the consensus engine was told.
// Streams (all through the real MsgServer, opchild.BeginBlocker / EndBlocker, InitGenesis, and
// the real CometBFT ValidatorSet.UpdateWithChangeSet):
//  (a) exhaustive: every sequence of bounded length over a small alphabet of add / remove /
//      UpdateParams operations and the block boundary (= all groupings into blocks), from
//      several geneses;
//  (b) random: longer histories over 5 operators / 5 keys from random valid geneses (plain and
//      exported), with max-validators and retention changes;
//  (c) geneses that ValidateGenesis must reject, and odd but accepted ones;
//  (d) batches given directly to the engine (validates the model's engine_apply);
//  (e) the replay of known finding D7 (HistoricalEntries = 0 never prunes).

func init() { register("C13", genC13) }

type valSym struct {
	Boundary bool
	Op       TVOp
}

func vAdd(op, key uint64) valSym { return valSym{Op: TVOp{Kind: "add", Op: op, Key: key}} }
func vRm(op uint64) valSym       { return valSym{Op: TVOp{Kind: "rm", Op: op}} }
func vPar(m, e uint64) valSym    { return valSym{Op: TVOp{Kind: "params", MaxV: m, Entries: e}} }
func vBoundary() valSym          { return valSym{Boundary: true} }
func genesisOf(maxv, entries uint64, vals ...VRec) ValGenesis {
	return ValGenesis{Vals: vals, MaxV: maxv, Entries: entries}
}

// runSymbols executes one symbol sequence as blocks at consecutive heights h0+1, h0+2, ...
func runSymbols(r *ValRun, h0 int64, syms []valSym) {
	h := h0 + 1
	r.Do(TVOp{Kind: "begin", H: h})
	for _, s := range syms {
		if s.Boundary {
			r.Do(TVOp{Kind: "end", H: h})
			h++
			r.Do(TVOp{Kind: "begin", H: h})
		} else {
			r.Do(s.Op)
		}
	}
	r.Do(TVOp{Kind: "end", H: h})
}

type valStream struct {
	rep    *Report
	ve     *ValEnv
	texts  []string
	caseID int
	plans  map[string]int
}

// finish runs the monitors, counts and (optionally) emits the case for the model
func (st *valStream) finish(r *ValRun, emit bool, sampleKind string) valMonResult {
	res := monitorVal(st.rep, r)
	st.rep.Ops += len(r.Ops)
	succ, rej := false, false
	for i, o := range r.Ops {
		if o.Kind == "add" || o.Kind == "rm" || o.Kind == "params" || o.Kind == "register" {
			if r.Snaps[i+1].Verdict == "OK" {
				succ = true
			} else {
				rej = true
			}
		}
	}
	st.rep.CountCase(r.Canon(), succ && rej)
	if sampleKind != "" {
		st.rep.Sample(map[string]interface{}{"kind": sampleKind, "history": r.History(len(r.Ops))})
	}
	if emit {
		st.texts = append(st.texts, r.Coq())
	}
	return res
}

func (st *valStream) exhaustive(g ValGenesis, alphabet []valSym, depth int, nOps, nKeys int, emitEvery int) int {
	n := len(alphabet)
	total := 1
	for i := 0; i < depth; i++ {
		total *= n
	}
	for idx := 0; idx < total; idx++ {
		st.caseID++
		syms := make([]valSym, depth)
		x := idx
		for d := 0; d < depth; d++ {
			syms[d] = alphabet[x%n]
			x /= n
		}
		r := st.ve.Start(st.caseID, g, nOps, nKeys)
		if r.Dead() {
			panic("exhaustive genesis rejected: " + r.Snaps[0].Err)
		}
		runSymbols(r, 0, syms)
		kind := ""
		if idx == total/3 {
			kind = "exhaustive sequence"
		}
		st.finish(r, idx%emitEvery == 0, kind)
	}
	return total
}

// random valid genesis over nOps operators / nKeys keys
func randGenesis(rg *Rng, nOps, nKeys int) ValGenesis {
	g := ValGenesis{MaxV: uint64(1 + rg.Intn(4)), Entries: uint64([]int{0, 1, 1, 2, 2, 3, 5}[rg.Intn(7)])}
	n := rg.Intn(int(g.MaxV) + 1)
	if n > 3 {
		n = 3
	}
	ops, keys := rg.perm(nOps), rg.perm(nKeys)
	for i := 0; i < n; i++ {
		p := int64(1)
		if rg.Chance(25) {
			p = int64(1 + rg.Intn(6))
		}
		g.Vals = append(g.Vals, VRec{uint64(ops[i] + 1), uint64(keys[i] + 1), p})
	}
	if rg.Chance(30) {
		// as ExportGenesis writes it: last powers = the validators' powers, in store order
		g.Exported = true
		for op := 1; op <= nOps; op++ {
			for _, v := range g.Vals {
				if v.Op == uint64(op) {
					g.Last = append(g.Last, OpPow{v.Op, v.Pow})
				}
			}
		}
	}
	if g.Exported && rg.Chance(45) {
		// an edited export: last powers differing up or down from the validators' powers, a
		// validator without a last-power entry, a stored validator with power 0 that was bonded
		for i := range g.Last {
			switch rg.Intn(4) {
			case 0:
				g.Last[i].Pow = int64(1 + rg.Intn(5))
			case 1:
				for j := range g.Vals {
					if g.Vals[j].Op == g.Last[i].Op && rg.Chance(50) {
						g.Vals[j].Pow = int64(rg.Intn(6)) // 0 = removed by the first end blocker
					}
				}
			}
		}
		if len(g.Last) > 1 && rg.Chance(30) {
			g.Last = g.Last[1:]
		}
	}
	return g
}

func (r *Rng) perm(n int) []int {
	p := make([]int, n)
	for i := range p {
		p[i] = i
	}
	for i := n - 1; i > 0; i-- {
		j := r.Intn(i + 1)
		p[i], p[j] = p[j], p[i]
	}
	return p
}

// the C14 stream keeps HistoricalEntries >= 1 (retention 0 is C13's known finding D7)
var valNoZeroEntries bool

// one random operation against the live state
func randValOp(rg *Rng, r *ValRun, nOps, nKeys int, keepNonEmpty bool) TVOp {
	cur := r.Snaps[len(r.Snaps)-1]
	used := map[uint64]bool{}
	usedKey := map[uint64]bool{}
	positive := 0
	for _, v := range cur.Vals {
		used[v.Op] = true
		usedKey[v.Key] = true
		if v.Pow > 0 {
			positive++
		}
	}
	switch rg.Weighted([]int{45, 35, 20}) {
	case 0:
		op, key := uint64(1+rg.Intn(nOps)), uint64(1+rg.Intn(nKeys))
		if rg.Chance(70) { // prefer a free operator and a free key
			for t := 0; t < 6 && used[op]; t++ {
				op = uint64(1 + rg.Intn(nOps))
			}
			for t := 0; t < 6 && usedKey[key]; t++ {
				key = uint64(1 + rg.Intn(nKeys))
			}
		}
		return TVOp{Kind: "add", Op: op, Key: key}
	case 1:
		op := uint64(1 + rg.Intn(nOps))
		if len(cur.Vals) > 0 && rg.Chance(85) {
			op = cur.Vals[rg.Intn(len(cur.Vals))].Op
		}
		if keepNonEmpty && positive <= 1 {
			for _, v := range cur.Vals {
				if v.Op == op && v.Pow > 0 {
					return TVOp{Kind: "add", Op: uint64(1 + rg.Intn(nOps)), Key: uint64(1 + rg.Intn(nKeys))}
				}
			}
		}
		return TVOp{Kind: "rm", Op: op}
	default:
		m := uint64(rg.Intn(5))
		if rg.Chance(50) {
			m = uint64(len(cur.Vals) + rg.Intn(2))
		}
		e := uint64([]int{0, 1, 1, 2, 2, 3, 4}[rg.Intn(7)])
		if rg.Chance(50) {
			e = cur.Entries
		}
		if valNoZeroEntries && e == 0 {
			e = 1
		}
		return TVOp{Kind: "params", MaxV: m, Entries: e}
	}
}

func genC13(seed uint64, tier string, outdir string) *Report {
	rep := NewReport("C13", seed, tier)
	rep.Rule = "a case is one genesis plus one history of blocks run on a fresh branch; distinct by hash of genesis + operation list; non-trivial = at least one add/remove/params message succeeded and at least one was rejected"
	st := &valStream{rep: rep, ve: NewValEnv(seed)}
	thorough := tier == "thorough"

	// (a) exhaustive
	small := []valSym{vAdd(1, 1), vAdd(2, 2), vAdd(2, 1), vAdd(1, 2), vRm(1), vRm(2), vPar(1, 2), vBoundary()}
	wide := []valSym{}
	for o := uint64(1); o <= 3; o++ {
		for k := uint64(1); k <= 4; k++ {
			wide = append(wide, vAdd(o, k))
		}
	}
	wide = append(wide, vRm(1), vRm(2), vRm(3), vPar(2, 1), vPar(3, 0), vBoundary())
	deep := []valSym{vAdd(1, 1), vAdd(2, 2), vAdd(3, 1), vRm(1), vRm(2), vBoundary()}
	g0 := genesisOf(2, 2)
	g1 := genesisOf(2, 1, VRec{1, 1, 1})
	g2 := genesisOf(3, 2, VRec{2, 3, 1}, VRec{3, 2, 1})
	if !thorough {
		n := st.exhaustive(g0, small, 3, 2, 2, 1)
		n += st.exhaustive(g1, small, 3, 2, 2, 1)
		n += st.exhaustive(g2, deep, 4, 3, 3, 3)
		rep.Notes = append(rep.Notes, fmt.Sprintf("exhaustive: %d sequences (all of length 3 over 8 symbols incl. the block boundary from 2 geneses; all of length 4 over 6 symbols from a 2-validator genesis)", n))
	} else {
		n := st.exhaustive(g0, small, 4, 2, 2, 2)
		n += st.exhaustive(g1, small, 4, 2, 2, 2)
		n += st.exhaustive(g0, wide, 3, 3, 4, 3)
		n += st.exhaustive(g2, wide, 3, 3, 4, 3)
		n += st.exhaustive(g1, deep, 6, 3, 3, 20)
		n += st.exhaustive(g2, deep, 6, 3, 3, 20)
		rep.Notes = append(rep.Notes, fmt.Sprintf("exhaustive: %d sequences (length 4 over 8 symbols x 2 geneses; length 3 over 18 symbols (3 operators x 4 keys) x 2 geneses; length 6 over 6 symbols x 2 geneses; monitors on all, model on a fixed sample of the deepest)", n))
	}
	rep.Exhaustive = true

	// (b) random
	nRandom, nBlocks := 150, 6
	if thorough {
		nRandom, nBlocks = 3000, 10
	}
	for k := 0; k < nRandom; k++ {
		st.caseID++
		rg := NewRng(seed*1000003 + uint64(k))
		g := randGenesis(rg, 5, 5)
		r := st.ve.Start(st.caseID, g, 5, 5)
		if r.Dead() {
			rep.Violate(Violation{Case: st.caseID, Step: 0, What: "valid genesis rejected: " + r.Snaps[0].Err, Sig: "C13:valid-genesis-rejected", Ops: []string{g.String()}})
			continue
		}
		keep := !rg.Chance(10)
		h := int64(rg.Intn(3))
		for b := 0; b < 1+rg.Intn(nBlocks); b++ {
			h++
			if rg.Chance(10) { // the block pre-executed on a discarded branch: no effect
				r.Do(TVOp{Kind: "dryblock", H: h})
			}
			r.Do(TVOp{Kind: "begin", H: h})
			for j := rg.Intn(5); j > 0; j-- {
				r.Do(randValOp(rg, r, 5, 5, keep))
			}
			r.Do(TVOp{Kind: "end", H: h})
		}
		kind := ""
		if k == 1 {
			kind = "random history"
		}
		st.finish(r, true, kind)
	}

	// (c) geneses
	type gcase struct {
		g     ValGenesis
		valid bool
		why   string
	}
	gcs := []gcase{
		{genesisOf(3, 2, VRec{1, 1, 1}, VRec{2, 1, 1}), false, "consensus key twice"},
		{genesisOf(2, 2, VRec{1, 1, 1}, VRec{2, 2, 1}, VRec{3, 3, 1}), false, "more validators than MaxValidators (D6)"},
		{genesisOf(1, 2, VRec{1, 1, 1}, VRec{2, 2, 1}), false, "more validators than MaxValidators (D6)"},
		{genesisOf(0, 2), false, "MaxValidators = 0"},
		{genesisOf(3, 2, VRec{1, 1, 1}, VRec{1, 2, 1}), false, "operator address twice (repaired by 14a7cf8)"},
		{genesisOf(3, 2, VRec{2, 3, 1}, VRec{1, 1, 1}, VRec{2, 2, 1}), false, "operator address twice (repaired by 14a7cf8)"},
		{genesisOf(1, 2, VRec{1, 1, 0}, VRec{2, 2, 1}), false, "powerless entries count towards MaxValidators"},
		{genesisOf(3, 2, VRec{1, 1, 0}, VRec{2, 1, 0}), false, "consensus key twice, both entries powerless"},
		{genesisOf(3, 2, VRec{1, 1, 1}, VRec{2, 2, 1}, VRec{3, 3, 1}), true, "exactly MaxValidators"},
		{genesisOf(3, 2, VRec{1, 1, 0}), true, "a lone zero-power validator: accepted, purged, empty set"},
		{genesisOf(3, 2, VRec{3, 2, -1}, VRec{1, 1, 0}), true, "only powerless validators: accepted, all purged"},
		{genesisOf(3, 2, VRec{1, 1, 0}, VRec{2, 2, 1}), true, "a zero-power genesis validator is purged"},
		{genesisOf(3, 2, VRec{1, 1, -3}, VRec{2, 2, 4}), true, "a negative-power genesis validator is purged"},
		{ValGenesis{Vals: []VRec{{1, 2, 1}, {3, 1, 2}}, MaxV: 2, Entries: 1, Exported: true, Last: []OpPow{{1, 1}, {3, 2}}}, true, "exported"},
		{ValGenesis{Vals: []VRec{{1, 1, 3}, {2, 2, 1}}, MaxV: 3, Entries: 2, Exported: true, Last: []OpPow{{1, 1}, {2, 1}}}, true, "edited export: power raised 1 -> 3"},
		{ValGenesis{Vals: []VRec{{1, 1, 1}, {2, 2, 2}}, MaxV: 3, Entries: 2, Exported: true, Last: []OpPow{{1, 5}, {2, 2}}}, true, "edited export: power lowered 5 -> 1"},
		{ValGenesis{Vals: []VRec{{1, 1, 2}, {2, 2, 1}}, MaxV: 3, Entries: 2, Exported: true, Last: []OpPow{{2, 1}}}, true, "edited export: a validator without last power"},
		{ValGenesis{Vals: []VRec{{1, 1, 0}, {2, 2, 4}}, MaxV: 3, Entries: 2, Exported: true, Last: []OpPow{{1, 2}, {2, 3}}}, true, "edited export: a bonded validator set to power 0, another 3 -> 4"},
		{ValGenesis{Vals: []VRec{{2, 2, 1}}, MaxV: 3, Entries: 2, Exported: true, Last: []OpPow{{1, 1}, {2, 1}}}, true, "edited export: a last power without validator (InitGenesis panics)"},
	}
	// a powerless (zero / negative power) entry sharing the consensus key (under another
	// operator) or the operator address (with another key) with a powered entry, in both list
	// orders: rejected like any other repetition - accepting it would let the purge of the
	// powerless record delete the bonded one's index entry, or leave a stale entry for ever
	for _, pw := range []int64{0, -2} {
		for _, share := range []string{"key", "operator"} {
			for order := 0; order < 2; order++ {
				a, b := VRec{1, 1, pw}, VRec{2, 1, 1}
				if share == "operator" {
					a, b = VRec{1, 1, pw}, VRec{1, 2, 1}
				}
				g := genesisOf(3, 2, a, b, VRec{3, 3, 1})
				if order == 1 {
					g = genesisOf(3, 2, VRec{3, 3, 1}, b, a)
				}
				gcs = append(gcs, gcase{g, false, fmt.Sprintf("a power %d entry repeats the %s of a powered entry", pw, share)})
			}
		}
	}
	for _, gc := range gcs {
		st.caseID++
		r := st.ve.Start(st.caseID, gc.g, 3, 3)
		rep.Hist("genesis-check:" + r.Snaps[0].Verdict)
		if strings.Contains(gc.why, "InitGenesis panics") {
			if r.Snaps[0].Verdict != "PANIC" {
				rep.Violate(Violation{Case: st.caseID, What: "InitGenesis accepted a last power without validator: " + r.Snaps[0].Verdict, Sig: "C13:invalid-genesis-accepted", Ops: []string{gc.g.String()}})
			}
		} else if gc.valid && r.Dead() {
			rep.Violate(Violation{Case: st.caseID, What: "valid genesis rejected (" + gc.why + "): " + r.Snaps[0].Err, Sig: "C13:valid-genesis-rejected", Ops: []string{gc.g.String()}})
		}
		if !gc.valid && r.Snaps[0].Verdict != "INVALID" {
			rep.Violate(Violation{Case: st.caseID, What: "ValidateGenesis accepted a genesis it must reject (" + gc.why + ")", Sig: "C13:invalid-genesis-accepted", Ops: []string{gc.g.String()}})
		}
		if !r.Dead() {
			// also for a wrongly accepted genesis: the monitors then show what goes wrong afterwards
			runSymbols(r, 0, []valSym{vAdd(3, 3), vBoundary(), vRm(2), vBoundary()})
		}
		st.finish(r, true, "")
	}
	// random invalid geneses: too many validators / a repeated key
	nInv := 20
	if thorough {
		nInv = 300
	}
	for k := 0; k < nInv; k++ {
		st.caseID++
		rg := NewRng(seed*7919 + uint64(k))
		g := randGenesis(rg, 5, 5)
		g.Exported, g.Last = false, nil
		why := ""
		if rg.Bool() || len(g.Vals) < 2 {
			g.MaxV = uint64(1 + rg.Intn(3))
			ops, keys := rg.perm(5), rg.perm(5)
			g.Vals = nil
			for i := 0; i < int(g.MaxV)+1+rg.Intn(2) && i < 5; i++ {
				g.Vals = append(g.Vals, VRec{uint64(ops[i] + 1), uint64(keys[i] + 1), 1})
			}
			why = "more validators than MaxValidators"
		} else if rg.Bool() {
			g.Vals[1].Key = g.Vals[0].Key
			why = "consensus key twice"
		} else {
			g.Vals[1].Op = g.Vals[0].Op
			why = "operator address twice"
		}
		if why != "more validators than MaxValidators" && rg.Chance(60) {
			// one (or both) of the clashing entries without power
			g.Vals[rg.Intn(2)].Pow = int64(-rg.Intn(3))
			if rg.Chance(20) {
				g.Vals[0].Pow, g.Vals[1].Pow = 0, int64(-rg.Intn(2))
			}
			why += ", a clashing entry has no power"
		}
		r := st.ve.Start(st.caseID, g, 5, 5)
		rep.Hist("genesis-check:" + r.Snaps[0].Verdict)
		if r.Snaps[0].Verdict != "INVALID" {
			rep.Violate(Violation{Case: st.caseID, What: "ValidateGenesis accepted a genesis it must reject (" + why + ")", Sig: "C13:invalid-genesis-accepted", Ops: []string{g.String()}})
			if !r.Dead() {
				runSymbols(r, 0, []valSym{vBoundary()})
			}
		}
		st.finish(r, true, "")
	}

	// (d) the engine alone
	nEng := 40
	if thorough {
		nEng = 600
	}
	pows := []int64{-1, 0, 0, 0, 1, 1, 2, 5, 1152921504606846975, 1152921504606846976, 576460752303423488}
	for k := 0; k < nEng; k++ {
		st.caseID++
		rg := NewRng(seed*104729 + uint64(k))
		r := st.ve.Start(st.caseID, genesisOf(3, 1, VRec{1, 1, 1}, VRec{2, 2, 3}), 3, 5)
		for j := 0; j < 6; j++ {
			var b []KP
			for n := rg.Intn(4); n > 0; n-- {
				b = append(b, KP{uint64(1 + rg.Intn(5)), pows[rg.Intn(len(pows))]})
			}
			s := r.Do(TVOp{Kind: "engine", Batch: b})
			rep.Hist(fmt.Sprintf("engine-batch-accepted:%v", s.Acc))
		}
		// no monitor: the engine is driven away from the state on purpose
		rep.Ops += len(r.Ops)
		rep.CountCase(r.Canon(), false)
		st.texts = append(st.texts, r.Coq())
	}

	// (e) known finding D7
	{
		st.caseID++
		r := st.ve.Start(st.caseID, genesisOf(3, 2, VRec{1, 1, 1}), 2, 2)
		runSymbols(r, 0, []valSym{vBoundary(), vBoundary(), vPar(3, 0), vBoundary(), vBoundary(), vPar(3, 1), vBoundary(), vBoundary()})
		last := r.Snaps[len(r.Snaps)-1]
		stale := len(last.Hist) > 1
		what := fmt.Sprintf("HistoricalEntries = 2 until block 3, 0 in blocks 4-5, 1 from block 6 on: after BeginBlocker 7 the stored record heights are %v (want [7])", histHeights(last))
		rep.KnownChecked = append(rep.KnownChecked, KnownResult{ID: "C13:history-retention-zero", StillFails: stale, What: what})
		st.finish(r, true, "")
	}
	writeShards(outdir, "C13", valCaseHeader, "run_valcase", "valcase", st.texts, 16, rep)
	return rep
}

func histHeights(s ValSnap) []int64 {
	out := []int64{}
	for _, h := range s.Hist {
		out = append(out, h.H)
	}
	return out
}
