package main

// Delta debugging (ddmin, Zeller & Hildebrandt) over the operation list of a failing history.
// Generic: the caller supplies a Replayer that re-executes the sub-history given by the kept
// indices (ascending positions in the original op list) on a FRESH instance and says whether the
// same failure is still observed.  The search is bounded by a number of re-executions and a wall
// clock limit; when a bound is hit the best history found so far is returned (complete = false).
// Only used after a violation was found: a clean run never calls it.

import "time"

// Replayer re-executes the history consisting of the ops at the given original positions
type Replayer func(ops []int) (stillFails bool)

type ShrinkResult struct {
	Kept     []int // positions of the minimised history
	Runs     int   // re-executions used
	Complete bool  // false: a bound was hit before 1-minimality was established
}

// DDMin minimises items (which must fail as a whole; not re-checked) with respect to test.
func DDMin(items []int, test Replayer, maxRuns int, maxTime time.Duration) ShrinkResult {
	start := time.Now()
	cur := append([]int{}, items...)
	runs := 0
	out := func() bool { return runs >= maxRuns || time.Since(start) > maxTime }
	n := 2
	for len(cur) >= 2 {
		if n > len(cur) {
			n = len(cur)
		}
		// split into n chunks of nearly equal size
		bounds := make([]int, n+1)
		for i := 0; i <= n; i++ {
			bounds[i] = i * len(cur) / n
		}
		reduced := false
		// (1) a single chunk alone - only for the two halves: a failing history nearly always needs
		// its preparatory ops, so "one small chunk alone" is a wasted re-execution at finer granularity
		if n == 2 {
			for i := 0; i < n && !reduced; i++ {
				if out() {
					return ShrinkResult{cur, runs, false}
				}
				cand := append([]int{}, cur[bounds[i]:bounds[i+1]]...)
				if len(cand) == 0 || len(cand) == len(cur) {
					continue
				}
				runs++
				if test(cand) {
					cur, n, reduced = cand, 2, true
				}
			}
		}
		// (2) the complement of a chunk
		for i := n - 1; i >= 0 && !reduced; i-- { // later chunks first: trailing ops are the likeliest noise
			if out() {
				return ShrinkResult{cur, runs, false}
			}
			cand := append(append([]int{}, cur[:bounds[i]]...), cur[bounds[i+1]:]...)
			if len(cand) == 0 || len(cand) == len(cur) {
				continue
			}
			runs++
			if test(cand) {
				cur, reduced = cand, true
				if n > 2 {
					n--
				}
			}
		}
		if !reduced {
			if n >= len(cur) {
				break // 1-minimal: no single op can be removed
			}
			n *= 2
		}
	}
	return ShrinkResult{cur, runs, true}
}
