package main

import (
	"fmt"
	"os"
	"path/filepath"
	"regexp"
	"strings"
)

// Case files for the C11 / C05 streams with TERM interning: observation subtrees (bridge views,
// balance vectors ...) and address tables repeat from step to step and from case to case;
// each distinct one is defined once per file (`Definition vK_ : ov := ...`) and referred to by
// name.  This only changes how the literal is written (Coq type-checks a 3x-10x smaller file);
// the evaluated term is the same.

type termTable struct {
	names map[string]string
	texts []string // definition bodies, in creation order (children before parents)
	types []string
}

func newTermTable() *termTable { return &termTable{names: map[string]string{}} }

func (t *termTable) intern(text, typ string) string {
	if n, ok := t.names[text]; ok {
		return n
	}
	n := fmt.Sprintf("v%d_", len(t.texts))
	t.names[text] = n
	t.texts = append(t.texts, text)
	t.types = append(t.types, typ)
	return n
}

func ovInterned(o Ov, t *termTable) string {
	if l, ok := o.(OL); ok {
		items := make([]string, len(l.V))
		for i, x := range l.V {
			items[i] = ovInterned(x, t)
		}
		txt := "OL " + coqList(items)
		if len(txt) > 40 {
			return t.intern(txt, "ov")
		}
		return txt
	}
	return o.Coq()
}

var tableRe = regexp.MustCompile(`k_table := (\[[^\n]*\]);\n`)

// l1CaseText is c.Coq() with the observation list and the address table interned.
func l1CaseText(c *L1Case, t *termTable) string {
	text := c.Coq()
	cut := strings.LastIndex(text, " |},\n [")
	if cut < 0 {
		panic("unexpected case text")
	}
	obs := make([]string, len(c.Obs))
	for i, o := range c.Obs {
		s := ovInterned(o, t)
		if !strings.HasPrefix(s, "v") {
			s = "(" + s + ")"
		}
		obs[i] = s
	}
	text = text[:cut] + " |},\n [\n  " + strings.Join(obs, ";\n  ") + "])"
	if m := tableRe.FindStringSubmatchIndex(text); m != nil {
		name := t.intern(text[m[2]:m[3]], "list (bytes * N)")
		text = text[:m[2]] + name + text[m[3]:]
	}
	return text
}

var termRe = regexp.MustCompile(`\bv[0-9]+_`)

// writeShardsTerms is writeShards plus the definitions of the interned terms each file uses.
// Files are numbered from `first`; the number of files written is returned.
func writeShardsTerms(dir, prop string, header string, runFn string, caseType string, cases []string, n int, rep *Report, t *termTable, first int) int {
	if n > len(cases) {
		n = len(cases)
	}
	if n < 1 {
		n = 1
	}
	if len(cases)/250 > n {
		n = len(cases) / 250
	}
	for k := 0; k < n; k++ {
		var body []string
		for i := k; i < len(cases); i += n {
			body = append(body, cases[i])
		}
		joined := strings.Join(body, "\n")
		used := make([]bool, len(t.texts))
		mark := func(s string) {
			for _, m := range termRe.FindAllString(s, -1) {
				var idx int
				fmt.Sscanf(m, "v%d_", &idx)
				if idx < len(used) {
					used[idx] = true
				}
			}
		}
		mark(joined)
		for i := len(t.texts) - 1; i >= 0; i-- { // parents have larger numbers than their children
			if used[i] {
				mark(t.texts[i])
			}
		}
		var defs strings.Builder
		for i, txt := range t.texts {
			if used[i] {
				fmt.Fprintf(&defs, "Definition v%d_ : %s := %s.\n", i, t.types[i], txt)
			}
		}
		name := fmt.Sprintf("cases_%s_%03d.v", prop, first+k)
		f, err := os.Create(filepath.Join(dir, name))
		if err != nil {
			panic(err)
		}
		fmt.Fprint(f, header)
		fmt.Fprint(f, internDefs(joined+"\n"+defs.String()))
		fmt.Fprint(f, defs.String())
		fmt.Fprintf(f, "Definition cases : list (N * %s * list ov) := [\n", caseType)
		for i, c := range body {
			if i > 0 {
				fmt.Fprint(f, ";\n")
			}
			fmt.Fprint(f, c)
		}
		fmt.Fprintf(f, "].\nDefinition M := Eval vm_compute in firstn 4 (check_all %s cases).\nPrint M.\n", runFn)
		f.Close()
		rep.Shards = append(rep.Shards, name)
	}
	return n
}
