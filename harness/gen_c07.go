package main

import (
	"fmt"
	"math/big"
	"strings"
	"unicode/utf8"

	storetypes "cosmossdk.io/store/types"
	codectypes "github.com/cosmos/cosmos-sdk/codec/types"
	sdk "github.com/cosmos/cosmos-sdk/types"
	txtypes "github.com/cosmos/cosmos-sdk/types/tx"
	authtypes "github.com/cosmos/cosmos-sdk/x/auth/types"
	banktypes "github.com/cosmos/cosmos-sdk/x/bank/types"

	ophosttypes "github.com/initia-labs/OPinit/x/ophost/types"
)

// C07: a deposit can neither be lost nor block the bridge; hooks are contained.
//
// Stream = fault enumeration.  For every deposit shape
//   {valid / malformed / module / blocked recipient} x {0, 1, large amount} x
//   {no payload, undecodable bytes, badly signed tx, tx failing at message 1, at message 2,
//    out-of-gas loop, succeeding transfer, succeeding withdrawal, withdrawal then failing message}
// on three base states (denom new / denom registered / denom with bank metadata but no pair;
// recipient account new / existing)
// the deposit is first run with the fault plan in record mode, then once per recorded
// bank / account keeper call x {error, panic}, each run on a fresh branch of the base state.
// The no-fault runs are also replayed by the Coq model (except the out-of-gas shape: gas is
// not modelled).  Every run is judged by the model-free two-outcome monitor below.

func init() { register("C07", genC07) }

// which recorded keeper calls are inside a guarded region of the handler
func c07Guarded(call string) bool {
	switch call {
	case "MintCoins", "SendCoinsFromModuleToAccount", "SendCoins":
		return true
	}
	// keeper calls made by a hook's own withdrawal message run inside handleBridgeHook's cache + recover
	return strings.HasPrefix(call, "hook:")
}

// known finding D11: one signature per unguarded call-site class
func c07SiteClass(call string) string {
	switch call {
	case "HasAccount", "NewAccountWithAddress", "SetAccount":
		return "account-creation"
	case "HasDenomMetaData", "SetDenomMetaData":
		return "denom-metadata"
	case "SendCoinsFromAccountToModule":
		return "reclaim"
	case "BurnCoins":
		return "burn"
	}
	return "other:" + call
}

var c07Classes = []string{"account-creation", "denom-metadata", "reclaim", "burn"}

type c07Shape struct {
	Rcp     string // valid | malformed | module | blocked
	AmtName string // 0 | 1 | large
	Hook    string // none | garbage | badsig | fail1 | fail2 | oog | ok | wd | wdfail
}

type c07Run struct {
	Shape       c07Shape
	Base        int
	Op          L2Op
	FailAt      int // 0 = none
	Panic       bool
	Calls       []string
	Pre         L2View
	Post        L2View
	PostObs     Ov
	Res         ExecResult
	Evs         []L2Ev
	HookGas     uint64
	ZeroGas     bool     // hook_max_gas = 0
	Execs       []string // executor list to install on the branch (nil = the scenario's)
	Track       *L2Track // observed accounts / denoms (nil = the scenario's)
	PreOp       *L2Op    // executed on the branch before the judged message (e.g. the first deposit of the denom)
	PreObs      Ov
	PreFailed   bool
	PreGas      uint64 // gas consumed on the message's meter before the message (a late message of a batch tx)
	GasLimit    uint64 // limit of the message's meter (0 = practically unlimited)
	Gas         uint64
	HookCharges []uint64
	Signer      uint64 // hook signer (0 = none)
	Target      uint64 // hook transfer target
	HookAmt     int64  // what an "ok" hook moves
	HookWd      int64  // what a "wd" hook withdraws to L1
	HookDen     string
}

type c07Fx struct {
	rep     *Report
	sc      *L2Scenario
	base    sdk.Context
	baseIdx int
	known   map[string]bool
}

const c07SmallGas = 40000

// the signer's account record grows by its stored public key when the ante handler of a hook
// has run; later reads of that record (reclaim) are dearer by 3 gas per byte.  Slack for the
// end-to-end comparison of the gas clause.
const c07GasSlack = 1000

var c07TooMuch = new(big.Int).Exp(big.NewInt(10), big.NewInt(30), nil) // more than any balance

// recMeter records what handleBridgeHook charges back to the message's gas meter
type recMeter struct {
	storetypes.GasMeter
	hook []uint64
}

func (m *recMeter) ConsumeGas(amount storetypes.Gas, descriptor string) {
	if descriptor == "bridge hook" {
		m.hook = append(m.hook, amount)
	}
	m.GasMeter.ConsumeGas(amount, descriptor)
}

func (fx *c07Fx) track(run *c07Run) L2Track {
	if run.Track != nil {
		return *run.Track
	}
	return fx.sc.Case.Track
}

func (fx *c07Fx) exec(run *c07Run) {
	e := fx.sc.Env
	branch, _ := fx.base.CacheContext()
	limit := uint64(1 << 40)
	if run.GasLimit != 0 {
		limit = run.GasLimit
	}
	meter := &recMeter{GasMeter: storetypes.NewGasMeter(limit)}
	e.Ctx = branch.WithGasMeter(meter)
	if run.Execs != nil {
		ps, _ := e.K.GetParams(e.Ctx)
		ps.BridgeExecutors = append([]string{}, run.Execs...)
		if err := e.K.SetParams(e.Ctx, ps); err != nil {
			panic(err)
		}
	}
	if run.HookGas != 0 || run.ZeroGas {
		ps, _ := e.K.GetParams(e.Ctx)
		ps.HookMaxGas = run.HookGas
		if err := e.K.SetParams(e.Ctx, ps); err != nil {
			panic(err)
		}
	}
	tr := fx.track(run)
	if run.PreOp != nil {
		r := e.L2Exec(*run.PreOp)
		run.PreObs = e.L2Obs(tr, r)
		run.PreFailed = !r.OK
	}
	run.Pre = l2ViewOf(tr, e.L2Obs(tr, ExecResult{OK: true}))
	if run.PreGas != 0 {
		// observation reads above were metered too: bring the meter to exactly PreGas
		meter.GasMeter = storetypes.NewGasMeter(limit)
		meter.GasMeter.ConsumeGas(run.PreGas, "earlier messages of the tx")
		e.Ctx = e.Ctx.WithGasMeter(meter)
	}
	g0 := meter.GasConsumed()
	*e.Fault = FaultPlan{FailAt: run.FailAt, Panic: run.Panic}
	run.Res = e.L2Exec(run.Op)
	run.Calls = append([]string{}, e.Fault.Calls...)
	*e.Fault = FaultPlan{Disabled: true}
	run.Gas = meter.GasConsumed() - g0
	run.HookCharges = meter.hook
	e.Ctx = e.Ctx.WithGasMeter(storetypes.NewInfiniteGasMeter()) // observation is not part of the message
	run.PostObs = e.L2Obs(tr, run.Res)
	run.Post = l2ViewOf(tr, run.PostObs)
	run.Evs = parseL2EvList(run.Res.Events)
	e.Ctx = fx.base
}

func (fx *c07Fx) viol(run *c07Run, sig, what string) {
	f := "no fault"
	if run.FailAt > 0 {
		kind := "error"
		if run.Panic {
			kind = "panic"
		}
		name := "?"
		if run.FailAt <= len(run.Calls) {
			name = run.Calls[run.FailAt-1]
		}
		f = fmt.Sprintf("%s injected at keeper call %d (%s)", kind, run.FailAt, name)
	}
	fx.rep.Violate(Violation{Case: fx.rep.Cases + 1, Step: run.FailAt, Sig: sig,
		What: fmt.Sprintf("%s [recipient=%s amount=%s hook=%s; %s; calls=%s; result=%v %s]", what, run.Shape.Rcp, run.Shape.AmtName, run.Shape.Hook, f,
			strings.Join(run.Calls, ","), run.Res.OK, run.Res.Err),
		Ops: opsCoq([]L2Op{run.Op})})
}

// the two-outcome rule, stated over the implementation's own observables
func (fx *c07Fx) judge(run *c07Run) {
	tr := fx.track(run)
	pre, post := run.Pre, run.Post
	faultName := ""
	if run.FailAt > 0 && run.FailAt <= len(run.Calls) {
		faultName = run.Calls[run.FailAt-1]
	}
	cls := "nofault"
	if faultName != "" {
		if c07Guarded(faultName) {
			cls = "guarded-fault"
		} else {
			cls = "unguarded-fault"
		}
	}
	// gas clause: whatever the hook did, what is charged for it never exceeds hook_max_gas
	limit := run.HookGas
	if limit == 0 {
		limit = fx.sc.Case.Params.HookGas
	}
	for _, g := range run.HookCharges {
		fx.rep.Hist("hook-charge-recorded")
		if g > limit {
			fx.viol(run, "C07:gas-bound", fmt.Sprintf("the hook was charged %d gas, hook_max_gas is %d", g, limit))
		}
	}
	if !run.Res.OK {
		fx.rep.Hist("deposit:" + cls + ":ERR")
		if !post.sameState(pre) {
			fx.viol(run, "C07:err-changed-state", "a failed deposit message changed state")
		}
		switch {
		case faultName == "" && run.Execs != nil:
			fx.viol(run, "C07:authorised-finalization-refused", fmt.Sprintf("a deposit L1 can emit, sent by a LISTED bridge executor (list %v, sender %s), was refused", run.Execs, run.Op.Sender))
		case faultName == "":
			fx.viol(run, "C07:deposit-blocked", "a deposit L1 can emit made the handler fail (the bridge is stuck behind it)")
		case c07Guarded(faultName):
			fx.viol(run, "C07:guarded-fault-escaped", "a fault inside the guarded region surfaced as a handler failure")
		default:
			c := c07SiteClass(faultName)
			if !fx.known[c] { // one report per call-site class (matched against known_findings.json)
				fx.viol(run, "C07:unguarded-fault:"+c, "a fault at an unguarded keeper call surfaced as a handler failure")
			}
			fx.known[c] = true
		}
		return
	}
	// OBSERVATION only (not part of C07 as stated, so never a violation): shape of the failure reason in the event.
	// On the unchanged tree the byte-wise truncation reason[:128] can split a multi-byte character of
	// payload-controlled error text, leaving a reason attribute that is not valid UTF-8 (DESIGN.md section 7).
	for _, ev := range run.Res.Events {
		if ev.Type == "finalize_token_deposit" {
			rs := attr(ev, "reason")
			if len(rs) > len("deposit failed; ")+128+3 {
				fx.known["obs:reason-too-long"] = true
			}
			if !utf8.ValidString(rs) {
				fx.known["obs:reason-utf8"] = true
			}
		}
	}
	if post.Resp != "SUCCESS" {
		fx.viol(run, "C07:not-success", "deposit at the expected sequence did not report SUCCESS")
		return
	}
	if post.N1 != pre.N1+1 {
		fx.viol(run, "C07:seq-not-advanced", fmt.Sprintf("NextL1Sequence %d -> %d", pre.N1, post.N1))
	}
	var dev *L2Ev
	var wevs []L2Ev
	nd := 0
	for i := range run.Evs {
		if run.Evs[i].IsDep {
			nd++
			dev = &run.Evs[i]
		} else {
			wevs = append(wevs, run.Evs[i])
		}
	}
	if nd != 1 {
		fx.viol(run, "C07:deposit-event", fmt.Sprintf("%d finalize_token_deposit events", nd))
		return
	}
	o := run.Op
	di := l2IdxS(tr.Denoms, o.Denom)
	// by construction of the shape: what must happen
	// a zero-amount deposit only touches the account, so it also "succeeds" for blocked module accounts
	creditable := run.Shape.Rcp == "valid" || (o.Amt.Sign() == 0 && (run.Shape.Rcp == "module" || run.Shape.Rcp == "blocked"))
	guardedDepositFault := faultName == "MintCoins" || faultName == "SendCoinsFromModuleToAccount"
	hookFault := faultName == "SendCoins" || strings.HasPrefix(faultName, "hook:")
	hookKind := strings.TrimSuffix(run.Shape.Hook, "@gas0")
	if strings.HasPrefix(hookKind, "mb") || hookKind == "ascii200" {
		run.Shape.Hook = "garbage" // an undecodable payload, as far as the expected outcome goes
	}
	// with hook_max_gas = 0 handleBridgeHook refuses before decoding: nothing runs, the deposit is refunded
	hookShouldRun := creditable && !guardedDepositFault && run.Shape.Hook != "none" && !run.ZeroGas
	expectA := creditable && !guardedDepositFault &&
		(run.Shape.Hook == "none" || ((run.Shape.Hook == "ok" || run.Shape.Hook == "wd") && !hookFault))
	_ = hookKind
	// only the hook signer's account sequence may move, by one
	// ... and a well-signed hook tx that reached the ante handler CONSUMES the signer's sequence
	// whether its messages succeed or fail (otherwise the public hook bytes can be replayed);
	// undecodable or badly signed payloads leave it alone
	wellSigned := map[string]bool{"fail1": true, "fail2": true, "ok": true, "wd": true, "wdfail": true, "unroutable": true, "sendunroutable": true}[run.Shape.Hook]
	for k := range post.AccSeq {
		d := post.AccSeq[k] - pre.AccSeq[k]
		if d != 0 && !(hookShouldRun && tr.Accts[k] == run.Signer && d == 1) {
			fx.viol(run, "C07:account-sequence", fmt.Sprintf("account sequence of %d moved by %d", tr.Accts[k], d))
		}
		if tr.Accts[k] == run.Signer && hookShouldRun {
			if wellSigned && d != 1 {
				fx.viol(run, "C07:account-sequence", fmt.Sprintf("the well-signed hook ran but the signer's account sequence moved by %d instead of 1: the hook bytes stay replayable", d))
			}
			if (run.Shape.Hook == "garbage" || run.Shape.Hook == "badsig") && d != 0 {
				fx.viol(run, "C07:account-sequence", fmt.Sprintf("an undecodable / badly signed hook moved the signer's account sequence by %d", d))
			}
		}
	}
	if dev.Success {
		fx.rep.Hist("deposit:" + cls + ":A")
		if !expectA {
			fx.viol(run, "C07:failed-deposit-credited", "a deposit whose credit or hook failed was reported and kept as credited")
		}
		// the only records of a credited deposit are those of the hook's own withdrawal messages
		expW := 0
		if run.Shape.Hook == "wd" && hookShouldRun {
			expW = 1
		}
		if len(wevs) != expW || post.N2 != pre.N2+uint64(expW) {
			fx.viol(run, "C07:two-outcomes", fmt.Sprintf("credited deposit with %d withdrawal records (expected %d from its hook), NextL2Sequence %d -> %d", len(wevs), expW, pre.N2, post.N2))
		}
		for k, w := range wevs {
			if w.Seq != pre.N2+uint64(k) || w.Amt.Cmp(big.NewInt(run.HookWd)) != 0 || w.Denom != run.HookDen || w.From != fx.sc.Env.User(run.Signer).Str {
				fx.viol(run, "C07:hook-withdrawal-record", fmt.Sprintf("record (%d,%s,%s,%s) of the hook's withdrawal differs from its message", w.Seq, w.From, w.Denom, w.Amt))
			}
		}
		ri := l2IdxU(tr.Accts, fx.sc.Env.Table[o.To])
		for a := range tr.Accts {
			for d := range tr.Denoms {
				want := new(big.Int).Set(pre.Bal[a][d])
				if a == ri && d == di {
					want.Add(want, o.Amt)
				}
				if run.Shape.Hook == "wd" && hookShouldRun && tr.Denoms[d] == run.HookDen && tr.Accts[a] == run.Signer {
					want.Sub(want, big.NewInt(run.HookWd))
				}
				if run.Shape.Hook == "ok" && hookShouldRun && tr.Denoms[d] == run.HookDen {
					if tr.Accts[a] == run.Signer {
						want.Sub(want, big.NewInt(run.HookAmt))
					}
					if tr.Accts[a] == run.Target {
						want.Add(want, big.NewInt(run.HookAmt))
					}
				}
				if post.Bal[a][d].Cmp(want) != 0 {
					fx.viol(run, "C07:credit-inexact", fmt.Sprintf("balance of %d in %s is %s, expected %s", tr.Accts[a], tr.Denoms[d], post.Bal[a][d], want))
				}
			}
		}
		for d := range tr.Denoms {
			want := new(big.Int).Set(pre.Sup[d])
			if d == di {
				want.Add(want, o.Amt)
			}
			if run.Shape.Hook == "wd" && hookShouldRun && tr.Denoms[d] == run.HookDen {
				want.Sub(want, big.NewInt(run.HookWd))
			}
			if post.Sup[d].Cmp(want) != 0 {
				fx.viol(run, "C07:credit-inexact", fmt.Sprintf("supply of %s is %s, expected %s", tr.Denoms[d], post.Sup[d], want))
			}
		}
		return
	}
	fx.rep.Hist("deposit:" + cls + ":B")
	if expectA {
		fx.viol(run, "C07:good-deposit-refunded", "a deposit that could be credited was refunded")
	}
	if !post.sameBank(pre) {
		fx.viol(run, "C07:refund-not-neutral", "refunded deposit left a balance or a supply changed (credit not reclaimed, or hook effects kept)")
	}
	if len(wevs) != 1 || post.N2 != pre.N2+1 {
		fx.viol(run, "C07:two-outcomes", fmt.Sprintf("failed deposit with %d withdrawal records, NextL2Sequence %d -> %d: the funds are lost on both chains", len(wevs), pre.N2, post.N2))
		return
	}
	w := wevs[0]
	base := ""
	if di >= 0 && post.Pair[di] != nil {
		base = *post.Pair[di]
	}
	if w.Seq != pre.N2 || w.From != o.To || w.To != o.From || w.Denom != o.Denom || w.Base != base || w.Amt.Cmp(o.Amt) != 0 {
		fx.viol(run, "C07:refund-record", fmt.Sprintf("refund record (%d,%s,%s,%s,%s,%s) differs from the deposit", w.Seq, w.From, w.To, w.Denom, w.Base, w.Amt))
	}
}

// c07BoundaryDenoms: L1 base denoms at the length boundaries (sdk.ValidateDenom accepts 3..128
// characters, [a-zA-Z][a-zA-Z0-9/:._-]*), drawn from the whole allowed alphabet, plus ibc/- and
// l2/-shaped ones and three strings L1 cannot emit (1, 2 and 129 characters).
func c07BoundaryDenoms(variant int) []string {
	alphabet := "aZ09/:._-bY18xQ"
	mk := func(prefix string, n int) string {
		bs := []byte(prefix)
		for i := len(bs); i < n; i++ {
			bs = append(bs, alphabet[(i+variant)%len(alphabet)])
		}
		return string(bs[:n])
	}
	var out []string
	for _, n := range []int{3, 4, 64, 115, 116, 117, 127, 128} {
		out = append(out, mk("u", n))
	}
	out = append(out,
		mk("ibc/", 68), mk("ibc/", 116), mk("ibc/", 128), mk("l2/", 67), mk("l2/", 128), mk("factory/", 120),
		"u", "ub", mk("u", 129))
	return out
}

func genC07(seed uint64, tier string, outdir string) *Report {
	rep := NewReport("C07", seed, tier)
	rep.Rule = "a case is one execution of one deposit (shape x base state x fault point x fault kind) on a fresh branch; distinct by shape, base and fault; non-trivial = a fault was injected or the hook ran"
	nBases := 3
	if tier == "thorough" {
		nBases = 8
	}
	known := map[string]bool{}
	var texts []string
	caseID := 0
	large := new(big.Int).Add(new(big.Int).Exp(big.NewInt(10), big.NewInt(20), nil), big.NewInt(7))
	amounts := []struct {
		n string
		v *big.Int
	}{{"0", big.NewInt(0)}, {"1", big.NewInt(1)}, {"large", large}}
	rcps := []string{"valid", "malformed", "module", "blocked"}
	hooks := []string{"none", "garbage", "badsig", "fail1", "fail2", "oog", "ok", "wd", "wdfail",
		"unroutable", "sendunroutable", // a decodable message with no handler on the router (monitor-only)
		"mb2x60", "mb3x45", "mb4x30", "mb4x40", "mbmix", "ascii200", // undecodable tx whose decoder error echoes payload-controlled (multi-byte) text
		"garbage@gas0", "badsig@gas0", "fail1@gas0", "ok@gas0", "wd@gas0"} // hook_max_gas = 0: hooks are off, payloads must be refunded
	gasBound := map[string][2]uint64{}
	shapeNo := 0

	for b := 0; b < nBases; b++ {
		sc := NewL2Scenario(seed*131+uint64(b), 0, true)
		e := sc.Env
		r := sc.R
		// base: user 4 (the hook signer) holds 100 of bridged denom 0
		setup := sc.Deposit(e.User(1).Str, 1, e.User(4).Str, 0, big.NewInt(100), Hook{Kind: "none"})
		if res := e.L2Exec(setup); !res.OK {
			// not a harness error: a listed executor's next-in-order finalization was refused
			l2SetupRefused(rep, "C07", e, b, setup, res)
			// try the other listed executor so that the rest of the enumeration still runs
			setup.Sender = e.User(2).Str
			if res := e.L2Exec(setup); !res.OK {
				l2SetupRefused(rep, "C07", e, b, setup, res)
				continue
			}
		}
		// odd bases: the deposited denom is already registered (no SetDenomMetaData call)
		depDenom := 1
		if b%2 == 1 {
			depDenom = 0
		}
		// bases 2, 5, ...: the deposited denom has bank metadata already but NO denom pair (bank
		// genesis / upgrade): HasDenomMetaData answers true, the pair must still be registered
		if b%3 == 2 {
			depDenom = 1
			SetL2DenomMeta(e, sc.L2Denoms[1], sc.L1Denoms[1])
		}
		// a recipient address that has no account yet (zero-amount path creates it)
		fresh := sdk.AccAddress(detPriv(seed^0x5eed, 900+b).PubKey().Address()).String()
		sc.register(fresh)
		if tier == "thorough" && b >= 2 { // vary the history behind the base state
			for i := 0; i < 1+r.Intn(4); i++ {
				n1, _ := e.K.GetNextL1Sequence(e.Ctx)
				e.L2Exec(sc.Deposit(e.User(1).Str, n1, e.User(uint64(1+r.Intn(6))).Str, r.Intn(2), big.NewInt(int64(r.Intn(50))), Hook{Kind: "none"}))
			}
		}
		sc.Case.Bals, sc.Case.Sups, sc.Case.Pairs = nil, nil, nil
		sc.Case.Snapshot()
		fx := &c07Fx{rep: rep, sc: sc, base: e.Ctx, baseIdx: b, known: known}
		n1, _ := e.K.GetNextL1Sequence(e.Ctx)
		signer, target := uint64(4), uint64(5)
		hookDen := sc.L2Denoms[0]
		mkHook := func(kind string) Hook {
			q := e.AccSeq(signer)
			kind = strings.TrimSuffix(kind, "@gas0")
			// a message type that decodes (registered interface) but whose module's msg server is not on the router
			unroutable := &authtypes.MsgUpdateParams{Authority: e.User(signer).Str, Params: authtypes.DefaultParams()}
			if strings.HasPrefix(kind, "mb") || kind == "ascii200" {
				// an unsigned tx whose only message is an Any with an unregistered type URL: the decoder
				// refuses it and names the type URL; lengths around 128 BYTES vs 128 CHARACTERS
				url := map[string]string{
					"mb2x60":   "/" + strings.Repeat("\u00e9", 60),                  // 2-byte runes: 121 bytes, 61 characters
					"mb3x45":   "/" + strings.Repeat("\u20ac", 45),                  // 3-byte runes: 136 bytes, 46 characters
					"mb4x30":   "/" + strings.Repeat("\U0001F600", 30),              // 4-byte runes: 121 bytes, 31 characters
					"mb4x40":   "/" + strings.Repeat("\U0001F600", 40),              // 161 bytes, 41 characters
					"mbmix":    "/" + strings.Repeat("a\u00e9\u20ac\U0001F600", 12), // mixed widths: 121 bytes, 49 characters
					"ascii200": "/" + strings.Repeat("a", 200),
				}[kind]
				body, _ := (&txtypes.TxBody{Messages: []*codectypes.Any{{TypeUrl: url}}, Memo: strings.Repeat("\u00e9", 20)}).Marshal()
				auth, _ := (&txtypes.AuthInfo{Fee: &txtypes.Fee{}}).Marshal()
				raw, _ := (&txtypes.TxRaw{BodyBytes: body, AuthInfoBytes: auth, Signatures: [][]byte{}}).Marshal()
				return Hook{Kind: "garbage", Raw: raw}
			}
			switch kind {
			case "unroutable":
				return e.MakeHookTxMsgs(signer, q, []sdk.Msg{unroutable}, "auth MsgUpdateParams (no handler on the router)")
			case "sendunroutable":
				return e.MakeHookTxMsgs(signer, q, []sdk.Msg{
					&banktypes.MsgSend{FromAddress: e.User(signer).Str, ToAddress: e.User(target).Str, Amount: sdk.Coins{coinOf(hookDen, big.NewInt(5))}},
					unroutable}, "bank MsgSend 5 to user 5; auth MsgUpdateParams (no handler on the router)")
			}
			switch kind {
			case "none":
				return Hook{Kind: "none"}
			case "garbage":
				return Hook{Kind: "garbage", Raw: append([]byte{0xff}, r.Bytes(1+r.Intn(20))...)}
			case "badsig":
				return e.MakeHookTx(signer, q, false, []HookSend{{To: target, Denom: hookDen, Amt: big.NewInt(5)}})
			case "fail1":
				return e.MakeHookTx(signer, q, true, []HookSend{{To: target, Denom: hookDen, Amt: c07TooMuch}})
			case "fail2":
				return e.MakeHookTx(signer, q, true, []HookSend{{To: target, Denom: hookDen, Amt: big.NewInt(5)}, {To: target, Denom: hookDen, Amt: c07TooMuch}})
			case "oog":
				var sends []HookSend
				for i := 0; i < 40; i++ {
					sends = append(sends, HookSend{To: target, Denom: hookDen, Amt: big.NewInt(1)})
				}
				return e.MakeHookTx(signer, q, true, sends)
			case "wd": // the hook withdraws 3 back to L1: an ordinary user withdrawal, announced by an event
				return e.MakeHookTx(signer, q, true, []HookSend{{Withdraw: true, ToL1: sc.L1Addrs[0], Denom: hookDen, Amt: big.NewInt(3)}})
			case "wdfail": // ... followed by a failing message: nothing of the withdrawal may survive
				return e.MakeHookTx(signer, q, true, []HookSend{{Withdraw: true, ToL1: sc.L1Addrs[0], Denom: hookDen, Amt: big.NewInt(3)}, {To: target, Denom: hookDen, Amt: c07TooMuch}})
			default:
				return e.MakeHookTx(signer, q, true, []HookSend{{To: target, Denom: hookDen, Amt: big.NewInt(5)}})
			}
		}
		for _, rc := range rcps {
			for _, am := range amounts {
				for _, hk := range hooks {
					shape := c07Shape{rc, am.n, hk}
					var to string
					switch rc {
					case "valid":
						to = e.User(signer).Str
						if am.n == "0" && b%2 == 0 {
							to = fresh
						}
					case "malformed":
						to = "notanaddress"
					case "module":
						to = e.ModAddr[ModOpchild].String()
					case "blocked":
						to = e.ModAddr[ModFeeCol].String()
					}
					shapeNo++
					op := sc.Deposit(e.User(uint64(1+shapeNo%2)).Str, n1, to, depDenom, am.v, mkHook(hk)) // both listed executors
					var hookGas uint64
					if hk == "oog" {
						hookGas = c07SmallGas
					}
					zeroGas := strings.HasSuffix(hk, "@gas0")
					if zeroGas && rc != "valid" {
						continue
					}
					mk := func(failAt int, pn bool) *c07Run {
						return &c07Run{Shape: shape, Base: b, Op: op, FailAt: failAt, Panic: pn, HookGas: hookGas, ZeroGas: zeroGas,
							Signer: signer, Target: target, HookAmt: 5, HookWd: 3, HookDen: hookDen}
					}
					// record mode
					rec := mk(0, false)
					fx.exec(rec)
					fx.judge(rec)
					caseID++
					rep.Ops++
					rep.CountCase(fmt.Sprintf("%d/%v/nofault", b, shape), hk != "none" && rc == "valid")
					rep.Hist("calls:" + fmt.Sprint(len(rec.Calls)))
					caseParams := sc.Case.Params
					if zeroGas {
						cp := *sc.Case.Params
						cp.HookGas = 0
						caseParams = &cp
					}
					if hk != "oog" && op.Hook.Kind != "rawtx" {
						c := &L2Case{ID: caseID, Env: e, Track: sc.Case.Track, Params: caseParams, NextL1: sc.Case.NextL1, NextL2: sc.Case.NextL2,
							Bals: sc.Case.Bals, Sups: sc.Case.Sups, Pairs: sc.Case.Pairs, Ops: []L2Op{op}, Obs: []Ov{rec.PostObs}}
						texts = append(texts, c.Coq())
					} else if rc == "valid" {
						rep.Hist("oog-hook:" + map[bool]string{true: "A", false: "B"}[rec.Res.OK && len(rec.Evs) > 0 && rec.Evs[0].Success])
					}
					if len(rep.Samples) < 2 && hk == "fail2" && rc == "valid" && am.n == "large" {
						rep.Sample(map[string]interface{}{"kind": "recorded keeper calls of a credited deposit whose hook fails at message 2", "calls": rec.Calls, "op": opsCoq([]L2Op{op})})
					}
					// gas clause (monitor only): expensive failing hook vs instantly failing hook
					if rc == "valid" && am.n == "large" && (hk == "garbage" || hk == "oog") {
						key := fmt.Sprint(b)
						g := gasBound[key]
						if hk == "garbage" {
							g[0] = rec.Gas
						} else {
							g[1] = rec.Gas
						}
						gasBound[key] = g
					}
					// one run per recorded call x {error, panic}
					for i := 1; i <= len(rec.Calls); i++ {
						for _, pn := range []bool{false, true} {
							run := mk(i, pn)
							fx.exec(run)
							fx.judge(run)
							caseID++
							rep.Ops++
							rep.CountCase(fmt.Sprintf("%d/%v/%d/%v", b, shape, i, pn), true)
							rep.Hist("fault@" + rec.Calls[i-1])
						}
					}
				}
			}
		}
		// two-step shapes: a well-signed hook that fails with the first deposit is attached, byte
		// for byte, to a later and larger deposit (by another executor) to the same recipient,
		// with which its transfer would be affordable: it must be refused at the ante step
		for _, hk := range []string{"send", "withdraw"} {
			branch, _ := fx.base.CacheContext()
			e.Ctx = branch
			msg := HookSend{To: target, Denom: hookDen, Amt: big.NewInt(250)}
			if hk == "withdraw" {
				msg = HookSend{Withdraw: true, ToL1: sc.L1Addrs[0], Denom: hookDen, Amt: big.NewInt(250)}
			}
			hook := e.MakeHookTx(signer, e.AccSeq(signer), true, []HookSend{msg})
			op1 := sc.Deposit(e.User(1).Str, n1, e.User(signer).Str, 0, big.NewInt(100), hook)   // 100 + 100 < 250: the hook fails
			op2 := sc.Deposit(e.User(2).Str, n1+1, e.User(signer).Str, 0, big.NewInt(200), hook) // 100 + 200 >= 250
			tr := sc.Case.Track
			pre := l2ViewOf(tr, e.L2Obs(tr, ExecResult{OK: true}))
			r1 := e.L2Exec(op1)
			o1 := e.L2Obs(tr, r1)
			r2 := e.L2Exec(op2)
			o2 := e.L2Obs(tr, r2)
			post := l2ViewOf(tr, o2)
			e.Ctx = fx.base
			caseID++
			rep.Ops += 2
			rep.CountCase(fmt.Sprintf("%d/replay/%s", b, hk), true)
			rep.Hist("two-step:hook-bytes-reused:" + hk)
			run := &c07Run{Shape: c07Shape{"valid", "100 then 200", "replayed-" + hk}, Base: b, Op: op2, Res: r2}
			hd := l2IdxS(tr.Denoms, hookDen)
			ti, si := l2IdxU(tr.Accts, target), l2IdxU(tr.Accts, signer)
			executed := post.Bal[ti][hd].Cmp(pre.Bal[ti][hd]) != 0 || post.Sup[hd].Cmp(new(big.Int).Add(pre.Sup[hd], big.NewInt(0))) < 0
			for _, ev := range parseL2EvList(r2.Events) {
				if ev.IsDep && ev.Success {
					executed = true
				}
			}
			if !r1.OK || !r2.OK {
				fx.viol(run, "C07:deposit-blocked", "a deposit of the two-step shape made the handler fail")
			} else if executed {
				fx.rep.Violate(Violation{Case: rep.Cases, Step: 1, Sig: "C07:hook-replayed",
					What: fmt.Sprintf("the bytes of a hook that failed with deposit %d were executed with deposit %d (hook target balance %s -> %s, signer sequence %d -> %d)",
						n1, n1+1, pre.Bal[ti][hd], post.Bal[ti][hd], pre.AccSeq[si], post.AccSeq[si]), Ops: opsCoq([]L2Op{op1, op2})})
			}
			c := &L2Case{ID: caseID, Env: e, Track: sc.Case.Track, Params: sc.Case.Params, NextL1: sc.Case.NextL1, NextL2: sc.Case.NextL2,
				Bals: sc.Case.Bals, Sups: sc.Case.Sups, Pairs: sc.Case.Pairs, Ops: []L2Op{op1, op2}, Obs: []Ov{o1, o2}}
			texts = append(texts, c.Coq())
		}
		// gas clause with gas ALREADY consumed on the message's meter (a late message of a batch tx):
		// for every hook outcome class the message may add at most (same deposit without payload) +
		// hook_max_gas (+ slack), and a meter limited to exactly that is never exceeded
		{
			const hookMax, slack = 200000, 3000
			pre := uint64(3 * hookMax)
			// baselines: the same deposit credited without payload, and the same deposit refunded without
			// any hook execution (payload present, hook_max_gas = 0: handleBridgeHook returns at once)
			var g0, gRefund uint64
			{
				op := sc.Deposit(e.User(1).Str, n1, e.User(signer).Str, depDenom, large, mkHook("garbage"))
				rf := &c07Run{Shape: c07Shape{"valid", "large", "garbage@gas0+pregas"}, Base: b, Op: op, ZeroGas: true, PreGas: pre}
				fx.exec(rf)
				gRefund = rf.Gas
			}
			for _, hk := range []string{"none", "garbage", "mb4x40", "badsig", "fail1", "ok", "wd", "oog", "unroutable"} {
				op := sc.Deposit(e.User(1).Str, n1, e.User(signer).Str, depDenom, large, mkHook(hk))
				free := &c07Run{Shape: c07Shape{"valid", "large", hk + "+pregas"}, Base: b, Op: op, HookGas: hookMax, PreGas: pre}
				fx.exec(free)
				caseID++
				rep.Ops++
				rep.CountCase(fmt.Sprintf("%d/pregas/%s", b, hk), true)
				rep.Hist("pre-consumed-gas:" + hk)
				if hk == "none" {
					g0 = free.Gas
				}
				if !free.Res.OK {
					fx.viol(free, "C07:deposit-blocked", "a deposit made the handler fail when gas had already been consumed on the meter")
					continue
				}
				base0 := g0
				for _, ev := range parseL2EvList(free.Res.Events) {
					if ev.IsDep && !ev.Success {
						base0 = gRefund // the refund path (reclaim, burn, withdrawal record) costs more than the credit alone
					}
				}
				bound := base0 + hookMax + slack
				if free.Gas > bound {
					fx.viol(free, "C07:gas-bound", fmt.Sprintf("with %d gas already consumed the message added %d gas; the same deposit with the same outcome and no hook execution adds %d, hook_max_gas is %d", pre, free.Gas, base0, hookMax))
				}
				for _, ch := range free.HookCharges {
					if ch > hookMax {
						fx.viol(free, "C07:gas-bound", fmt.Sprintf("the hook was charged %d gas, hook_max_gas is %d (gas consumed before the message: %d)", ch, hookMax, pre))
					}
				}
				tight := &c07Run{Shape: c07Shape{"valid", "large", hk + "+pregas+tight-limit"}, Base: b, Op: op, HookGas: hookMax, PreGas: pre, GasLimit: pre + bound}
				fx.exec(tight)
				caseID++
				rep.Ops++
				rep.CountCase(fmt.Sprintf("%d/pregas-tight/%s", b, hk), true)
				if !tight.Res.OK {
					fx.viol(tight, "C07:gas-bound", fmt.Sprintf("a meter limited to (consumed so far %d) + (same deposit without hook execution %d) + hook_max_gas %d + %d was exceeded: %s", pre, base0, hookMax, slack, tight.Res.Err))
				}
			}
		}
		// natural panics in the guarded region: the stock bank keeper panics with an integer overflow
		// when the supply would reach 2^256.  Expected: refund (B) with the L1 sequence consumed.
		// (monitor-only: the model's amounts are unbounded)
		{
			p255 := new(big.Int).Lsh(big.NewInt(1), 255)
			for vi, amts := range [][]*big.Int{{p255, p255}, {p255, new(big.Int).Sub(p255, big.NewInt(1)), big.NewInt(1)}} {
				branch, _ := fx.base.CacheContext()
				e.Ctx = branch
				ovDenom := ophosttypes.L2Denom(sc.BridgeID, "uoverflow") // a denom of its own: supply starts at 0
				tr := L2Track{Accts: sc.Case.Track.Accts, Denoms: append(append([]string{}, sc.Case.Track.Denoms...), ovDenom)}
				var ops []L2Op
				for k, a := range amts {
					op := sc.Deposit(e.User(uint64(1+k%2)).Str, n1+uint64(k), e.User(6).Str, 0, a, Hook{Kind: "none"})
					op.Denom, op.Base = ovDenom, "uoverflow"
					ops = append(ops, op)
					pre := l2ViewOf(tr, e.L2Obs(tr, ExecResult{OK: true}))
					res := e.L2Exec(op)
					post := l2ViewOf(tr, e.L2Obs(tr, res))
					last := k == len(amts)-1
					run := &c07Run{Shape: c07Shape{"valid", "2^255-ish", "none"}, Base: b, Op: op, Res: res}
					refunded := false
					for _, ev := range parseL2EvList(res.Events) {
						if ev.IsDep && !ev.Success {
							refunded = true
						}
					}
					switch {
					case !res.OK:
						fx.rep.Violate(Violation{Case: rep.Cases + 1, Step: k, Sig: "C07:guarded-fault-escaped",
							What: "a panic of the stock bank keeper inside the guarded region (supply overflow at 2^256) escaped the handler: " + res.Err, Ops: opsCoq(ops)})
					case post.N1 != pre.N1+1:
						fx.viol(run, "C07:seq-not-advanced", "supply-overflow deposit did not advance the L1 sequence")
					case last && (!refunded || !post.sameBank(pre) || post.N2 != pre.N2+1):
						fx.rep.Violate(Violation{Case: rep.Cases + 1, Step: k, Sig: "C07:two-outcomes",
							What: "the deposit that would overflow the supply was not refunded with the bank unchanged", Ops: opsCoq(ops)})
					case !last && refunded:
						fx.rep.Violate(Violation{Case: rep.Cases + 1, Step: k, Sig: "C07:good-deposit-refunded",
							What: "a deposit below the 2^256 supply bound was refunded", Ops: opsCoq(ops)})
					}
				}
				e.Ctx = fx.base
				caseID++
				rep.Ops += len(ops)
				rep.CountCase(fmt.Sprintf("%d/overflow/%d", b, vi), true)
				rep.Hist("natural-panic:supply-overflow")
			}
		}
		// the DENOM axis: base denoms at the length boundaries L1 accepts (3..128 characters; 1, 2 and
		// 129 are not valid denoms and must be rejected), over the whole allowed alphabet, ibc/- and
		// l2/-shaped; each as the FIRST deposit of its L2 denom (no bank metadata, no pair yet) and as a
		// later one, crossed with recipient and hook shapes.  No-fault runs, model-compared.
		for li, base := range c07BoundaryDenoms(b) {
			l2d := ophosttypes.L2Denom(sc.BridgeID, base)
			trk := L2Track{Accts: sc.Case.Track.Accts, Denoms: append(append([]string{}, sc.Case.Track.Denoms...), l2d)}
			emittable := sdk.ValidateDenom(base) == nil
			for _, later := range []bool{false, true} {
				for si, shp := range []c07Shape{{"valid", "1", "none"}, {"valid", "large", "fail1"}, {"malformed", "1", "none"}, {"valid", "0", "ok"}} {
					if (li+si)%2 == 1 && !later && emittable && len(base) < 100 {
						continue // thin out the short denoms; the long ones get every shape
					}
					to := e.User(signer).Str
					if shp.Rcp == "malformed" {
						to = "notanaddress"
					}
					amt := map[string]*big.Int{"0": big.NewInt(0), "1": big.NewInt(1), "large": large}[shp.AmtName]
					seq := n1
					run := &c07Run{Shape: c07Shape{shp.Rcp, shp.AmtName, shp.Hook}, Base: b, Track: &trk,
						Signer: signer, Target: target, HookAmt: 5, HookWd: 3, HookDen: hookDen}
					var ops []L2Op
					if later {
						first := sc.Deposit(e.User(1).Str, n1, e.User(6).Str, 0, big.NewInt(9), Hook{Kind: "none"})
						first.Denom, first.Base = l2d, base
						run.PreOp = &first
						ops = append(ops, first)
						seq = n1 + 1
					}
					op := sc.Deposit(e.User(uint64(1+(li+si)%2)).Str, seq, to, 0, amt, mkHook(shp.Hook))
					op.Denom, op.Base = l2d, base
					run.Op = op
					ops = append(ops, op)
					fx.exec(run)
					caseID++
					rep.Ops += len(ops)
					rep.CountCase(fmt.Sprintf("%d/denom%d/%v/%v", b, li, later, shp), true)
					rep.Hist(fmt.Sprintf("base-denom-length:%d", len(base)))
					switch {
					case !emittable:
						if run.Res.OK {
							fx.viol(run, "C07:malformed-accepted", fmt.Sprintf("a deposit naming the invalid base denom %q was accepted", base))
						}
					case run.PreFailed:
						// the first deposit of the denom was refused: reported by the run that judges it
					default:
						fx.judge(run)
					}
					var obs []Ov
					if later {
						obs = append(obs, run.PreObs)
					}
					obs = append(obs, run.PostObs)
					c := &L2Case{ID: caseID, Env: e, Track: trk, Params: sc.Case.Params, NextL1: sc.Case.NextL1, NextL2: sc.Case.NextL2,
						Bals: sc.Case.Bals, Sups: sc.Case.Sups, Pairs: sc.Case.Pairs, Ops: ops, Obs: obs}
					texts = append(texts, c.Coq())
				}
			}
		}
		// every listed executor may finalize: executor lists of 1..3 entries, sender = each position
		// (first, middle, last), credited / refunded / hook-carrying deposits (no-fault runs; model-compared)
		for _, ids := range [][]uint64{{1}, {2}, {1, 2}, {2, 1}, {3, 1, 2}, {2, 3, 1}} {
			var execs []string
			for _, id := range ids {
				execs = append(execs, e.User(id).Str)
			}
			for pos, id := range ids {
				for _, hk := range []string{"none", "fail1", "ok"} {
					for _, to := range []string{e.User(signer).Str, "notanaddress"} {
						rcName := "valid"
						if to == "notanaddress" {
							rcName = "malformed"
						}
						op := sc.Deposit(e.User(id).Str, n1, to, depDenom, big.NewInt(1), mkHook(hk))
						run := &c07Run{Shape: c07Shape{rcName, "1", hk}, Base: b, Op: op, Execs: execs,
							Signer: signer, Target: target, HookAmt: 5, HookWd: 3, HookDen: hookDen}
						fx.exec(run)
						fx.judge(run)
						caseID++
						rep.Ops++
						rep.CountCase(fmt.Sprintf("%d/execs%v/pos%d/%s/%s", b, ids, pos, hk, rcName), true)
						rep.Hist(fmt.Sprintf("executor-list:%d-entries:position-%d", len(ids), pos))
						cp := *sc.Case.Params
						cp.Execs = execs
						c := &L2Case{ID: caseID, Env: e, Track: sc.Case.Track, Params: &cp, NextL1: sc.Case.NextL1, NextL2: sc.Case.NextL2,
							Bals: sc.Case.Bals, Sups: sc.Case.Sups, Pairs: sc.Case.Pairs, Ops: []L2Op{op}, Obs: []Ov{run.PostObs}}
						texts = append(texts, c.Coq())
					}
				}
			}
		}
		l2QueryMonitor(rep, sc.Case, "C07")
		// random payloads (thorough): random send lists, signers, sequences
		if tier == "thorough" {
			for k := 0; k < 60; k++ {
				sg := uint64(1 + r.Intn(6))
				var sends []HookSend
				for j := 0; j < 1+r.Intn(4); j++ {
					hs := HookSend{To: uint64(1 + r.Intn(6)), Denom: sc.L2Denoms[r.Intn(2)], Amt: big.NewInt(int64(r.Intn(120)))}
					if r.Chance(35) {
						hs.Withdraw, hs.ToL1 = true, sc.L1Addrs[r.Intn(len(sc.L1Addrs))]
					}
					sends = append(sends, hs)
				}
				hook := e.MakeHookTx(sg, e.AccSeq(sg)+uint64(r.Intn(2)), r.Chance(85), sends)
				op := sc.Deposit(e.User(1).Str, n1, e.User(uint64(1+r.Intn(6))).Str, r.Intn(2), big.NewInt(int64(r.Intn(200))), hook)
				run := &c07Run{Shape: c07Shape{"valid", "random", "random"}, Base: b, Op: op}
				fx.exec(run)
				// model comparison only (the by-construction oracle does not apply to random payloads)
				caseID++
				rep.Ops++
				rep.CountCase(fmt.Sprintf("%d/random/%d", b, k), true)
				if !run.Res.OK {
					fx.viol(run, "C07:deposit-blocked", "a deposit with a random payload made the handler fail")
				}
				c := &L2Case{ID: caseID, Env: e, Track: sc.Case.Track, Params: sc.Case.Params, NextL1: sc.Case.NextL1, NextL2: sc.Case.NextL2,
					Bals: sc.Case.Bals, Sups: sc.Case.Sups, Pairs: sc.Case.Pairs, Ops: []L2Op{op}, Obs: []Ov{run.PostObs}}
				texts = append(texts, c.Coq())
			}
		}
	}
	for _, k := range sortedKeys(gasBound) {
		g := gasBound[k]
		if g[1] > g[0]+c07SmallGas+c07GasSlack {
			rep.Violate(Violation{Case: 0, Sig: "C07:gas-bound", What: fmt.Sprintf("base %s: deposit with an out-of-gas hook consumed %d gas, the same deposit with an instantly failing hook %d, hook_max_gas %d", k, g[1], g[0], c07SmallGas)})
		}
		rep.Notes = append(rep.Notes, fmt.Sprintf("gas clause, base %s: out-of-gas hook %d <= instantly failing hook %d + hook_max_gas %d (+ %d slack for the grown account record)", k, g[1], g[0], c07SmallGas, c07GasSlack))
	}
	rep.Notes = append(rep.Notes, fmt.Sprintf("observation (not a C07 clause): reason attribute longer than prefix+128+3 bytes seen: %v; reason attribute that is not valid UTF-8 seen: %v (byte-wise truncation of payload-controlled multi-byte error text)", known["obs:reason-too-long"], known["obs:reason-utf8"]))
	for _, c := range c07Classes {
		rep.KnownChecked = append(rep.KnownChecked, KnownResult{ID: "C07:unguarded-fault:" + c, StillFails: known[c],
			What: "fault injected at the unguarded call-site class '" + c + "' surfaces as a handler failure"})
	}
	rep.Exhaustive = true
	rep.Notes = append(rep.Notes, fmt.Sprintf("exhaustive over %d shapes x every recorded keeper call x {error, panic} on %d base states", len(rcps)*len(amounts)*len(hooks), nBases))
	writeShards(outdir, "C07", l2CaseHeader, "run_l2case", "l2case", texts, 16, rep)
	return rep
}
