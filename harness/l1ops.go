package main

import (
	"bytes"
	"encoding/hex"
	"fmt"
	"math/big"
	"sort"
	"strconv"
	"strings"
	"time"

	sdk "github.com/cosmos/cosmos-sdk/types"
	"github.com/cosmos/cosmos-sdk/types/query"

	ophosttypes "github.com/initia-labs/OPinit/x/ophost/types"
)

type L1Config struct {
	Proposer, Challenger string
	Period, Interval     int64 // ns
	Start                uint64
	Submitter            string
	Chain                uint64
	Oracle               bool
	Meta                 []byte
}

func (c *L1Config) Real() ophosttypes.BridgeConfig {
	return ophosttypes.BridgeConfig{Challenger: c.Challenger, Proposer: c.Proposer,
		BatchInfo:          ophosttypes.BatchInfo{Submitter: c.Submitter, ChainType: ophosttypes.BatchInfo_ChainType(c.Chain)},
		SubmissionInterval: time.Duration(c.Interval), FinalizationPeriod: time.Duration(c.Period),
		SubmissionStartHeight: c.Start, OracleEnabled: c.Oracle, Metadata: c.Meta}
}
func (c *L1Config) Coq() string {
	return fmt.Sprintf("{| c_proposer := %s; c_challenger := %s; c_period := %s; c_interval := %s; c_start := %s; c_batch := {| b_submitter := %s; b_chain := %s |}; c_oracle := %s; c_meta := %s |}",
		coqStr(c.Proposer), coqStr(c.Challenger), coqI(c.Period), coqI(c.Interval), coqU(c.Start), coqStr(c.Submitter), coqU(c.Chain), coqBool(c.Oracle), coqBytes(c.Meta))
}

type L1Op struct {
	Kind   string
	Now    int64  // block time, ns
	Height uint64 // block height
	Sender string
	Bridge uint64
	Idx    uint64
	L2     uint64
	Root   []byte
	// deposit
	To, Denom string
	Amt       *big.Int
	Data      []byte
	// finalize
	Seq                        uint64
	Proofs                     [][]byte
	From                       string
	Version, SRoot, BHash      []byte
	// updates
	NewAddr   string
	Submitter string
	Chain     uint64
	Flag      bool
	Meta      []byte
	Fee       []HookSend
	Config    *L1Config
	FromID, ToID uint64
	// env
	Port, Chan string
	Val        uint64
	Has        bool
}

func coqPC(port, ch string) string { return fmt.Sprintf("(%s, %s)", coqStr(port), coqStr(ch)) }

func (o L1Op) CoqMsg() string {
	switch o.Kind {
	case "create":
		return fmt.Sprintf("MCreateBridge %s %s", coqStr(o.Sender), o.Config.Coq())
	case "propose":
		return fmt.Sprintf("MPropose %s %s %s %s %s", coqStr(o.Sender), coqU(o.Bridge), coqU(o.Idx), coqU(o.L2), coqBytes(o.Root))
	case "delete":
		return fmt.Sprintf("MDelete %s %s %s", coqStr(o.Sender), coqU(o.Bridge), coqU(o.Idx))
	case "deposit":
		return fmt.Sprintf("MDeposit %s %s %s %s %s %s", coqStr(o.Sender), coqU(o.Bridge), coqStr(o.To), coqStr(o.Denom), coqZ(o.Amt), coqBytes(o.Data))
	case "finalize":
		ps := []string{}
		for _, p := range o.Proofs {
			ps = append(ps, coqBytes(p))
		}
		return fmt.Sprintf("MFinalize %s %s %s %s %s %s %s %s %s %s %s %s", coqStr(o.Sender), coqU(o.Bridge), coqU(o.Idx), coqU(o.Seq),
			coqList(ps), coqStr(o.From), coqStr(o.To), coqStr(o.Denom), coqZ(o.Amt), coqBytes(o.Version), coqBytes(o.SRoot), coqBytes(o.BHash))
	case "uproposer":
		return fmt.Sprintf("MUpdateProposer %s %s %s", coqStr(o.Sender), coqU(o.Bridge), coqStr(o.NewAddr))
	case "uchallenger":
		return fmt.Sprintf("MUpdateChallenger %s %s %s", coqStr(o.Sender), coqU(o.Bridge), coqStr(o.NewAddr))
	case "ubatch":
		return fmt.Sprintf("MUpdateBatchInfo %s %s {| b_submitter := %s; b_chain := %s |}", coqStr(o.Sender), coqU(o.Bridge), coqStr(o.Submitter), coqU(o.Chain))
	case "uoracle":
		return fmt.Sprintf("MUpdateOracle %s %s %s", coqStr(o.Sender), coqU(o.Bridge), coqBool(o.Flag))
	case "umeta":
		return fmt.Sprintf("MUpdateMetadata %s %s %s", coqStr(o.Sender), coqU(o.Bridge), coqBytes(o.Meta))
	case "uparams":
		cs := []string{}
		for _, c := range o.Fee {
			cs = append(cs, fmt.Sprintf("(%s, %s)", coqStr(c.Denom), coqZ(c.Amt)))
		}
		return fmt.Sprintf("MUpdateParams %s %s", coqStr(o.Sender), coqList(cs))
	case "recordbatch":
		return fmt.Sprintf("MRecordBatch %s %s %s", coqStr(o.Sender), coqU(o.Bridge), coqBytes(o.Data))
	case "send":
		return fmt.Sprintf("MBankSend %s %s %s %s", coqU(o.FromID), coqU(o.ToID), coqStr(o.Denom), coqZ(o.Amt))
	case "chanset":
		v := "None"
		if o.Has {
			v = "(Some " + coqU(o.Val) + ")"
		}
		return fmt.Sprintf("MChanSet %s %s", coqPC(o.Port, o.Chan), v)
	case "adminset":
		v := "None"
		if o.Has {
			v = "(Some " + coqU(o.Val) + ")"
		}
		return fmt.Sprintf("MAdminSet %s %s", coqPC(o.Port, o.Chan), v)
	}
	panic("unknown L1 op " + o.Kind)
}
func (o L1Op) Coq() string {
	return fmt.Sprintf("({| now := %s; height := %s |}, %s)", coqI(o.Now), coqU(o.Height), o.CoqMsg())
}

// L1Exec executes one op atomically on the implementation at the op's block time/height.
func (e *L1Env) L1Exec(o L1Op) ExecResult {
	e.Ctx = e.Ctx.WithBlockTime(time.Unix(0, o.Now).UTC()).WithBlockHeight(int64(o.Height))
	return execAtomic(e.Ctx, func(ctx sdk.Context) (interface{}, error) {
		switch o.Kind {
		case "create":
			return e.Msg.CreateBridge(ctx, &ophosttypes.MsgCreateBridge{Creator: o.Sender, Config: o.Config.Real()})
		case "propose":
			return e.Msg.ProposeOutput(ctx, &ophosttypes.MsgProposeOutput{Proposer: o.Sender, BridgeId: o.Bridge, OutputIndex: o.Idx, L2BlockNumber: o.L2, OutputRoot: o.Root})
		case "delete":
			return e.Msg.DeleteOutput(ctx, &ophosttypes.MsgDeleteOutput{Challenger: o.Sender, BridgeId: o.Bridge, OutputIndex: o.Idx})
		case "deposit":
			return e.Msg.InitiateTokenDeposit(ctx, &ophosttypes.MsgInitiateTokenDeposit{Sender: o.Sender, BridgeId: o.Bridge, To: o.To, Amount: coinOf(o.Denom, o.Amt), Data: o.Data})
		case "finalize":
			return e.Msg.FinalizeTokenWithdrawal(ctx, &ophosttypes.MsgFinalizeTokenWithdrawal{Sender: o.Sender, BridgeId: o.Bridge, OutputIndex: o.Idx,
				WithdrawalProofs: o.Proofs, From: o.From, To: o.To, Sequence: o.Seq, Amount: coinOf(o.Denom, o.Amt), Version: o.Version, StorageRoot: o.SRoot, LastBlockHash: o.BHash})
		case "uproposer":
			return e.Msg.UpdateProposer(ctx, &ophosttypes.MsgUpdateProposer{Authority: o.Sender, BridgeId: o.Bridge, NewProposer: o.NewAddr})
		case "uchallenger":
			return e.Msg.UpdateChallenger(ctx, &ophosttypes.MsgUpdateChallenger{Authority: o.Sender, BridgeId: o.Bridge, Challenger: o.NewAddr})
		case "ubatch":
			return e.Msg.UpdateBatchInfo(ctx, &ophosttypes.MsgUpdateBatchInfo{Authority: o.Sender, BridgeId: o.Bridge, NewBatchInfo: ophosttypes.BatchInfo{Submitter: o.Submitter, ChainType: ophosttypes.BatchInfo_ChainType(o.Chain)}})
		case "uoracle":
			return e.Msg.UpdateOracleConfig(ctx, &ophosttypes.MsgUpdateOracleConfig{Authority: o.Sender, BridgeId: o.Bridge, OracleEnabled: o.Flag})
		case "umeta":
			return e.Msg.UpdateMetadata(ctx, &ophosttypes.MsgUpdateMetadata{Authority: o.Sender, BridgeId: o.Bridge, Metadata: o.Meta})
		case "uparams":
			var cs sdk.Coins
			for _, c := range o.Fee {
				cs = append(cs, coinOf(c.Denom, c.Amt))
			}
			return e.Msg.UpdateParams(ctx, &ophosttypes.MsgUpdateParams{Authority: o.Sender, Params: &ophosttypes.Params{RegistrationFee: cs}})
		case "recordbatch":
			return e.Msg.RecordBatch(ctx, &ophosttypes.MsgRecordBatch{Submitter: o.Sender, BridgeId: o.Bridge, BatchBytes: o.Data})
		case "send":
			return nil, e.BK.SendCoins(ctx, e.AddrOf(o.FromID), e.AddrOf(o.ToID), sdk.Coins{coinOf(o.Denom, o.Amt)})
		case "chanset", "adminset":
			if e.EnvOp == nil {
				panic("no env-op handler")
			}
			return nil, e.EnvOp(ctx, o)
		}
		panic("unknown op " + o.Kind)
	})
}

type L1Track struct {
	Accts    []uint64
	Denoms   []string
	Bridges  []uint64
	Claims   [][2]string // (bridge id decimal, hash hex)
	Channels [][2]string
}

func outputOv(idx uint64, o ophosttypes.Output) Ov {
	return ol(onU(idx), OB{o.OutputRoot}, onU(o.L1BlockNumber), ozI(o.L1BlockTime.UnixNano()), onU(o.L2BlockNumber))
}

func (e *L1Env) L1Obs(tr *L1Track, r ExecResult) Ov {
	ctx := e.Ctx
	var res Ov
	if !r.OK {
		res = OS{"ERR"}
	} else {
		var rv Ov = OS{"-"}
		switch x := r.Resp.(type) {
		case *ophosttypes.MsgCreateBridgeResponse:
			rv = onU(x.BridgeId)
		case *ophosttypes.MsgInitiateTokenDepositResponse:
			rv = onU(x.Sequence)
		case *ophosttypes.MsgUpdateProposerResponse:
			rv = ol(onU(x.OutputIndex), onU(x.L2BlockNumber))
		case *ophosttypes.MsgUpdateChallengerResponse:
			rv = ol(onU(x.OutputIndex), onU(x.L2BlockNumber))
		case *ophosttypes.MsgUpdateBatchInfoResponse:
			rv = ol(onU(x.OutputIndex), onU(x.L2BlockNumber))
		case *ophosttypes.MsgUpdateMetadataResponse:
			rv = ol(onU(x.OutputIndex), onU(x.L2BlockNumber))
		}
		res = ol(OS{"OK"}, rv)
	}
	nb, err := e.K.GetNextBridgeId(ctx)
	if err != nil {
		panic(err)
	}
	var bals, brs, claims, devs, adm, fee []Ov
	for _, a := range tr.Accts {
		for _, d := range tr.Denoms {
			bals = append(bals, ozB(e.BK.GetBalance(ctx, e.AddrOf(a), d).Amount.BigInt()))
		}
	}
	e.bridgesList = nil
	if all, err := e.Q.Bridges(ctx, &ophosttypes.QueryBridgesRequest{Pagination: &query.PageRequest{Limit: 100000}}); err != nil {
		e.queryDiff("Query/Bridges fails: %v", err)
	} else {
		e.bridgesList = map[uint64]ophosttypes.QueryBridgeResponse{}
		for _, x := range all.Bridges {
			e.bridgesList[x.BridgeId] = x
		}
	}
	defer func() { e.ObsCount++ }()
	for _, b := range tr.Bridges {
		var cfgOv Ov = ol()
		cfg, cerr := e.K.GetBridgeConfig(ctx, b)
		if cerr == nil {
			cfgOv = ol(ol(OB{[]byte(cfg.Proposer)}, OB{[]byte(cfg.Challenger)}, ozI(int64(cfg.FinalizationPeriod)), obool(cfg.OracleEnabled),
				OB{cfg.Metadata}, OB{[]byte(cfg.BatchInfo.Submitter)}, onU(uint64(cfg.BatchInfo.ChainType))))
		}
		ns, _ := e.K.GetNextL1Sequence(ctx, b)
		if q, err := e.Q.NextL1Sequence(ctx, &ophosttypes.QueryNextL1SequenceRequest{BridgeId: b}); err != nil {
			e.queryDiff("NextL1Sequence(%d) fails: %v", b, err)
		} else {
			if q.NextL1Sequence != ns {
				e.queryDiff("Query/NextL1Sequence(%d) = %d but the stored counter is %d", b, q.NextL1Sequence, ns)
			}
			ns = q.NextL1Sequence // the observation carries what the query answers
		}
		e.checkBridgeQueries(ctx, tr, b, cfg, cerr)
		no, _ := e.K.GetNextOutputIndex(ctx, b)
		var outs, prs, bts []Ov
		// explicit page limit: without a page request the query stops after 100 entries
		resp, err := e.Q.OutputProposals(ctx, &ophosttypes.QueryOutputProposalsRequest{BridgeId: b, Pagination: &query.PageRequest{Limit: 1000000}})
		if err != nil {
			panic(err)
		}
		for _, op := range resp.OutputProposals {
			outs = append(outs, outputOv(op.OutputIndex, op.OutputProposal))
			stored, serr := e.K.GetOutputProposal(ctx, b, op.OutputIndex)
			one, qerr := e.Q.OutputProposal(ctx, &ophosttypes.QueryOutputProposalRequest{BridgeId: b, OutputIndex: op.OutputIndex})
			switch {
			case serr != nil || qerr != nil:
				e.queryDiff("output (%d, %d) is listed by Query/OutputProposals but the stored read / Query/OutputProposal fails: %v / %v", b, op.OutputIndex, serr, qerr)
			case one.BridgeId != b || one.OutputIndex != op.OutputIndex || !one.OutputProposal.Equal(stored) || !op.OutputProposal.Equal(stored):
				e.queryDiff("Query/OutputProposal(%d, %d) or the listed proposal differs from the stored output", b, op.OutputIndex)
			}
		}
		var lf Ov = ol()
		if cerr == nil {
			q, err := e.Q.LastFinalizedOutput(ctx, &ophosttypes.QueryLastFinalizedOutputRequest{BridgeId: b})
			if err != nil {
				panic(err)
			}
			lf = ol(onU(q.OutputIndex), onU(q.OutputProposal.L2BlockNumber))
		}
		tp, err := e.Q.TokenPairs(ctx, &ophosttypes.QueryTokenPairsRequest{BridgeId: b, Pagination: &query.PageRequest{Limit: 1000000}})
		if err != nil {
			panic(err)
		}
		for _, p := range tp.TokenPairs {
			prs = append(prs, ol(OB{[]byte(p.L2Denom)}, OB{[]byte(p.L1Denom)}))
		}
		bi, err := e.Q.BatchInfos(ctx, &ophosttypes.QueryBatchInfosRequest{BridgeId: b})
		if err != nil {
			panic(err)
		}
		for i, x := range bi.BatchInfos {
			bts = append(bts, ol(onU(uint64(i)), OB{[]byte(x.BatchInfo.Submitter)}, onU(uint64(x.BatchInfo.ChainType)), onU(x.Output.L2BlockNumber), OB{x.Output.OutputRoot}))
		}
		brs = append(brs, ol(cfgOv, onU(ns), onU(no), OL{outs}, lf, OL{prs}, OL{bts}))
	}
	for _, c := range tr.Claims {
		b, _ := strconv.ParseUint(c[0], 10, 64)
		h, _ := hex.DecodeString(c[1])
		q, err := e.Q.Claimed(ctx, &ophosttypes.QueryClaimedRequest{BridgeId: b, WithdrawalHash: h})
		if err != nil {
			panic(err)
		}
		claims = append(claims, obool(q.Claimed))
	}
	for _, ev := range r.Events {
		if ev.Type == ophosttypes.EventTypeInitiateTokenDeposit {
			b, _ := strconv.ParseUint(attr(ev, ophosttypes.AttributeKeyBridgeId), 10, 64)
			s, _ := strconv.ParseUint(attr(ev, ophosttypes.AttributeKeyL1Sequence), 10, 64)
			amt, _ := new(big.Int).SetString(attr(ev, ophosttypes.AttributeKeyAmount), 10)
			data, _ := hex.DecodeString(attr(ev, ophosttypes.AttributeKeyData))
			devs = append(devs, ol(onU(b), onU(s), OB{[]byte(attr(ev, ophosttypes.AttributeKeyFrom))}, OB{[]byte(attr(ev, ophosttypes.AttributeKeyTo))},
				OB{[]byte(attr(ev, ophosttypes.AttributeKeyL1Denom))}, OB{[]byte(attr(ev, ophosttypes.AttributeKeyL2Denom))}, ozB(amt), OB{data}))
		}
	}
	for _, pc := range tr.Channels {
		if e.AdminOf == nil {
			adm = append(adm, ol())
			continue
		}
		if a, ok := e.AdminOf(ctx, pc[0], pc[1]); ok {
			adm = append(adm, ol(onU(a)))
		} else {
			adm = append(adm, ol())
		}
	}
	for _, c := range e.K.GetParams(ctx).RegistrationFee {
		fee = append(fee, ol(OB{[]byte(c.Denom)}, ozB(c.Amount.BigInt())))
	}
	return ol(res, onU(nb), OL{bals}, OL{brs}, OL{claims}, OL{devs}, OL{adm}, OL{fee})
}

// ---- a recorded L1 case ----
type L1Case struct {
	ID      int
	Env     *L1Env
	Track   *L1Track
	Bals    []string
	Chans   []string
	Parse   map[string]string // metadata hex -> coq option literal
	Ops     []L1Op
	Obs     []Ov
	Results []ExecResult
}

func (c *L1Case) Snapshot() {
	e := c.Env
	for _, a := range c.Track.Accts {
		for _, d := range c.Track.Denoms {
			b := e.BK.GetBalance(e.Ctx, e.AddrOf(a), d).Amount.BigInt()
			if b.Sign() != 0 {
				c.Bals = append(c.Bals, fmt.Sprintf("(%s, %s, %s)", coqU(a), coqStr(d), coqZ(b)))
			}
		}
	}
}
func (c *L1Case) Do(o L1Op) ExecResult {
	r := c.Env.L1Exec(o)
	c.Ops = append(c.Ops, o)
	c.Results = append(c.Results, r)
	c.Obs = append(c.Obs, nil) // filled by Finish: the tracked claim list grows during the run
	return r
}

// DoObs executes and observes immediately (the tracked sets must already be final).
func (c *L1Case) DoObs(o L1Op) ExecResult {
	r := c.Env.L1Exec(o)
	c.Ops = append(c.Ops, o)
	c.Results = append(c.Results, r)
	c.Obs = append(c.Obs, c.Env.L1Obs(c.Track, r))
	return r
}

func (c *L1Case) Coq() string {
	e := c.Env
	var tbl, accts, denoms, brs, claims, chans, ops, obs, parse []string
	for _, s := range sortedKeys(e.Table) {
		tbl = append(tbl, fmt.Sprintf("(%s, %s)", coqStr(s), coqU(e.Table[s])))
	}
	for _, a := range c.Track.Accts {
		accts = append(accts, coqU(a))
	}
	for _, d := range c.Track.Denoms {
		denoms = append(denoms, coqStr(d))
	}
	for _, b := range c.Track.Bridges {
		brs = append(brs, coqU(b))
	}
	for _, cl := range c.Track.Claims {
		h, _ := hex.DecodeString(cl[1])
		claims = append(claims, fmt.Sprintf("(%s%%N, %s)", cl[0], coqBytes(h)))
	}
	for _, pc := range c.Track.Channels {
		chans = append(chans, coqPC(pc[0], pc[1]))
	}
	for _, k := range sortedKeys(c.Parse) {
		h, _ := hex.DecodeString(k)
		parse = append(parse, fmt.Sprintf("(%s, %s)", coqBytes(h), c.Parse[k]))
	}
	for _, o := range c.Ops {
		ops = append(ops, o.Coq())
	}
	for _, o := range c.Obs {
		obs = append(obs, o.Coq())
	}
	return fmt.Sprintf("(%d%%N,\n {| k_table := %s;\n    k_gov := %s; k_pool := %s;\n    k_parse := %s;\n    k_bals := %s;\n    k_chans := %s;\n    k_accts := %s; k_denoms := %s; k_bridges := %s;\n    k_claims := %s;\n    k_channels := %s;\n    k_ops := %s |},\n %s)",
		c.ID, coqList(tbl), coqStr(e.Auth), coqU(ModDistr), coqList(parse), coqList(c.Bals), coqList(c.Chans), coqList(accts), coqList(denoms), coqList(brs),
		coqList(claims), coqList(chans), "[\n      "+strings.Join(ops, ";\n      ")+"]", "[\n  "+strings.Join(obs, ";\n  ")+"]")
}

const l1CaseHeader = `Require Import Model.Bytes Model.Obs Model.Bank Model.L1 Model.TraceL1.
From Coq Require Import List NArith ZArith String.
Import ListNotations.
Local Open Scope string_scope.
`

func l1OpsHuman(ops []L1Op) []string {
	internOff = true
	defer func() { internOff = false }()
	out := make([]string, len(ops))
	for i, o := range ops {
		out[i] = o.Coq()
	}
	return out
}

// ---- independent tree builder (x/crypto/sha3 directly, not the repo helpers) ----
type Withdrawal struct {
	Bridge, Seq      uint64
	From, To, Denom  string
	Amt              *big.Int
}

func sortedPair(a, b []byte) []byte {
	if bytes.Compare(a, b) <= 0 {
		return append(append([]byte{}, a...), b...)
	}
	return append(append([]byte{}, b...), a...)
}

var _ = sort.Strings

// ---- observation hygiene: queries vs keeper reads ----
func (e *L1Env) queryDiff(format string, args ...interface{}) {
	e.QueryDiffs = append(e.QueryDiffs, QueryDiff{Obs: e.ObsCount, What: fmt.Sprintf(format, args...)})
}

// checkBridgeQueries compares Query/Bridge, the entry of Query/Bridges, Query/TokenPairByL1Denom
// and Query/TokenPairByL2Denom of one tracked bridge with the keeper reads and the documented
// derivations (escrow address, L2 denom) computed in the harness
func (e *L1Env) checkBridgeQueries(ctx sdk.Context, tr *L1Track, b uint64, cfg ophosttypes.BridgeConfig, cerr error) {
	one, qerr := e.Q.Bridge(ctx, &ophosttypes.QueryBridgeRequest{BridgeId: b})
	listed, inList := e.bridgesList[b]
	want := escrowAddr(b).String()
	if cerr != nil {
		if qerr == nil {
			e.queryDiff("Query/Bridge(%d) answers although no config is stored", b)
		}
		if inList && e.bridgesList != nil {
			e.queryDiff("Query/Bridges lists bridge %d although no config is stored", b)
		}
	} else {
		switch {
		case qerr != nil:
			e.queryDiff("Query/Bridge(%d) fails although a config is stored: %v", b, qerr)
		case one.BridgeId != b || !one.BridgeConfig.Equal(cfg):
			e.queryDiff("Query/Bridge(%d) differs from the stored config", b)
		case one.BridgeAddr != want:
			e.queryDiff("Query/Bridge(%d) announces the escrow address %s, the documented derivation gives %s", b, one.BridgeAddr, want)
		}
		if e.bridgesList != nil {
			switch {
			case !inList:
				e.queryDiff("Query/Bridges does not list bridge %d although a config is stored", b)
			case !listed.BridgeConfig.Equal(cfg):
				e.queryDiff("the entry of bridge %d in Query/Bridges differs from the stored config", b)
			case listed.BridgeAddr != want:
				e.queryDiff("Query/Bridges announces the escrow address %s for bridge %d, the documented derivation gives %s", listed.BridgeAddr, b, want)
			}
		}
	}
	for _, d := range tr.Denoms {
		l2 := indepDenom(b, d)
		if b == 0 {
			continue
		}
		if r, err := e.Q.TokenPairByL1Denom(ctx, &ophosttypes.QueryTokenPairByL1DenomRequest{BridgeId: b, L1Denom: d}); err != nil || r.TokenPair.L1Denom != d || r.TokenPair.L2Denom != l2 {
			e.queryDiff("Query/TokenPairByL1Denom(%d, %s) is not the documented derivation %s", b, d, l2)
		}
		stored, serr := e.K.GetTokenPair(ctx, b, l2)
		r, rerr := e.Q.TokenPairByL2Denom(ctx, &ophosttypes.QueryTokenPairByL2DenomRequest{BridgeId: b, L2Denom: l2})
		switch {
		case (serr == nil) != (rerr == nil):
			e.queryDiff("Query/TokenPairByL2Denom(%d, %s): stored read err=%v, query err=%v", b, l2, serr, rerr)
		case serr == nil && (r.TokenPair.L1Denom != stored || r.TokenPair.L2Denom != l2):
			e.queryDiff("Query/TokenPairByL2Denom(%d, %s) = %s but the stored pair is %s", b, l2, r.TokenPair.L1Denom, stored)
		}
	}
}
