package main

import (
	"crypto/sha256"
	"encoding/hex"
	"fmt"
	"io"
	"math/big"
	"os"
	"runtime"
	"sort"
	"strings"
	"time"

	"cosmossdk.io/log"
	storetypes "cosmossdk.io/store/types"
	abci "github.com/cometbft/cometbft/abci/types"
	"github.com/cosmos/cosmos-sdk/telemetry"
	sdk "github.com/cosmos/cosmos-sdk/types"
	"github.com/cosmos/gogoproto/proto"
	"github.com/rs/zerolog"

	opchild "github.com/initia-labs/OPinit/x/opchild"
)

// C18: state transitions are deterministic.  Every generated history is executed R times
// (quick 3, thorough 8) on fresh instances inside this process - hence under independent
// runtime map-iteration orders - and everything observable is compared byte for byte:
// verdict, error string, response bytes, the complete event list in order, the validator
// update list in order, and after every operation the raw key/value dump of every mounted
// store.  Three history families: (l1) the generic random L1 history, (l2) random L2 message
// schedules, (val) L2 blocks with validator additions/removals (>= 3 simultaneous removals)
// run through the real BeginBlocker/EndBlocker.  (l1) and (l2) are also re-executed by the
// model (projected observables).

func init() { register("C18", genC18) }

// fingerprint of one executed operation
type c18Print struct {
	OK      bool
	Err     string
	Resp    string
	Events  string
	Updates string
	Gas     uint64 // gas consumed by the operation (fresh meter per operation), also when it fails
	Stores  string // hash of the raw dump of all stores after the operation
}

func (a c18Print) diff(b c18Print) string {
	switch {
	case a.OK != b.OK:
		return "verdict"
	case a.Err != b.Err:
		return "error-string"
	case a.Resp != b.Resp:
		return "response"
	case a.Updates != b.Updates:
		return "validator-updates"
	case a.Events != b.Events:
		return "events"
	case a.Stores != b.Stores:
		return "store-bytes"
	case a.Gas != b.Gas:
		return "gas" // everything else is equal
	}
	return ""
}

func dumpStores(ctx sdk.Context, keys map[string]*storetypes.KVStoreKey) (string, int) {
	h := sha256.New()
	n := 0
	for _, name := range sortedKeys(keys) {
		fmt.Fprintf(h, "store %s\n", name)
		it := ctx.KVStore(keys[name]).Iterator(nil, nil)
		for ; it.Valid(); it.Next() {
			k, v := it.Key(), it.Value()
			fmt.Fprintf(h, "%d:%x=%d:%x\n", len(k), k, len(v), v)
			n++
		}
		it.Close()
	}
	return hex.EncodeToString(h.Sum(nil)), n
}

func eventsString(evs sdk.Events) string {
	var sb strings.Builder
	for _, ev := range evs {
		sb.WriteString(ev.Type)
		sb.WriteString("{")
		for _, a := range ev.Attributes {
			fmt.Fprintf(&sb, "%q=%q,", a.Key, a.Value)
		}
		sb.WriteString("}")
	}
	return sb.String()
}

func respString(r interface{}) string {
	switch x := r.(type) {
	case nil:
		return ""
	case []abci.ValidatorUpdate:
		return ""
	case proto.Message:
		bz, err := proto.Marshal(x)
		if err != nil {
			return "marshal-error:" + err.Error()
		}
		return fmt.Sprintf("%T:%x", r, bz)
	}
	return fmt.Sprintf("%T:%v", r, r)
}

func updatesString(r interface{}) string {
	ups, ok := r.([]abci.ValidatorUpdate)
	if !ok {
		return ""
	}
	var sb strings.Builder
	for _, u := range ups {
		bz, err := proto.Marshal(&u)
		if err != nil {
			panic(err)
		}
		fmt.Fprintf(&sb, "%x;", bz)
	}
	return sb.String()
}

func printOf(r ExecResult, ctx sdk.Context, keys map[string]*storetypes.KVStoreKey) c18Print {
	st, _ := dumpStores(ctx, keys)
	return c18Print{OK: r.OK, Err: r.Err, Resp: respString(r.Resp), Events: eventsString(r.Events), Updates: updatesString(r.Resp),
		Gas: ctx.GasMeter().GasConsumed(), Stores: st}
}

// a fresh gas meter before every compared operation: what it consumes (also on the branch of a
// failing message, which baseapp reports as gas used) is part of the compared trace
// (the same hook also applies the node-local, non-consensus settings that live on the context: the
// logger implementation / level and the operator's min-gas-prices, which only CheckTx may look at)
func freshGasL1(e *L1Env) { e.Ctx = c18LocalCtx(e.Ctx.WithGasMeter(storetypes.NewInfiniteGasMeter())) }
func freshGasL2(e *L2Env) { e.Ctx = c18LocalCtx(e.Ctx.WithGasMeter(storetypes.NewInfiniteGasMeter())) }

var c18CtxEnv int
var c18TelemetryOn bool

// the SDK's telemetry switch is a process-global set from the operator's app.toml
func c18SetTelemetry(on bool) {
	if on == c18TelemetryOn {
		return
	}
	if _, err := telemetry.New(telemetry.Config{Enabled: on, ServiceName: "c18", EnableHostname: false}); err != nil {
		panic(err)
	}
	c18TelemetryOn = on
}

var c18Loggers = []log.Logger{log.NewNopLogger(), log.NewLogger(io.Discard), log.NewLogger(io.Discard, log.LevelOption(zerolog.ErrorLevel)), log.NewNopLogger()}

func c18LocalCtx(ctx sdk.Context) sdk.Context {
	ctx = ctx.WithLogger(c18Loggers[c18CtxEnv%len(c18Loggers)])
	if ctx.IsCheckTx() {
		return ctx
	}
	switch c18CtxEnv % 4 {
	case 1:
		return ctx.WithMinGasPrices(sdk.DecCoins{sdk.NewInt64DecCoin("uinit", 7), sdk.NewInt64DecCoin("unative", 1000000)})
	case 2:
		return ctx.WithMinGasPrices(sdk.DecCoins{sdk.NewInt64DecCoin("l2/none", 1)})
	}
	return ctx.WithMinGasPrices(nil)
}

// every execution of a history runs on its OWN fresh goroutine (sequentially; the calling
// goroutine only waits and compares): anything that leaks goroutine identity or stack
// addresses into an observable differs between executions
// The node's LOCAL ENVIRONMENT must not reach consensus: execution number x of a history runs with
// its own time zone (time.Local), TZ / LANG / LC_ALL / HOME variables, GOMAXPROCS and working
// directory (restored afterwards), on its own goroutine.
func inLocalEnv(x int, fn func()) {
	type envT struct {
		zone           *time.Location
		tz, lang, home string
		procs          int
		dir            string
		telemetry      bool // the SDK's process-global telemetry switch (app.toml [telemetry] enabled)
	}
	envs := []envT{
		{time.UTC, "UTC", "C", "/nonexistent-home-a", 1, "/", false},
		{time.FixedZone("A", 9*3600), "Asia/Tokyo", "ja_JP.UTF-8", "/tmp", 4, os.TempDir(), true},
		{time.FixedZone("B", -8*3600), "America/Los_Angeles", "en_US.UTF-8", "/root", 2, "/usr", false},
		{time.FixedZone("C", 5*3600+1800), "Asia/Kolkata", "de_DE.ISO-8859-1", "/", 3, "/var", true},
	}
	en := envs[x%len(envs)]
	c18SetTelemetry(en.telemetry)
	savedCtxEnv := c18CtxEnv
	c18CtxEnv = x % len(envs)
	defer func() {
		c18SetTelemetry(false)
		c18CtxEnv = savedCtxEnv
	}()
	savedZone, savedProcs := time.Local, runtime.GOMAXPROCS(0)
	savedDir, _ := os.Getwd()
	keys := []string{"TZ", "LANG", "LC_ALL", "HOME"}
	saved := map[string]*string{}
	for _, k := range keys {
		if v, ok := os.LookupEnv(k); ok {
			v := v
			saved[k] = &v
		} else {
			saved[k] = nil
		}
	}
	time.Local = en.zone
	os.Setenv("TZ", en.tz)
	os.Setenv("LANG", en.lang)
	os.Setenv("LC_ALL", en.lang)
	os.Setenv("HOME", en.home)
	runtime.GOMAXPROCS(en.procs)
	_ = os.Chdir(en.dir)
	defer func() {
		time.Local = savedZone
		runtime.GOMAXPROCS(savedProcs)
		for _, k := range keys {
			if saved[k] == nil {
				os.Unsetenv(k)
			} else {
				os.Setenv(k, *saved[k])
			}
		}
		if savedDir != "" {
			_ = os.Chdir(savedDir)
		}
	}()
	onOwnGoroutine(fn)
}

func onOwnGoroutine(fn func()) {
	done := make(chan interface{})
	go func() {
		defer func() { done <- recover() }()
		fn()
	}()
	if p := <-done; p != nil {
		panic(p)
	}
}

// compare R executions; report the first difference
// c18Known lets a family map a difference that is exactly the structural situation of a recorded
// known finding to that finding's signature (reported once per run, and the comparison goes on);
// every other difference keeps the generic signature and is a VIOLATION.
type c18Known func(step int, differsIn string, speculated bool) string

var c18KnownSeen = map[string]bool{}

// returns true when all executions agree (differences that are known findings do not count)
func c18Compare(rep *Report, id int, family string, runs [][]c18Print, human []string, known ...c18Known) bool {
	for k := 1; k < len(runs); k++ {
		if len(runs[k]) != len(runs[0]) {
			rep.Violate(Violation{Case: id, Step: 0, What: "executions have different lengths", Sig: "C18:nondeterministic-length", Ops: human})
			return false
		}
		for i := range runs[0] {
			if d := runs[0][i].diff(runs[k][i]); d != "" {
				sig := "C18:nondeterministic-" + d
				isKnown := false
				if len(known) > 0 && known[0] != nil {
					if ks := known[0](i, d, false); ks != "" {
						sig, isKnown = ks, true
					}
				}
				if !isKnown || !c18KnownSeen[sig] {
					c18KnownSeen[sig] = true
					rep.Violate(Violation{Case: id, Step: i, What: fmt.Sprintf("%s history: execution 1 and execution %d on fresh instances differ in %s at step %d (%s)", family, k+1, d, i, human[i]),
						Sig: sig, Ops: human[:i+1],
						Detail: map[string]interface{}{"execution_1": runs[0][i], fmt.Sprintf("execution_%d", k+1): runs[k][i]}})
				}
				if !isKnown {
					return false
				}
			}
		}
	}
	return true
}

// ---------------- L2 operations incl. block boundaries ----------------
type c18Op struct {
	Kind string // "msg" | "begin" | "end" | "plan"
	Msg  L2Op
	H    int64
	T    int64 // seconds after the base time
	// plan: RegisterExecutorChangePlan(PlanID, PlanH, operator OpID, key KeyID, executors Execs)
	PlanID, PlanH uint64
	OpID, KeyID   uint64
	Execs         []string
}

func (o c18Op) Human() string {
	switch o.Kind {
	case "begin":
		return fmt.Sprintf("BeginBlocker height=%d", o.H)
	case "end":
		return fmt.Sprintf("EndBlocker height=%d", o.H)
	case "plan":
		return fmt.Sprintf("RegisterExecutorChangePlan id=%d height=%d operator=%d key=%d executors=%v (process memory, not state)", o.PlanID, o.PlanH, o.OpID, o.KeyID, o.Execs)
	}
	internOff = true
	defer func() { internOff = false }()
	s := o.Msg.Coq()
	if o.Msg.Kind == "addval" || o.Msg.Kind == "rmval" {
		s = fmt.Sprintf("%s operator=%d key=%d sender=%s", o.Msg.Kind, o.Msg.OpID, o.Msg.KeyID, o.Msg.Sender)
	}
	return s
}

var c18Base = time.Date(2024, time.January, 1, 0, 0, 0, 0, time.UTC)

func c18ExecL2(e *L2Env, o c18Op) ExecResult {
	e.Ctx = e.Ctx.WithBlockHeight(o.H).WithBlockTime(c18Base.Add(time.Duration(o.T) * time.Second))
	switch o.Kind {
	case "begin":
		return execAtomic(e.Ctx, func(ctx sdk.Context) (interface{}, error) { return nil, opchild.BeginBlocker(ctx, e.K) })
	case "end":
		return execAtomic(e.Ctx, func(ctx sdk.Context) (interface{}, error) { return opchild.EndBlocker(ctx, e.K) })
	case "plan":
		return execAtomic(e.Ctx, func(ctx sdk.Context) (interface{}, error) {
			pk, err := e.Enc.Marshaler.MarshalInterfaceJSON(e.ValKeys[o.KeyID-1])
			if err != nil {
				return nil, err
			}
			return nil, e.K.RegisterExecutorChangePlan(o.PlanID, o.PlanH, e.ValOps[o.OpID-1].String(), "planned", string(pk), "info", o.Execs)
		})
	}
	return e.L2Exec(o.Msg)
}

// ---------------- speculative execution ----------------
// Run fn with the environment's context replaced by a cache branch that is then DISCARDED
// (write is never called): what a node does in an aborted optimistic execution, a re-processed
// proposal, a simulation.  Nothing of it may influence what the process computes afterwards.
func speculateL2(e *L2Env, fn func()) {
	saved := e.Ctx
	branch, _ := saved.CacheContext()
	e.Ctx = branch
	defer func() {
		recover() //nolint:errcheck // a panic on the throw-away branch is as irrelevant as its result
		e.Ctx = saved
	}()
	fn()
}
func speculateL1(e *L1Env, fn func()) {
	saved := e.Ctx
	branch, _ := saved.CacheContext()
	e.Ctx = branch
	defer func() {
		recover() //nolint:errcheck
		e.Ctx = saved
	}()
	fn()
}

// the speculation schedule of a history: how many discarded pre-executions precede each op
func c18SpecPlan(r *Rng, n int, always func(i int) bool, skip func(i int) bool) []int {
	out := make([]int, n)
	for i := range out {
		switch {
		case skip != nil && skip(i):
		case always != nil && always(i):
			out[i] = 1 + r.Intn(2)
		case r.Chance(30):
			out[i] = 1 + r.Intn(2)
		}
	}
	return out
}

// compare the execution with speculation against the plain reference execution
func c18CompareSpec(rep *Report, id int, family string, ref, spec []c18Print, human []string, plan []int, known ...c18Known) {
	for i := range ref {
		if i >= len(spec) {
			break
		}
		if d := ref[i].diff(spec[i]); d != "" {
			sig := "C18:depends-on-process-history"
			isKnown := false
			if len(known) > 0 && known[0] != nil {
				if ks := known[0](i, d, plan[i] > 0); ks != "" {
					sig, isKnown = ks, true
				}
			}
			if isKnown && c18KnownSeen[sig] {
				continue
			}
			c18KnownSeen[sig] = true
			var hist []string
			for j := 0; j <= i; j++ {
				if plan[j] > 0 {
					hist = append(hist, fmt.Sprintf("[first executed %dx on a discarded cache branch] %s", plan[j], human[j]))
				} else {
					hist = append(hist, human[j])
				}
			}
			rep.Violate(Violation{Case: id, Step: i, What: fmt.Sprintf("%s history: a fresh instance that first ran some operations on discarded state branches differs from a fresh instance that did not, in %s at step %d (%s)", family, d, i, human[i]),
				Sig: sig, Ops: hist,
				Detail: map[string]interface{}{"without_speculation": ref[i], "with_speculation": spec[i], "differs_in": d}})
			if !isKnown {
				return
			}
		}
	}
}

// ---------------- generators ----------------

// random L2 message schedule (as the random part of the C06 stream, plus executor changes)
func c18L2Messages(sc *L2Scenario, n int, smallHookGas bool) {
	e, r, c := sc.Env, sc.R, sc.Case
	if smallHookGas {
		// hook_max_gas so small that every hook transaction runs out of gas inside the ante chain:
		// the hook PANICS and handleBridgeHook's recover turns the panic into the event's reason
		ps, _ := e.K.GetParams(e.Ctx)
		np := &L2Params{Admin: ps.Admin, Execs: append([]string{}, ps.BridgeExecutors...), MaxV: uint64(ps.MaxValidators), Hist: uint64(ps.HistoricalEntries),
			MinGas: c.Params.MinGas, Whitelist: []string{}, HookGas: 2000}
		sc.register(e.Auth)
		c.Do(L2Op{Kind: "params", Sender: e.Auth, Params: np})
	}
	for i := 0; i < n; i++ {
		n1, _ := e.K.GetNextL1Sequence(e.Ctx)
		switch r.Weighted([]int{55, 12, 12, 8, 5}) {
		case 0:
			var seq uint64
			switch r.Weighted([]int{55, 25, 15, 5}) {
			case 0:
				seq = n1
			case 1:
				if n1 > 1 {
					seq = 1 + uint64(r.Intn(int(n1-1)))
				} else {
					seq = n1
				}
			case 2:
				seq = n1 + 1 + uint64(r.Intn(3))
			case 3:
				seq = 0
			}
			sender := sc.SenderString(r.Weighted([]int{60, 10, 20, 3, 3, 4}))
			to := e.User(uint64(1 + r.Intn(6))).Str
			if r.Chance(8) {
				to = sc.SenderString(5)
			}
			hook := Hook{Kind: "none"}
			switch r.Weighted([]int{60, 10, 30}) {
			case 1:
				hook = Hook{Kind: "garbage", Raw: append([]byte{0xff}, r.Bytes(1+r.Intn(12))...)}
			case 2:
				signer := uint64(1 + r.Intn(6))
				q := e.AccSeq(signer)
				if r.Chance(10) {
					q += 1 + uint64(r.Intn(2))
				}
				sends := []HookSend{{To: uint64(1 + r.Intn(6)), Denom: sc.Native, Amt: big.NewInt(int64(1 + r.Intn(20)))}}
				if r.Chance(20) {
					sends = append(sends, HookSend{To: uint64(1 + r.Intn(6)), Denom: sc.Native, Amt: big.NewInt(5000)}) // more than the balance
				}
				hook = e.MakeHookTx(signer, q, !r.Chance(10), sends)
			}
			c.Do(sc.Deposit(sender, seq, to, r.Intn(2), big.NewInt(int64(r.Intn(50))), hook))
		case 1:
			from, to := uint64(1+r.Intn(6)), uint64(1+r.Intn(6))
			d := c.Track.Denoms[r.Intn(len(c.Track.Denoms))]
			c.Do(L2Op{Kind: "send", FromID: from, ToID: to, Denom: d, Amt: big.NewInt(int64(1 + r.Intn(30)))})
		case 2:
			u := e.User(uint64(1 + r.Intn(6)))
			d := c.Track.Denoms[r.Intn(len(c.Track.Denoms))]
			c.Do(L2Op{Kind: "withdraw", Sender: u.Str, To: sc.L1Addrs[r.Intn(len(sc.L1Addrs))], Denom: d, Amt: big.NewInt(int64(1 + r.Intn(30)))})
		case 3:
			ps, _ := e.K.GetParams(e.Ctx)
			np := &L2Params{Admin: ps.Admin, MaxV: uint64(ps.MaxValidators), Hist: uint64(ps.HistoricalEntries), MinGas: c.Params.MinGas, Whitelist: []string{}, HookGas: ps.HookMaxGas}
			m := 1 + r.Intn(3)
			for j := 0; j < m; j++ {
				np.Execs = append(np.Execs, e.User(uint64(1+r.Intn(6))).Str)
			}
			if r.Chance(50) {
				// address lists with repeated entries: 3-6 distinct addresses, one or two of them twice
				// (Params.Validate accepts repetitions in both lists)
				dup := func() []string {
					perm := []uint64{1, 2, 3, 4, 5, 6}
					for i := len(perm) - 1; i > 0; i-- {
						j := r.Intn(i + 1)
						perm[i], perm[j] = perm[j], perm[i]
					}
					var l []string
					for _, u := range perm[:3+r.Intn(4)] {
						l = append(l, e.User(u).Str)
					}
					for x := 0; x < 1+r.Intn(2); x++ {
						pos := r.Intn(len(l) + 1)
						d := l[r.Intn(len(l))]
						l = append(l[:pos], append([]string{d}, l[pos:]...)...)
					}
					return l
				}
				np.Execs = dup()
				if r.Chance(70) {
					np.Whitelist = dup()
				}
			}
			auth := sc.SenderString(r.Weighted([]int{10, 0, 10, 75, 5, 0}))
			sc.register(auth)
			c.Do(L2Op{Kind: "params", Sender: auth, Params: np})
		case 4:
			ps, _ := e.K.GetParams(e.Ctx)
			sc.register(ps.Admin, e.Auth)
			inner := sc.Deposit(e.Auth, n1, e.User(4).Str, 0, big.NewInt(3), Hook{Kind: "none"})
			c.Do(L2Op{Kind: "exec", Sender: ps.Admin, Inner: []L2Op{inner}})
		}
	}
}

// validator blocks: the generator keeps its own picture of which operators / keys are in use
func c18ValidatorHistory(sc *L2Scenario, nBlocks int) []c18Op {
	e, r := sc.Env, sc.R
	var ops []c18Op
	h, t := int64(11), int64(0)
	do := func(o c18Op) ExecResult {
		o.H, o.T = h, t
		res := c18ExecL2(e, o)
		ops = append(ops, o)
		return res
	}
	msg := func(m L2Op) ExecResult { return do(c18Op{Kind: "msg", Msg: m}) }
	ps, _ := e.K.GetParams(e.Ctx)
	np := &L2Params{Admin: ps.Admin, Execs: append([]string{}, ps.BridgeExecutors...), MaxV: 5, Hist: uint64(1 + r.Intn(3)),
		MinGas: sc.Case.Params.MinGas, Whitelist: []string{}, HookGas: ps.HookMaxGas}
	msg(L2Op{Kind: "params", Sender: e.Auth, Params: np})
	present := map[uint64]uint64{} // operator id -> key id
	keyUsed := map[uint64]bool{}
	// executor-change plans live in process memory; they are registered (on every instance, at the
	// same point of the history) for future heights.  Operator / key 5 are kept for the plans most
	// of the time so that the change usually goes through.
	nPlans := 1 + r.Intn(2)
	planAt := map[int64]bool{}
	for i := 0; i < nPlans; i++ {
		ph := h + 1 + int64(r.Intn(nBlocks-1))
		if planAt[ph] && r.Chance(70) {
			continue
		}
		planAt[ph] = true
		op, key := uint64(5), uint64(5)
		if r.Chance(25) {
			op, key = uint64(1+r.Intn(5)), uint64(1+r.Intn(5))
		}
		execs := []string{e.User(1).Str, e.User(uint64(2 + r.Intn(4))).Str}
		if r.Chance(30) {
			execs = []string{e.User(uint64(2 + r.Intn(4))).Str}
		}
		do(c18Op{Kind: "plan", PlanID: uint64(i + 1), PlanH: uint64(ph), OpID: op, KeyID: key, Execs: execs})
	}
	freeOp := func() uint64 {
		var c []uint64
		for i := uint64(1); i <= 4; i++ {
			if _, ok := present[i]; !ok {
				c = append(c, i)
			}
		}
		if len(c) == 0 {
			return 0
		}
		return c[r.Intn(len(c))]
	}
	freeKey := func() uint64 {
		var c []uint64
		for i := uint64(1); i <= 5; i++ {
			if !keyUsed[i] {
				c = append(c, i)
			}
		}
		if len(c) == 0 {
			return 0
		}
		return c[r.Intn(len(c))]
	}
	add := func() {
		op, key := freeOp(), freeKey()
		if key == 5 && r.Chance(80) {
			key = 0
			for i := uint64(1); i <= 4; i++ {
				if !keyUsed[i] {
					key = i
				}
			}
		}
		if op == 0 || key == 0 || r.Chance(8) { // sometimes a colliding / unauthorised attempt
			op, key = uint64(1+r.Intn(5)), uint64(1+r.Intn(5))
		}
		sender := e.Auth
		if r.Chance(6) {
			sender = e.User(2).Str
		}
		if res := msg(L2Op{Kind: "addval", Sender: sender, OpID: op, KeyID: key}); res.OK {
			present[op] = key
			keyUsed[key] = true
		}
	}
	remove := func(op uint64) {
		if res := msg(L2Op{Kind: "rmval", Sender: e.Auth, OpID: op}); res.OK {
			// the record stays until the end blocker purges it
			_ = res
		}
	}
	endBlock := func() {
		do(c18Op{Kind: "end"})
		// re-read which operators / keys are in use (purges, and an executor change, happen here)
		vals, _ := e.K.GetAllValidators(e.Ctx)
		present = map[uint64]uint64{}
		keyUsed = map[uint64]bool{}
		for _, v := range vals {
			var opID, keyID uint64
			for i, a := range e.ValOps {
				if a.String() == v.OperatorAddress {
					opID = uint64(i + 1)
				}
			}
			if pk, err := v.ConsPubKey(); err == nil {
				for i, k := range e.ValKeys {
					if k.Equals(pk) {
						keyID = uint64(i + 1)
					}
				}
			}
			present[opID] = keyID
			keyUsed[keyID] = true
		}
		h++
		t += int64(1 + r.Intn(10))
		do(c18Op{Kind: "begin"})
	}
	do(c18Op{Kind: "begin"})
	for b := 0; b < nBlocks; b++ {
		switch {
		case b%3 == 0: // fill up
			for len(present) < 4 {
				before := len(present)
				add()
				if len(present) == before && r.Chance(50) {
					break
				}
			}
		case b%3 == 1: // >= 3 simultaneous removals, in a random request order
			var cur []uint64
			for op := range present {
				cur = append(cur, op)
			}
			sort.Slice(cur, func(i, j int) bool { return cur[i] < cur[j] })
			for i := len(cur) - 1; i > 0; i-- { // seeded shuffle
				j := r.Intn(i + 1)
				cur[i], cur[j] = cur[j], cur[i]
			}
			k := 3 + r.Intn(2)
			if k > len(cur)-1 {
				k = len(cur) - 1
			}
			for i := 0; i < k; i++ {
				remove(cur[i])
			}
			if r.Chance(30) {
				add() // and an addition in the same block
			}
		default: // a mixed block
			for i := 0; i < 1+r.Intn(3); i++ {
				if r.Bool() {
					add()
				} else if len(present) > 1 {
					var cur []uint64
					for op := range present {
						cur = append(cur, op)
					}
					sort.Slice(cur, func(i, j int) bool { return cur[i] < cur[j] })
					remove(cur[r.Intn(len(cur))])
				}
			}
		}
		// some ordinary traffic in every block
		n1, _ := e.K.GetNextL1Sequence(e.Ctx)
		d := sc.Deposit(e.User(1).Str, n1, e.User(uint64(1+r.Intn(6))).Str, r.Intn(2), big.NewInt(int64(1+r.Intn(40))), Hook{Kind: "none"})
		msg(d)
		if r.Chance(50) {
			msg(L2Op{Kind: "withdraw", Sender: e.User(uint64(1 + r.Intn(6))).Str, To: sc.L1Addrs[0], Denom: sc.Case.Track.Denoms[r.Intn(2)], Amt: big.NewInt(int64(1 + r.Intn(5)))})
		}
		endBlock()
	}
	return ops
}

func genC18(seed uint64, tier string, outdir string) *Report {
	rep := NewReport("C18", seed, tier)
	rep.Rule = "a case is one history executed R times on fresh instances (R = 3 quick, 8 thorough); distinct by hash of the op list; " +
		"non-trivial = at least one operation succeeded and one was rejected (validator histories: at least one block with >= 3 removals in its update list)"
	R, nL1, lenL1, nL2, lenL2, nVal, blocks := 3, 14, 50, 12, 60, 14, 9
	if tier == "thorough" {
		R, nL1, lenL1, nL2, lenL2, nVal, blocks = 8, 130, 90, 130, 120, 140, 15
	}
	id := 0
	// ---- (l1) generic random L1 histories ----
	var l1Texts []string
	for k := 0; k < nL1; k++ {
		id++
		s := seed*100000 + uint64(k)
		c := RunL1Twice(s, id, func(sc *L1Scenario) {
			for i := 0; i < lenL1; i++ {
				sc.RandomStep()
			}
		}, rep)
		human := l1OpsHuman(c.Ops)
		runs := make([][]c18Print, R)
		for x := 0; x < R; x++ {
			x := x
			inLocalEnv(x, func() {
				sc := NewL1Scenario(s, id, nil)
				for _, o := range c.Ops {
					freshGasL1(sc.Env)
					res := sc.Env.L1Exec(o)
					runs[x] = append(runs[x], printOf(res, sc.Env.Ctx, sc.Env.Keys))
				}
			})
		}
		if c18Compare(rep, id, "L1", runs, human) { // the same history on a fresh instance that pre-executes operations on discarded branches
			plan := c18SpecPlan(NewRng(s^0x5bec), len(c.Ops), nil, nil)
			sc := NewL1Scenario(s, id, nil)
			var spec []c18Print
			inLocalEnv(R, func() {
				for i, o := range c.Ops {
					for x := 0; x < plan[i]; x++ {
						speculateL1(sc.Env, func() { sc.Env.L1Exec(o) })
						rep.Hist("l1:speculated")
					}
					freshGasL1(sc.Env)
					res := sc.Env.L1Exec(o)
					spec = append(spec, printOf(res, sc.Env.Ctx, sc.Env.Keys))
				}
			})
			c18CompareSpec(rep, id, "L1", runs[0], spec, human, plan)
			rep.Ops += len(c.Ops)
		}
		ok, bad := false, false
		for i, p := range runs[0] {
			if p.OK != c.Results[i].OK {
				rep.Violate(Violation{Case: id, Step: i, What: "L1 history: a repeated execution gave a different verdict than the generating execution", Sig: "C18:nondeterministic-verdict", Ops: human[:i+1]})
				break
			}
			if p.OK {
				ok = true
				rep.Hist("l1:" + c.Ops[i].Kind + ":OK")
			} else {
				bad = true
				rep.Hist("l1:" + c.Ops[i].Kind + ":ERR")
			}
		}
		rep.Ops += len(c.Ops) * R
		rep.CountCase(strings.Join(human, "\n"), ok && bad)
		if k == 0 {
			rep.Sample(map[string]interface{}{"kind": "L1 history (first ops), executed " + fmt.Sprint(R) + " times", "ops": human[:min(8, len(human))]})
		}
		l1Texts = append(l1Texts, c.Coq())
	}
	// ---- (l2) random L2 message schedules ----
	var l2Texts []string
	for k := 0; k < nL2; k++ {
		id++
		s := seed*1000 + 500 + uint64(k)
		sc := NewL2Scenario(s, id, false)
		c18L2Messages(sc, lenL2, k%2 == 1)
		c := sc.Case
		human := opsCoq(c.Ops)
		runs := make([][]c18Print, R)
		for x := 0; x < R; x++ {
			x := x
			inLocalEnv(x, func() {
				f := NewL2Scenario(s, id, false)
				for _, o := range c.Ops {
					freshGasL2(f.Env)
					res := f.Env.L2Exec(o)
					runs[x] = append(runs[x], printOf(res, f.Env.Ctx, f.Env.Keys))
				}
			})
		}
		if c18Compare(rep, id, "L2", runs, human) {
			plan := c18SpecPlan(NewRng(s^0x5bec), len(c.Ops), nil, nil)
			f := NewL2Scenario(s, id, false)
			var spec []c18Print
			inLocalEnv(R, func() {
				for i, o := range c.Ops {
					for x := 0; x < plan[i]; x++ {
						speculateL2(f.Env, func() { f.Env.L2Exec(o) })
						rep.Hist("l2:speculated")
					}
					freshGasL2(f.Env)
					res := f.Env.L2Exec(o)
					spec = append(spec, printOf(res, f.Env.Ctx, f.Env.Keys))
				}
			})
			c18CompareSpec(rep, id, "L2", runs[0], spec, human, plan)
			rep.Ops += len(c.Ops)
		}
		ok, bad := false, false
		for i, p := range runs[0] {
			if p.OK != c.Results[i].OK {
				rep.Violate(Violation{Case: id, Step: i, What: "L2 history: a repeated execution gave a different verdict than the generating execution", Sig: "C18:nondeterministic-verdict", Ops: human[:i+1]})
				break
			}
			if strings.Contains(p.Events, "panic:") {
				rep.Hist("l2:fdep:hook-panicked")
			}
			if p.OK {
				ok = true
				rep.Hist("l2:" + c.Ops[i].Kind + ":OK")
			} else {
				bad = true
				rep.Hist("l2:" + c.Ops[i].Kind + ":ERR")
			}
		}
		rep.Ops += len(c.Ops) * R
		rep.CountCase(strings.Join(human, "\n"), ok && bad)
		l2Texts = append(l2Texts, c.Coq())
	}
	// ---- (val) validator blocks through the real begin / end blockers ----
	maxRemovals := 0
	for k := 0; k < nVal; k++ {
		id++
		s := seed*1000 + 900 + uint64(k)
		sc := NewL2Scenario(s, id, false)
		ops := c18ValidatorHistory(sc, blocks)
		var human []string
		for _, o := range ops {
			human = append(human, o.Human())
		}
		runs := make([][]c18Print, R)
		big3 := false
		for x := 0; x < R; x++ {
			x := x
			inLocalEnv(x, func() {
				f := NewL2Scenario(s, id, false)
				for _, o := range ops {
					freshGasL2(f.Env)
					res := c18ExecL2(f.Env, o)
					runs[x] = append(runs[x], printOf(res, f.Env.Ctx, f.Env.Keys))
					if ups, ok := res.Resp.([]abci.ValidatorUpdate); ok && x == 0 {
						rem := 0
						for _, u := range ups {
							if u.Power == 0 {
								rem++
							}
						}
						if rem >= 3 {
							big3 = true
						}
						if rem > maxRemovals {
							maxRemovals = rem
						}
						rep.Hist(fmt.Sprintf("val:endblock:removals=%d", rem))
					}
				}
			})
		}
		planHeights := map[int64]bool{}
		for i, o := range ops {
			if o.Kind == "msg" {
				v := "ERR"
				if runs[0][i].OK {
					v = "OK"
				}
				rep.Hist("val:" + o.Msg.Kind + ":" + v)
			} else if o.Kind == "plan" {
				v := "ERR"
				if runs[0][i].OK {
					v = "OK"
				}
				rep.Hist("val:plan:" + v)
				planHeights[int64(o.PlanH)] = runs[0][i].OK
			} else if !runs[0][i].OK {
				rep.Hist("val:" + o.Kind + ":ERR")
			} else if o.Kind == "end" && planHeights[o.H] {
				rep.Hist("val:endblock:executor-change-applied")
			}
		}
		if c18Compare(rep, id, "validator-block", runs, human) { // every begin / end blocker (and some messages) is first run once or twice on a discarded branch
			plan := c18SpecPlan(NewRng(s^0x5bec), len(ops),
				func(i int) bool { return ops[i].Kind == "end" || ops[i].Kind == "begin" },
				func(i int) bool { return ops[i].Kind == "plan" })
			f := NewL2Scenario(s, id, false)
			var spec []c18Print
			inLocalEnv(R, func() {
				for i, o := range ops {
					for x := 0; x < plan[i]; x++ {
						speculateL2(f.Env, func() { c18ExecL2(f.Env, o) })
						rep.Hist("val:speculated:" + o.Kind)
					}
					freshGasL2(f.Env)
					res := c18ExecL2(f.Env, o)
					spec = append(spec, printOf(res, f.Env.Ctx, f.Env.Keys))
				}
			})
			c18CompareSpec(rep, id, "validator-block", runs[0], spec, human, plan)
			rep.Ops += len(ops)
		}
		rep.Ops += len(ops) * R
		rep.CountCase(strings.Join(human, "\n"), big3)
		if k == 0 {
			rep.Sample(map[string]interface{}{"kind": "validator-block history (first ops)", "ops": human[:min(14, len(human))]})
		}
	}
	rep.Notes = append(rep.Notes,
		fmt.Sprintf("%d L1 histories x %d ops, %d L2 message schedules x %d ops, %d validator-block histories x %d blocks; each executed %d times on fresh instances; largest simultaneous removal seen: %d",
			nL1, lenL1, nL2, lenL2, nVal, blocks, R, maxRemovals),
		"compared across executions: verdict, error string, response bytes, complete event list in order, validator-update list in order, sha256 of the raw key/value dump of every mounted store after every operation",
		"not shown by this technique: dependence on wall-clock, randomness or process history is only sampled by repetition inside one process")
	genC18Oracle(rep, seed, tier, R, &id)
	genC18Genesis(rep, seed, tier, R, &id)
	genC18Hook(rep, seed, tier, R, &id)
	genC18Header(rep, seed, tier, R, &id)
	genC18Sched(rep, seed, tier, &id)
	if tier == "thorough" || os.Getenv("VERIF_C18_RACE") != "" {
		c18RaceExtra(rep, seed)
	}
	writeShards(outdir, "C18l1", l1CaseHeader, "run_l1case", "l1case", l1Texts, 8, rep)
	writeShards(outdir, "C18l2", l2CaseHeader, "run_l2case", "l2case", l2Texts, 8, rep)
	return rep
}
