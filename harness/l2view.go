package main

import (
	"fmt"
	"math/big"
	"strconv"

	sdk "github.com/cosmos/cosmos-sdk/types"
	banktypes "github.com/cosmos/cosmos-sdk/x/bank/types"

	opchildtypes "github.com/initia-labs/OPinit/x/opchild/types"
)

// MakeHookTx builds the hook payload described by Model/L2.v [HTx signer tx_seq sig_ok sends]:
// a tx of bank MsgSends / token withdrawals of the signer, signed over sequence txSeq; sigOK=false signs for a
// different chain id, so the signature does not verify.
func (e *L2Env) MakeHookTx(signer uint64, txSeq uint64, sigOK bool, sends []HookSend) Hook {
	u := e.User(signer)
	var msgs []sdk.Msg
	for i, s := range sends {
		if s.Withdraw {
			sends[i].Sender = u.Str
			msgs = append(msgs, &opchildtypes.MsgInitiateTokenWithdrawal{Sender: u.Str, To: s.ToL1, Amount: coinOf(s.Denom, s.Amt)})
			continue
		}
		msgs = append(msgs, &banktypes.MsgSend{FromAddress: u.Str, ToAddress: e.AddrOf(s.To).String(), Amount: sdk.Coins{coinOf(s.Denom, s.Amt)}})
	}
	var accNum uint64
	if acc := e.AK.GetAccount(e.Ctx, u.Addr); acc != nil {
		accNum = acc.GetAccountNumber()
	}
	chain := e.Ctx.ChainID()
	if !sigOK {
		chain = "some-other-chain"
	}
	raw := e.SignTx(msgs, u.Priv, accNum, txSeq, chain)
	return Hook{Kind: "tx", Signer: signer, TxSeq: txSeq, SigOK: sigOK, Sends: sends, Raw: raw}
}

// MakeHookTxMsgs builds a hook payload out of arbitrary messages signed by one user (Kind "rawtx":
// not expressible in the model's hook language; used by monitor-only streams).
func (e *L2Env) MakeHookTxMsgs(signer uint64, txSeq uint64, msgs []sdk.Msg, note string) Hook {
	u := e.User(signer)
	var accNum uint64
	if acc := e.AK.GetAccount(e.Ctx, u.Addr); acc != nil {
		accNum = acc.GetAccountNumber()
	}
	raw := e.SignTx(msgs, u.Priv, accNum, txSeq, e.Ctx.ChainID())
	return Hook{Kind: "rawtx", Signer: signer, TxSeq: txSeq, SigOK: true, Raw: raw, Note: note}
}

// AccSeq is the x/auth sequence number of a user account.
func (e *L2Env) AccSeq(id uint64) uint64 {
	if acc := e.AK.GetAccount(e.Ctx, e.User(id).Addr); acc != nil {
		return acc.GetSequence()
	}
	return 0
}

// ---- the implementation's own trace, decoded for the model-free monitors ----

// L2Ev is one bridge event of a message, in emission order.
type L2Ev struct {
	IsDep   bool
	Seq     uint64
	From    string // withdrawal: L2 sender;  deposit: L1 sender
	To      string // withdrawal: L1 recipient; deposit: L2 recipient
	Denom   string
	Base    string
	Amt     *big.Int
	Success bool // deposits only
}

func parseL2EvList(evs sdk.Events) (out []L2Ev) {
	for _, ev := range evs {
		switch ev.Type {
		case opchildtypes.EventTypeInitiateTokenWithdrawal:
			seq, _ := strconv.ParseUint(attr(ev, opchildtypes.AttributeKeyL2Sequence), 10, 64)
			amt, _ := new(big.Int).SetString(attr(ev, opchildtypes.AttributeKeyAmount), 10)
			out = append(out, L2Ev{false, seq, attr(ev, opchildtypes.AttributeKeyFrom), attr(ev, opchildtypes.AttributeKeyTo),
				attr(ev, opchildtypes.AttributeKeyDenom), attr(ev, opchildtypes.AttributeKeyBaseDenom), amt, false})
		case opchildtypes.EventTypeFinalizeTokenDeposit:
			seq, _ := strconv.ParseUint(attr(ev, opchildtypes.AttributeKeyL1Sequence), 10, 64)
			amt, _ := new(big.Int).SetString(attr(ev, opchildtypes.AttributeKeyAmount), 10)
			out = append(out, L2Ev{true, seq, attr(ev, opchildtypes.AttributeKeySender), attr(ev, opchildtypes.AttributeKeyRecipient),
				attr(ev, opchildtypes.AttributeKeyDenom), attr(ev, opchildtypes.AttributeKeyBaseDenom), amt,
				attr(ev, opchildtypes.AttributeKeySuccess) == "true"})
		}
	}
	return
}

// L2View is the projected state after a message (decoded from the same Ov the model is compared with).
type L2View struct {
	OK     bool
	Resp   string // "SUCCESS" | "NOOP" | "-" | "SEQ"
	RSeq   uint64 // for Resp == "SEQ"
	N1, N2 uint64
	Bal    [][]*big.Int // [account index][denom index]
	Sup    []*big.Int
	Pair   []*string
	AccSeq []uint64
}

func l2ViewOf(tr L2Track, o Ov) L2View {
	l := o.(OL).V
	var v L2View
	if r, ok := l[0].(OL); ok {
		v.OK = true
		switch x := r.V[1].(type) {
		case OS:
			v.Resp = x.V
		case ON:
			v.Resp = "SEQ"
			v.RSeq = x.V.Uint64()
		}
	}
	v.N1 = l[1].(ON).V.Uint64()
	v.N2 = l[2].(ON).V.Uint64()
	bals := l[3].(OL).V
	nd := len(tr.Denoms)
	for ai := range tr.Accts {
		row := make([]*big.Int, nd)
		for di := 0; di < nd; di++ {
			row[di] = bals[ai*nd+di].(OZ).V
		}
		v.Bal = append(v.Bal, row)
	}
	for _, s := range l[4].(OL).V {
		v.Sup = append(v.Sup, s.(OZ).V)
	}
	for _, p := range l[5].(OL).V {
		pl := p.(OL).V
		if len(pl) == 0 {
			v.Pair = append(v.Pair, nil)
		} else {
			s := string(pl[0].(OB).V)
			v.Pair = append(v.Pair, &s)
		}
	}
	for _, q := range l[6].(OL).V {
		v.AccSeq = append(v.AccSeq, q.(ON).V.Uint64())
	}
	return v
}

func (v L2View) sameState(w L2View) bool {
	if v.N1 != w.N1 || v.N2 != w.N2 {
		return false
	}
	return v.sameBank(w) && v.samePairs(w) && v.sameAccSeqs(w)
}
func (v L2View) sameBank(w L2View) bool {
	for i := range v.Bal {
		for j := range v.Bal[i] {
			if v.Bal[i][j].Cmp(w.Bal[i][j]) != 0 {
				return false
			}
		}
	}
	for j := range v.Sup {
		if v.Sup[j].Cmp(w.Sup[j]) != 0 {
			return false
		}
	}
	return true
}
func (v L2View) samePairs(w L2View) bool {
	for j := range v.Pair {
		if (v.Pair[j] == nil) != (w.Pair[j] == nil) || (v.Pair[j] != nil && *v.Pair[j] != *w.Pair[j]) {
			return false
		}
	}
	return true
}
func (v L2View) sameAccSeqs(w L2View) bool {
	for j := range v.AccSeq {
		if v.AccSeq[j] != w.AccSeq[j] {
			return false
		}
	}
	return true
}

func l2IdxU(xs []uint64, x uint64) int {
	for i, y := range xs {
		if y == x {
			return i
		}
	}
	return -1
}
func l2IdxS(xs []string, x string) int {
	for i, y := range xs {
		if y == x {
			return i
		}
	}
	return -1
}

var l2Two64 = new(big.Int).Lsh(big.NewInt(1), 64)

// l2QueryMonitor: every public query must answer what the keeper state says (the differences
// were collected by L2Obs while the case ran).  Reported once per case.
func l2QueryMonitor(rep *Report, c *L2Case, prop string) {
	e := c.Env
	if len(e.QueryDiffs) == 0 {
		return
	}
	step := len(c.Ops) - 1
	if step < 0 {
		step = 0
	}
	rep.Violate(Violation{Case: c.ID, Step: step, Sig: prop + ":query-differs-from-state",
		What: fmt.Sprintf("%s (%d differences in this case; the first one may concern the state before the first message)", e.QueryDiffs[0], len(e.QueryDiffs)),
		Ops:  opsCoq(c.Ops)})
	e.QueryDiffs = nil
}

// l2SetupRefused: a set-up message of a stream - a well-formed, next-in-order finalization sent by a
// listed bridge executor - was refused by the implementation.  That is itself a violation of the
// property's first clause ("finalization by an authorised executor succeeds"), not a harness error:
// report it with the 1-operation history and the executor list, and let the caller skip the case.
func l2SetupRefused(rep *Report, prop string, e *L2Env, caseID int, op L2Op, res ExecResult) {
	ps, _ := e.K.GetParams(e.Ctx)
	rep.Violate(Violation{Case: caseID, Step: 0, Sig: prop + ":authorised-finalization-refused",
		What: fmt.Sprintf("a well-formed deposit at the expected sequence sent by a LISTED bridge executor was refused: %s (sender %s, executor list %v)", res.Err, op.Sender, ps.BridgeExecutors),
		Ops:  opsCoq([]L2Op{op}), Detail: map[string]interface{}{"executors": ps.BridgeExecutors, "sender": op.Sender}})
	rep.Hist("setup:authorised-finalization-refused")
}

// l2AuthorisedCheck: over a finished case, every well-formed deposit at the expected sequence whose
// sender was a listed executor when it was sent (L2Case.SenderIsExec, computed by the harness with
// the real address codec before the message ran) must have been processed.
func l2AuthorisedCheck(rep *Report, c *L2Case, prop string, startNext uint64) {
	n1 := startNext
	for i, o := range c.Ops {
		cur := l2ViewOf(c.Track, c.Obs[i])
		if o.Kind == "fdep" && !cur.OK && i < len(c.SenderIsExec) && c.SenderIsExec[i] && o.Seq == n1 && o.Seq != 0 &&
			o.From != "" && o.Height != 0 && sdk.ValidateDenom(o.Denom) == nil && sdk.ValidateDenom(o.Base) == nil && o.Amt.Sign() >= 0 {
			rep.Violate(Violation{Case: c.ID, Step: i, Sig: prop + ":authorised-finalization-refused",
				What: "a well-formed deposit at the expected sequence sent by a listed bridge executor was refused: " + c.Results[i].Err, Ops: opsCoq(c.Ops[:i+1])})
		}
		n1 = cur.N1
	}
}
