package main

import (
	"bytes"
	"encoding/hex"
	"fmt"
	"math/big"
	"strconv"
	"strings"

	sdk "github.com/cosmos/cosmos-sdk/types"
	authtypes "github.com/cosmos/cosmos-sdk/x/auth/types"

	opchildtypes "github.com/initia-labs/OPinit/x/opchild/types"
	ophosttypes "github.com/initia-labs/OPinit/x/ophost/types"
)

// C04: every withdrawal L2 records can be claimed on L1.
// Two-module run: real L1 deposits fund the escrow and are relayed (fields copied from the
// emitted events, as an executor does) to the real L2; L2 users withdraw and failed deposits
// are refunded; the independent tree builder (l1gen.go, x/crypto/sha3 only) commits to the
// emitted withdrawal EVENTS in sequence order; the output is proposed on the real L1 and after
// the period every leaf is claimed twice.  The L1 ops are replayed by the L1 model, the L2 ops
// by the L2 model, and the model rebuilds leaves, root and proofs with Merkle.build/prove.

// ---- what an executor reads from the chains ----
type L1DepEvent struct {
	Bridge, Seq, Height        uint64
	From, To, L1Denom, L2Denom string
	Amt                        *big.Int
	Data                       []byte
}

func parseL1DepositEvents(evs sdk.Events, height uint64) []L1DepEvent {
	var out []L1DepEvent
	for _, ev := range evs {
		if ev.Type != ophosttypes.EventTypeInitiateTokenDeposit {
			continue
		}
		b, _ := strconv.ParseUint(attr(ev, ophosttypes.AttributeKeyBridgeId), 10, 64)
		s, _ := strconv.ParseUint(attr(ev, ophosttypes.AttributeKeyL1Sequence), 10, 64)
		amt, ok := new(big.Int).SetString(attr(ev, ophosttypes.AttributeKeyAmount), 10)
		if !ok {
			amt = big.NewInt(-1)
		}
		data, _ := hex.DecodeString(attr(ev, ophosttypes.AttributeKeyData))
		out = append(out, L1DepEvent{Bridge: b, Seq: s, Height: height, From: attr(ev, ophosttypes.AttributeKeyFrom), To: attr(ev, ophosttypes.AttributeKeyTo),
			L1Denom: attr(ev, ophosttypes.AttributeKeyL1Denom), L2Denom: attr(ev, ophosttypes.AttributeKeyL2Denom), Amt: amt, Data: data})
	}
	return out
}

// the faithful relay: every field of MsgFinalizeTokenDeposit is copied from the L1 event
func relayOp(ev L1DepEvent, executor string) L2Op {
	h := Hook{Kind: "none"}
	if len(ev.Data) > 0 {
		h = Hook{Kind: "garbage", Raw: ev.Data}
	}
	return L2Op{Kind: "fdep", Sender: executor, From: ev.From, To: ev.To, Denom: ev.L2Denom, Base: ev.L1Denom,
		Amt: new(big.Int).Set(ev.Amt), Seq: ev.Seq, Height: ev.Height, Hook: h}
}

// independent derivation of the L2 denom (x/crypto/sha3 only)
func l2DenomOf(bridge uint64, l1 string) string {
	return "l2/" + hex.EncodeToString(h3(append(be8(bridge), []byte(l1)...)))
}

var pow2 = func(k uint) *big.Int { return new(big.Int).Lsh(big.NewInt(1), k) }
var two64 = pow2(64)

func bigSub1(x *big.Int) *big.Int { return new(big.Int).Sub(x, big.NewInt(1)) }

// every shape sdk.ValidateDenom accepts: [a-zA-Z][a-zA-Z0-9/:._-]{2,127}
var c04DenomShapes = []string{
	"uinit",
	"abc", // minimum length
	"ibc/27394FB092D2ECCD56123C74F36E4C1F926001CEADA9CA97EA622B25F41E5EB2",
	"Z9/:._-",
	"factory/init1qyqszqgpqyqszqgpqyqszqgpqyqszqgpz4ssx/sub.token-1",
	"l2/0a1b2c3d4e5f60718293a4b5c6d7e8f90a1b2c3d4e5f60718293a4b5c6d7e8f9", // a base denom that looks like an L2 denom
	"x" + strings.Repeat("y0", 63) + "z",                                  // maximum length 128
	"uusdc",
}

type c04Leaf struct {
	W         Withdrawal
	Refund    bool
	Claimable bool   // positive amount and recipient string resolves on L1
	RcvID     uint64 // table id of the recipient
	OKCount   int
	Paid      *big.Int
}

type c04Run struct {
	rep      *Report
	id       int
	r        *Rng
	sc       *L2Scenario
	e1       *L1Env
	c1       *L1Case
	B        uint64
	bases    []string
	l2d      []string
	now      int64
	height   uint64
	leaves   []*c04Leaf
	l1human  []string
	okClaims int
	rejected int
	hookLen  int             // > 0: the next failing-hook deposit carries this many bytes of undecodable hook data
	deepN    int             // > 0: the output commits to a tree of deepN leaves in which only a few are the recorded withdrawals
	pos      []int           // deep tree: position of recorded withdrawal k in the committed tree
	hooks    map[string]Hook // hook payloads built by the generator: hex(raw tx) -> structural description
}

// the relay of an event whose data is a hook tx the generator built itself carries the
// structural description of that tx for the model; any other non-empty data is undecodable
func (x *c04Run) relayOpFor(ev L1DepEvent, executor string) L2Op {
	op := relayOp(ev, executor)
	if h, ok := x.hooks[hex.EncodeToString(ev.Data)]; ok && len(ev.Data) > 0 {
		op.Hook = h
	}
	return op
}

func (x *c04Run) viol(step int, sig, what string) {
	ops := l1OpsHuman(x.c1.Ops)
	ops = append(ops, "--- L2 ops ---")
	ops = append(ops, opsCoq(x.sc.Case.Ops)...)
	for i, o := range ops { // megabyte hook payloads: keep the replay readable
		if len(o) > 1200 {
			ops[i] = o[:1000] + fmt.Sprintf("...<%d characters omitted>...", len(o)-1200) + o[len(o)-200:]
		}
	}
	x.rep.Violate(Violation{Case: x.id, Step: step, What: what, Sig: sig, Ops: ops})
}

func (x *c04Run) l1(o L1Op) ExecResult {
	o.Now, o.Height = x.now, x.height
	x.height++
	return x.c1.DoObs(o)
}

// one L1 deposit that is expected to be accepted; returns the emitted event
func (x *c04Run) deposit(sender, to, denom string, amt *big.Int, data []byte) (L1DepEvent, bool) {
	x.e1.Resolve(sender)
	h := x.height
	res := x.l1(L1Op{Kind: "deposit", Sender: sender, Bridge: x.B, To: to, Denom: denom, Amt: amt, Data: data})
	x.rep.Hist(fmt.Sprintf("l1deposit:%v", okStr(res.OK)))
	if !res.OK {
		x.viol(len(x.c1.Ops)-1, "C04:valid-deposit-rejected", fmt.Sprintf("L1 deposit of %s %s (in range, funded) rejected: %s", amt, denom, res.Err))
		return L1DepEvent{}, false
	}
	evs := parseL1DepositEvents(res.Events, h)
	if len(evs) != 1 {
		x.viol(len(x.c1.Ops)-1, "C04:deposit-event", "an accepted L1 deposit must emit exactly one initiate_token_deposit event")
		return L1DepEvent{}, false
	}
	ev := evs[0]
	if ev.Bridge != x.B || ev.From != sender || ev.To != to || ev.L1Denom != denom || ev.Amt.Cmp(amt) != 0 || !bytes.Equal(ev.Data, data) || ev.L2Denom != l2DenomOf(x.B, denom) {
		x.viol(len(x.c1.Ops)-1, "C04:deposit-event", fmt.Sprintf("the deposit event does not carry the request: %+v", ev))
	}
	return ev, true
}

func okStr(b bool) string {
	if b {
		return "OK"
	}
	return "ERR"
}

// relay an L1 event to L2; returns the withdrawal events it emitted (a refund) and whether credited
func (x *c04Run) relay(ev L1DepEvent) []WEvent {
	sc := x.sc
	exec := sc.SenderString(0)
	op := x.relayOpFor(ev, exec)
	sc.register(op.Sender, op.To)
	res := sc.Case.Do(op)
	x.rep.Hist("l2relay:" + okStr(res.OK))
	if !res.OK {
		x.viol(len(sc.Case.Ops)-1, "C04:relay-rejected", fmt.Sprintf("L2 rejected the faithful relay of an accepted L1 deposit (seq %d, %s): %s", ev.Seq, ev.Amt, res.Err))
		return nil
	}
	ws, _ := parseL2Events(res.Events)
	return ws
}

func (x *c04Run) record(w WEvent, refund bool, wantFrom, wantTo, wantDenom, wantBase string, wantAmt *big.Int) {
	seq := uint64(len(x.leaves) + 1)
	if w.Seq != seq || w.From != wantFrom || w.To != wantTo || w.Denom != wantDenom || w.Base != wantBase || w.Amt == nil || w.Amt.Cmp(wantAmt) != 0 {
		x.viol(len(x.sc.Case.Ops)-1, "C04:withdrawal-event", fmt.Sprintf("withdrawal event %+v does not record (seq %d, from %q, to %q, denom %s, base %s, amount %s)", w, seq, wantFrom, wantTo, wantDenom, wantBase, wantAmt))
	}
	amt := w.Amt
	if amt == nil {
		amt = big.NewInt(0)
	}
	lf := &c04Leaf{W: Withdrawal{Bridge: x.B, Seq: w.Seq, From: w.From, To: w.To, Denom: w.Base, Amt: amt}, Refund: refund, Paid: big.NewInt(0)}
	if id, ok := x.e1.Resolve(w.To); ok && amt.Sign() > 0 {
		lf.Claimable, lf.RcvID = true, id
	}
	x.leaves = append(x.leaves, lf)
}

var c04BadRecipients = []string{"notanaddress", "0x1234abcd", "ünï-кod/東京-🙂", strings.Repeat("long-recipient/", 40), "init1qqqqqqqqqqqqqqqqqqqqqqqqqqqqqqqqqqqqq"}

func (x *c04Run) l1Sender() string {
	u := x.e1.User(uint64(1 + x.r.Intn(5))).Str
	if x.r.Chance(15) {
		u = upperBech32(u)
	}
	if x.r.Chance(8) { // a module account as depositor: the refund of its failed deposit is addressed to it
		u = x.e1.ModAddr[ModL1Minter].String()
	}
	return u
}

// valid L1 address strings that are not user accounts: module accounts (blocked in the bank keeper
// of the harness: gov, distribution, minter), the bridge's own escrow, another bridge's escrow.
// SendCoins pays all of them; a withdrawal naming one must be claimable like any other.
func (x *c04Run) specialRecipient() string {
	e1 := x.e1
	all := []string{e1.ModAddr[ModGov].String(), e1.ModAddr[ModDistr].String(), e1.ModAddr[ModL1Minter].String(),
		ophosttypes.BridgeAddress(x.B).String(), ophosttypes.BridgeAddress(x.B + 1).String()}
	return all[x.r.Intn(len(all))]
}

// one recorded withdrawal of the given kind and amount
func (x *c04Run) produce(kind int, di int, amt *big.Int) {
	sc, r := x.sc, x.r
	e2 := sc.Env
	base, l2d := x.bases[di], x.l2d[di]
	sender := x.l1Sender()
	switch kind {
	case 0: // L1 deposit to an L2 user, relayed, then withdrawn by that user
		u := e2.User(uint64(1 + r.Intn(5)))
		ev, ok := x.deposit(sender, u.Str, base, amt, nil)
		if !ok {
			return
		}
		if ws := x.relay(ev); len(ws) != 0 {
			x.viol(len(sc.Case.Ops)-1, "C04:unexpected-refund", "a deposit to a plain user account was refunded")
			return
		}
		from := u.Str
		if r.Chance(15) {
			from = upperBech32(from)
		}
		to := x.e1.User(uint64(1 + r.Intn(7))).Str
		switch r.Intn(12) {
		case 0:
			to = upperBech32(to)
		case 1:
			to = c04BadRecipients[r.Intn(len(c04BadRecipients))] // stays in escrow: not claimable, still a leaf
		case 2, 3:
			to = x.specialRecipient()
		}
		sc.register(from)
		res := sc.Case.Do(L2Op{Kind: "withdraw", Sender: from, To: to, Denom: l2d, Amt: new(big.Int).Set(amt)})
		x.rep.Hist("l2withdraw:" + okStr(res.OK))
		if !res.OK {
			x.viol(len(sc.Case.Ops)-1, "C04:valid-withdrawal-rejected", fmt.Sprintf("L2 withdrawal of %s (in range, funded) rejected: %s", amt, res.Err))
			return
		}
		ws, _ := parseL2Events(res.Events)
		if len(ws) != 1 {
			x.viol(len(sc.Case.Ops)-1, "C04:withdrawal-event", "an accepted withdrawal must emit exactly one initiate_token_withdrawal event")
			return
		}
		if rs, ok := res.Resp.(*opchildtypes.MsgInitiateTokenWithdrawalResponse); !ok || rs.Sequence != ws[0].Seq {
			x.viol(len(sc.Case.Ops)-1, "C04:withdrawal-event", "response sequence differs from the event")
		}
		x.record(ws[0], false, from, to, l2d, base, amt)
	default: // a deposit that fails on L2 and is refunded
		to := ""
		var data []byte
		switch kind {
		case 1:
			to = c04BadRecipients[r.Intn(len(c04BadRecipients))]
		case 2: // blocked module account: the address decodes, the bank refuses
			to = e2.ModAddr[ModOpchild].String()
		default: // hook payload that does not decode
			to = e2.User(uint64(1 + r.Intn(5))).Str
			data = []byte{0xff, 0xfe, byte(r.Intn(256)), 0x01}
			if x.hookLen > 0 { // payload-size axis: undecodable filler of the requested length
				data = make([]byte, x.hookLen)
				for i := range data {
					data[i] = byte(0xff - i%7)
				}
			}
		}
		if kind == 2 && amt.Sign() == 0 {
			to = c04BadRecipients[0] // a zero amount to a blocked account only creates the account
		}
		ev, ok := x.deposit(sender, to, base, amt, data)
		if !ok {
			return
		}
		ws := x.relay(ev)
		if len(ws) != 1 {
			x.viol(len(sc.Case.Ops)-1, "C04:refund-missing", fmt.Sprintf("a failed deposit must record exactly one refund withdrawal, got %d", len(ws)))
			return
		}
		x.record(ws[0], true, to, sender, l2d, base, amt)
	}
}

// attempts that must be rejected at the entry points whatever the balances
func (x *c04Run) oversize(di int) {
	sc := x.sc
	e2 := sc.Env
	base, l2d := x.bases[di], x.l2d[di]
	rich1 := x.e1.User(7).Str
	rich2 := e2.User(6).Str
	sc.register(rich2)
	x.e1.Resolve(rich1)
	for _, amt := range []*big.Int{two64, new(big.Int).Add(two64, big.NewInt(1)), pow2(128), big.NewInt(-1)} {
		res := x.l1(L1Op{Kind: "deposit", Sender: rich1, Bridge: x.B, To: e2.User(1).Str, Denom: base, Amt: amt})
		x.rep.Hist("l1deposit-oversize:" + okStr(res.OK))
		if res.OK {
			x.viol(len(x.c1.Ops)-1, "C04:entry-unbounded-l1", fmt.Sprintf("L1 accepted a deposit of %s (not a uint64): the refund of such a deposit can never be claimed", amt))
		} else {
			x.rejected++
		}
		res = sc.Case.Do(L2Op{Kind: "withdraw", Sender: rich2, To: x.e1.User(1).Str, Denom: l2d, Amt: amt})
		x.rep.Hist("l2withdraw-oversize:" + okStr(res.OK))
		if res.OK {
			x.viol(len(sc.Case.Ops)-1, "C04:entry-unbounded-l2", fmt.Sprintf("L2 accepted a withdrawal of %s (not a uint64): it can never be claimed on L1", amt))
			if ws, _ := parseL2Events(res.Events); len(ws) == 1 { // keep the sequence bookkeeping aligned
				x.record(ws[0], false, rich2, x.e1.User(1).Str, l2d, base, amt)
			}
		} else {
			x.rejected++
		}
	}
	// zero is accepted by L1 (account creation) but never by the L2 withdrawal
	res := sc.Case.Do(L2Op{Kind: "withdraw", Sender: rich2, To: x.e1.User(1).Str, Denom: l2d, Amt: big.NewInt(0)})
	x.rep.Hist("l2withdraw-zero:" + okStr(res.OK))
	if res.OK {
		x.viol(len(sc.Case.Ops)-1, "C04:entry-unbounded-l2", "L2 accepted a zero-amount withdrawal")
	}
}

func newC04Run(rep *Report, seed uint64, id int, shapeOff int, nDenoms int, rich bool) *c04Run {
	sc := NewL2Scenario(seed, id, false)
	e2 := sc.Env
	x := &c04Run{rep: rep, id: id, r: NewRng(seed ^ 0xc04c04), sc: sc, B: sc.BridgeID, now: t0, height: 100, hooks: map[string]Hook{}}
	for i := 0; i < nDenoms; i++ {
		d := c04DenomShapes[(shapeOff+i)%len(c04DenomShapes)]
		x.bases = append(x.bases, d)
		x.l2d = append(x.l2d, l2DenomOf(x.B, d))
	}
	sc.L1Denoms, sc.L2Denoms = x.bases, x.l2d
	if rich { // out-of-band balance so that an oversize withdrawal is not rejected for lack of funds
		e2.Fund(e2.User(6).Addr, sdk.NewCoins(coinOf(x.l2d[0], pow2(130))))
	}
	accts := []uint64{1, 2, 3, 4, 5, 6, ModOpchild}
	sc.Case = &L2Case{ID: id, Env: e2, Track: L2Track{accts, append(append([]string{}, x.l2d...), sc.Native)}, Params: sc.Case.Params}
	sc.Case.Snapshot()
	// L1
	e1 := NewL1Env(seed, 7, nil)
	x.e1 = e1
	for i, u := range e1.Users {
		var cs sdk.Coins
		for _, d := range x.bases {
			a := pow2(70)
			if i == 6 {
				a = pow2(130)
			}
			cs = append(cs, coinOf(d, a))
		}
		e1.Fund(u.Addr, cs.Sort())
	}
	{ // the minter module account holds funds of its own (it is used as an L1 depositor)
		var cs sdk.Coins
		for _, d := range x.bases {
			cs = append(cs, coinOf(d, pow2(70)))
		}
		if err := e1.BK.MintCoins(e1.Ctx.WithEventManager(sdk.NewEventManager()), authtypes.Minter, cs.Sort()); err != nil {
			panic(err)
		}
	}
	x.c1 = &L1Case{ID: id, Env: e1, Track: &L1Track{Accts: []uint64{1, 2, 3, 4, 5, 6, 7, ModGov, ModDistr, ModL1Minter, EscrowBase + x.B, EscrowBase + x.B + 1}, Denoms: x.bases, Bridges: []uint64{x.B}}, Parse: map[string]string{}}
	x.c1.Snapshot()
	for b := uint64(1); b <= x.B; b++ {
		cfg := &L1Config{Proposer: e1.User(1).Str, Challenger: e1.User(2).Str, Period: 7 * sec, Interval: 10 * sec, Start: 1, Submitter: e1.User(1).Str, Chain: 1, Meta: []byte("c04")}
		e1.Resolve(e1.User(3).Str)
		if res := x.l1(L1Op{Kind: "create", Sender: e1.User(3).Str, Config: cfg}); !res.OK {
			x.viol(len(x.c1.Ops)-1, "C04:bridge-creation-rejected", "a valid CreateBridge was rejected: "+res.Err)
		}
	}
	return x
}

// the published tree rule over raw leaf hashes (independent builder, x/crypto/sha3 only)
func treeFromLeaves(lvl [][]byte) *Tree {
	t := &Tree{}
	t.Levels = append(t.Levels, lvl)
	for len(lvl) > 1 {
		next := make([][]byte, 0, (len(lvl)+1)/2)
		for i := 0; i < len(lvl); i += 2 {
			a := lvl[i]
			b := a
			if i+1 < len(lvl) {
				b = lvl[i+1]
			}
			next = append(next, h3(sortedPair(a, b)))
		}
		t.Levels = append(t.Levels, next)
		lvl = next
	}
	return t
}

// deepTree: a tree of x.deepN leaves in which the recorded withdrawals sit at the first, second,
// middle, second-to-last and last position (the last one is the duplicated odd-branch leaf when
// deepN is odd) and every other leaf is a synthetic leaf hash
func (x *c04Run) deepTree() *Tree {
	n := x.deepN
	cand := []int{0, n - 1, n / 2, n - 2, 1, n/2 + 1, n / 3}
	x.pos = nil
	used := map[int]bool{}
	for _, p := range cand {
		if len(x.pos) < len(x.leaves) && p >= 0 && p < n && !used[p] {
			used[p] = true
			x.pos = append(x.pos, p)
		}
	}
	leaves := make([][]byte, n)
	for i := range leaves {
		if !used[i] {
			leaves[i] = h3(append([]byte("synthetic-withdrawal-leaf"), be8(uint64(i))...))
		}
	}
	for k, p := range x.pos {
		leaves[p] = x.leaves[k].W.Leaf()
	}
	return treeFromLeaves(leaves)
}

func (x *c04Run) posOf(k int) int {
	if x.deepN > 0 {
		return x.pos[k]
	}
	return k
}

// propose the honest output over all recorded events, wait, claim every leaf twice
func (x *c04Run) commitAndClaim() (tree *Tree, version byte, bhash []byte) {
	e1 := x.e1
	var ws []Withdrawal
	for _, lf := range x.leaves {
		ws = append(ws, lf.W)
	}
	if len(ws) == 0 { // nothing was recorded (only possible on a broken tree, already reported): nothing to commit
		return nil, 0, nil
	}
	if x.deepN > 0 {
		tree = x.deepTree()
	} else {
		tree = BuildTree(ws)
	}
	version = byte(x.r.Intn(3))
	bhash = x.r.Bytes(32)
	x.now += 50 * sec
	res := x.l1(L1Op{Kind: "propose", Sender: e1.User(1).Str, Bridge: x.B, Idx: 1, L2: 10, Root: outputRootOf(version, tree.Root(), bhash)})
	if !res.OK {
		x.viol(len(x.c1.Ops)-1, "C04:honest-proposal-rejected", "the proposer's honest output was rejected: "+res.Err)
		return tree, version, bhash
	}
	// one second before finality nothing can be claimed
	x.now += 6 * sec
	if len(x.leaves) > 0 {
		op := x.claimOp(tree, 0, version, bhash)
		if r := x.l1(op); r.OK {
			x.viol(len(x.c1.Ops)-1, "C04:claimed-before-final", "a claim succeeded before the finalization period elapsed")
		}
	}
	x.now += 1 * sec
	order := make([]int, len(x.leaves))
	for i := range order {
		order[i] = i
	}
	for i := len(order) - 1; i > 0; i-- {
		j := x.r.Intn(i + 1)
		order[i], order[j] = order[j], order[i]
	}
	for pass := 0; pass < 2; pass++ {
		for _, k := range order {
			lf := x.leaves[k]
			op := x.claimOp(tree, k, version, bhash)
			escrow := ophosttypes.BridgeAddress(x.B)
			var rcvAddr sdk.AccAddress
			if lf.Claimable {
				if bz, err := e1.AK.AddressCodec().StringToBytes(lf.W.To); err == nil {
					rcvAddr = sdk.AccAddress(bz)
				}
			}
			var rb, eb *big.Int
			if rcvAddr != nil {
				rb = e1.BK.GetBalance(e1.Ctx, rcvAddr, lf.W.Denom).Amount.BigInt()
			}
			eb = e1.BK.GetBalance(e1.Ctx, escrow, lf.W.Denom).Amount.BigInt()
			var res ExecResult
			if pass == 1 && len(x.leaves) > 8 && k%3 != 0 {
				// a re-submission that the model does not replay (a rejected message has no effect, so
				// the model's state stays aligned); the monitors below still judge it
				op.Now, op.Height = x.now, x.height
				res = e1.L1Exec(op)
				x.rep.Hist("claim-pass2-monitor-only:" + okStr(res.OK))
			} else {
				res = x.l1(op)
			}
			x.rep.Hist(fmt.Sprintf("claim-pass%d:%s", pass+1, okStr(res.OK)))
			ea := e1.BK.GetBalance(e1.Ctx, escrow, lf.W.Denom).Amount.BigInt()
			step := len(x.c1.Ops) - 1
			if res.OK {
				lf.OKCount++
				x.okClaims++
				if rcvAddr != nil {
					ra := e1.BK.GetBalance(e1.Ctx, rcvAddr, lf.W.Denom).Amount.BigInt()
					d := new(big.Int).Sub(ra, rb)
					lf.Paid.Add(lf.Paid, d)
					if d.Cmp(lf.W.Amt) != 0 && !rcvAddr.Equals(escrow) {
						x.viol(step, "C04:paid-wrong-amount", fmt.Sprintf("claim of withdrawal %d paid %s to the recipient, recorded amount %s", lf.W.Seq, d, lf.W.Amt))
					}
				}
				if rcvAddr != nil && rcvAddr.Equals(escrow) { // paid from the escrow to itself
					if ea.Cmp(eb) != 0 {
						x.viol(step, "C04:paid-wrong-amount", "a claim addressed to the bridge's own escrow changed its balance")
					}
				} else if d := new(big.Int).Sub(eb, ea); d.Cmp(lf.W.Amt) != 0 {
					x.viol(step, "C04:paid-wrong-amount", fmt.Sprintf("claim of withdrawal %d took %s from the escrow, recorded amount %s", lf.W.Seq, d, lf.W.Amt))
				}
				if !lf.Claimable {
					x.viol(step, "C04:unclaimable-paid", fmt.Sprintf("a zero-amount or unresolvable-recipient withdrawal %d was paid", lf.W.Seq))
				}
			} else {
				x.rejected++
				if ea.Cmp(eb) != 0 {
					x.viol(step, "C04:rejected-claim-moved-funds", "a rejected claim changed the escrow balance")
				}
				if pass == 0 && lf.Claimable {
					x.viol(step, "C04:not-claimable", fmt.Sprintf("recorded withdrawal %d (amount %s, from %q, to %q, base %s) could not be claimed with the honest proof (%d siblings) at position %d of %d: %s",
						lf.W.Seq, lf.W.Amt, lf.W.From, lf.W.To, lf.W.Denom, len(tree.Levels)-1, x.posOf(k), len(tree.Levels[0]), res.Err))
				}
			}
		}
	}
	for _, lf := range x.leaves {
		if lf.Claimable && lf.OKCount != 1 {
			x.viol(len(x.c1.Ops)-1, "C04:claimed-not-exactly-once", fmt.Sprintf("withdrawal %d was paid %d times", lf.W.Seq, lf.OKCount))
		}
	}
	return
}

func (x *c04Run) claimOp(tree *Tree, k int, version byte, bhash []byte) L1Op {
	lf := x.leaves[k]
	sub := x.e1.User(uint64(1 + x.r.Intn(7))).Str
	x.e1.Resolve(sub)
	x.e1.Resolve(lf.W.To)
	return L1Op{Kind: "finalize", Sender: sub, Bridge: x.B, Idx: 1, Seq: lf.W.Seq, Proofs: tree.Proof(x.posOf(k)), From: lf.W.From, To: lf.W.To,
		Denom: lf.W.Denom, Amt: new(big.Int).Set(lf.W.Amt), Version: []byte{version}, SRoot: tree.Root(), BHash: bhash}
}

// the Coq case: the L1 case record, the recorded events, the positions, and the expected list
func (x *c04Run) coq(tree *Tree) string {
	c := x.c1
	e := c.Env
	var tbl, accts, denoms, brs, ops, obs, evs, pos, leaves, proofs []string
	for _, s := range sortedKeys(e.Table) {
		tbl = append(tbl, fmt.Sprintf("(%s, %s)", coqStr(s), coqU(e.Table[s])))
	}
	for _, a := range c.Track.Accts {
		accts = append(accts, coqU(a))
	}
	for _, d := range c.Track.Denoms {
		denoms = append(denoms, coqStr(d))
	}
	for _, b := range c.Track.Bridges {
		brs = append(brs, coqU(b))
	}
	for _, o := range c.Ops {
		ops = append(ops, o.Coq())
	}
	for _, o := range c.Obs {
		obs = append(obs, o.Coq())
	}
	n := len(x.leaves)
	for _, lf := range x.leaves {
		evs = append(evs, fmt.Sprintf("{| v_seq := %s; v_from := %s; v_to := %s; v_base := %s; v_amt := %s |}", coqU(lf.W.Seq), coqStr(lf.W.From), coqStr(lf.W.To), coqStr(lf.W.Denom), coqZ(lf.W.Amt)))
		leaves = append(leaves, "OB "+coqBytes(lf.W.Leaf()))
	}
	var ps []int
	if n <= 8 {
		for i := 0; i < n; i++ {
			ps = append(ps, i)
		}
	} else {
		ps = []int{0, n / 2, n - 1}
	}
	root := []byte{}
	if tree != nil {
		root = tree.Root()
	} else {
		ps = nil
	}
	for _, p := range ps {
		pos = append(pos, coqU(uint64(p)))
		var el []string
		for _, q := range tree.Proof(p) {
			el = append(el, "OB "+coqBytes(q))
		}
		proofs = append(proofs, "OL "+coqList(el))
	}
	obs = append(obs, "OL "+coqList(leaves), "OB "+coqBytes(root), "OL "+coqList(proofs))
	l1rec := fmt.Sprintf("{| k_table := %s;\n    k_gov := %s; k_pool := %s;\n    k_parse := [];\n    k_bals := %s;\n    k_chans := [];\n    k_accts := %s; k_denoms := %s; k_bridges := %s;\n    k_claims := [];\n    k_channels := [];\n    k_ops := %s |}",
		coqList(tbl), coqStr(e.Auth), coqU(ModDistr), coqList(c.Bals), coqList(accts), coqList(denoms), coqList(brs), "[\n      "+strings.Join(ops, ";\n      ")+"]")
	return fmt.Sprintf("(%d%%N,\n {| q_l1 := %s;\n    q_bridge := %s;\n    q_events := %s;\n    q_pos := %s |},\n %s)",
		x.id, l1rec, coqU(x.B), coqList(evs), coqList(pos), "[\n  "+strings.Join(obs, ";\n  ")+"]")
}

const c04CaseHeader = `Require Import Model.Bytes Model.Obs Model.Bank Model.L1 Model.TraceL1 Model.TraceC04.
From Coq Require Import List NArith ZArith String.
Import ListNotations.
Local Open Scope string_scope.
`

func c04Amount(r *Rng) *big.Int {
	switch r.Intn(20) {
	case 0:
		return bigSub1(pow2(63))
	case 1:
		return pow2(63)
	case 2:
		return bigSub1(two64)
	case 3:
		return pow2(32)
	case 4:
		return big.NewInt(1)
	}
	return big.NewInt(int64(1 + r.Intn(100000)))
}

func init() { register("C04", genC04) }

func genC04(seed uint64, tier string, outdir string) *Report {
	rep := NewReport("C04", seed, tier)
	rep.Rule = "a case is one two-chain run (real L1 deposits, faithful relay, real L2 withdrawals and refunds, one honest output, every leaf claimed twice); distinct by hash of both op lists; non-trivial = at least one claim paid and at least one operation rejected"
	var texts1, texts2 []string
	id := 0
	{ // assumption of C04_recorded_fields: the address codecs reject the empty string
		p := newC04Run(rep, seed, 0, 0, 2, false)
		if _, ok := p.e1.Resolve(""); ok {
			p.viol(0, "C04:codec-accepts-empty", "the L1 address codec accepts the empty string")
		}
		if _, ok := p.sc.Env.Resolve(""); ok {
			p.viol(0, "C04:codec-accepts-empty", "the L2 address codec accepts the empty string")
		}
	}
	finish := func(x *c04Run) {
		tree, _, _ := x.commitAndClaim()
		rep.Ops += len(x.c1.Ops) + len(x.sc.Case.Ops)
		rep.Hist(fmt.Sprintf("tree-size:%d", len(x.leaves)))
		canon := strings.Join(l1OpsHuman(x.c1.Ops), "\n") + "\n" + strings.Join(opsCoq(x.sc.Case.Ops), "\n")
		rep.CountCase(canon, x.okClaims > 0 && x.rejected > 0)
		texts1 = append(texts1, x.coq(tree))
		texts2 = append(texts2, x.sc.Case.Coq())
	}
	// (a) the boundary case: every boundary amount as a user withdrawal and as a refund, and
	//     every oversize amount at both entry points
	for k := 0; k < 2; k++ {
		id++
		x := newC04Run(rep, seed*7919+uint64(k), id, k*3, 2, true)
		bounds := []*big.Int{big.NewInt(1), bigSub1(pow2(63)), pow2(63), bigSub1(two64)}
		for _, a := range bounds {
			x.produce(0, 0, a)
		}
		for i, a := range bounds {
			x.produce(1+i%3, 1, a)
		}
		x.produce(1, 0, big.NewInt(0)) // zero-amount failed deposit: recorded, never claimable
		x.produce(3, 1, big.NewInt(0)) // zero amount, valid recipient, failing hook: refunded (zero), must not block
		// a user that accumulated more than 2^64 by two faithful deposits cannot withdraw 2^64 at once
		u := x.sc.Env.User(5)
		for j := 0; j < 2; j++ {
			if ev, ok := x.deposit(x.e1.User(2).Str, u.Str, x.bases[1], bigSub1(two64), nil); ok {
				x.relay(ev)
			}
		}
		res := x.sc.Case.Do(L2Op{Kind: "withdraw", Sender: u.Str, To: x.e1.User(2).Str, Denom: x.l2d[1], Amt: two64})
		rep.Hist("l2withdraw-oversize:" + okStr(res.OK))
		if res.OK {
			x.viol(len(x.sc.Case.Ops)-1, "C04:entry-unbounded-l2", "L2 accepted a withdrawal of 2^64 from a balance accumulated by two faithful deposits")
			if ws, _ := parseL2Events(res.Events); len(ws) == 1 {
				x.record(ws[0], false, u.Str, x.e1.User(2).Str, x.l2d[1], x.bases[1], two64)
			}
		} else {
			x.rejected++
		}
		x.oversize(0)
		x.produce(0, 1, bigSub1(two64))
		finish(x)
		if k == 0 {
			rep.Sample(map[string]interface{}{"kind": "boundary case: L2 ops", "ops": opsCoq(x.sc.Case.Ops)})
		}
	}
	// (a') withdrawals made by deposit hooks (a tx signed by the recipient carrying
	//      MsgInitiateTokenWithdrawal, D14) are recorded events like any other and must be claimable
	for k := 0; k < 2; k++ {
		id++
		y := newC08Run(rep, seed*6007+uint64(k), id, 2)
		for j := 0; j < 12; j++ {
			switch j % 4 {
			case 0, 2:
				y.stepHookWithdrawal()
			case 1:
				y.stepDeposit(y.r.Weighted([]int{60, 15, 8, 17}), c04Amount(y.r), nil, "")
				y.stepRelay(y.relayed)
			default:
				y.stepWithdraw()
			}
		}
		y.relayAll()
		tree, _, _ := y.commitAndClaim()
		rep.Ops += len(y.c1.Ops) + len(y.sc.Case.Ops)
		rep.Hist("case:hook-withdrawals")
		rep.Hist(fmt.Sprintf("tree-size:%d", len(y.leaves)))
		rep.CountCase(strings.Join(l1OpsHuman(y.c1.Ops), "\n")+"\n"+strings.Join(opsCoq(y.sc.Case.Ops), "\n"), y.okClaims > 0 && y.rejected > 0)
		texts1 = append(texts1, y.coq(tree))
		texts2 = append(texts2, y.sc.Case.Coq())
	}
	// (a''') hook payload sizes: L1 accepts hook data of any length, so L2 must credit-or-refund the relayed
	//        deposit whatever its size (1 B .. 1 MiB of undecodable data: refunded like any undecodable hook).
	//        MONITOR-ONLY (not replayed by the models: megabyte literals are unaffordable in the Coq case files;
	//        the model treats every non-empty undecodable payload as HGarbage regardless of its length).
	{
		id++
		x := newC04Run(rep, seed*27644437, id, 1, 2, false)
		for _, n := range []int{1, 1024, 16*1024 - 1, 16 * 1024, 16*1024 + 1, 64 * 1024, 1 << 20} {
			x.hookLen = n
			before := len(x.leaves)
			x.produce(3, x.r.Intn(len(x.bases)), c04Amount(x.r))
			rep.Hist(fmt.Sprintf("hook-data-bytes:%d-refunds:%d", n, len(x.leaves)-before))
		}
		x.hookLen = 0
		x.produce(0, 0, big.NewInt(77)) // a later deposit must not be stuck behind them
		x.commitAndClaim()
		rep.Ops += len(x.c1.Ops) + len(x.sc.Case.Ops)
		rep.CountCase(fmt.Sprintf("hook-sizes-%d", seed), x.okClaims > 0 && x.rejected > 0)
		rep.Notes = append(rep.Notes, "hook payload sizes 1 B .. 1 MiB (incl. 16 KiB-1, 16 KiB, 16 KiB+1): one monitor-only case per run, relayed through the real L2 Validate + handler; not model-compared")
	}
	// (a'') deep trees: outputs committing to 2^k and 2^k+1 leaves (proof lengths 8, 9, 16, 17; thorough
	//       also 18 and 21), of which only five are the recorded withdrawals of the run - the others are
	//       synthetic leaf hashes.  The L1 and L2 operations are replayed by the models (the L1 model
	//       verifies the long proofs with the Gallina SHA3); the model does NOT rebuild these trees.
	deep := []int{256, 257, 65536, 65537}
	if tier == "thorough" {
		deep = append(deep, 1<<17+1, 1<<20+3)
	}
	var textsD []string
	for i, n := range deep {
		id++
		x := newC04Run(rep, seed*31337+uint64(i), id, i, 2, false)
		x.deepN = n
		x.produce(0, 0, c04Amount(x.r))
		x.produce(1, 1, c04Amount(x.r))
		x.produce(0, 1, bigSub1(two64))
		x.produce(3, 0, c04Amount(x.r))
		x.produce(0, 0, big.NewInt(1))
		tree, _, _ := x.commitAndClaim()
		rep.Ops += len(x.c1.Ops) + len(x.sc.Case.Ops)
		depth := 0
		if tree != nil {
			depth = len(tree.Levels) - 1
		}
		rep.Hist(fmt.Sprintf("deep-tree:%d-leaves-proof-length:%d", n, depth))
		rep.CountCase(strings.Join(l1OpsHuman(x.c1.Ops), "\n")+"\n"+strings.Join(opsCoq(x.sc.Case.Ops), "\n"), x.okClaims > 0 && x.rejected > 0)
		textsD = append(textsD, x.c1.Coq())
		texts2 = append(texts2, x.sc.Case.Coq())
	}
	rep.Notes = append(rep.Notes, fmt.Sprintf("deep trees %v: five recorded withdrawals among synthetic leaves, claimed with their full-length proofs on the real L1; the models replay the operations (incl. proof verification) but do not rebuild these trees", deep))
	// (b) every tree size, every position
	maxN := 33
	if tier == "thorough" {
		maxN = 130
	}
	sizes := []int{}
	for n := 1; n <= maxN; n++ {
		sizes = append(sizes, n)
	}
	if tier == "thorough" {
		r := NewRng(seed ^ 0x51235)
		sizes = append(sizes, 131+r.Intn(400), 531+r.Intn(470), 1000)
	}
	for _, n := range sizes {
		id++
		x := newC04Run(rep, seed*104729+uint64(n), id, n, 2+n%2, false)
		for j := 0; j < n; j++ {
			kind := x.r.Weighted([]int{60, 15, 8, 17})
			amt := c04Amount(x.r)
			if (kind == 1 || kind == 3) && x.r.Chance(10) {
				amt = big.NewInt(0) // also: zero amount to a good recipient with a failing hook
			}
			x.produce(kind, x.r.Intn(len(x.bases)), amt)
		}
		if len(x.leaves) != n && len(rep.Violations) == 0 {
			x.viol(0, "C04:generator-size", fmt.Sprintf("the run produced %d recorded withdrawals, %d were planned", len(x.leaves), n))
		}
		finish(x)
		if n == 5 {
			rep.Sample(map[string]interface{}{"kind": "tree of 5 recorded withdrawals: L1 ops", "ops": l1OpsHuman(x.c1.Ops)})
		}
	}
	rep.Exhaustive = true
	rep.Notes = append(rep.Notes, fmt.Sprintf("every tree size 1..%d, every position claimed (and re-submitted); boundary amounts 1, 2^63-1, 2^63, 2^64-1 claimed; 2^64, 2^64+1, 2^128, -1 rejected at both entry points", maxN))
	nsh := 8
	if tier == "thorough" { // the per-shard coqc timeout of the checker is 1700 s
		nsh = 14
	}
	writeShards(outdir, "C04", c04CaseHeader, "run_c04case", "c04case", texts1, nsh, rep)
	writeShards(outdir, "C04L2", l2CaseHeader, "run_l2case", "l2case", texts2, 2, rep)
	writeShards(outdir, "C04D", l1CaseHeader, "run_l1case", "l1case", textsD, 1, rep)
	return rep
}
