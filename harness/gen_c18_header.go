package main

import (
	"fmt"
	"math/big"
	"strings"
	"time"

	tmproto "github.com/cometbft/cometbft/proto/tendermint/types"
	sdk "github.com/cosmos/cosmos-sdk/types"

	opchild "github.com/initia-labs/OPinit/x/opchild"
	opchildtypes "github.com/initia-labs/OPinit/x/opchild/types"
	ophosttypes "github.com/initia-labs/OPinit/x/ophost/types"
)

// C18, degenerate-header family: blocks whose header carries a ZERO time (time.Time{}), height 0,
// an empty chain id or no proposer - values a context built without a header has.  Whatever the
// code does with them (error, panic, store them) it must do identically on every instance.

type c18HdrOp struct {
	Name string
	Hdr  string // "normal" | "zero-time" | "height-0" | "empty-chain" | "all-zero"
	L1   func(ctx sdk.Context, e *L1Env) (interface{}, error)
	L2   func(ctx sdk.Context, e *L2Env) (interface{}, error)
}

func c18Header(kind string, chain string, h int64) tmproto.Header {
	hdr := tmproto.Header{ChainID: chain, Height: h, Time: time.Date(2024, 3, 1, 0, 0, int(h), 0, time.UTC), ProposerAddress: []byte("proposer-address-20b")}
	switch kind {
	case "zero-time":
		hdr.Time = time.Time{}
	case "height-0":
		hdr.Height = 0
	case "empty-chain":
		hdr.ChainID = ""
		hdr.ProposerAddress = nil
	case "all-zero":
		hdr = tmproto.Header{}
	}
	return hdr
}

func genC18Header(rep *Report, seed uint64, tier string, R int, id *int) {
	nHist, n := 4, 30
	if tier == "thorough" {
		nHist, n = 40, 60
	}
	kinds := []string{"normal", "zero-time", "zero-time", "height-0", "empty-chain", "all-zero"}
	for k := 0; k < nHist; k++ {
		*id++
		s := seed*100000 + 9000 + uint64(k)
		r := NewRng(s)
		isL1 := k%2 == 0
		// the history is a list of descriptions; the closures are rebuilt per instance from them
		type step struct {
			kind, hdr string
			a, b      uint64
			bz        []byte
		}
		var steps []step
		for i := 0; i < n; i++ {
			st := step{hdr: kinds[r.Intn(len(kinds))], a: uint64(1 + r.Intn(6)), b: uint64(r.Intn(40)), bz: r.Bytes(32)}
			if isL1 {
				st.kind = []string{"propose", "propose", "deposit", "delete", "batch", "create"}[r.Intn(6)]
			} else {
				st.kind = []string{"deposit", "withdraw", "begin", "end", "addval", "rmval"}[r.Intn(6)]
			}
			steps = append(steps, st)
		}
		var human []string
		for _, st := range steps {
			human = append(human, fmt.Sprintf("[header: %s] %s a=%d b=%d", st.hdr, st.kind, st.a, st.b))
		}
		runs := make([][]c18Print, R)
		for x := 0; x < R; x++ {
			x := x
			inLocalEnv(x, func() {
				if isL1 {
					sc := NewL1Scenario(s, *id, nil)
					e := sc.Env
					cfg := sc.NewConfig(1, 2, 100*sec)
					e.L1Exec(sc.op(sc.Create(e.User(1).Str, cfg)))
					for i, st := range steps {
						st := st
						freshGasL1(e)
						e.Ctx = e.Ctx.WithBlockHeader(c18Header(st.hdr, "l1chain", int64(200+i)))
						res := execAtomic(e.Ctx, func(ctx sdk.Context) (interface{}, error) {
							switch st.kind {
							case "propose":
								next, _ := e.K.GetNextOutputIndex(ctx, 1)
								return e.Msg.ProposeOutput(ctx, &ophosttypes.MsgProposeOutput{Proposer: e.User(1).Str, BridgeId: 1, OutputIndex: next, L2BlockNumber: next*10 + st.b, OutputRoot: st.bz})
							case "deposit":
								return e.Msg.InitiateTokenDeposit(ctx, &ophosttypes.MsgInitiateTokenDeposit{Sender: e.User(st.a).Str, BridgeId: 1, To: "l2addr", Amount: coinOf("uinit", big.NewInt(int64(st.b)))})
							case "delete":
								next, _ := e.K.GetNextOutputIndex(ctx, 1)
								return e.Msg.DeleteOutput(ctx, &ophosttypes.MsgDeleteOutput{Challenger: e.User(2).Str, BridgeId: 1, OutputIndex: next - 1})
							case "batch":
								return e.Msg.UpdateBatchInfo(ctx, &ophosttypes.MsgUpdateBatchInfo{Authority: e.User(1).Str, BridgeId: 1, NewBatchInfo: ophosttypes.BatchInfo{Submitter: e.User(st.a).Str, ChainType: ophosttypes.BatchInfo_ChainType(1 + st.b%2)}})
							default:
								c2 := sc.NewConfig(st.a, 2, 100*sec)
								return e.Msg.CreateBridge(ctx, &ophosttypes.MsgCreateBridge{Creator: e.User(st.a).Str, Config: c2.Real()})
							}
						})
						runs[x] = append(runs[x], printOf(res, e.Ctx, e.Keys))
					}
					return
				}
				sc := NewL2Scenario(s, *id, false)
				e := sc.Env
				ps, _ := e.K.GetParams(e.Ctx)
				ps.MaxValidators = 5
				_ = e.K.SetParams(e.Ctx, ps)
				for i, st := range steps {
					st := st
					freshGasL2(e)
					e.Ctx = e.Ctx.WithBlockHeader(c18Header(st.hdr, "l2chain", int64(20+i)))
					res := execAtomic(e.Ctx, func(ctx sdk.Context) (interface{}, error) {
						switch st.kind {
						case "deposit":
							n1, _ := e.K.GetNextL1Sequence(ctx)
							return e.Msg.FinalizeTokenDeposit(ctx, &opchildtypes.MsgFinalizeTokenDeposit{Sender: e.User(1).Str, From: "l1", To: e.User(st.a).Str,
								Amount: coinOf(sc.L2Denoms[0], big.NewInt(int64(st.b))), Sequence: n1, Height: 5, BaseDenom: sc.L1Denoms[0]})
						case "withdraw":
							return e.Msg.InitiateTokenWithdrawal(ctx, &opchildtypes.MsgInitiateTokenWithdrawal{Sender: e.User(st.a).Str, To: "l1addr", Amount: coinOf(sc.L2Denoms[0], big.NewInt(int64(1+st.b%5)))})
						case "begin":
							return nil, opchild.BeginBlocker(ctx, e.K)
						case "end":
							return opchild.EndBlocker(ctx, e.K)
						case "addval":
							m, err := opchildtypes.NewMsgAddValidator("m", e.Auth, e.ValOps[st.a%5].String(), e.ValKeys[st.b%5])
							if err != nil {
								return nil, err
							}
							return e.Msg.AddValidator(ctx, m)
						default:
							return e.Msg.RemoveValidator(ctx, &opchildtypes.MsgRemoveValidator{Authority: e.Auth, ValidatorAddress: e.ValOps[st.a%5].String()})
						}
					})
					runs[x] = append(runs[x], printOf(res, e.Ctx, e.Keys))
				}
			})
		}
		c18Compare(rep, *id, map[bool]string{true: "L1 degenerate-header", false: "L2 degenerate-header"}[isL1], runs, human)
		ok, bad := false, false
		for i, st := range steps {
			v := "ERR"
			if runs[0][i].OK {
				v, ok = "OK", true
			} else {
				bad = true
				if strings.HasPrefix(runs[0][i].Err, "panic") {
					v = "PANIC"
				}
			}
			rep.Hist("header:" + st.hdr + ":" + st.kind + ":" + v)
		}
		rep.Ops += len(steps) * R
		rep.CountCase(strings.Join(human, "\n"), ok && bad)
	}
	rep.Notes = append(rep.Notes, fmt.Sprintf("degenerate-header family: %d histories x %d operations (L1 and L2 alternating) under headers with zero time / height 0 / empty chain id and no proposer / all-zero, %d executions each", nHist, n, R))
}
