package main

import (
	"fmt"
	"sort"
)

// Model-free monitors for C13 / C14, evaluated on the implementation's own trace (ValRun):
// the engine set is the REAL CometBFT ValidatorSet object fed with every returned batch.
//
// C13: engine == positive-power validators in state == last powers (after genesis and every end
// block); every batch well-formed against the engine's set; indexes one-to-one with the stored
// validators (every step); stored / bonded <= max and the begin blocker never fails; a removed
// validator is gone after the end block of the block that removed it; the historical records
// are exactly the bonded sets of the retention window.
// C14: an end block at a height with a registered plan leaves exactly the plan's validator
// (state and engine) and the plan's executor list; executors change at no other step;
// a failing registration changes nothing.
//
// Known findings (known_findings.json): a failing plan is classified by its structural
// situation (a stored operator given a DIFFERENT key / the key in use by ANOTHER operator / a
// new validator while stored = MaxValidators; a plan naming an existing validator with its own
// key is a good plan) and
// reported under exactly that signature; everything after it in the same case is a
// consequence and carries the same signature.  Stale historical records are reported as
// C13:history-retention-zero only if HistoricalEntries was 0 at some begin block of the case.

var knownValSigs = map[string]bool{"C13:history-retention-zero": true, "C14:plan-reuses-operator": true, "C14:plan-reuses-key": true, "C14:plan-at-cap": true}
var valSigCount = map[string]int{}

type planInfo struct {
	Op, Key uint64
	Execs   []string
}

type valMonResult struct {
	PlanRuns   int
	PlanGood   int
	PlanSig    map[string]int // known-finding situations that actually failed
	Emptied    bool
	StaleKnown bool
}

func kpEq(a, b []KP) bool {
	if len(a) != len(b) {
		return false
	}
	for i := range a {
		if a[i] != b[i] {
			return false
		}
	}
	return true
}
func strsEq(a, b []string) bool {
	if len(a) != len(b) {
		return false
	}
	for i := range a {
		if a[i] != b[i] {
			return false
		}
	}
	return true
}
func sortKP(l []KP) []KP {
	out := append([]KP{}, l...)
	sort.SliceStable(out, func(i, j int) bool { return out[i].Key < out[j].Key })
	return out
}

// positive-power validators of a snapshot as a key-sorted set
func bondedOfState(s ValSnap) []KP {
	out := []KP{}
	for _, v := range s.Vals {
		if v.Pow > 0 {
			out = append(out, KP{v.Key, v.Pow})
		}
	}
	return sortKP(out)
}

// last powers mapped through the stored validators' keys (ok=false: an entry has no record)
func lastOfState(s ValSnap) ([]KP, bool) {
	out := []KP{}
	for _, l := range s.Last {
		found := false
		for _, v := range s.Vals {
			if v.Op == l.Op {
				out = append(out, KP{v.Key, l.Pow})
				found = true
			}
		}
		if !found {
			return nil, false
		}
	}
	return sortKP(out), true
}

func sameState(a, b ValSnap) bool {
	x, y := a, b
	x.Verdict, x.Err, x.HasBatch, x.Batch, x.Acc, x.EngErr = "", "", false, nil, false, ""
	y.Verdict, y.Err, y.HasBatch, y.Batch, y.Acc, y.EngErr = "", "", false, nil, false, ""
	return x.Ov().Coq() == y.Ov().Coq()
}

// sameStore: sameState without the keeper's in-memory plan registry
func sameStore(a, b ValSnap) bool {
	a.Plans, b.Plans = nil, nil
	return sameState(a, b)
}

func monitorVal(rep *Report, r *ValRun) valMonResult {
	res := valMonResult{PlanSig: map[string]int{}}
	if r.Dead() {
		return res
	}
	taint := ""     // a known-bad plan situation has produced a failure earlier in this case
	stepTaint := "" // the plan executing in this very step is in a known-bad situation
	viol := func(step int, sig, what string) {
		if taint != "" {
			sig = taint
		} else if stepTaint != "" {
			sig = stepTaint
			taint = stepTaint
			res.PlanSig[stepTaint]++
		}
		// known-finding signatures must not crowd real violations out of the report (cap 20)
		if knownValSigs[sig] {
			valSigCount[sig]++
			if valSigCount[sig] > 2 {
				return
			}
		}
		internOff = true
		rep.Violate(Violation{Case: r.ID, Step: step, What: what, Sig: sig, Ops: r.History(step),
			Detail: map[string]interface{}{"state_after_step": r.Snaps[step].Ov().Coq()}})
		internOff = false
	}
	// an exported genesis whose last powers are not exactly the validators' powers (an edited
	// export): InitGenesis tells the engine the LAST powers; state and engine are reconciled by
	// the first end blocker, from then on the full invariant must hold
	reconciled := true
	if r.Gen.Exported {
		want := map[uint64]int64{}
		for _, v := range r.Gen.Vals {
			want[v.Op] = v.Pow
		}
		if len(r.Gen.Last) != len(want) {
			reconciled = false
		}
		for _, l := range r.Gen.Last {
			if p, ok := want[l.Op]; !ok || p != l.Pow {
				reconciled = false
			}
		}
	}
	skipRec := map[int64]bool{}   // records written before the reconciliation list record powers
	dry := map[int64]bool{}       // heights whose block was pre-executed on a discarded branch
	malformed := map[int64]bool{} // heights that (wrongly) hold a malformed plan
	plans := map[uint64]planInfo{}
	removed := map[uint64]bool{}
	exp := map[int64][]KP{}
	everZero := false
	for i, s := range r.Snaps {
		var prev ValSnap
		kind := "genesis"
		var op TVOp
		if i > 0 {
			prev = r.Snaps[i-1]
			op = r.Ops[i-1]
			kind = op.Kind
		}
		rep.Hist(kind + ":" + s.Verdict)
		stepTaint = ""
		if kind == "end" {
			if pl, has := plans[uint64(op.H)]; has {
				stepTaint = classifyPlan(prev, pl)
			}
		}
		// ---- every step ----
		if i > 0 && s.Verdict == "ERR" && !sameState(prev, s) {
			viol(i, "C13:error-changed-state", kind+" failed but changed state")
		}
		// indexes one-to-one with the stored validators
		{
			byKey := map[uint64]uint64{}
			ok := true
			for _, v := range s.Vals {
				if _, dup := byKey[v.Key]; dup {
					ok = false
				}
				byKey[v.Key] = v.Op
			}
			if len(s.Idx) != len(s.Vals) {
				ok = false
			}
			for _, x := range s.Idx {
				if o, has := byKey[x[0]]; !has || o != x[1] {
					ok = false
				}
			}
			// the queries must agree with the stores
			for k, q := range s.QKey {
				o, has := byKey[uint64(k+1)]
				if (q != nil) != has || (q != nil && (q.Op != o || q.Key != uint64(k+1))) {
					ok = false
				}
			}
			if !ok {
				viol(i, "C13:index-not-bijective", fmt.Sprintf("validators %v and consensus-key index %v are not one-to-one", s.Vals, s.Idx))
			}
		}
		if uint64(len(s.Vals)) > s.MaxV || uint64(len(s.Last)) > s.MaxV {
			viol(i, "C13:more-than-max", fmt.Sprintf("%d stored / %d bonded validators with MaxValidators=%d", len(s.Vals), len(s.Last), s.MaxV))
		}
		if i > 0 && kind != "begin" && fmt.Sprint(s.Hist) != fmt.Sprint(prev.Hist) {
			viol(i, "C13:history-changed-outside-begin", "historical records changed outside the begin blocker")
		}
		planNow := false
		if kind == "end" && s.Verdict == "OK" {
			_, planNow = plans[uint64(op.H)]
		}
		if i > 0 && !planNow && !strsEq(s.Execs, prev.Execs) {
			viol(i, "C14:executors-changed-without-plan", "bridge executors changed without a plan for this height")
		}
		// ---- per kind ----
		switch kind {
		case "probe":
			if !sameState(prev, s) && !(s.Verdict == "ERR") {
				viol(i, "C14:discarded-execution-changed-state", "an executor probe on a discarded branch changed the state")
			}
			if op.ProbeWant && s.Verdict != "OK" {
				viol(i, "C14:plan-executor-refused", fmt.Sprintf("%s is one of the bridge executors %q but was refused: %s", op.Sender, s.Execs, s.Err))
			}
			if !op.ProbeWant && s.Verdict == "OK" {
				viol(i, "C14:non-executor-accepted", fmt.Sprintf("%s is not one of the bridge executors %q but was accepted", op.Sender, s.Execs))
			}
		case "dryblock":
			dry[op.H] = true
			if !sameStore(prev, s) {
				viol(i, "C14:discarded-execution-changed-state", "executing a block on a discarded cache branch changed the stored state")
			}
		case "rm":
			if s.Verdict == "OK" {
				removed[op.Op] = true
			}
		case "register":
			if s.Verdict == "OK" {
				if _, dup := plans[op.PH]; dup {
					viol(i, "C14:duplicate-height-registered", fmt.Sprintf("a second plan was registered for height %d", op.PH))
				}
				plans[op.PH] = planInfo{op.Op, op.Key, op.Execs}
				if op.Pid == 0 || op.PH == 0 || op.Op == 0 || op.Key == 0 || op.BadExec {
					malformed[int64(op.PH)] = true
					viol(i, "C14:malformed-plan-registered", "a malformed plan was registered: "+op.String())
				}
			} else if fmt.Sprint(s.Plans) != fmt.Sprint(prev.Plans) {
				viol(i, "C14:failed-registration-changed-table", "failed registration changed the plan table")
			}
		case "begin":
			if s.Verdict != "OK" {
				viol(i, "C13:begin-block-failed", "BeginBlocker failed: "+s.Err)
				break
			}
			k, e := op.H, int64(s.Entries)
			if e == 0 {
				everZero = true
				exp = map[int64][]KP{}
			} else {
				for j := range exp {
					if j <= k-e {
						delete(exp, j)
					}
				}
				exp[k] = prev.Eng
				if !reconciled {
					skipRec[k] = true
				}
			}
			if res.Emptied || taint != "" {
				// the engine no longer follows the state; the records are compared with the model only
				break
			}
			stored := map[int64]bool{}
			for _, h := range s.Hist {
				stored[h.H] = true
				want, in := exp[h.H]
				if !in {
					if everZero {
						res.StaleKnown = true
						viol(i, "C13:history-retention-zero", fmt.Sprintf("record of height %d survives outside the retention window (HistoricalEntries was 0)", h.H))
					} else {
						viol(i, "C13:history-not-pruned", fmt.Sprintf("record of height %d survives outside the retention window of %d at height %d", h.H, e, k))
					}
				} else if !kpEq(want, h.Recs) && !skipRec[h.H] {
					viol(i, "C13:history-wrong-record", fmt.Sprintf("record of height %d is %v, bonded set was %v", h.H, h.Recs, want))
				}
			}
			hs := []int64{}
			for j := range exp {
				hs = append(hs, j)
			}
			sort.Slice(hs, func(a, b int) bool { return hs[a] < hs[b] })
			for _, j := range hs {
				if !stored[j] {
					viol(i, "C13:history-missing", fmt.Sprintf("no record for height %d inside the retention window", j))
				}
			}
		case "end", "genesis":
			if s.Verdict != "OK" {
				if _, has := plans[uint64(op.H)]; has {
					res.PlanRuns++
					viol(i, planFailSig(dry[op.H], malformed[op.H]), "EndBlocker failed at the plan height: "+s.Err)
				} else {
					viol(i, "C13:end-block-failed", "EndBlocker failed: "+s.Err)
				}
				break
			}
			// batch well-formed against the engine's set before
			before := map[uint64]int64{}
			for _, x := range prev.Eng {
				before[x.Key] = x.Pow
			}
			seen := map[uint64]bool{}
			bad := ""
			for _, u := range s.Batch {
				if seen[u.Key] {
					bad = fmt.Sprintf("key%d twice", u.Key)
				}
				seen[u.Key] = true
				if u.Pow < 0 {
					bad = fmt.Sprintf("negative power for key%d", u.Key)
				}
				if _, in := before[u.Key]; u.Pow == 0 && !in {
					bad = fmt.Sprintf("removal of unknown key%d", u.Key)
				}
			}
			bonded := bondedOfState(s)
			last, lastOK := lastOfState(s)
			problems := []string{}
			if bad != "" {
				problems = append(problems, "batch "+fmt.Sprint(s.Batch)+" malformed: "+bad)
			}
			if len(bonded) == 0 && len(prev.Eng) > 0 && bad == "" {
				// the authority removed its last validator: outside the property (DESIGN section 7)
				res.Emptied = true
				rep.Hist("bonded-set-emptied")
			}
			if !res.Emptied {
				if !s.Acc {
					problems = append(problems, "the engine rejected the batch "+fmt.Sprint(s.Batch)+": "+s.EngErr)
				}
				if kind == "genesis" && !reconciled {
					if !lastOK || !kpEq(last, s.Eng) {
						problems = append(problems, fmt.Sprintf("edited export: engine %v, last powers %v", s.Eng, last))
					}
				} else if !kpEq(bonded, s.Eng) || !lastOK || !kpEq(last, s.Eng) {
					problems = append(problems, fmt.Sprintf("engine %v, positive-power validators %v, last powers %v", s.Eng, bonded, last))
				}
			}
			if kind == "end" {
				reconciled = true
			}
			if pl, has := plans[uint64(op.H)]; has && kind == "end" {
				// the plan writes its validator after this block's messages: a removal of that
				// operator earlier in the block is overridden by the plan, not lost
				delete(removed, pl.Op)
			}
			for _, v := range s.Vals {
				if removed[v.Op] {
					problems = append(problems, fmt.Sprintf("op%d was removed in this block but is still stored", v.Op))
				}
			}
			removed = map[uint64]bool{}
			if pl, has := plans[uint64(op.H)]; has && kind == "end" {
				res.PlanRuns++
				want := []KP{{pl.Key, 1}}
				if !(len(s.Vals) == 1 && s.Vals[0] == (VRec{pl.Op, pl.Key, 1}) && kpEq(s.Eng, want) && s.Acc && strsEq(s.Execs, pl.Execs)) {
					problems = append(problems, fmt.Sprintf("after the plan (op%d,key%d): validators %v, engine %v, accepted=%v, executors ok=%v",
						pl.Op, pl.Key, s.Vals, s.Eng, s.Acc, strsEq(s.Execs, pl.Execs)))
				}
				if len(problems) > 0 {
					for _, p := range problems {
						viol(i, planFailSig(dry[op.H], malformed[op.H]), p)
					}
				} else if stepTaint == "" {
					res.PlanGood++
				}
				break
			}
			for _, p := range problems {
				sig := "C13:engine-differs-from-state"
				if len(p) > 5 && p[:5] == "batch" {
					sig = "C13:batch-malformed"
				} else if len(p) > 2 && p[:2] == "op" {
					sig = "C13:removed-still-present"
				}
				viol(i, sig, p)
			}
		}
	}
	return res
}

// a plan that fails in the good situation; named after the discarded pre-execution of its block
// when there was one (the plan table is node memory, not store state: a discarded run must not
// consume the plan)
func planFailSig(afterDry, malformed bool) string {
	if malformed {
		return "C14:malformed-plan-breaks-end-block"
	}
	if afterDry {
		return "C14:plan-not-applied-after-discarded-execution"
	}
	return "C14:plan-failed"
}

// classifyPlan names the structural situation of a plan against the state before its end block
func classifyPlan(prev ValSnap, pl planInfo) string {
	opStored, opOtherKey, keyElsewhere := false, false, false
	for _, v := range prev.Vals {
		if v.Op == pl.Op {
			opStored = true
			if v.Key != pl.Key {
				opOtherKey = true
			}
		} else if v.Key == pl.Key {
			keyElsewhere = true
		}
	}
	for _, x := range prev.Idx {
		if x[0] == pl.Key && x[1] != pl.Op {
			keyElsewhere = true
		}
	}
	switch {
	case opOtherKey: // D8: a stored operator is given a DIFFERENT consensus key
		return "C14:plan-reuses-operator"
	case keyElsewhere: // D9: the key is in use by ANOTHER operator
		return "C14:plan-reuses-key"
	case !opStored && uint64(len(prev.Vals))+1 > prev.MaxV: // D10: a new validator at the cap
		return "C14:plan-at-cap"
	}
	// fresh operator + fresh key + room, or an existing validator named with its OWN key
	// (keeps the sequencer, drops the others, swaps the executors): must work
	return ""
}
