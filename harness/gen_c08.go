package main

import (
	"encoding/hex"
	"fmt"
	"math/big"
	"strings"

	sdk "github.com/cosmos/cosmos-sdk/types"

	ophosttypes "github.com/initia-labs/OPinit/x/ophost/types"
)

// C08: end-to-end solvency.  A two-chain simulation in one process driven only by EMITTED
// EVENTS, parsed the way an executor would (gen_c04.go: parseL1DepositEvents, relayOp,
// parseL2Events): random interleavings of L1 deposits (good / bad recipient / failing hook),
// relays (in order, duplicated, ahead, delayed), L2 withdrawals and transfers, donations to the
// escrow, honest proposals, challenges (deletion + re-proposal), time, claims (valid,
// duplicate, against non-final outputs); then a forced drain.  Monitor after EVERY step: the
// solvency equation per denom; every consumed L2 sequence has exactly one withdrawal event.

type c08Out struct {
	idx, lo, hi uint64 // leaves with sequences in (lo, hi]
	tree        *Tree
	version     byte
	bhash       []byte
	at          int64
	deleted     bool
}

type c08Run struct {
	*c04Run
	events    []L1DepEvent // every emitted deposit event of the bridge, in order
	relayed   int          // number of events processed by L2 (SUCCESS results seen)
	donations map[string]*big.Int
	outs      []*c08Out
	committed uint64
	l2block   uint64
	initial   map[string]*big.Int
	nClaimOK  int
	authExec  bool // the module authority is a listed executor: relays can be wrapped into ExecuteMessages
	blocked   bool // the next-in-order relay was rejected: the bridge's deposit path is stuck; no retries
	steps     int
}

func newC08Run(rep *Report, seed uint64, id int, nDenoms int) *c08Run {
	x := newC04Run(rep, seed, id, int(seed%7), nDenoms, false)
	y := &c08Run{c04Run: x, donations: map[string]*big.Int{}, initial: map[string]*big.Int{}, l2block: 1}
	{ // a second bridge (id B+1): operations on it must not disturb the equation of bridge B (system step Other)
		e1 := x.e1
		cfg := &L1Config{Proposer: e1.User(4).Str, Challenger: e1.User(5).Str, Period: 3 * sec, Interval: 10 * sec, Start: 1, Submitter: e1.User(4).Str, Chain: 1, Meta: []byte("other")}
		e1.Resolve(e1.User(3).Str)
		if res := x.l1(L1Op{Kind: "create", Sender: e1.User(3).Str, Config: cfg}); !res.OK {
			x.viol(len(x.c1.Ops)-1, "C08:bridge-creation-rejected", "a valid CreateBridge was rejected: "+res.Err)
		}
	}
	for _, d := range x.bases {
		y.donations[d] = big.NewInt(0)
		t := big.NewInt(0)
		for _, a := range y.outsideAddrs() {
			t.Add(t, x.e1.BK.GetBalance(x.e1.Ctx, a, d).Amount.BigInt())
		}
		y.initial[d] = t
	}
	return y
}

// every L1 account that can hold value outside OUR escrow: users, module accounts, the other escrow
func (y *c08Run) outsideAddrs() []sdk.AccAddress {
	e1 := y.e1
	var out []sdk.AccAddress
	for _, u := range e1.Users {
		out = append(out, u.Addr)
	}
	out = append(out, e1.ModAddr[ModGov], e1.ModAddr[ModDistr], e1.ModAddr[ModL1Minter], sdk.AccAddress(ophosttypes.BridgeAddress(y.B+1)))
	return out
}

func (y *c08Run) check(what string) {
	e1, e2 := y.e1, y.sc.Env
	y.steps++
	n2, _ := e2.K.GetNextL2Sequence(e2.Ctx)
	if int(n2)-1 != len(y.leaves) {
		y.viol(len(y.sc.Case.Ops)-1, "C08:l2-sequence-without-event", fmt.Sprintf("after %s: L2 consumed %d withdrawal sequences but emitted %d initiate_token_withdrawal events", what, n2-1, len(y.leaves)))
	}
	n1, _ := e2.K.GetNextL1Sequence(e2.Ctx)
	if int(n1)-1 != y.relayed {
		y.viol(len(y.sc.Case.Ops)-1, "C08:relay-bookkeeping", fmt.Sprintf("after %s: NextL1Sequence-1 = %d but %d finalize_token_deposit events were seen", what, n1-1, y.relayed))
	}
	for i, d := range y.bases {
		escrow := e1.BK.GetBalance(e1.Ctx, ophosttypes.BridgeAddress(y.B), d).Amount.BigInt()
		supply := e2.BK.GetSupply(e2.Ctx, y.l2d[i]).Amount.BigInt()
		pd, pw := big.NewInt(0), big.NewInt(0)
		for _, ev := range y.events[y.relayed:] {
			if ev.L1Denom == d {
				pd.Add(pd, ev.Amt)
			}
		}
		for _, lf := range y.leaves {
			if lf.OKCount == 0 && lf.W.Denom == d {
				pw.Add(pw, lf.W.Amt)
			}
		}
		rhs := new(big.Int).Add(supply, pd)
		rhs.Add(rhs, pw).Add(rhs, y.donations[d])
		if escrow.Cmp(rhs) != 0 {
			y.viol(len(y.c1.Ops)-1, "C08:solvency", fmt.Sprintf("after %s: escrow(%s) = %s but L2 supply %s + unrelayed deposits %s + unpaid withdrawals %s + donations %s = %s",
				what, d, escrow, supply, pd, pw, y.donations[d], rhs))
		}
	}
}

// L1 deposit; kind 0 good recipient, 1 bad recipient, 2 blocked module account, 3 failing hook
func (y *c08Run) stepDeposit(kind int, amt *big.Int, data []byte, to string) {
	r, e2 := y.r, y.sc.Env
	di := r.Intn(len(y.bases))
	if to == "" {
		switch kind {
		case 0:
			to = e2.User(uint64(1 + r.Intn(5))).Str
		case 1:
			to = c04BadRecipients[r.Intn(len(c04BadRecipients))]
		case 2:
			to = e2.ModAddr[ModOpchild].String()
			if amt.Sign() == 0 {
				to = c04BadRecipients[0]
			}
		default:
			to = e2.User(uint64(1 + r.Intn(5))).Str
			data = []byte{0xff, 0xfe, byte(r.Intn(256)), 0x01}
		}
	}
	if ev, ok := y.deposit(y.l1Sender(), to, y.bases[di], amt, data); ok {
		y.events = append(y.events, ev)
	}
	y.check("L1 deposit")
}

// relay the event with index k (0-based) of the emitted list
func (y *c08Run) stepRelay(k int) []WEvent {
	if k < 0 || k >= len(y.events) || (y.blocked && k >= y.relayed) {
		return nil
	}
	sc := y.sc
	ev := y.events[k]
	op := y.relayOpFor(ev, sc.SenderString(0))
	sc.register(op.Sender, op.To)
	var res ExecResult
	if y.authExec && y.r.Chance(20) {
		// the admin wraps the relay, signed by the module authority (a listed executor), into ExecuteMessages
		op.Sender = sc.Env.Auth
		admin := y.l2Admin()
		res = sc.Case.Do(L2Op{Kind: "exec", Sender: admin, Inner: []L2Op{op}})
		y.rep.Hist("relay-in-batch:" + okStr(res.OK))
	} else {
		res = sc.Case.Do(op)
	}
	y.rep.Hist("relay:" + okStr(res.OK))
	var out []WEvent
	if res.OK {
		ws, ds := parseL2Events(res.Events)
		out = ws
		for _, d := range ds {
			y.rep.Hist(fmt.Sprintf("deposit-processed:credited=%v", d.Success))
			if d.Seq != uint64(y.relayed+1) {
				y.viol(len(sc.Case.Ops)-1, "C08:relay-order", fmt.Sprintf("L2 processed deposit %d while %d deposits were processed before", d.Seq, y.relayed))
			}
			y.relayed++
		}
		if k < y.relayed-len(ds) && len(ds) != 0 {
			y.viol(len(sc.Case.Ops)-1, "C08:double-credit", fmt.Sprintf("the duplicate relay of deposit %d was processed again", ev.Seq))
		}
		for _, w := range ws {
			if len(ds) == 1 && !ds[0].Success { // refund of the failed deposit
				y.record(w, true, ev.To, ev.From, ev.L2Denom, ev.L1Denom, ev.Amt)
			} else { // a withdrawal made by the deposit's hook
				y.record(w, false, w.From, w.To, w.Denom, w.Base, w.Amt)
			}
		}
		if len(ds) == 1 && !ds[0].Success && len(ws) != 1 {
			y.viol(len(sc.Case.Ops)-1, "C08:refund-events", fmt.Sprintf("a failed deposit must emit exactly one initiate_token_withdrawal event (its refund), it emitted %d (an event of a rolled-back hook message is a phantom withdrawal)", len(ws)))
		}
	} else if k == y.relayed {
		// the deposit can be neither credited nor refunded and blocks every later one: this IS the
		// violation; it is reported once with the history and the relay is never retried
		y.blocked = true
		y.viol(len(sc.Case.Ops)-1, "C08:relay-rejected", fmt.Sprintf("L2 rejected the in-order faithful relay of deposit %d (to %q, %s %s): %s - the deposit can be neither credited nor refunded and blocks every later deposit", ev.Seq, ev.To, ev.Amt, ev.L1Denom, res.Err))
	}
	y.check("relay")
	return out
}

func (y *c08Run) stepWithdraw() {
	r, sc := y.r, y.sc
	e2 := sc.Env
	u := e2.User(uint64(1 + r.Intn(5)))
	di := r.Intn(len(y.l2d))
	bal := e2.BK.GetBalance(e2.Ctx, u.Addr, y.l2d[di]).Amount.BigInt()
	if bal.Sign() == 0 {
		return
	}
	amt := new(big.Int).Set(bal)
	if r.Chance(70) && bal.Cmp(big.NewInt(1)) > 0 {
		amt = new(big.Int).Add(big.NewInt(1), new(big.Int).Mod(new(big.Int).SetUint64(r.U64()), bal))
	}
	if amt.Cmp(two64) >= 0 {
		amt = bigSub1(two64)
	}
	if r.Chance(5) {
		amt = new(big.Int).Add(bal, big.NewInt(1)) // more than the balance: rejected
	}
	to := y.e1.User(uint64(1 + r.Intn(7))).Str
	if r.Chance(6) {
		to = c04BadRecipients[r.Intn(len(c04BadRecipients))]
	} else if r.Chance(12) {
		to = y.specialRecipient()
	}
	res := sc.Case.Do(L2Op{Kind: "withdraw", Sender: u.Str, To: to, Denom: y.l2d[di], Amt: amt})
	y.rep.Hist("withdraw:" + okStr(res.OK))
	if res.OK {
		ws, _ := parseL2Events(res.Events)
		if len(ws) == 1 {
			y.record(ws[0], false, u.Str, to, y.l2d[di], y.bases[di], amt)
		}
	} else {
		y.rejected++
	}
	y.check("L2 withdrawal")
}

func (y *c08Run) l2Admin() string {
	e2 := y.sc.Env
	ps, _ := e2.K.GetParams(e2.Ctx)
	y.sc.register(ps.Admin, e2.Auth)
	return ps.Admin
}

// the authority becomes a listed executor (MsgUpdateParams by the authority itself)
func (y *c08Run) makeAuthorityExecutor() {
	sc := y.sc
	e2 := sc.Env
	ps, _ := e2.K.GetParams(e2.Ctx)
	np := &L2Params{Admin: ps.Admin, Execs: append(append([]string{}, ps.BridgeExecutors...), e2.Auth), MaxV: uint64(ps.MaxValidators),
		Hist: uint64(ps.HistoricalEntries), MinGas: sc.Case.Params.MinGas, Whitelist: []string{}, HookGas: ps.HookMaxGas}
	sc.register(e2.Auth)
	if res := sc.Case.Do(L2Op{Kind: "params", Sender: e2.Auth, Params: np}); res.OK {
		y.authExec = true
	}
	y.check("params update")
}

// ExecuteMessages batches of the admin: a withdrawal by the module authority (funded by a plain
// transfer first), a neutral params update, or both in one batch
func (y *c08Run) stepBatch() {
	r, sc := y.r, y.sc
	e2 := sc.Env
	admin := y.l2Admin()
	di := r.Intn(len(y.l2d))
	var inner []L2Op
	var wd *L2Op
	if r.Chance(70) {
		from := uint64(1 + r.Intn(5))
		amt := big.NewInt(int64(1 + r.Intn(300)))
		sc.Case.Do(L2Op{Kind: "send", FromID: from, ToID: ModOpchild, Denom: y.l2d[di], Amt: amt})
		y.check("L2 transfer to the module account")
		to := y.e1.User(uint64(1 + r.Intn(7))).Str
		w := L2Op{Kind: "withdraw", Sender: e2.Auth, To: to, Denom: y.l2d[di], Amt: big.NewInt(int64(1 + r.Intn(300)))}
		wd = &w
		inner = append(inner, w)
	}
	if len(inner) == 0 || r.Chance(40) {
		ps, _ := e2.K.GetParams(e2.Ctx)
		np := &L2Params{Admin: ps.Admin, Execs: append([]string{}, ps.BridgeExecutors...), MaxV: uint64(ps.MaxValidators),
			Hist: uint64(ps.HistoricalEntries), MinGas: sc.Case.Params.MinGas, Whitelist: []string{}, HookGas: ps.HookMaxGas}
		inner = append(inner, L2Op{Kind: "params", Sender: e2.Auth, Params: np})
	}
	res := sc.Case.Do(L2Op{Kind: "exec", Sender: admin, Inner: inner})
	y.rep.Hist("batch:" + okStr(res.OK))
	if res.OK {
		ws, _ := parseL2Events(res.Events)
		if wd != nil && len(ws) != 1 {
			y.viol(len(sc.Case.Ops)-1, "C08:batch-withdrawal-event", fmt.Sprintf("a batch with one withdrawal emitted %d withdrawal events", len(ws)))
		}
		for _, w := range ws {
			y.record(w, false, e2.Auth, wd.To, wd.Denom, y.bases[di], wd.Amt)
		}
	} else {
		y.rejected++
	}
	y.check("ExecuteMessages batch")
}

func (y *c08Run) stepTransfer() {
	r, sc := y.r, y.sc
	from, to := uint64(1+r.Intn(5)), uint64(1+r.Intn(5))
	sc.Case.Do(L2Op{Kind: "send", FromID: from, ToID: to, Denom: y.l2d[r.Intn(len(y.l2d))], Amt: big.NewInt(int64(1 + r.Intn(500)))})
	y.check("L2 transfer")
}

func (y *c08Run) stepDonate() {
	r := y.r
	d := y.bases[r.Intn(len(y.bases))]
	amt := big.NewInt(int64(1 + r.Intn(1000)))
	res := y.l1(L1Op{Kind: "send", FromID: uint64(1 + r.Intn(7)), ToID: EscrowBase + y.B, Denom: d, Amt: amt})
	if res.OK {
		y.donations[d].Add(y.donations[d], amt)
	}
	y.check("donation to the escrow")
}

func (y *c08Run) stepPropose() {
	hi := uint64(len(y.leaves))
	if hi <= y.committed {
		return
	}
	var ws []Withdrawal
	for _, lf := range y.leaves[y.committed:hi] {
		ws = append(ws, lf.W)
	}
	o := &c08Out{lo: y.committed, hi: hi, tree: BuildTree(ws), version: byte(y.r.Intn(3)), bhash: y.r.Bytes(32), at: y.now}
	idx, _ := y.e1.K.GetNextOutputIndex(y.e1.Ctx, y.B)
	o.idx = idx
	y.l2block += 1 + uint64(y.r.Intn(5))
	res := y.l1(L1Op{Kind: "propose", Sender: y.role(true), Bridge: y.B, Idx: idx, L2: y.l2block, Root: outputRootOf(o.version, o.tree.Root(), o.bhash)})
	y.rep.Hist("propose:" + okStr(res.OK))
	if res.OK {
		y.outs = append(y.outs, o)
		y.committed = hi
	}
	y.check("proposal")
}

// the challenger deletes the newest live output if it is not final yet; later proposals re-commit
func (y *c08Run) stepChallenge() {
	var last *c08Out
	for _, o := range y.outs {
		if !o.deleted {
			last = o
		}
	}
	if last == nil {
		return
	}
	res := y.l1(L1Op{Kind: "delete", Sender: y.role(false), Bridge: y.B, Idx: last.idx})
	y.rep.Hist("challenge:" + okStr(res.OK))
	if res.OK {
		last.deleted = true
		y.committed = last.lo
	} else {
		y.rejected++
	}
	y.check("challenge")
}

// the current proposer / challenger of the bridge (roles move during the run)
func (y *c08Run) role(proposer bool) string {
	cfg, err := y.e1.K.GetBridgeConfig(y.e1.Ctx, y.B)
	if err != nil { // only on a broken tree (creation rejected, already reported)
		return y.e1.User(1).Str
	}
	s := cfg.Challenger
	if proposer {
		s = cfg.Proposer
	}
	y.e1.Resolve(s)
	return s
}

// operations on the OTHER bridge (system step Other): deposits into it, proposals and deletions on it
func (y *c08Run) stepOther() {
	r, e1 := y.r, y.e1
	ob := y.B + 1
	switch r.Intn(3) {
	case 0:
		sender := y.l1Sender()
		e1.Resolve(sender)
		res := y.l1(L1Op{Kind: "deposit", Sender: sender, Bridge: ob, To: "other-chain-recipient", Denom: y.bases[r.Intn(len(y.bases))], Amt: big.NewInt(int64(r.Intn(5000)))})
		y.rep.Hist("other-deposit:" + okStr(res.OK))
	case 1:
		idx, _ := e1.K.GetNextOutputIndex(e1.Ctx, ob)
		y.l2block += 1 + uint64(r.Intn(3))
		res := y.l1(L1Op{Kind: "propose", Sender: e1.User(4).Str, Bridge: ob, Idx: idx, L2: y.l2block, Root: r.Bytes(32)})
		y.rep.Hist("other-propose:" + okStr(res.OK))
	default:
		idx, _ := e1.K.GetNextOutputIndex(e1.Ctx, ob)
		if idx > 1 {
			res := y.l1(L1Op{Kind: "delete", Sender: e1.User(5).Str, Bridge: ob, Idx: idx - 1})
			y.rep.Hist("other-delete:" + okStr(res.OK))
		}
	}
	y.check("operation on another bridge")
}

// L1 role / config messages (system step Admin1): they must not disturb the equation
func (y *c08Run) stepAdmin() {
	r, e1 := y.r, y.e1
	signer := e1.Auth
	switch r.Intn(3) {
	case 0:
		signer = y.role(true)
	case 1:
		signer = e1.User(uint64(1 + r.Intn(7))).Str // usually not authorised
	}
	e1.Resolve(signer)
	nu := e1.User(uint64(1 + r.Intn(7))).Str
	e1.Resolve(nu)
	var res ExecResult
	switch r.Intn(4) {
	case 0:
		res = y.l1(L1Op{Kind: "uproposer", Sender: signer, Bridge: y.B, NewAddr: nu})
	case 1:
		if r.Bool() {
			signer = y.role(false)
		}
		res = y.l1(L1Op{Kind: "uchallenger", Sender: signer, Bridge: y.B, NewAddr: nu})
	case 2:
		res = y.l1(L1Op{Kind: "umeta", Sender: signer, Bridge: y.B, Meta: r.Bytes(r.Intn(10))})
	default:
		res = y.l1(L1Op{Kind: "recordbatch", Sender: nu, Bridge: y.B, Data: r.Bytes(1 + r.Intn(4))})
	}
	y.rep.Hist("admin1:" + okStr(res.OK))
	y.check("L1 role/config message")
}

func (y *c08Run) outFor(k int, final bool) *c08Out {
	for _, o := range y.outs {
		if !o.deleted && uint64(k) >= o.lo && uint64(k) < o.hi && (!final || y.now/sec >= (o.at+7*sec)/sec) {
			return o
		}
	}
	return nil
}

func (y *c08Run) claim(k int, o *c08Out, expectOK bool) {
	lf := y.leaves[k]
	sub := y.e1.User(uint64(1 + y.r.Intn(7))).Str
	y.e1.Resolve(sub)
	y.e1.Resolve(lf.W.To)
	res := y.l1(L1Op{Kind: "finalize", Sender: sub, Bridge: y.B, Idx: o.idx, Seq: lf.W.Seq, Proofs: o.tree.Proof(k - int(o.lo)), From: lf.W.From, To: lf.W.To,
		Denom: lf.W.Denom, Amt: new(big.Int).Set(lf.W.Amt), Version: []byte{o.version}, SRoot: o.tree.Root(), BHash: o.bhash})
	y.rep.Hist("claim:" + okStr(res.OK))
	if res.OK {
		lf.OKCount++
		y.nClaimOK++
		y.okClaims++
		if lf.OKCount > 1 {
			y.viol(len(y.c1.Ops)-1, "C08:paid-twice", fmt.Sprintf("withdrawal %d was paid twice", lf.W.Seq))
		}
		if lf.Claimable && lf.RcvID == EscrowBase+y.B { // paid from the escrow to itself: the value stays, as a donation
			y.donations[lf.W.Denom].Add(y.donations[lf.W.Denom], lf.W.Amt)
		}
	} else {
		y.rejected++
		if expectOK {
			y.viol(len(y.c1.Ops)-1, "C08:claim-rejected", fmt.Sprintf("the funded, final, unpaid claim of withdrawal %d (amount %s %s to %q) was rejected: %s", lf.W.Seq, lf.W.Amt, lf.W.Denom, lf.W.To, res.Err))
		}
	}
	y.check("claim")
}

func (y *c08Run) stepClaim() {
	if len(y.leaves) == 0 {
		return
	}
	k := y.r.Intn(len(y.leaves))
	lf := y.leaves[k]
	if o := y.outFor(k, true); o != nil {
		y.claim(k, o, lf.Claimable && lf.OKCount == 0)
	} else if o := y.outFor(k, false); o != nil && y.r.Chance(30) {
		y.claim(k, o, false) // not final yet
	}
}

// relayAll relays the pending events in order: at most one attempt per pending event, and it
// stops at the first attempt that does not advance (reported by stepRelay) - bounded by construction
func (y *c08Run) relayAll() {
	for n := len(y.events) - y.relayed; n > 0; n-- {
		before := y.relayed
		y.stepRelay(y.relayed)
		if y.relayed == before {
			return
		}
	}
}

// a deposit whose hook tx carries MsgInitiateTokenWithdrawal signed by the recipient (D14); in a
// third of them a second hook message fails, so the whole hook is rolled back and the deposit refunded
func (y *c08Run) stepHookWithdrawal() {
	y.relayAll()
	if y.blocked || y.relayed < len(y.events) {
		return
	}
	r, e2 := y.r, y.sc.Env
	u := e2.User(uint64(1 + r.Intn(5)))
	di := r.Intn(len(y.bases))
	amt := big.NewInt(int64(40 + r.Intn(100000)))
	quarter := new(big.Int).Rsh(amt, 2) // >= 10: the credited amount covers every shape below
	to := y.e1.User(uint64(1 + r.Intn(7))).Str
	y.sc.register(u.Str)
	wd := func(a *big.Int) HookSend {
		return HookSend{Withdraw: true, ToL1: to, Denom: y.l2d[di], Amt: new(big.Int).Set(a)}
	}
	snd := func(a int64) HookSend { // a bank send of the deposited denom to another user: succeeds
		return HookSend{To: uint64(1 + r.Intn(5)), Denom: y.l2d[di], Amt: big.NewInt(a)}
	}
	var msgs []HookSend
	nW, fails := 1, false
	switch r.Intn(6) {
	case 0: // the withdrawal alone
		msgs = []HookSend{wd(new(big.Int).Add(quarter, quarter))}
	case 1: // a bank send of more than the signer holds: the hook fails AFTER the withdrawal ran
		msgs = []HookSend{wd(quarter), {To: uint64(1 + r.Intn(5)), Denom: y.sc.Native, Amt: pow2(100)}}
		fails = true
	case 2: // successful multi-message hooks: the withdrawal is not the last message
		msgs = []HookSend{wd(quarter), snd(2)}
	case 3:
		msgs = []HookSend{snd(1), wd(quarter), snd(3)}
	case 4:
		msgs = []HookSend{wd(quarter), wd(big.NewInt(5)), snd(1)}
		nW = 2
	default:
		msgs = []HookSend{snd(2), wd(big.NewInt(3)), wd(quarter)}
		nW = 2
	}
	hook := e2.MakeHookTx(u.ID, e2.AccSeq(u.ID), true, msgs)
	data := hook.Raw
	y.hooks[hex.EncodeToString(data)] = hook
	if ev, ok := y.deposit(y.l1Sender(), u.Str, y.bases[di], amt, data); ok {
		y.events = append(y.events, ev)
		y.check("L1 deposit with a withdrawing hook")
		before := y.relayed
		ws := y.stepRelay(len(y.events) - 1)
		y.rep.Hist(fmt.Sprintf("hook-msgs:%d-withdrawals:%d-fails:%v-events:%d", len(msgs), nW, fails, len(ws)))
		want := nW
		if fails {
			want = 1 // only the refund of the deposit
		}
		if y.relayed == before+1 && len(ws) != want {
			y.viol(len(y.sc.Case.Ops)-1, "C08:hook-withdrawal-events", fmt.Sprintf("a deposit whose hook tx has %d messages (%d withdrawals, hook fails: %v) emitted %d initiate_token_withdrawal events, %d expected",
				len(msgs), nW, fails, len(ws), want))
		}
	}
}

func (y *c08Run) drain() {
	y.relayAll()
	y.stepPropose()
	y.now += 8 * sec
	for k, lf := range y.leaves {
		if lf.OKCount == 0 {
			if o := y.outFor(k, true); o != nil {
				y.claim(k, o, lf.Claimable)
			} else {
				y.viol(len(y.c1.Ops)-1, "C08:drain-uncommitted", fmt.Sprintf("withdrawal %d is covered by no live final output after the drain", lf.W.Seq))
			}
		}
	}
	for k, lf := range y.leaves { // a second submission of everything must be rejected
		if o := y.outFor(k, true); o != nil && (k%4 == 0 || !lf.Claimable) {
			y.claim(k, o, false)
		}
	}
	e1, e2 := y.e1, y.sc.Env
	for i, d := range y.bases {
		unclaimable := big.NewInt(0)
		for _, lf := range y.leaves {
			if lf.Claimable && lf.OKCount != 1 {
				y.viol(len(y.c1.Ops)-1, "C08:drain-not-exactly-once", fmt.Sprintf("after the drain withdrawal %d was paid %d times", lf.W.Seq, lf.OKCount))
			}
			if !lf.Claimable && lf.W.Denom == d {
				unclaimable.Add(unclaimable, lf.W.Amt)
			}
		}
		escrow := e1.BK.GetBalance(e1.Ctx, ophosttypes.BridgeAddress(y.B), d).Amount.BigInt()
		supply := e2.BK.GetSupply(e2.Ctx, y.l2d[i]).Amount.BigInt()
		want := new(big.Int).Add(supply, y.donations[d])
		want.Add(want, unclaimable)
		for _, ev := range y.events[y.relayed:] { // only non-empty when the deposit path is blocked (already reported)
			if ev.L1Denom == d {
				want.Add(want, ev.Amt)
			}
		}
		if escrow.Cmp(want) != 0 {
			y.viol(len(y.c1.Ops)-1, "C08:drain-escrow", fmt.Sprintf("after the drain escrow(%s) = %s, L2 supply + donations + unclaimable (zero / bad recipient) = %s", d, escrow, want))
		}
		outside := big.NewInt(0)
		for _, a := range y.outsideAddrs() {
			outside.Add(outside, e1.BK.GetBalance(e1.Ctx, a, d).Amount.BigInt())
		}
		tot := new(big.Int).Add(outside, want)
		if tot.Cmp(y.initial[d]) != 0 {
			y.viol(len(y.c1.Ops)-1, "C08:holdings-not-conserved", fmt.Sprintf("%s: held on L1 outside the escrow %s + L2 supply + donations + unclaimable %s != initial L1 total %s", d, outside, want, y.initial[d]))
		}
	}
}

func init() { register("C08", genC08) }

func genC08(seed uint64, tier string, outdir string) *Report {
	rep := NewReport("C08", seed, tier)
	rep.Rule = "a case is one random two-chain interleaving (200-400 steps) followed by a forced drain; distinct by hash of both op lists; non-trivial = at least one claim paid and at least one operation rejected"
	nModel, nHook := 8, 4
	if tier == "thorough" {
		nModel, nHook = 150, 60
	}
	var texts1, texts2 []string
	for k := 0; k < nModel+nHook; k++ {
		hookCase := k >= nModel
		y := newC08Run(rep, seed*15485863+uint64(k), k+1, 2+k%2)
		r := y.r
		if k%2 == 0 {
			y.makeAuthorityExecutor()
		}
		nSteps := 200 + r.Intn(201)
		for i := 0; i < nSteps; i++ {
			switch r.Weighted([]int{22, 22, 14, 5, 4, 6, 3, 8, 12, 4, 3, 4, 4}) {
			case 0:
				amt := c04Amount(r)
				if r.Chance(85) {
					amt = big.NewInt(int64(r.Intn(100000)))
				}
				kind := r.Weighted([]int{70, 12, 6, 12})
				if (kind == 1 || kind == 3) && r.Chance(12) {
					amt = big.NewInt(0) // zero amount with a bad recipient / with a good recipient and a failing hook
				}
				y.stepDeposit(kind, amt, nil, "")
			case 1: // relay: in order, duplicate, ahead
				switch r.Weighted([]int{75, 15, 10}) {
				case 0:
					y.stepRelay(y.relayed)
				case 1:
					if y.relayed > 0 {
						y.stepRelay(r.Intn(y.relayed))
					}
				case 2:
					y.stepRelay(y.relayed + 1 + r.Intn(2))
				}
			case 2:
				y.stepWithdraw()
			case 3:
				y.stepTransfer()
			case 4:
				y.stepDonate()
			case 5:
				y.stepPropose()
			case 6:
				y.stepChallenge()
			case 7:
				y.now += []int64{1, sec, 2 * sec, 7 * sec, 500000000}[r.Intn(5)]
			case 8:
				y.stepClaim()
			case 9:
				if hookCase {
					y.stepHookWithdrawal()
				}
			case 10:
				y.stepAdmin()
			case 11:
				y.stepOther()
			case 12:
				y.stepBatch()
			}
		}
		y.drain()
		rep.Ops += len(y.c1.Ops) + len(y.sc.Case.Ops)
		rep.Hist(fmt.Sprintf("recorded-withdrawals-per-case:%d0s", len(y.leaves)/10))
		canon := strings.Join(l1OpsHuman(y.c1.Ops), "\n") + "\n" + strings.Join(opsCoq(y.sc.Case.Ops), "\n")
		rep.CountCase(canon, y.okClaims > 0 && y.rejected > 0)
		if hookCase {
			rep.Hist("case:with-hook-withdrawals")
		} else {
			rep.Hist("case:without-hook-withdrawals")
		}
		texts1 = append(texts1, y.c1.Coq())
		texts2 = append(texts2, y.sc.Case.Coq())
		if k == 0 {
			ops := l1OpsHuman(y.c1.Ops)
			if len(ops) > 12 {
				ops = ops[:12]
			}
			rep.Sample(map[string]interface{}{"kind": "first L1 ops of an interleaving", "ops": ops, "steps": y.steps, "recorded_withdrawals": len(y.leaves), "claims_paid": y.nClaimOK})
		}
	}
	rep.Notes = append(rep.Notes, "solvency equation and event/sequence bookkeeping checked after every step; a third of the cases contain deposits whose hook tx carries a withdrawal of the recipient (D14)")
	nsh := 6
	if tier == "thorough" { // the per-shard coqc timeout of the checker is 1700 s
		nsh = 12
	}
	writeShards(outdir, "C08", l1CaseHeader, "run_l1case", "l1case", texts1, nsh, rep)
	writeShards(outdir, "C08L2", l2CaseHeader, "run_l2case", "l2case", texts2, nsh/3, rep)
	return rep
}
