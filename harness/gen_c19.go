package main

import (
	"bytes"
	"context"
	"encoding/binary"
	"encoding/hex"
	"encoding/json"
	"fmt"
	"strings"

	storetypes "cosmossdk.io/store/types"
	sdk "github.com/cosmos/cosmos-sdk/types"
	authcodec "github.com/cosmos/cosmos-sdk/x/auth/codec"

	ophosttypes "github.com/initia-labs/OPinit/x/ophost/types"
	"github.com/initia-labs/OPinit/x/ophost/types/hook"
)

// C19: the relayer admin of a permissioned IBC channel follows the bridge's challenger.
//
// The REAL hook.NewBridgeHook is wired into the real ophost keeper; the IBC channel keeper and
// the IBC perm keeper are small store-backed fakes (two extra KV stores of the same multistore,
// so their writes are transactional under the per-message CacheContext exactly like the real
// keepers').  Histories: environment ops (channel appears / is used / disappears, another
// module grants or clears an admin) interleaved with create / update-metadata /
// update-challenger (and a few other messages) over up to four bridges, metadata from a
// grammar of JSON shapes.  The model's parse table is filled per metadata string by c19Parse, an
// independent strict decode of the documented structure written here (it does not call the
// repository's hasPermChannels).
//
// Monitors (model-free, on the implementation's own keepers before/after each message):
//   C19:admin-changed-outside-rules   an admin entry changed and none of the four rules justifies it
//   C19:create-ok-on-unfit-channel    create Ok although a listed channel was missing / in use / taken
//   C19:metadata-ok-on-unfit-channel  update-metadata Ok although a listed channel was neither ours nor fresh+untaken
//   C19:grant-missing                 create / update-metadata Ok but a listed channel is not administered by the challenger
//   C19:handover-missing              update-challenger Ok but a listed channel is not administered by the new challenger
//   C19:handover-refused              update-challenger by governance / the challenger refused (the hand-over has no channel precondition)
//   C19:grant-refused                 a well-formed create / update-metadata with only fit channels was refused
//   C19:err-changed-state             a refused message changed the admin table or a config

func init() { register("C19", genC19) }

// ---- store-backed fakes of the two IBC keepers ----
type c19Fakes struct {
	chanKey, permKey *storetypes.KVStoreKey
}

func c19Key(port, ch string) []byte {
	b := make([]byte, 4, 4+len(port)+len(ch))
	binary.BigEndian.PutUint32(b, uint32(len(port)))
	return append(append(b, port...), ch...)
}

type c19ChanKeeper struct{ f *c19Fakes }

func (k c19ChanKeeper) GetNextSequenceSend(ctx sdk.Context, portID, channelID string) (uint64, bool) {
	bz := ctx.KVStore(k.f.chanKey).Get(c19Key(portID, channelID))
	if bz == nil {
		return 0, false
	}
	return binary.BigEndian.Uint64(bz), true
}

type c19PermKeeper struct{ f *c19Fakes }

func (k c19PermKeeper) IsTaken(ctx context.Context, portID, channelID string) (bool, error) {
	return sdk.UnwrapSDKContext(ctx).KVStore(k.f.permKey).Has(c19Key(portID, channelID)), nil
}
func (k c19PermKeeper) SetAdmin(ctx context.Context, portID, channelID string, admin sdk.AccAddress) error {
	sdk.UnwrapSDKContext(ctx).KVStore(k.f.permKey).Set(c19Key(portID, channelID), admin)
	return nil
}
func (k c19PermKeeper) HasAdminPermission(ctx context.Context, portID, channelID string, admin sdk.AccAddress) (bool, error) {
	bz := sdk.UnwrapSDKContext(ctx).KVStore(k.f.permKey).Get(c19Key(portID, channelID))
	return bz != nil && bytes.Equal(bz, admin), nil
}

// ---- independent strict decode of the documented structure ----
type c19Doc struct {
	PermChannels []c19PortChannel `json:"perm_channels"`
}
type c19PortChannel struct {
	PortID    string `json:"port_id,omitempty"`
	ChannelID string `json:"channel_id,omitempty"`
}

// c19Parse: the metadata is a JSON object that has the exact key "perm_channels", and it
// decodes as c19Doc with unknown fields disallowed.
func c19Parse(md []byte) ([][2]string, bool) {
	if len(md) == 0 {
		return nil, false
	}
	var probe map[string]json.RawMessage
	if err := json.Unmarshal(md, &probe); err != nil {
		return nil, false
	}
	if _, ok := probe["perm_channels"]; !ok {
		return nil, false
	}
	dec := json.NewDecoder(bytes.NewReader(md))
	dec.DisallowUnknownFields()
	var d c19Doc
	if err := dec.Decode(&d); err != nil {
		return nil, false
	}
	out := [][2]string{}
	for _, pc := range d.PermChannels {
		out = append(out, [2]string{pc.PortID, pc.ChannelID})
	}
	return out, true
}

func c19ParseCoq(md []byte) string {
	l, ok := c19Parse(md)
	if !ok {
		return "None"
	}
	items := []string{}
	for _, pc := range l {
		items = append(items, coqPC(pc[0], pc[1]))
	}
	return "(Some " + coqList(items) + ")"
}

// ---- scenario ----
var c19Universe = [][2]string{{"transfer", "channel-0"}, {"transfer", "channel-1"}, {"transfer", "channel-2"}, {"nft-transfer", "channel-0"},
	{"transfer", "channel-9"}, {"transfer", ""}, {"", ""}}

type c19Gen struct {
	sc  *L1Scenario
	c   *L1Case
	f   *c19Fakes
	rep *Report
	r   *Rng
}

func newC19Scenario(seed uint64, id int) *c19Gen {
	f := &c19Fakes{}
	ac := authcodec.NewBech32Codec(sdk.GetConfig().GetBech32AccountAddrPrefix())
	real := hook.NewBridgeHook(c19ChanKeeper{f}, c19PermKeeper{f}, ac)
	// wired as the application wires it: through the composite types.BridgeHooks, alone or with
	// a trivial hook before / after it
	var h ophosttypes.BridgeHook
	switch (seed + uint64(id)) % 4 {
	case 0:
		h = ophosttypes.NewBridgeHooks(real)
	case 1:
		h = ophosttypes.NewBridgeHooks(noHook{}, real)
	case 2:
		h = ophosttypes.NewBridgeHooks(real, noHook{})
	default:
		h = ophosttypes.NewBridgeHooks(noHook{}, real, noHook{})
	}
	e := NewL1Env(seed, 7, h, "c19chan", "c19perm")
	f.chanKey, f.permKey = e.Keys["c19chan"], e.Keys["c19perm"]
	e.EnvOp = func(ctx sdk.Context, o L1Op) error {
		switch o.Kind {
		case "chanset":
			st := ctx.KVStore(f.chanKey)
			if o.Has {
				st.Set(c19Key(o.Port, o.Chan), be8(o.Val))
			} else {
				st.Delete(c19Key(o.Port, o.Chan))
			}
		case "adminset":
			st := ctx.KVStore(f.permKey)
			if o.Has {
				st.Set(c19Key(o.Port, o.Chan), e.AddrOf(o.Val))
			} else {
				st.Delete(c19Key(o.Port, o.Chan))
			}
		}
		return nil
	}
	e.AdminOf = func(ctx sdk.Context, port, ch string) (uint64, bool) {
		bz := ctx.KVStore(f.permKey).Get(c19Key(port, ch))
		if bz == nil {
			return 0, false
		}
		id, ok := e.Resolve(sdk.AccAddress(bz).String())
		if !ok {
			panic("admin is not an address")
		}
		return id, true
	}
	sc := &L1Scenario{Env: e, R: NewRng(seed), Now: t0, Height: 100, Denoms: []string{"uinit"},
		NextWSeq: map[uint64]uint64{}, ClaimSet: map[string]bool{}, wts: DefaultL1Weights}
	for _, u := range e.Users {
		e.Fund(u.Addr, sdk.NewCoins(sdk.NewInt64Coin("uinit", 1000)))
	}
	sc.Case = &L1Case{ID: id, Env: e, Track: &L1Track{Accts: []uint64{1, 2, 3, ModDistr}, Denoms: sc.Denoms, Bridges: []uint64{1, 2, 3, 4},
		Channels: c19Universe}, Parse: map[string]string{}}
	sc.Case.Snapshot()
	return &c19Gen{sc: sc, c: sc.Case, f: f, r: sc.R}
}

// ---- metadata grammar ----
func c19Entry(pc [2]string) string {
	return fmt.Sprintf(`{"port_id":%q,"channel_id":%q}`, pc[0], pc[1])
}

func (g *c19Gen) pickChannels(n int) [][2]string {
	var out [][2]string
	for i := 0; i < n; i++ {
		out = append(out, c19Universe[g.r.Weighted([]int{30, 25, 20, 15, 6, 2, 2})])
	}
	return out
}

func (g *c19Gen) genMeta() ([]byte, string) {
	r := g.r
	chs := g.pickChannels(r.Weighted([]int{6, 30, 40, 24}))
	var items []string
	for _, pc := range chs {
		items = append(items, c19Entry(pc))
	}
	list := "[" + strings.Join(items, ",") + "]"
	one := c19Entry(c19Universe[r.Intn(4)])
	switch r.Weighted([]int{30, 5, 6, 6, 5, 5, 5, 5, 4, 6, 4, 5, 3, 3, 2, 2, 5, 4, 3}) {
	case 0:
		return []byte(`{"perm_channels":` + list + `}`), "valid"
	case 1:
		return []byte(" {\n \"perm_channels\" : " + strings.ReplaceAll(list, ",", " ,\t") + " } \n"), "valid-whitespace"
	case 2:
		return []byte(`{"perm_channels":` + list + `,"extra":1}`), "unknown-top-field"
	case 3:
		return []byte(`{"perm_channels":[{"port_id":"transfer","channel_id":"channel-1","x":1}]}`), "unknown-inner-field"
	case 4:
		return []byte(`{"perm_channels":[],"perm_channels":[` + one + `]}`), "duplicate-key-last-wins"
	case 5:
		return []byte(`{"PERM_CHANNELS":` + list + `}`), "uppercase-top-key-only"
	case 6:
		return []byte(`{"perm_channels":[],"Perm_Channels":[` + one + `]}`), "empty-then-differently-cased-duplicate"
	case 7:
		return []byte(`{"perm_channels":[{"PORT_ID":"transfer","Channel_Id":"channel-2"}]}`), "uppercase-inner-keys"
	case 8:
		return [][]byte{[]byte("null"), []byte(`{"perm_channels":null}`), []byte(`{"perm_channels":[null]}`)}[r.Intn(3)], "null"
	case 9:
		return [][]byte{[]byte(`{"perm_channels":"x"}`), []byte(`{"perm_channels":[1]}`), []byte(`{"perm_channels":{"port_id":"transfer","channel_id":"channel-0"}}`),
			[]byte(list), []byte(`{"perm_channels":[{"port_id":1,"channel_id":"channel-0"}]}`)}[r.Intn(5)], "wrong-types"
	case 10:
		return [][]byte{[]byte(`{"perm_channels":` + list + `} x`), []byte(`{"perm_channels":` + list + `}{"a":1}`), []byte(`{"perm_channels":` + list + `}}`)}[r.Intn(3)], "trailing-bytes"
	case 11:
		return [][]byte{[]byte("meta"), {}, r.Bytes(1 + r.Intn(10)), []byte(`{"perm_channels":[`), []byte(`perm_channels`)}[r.Intn(5)], "non-json"
	case 12:
		pad := 5121 - len(`{"perm_channels":`+list+`}`)
		if r.Bool() {
			pad-- // exactly 5 KiB: accepted
		}
		return []byte(`{"perm_channels":` + list + strings.Repeat(" ", pad) + `}`), "around-5KiB"
	case 13:
		return []byte(`{"perm_channels":[{"port_id":"transfer"}]}`), "missing-inner-field"
	case 14:
		return []byte(`{"perm_channels":[` + one + `,` + one + `]}`), "repeated-channel"
	case 16: // the KEY written with JSON unicode escapes: the same JSON document
		key := []string{`perm\u005fchannels`, `\u0070erm_channels`, `perm_ch\u0061nnels`}[r.Intn(3)]
		return []byte(`{"` + key + `":` + list + `}`), "escaped-key"
	case 17: // inner keys / values with escapes, reordered inner keys, newlines
		pc := c19Universe[r.Intn(4)]
		ent := fmt.Sprintf("{\n\"channel\\u005fid\" : \"%s\",\n\"port_id\":\"%s\"}", strings.Replace(pc[1], "-", `\u002d`, 1), strings.Replace(pc[0], "t", `\u0074`, 1))
		return []byte("\n{\"perm_channels\":[" + ent + "]}\n"), "escaped-inner-reordered"
	case 18: // differently-cased exact duplicate before the exact key; escaped solidus in a value
		return []byte(`{"Perm_Channels":[` + one + `],"perm_channels":[{"port_id":"transfer","channel_id":"channel\/x"}]}`), "cased-duplicate-then-exact-escaped-solidus"
	default:
		return []byte(`{"perm_channels":[{"port_id":"tr\u0061nsfer","channel_id":"channel-0"}],"perm_channels":[{"port_id":"tr\u0061nsfer","channel_id":"ch\u0061nnel-1"}]}`), "escapes-and-duplicate"
	}
}

func (g *c19Gen) noteParse(md []byte) {
	g.c.Parse[hex.EncodeToString(md)] = c19ParseCoq(md)
}

// ---- model-free view of the implementation ----
type c19View struct {
	admin map[[2]string]string // channel -> admin bytes (as string), absent = none
	seq   map[[2]string]uint64 // channel -> next send sequence, absent = no such channel
	cfg   map[uint64][3]string // bridge -> (proposer, challenger, metadata)
}

func (g *c19Gen) view(extra [][2]string) c19View {
	e := g.sc.Env
	v := c19View{admin: map[[2]string]string{}, seq: map[[2]string]uint64{}, cfg: map[uint64][3]string{}}
	for _, pc := range append(append([][2]string{}, c19Universe...), extra...) {
		if bz := e.Ctx.KVStore(g.f.permKey).Get(c19Key(pc[0], pc[1])); bz != nil {
			v.admin[pc] = string(bz)
		}
		if bz := e.Ctx.KVStore(g.f.chanKey).Get(c19Key(pc[0], pc[1])); bz != nil {
			v.seq[pc] = binary.BigEndian.Uint64(bz)
		}
	}
	for b := uint64(1); b <= 5; b++ {
		if cfg, err := e.K.GetBridgeConfig(e.Ctx, b); err == nil {
			v.cfg[b] = [3]string{cfg.Proposer, cfg.Challenger, string(cfg.Metadata)}
		}
	}
	return v
}

func c19Has(l [][2]string, pc [2]string) bool {
	for _, x := range l {
		if x == pc {
			return true
		}
	}
	return false
}

func (g *c19Gen) addrBytes(s string) string {
	b, err := g.sc.Env.AK.AddressCodec().StringToBytes(s)
	if err != nil {
		return ""
	}
	return string(b)
}

func (g *c19Gen) do(o L1Op, metaClass string) ExecResult {
	c, rep := g.c, g.rep
	var listed [][2]string
	var md []byte
	switch o.Kind {
	case "create":
		md = o.Config.Meta
	case "umeta":
		md = o.Meta
	}
	pre0 := g.view(nil)
	if o.Kind == "uchallenger" {
		if cf, ok := pre0.cfg[o.Bridge]; ok {
			md = []byte(cf[2])
		}
	}
	var parsed bool
	if md != nil || o.Kind == "create" || o.Kind == "umeta" {
		listed, parsed = c19Parse(md)
		g.noteParse(md)
	}
	pre := g.view(listed)
	res := c.DoObs(o)
	i := len(c.Ops) - 1
	post := g.view(listed)
	verdict := "ERR"
	if res.OK {
		verdict = "OK"
	}
	rep.Hist(o.Kind + ":" + verdict)
	if metaClass != "" {
		pv := "unparsed"
		if parsed {
			pv = "parsed"
		}
		rep.Hist("metadata:" + metaClass + ":" + pv + ":" + verdict)
	}
	hist := func() []string { return l1OpsHuman(c.Ops[:i+1]) }
	viol := func(sig, what string) {
		rep.Violate(Violation{Case: c.ID, Step: i, What: what, Sig: sig, Ops: hist()})
	}
	// who is the challenger the rules talk about
	challenger := ""
	switch o.Kind {
	case "create":
		challenger = g.addrBytes(o.Config.Challenger)
	case "umeta":
		if cf, ok := pre.cfg[o.Bridge]; ok {
			challenger = g.addrBytes(cf[1])
		}
	case "uchallenger":
		challenger = g.addrBytes(o.NewAddr)
	}
	fit := func(pc [2]string) bool { // exists, never sent a packet, no admin yet
		s, ok := pre.seq[pc]
		_, taken := pre.admin[pc]
		return ok && s == 1 && !taken
	}
	// 1. every change of an admin entry is justified by a rule
	keys := append(append([][2]string{}, c19Universe...), listed...)
	for _, pc := range keys {
		a0, h0 := pre.admin[pc]
		a1, h1 := post.admin[pc]
		if h0 == h1 && a0 == a1 {
			continue
		}
		ok := false
		switch o.Kind {
		case "adminset":
			ok = o.Port == pc[0] && o.Chan == pc[1]
		case "create", "umeta":
			ok = res.OK && parsed && c19Has(listed, pc) && fit(pc) && h1 && a1 == challenger && challenger != ""
		case "uchallenger":
			ok = res.OK && parsed && c19Has(listed, pc) && h1 && a1 == challenger && challenger != ""
		}
		if !ok {
			viol("C19:admin-changed-outside-rules", fmt.Sprintf("admin of %q/%q changed from %x to %x by %s (parsed=%v listed=%v)", pc[0], pc[1], a0, a1, o.Kind, parsed, c19Has(listed, pc)))
		}
	}
	// 2. Ok only on fit channels; afterwards the challenger administers every listed channel
	if res.OK && parsed {
		for k, pc := range listed {
			switch o.Kind {
			case "create":
				if !fit(pc) || c19Has(listed[:k], pc) {
					viol("C19:create-ok-on-unfit-channel", fmt.Sprintf("bridge created although listed channel %q/%q was missing, in use, taken or repeated", pc[0], pc[1]))
				}
			case "umeta":
				if !(pre.admin[pc] == challenger && challenger != "") && !fit(pc) {
					viol("C19:metadata-ok-on-unfit-channel", fmt.Sprintf("metadata updated although listed channel %q/%q was neither administered by the challenger nor fresh and untaken", pc[0], pc[1]))
				}
			}
			if a, h := post.admin[pc]; !h || a != challenger {
				sig := "C19:grant-missing"
				if o.Kind == "uchallenger" {
					sig = "C19:handover-missing"
				}
				viol(sig, fmt.Sprintf("after an Ok %s the listed channel %q/%q is not administered by the challenger", o.Kind, pc[0], pc[1]))
			}
		}
	}
	// 3. a well-formed grant on fit channels is not refused
	if !res.OK && (o.Kind == "create" || o.Kind == "umeta") && len(md) <= 5120 && challenger != "" {
		good := true
		if parsed {
			for k, pc := range listed {
				if o.Kind == "create" && (!fit(pc) || c19Has(listed[:k], pc)) {
					good = false
				}
				if o.Kind == "umeta" && !(pre.admin[pc] == challenger) && (!fit(pc) || c19Has(listed[:k], pc)) {
					good = false
				}
			}
		}
		if o.Kind == "create" {
			good = good && g.addrBytes(o.Sender) != "" && g.addrBytes(o.Config.Proposer) != "" && o.Config.Chain != 0 && o.Config.Period > 0
		} else {
			cf, ok := pre.cfg[o.Bridge]
			good = good && ok && (o.Sender == g.sc.Env.K.GetAuthority() || o.Sender == cf[0])
		}
		if good {
			viol("C19:grant-refused", fmt.Sprintf("well-formed %s whose listed channels are all fit was refused: %s", o.Kind, res.Err))
		}
	}
	// 3b. the hand-over has no precondition on the channels: an update-challenger by governance
	// or the current challenger of an existing bridge to a valid address must succeed whatever
	// the listed channels' state is (in use, removed from the channel keeper, foreign admin)
	if !res.OK && o.Kind == "uchallenger" && challenger != "" {
		if cf, ok := pre.cfg[o.Bridge]; ok && (o.Sender == g.sc.Env.K.GetAuthority() || o.Sender == cf[1]) {
			states := []string{}
			for _, pc := range listed {
				st := "missing"
				if sq, ok := pre.seq[pc]; ok {
					st = fmt.Sprintf("seq=%d", sq)
				}
				states = append(states, fmt.Sprintf("%s/%s:%s", pc[0], pc[1], st))
			}
			viol("C19:handover-refused", fmt.Sprintf("update-challenger of bridge %d by an authorised signer was refused (%s); listed channels: %v", o.Bridge, res.Err, states))
		}
	}
	// 4. a refused message changes nothing
	if !res.OK {
		for b, cf := range pre.cfg {
			if post.cfg[b] != cf {
				viol("C19:err-changed-state", fmt.Sprintf("a refused %s changed the config of bridge %d", o.Kind, b))
			}
		}
		if len(post.cfg) != len(pre.cfg) {
			viol("C19:err-changed-state", "a refused "+o.Kind+" created a bridge")
		}
	}
	return res
}

func (g *c19Gen) existing() []uint64 {
	var out []uint64
	nb, _ := g.sc.Env.K.GetNextBridgeId(g.sc.Env.Ctx)
	for b := uint64(1); b < nb; b++ {
		out = append(out, b)
	}
	return out
}

func (g *c19Gen) step() {
	sc, e, r := g.sc, g.sc.Env, g.r
	ex := g.existing()
	pickBridge := func() uint64 {
		if len(ex) == 0 || r.Chance(4) {
			return uint64(len(ex) + 1 + r.Intn(2))
		}
		return ex[r.Intn(len(ex))]
	}
	ws := []int{16, 8, 14, 30, 24, 8, 10, 7}
	if len(ex) >= 4 {
		ws[2] = 0
	}
	if len(ex) == 0 {
		ws[2] = 40
	}
	switch r.Weighted(ws) {
	case 0: // the channel keeper: channel appears fresh / is used / disappears
		pc := c19Universe[r.Weighted([]int{25, 25, 20, 20, 2, 5, 3})]
		o := L1Op{Kind: "chanset", Port: pc[0], Chan: pc[1], Has: !r.Chance(12)}
		if o.Has {
			o.Val = []uint64{1, 1, 1, 1, 2, 7}[r.Intn(6)]
		}
		g.do(sc.op(o), "")
	case 1: // another module grants or clears an admin
		pc := c19Universe[r.Weighted([]int{25, 25, 20, 20, 2, 5, 3})]
		o := L1Op{Kind: "adminset", Port: pc[0], Chan: pc[1], Has: r.Chance(55), Val: uint64(1 + r.Intn(7))}
		g.do(sc.op(o), "")
	case 2: // create
		md, cls := g.genMeta()
		cfg := sc.NewConfig(uint64(1+r.Intn(7)), uint64(1+r.Intn(3)), 100*sec) // few challengers: bridges share them
		cfg.Meta = md
		if r.Chance(3) {
			cfg.Challenger = "nope"
		}
		creator := e.User(uint64(1 + r.Intn(7))).Str
		g.do(sc.Create(creator, cfg), cls)
	case 3: // update metadata
		b := pickBridge()
		md, cls := g.genMeta()
		signer := e.Auth
		if cfg, err := e.K.GetBridgeConfig(e.Ctx, b); err == nil {
			switch r.Weighted([]int{60, 25, 8, 7}) {
			case 0:
				signer = cfg.Proposer
			case 2:
				signer = cfg.Challenger
			case 3:
				signer = e.User(uint64(1 + r.Intn(7))).Str
			}
		}
		sc.reg(signer)
		g.do(sc.op(L1Op{Kind: "umeta", Sender: signer, Bridge: b, Meta: md}), cls)
	case 4: // update challenger
		b := pickBridge()
		signer := e.Auth
		if cfg, err := e.K.GetBridgeConfig(e.Ctx, b); err == nil {
			switch r.Weighted([]int{55, 30, 8, 7}) {
			case 0:
				signer = cfg.Challenger
			case 2:
				signer = cfg.Proposer
			case 3:
				signer = e.User(uint64(1 + r.Intn(7))).Str
			}
		}
		na := e.User(uint64(1 + r.Intn(4))).Str
		if r.Chance(3) {
			na = "nope"
		}
		sc.reg(signer, na)
		g.do(sc.op(L1Op{Kind: "uchallenger", Sender: signer, Bridge: b, NewAddr: na}), "")
	case 7: // hand-over in every channel state: disturb a channel the bridge lists, then update the challenger
		b := pickBridge()
		cfg, err := e.K.GetBridgeConfig(e.Ctx, b)
		if err != nil {
			return
		}
		if l, ok := c19Parse(cfg.Metadata); ok && len(l) > 0 {
			pc := l[r.Intn(len(l))]
			switch r.Intn(4) {
			case 0:
				g.do(sc.op(L1Op{Kind: "chanset", Port: pc[0], Chan: pc[1], Has: true, Val: uint64(2 + r.Intn(9))}), "")
			case 1:
				g.do(sc.op(L1Op{Kind: "chanset", Port: pc[0], Chan: pc[1], Has: false}), "")
			case 2:
				g.do(sc.op(L1Op{Kind: "adminset", Port: pc[0], Chan: pc[1], Has: true, Val: uint64(5 + r.Intn(3))}), "")
			}
		}
		old := cfg.Challenger
		n1, n2 := e.User(uint64(1+r.Intn(4))).Str, e.User(uint64(1+r.Intn(4))).Str
		sc.reg(old, n1, n2)
		g.do(sc.op(L1Op{Kind: "uchallenger", Sender: old, Bridge: b, NewAddr: n1}), "")
		g.do(sc.op(L1Op{Kind: "uchallenger", Sender: e.Auth, Bridge: b, NewAddr: n2}), "")
		g.do(sc.op(L1Op{Kind: "uchallenger", Sender: n2, Bridge: b, NewAddr: old}), "")
	case 6: // re-submit the metadata bytes the bridge already stores: the hook must run again
		b := pickBridge()
		cfg, err := e.K.GetBridgeConfig(e.Ctx, b)
		if err != nil {
			return
		}
		signer := cfg.Proposer
		if r.Chance(30) {
			signer = e.Auth
		}
		sc.reg(signer)
		g.do(sc.op(L1Op{Kind: "umeta", Sender: signer, Bridge: b, Meta: append([]byte{}, cfg.Metadata...)}), "resend-stored")
	case 5: // other messages of the module: they must not touch the table
		b := pickBridge()
		switch r.Intn(4) {
		case 0:
			na := e.User(uint64(1 + r.Intn(7))).Str
			sc.reg(na)
			g.do(sc.op(L1Op{Kind: "uproposer", Sender: e.Auth, Bridge: b, NewAddr: na}), "")
		case 1:
			g.do(sc.op(L1Op{Kind: "uoracle", Sender: e.Auth, Bridge: b, Flag: r.Bool()}), "")
		case 2:
			prop := e.Auth
			if cfg, err := e.K.GetBridgeConfig(e.Ctx, b); err == nil {
				prop = cfg.Proposer
			}
			next, _ := e.K.GetNextOutputIndex(e.Ctx, b)
			g.do(sc.op(L1Op{Kind: "propose", Sender: prop, Bridge: b, Idx: next, L2: next * 10, Root: r.Bytes(32)}), "")
		case 3:
			g.do(sc.op(L1Op{Kind: "ubatch", Sender: e.Auth, Bridge: b, Submitter: e.User(2).Str, Chain: 1}), "")
		}
	}
}

// the capture history of DESIGN.md section 7 on the real hook: an observation, reported in the
// evidence notes, not a violation
func c19Capture(seed uint64, id int, rep *Report) *L1Case {
	g := newC19Scenario(seed, id)
	g.rep = rep
	sc, e := g.sc, g.sc.Env
	ch := c19Universe[0]
	md := []byte(`{"perm_channels":[` + c19Entry(ch) + `]}`)
	C, C2, D, P := e.User(1).Str, e.User(2).Str, e.User(3).Str, e.User(4).Str
	g.do(sc.op(L1Op{Kind: "chanset", Port: ch[0], Chan: ch[1], Has: true, Val: 1}), "")
	c1 := sc.NewConfig(4, 1, 100*sec)
	c1.Proposer, c1.Challenger, c1.Meta = P, C, md
	g.do(sc.Create(e.User(5).Str, c1), "valid")
	c2 := sc.NewConfig(1, 1, 100*sec)
	c2.Meta = []byte("plain")
	g.do(sc.Create(e.User(5).Str, c2), "non-json")
	g.do(sc.op(L1Op{Kind: "umeta", Sender: C, Bridge: 2, Meta: md}), "valid")
	sc.reg(C2, D)
	g.do(sc.op(L1Op{Kind: "uchallenger", Sender: e.Auth, Bridge: 1, NewAddr: C2}), "")
	a1, _ := e.AdminOf(e.Ctx, ch[0], ch[1])
	g.do(sc.op(L1Op{Kind: "uchallenger", Sender: C, Bridge: 2, NewAddr: D}), "")
	a2, _ := e.AdminOf(e.Ctx, ch[0], ch[1])
	allOK := true
	for _, r := range g.c.Results {
		allOK = allOK && r.OK
	}
	rep.Notes = append(rep.Notes, fmt.Sprintf("observation (DESIGN.md section 7, C19_strong_no_capture_refuted) replayed on the real hook: all six messages ok=%v; after governance replaced the challenger of bridge 1 the admin of its channel was account %d (the new challenger, id %d); after the replaced challenger updated bridge 2 the admin is account %d (its new address, id %d)",
		allOK, a1, e.User(2).ID, a2, e.User(3).ID))
	return g.c
}

// two bridges of one challenger share a channel; both are handed over one after the other: the
// second hand-over meets a channel the new challenger already administers and must still move
// the remaining listed channels.  [order] permutes the second bridge's list.
func c19Shared(seed uint64, id int, order int, rep *Report) *L1Case {
	g := newC19Scenario(seed, id)
	g.rep = rep
	sc, e := g.sc, g.sc.Env
	ch0, ch1, ch2 := c19Universe[0], c19Universe[1], c19Universe[2]
	X, Y, P := e.User(1).Str, e.User(2).Str, e.User(4).Str
	list := func(pcs ...[2]string) []byte {
		var it []string
		for _, pc := range pcs {
			it = append(it, c19Entry(pc))
		}
		return []byte(`{"perm_channels":[` + strings.Join(it, ",") + `]}`)
	}
	for _, pc := range [][2]string{ch0, ch1, ch2} {
		g.do(sc.op(L1Op{Kind: "chanset", Port: pc[0], Chan: pc[1], Has: true, Val: 1}), "")
	}
	c1 := sc.NewConfig(4, 1, 100*sec)
	c1.Meta = list(ch0)
	g.do(sc.Create(e.User(5).Str, c1), "valid")
	c2 := sc.NewConfig(4, 1, 100*sec)
	c2.Meta = list(ch2)
	g.do(sc.Create(e.User(5).Str, c2), "valid")
	shared := [][][2]string{{ch0, ch2}, {ch0, ch1, ch2}, {ch2, ch0, ch1}, {ch1, ch0, ch2}}[order%4]
	g.do(sc.op(L1Op{Kind: "umeta", Sender: P, Bridge: 2, Meta: list(shared...)}), "valid")
	sc.reg(X, Y)
	g.do(sc.op(L1Op{Kind: "uchallenger", Sender: e.Auth, Bridge: 1, NewAddr: Y}), "")
	g.do(sc.op(L1Op{Kind: "uchallenger", Sender: X, Bridge: 2, NewAddr: Y}), "")
	// and back again through the other bridge first
	g.do(sc.op(L1Op{Kind: "uchallenger", Sender: Y, Bridge: 2, NewAddr: X}), "")
	g.do(sc.op(L1Op{Kind: "uchallenger", Sender: e.Auth, Bridge: 1, NewAddr: X}), "")
	return g.c
}

// re-submitting a bridge's stored metadata after the listed channel went to somebody else
// (through a second bridge's hand-over, or a grant by another module) must be refused
func c19Resend(seed uint64, id int, foreign bool, rep *Report) *L1Case {
	g := newC19Scenario(seed, id)
	g.rep = rep
	sc, e := g.sc, g.sc.Env
	ch := c19Universe[0]
	md := []byte(`{"perm_channels":[` + c19Entry(ch) + `]}`)
	X, Y, P := e.User(1).Str, e.User(2).Str, e.User(4).Str
	g.do(sc.op(L1Op{Kind: "chanset", Port: ch[0], Chan: ch[1], Has: true, Val: 1}), "")
	c1 := sc.NewConfig(4, 1, 100*sec)
	c1.Meta = md
	g.do(sc.Create(e.User(5).Str, c1), "valid")
	c2 := sc.NewConfig(4, 1, 100*sec)
	c2.Meta = []byte("plain")
	g.do(sc.Create(e.User(5).Str, c2), "non-json")
	sc.reg(X, Y, P)
	if foreign {
		g.do(sc.op(L1Op{Kind: "adminset", Port: ch[0], Chan: ch[1], Has: true, Val: e.User(3).ID}), "")
	} else {
		g.do(sc.op(L1Op{Kind: "umeta", Sender: P, Bridge: 2, Meta: md}), "valid")
		g.do(sc.op(L1Op{Kind: "uchallenger", Sender: X, Bridge: 2, NewAddr: Y}), "")
	}
	g.do(sc.op(L1Op{Kind: "umeta", Sender: P, Bridge: 1, Meta: append([]byte{}, md...)}), "resend-stored")
	g.do(sc.op(L1Op{Kind: "umeta", Sender: e.Auth, Bridge: 1, Meta: append([]byte{}, md...)}), "resend-stored")
	return g.c
}

// hand-over in every channel state: a bridge lists three fresh channels; then one goes into
// use, one disappears from the channel keeper, one gets a foreign admin (variant selects which
// of these happen); the challenger is updated, updated again, and set back
func c19HandoverStates(seed uint64, id int, variant int, rep *Report) *L1Case {
	g := newC19Scenario(seed, id)
	g.rep = rep
	sc, e := g.sc, g.sc.Env
	chs := [][2]string{c19Universe[0], c19Universe[1], c19Universe[2]}
	var it []string
	for _, pc := range chs {
		it = append(it, c19Entry(pc))
		g.do(sc.op(L1Op{Kind: "chanset", Port: pc[0], Chan: pc[1], Has: true, Val: 1}), "")
	}
	c1 := sc.NewConfig(4, 1, 100*sec)
	c1.Meta = []byte(`{"perm_channels":[` + strings.Join(it, ",") + `]}`)
	g.do(sc.Create(e.User(5).Str, c1), "valid")
	if variant&1 != 0 {
		g.do(sc.op(L1Op{Kind: "chanset", Port: chs[0][0], Chan: chs[0][1], Has: true, Val: 2}), "")
	}
	if variant&2 != 0 {
		g.do(sc.op(L1Op{Kind: "chanset", Port: chs[1][0], Chan: chs[1][1], Has: false}), "")
	}
	if variant&4 != 0 {
		g.do(sc.op(L1Op{Kind: "adminset", Port: chs[2][0], Chan: chs[2][1], Has: true, Val: e.User(6).ID}), "")
	}
	X, Y, Z := e.User(1).Str, e.User(2).Str, e.User(3).Str
	sc.reg(X, Y, Z)
	g.do(sc.op(L1Op{Kind: "uchallenger", Sender: X, Bridge: 1, NewAddr: Y}), "")
	g.do(sc.op(L1Op{Kind: "uchallenger", Sender: e.Auth, Bridge: 1, NewAddr: Z}), "")
	g.do(sc.op(L1Op{Kind: "uchallenger", Sender: Z, Bridge: 1, NewAddr: X}), "")
	return g.c
}

func genC19(seed uint64, tier string, outdir string) *Report {
	rep := NewReport("C19", seed, tier)
	rep.Rule = "a case is one history of environment ops and create / update-metadata / update-challenger over up to four bridges on a fresh instance with the real hook; distinct by hash of the op list; non-trivial = at least one grant or handover succeeded and at least one hook-guarded message was refused"
	nCases, nOps := 150, 45
	if tier == "thorough" {
		nCases, nOps = 1500, 60
	}
	var texts []string
	texts = append(texts, c19Capture(seed, 1, rep).Coq())
	rep.Cases++
	for k := 0; k < 4; k++ {
		c := c19Shared(seed+uint64(k), 2+k, k, rep)
		rep.Ops += len(c.Ops)
		rep.CountCase(strings.Join(l1OpsHuman(c.Ops), "\n"), false)
		texts = append(texts, c.Coq())
	}
	for k := 0; k < 2; k++ {
		c := c19Resend(seed+10+uint64(k), 6+k, k == 1, rep)
		rep.Ops += len(c.Ops)
		rep.CountCase(strings.Join(l1OpsHuman(c.Ops), "\n"), true)
		texts = append(texts, c.Coq())
	}
	for k := 0; k < 4; k++ {
		c := c19HandoverStates(seed+20+uint64(k), 8+k, []int{1, 2, 4, 7}[k], rep)
		rep.Ops += len(c.Ops)
		rep.CountCase(strings.Join(l1OpsHuman(c.Ops), "\n"), false)
		texts = append(texts, c.Coq())
	}
	for k := 0; k < nCases; k++ {
		g := newC19Scenario(seed*6151+uint64(k), k+12)
		g.rep = rep
		for n := 0; n < nOps; n++ {
			g.step()
		}
		c := g.c
		rep.Ops += len(c.Ops)
		ok, er := false, false
		for i, o := range c.Ops {
			if o.Kind == "create" || o.Kind == "umeta" || o.Kind == "uchallenger" {
				if c.Results[i].OK {
					ok = true
				} else {
					er = true
				}
			}
		}
		rep.CountCase(strings.Join(l1OpsHuman(c.Ops), "\n"), ok && er)
		if k == 0 {
			rep.Sample(map[string]interface{}{"kind": "C19 history (first 8 ops)", "ops": l1OpsHuman(c.Ops[:8])})
		}
		texts = append(texts, c.Coq())
	}
	// the metadata grammar against the independent decoder, one string per shape and more
	nMeta := 300
	g := newC19Scenario(seed^0xc19, 0)
	g.rep = rep
	shapes := map[string]int{}
	for k := 0; k < nMeta; k++ {
		md, cls := g.genMeta()
		_, ok := c19Parse(md)
		shapes[fmt.Sprintf("grammar:%s:parsed=%v", cls, ok)]++
	}
	for _, k := range sortedKeys(shapes) {
		rep.Histogram[k] = shapes[k]
	}
	writeShards(outdir, "C19", l1CaseHeader, "run_l1case", "l1case", texts, 16, rep)
	return rep
}
