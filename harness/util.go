package main

import (
	"encoding/hex"
	"fmt"
	"math/big"
	"regexp"
	"sort"
	"strings"
)

// ---- splitmix64: the only source of randomness; every choice derives from VERIF_SEED ----
type Rng struct{ s uint64 }

func NewRng(seed uint64) *Rng {
	// scramble the seed so that consecutive seeds do not give shifted copies of one stream
	z := seed + 0x632BE59BD9B4E019
	z = (z ^ (z >> 30)) * 0xBF58476D1CE4E5B9
	z = (z ^ (z >> 27)) * 0x94D049BB133111EB
	z = z ^ (z >> 31)
	z = (z ^ (z >> 33)) * 0xFF51AFD7ED558CCD
	return &Rng{s: z ^ (z >> 29)}
}
func (r *Rng) U64() uint64 {
	r.s += 0x9E3779B97F4A7C15
	z := r.s
	z = (z ^ (z >> 30)) * 0xBF58476D1CE4E5B9
	z = (z ^ (z >> 27)) * 0x94D049BB133111EB
	return z ^ (z >> 31)
}
func (r *Rng) Intn(n int) int {
	if n <= 0 {
		return 0
	}
	return int(r.U64() % uint64(n))
}
func (r *Rng) Bool() bool          { return r.U64()&1 == 1 }
func (r *Rng) Chance(pct int) bool { return r.Intn(100) < pct }
func (r *Rng) Bytes(n int) []byte {
	b := make([]byte, n)
	for i := range b {
		b[i] = byte(r.U64())
	}
	return b
}
func (r *Rng) Fork() *Rng { return NewRng(r.U64()) }

// pick by weights
func (r *Rng) Weighted(ws []int) int {
	t := 0
	for _, w := range ws {
		t += w
	}
	x := r.Intn(t)
	for i, w := range ws {
		if x < w {
			return i
		}
		x -= w
	}
	return len(ws) - 1
}

// ---- Coq literal printing ----
// Ov is an observation value (Model/Obs.v).
type Ov interface{ Coq() string }
type ON struct{ V *big.Int }
type OZ struct{ V *big.Int }
type OB struct{ V []byte }
type OS struct{ V string }
type OL struct{ V []Ov }

func coqN(v *big.Int) string { return v.String() + "%N" }
func coqZ(v *big.Int) string {
	if v.Sign() < 0 {
		return "(" + v.String() + ")%Z"
	}
	return v.String() + "%Z"
}
// byte strings are interned: each distinct string is defined once per case file as
// `Definition sK := Eval vm_compute in hx "...".` and referred to by name.
var internNames = map[string]string{}
var internOrder []string
var internOff bool // human-readable printing for reports and replays

func coqBytes(b []byte) string {
	if len(b) == 0 {
		return "(@nil N)"
	}
	h := hex.EncodeToString(b)
	if internOff {
		return `(hx "` + h + `")`
	}
	if n, ok := internNames[h]; ok {
		return n
	}
	n := fmt.Sprintf("s%d_", len(internOrder))
	internNames[h] = n
	internOrder = append(internOrder, h)
	return n
}

var internRe = regexp.MustCompile(`\bs[0-9]+_`)

// internDefs returns the definitions of all interned names occurring in body.
func internDefs(body string) string {
	used := map[string]bool{}
	for _, m := range internRe.FindAllString(body, -1) {
		used[m] = true
	}
	var sb strings.Builder
	for i, h := range internOrder {
		n := fmt.Sprintf("s%d_", i)
		if used[n] {
			fmt.Fprintf(&sb, "Definition %s := Eval vm_compute in hx \"%s\".\n", n, h)
		}
	}
	return sb.String()
}
func coqStr(s string) string { return coqBytes([]byte(s)) }
func coqBool(b bool) string {
	if b {
		return "true"
	}
	return "false"
}
func coqList(items []string) string {
	if len(items) == 0 {
		return "[]"
	}
	return "[" + strings.Join(items, "; ") + "]"
}
func coqU(v uint64) string { return fmt.Sprintf("%d%%N", v) }
func coqI(v int64) string  { return coqZ(big.NewInt(v)) }

func (o ON) Coq() string { return "ON " + coqN(o.V) }
func (o OZ) Coq() string { return "OZ " + coqZ(o.V) }
func (o OB) Coq() string { return "OB " + coqBytes(o.V) }
func (o OS) Coq() string { return `OS "` + o.V + `"` }
func (o OL) Coq() string {
	items := make([]string, len(o.V))
	for i, x := range o.V {
		items[i] = x.Coq()
	}
	return "OL " + coqList(items)
}
func onU(v uint64) Ov { return ON{new(big.Int).SetUint64(v)} }
func ozI(v int64) Ov  { return OZ{big.NewInt(v)} }
func ozB(v *big.Int) Ov {
	return OZ{new(big.Int).Set(v)}
}
func obool(b bool) Ov {
	if b {
		return OS{"T"}
	}
	return OS{"F"}
}
func ol(xs ...Ov) Ov { return OL{xs} }

func sortedKeys[V any](m map[string]V) []string {
	ks := make([]string, 0, len(m))
	for k := range m {
		ks = append(ks, k)
	}
	sort.Strings(ks)
	return ks
}
