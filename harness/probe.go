package main

import (
	"bytes"
	"fmt"
	"math/big"
	"time"

	"cosmossdk.io/math"
	codectypes "github.com/cosmos/cosmos-sdk/codec/types"
	sdk "github.com/cosmos/cosmos-sdk/types"

	opchild "github.com/initia-labs/OPinit/x/opchild"
	opchildtypes "github.com/initia-labs/OPinit/x/opchild/types"
	ophosttypes "github.com/initia-labs/OPinit/x/ophost/types"
)

func stdConfig(e *L1Env, proposer, challenger uint64, period time.Duration) ophosttypes.BridgeConfig {
	return ophosttypes.BridgeConfig{
		Challenger: e.User(challenger).Str, Proposer: e.User(proposer).Str,
		BatchInfo:             ophosttypes.BatchInfo{Submitter: e.User(proposer).Str, ChainType: ophosttypes.BatchInfo_CHAIN_TYPE_INITIA},
		SubmissionInterval:    time.Second * 10,
		FinalizationPeriod:    period,
		SubmissionStartHeight: 1,
		Metadata:              []byte("m"),
	}
}

// probe prints, for each defect found at design time, whether it reproduces on the tree the
// harness was built against.
func probe() {
	// D1: GenerateNodeHash clobbers a shared proof buffer
	{
		buf := make([]byte, 96)
		for i := range buf {
			buf[i] = byte(i*7 + 1)
		}
		leaf := [32]byte{}
		copy(leaf[:], buf[64:96])
		separate := [][]byte{append([]byte{}, buf[0:32]...), append([]byte{}, buf[32:64]...)}
		shared := [][]byte{buf[0:32], buf[32:64]} // cap of first extends over second
		r1 := ophosttypes.GenerateRootHashFromProofs(leaf, separate)
		before := append([]byte{}, buf...)
		r2 := ophosttypes.GenerateRootHashFromProofs(leaf, shared)
		fmt.Printf("D1 layout-dependence: roots differ=%v caller buffer modified=%v\n", r1 != r2, !bytes.Equal(before, buf))
	}
	// D2: negative finalization period
	{
		e := NewL1Env(1, 4, nil)
		cfg := stdConfig(e, 1, 2, -time.Hour)
		r := execAtomic(e.Ctx, func(ctx sdk.Context) (interface{}, error) {
			return e.Msg.CreateBridge(ctx, &ophosttypes.MsgCreateBridge{Creator: e.User(3).Str, Config: cfg})
		})
		fmt.Printf("D2 negative period accepted=%v\n", r.OK)
	}
	// D3: deposit to a non-existent bridge
	{
		e := NewL1Env(1, 4, nil)
		e.Fund(e.User(3).Addr, sdk.NewCoins(sdk.NewInt64Coin("uinit", 100)))
		r := execAtomic(e.Ctx, func(ctx sdk.Context) (interface{}, error) {
			return e.Msg.InitiateTokenDeposit(ctx, &ophosttypes.MsgInitiateTokenDeposit{Sender: e.User(3).Str, BridgeId: 7, To: "x", Amount: sdk.NewInt64Coin("uinit", 10)})
		})
		fmt.Printf("D3 deposit to missing bridge accepted=%v\n", r.OK)
	}
	// D4: amounts >= 2^64
	{
		e := NewL1Env(1, 4, nil)
		big64 := math.NewIntFromBigInt(new(big.Int).Lsh(big.NewInt(1), 64))
		e.Fund(e.User(3).Addr, sdk.NewCoins(sdk.NewCoin("uinit", big64)))
		execAtomic(e.Ctx, func(ctx sdk.Context) (interface{}, error) {
			return e.Msg.CreateBridge(ctx, &ophosttypes.MsgCreateBridge{Creator: e.User(3).Str, Config: stdConfig(e, 1, 2, time.Second)})
		})
		r := execAtomic(e.Ctx, func(ctx sdk.Context) (interface{}, error) {
			return e.Msg.InitiateTokenDeposit(ctx, &ophosttypes.MsgInitiateTokenDeposit{Sender: e.User(3).Str, BridgeId: 1, To: "x", Amount: sdk.NewCoin("uinit", big64)})
		})
		l2 := NewL2Scenario(1, 0, false)
		d := l2.L2Denoms[0]
		l2.Env.L2Exec(l2.Deposit(l2.Env.User(1).Str, 1, l2.Env.User(4).Str, 0, big64.BigInt(), Hook{Kind: "none"}))
		r2 := l2.Env.L2Exec(L2Op{Kind: "withdraw", Sender: l2.Env.User(4).Str, To: "l1addr", Denom: d, Amt: big64.BigInt()})
		fmt.Printf("D4 L1 deposit of 2^64 accepted=%v, L2 withdrawal of 2^64 accepted=%v\n", r.OK, r2.OK)
	}
	// D5 / D6: validators
	{
		sc := NewL2Scenario(1, 0, false)
		e := sc.Env
		add := func(op, key uint64) bool {
			return e.L2Exec(L2Op{Kind: "addval", Sender: e.Auth, OpID: op, KeyID: key}).OK
		}
		rm := func(op uint64) bool { return e.L2Exec(L2Op{Kind: "rmval", Sender: e.Auth, OpID: op}).OK }
		end := func() { _, err := opchild.EndBlocker(e.Ctx, e.K); _ = err }
		add(1, 1)
		end()
		a := add(2, 2)
		b := rm(2)
		end()
		_, stillThere := e.K.GetValidator(e.Ctx, e.ValOps[1])
		c := add(2, 2)
		fmt.Printf("D5 add=%v remove=%v; zero-power record survives end block=%v; re-add accepted=%v\n", a, b, stillThere, c)
	}
	{
		sc := NewL2Scenario(1, 0, false)
		e := sc.Env
		var vals []opchildtypes.Validator
		for i := 0; i < 4; i++ {
			v, _ := opchildtypes.NewValidator(e.ValOps[i], e.ValKeys[i], "m")
			vals = append(vals, v)
		}
		gs := opchildtypes.DefaultGenesisState()
		gs.Params = sc.Case.Params.Real() // MaxValidators = 3
		gs.Validators = vals
		for i := range gs.Validators {
			_ = gs.Validators[i].UnpackInterfaces(codectypes.AnyUnpacker(e.Enc.InterfaceRegistry))
		}
		err := opchildtypes.ValidateGenesis(gs, e.AK.AddressCodec())
		fmt.Printf("D6 genesis with 4 validators and MaxValidators=3 passes ValidateGenesis=%v\n", err == nil)
	}
}
