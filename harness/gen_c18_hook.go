package main

import (
	"context"
	"fmt"
	"strings"

	sdk "github.com/cosmos/cosmos-sdk/types"
	authcodec "github.com/cosmos/cosmos-sdk/x/auth/codec"

	"github.com/initia-labs/OPinit/x/ophost/types/hook"
)

// C18, L1 hook family: bridge creation, challenger updates and metadata updates through the REAL
// hook.BridgeHook (wired as in the C19 stream: store-backed stand-ins of the IBC channel and
// perm keepers), with 2..6 distinct perm channels in mixed states (missing, in use, foreign admin,
// fresh).  Each history is executed R times on fresh instances (own goroutine, own local
// environment) and once more with discarded pre-executions; compared byte for byte: verdict,
// error text, events in order (the perm keeper stand-in emits one event per SetAdmin), gas, and
// the raw store dumps (which contain the admin table).

// the perm keeper of C19 plus an event per SetAdmin, as the real ibc-perm keeper emits one
type c18PermKeeper struct{ c19PermKeeper }

func (k c18PermKeeper) SetAdmin(ctx context.Context, portID, channelID string, admin sdk.AccAddress) error {
	sdk.UnwrapSDKContext(ctx).EventManager().EmitEvent(sdk.NewEvent("set_channel_admin",
		sdk.NewAttribute("port", portID), sdk.NewAttribute("channel", channelID), sdk.NewAttribute("admin", admin.String())))
	return k.c19PermKeeper.SetAdmin(ctx, portID, channelID, admin)
}

var c18Channels = [][2]string{{"transfer", "channel-0"}, {"transfer", "channel-1"}, {"transfer", "channel-2"}, {"transfer", "channel-3"},
	{"transfer", "channel-4"}, {"transfer", "channel-5"}, {"nft-transfer", "channel-0"}, {"nft-transfer", "channel-7"}}

func newC18HookScenario(seed uint64, id int) *L1Scenario {
	f := &c19Fakes{}
	ac := authcodec.NewBech32Codec(sdk.GetConfig().GetBech32AccountAddrPrefix())
	h := hook.NewBridgeHook(c19ChanKeeper{f}, c18PermKeeper{c19PermKeeper{f}}, ac)
	e := NewL1Env(seed, 7, h, "c19chan", "c19perm")
	f.chanKey, f.permKey = e.Keys["c19chan"], e.Keys["c19perm"]
	e.EnvOp = func(ctx sdk.Context, o L1Op) error {
		switch o.Kind {
		case "chanset":
			st := ctx.KVStore(f.chanKey)
			if o.Has {
				st.Set(c19Key(o.Port, o.Chan), be8(o.Val))
			} else {
				st.Delete(c19Key(o.Port, o.Chan))
			}
		case "adminset":
			st := ctx.KVStore(f.permKey)
			if o.Has {
				st.Set(c19Key(o.Port, o.Chan), e.AddrOf(o.Val))
			} else {
				st.Delete(c19Key(o.Port, o.Chan))
			}
		}
		return nil
	}
	sc := &L1Scenario{Env: e, R: NewRng(seed), Now: t0, Height: 100, Denoms: []string{"uinit"},
		NextWSeq: map[uint64]uint64{}, ClaimSet: map[string]bool{}, wts: DefaultL1Weights}
	for _, u := range e.Users {
		e.Fund(u.Addr, sdk.NewCoins(sdk.NewInt64Coin("uinit", 1000)))
	}
	sc.Case = &L1Case{ID: id, Env: e, Track: &L1Track{Accts: []uint64{1, 2, 3}, Denoms: sc.Denoms, Bridges: []uint64{1, 2, 3, 4}}, Parse: map[string]string{}}
	return sc
}

func c18HookHuman(o L1Op) string {
	switch o.Kind {
	case "chanset":
		if !o.Has {
			return fmt.Sprintf("channel keeper: %s/%s disappears", o.Port, o.Chan)
		}
		return fmt.Sprintf("channel keeper: %s/%s next send sequence = %d", o.Port, o.Chan, o.Val)
	case "adminset":
		if !o.Has {
			return fmt.Sprintf("perm keeper: admin of %s/%s cleared", o.Port, o.Chan)
		}
		return fmt.Sprintf("perm keeper: admin of %s/%s := user%d", o.Port, o.Chan, o.Val)
	case "create":
		return fmt.Sprintf("MsgCreateBridge creator=%s challenger=%s metadata=%s", o.Sender, o.Config.Challenger, string(o.Config.Meta))
	case "umeta":
		return fmt.Sprintf("MsgUpdateMetadata bridge=%d signer=%s metadata=%s", o.Bridge, o.Sender, string(o.Meta))
	case "uchallenger":
		return fmt.Sprintf("MsgUpdateChallenger bridge=%d signer=%s new=%s", o.Bridge, o.Sender, o.NewAddr)
	}
	return o.Kind
}

func c18GenHookHistory(sc *L1Scenario, n int) []L1Op {
	e, r := sc.Env, sc.R
	var ops []L1Op
	do := func(o L1Op) ExecResult {
		o = sc.op(o)
		res := e.L1Exec(o)
		ops = append(ops, o)
		if r.Chance(30) {
			sc.Advance(int64(1+r.Intn(5)) * sec)
		}
		return res
	}
	// mixed channel states
	setState := func(pc [2]string) {
		switch r.Weighted([]int{70, 10, 10, 10}) {
		case 0: // fresh
			do(L1Op{Kind: "chanset", Port: pc[0], Chan: pc[1], Has: true, Val: 1})
			do(L1Op{Kind: "adminset", Port: pc[0], Chan: pc[1], Has: false})
		case 1: // in use
			do(L1Op{Kind: "chanset", Port: pc[0], Chan: pc[1], Has: true, Val: uint64(2 + r.Intn(9))})
		case 2: // fresh but a foreign admin holds it
			do(L1Op{Kind: "chanset", Port: pc[0], Chan: pc[1], Has: true, Val: 1})
			do(L1Op{Kind: "adminset", Port: pc[0], Chan: pc[1], Has: true, Val: uint64(4 + r.Intn(4))})
		case 3: // missing
			do(L1Op{Kind: "chanset", Port: pc[0], Chan: pc[1], Has: false})
		}
	}
	for _, pc := range c18Channels {
		setState(pc)
	}
	meta := func() []byte {
		perm := r.Intn(len(c18Channels))
		k := 2 + r.Intn(5)
		var items []string
		for i := 0; i < k; i++ {
			items = append(items, c19Entry(c18Channels[(perm+i*3)%len(c18Channels)])) // 3 and 8 are coprime: distinct
		}
		if r.Chance(35) { // a repeated entry somewhere
			pos := r.Intn(len(items) + 1)
			d := items[r.Intn(len(items))]
			items = append(items[:pos], append([]string{d}, items[pos:]...)...)
		}
		return []byte(`{"perm_channels":[` + strings.Join(items, ",") + `]}`)
	}
	nBridges := uint64(0)
	for i := 0; i < n; i++ {
		switch r.Weighted([]int{22, 30, 24, 24}) {
		case 0:
			if nBridges >= 4 {
				continue
			}
			cfg := sc.NewConfig(uint64(1+r.Intn(7)), uint64(1+r.Intn(3)), 100*sec)
			cfg.Meta = meta()
			if do(sc.Create(e.User(uint64(1+r.Intn(7))).Str, cfg)).OK {
				nBridges++
			}
		case 1:
			if nBridges == 0 {
				continue
			}
			b := 1 + uint64(r.Intn(int(nBridges)))
			signer := e.Auth
			if cfg, err := e.K.GetBridgeConfig(e.Ctx, b); err == nil && r.Chance(70) {
				signer = cfg.Proposer
			}
			sc.reg(signer)
			do(L1Op{Kind: "umeta", Sender: signer, Bridge: b, Meta: meta()})
		case 2:
			if nBridges == 0 {
				continue
			}
			b := 1 + uint64(r.Intn(int(nBridges)))
			signer := e.Auth
			if cfg, err := e.K.GetBridgeConfig(e.Ctx, b); err == nil && r.Chance(60) {
				signer = cfg.Challenger
			}
			na := e.User(uint64(1 + r.Intn(4))).Str
			sc.reg(signer, na)
			do(L1Op{Kind: "uchallenger", Sender: signer, Bridge: b, NewAddr: na})
		case 3:
			setState(c18Channels[r.Intn(len(c18Channels))])
		}
	}
	return ops
}

func genC18Hook(rep *Report, seed uint64, tier string, R int, id *int) {
	nHist, n := 6, 30
	if tier == "thorough" {
		nHist, n = 60, 50
	}
	if R < 4 {
		R = 4
	}
	for k := 0; k < nHist; k++ {
		*id++
		s := seed*100000 + 6000 + uint64(k)
		ops := c18GenHookHistory(newC18HookScenario(s, *id), n)
		var human []string
		for _, o := range ops {
			human = append(human, c18HookHuman(o))
		}
		runs := make([][]c18Print, R)
		for x := 0; x < R; x++ {
			x := x
			inLocalEnv(x, func() {
				sc := newC18HookScenario(s, *id)
				for _, o := range ops {
					freshGasL1(sc.Env)
					res := sc.Env.L1Exec(o)
					runs[x] = append(runs[x], printOf(res, sc.Env.Ctx, sc.Env.Keys))
				}
			})
		}
		if c18Compare(rep, *id, "L1 bridge-hook", runs, human) {
			plan := c18SpecPlan(NewRng(s^0x5bec), len(ops), func(i int) bool { return ops[i].Kind == "create" }, nil)
			var spec []c18Print
			inLocalEnv(R, func() {
				sc := newC18HookScenario(s, *id)
				for i, o := range ops {
					for x := 0; x < plan[i]; x++ {
						speculateL1(sc.Env, func() { sc.Env.L1Exec(o) })
					}
					freshGasL1(sc.Env)
					res := sc.Env.L1Exec(o)
					spec = append(spec, printOf(res, sc.Env.Ctx, sc.Env.Keys))
				}
			})
			c18CompareSpec(rep, *id, "L1 bridge-hook", runs[0], spec, human, plan)
		}
		ok, bad := false, false
		for i, o := range ops {
			if o.Kind == "chanset" || o.Kind == "adminset" {
				continue
			}
			v := "ERR"
			if runs[0][i].OK {
				v, ok = "OK", true
				if strings.Count(runs[0][i].Events, "set_channel_admin") >= 2 {
					rep.Hist("hook:" + o.Kind + ":OK:>=2-admins-set")
				}
			} else {
				bad = true
				switch {
				case strings.Contains(runs[0][i].Err, "channel not found"):
					v = "ERR:channel-not-found"
				case strings.Contains(runs[0][i].Err, "channel in use"):
					v = "ERR:channel-in-use"
				}
			}
			rep.Hist("hook:" + o.Kind + ":" + v)
		}
		rep.Ops += len(ops) * (R + 1)
		rep.CountCase(strings.Join(human, "\n"), ok && bad)
		if k == 0 {
			rep.Sample(map[string]interface{}{"kind": "L1 bridge-hook history (first ops)", "ops": human[:min(14, len(human))]})
		}
	}
	rep.Notes = append(rep.Notes, fmt.Sprintf("L1 bridge-hook family: %d histories x ~%d ops through the real hook.BridgeHook with metadata of 2-6 distinct perm channels (35%% with a repeated entry) in mixed states; %d executions each + speculative variant", nHist, n+12, R))
}
