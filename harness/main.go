package main

import (
	"flag"
	"fmt"
	"os"
)

// streams: every gen_*.go file registers its correspondence stream(s) in an init() function
var streams = map[string]func(seed uint64, tier string, outdir string) *Report{}

func register(name string, f func(seed uint64, tier string, outdir string) *Report) {
	if _, dup := streams[name]; dup {
		panic("duplicate stream " + name)
	}
	streams[name] = f
}

// harness <stream> -seed S -tier quick|thorough -out DIR
func main() {
	if len(os.Args) < 2 {
		fmt.Println("usage: harness <property> [-seed S] [-tier T] [-out DIR]")
		os.Exit(2)
	}
	prop := os.Args[1]
	if prop == "probe" {
		probe()
		return
	}
	fs := flag.NewFlagSet("harness", flag.ExitOnError)
	seed := fs.Uint64("seed", 1, "seed")
	tier := fs.String("tier", "quick", "quick|thorough")
	out := fs.String("out", ".", "output directory")
	replay := fs.String("replay", "", "replay file")
	_ = fs.Parse(os.Args[2:])
	_ = replay
	if err := os.MkdirAll(*out, 0o755); err != nil {
		panic(err)
	}
	gen, ok := streams[prop]
	if !ok {
		fmt.Println("unknown stream", prop)
		os.Exit(2)
	}
	rep := gen(*seed, *tier, *out)
	rep.Write(*out)
	fmt.Printf("harness %s: cases=%d ops=%d distinct_nontrivial=%d violations=%d shards=%d\n", prop, rep.Cases, rep.Ops, rep.Distinct, len(rep.Violations), len(rep.Shards))
}
