package main

import (
	"flag"
	"fmt"
	"os"
)

// harness <property> -seed S -tier quick|thorough -out DIR
func main() {
	if len(os.Args) < 2 {
		fmt.Println("usage: harness <property> [-seed S] [-tier T] [-out DIR]")
		os.Exit(2)
	}
	prop := os.Args[1]
	if prop == "probe" {
		probe()
		return
	}
	fs := flag.NewFlagSet("harness", flag.ExitOnError)
	seed := fs.Uint64("seed", 1, "seed")
	tier := fs.String("tier", "quick", "quick|thorough")
	out := fs.String("out", ".", "output directory")
	replay := fs.String("replay", "", "replay file")
	_ = fs.Parse(os.Args[2:])
	_ = replay
	if err := os.MkdirAll(*out, 0o755); err != nil {
		panic(err)
	}
	var rep *Report
	switch prop {
	case "C06":
		rep = genC06(*seed, *tier, *out)
	case "C11":
		rep = genC11(*seed, *tier, *out)
	default:
		fmt.Println("unknown property", prop)
		os.Exit(2)
	}
	rep.Write(*out)
	fmt.Printf("harness %s: cases=%d ops=%d distinct_nontrivial=%d violations=%d shards=%d\n", prop, rep.Cases, rep.Ops, rep.Distinct, len(rep.Violations), len(rep.Shards))
}
