package main

import (
	"fmt"
	"math/big"
	"strings"

	"cosmossdk.io/math"
	sdk "github.com/cosmos/cosmos-sdk/types"

	opchildante "github.com/initia-labs/OPinit/x/opchild/ante"
)

// C20: L2 mempool admission - fee floor, lane matching, redundant-relay filtering.
// Stream parts: (fee) the real MempoolFeeChecker on real sdk.Tx objects against an arithmetic
// oracle (math/big) and Model/Fee.v; (lanes) the real system/free lane match handlers against
// table oracles and Model/Lanes.v; (red) the real RedundantBridgeDecorator in four modes.

func init() { register("C20", genC20) }

var c20Denoms = []string{"uaa", "ubb", "ucc"} // ids 1,2,3 in string order

type amtVec []*big.Int // index = denom id - 1; nil = denom absent

func (v amtVec) Coq() string {
	var items []string
	for i, a := range v {
		if a != nil {
			items = append(items, fmt.Sprintf("(%s, %s)", coqU(uint64(i+1)), coqN(a)))
		}
	}
	return coqList(items)
}
func (v amtVec) Ov() Ov {
	var items []Ov
	for i, a := range v {
		if a != nil {
			items = append(items, ol(onU(uint64(i+1)), ON{new(big.Int).Set(a)}))
		}
	}
	return OL{items}
}
func (v amtVec) get(i int) *big.Int {
	if v[i] == nil {
		return new(big.Int)
	}
	return v[i]
}
func (v amtVec) DecCoins() sdk.DecCoins {
	out := sdk.DecCoins{}
	for i, a := range v {
		if a != nil {
			out = append(out, sdk.DecCoin{Denom: c20Denoms[i], Amount: math.LegacyNewDecFromBigIntWithPrec(new(big.Int).Set(a), 18)})
		}
	}
	return out
}
func (v amtVec) Coins() sdk.Coins {
	out := sdk.Coins{}
	for i, a := range v {
		if a != nil {
			out = append(out, sdk.Coin{Denom: c20Denoms[i], Amount: math.NewIntFromBigInt(new(big.Int).Set(a))})
		}
	}
	return out
}

func decCoinsToVec(dc sdk.DecCoins) (Ov, bool) {
	var items []Ov
	ok := true
	for _, c := range dc {
		id := 0
		for i, d := range c20Denoms {
			if d == c.Denom {
				id = i + 1
			}
		}
		if id == 0 {
			ok = false
		}
		items = append(items, ol(onU(uint64(id)), ON{new(big.Int).Set(c.Amount.BigInt())}))
	}
	return OL{items}, ok
}

var c20Prec = new(big.Int).Exp(big.NewInt(10), big.NewInt(18), nil)

func bigPow10(n int64) *big.Int { return new(big.Int).Exp(big.NewInt(10), big.NewInt(n), nil) }

// price values in units of 10^-18
func c20PriceValues() []*big.Int {
	p := c20Prec
	return []*big.Int{
		big.NewInt(1), big.NewInt(2), big.NewInt(333333333333333333),
		new(big.Int).Sub(p, big.NewInt(1)), new(big.Int).Set(p), new(big.Int).Add(p, big.NewInt(1)),
		big.NewInt(150000000000000000), big.NewInt(2500000000000000000), big.NewInt(500000000000000),
		new(big.Int).Mul(p, bigPow10(12)), bigPow10(48), big.NewInt(7),
	}
}

var c20Gases = []uint64{0, 1, 3, 1000000, 1 << 63, ^uint64(0)}

type feeQuery struct {
	Mode int // 0 deliver, 1 check, 2 recheck
	Gas  uint64
	Fee  amtVec
}

func (q feeQuery) Coq() string {
	return fmt.Sprintf("(%s, %s, %s)", coqU(uint64(q.Mode)), coqU(q.Gas), q.Fee.Coq())
}

// arithmetic oracle: the property restated with big integers, no rounding function:
// admitted in check mode iff all floors are zero or for some denom d with a fee coin f:
// max(node_d, chain_d) * gas > 0 and f * 10^18 >= max(node_d, chain_d) * gas.
func c20FeeOracle(mode int, gas uint64, node, chain, fee amtVec) bool {
	if mode == 0 {
		return true
	}
	allZero := true
	for i := range c20Denoms {
		m := node.get(i)
		if chain.get(i).Cmp(m) > 0 {
			m = chain.get(i)
		}
		if m.Sign() != 0 {
			allZero = false
		}
	}
	if allZero {
		return true
	}
	g := new(big.Int).SetUint64(gas)
	for i := range c20Denoms {
		if fee[i] == nil {
			continue
		}
		m := node.get(i)
		if chain.get(i).Cmp(m) > 0 {
			m = chain.get(i)
		}
		prod := new(big.Int).Mul(m, g)
		if prod.Sign() > 0 && new(big.Int).Mul(fee[i], c20Prec).Cmp(prod) >= 0 {
			return true
		}
	}
	return false
}

func c20Required(gas uint64, node, chain amtVec, i int) *big.Int {
	m := node.get(i)
	if chain.get(i).Cmp(m) > 0 {
		m = chain.get(i)
	}
	prod := new(big.Int).Mul(m, new(big.Int).SetUint64(gas))
	prod.Add(prod, new(big.Int).Sub(c20Prec, big.NewInt(1)))
	return prod.Quo(prod, c20Prec)
}

func c20RandVec(r *Rng, vals []*big.Int, pAbsent, pZero int) amtVec {
	v := make(amtVec, len(c20Denoms))
	for i := range v {
		x := r.Intn(100)
		switch {
		case x < pAbsent:
		case x < pAbsent+pZero:
			v[i] = new(big.Int)
		default:
			v[i] = new(big.Int).Set(vals[r.Intn(len(vals))])
		}
	}
	return v
}

func c20FeeSets(r *Rng, gas uint64, node, chain amtVec) []amtVec {
	n := len(c20Denoms)
	req := make([]*big.Int, n)
	for i := range req {
		req[i] = c20Required(gas, node, chain, i)
	}
	around := func(i int, delta int64) *big.Int {
		x := new(big.Int).Add(req[i], big.NewInt(delta))
		if x.Sign() < 0 {
			x.SetInt64(0)
		}
		return x
	}
	var sets []amtVec
	sets = append(sets, make(amtVec, n)) // empty fee
	for i := 0; i < n; i++ {
		for _, dl := range []int64{-1, 0, 1} {
			// the denom alone
			s := make(amtVec, n)
			s[i] = around(i, dl)
			sets = append(sets, s)
			// with every other denom just below its own requirement
			s2 := make(amtVec, n)
			for j := 0; j < n; j++ {
				if j == i {
					s2[j] = around(j, dl)
				} else if r.Chance(70) {
					s2[j] = around(j, -1)
				}
			}
			sets = append(sets, s2)
		}
	}
	// all denoms below / exactly at / one of them random
	for _, dl := range []int64{-1, 0} {
		s := make(amtVec, n)
		for j := 0; j < n; j++ {
			s[j] = around(j, dl)
		}
		sets = append(sets, s)
	}
	for k := 0; k < 2; k++ {
		s := make(amtVec, n)
		for j := 0; j < n; j++ {
			switch r.Intn(4) {
			case 0:
			case 1:
				s[j] = big.NewInt(int64(r.Intn(5)))
			case 2:
				s[j] = new(big.Int).Rsh(new(big.Int).Add(req[j], big.NewInt(1)), uint(r.Intn(3)))
			case 3:
				s[j] = new(big.Int).Add(new(big.Int).Lsh(req[j], uint(r.Intn(2))), big.NewInt(int64(r.Intn(3))))
			}
		}
		sets = append(sets, s)
	}
	return sets
}

const feeCaseHeader = `Require Import Model.Bytes Model.Obs Model.Fee Model.TraceFee.
From Coq Require Import List NArith ZArith String.
Import ListNotations.
Local Open Scope string_scope.
`

func genC20(seed uint64, tier string, outdir string) *Report {
	rep := NewReport("C20", seed, tier)
	rep.Rule = "fee part: a case is one (node vector, chain vector) configuration with its list of (mode, gas, fee) queries; " +
		"distinct by hash of the canonical text; non-trivial = at least one query admitted and one rejected in check mode; " +
		"lane parts: a case is one transaction (message list / whitelist+payer+granter), every distinct one counts; " +
		"redundancy part: a case is one message list run in 6 mode combinations, non-trivial = passes in one mode and is rejected in another"
	genC20Fee(rep, seed, tier, outdir)
	genC20Lanes(rep, seed, tier, outdir)
	return rep
}

func genC20Fee(rep *Report, seed uint64, tier string, outdir string) {
	nCases := 40
	if tier == "thorough" {
		nCases = 800
	}
	sc := NewL2Scenario(seed, 0, false)
	e := sc.Env
	checker := opchildante.NewMempoolFeeChecker(e.K)
	vals := c20PriceValues()
	r := NewRng(seed*7919 + 20)
	var texts []string
	for k := 0; k < nCases; k++ {
		id := 1 + k
		var node, chain amtVec
		switch {
		case k == 0: // no floor at all
			node, chain = make(amtVec, 3), make(amtVec, 3)
		case k == 1: // explicit zero prices only
			node, chain = amtVec{new(big.Int), nil, nil}, amtVec{nil, new(big.Int), nil}
		case k == 2: // the module's default: chain 0.15, node nothing
			node, chain = make(amtVec, 3), amtVec{big.NewInt(150000000000000000), nil, nil}
		// raw vectors with explicit zero-priced entries (not the sanitised NewDecCoins form): a zero
		// entry is no floor.  The combined vector stays non-empty and all-zero only when the node's
		// vector is all-zero and no chain entry is added (every DecCoins.Add drops zero entries).
		case k == 3:
			node, chain = amtVec{new(big.Int), nil, nil}, make(amtVec, 3)
		case k == 4:
			node, chain = amtVec{new(big.Int), new(big.Int), new(big.Int)}, make(amtVec, 3)
		case k == 5: // zero in the node, positive in the chain for the same denom
			node, chain = amtVec{new(big.Int), nil, new(big.Int)}, amtVec{big.NewInt(2500000000000000000), nil, nil}
		case k == 6: // positive in the node, zero in the chain for the same denom; a zero-only denom besides
			node, chain = amtVec{big.NewInt(150000000000000000), new(big.Int), nil}, amtVec{new(big.Int), nil, new(big.Int)}
		case k == 7: // zero entries mixed with positive ones on one side only
			node, chain = amtVec{new(big.Int), big.NewInt(1), new(big.Int)}, make(amtVec, 3)
		case k%8 == 5: // random all-zero node vectors, chain empty or all-zero
			node = c20RandVec(r, vals, 30, 70)
			for i := range node {
				if node[i] != nil {
					node[i] = new(big.Int)
				}
			}
			if node[0] == nil && node[1] == nil && node[2] == nil {
				node[r.Intn(3)] = new(big.Int)
			}
			chain = make(amtVec, 3)
			if r.Bool() {
				chain[r.Intn(3)] = new(big.Int)
			}
		case k%4 == 3: // same denoms on both sides, different prices (min-for-max shows here)
			node, chain = c20RandVec(r, vals, 10, 5), c20RandVec(r, vals, 10, 5)
		default:
			node, chain = c20RandVec(r, vals, 40, 10), c20RandVec(r, vals, 40, 10)
		}
		ctx0, _ := e.Ctx.CacheContext()
		ps, err := e.K.GetParams(ctx0)
		if err != nil {
			panic(err)
		}
		ps.MinGasPrices = chain.DecCoins()
		if err := e.K.Params.Set(ctx0, ps); err != nil {
			panic(err)
		}
		ctx0 = ctx0.WithMinGasPrices(node.DecCoins())
		// observable 0: the combined vector
		comb, known := decCoinsToVec(opchildante.CombinedMinGasPrices(node.DecCoins(), chain.DecCoins()))
		obs := []Ov{comb}
		desc := fmt.Sprintf("node=%s chain=%s", node.Coq(), chain.Coq())
		if !known {
			rep.Violate(Violation{Case: id, Step: 0, What: "combined vector contains an unknown denom", Sig: "C20:combined-not-max", Ops: []string{desc}})
		}
		// monitor: combined = pointwise max, zero entries only where the node had an explicit zero
		{
			cv := comb.(OL).V
			got := map[uint64]*big.Int{}
			for _, it := range cv {
				got[it.(OL).V[0].(ON).V.Uint64()] = it.(OL).V[1].(ON).V
			}
			for i := range c20Denoms {
				m := node.get(i)
				if chain.get(i).Cmp(m) > 0 {
					m = chain.get(i)
				}
				g, ok := got[uint64(i+1)]
				if !ok {
					g = new(big.Int)
				}
				if g.Cmp(m) != 0 {
					rep.Violate(Violation{Case: id, Step: 0, What: fmt.Sprintf("combined price of denom %d is %s, the larger of node and chain is %s", i+1, g, m),
						Sig: "C20:combined-not-max", Ops: []string{desc}})
				}
			}
		}
		var queries []feeQuery
		gases := append([]uint64{}, c20Gases...)
		gases = append(gases, uint64(1+r.Intn(1000000)), r.U64())
		for _, g := range gases {
			for si, fee := range c20FeeSets(r, g, node, chain) {
				mode := 1
				if si%9 == 4 {
					mode = 0
				} else if si%9 == 7 {
					mode = 2
				}
				queries = append(queries, feeQuery{mode, g, fee})
			}
		}
		adm, rej := false, false
		for qi, q := range queries {
			b := e.Enc.TxConfig.NewTxBuilder()
			b.SetGasLimit(q.Gas)
			b.SetFeeAmount(q.Fee.Coins())
			tx := b.GetTx()
			var ctx sdk.Context
			switch q.Mode {
			case 0:
				ctx = ctx0.WithIsCheckTx(false)
			case 1:
				ctx = ctx0.WithIsCheckTx(true)
			default:
				ctx = ctx0.WithIsReCheckTx(true)
			}
			res := execAtomic(ctx, func(c sdk.Context) (interface{}, error) {
				coins, prio, err := checker.CheckTxFeeWithMinGasPrices(c, tx)
				if err != nil {
					return nil, err
				}
				if prio != 1 || coins.String() != q.Fee.Coins().String() {
					return nil, fmt.Errorf("unexpected return values %s %d", coins, prio)
				}
				return nil, nil
			})
			obs = append(obs, obool(res.OK))
			want := c20FeeOracle(q.Mode, q.Gas, node, chain, q.Fee)
			hist := fmt.Sprintf("fee:mode%d:", q.Mode)
			if res.OK {
				rep.Hist(hist + "admitted")
			} else {
				rep.Hist(hist + "rejected")
			}
			if q.Mode != 0 {
				if res.OK {
					adm = true
				} else {
					rej = true
				}
			}
			if res.OK != want {
				sig, what := "C20:fee-admitted-below-floor", "admitted although no denom with a positive floor carries gas x max(node, chain) rounded up"
				if q.Mode == 0 {
					sig, what = "C20:fee-enforced-outside-check", "rejected outside transaction checking: "+res.Err
				} else if want {
					sig, what = "C20:fee-rejected-at-or-above-floor", "rejected although a denom with a positive floor carries the required fee: "+res.Err
					noFloor := true
					for i := range c20Denoms {
						noFloor = noFloor && node.get(i).Sign() == 0 && chain.get(i).Sign() == 0
					}
					if noFloor {
						sig, what = "C20:fee-rejected-without-floor", "rejected although every floor price is zero (explicit zero-priced entries are no floor): "+res.Err
					}
				}
				rep.Violate(Violation{Case: id, Step: qi + 1, What: what, Sig: sig, Ops: []string{desc, "query (mode, gas, fee) = " + q.Coq()}})
			}
		}
		rep.Ops += len(queries)
		var qs, os []string
		for _, q := range queries {
			qs = append(qs, q.Coq())
		}
		for _, o := range obs {
			os = append(os, o.Coq())
		}
		text := fmt.Sprintf("(%d%%N,\n {| fc_node := %s; fc_chain := %s;\n    fc_queries := [\n      %s] |},\n [%s])",
			id, node.Coq(), chain.Coq(), strings.Join(qs, ";\n      "), strings.Join(os, "; "))
		rep.CountCase(text, adm && rej)
		if k == 5 {
			rep.Sample(map[string]interface{}{"kind": "fee case (first 6 queries)", "node": node.Coq(), "chain": chain.Coq(),
				"queries": qs[:6], "combined": comb.Coq()})
		}
		texts = append(texts, text)
	}
	texts = append(texts, genC20FeeSequences(rep, e, checker, seed, tier, nCases+1)...)
	rep.Notes = append(rep.Notes, fmt.Sprintf("fee: %d configurations x (8 gas limits x ~24 fee sets incl. required-1/required/required+1 per denom) in check, re-check and deliver mode", nCases))
	writeShards(outdir, "C20fee", feeCaseHeader, "run_feecase", "feecase", texts, 8, rep)
}

// Sequences on ONE long-lived context: the node's configured floor is put into the context once
// (its DecCoins slice is shared by every context derived from it, as in a running node); between
// calls the chain floor moves up and down (params update).  Every decision is compared with the
// arithmetic oracle computed from the CONFIGURED node prices - the harness's own copy, never read
// back from the context - and the current chain prices; after every call the context's node
// prices and the stored chain prices must still equal the harness's copies (purity).
func genC20FeeSequences(rep *Report, e *L2Env, checker opchildante.MempoolFeeChecker, seed uint64, tier string, firstID int) []string {
	nSeq, nSteps := 6, 10
	if tier == "thorough" {
		nSeq, nSteps = 60, 20
	}
	vals := c20PriceValues()
	small := []*big.Int{big.NewInt(1000000000000000000), big.NewInt(2000000000000000000), big.NewInt(5000000000000000000), big.NewInt(150000000000000000), big.NewInt(7)}
	r := NewRng(seed*7919 + 24)
	var texts []string
	id := firstID
	same := func(dc sdk.DecCoins, v amtVec) bool {
		got, ok := decCoinsToVec(dc)
		return ok && got.Coq() == v.Ov().Coq()
	}
	for q := 0; q < nSeq; q++ {
		var node amtVec
		if q == 0 { // the scripted ratchet: node 1, chain 5, any check, chain 2, check with fee 2*gas
			node = amtVec{new(big.Int).Set(small[0]), nil, nil}
		} else {
			node = c20RandVec(r, append(append([]*big.Int{}, vals...), small...), 25, 5)
		}
		nodeCopy := append(amtVec{}, node...) // the harness's record of what was configured
		for i, a := range nodeCopy {
			if a != nil {
				nodeCopy[i] = new(big.Int).Set(a)
			}
		}
		long, _ := e.Ctx.CacheContext()
		long = long.WithMinGasPrices(node.DecCoins()) // this slice lives as long as the sequence
		purityReported := false
		var history []string
		history = append(history, fmt.Sprintf("one context for the whole sequence; configured node prices = %s", nodeCopy.Coq()))
		for st := 0; st < nSteps; st++ {
			var chain amtVec
			switch {
			case q == 0 && st == 0:
				chain = amtVec{new(big.Int).Set(small[2]), nil, nil}
			case q == 0 && st == 1:
				chain = amtVec{new(big.Int).Set(small[1]), nil, nil}
			case st%2 == 0: // mostly above the node ...
				chain = c20RandVec(r, append([]*big.Int{vals[9], vals[10], small[2]}, vals...), 20, 5)
			default: // ... then low again
				chain = c20RandVec(r, []*big.Int{big.NewInt(1), big.NewInt(7), small[3], small[1]}, 35, 10)
			}
			ps, err := e.K.GetParams(long)
			if err != nil {
				panic(err)
			}
			ps.MinGasPrices = chain.DecCoins()
			if err := e.K.Params.Set(long, ps); err != nil {
				panic(err)
			}
			history = append(history, fmt.Sprintf("params update: chain prices := %s", chain.Coq()))
			comb, _ := decCoinsToVec(opchildante.CombinedMinGasPrices(nodeCopy.DecCoins(), chain.DecCoins()))
			obs := []Ov{comb}
			var queries []feeQuery
			for _, g := range []uint64{1000, 1000000} {
				for si, fee := range c20FeeSets(r, g, nodeCopy, chain) {
					if si%3 == 0 || si < 8 {
						queries = append(queries, feeQuery{1 + si%2, g, fee})
					}
				}
			}
			id++
			adm, rej := false, false
			for qi, qu := range queries {
				b := e.Enc.TxConfig.NewTxBuilder()
				b.SetGasLimit(qu.Gas)
				b.SetFeeAmount(qu.Fee.Coins())
				tx := b.GetTx()
				ctx := long.WithIsCheckTx(true) // derived from the long-lived context
				if qu.Mode == 2 {
					ctx = long.WithIsReCheckTx(true)
				}
				if qi%2 == 1 {
					ctx, _ = ctx.CacheContext()
				}
				var err error
				func() {
					defer func() {
						if p := recover(); p != nil {
							err = fmt.Errorf("panic: %v", p)
						}
					}()
					_, _, err = checker.CheckTxFeeWithMinGasPrices(ctx, tx)
				}()
				got := err == nil
				obs = append(obs, obool(got))
				want := c20FeeOracle(qu.Mode, qu.Gas, nodeCopy, chain, qu.Fee)
				if got {
					adm = true
				} else {
					rej = true
				}
				rep.Hist(fmt.Sprintf("fee-sequence:%v", got))
				viol := func(sig, what string) {
					n := len(history)
					from := 1
					if n > 9 {
						from = n - 8
					}
					ops := append([]string{history[0]}, history[from:]...)
					ops = append(ops, "query (mode, gas, fee) = "+qu.Coq())
					rep.Violate(Violation{Case: id, Step: qi + 1, What: what, Sig: sig, Ops: ops})
				}
				if got != want {
					errs := ""
					if err != nil {
						errs = ": " + err.Error()
					}
					if want {
						viol("C20:fee-rejected-at-or-above-floor", "on a long-lived context: rejected although a denom with a positive floor (larger of the CONFIGURED node price and the CURRENT chain price) carries the required fee"+errs)
					} else {
						viol("C20:fee-admitted-below-floor", "on a long-lived context: admitted below the floor given by the configured node prices and the current chain prices")
					}
				}
				if !purityReported && !same(long.MinGasPrices(), nodeCopy) {
					purityReported = true // once per sequence; the sequence goes on with the modified context
					now, _ := decCoinsToVec(long.MinGasPrices())
					viol("C20:node-prices-modified", fmt.Sprintf("after the call the context's node prices are %s, configured were %s: the fee checker wrote into the node's configured floor", now.Coq(), nodeCopy.Coq()))
				}
				if mg, err := e.K.MinGasPrices(long); err != nil || !same(mg, chain) {
					viol("C20:chain-prices-modified", "after the call the stored chain prices differ from what the params update wrote")
				}
			}
			rep.Ops += len(queries)
			var qs, os []string
			for _, qu := range queries {
				qs = append(qs, qu.Coq())
			}
			for _, o := range obs {
				os = append(os, o.Coq())
			}
			text := fmt.Sprintf("(%d%%N,\n {| fc_node := %s; fc_chain := %s;\n    fc_queries := [\n      %s] |},\n [%s])",
				id, nodeCopy.Coq(), chain.Coq(), strings.Join(qs, ";\n      "), strings.Join(os, "; "))
			rep.CountCase(text, adm && rej)
			texts = append(texts, text)
		}
	}
	rep.Notes = append(rep.Notes, fmt.Sprintf("fee, long-lived context: %d sequences x %d steps; one context (node prices put in once, contexts derived from it per call), chain prices moved up and down by params updates between calls; oracle from the configured node prices; purity of node and chain prices checked after every call", nSeq, nSteps))
	return texts
}
