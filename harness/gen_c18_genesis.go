package main

import (
	"crypto/sha256"
	"encoding/hex"
	"fmt"
	"strings"

	abci "github.com/cometbft/cometbft/abci/types"

	opchildtypes "github.com/initia-labs/OPinit/x/opchild/types"
	ophosttypes "github.com/initia-labs/OPinit/x/ophost/types"
)

// C18, genesis family: a reached state is exported (real ExportGenesis, JSON through the module
// codec) and imported (real InitGenesis) into several FRESH instances, each on its own goroutine;
// compared byte for byte across the instances: the validator updates RETURNED by InitGenesis
// (in order - they are what the consensus engine is told at InitChain), the raw dump of every
// store, and the genesis exported again from the new instance.
// L2: validator-block histories brought to 3-5 bonded validators; both the exported form and
// the same document with exported=false (updates computed by the end-blocker logic).
// L1: random histories with several bridges.

type c18GenPrint struct {
	Panic   string
	Updates string
	Stores  string
	Export  string
}

func (a c18GenPrint) diff(b c18GenPrint) string {
	switch {
	case a.Panic != b.Panic:
		return "genesis-panic"
	case a.Updates != b.Updates:
		return "genesis-updates"
	case a.Stores != b.Stores:
		return "genesis-store-bytes"
	case a.Export != b.Export:
		return "genesis-reexport"
	}
	return ""
}

func shortHash(b []byte) string { h := sha256.Sum256(b); return hex.EncodeToString(h[:8]) }

func c18GenCompare(rep *Report, id int, what string, prints []c18GenPrint, human []string, detail func(i int) interface{}) bool {
	for k := 1; k < len(prints); k++ {
		if d := prints[0].diff(prints[k]); d != "" {
			rep.Violate(Violation{Case: id, Step: len(human) - 1, Sig: "C18:nondeterministic-" + d,
				What: fmt.Sprintf("%s: importing the same exported genesis into fresh instance 1 and fresh instance %d differs in %s", what, k+1, d),
				Ops:  human, Detail: map[string]interface{}{"instance_1": detail(0), fmt.Sprintf("instance_%d", k+1): detail(k)}})
			return false
		}
	}
	return true
}

func genC18Genesis(rep *Report, seed uint64, tier string, R int, id *int) {
	nL2, nL1, blocks, lenL1 := 8, 4, 4, 60
	if tier == "thorough" {
		nL2, nL1, blocks, lenL1 = 80, 40, 6, 120
	}
	if R < 4 {
		R = 4
	}
	// ---------------- L2 ----------------
	for k := 0; k < nL2; k++ {
		*id++
		s := seed*1000 + 300 + uint64(k)
		sc := NewL2Scenario(s, *id, false)
		e := sc.Env
		ops := c18ValidatorHistory(sc, blocks)
		var human []string
		for _, o := range ops {
			human = append(human, o.Human())
		}
		// bring the set to 3-5 bonded validators and close the block
		h := e.Ctx.BlockHeight()
		target := 3 + sc.R.Intn(3)
		for op := uint64(1); op <= 5; op++ {
			vals, _ := e.K.GetAllValidators(e.Ctx)
			if len(vals) >= target {
				break
			}
			for key := uint64(1); key <= 5; key++ {
				o := c18Op{Kind: "msg", Msg: L2Op{Kind: "addval", Sender: e.Auth, OpID: op, KeyID: key}, H: h}
				if res := c18ExecL2(e, o); res.OK {
					human = append(human, o.Human())
					break
				}
			}
		}
		end := c18Op{Kind: "end", H: h}
		if res := c18ExecL2(e, end); !res.OK {
			panic("c18 genesis: end blocker failed: " + res.Err)
		}
		human = append(human, end.Human())
		gs := e.K.ExportGenesis(e.Ctx)
		json1, err := e.Enc.Marshaler.MarshalJSON(gs)
		if err != nil {
			panic(err)
		}
		var lasts []string
		for _, lp := range gs.LastValidatorPowers {
			lasts = append(lasts, fmt.Sprintf("%s=%d", lp.Address, lp.Power))
		}
		rep.Hist(fmt.Sprintf("genesis:l2:bonded=%d", len(gs.LastValidatorPowers)))
		for _, exported := range []bool{true, false} {
			tag := "exported=true"
			if !exported {
				tag = "exported=false (updates computed by the end-blocker logic)"
			}
			hh := append(append([]string{}, human...), fmt.Sprintf("ExportGenesis: %d validators, last_validator_powers = [%s]; InitGenesis of that document with %s into %d fresh instances",
				len(gs.Validators), strings.Join(lasts, ", "), tag, R))
			prints := make([]c18GenPrint, R)
			upsText := make([]string, R)
			for x := 0; x < R; x++ {
				x := x
				inLocalEnv(x, func() {
					var gs2 opchildtypes.GenesisState
					if err := e.Enc.Marshaler.UnmarshalJSON(json1, &gs2); err != nil {
						panic(err)
					}
					gs2.Exported = exported
					if !exported {
						gs2.LastValidatorPowers = nil
					}
					e3 := NewL2Env(s, 6, false)
					copyL2Foreign(e, e3)
					var ups []abci.ValidatorUpdate
					p := func() (p interface{}) {
						defer func() { p = recover() }()
						ups = e3.K.InitGenesis(e3.Ctx, &gs2)
						return nil
					}()
					if p != nil {
						prints[x] = c18GenPrint{Panic: fmt.Sprint(p)}
						return
					}
					st, _ := dumpStores(e3.Ctx, e3.Keys)
					j2, err := e3.Enc.Marshaler.MarshalJSON(e3.K.ExportGenesis(e3.Ctx))
					if err != nil {
						panic(err)
					}
					prints[x] = c18GenPrint{Updates: updatesString(ups), Stores: st, Export: shortHash(j2)}
					var us []string
					for _, u := range ups {
						us = append(us, fmt.Sprintf("%s:%d", shortHash(u.PubKey.GetEd25519()), u.Power))
					}
					upsText[x] = strings.Join(us, " ")
				})
			}
			c18GenCompare(rep, *id, "L2 genesis ("+tag+")", prints, hh, func(i int) interface{} {
				return map[string]string{"returned_validator_updates(key-hash:power, in order)": upsText[i], "stores": prints[i].Stores, "reexport": prints[i].Export, "panic": prints[i].Panic}
			})
			if prints[0].Panic != "" {
				rep.Hist("genesis:l2:init-panics")
			} else {
				rep.Hist("genesis:l2:imported")
			}
			rep.Ops += R
		}
		rep.CountCase(strings.Join(human, "\n")+string(json1), len(gs.LastValidatorPowers) >= 3)
		if k == 0 {
			rep.Sample(map[string]interface{}{"kind": "L2 genesis import into fresh instances", "last_validator_powers": lasts})
		}
	}
	// ---------------- L1 ----------------
	for k := 0; k < nL1; k++ {
		*id++
		s := seed*100000 + 4000 + uint64(k)
		sc := NewL1Scenario(s, *id, nil)
		w := DefaultL1Weights
		w.Create = 14
		sc.wts = w
		for i := 0; i < lenL1; i++ {
			sc.RandomStep()
		}
		sc.Case.Obs = nil
		e := sc.Env
		human := l1OpsHuman(sc.Case.Ops)
		gs := e.K.ExportGenesis(e.Ctx)
		json1, err := e.Enc.Marshaler.MarshalJSON(gs)
		if err != nil {
			panic(err)
		}
		rep.Hist(fmt.Sprintf("genesis:l1:bridges=%d", len(gs.Bridges)))
		human = append(human, fmt.Sprintf("ExportGenesis: %d bridges; InitGenesis of that document into %d fresh instances", len(gs.Bridges), R))
		prints := make([]c18GenPrint, R)
		for x := 0; x < R; x++ {
			x := x
			inLocalEnv(x, func() {
				var gs2 ophosttypes.GenesisState
				if err := e.Enc.Marshaler.UnmarshalJSON(json1, &gs2); err != nil {
					panic(err)
				}
				e3 := NewL1Env(s, 7, nil)
				copyL1Foreign(e, e3)
				p := func() (p interface{}) {
					defer func() { p = recover() }()
					e3.K.InitGenesis(e3.Ctx, &gs2)
					return nil
				}()
				if p != nil {
					prints[x] = c18GenPrint{Panic: fmt.Sprint(p)}
					return
				}
				st, _ := dumpStores(e3.Ctx, e3.Keys)
				j2, err := e3.Enc.Marshaler.MarshalJSON(e3.K.ExportGenesis(e3.Ctx))
				if err != nil {
					panic(err)
				}
				prints[x] = c18GenPrint{Stores: st, Export: shortHash(j2)}
			})
		}
		c18GenCompare(rep, *id, "L1 genesis", prints, human, func(i int) interface{} { return prints[i] })
		rep.Ops += R
		rep.CountCase(strings.Join(human, "\n"), len(gs.Bridges) >= 2)
	}
	rep.Notes = append(rep.Notes, fmt.Sprintf("genesis family: %d L2 states (3-5 bonded validators; exported and non-exported form) and %d L1 states (several bridges), each exported once and imported into %d fresh instances on their own goroutines; compared: returned validator updates in order, raw store dumps, re-exported genesis", nL2, nL1, R))
}
