package main

import (
	"bytes"
	"fmt"
	"math/big"
)

// Model-free monitors for C11 (output log) and C05 (challenge window / finality) over the
// recorded observations of an L1 case.  They read only what the implementation showed
// (queries after every message) and the operations that were submitted; they never consult the
// Coq model.

type outView struct {
	Idx  uint64
	Root []byte
	L1H  uint64
	Time int64
	L2   uint64
}

type brView struct {
	Exists               bool
	Proposer, Challenger string
	Period               int64
	Next                 uint64
	Outs                 []outView
	HasLf                bool
	LfIdx, LfL2          uint64
}

func ovU(o Ov) uint64 { return o.(ON).V.Uint64() }
func ovI(o Ov) int64  { return o.(OZ).V.Int64() }

// decodeBridges projects the per-bridge part of one observation (see L1Obs).
func decodeBridges(obs Ov) []brView {
	brs := obs.(OL).V[3].(OL).V
	out := make([]brView, len(brs))
	for k, b := range brs {
		f := b.(OL).V
		v := brView{Next: ovU(f[2])}
		if cf := f[0].(OL).V; len(cf) == 1 {
			x := cf[0].(OL).V
			v.Exists = true
			v.Proposer, v.Challenger, v.Period = string(x[0].(OB).V), string(x[1].(OB).V), ovI(x[2])
		}
		for _, o := range f[3].(OL).V {
			y := o.(OL).V
			v.Outs = append(v.Outs, outView{Idx: ovU(y[0]), Root: y[1].(OB).V, L1H: ovU(y[2]), Time: ovI(y[3]), L2: ovU(y[4])})
		}
		if lf := f[4].(OL).V; len(lf) == 2 {
			v.HasLf, v.LfIdx, v.LfL2 = true, ovU(lf[0]), ovU(lf[1])
		}
		out[k] = v
	}
	return out
}

func freshBridges(n int) []brView {
	out := make([]brView, n)
	for i := range out {
		out[i].Next = 1
	}
	return out
}

var bigSec = big.NewInt(1000000000)

func floorDivSec(x *big.Int) *big.Int {
	q, m := new(big.Int), new(big.Int)
	q.DivMod(x, bigSec, m) // Euclidean: m >= 0, hence q = floor for a positive divisor
	return q
}

// the property's own definition of "final": the window has elapsed, compared in unix seconds
func finalAt(now, t, period int64) bool {
	end := new(big.Int).Add(big.NewInt(t), big.NewInt(period))
	return floorDivSec(big.NewInt(now)).Cmp(floorDivSec(end)) >= 0
}

func sameOut(a, b outView) bool {
	return a.Idx == b.Idx && bytes.Equal(a.Root, b.Root) && a.L1H == b.L1H && a.Time == b.Time && a.L2 == b.L2
}
func sameLog(a, b brView) bool {
	if a.Next != b.Next || len(a.Outs) != len(b.Outs) {
		return false
	}
	for i := range a.Outs {
		if !sameOut(a.Outs[i], b.Outs[i]) {
			return false
		}
	}
	return true
}

func trackedIndex(tr *L1Track, b uint64) int {
	for k, x := range tr.Bridges {
		if x == b {
			return k
		}
	}
	return -1
}

// periodBook is the monitors' own record of every bridge's finalization period, taken from the
// ACCEPTED MsgCreateBridge (id = the answer of the message) and never from a read of the keeper:
// all finality computations of the monitors use it.
type periodBook map[int]int64

func (pb periodBook) step(c *L1Case, i int, cur []brView, viol func(int, string, string)) {
	o := c.Ops[i]
	if o.Kind == "create" && c.Results[i].OK {
		if l, ok := c.Obs[i].(OL).V[0].(OL); ok && len(l.V) == 2 {
			if n, ok := l.V[1].(ON); ok {
				if k := trackedIndex(c.Track, n.V.Uint64()); k >= 0 {
					pb[k] = o.Config.Period
				}
			}
		}
	}
	for k := range cur {
		if p, ok := pb[k]; ok {
			if cur[k].Exists && cur[k].Period != p {
				viol(i, "period-mismatch", fmt.Sprintf("bridge %d was created with period %d ns, its config shows %d ns", c.Track.Bridges[k], p, cur[k].Period))
			}
			cur[k].Period = p
		}
	}
}

// executions on discarded state branches that precede the steps of a failing history
func discardedDetail(c *L1Case, upto int) interface{} {
	side := l1Sides[c]
	if side == nil {
		return nil
	}
	extra := map[string]interface{}{}
	for k := 0; k <= upto; k++ {
		for n, g := range side.discards[k] {
			extra[fmt.Sprintf("before step %d, executed on a discarded state branch (#%d)", k, n+1)] = l1OpsHuman(g)
		}
	}
	if len(extra) == 0 {
		return nil
	}
	return extra
}

// ---- C11: log monitor ----
// contiguity, strict L2 increase, time monotone, propose = append at next (records height and
// time), delete = removal of exactly the not-final suffix + counter rollback, acceptance iff
// the stated guards, every other bridge and every other message leaves the log untouched.
func logMonitor(prop string) L1Monitor {
	return func(rep *Report, c *L1Case) {
		viol := func(step int, sig, what string) {
			rep.Violate(Violation{Case: c.ID, Step: step, What: what, Sig: prop + ":" + sig, Ops: l1OpsHuman(c.Ops[:step+1]), Detail: discardedDetail(c, step)})
		}
		prev := freshBridges(len(c.Track.Bridges))
		lastNow := int64(-1 << 62)
		book := periodBook{}
		for i, o := range c.Ops {
			cur := decodeBridges(c.Obs[i])
			ok := c.Results[i].OK
			book.step(c, i, cur, viol)
			if o.Now < lastNow {
				viol(i, "harness-time", "generator produced a decreasing block time")
			}
			lastNow = o.Now
			// (1) shape of every tracked log
			for k, v := range cur {
				b := c.Track.Bridges[k]
				if uint64(len(v.Outs))+1 != v.Next {
					viol(i, "contiguous", fmt.Sprintf("bridge %d: %d outputs stored but next index is %d", b, len(v.Outs), v.Next))
				}
				for j, x := range v.Outs {
					if x.Idx != uint64(j+1) {
						viol(i, "contiguous", fmt.Sprintf("bridge %d: position %d holds index %d", b, j+1, x.Idx))
					}
					if j > 0 && !(v.Outs[j-1].L2 < x.L2) {
						viol(i, "l2-increase", fmt.Sprintf("bridge %d: L2 block %d at index %d after %d", b, x.L2, x.Idx, v.Outs[j-1].L2))
					}
					if j > 0 && v.Outs[j-1].Time > x.Time {
						viol(i, "time-monotone", fmt.Sprintf("bridge %d: index %d proposed at %d before index %d at %d", b, x.Idx, x.Time, x.Idx-1, v.Outs[j-1].Time))
					}
				}
				if v.Next > 1 && !v.Exists {
					viol(i, "log-without-bridge", fmt.Sprintf("bridge %d has outputs but no config", b))
				}
				// final indices form a prefix; the query names the greatest one
				if v.Exists {
					maxFinal, seenNonFinal := uint64(0), false
					var l2 uint64
					for _, x := range v.Outs {
						if finalAt(o.Now, x.Time, v.Period) {
							if seenNonFinal {
								viol(i, "final-prefix", fmt.Sprintf("bridge %d: index %d is final after a non-final one", b, x.Idx))
							}
							maxFinal, l2 = x.Idx, x.L2
						} else {
							seenNonFinal = true
						}
					}
					if v.HasLf && (v.LfIdx != maxFinal || v.LfL2 != l2) {
						viol(i, "last-finalized", fmt.Sprintf("bridge %d: LastFinalizedOutput = (%d, l2 %d), greatest final index is %d (l2 %d)", b, v.LfIdx, v.LfL2, maxFinal, l2))
					}
				}
			}
			// (2) effect of this message
			target := -1
			if o.Kind == "propose" || o.Kind == "delete" {
				target = trackedIndex(c.Track, o.Bridge)
			}
			for k := range cur {
				if k != target && !sameLog(prev[k], cur[k]) {
					viol(i, "frame", fmt.Sprintf("%s (bridge %d) changed the log of bridge %d", o.Kind, o.Bridge, c.Track.Bridges[k]))
				}
			}
			if target >= 0 {
				p, q := prev[target], cur[target]
				switch o.Kind {
				case "propose":
					var lastL2 uint64
					if len(p.Outs) > 0 {
						lastL2 = p.Outs[len(p.Outs)-1].L2
					}
					should := p.Exists && o.Sender == p.Proposer && o.Bridge != 0 && len(o.Root) == 32 && o.Idx == p.Next &&
						(p.Next == 1 || o.L2 > lastL2)
					if ok != should {
						viol(i, "propose-iff", fmt.Sprintf("propose(idx %d, l2 %d) by %s: accepted=%v, guards say %v (next %d, last l2 %d, proposer %s)", o.Idx, o.L2, o.Sender, ok, should, p.Next, lastL2, p.Proposer))
					}
					if ok {
						want := outView{Idx: p.Next, Root: o.Root, L1H: o.Height, Time: o.Now, L2: o.L2}
						good := q.Next == p.Next+1 && len(q.Outs) == len(p.Outs)+1
						for j := 0; good && j < len(p.Outs); j++ {
							good = sameOut(p.Outs[j], q.Outs[j])
						}
						if good {
							good = sameOut(q.Outs[len(q.Outs)-1], want)
						}
						if !good {
							viol(i, "propose-effect", fmt.Sprintf("accepted proposal did not append exactly (idx %d, height %d, time %d, l2 %d) and increment the counter", want.Idx, want.L1H, want.Time, want.L2))
						}
					} else if !sameLog(p, q) {
						viol(i, "error-changed-log", "rejected proposal changed the log")
					}
				case "delete":
					auth := p.Exists && (o.Sender == c.Env.Auth || o.Sender == p.Proposer || o.Sender == p.Challenger)
					inRange := o.Idx >= 1 && o.Idx < p.Next
					suffixFinal := false
					for _, x := range p.Outs {
						if x.Idx >= o.Idx && finalAt(o.Now, x.Time, p.Period) {
							suffixFinal = true
						}
					}
					should := auth && o.Bridge != 0 && inRange && !suffixFinal
					if ok != should {
						viol(i, "delete-iff", fmt.Sprintf("delete(idx %d) by %s: accepted=%v, guards say %v (authorised %v, next %d, final output in suffix %v)", o.Idx, o.Sender, ok, should, auth, p.Next, suffixFinal))
					}
					if ok {
						good := q.Next == o.Idx && uint64(len(q.Outs))+1 == o.Idx && len(q.Outs) <= len(p.Outs)
						for j := 0; good && j < len(q.Outs); j++ {
							good = sameOut(p.Outs[j], q.Outs[j])
						}
						if !good {
							viol(i, "delete-effect", fmt.Sprintf("accepted delete(idx %d) did not remove exactly [%d, %d) and roll the counter back (next now %d, %d outputs left)", o.Idx, o.Idx, p.Next, q.Next, len(q.Outs)))
						}
					} else if !sameLog(p, q) {
						viol(i, "error-changed-log", "rejected delete changed the log")
					}
				}
			}
			prev = cur
		}
	}
}

// ---- C05: time-line monitor ----
// accepted configs have a positive period that never changes; a successful finalization means
// the window has elapsed (unix seconds) for an output that is stored; what was final stays
// stored, unchanged and final; a successful delete never removes a final output; a proposal
// records the current time; the LastFinalizedOutput query names the greatest final index.
func timelineMonitor(prop string) L1Monitor {
	return func(rep *Report, c *L1Case) {
		viol := func(step int, sig, what string) {
			rep.Violate(Violation{Case: c.ID, Step: step, What: what, Sig: prop + ":" + sig, Ops: l1OpsHuman(c.Ops[:step+1]), Detail: discardedDetail(c, step)})
		}
		prev := freshBridges(len(c.Track.Bridges))
		type fkey struct {
			b   int
			idx uint64
		}
		finals := map[fkey]outView{}
		var finalOrder []fkey
		deletedAt := map[fkey]int{} // index removed by an accepted delete (step), until it is proposed again
		lastNow := int64(-1 << 62)
		book := periodBook{}
		for i, o := range c.Ops {
			cur := decodeBridges(c.Obs[i])
			ok := c.Results[i].OK
			book.step(c, i, cur, viol)
			if o.Now < lastNow {
				viol(i, "harness-time", "generator produced a decreasing block time")
			}
			lastNow = o.Now
			if o.Kind == "create" && ok && o.Config.Period <= 0 {
				viol(i, "period-positive", fmt.Sprintf("bridge created with finalization period %d ns", o.Config.Period))
			}
			for k, v := range cur {
				b := c.Track.Bridges[k]
				if v.Exists && v.Period <= 0 {
					viol(i, "period-positive", fmt.Sprintf("bridge %d has finalization period %d ns", b, v.Period))
				}
				if prev[k].Exists && (!v.Exists || v.Period != prev[k].Period) {
					viol(i, "period-immutable", fmt.Sprintf("bridge %d: period changed from %d to %d by %s", b, prev[k].Period, v.Period, o.Kind))
				}
			}
			tk := trackedIndex(c.Track, o.Bridge)
			if o.Kind == "finalize" && ok && tk >= 0 {
				p := prev[tk]
				var out *outView
				for j := range p.Outs {
					if p.Outs[j].Idx == o.Idx {
						out = &p.Outs[j]
					}
				}
				if out == nil {
					viol(i, "finalize-absent", fmt.Sprintf("withdrawal finalized against bridge %d index %d which is not stored", o.Bridge, o.Idx))
				} else if !finalAt(o.Now, out.Time, p.Period) {
					viol(i, "window", fmt.Sprintf("withdrawal finalized at %d against output proposed at %d with period %d: unix %d < %d", o.Now, out.Time, p.Period,
						floorDivSec(big.NewInt(o.Now)), floorDivSec(new(big.Int).Add(big.NewInt(out.Time), big.NewInt(p.Period)))))
				}
			}
			if o.Kind == "finalize" && ok && tk >= 0 {
				if st, del := deletedAt[fkey{tk, o.Idx}]; del {
					viol(i, "deleted-used", fmt.Sprintf("withdrawal finalized against bridge %d index %d, which was deleted at step %d and never proposed again", o.Bridge, o.Idx, st))
				}
			}
			if o.Kind == "delete" && ok && tk >= 0 {
				for j := o.Idx; j < prev[tk].Next; j++ {
					deletedAt[fkey{tk, j}] = i
				}
			}
			if o.Kind == "propose" && ok && tk >= 0 {
				delete(deletedAt, fkey{tk, o.Idx})
			}
			if o.Kind == "delete" && ok && tk >= 0 {
				for _, x := range prev[tk].Outs {
					if x.Idx >= o.Idx && finalAt(o.Now, x.Time, prev[tk].Period) {
						viol(i, "delete-final", fmt.Sprintf("delete(idx %d) removed index %d which was final (proposed %d, period %d, now %d)", o.Idx, x.Idx, x.Time, prev[tk].Period, o.Now))
					}
				}
			}
			if o.Kind == "delete" && !ok && tk >= 0 {
				// deletable until final: an authorised delete of a stored, not yet final suffix must succeed
				p := prev[tk]
				auth := p.Exists && (o.Sender == c.Env.Auth || o.Sender == p.Proposer || o.Sender == p.Challenger)
				if auth && o.Bridge != 0 && o.Idx >= 1 && o.Idx < p.Next {
					blocked := false
					for _, x := range p.Outs {
						if x.Idx >= o.Idx && finalAt(o.Now, x.Time, p.Period) {
							blocked = true
						}
					}
					if !blocked {
						viol(i, "deletable-until-final", fmt.Sprintf("authorised delete(idx %d) refused although no output in [%d, %d) is final at %d", o.Idx, o.Idx, p.Next, o.Now))
					}
				}
			}
			if o.Kind == "propose" && ok && tk >= 0 {
				q := cur[tk]
				if len(q.Outs) == 0 || q.Outs[len(q.Outs)-1].Time != o.Now || q.Outs[len(q.Outs)-1].L1H != o.Height {
					viol(i, "clock-restart", "accepted proposal does not carry the current block time and height")
				}
			}
			// once final, always stored unchanged and final
			for _, k := range finalOrder {
				was := finals[k]
				v := cur[k.b]
				found := false
				for _, x := range v.Outs {
					if x.Idx == k.idx {
						found = true
						if !sameOut(x, was) {
							viol(i, "final-replaced", fmt.Sprintf("bridge %d index %d was final and has been replaced", c.Track.Bridges[k.b], k.idx))
						} else if !finalAt(o.Now, x.Time, v.Period) {
							viol(i, "unfinalized", fmt.Sprintf("bridge %d index %d was final and is not final at %d", c.Track.Bridges[k.b], k.idx, o.Now))
						}
					}
				}
				if !found {
					viol(i, "final-deleted", fmt.Sprintf("bridge %d index %d was final and is gone after %s", c.Track.Bridges[k.b], k.idx, o.Kind))
				}
			}
			for k, v := range cur {
				if !v.Exists {
					continue
				}
				maxFinal := uint64(0)
				var l2 uint64
				for _, x := range v.Outs {
					if finalAt(o.Now, x.Time, v.Period) {
						fk := fkey{k, x.Idx}
						if _, seen := finals[fk]; !seen {
							finals[fk] = x
							finalOrder = append(finalOrder, fk)
						}
						if x.Idx > maxFinal {
							maxFinal, l2 = x.Idx, x.L2
						}
					}
				}
				if v.HasLf && v.LfIdx != 0 {
					if st, del := deletedAt[fkey{k, v.LfIdx}]; del {
						viol(i, "last-finalized-deleted", fmt.Sprintf("bridge %d: LastFinalizedOutput names index %d, which was deleted at step %d and never proposed again", c.Track.Bridges[k], v.LfIdx, st))
					}
				}
				if v.HasLf && (v.LfIdx != maxFinal || v.LfL2 != l2) {
					viol(i, "last-finalized", fmt.Sprintf("bridge %d: LastFinalizedOutput = (%d, l2 %d) at %d, greatest final index is %d (l2 %d)", c.Track.Bridges[k], v.LfIdx, v.LfL2, o.Now, maxFinal, l2))
				}
			}
			// the answer of a role / config update names the last finalized output too
			if ok && tk >= 0 && (o.Kind == "uproposer" || o.Kind == "uchallenger" || o.Kind == "ubatch" || o.Kind == "umeta") {
				if r, isL := c.Obs[i].(OL).V[0].(OL).V[1].(OL); isL && len(r.V) == 2 && cur[tk].HasLf {
					if ovU(r.V[0]) != cur[tk].LfIdx || ovU(r.V[1]) != cur[tk].LfL2 {
						viol(i, "update-answer", fmt.Sprintf("%s answered (%d, %d), LastFinalizedOutput is (%d, %d)", o.Kind, ovU(r.V[0]), ovU(r.V[1]), cur[tk].LfIdx, cur[tk].LfL2))
					}
				}
			}
			prev = cur
		}
	}
}
