package main

import (
	"bytes"
	stded "crypto/ed25519"
	"crypto/sha256"
	"encoding/binary"
	"fmt"
	"math/big"
	"sort"
	"strings"

	cometabci "github.com/cometbft/cometbft/abci/types"
	cmtproto "github.com/cometbft/cometbft/proto/tendermint/types"
	cryptocodec "github.com/cosmos/cosmos-sdk/crypto/codec"
	"github.com/cosmos/cosmos-sdk/crypto/keys/ed25519"
	sdk "github.com/cosmos/cosmos-sdk/types"

	opchildtypes "github.com/initia-labs/OPinit/x/opchild/types"
	ophosttypes "github.com/initia-labs/OPinit/x/ophost/types"

	connectcodec "github.com/skip-mev/connect/v2/abci/strategies/codec"
	vetypes "github.com/skip-mev/connect/v2/abci/ve/types"
	connecttypes "github.com/skip-mev/connect/v2/pkg/types"
	oracletypes "github.com/skip-mev/connect/v2/x/oracle/types"
)

// C15: L1 oracle prices reach L2 only with a signed two-thirds quorum, never backwards.
// Stream: real MsgUpdateOracle through the real opchild msg server on the real connect oracle
// keeper; host validator sets through Keeper.UpdateHostValidatorSet.  The model (Model/Oracle.v)
// receives, per vote, data computed here by INDEPENDENT calls: sig_ok (crypto/ed25519 over
// hand-built canonical vote-extension sign-bytes) and the decoded price map (connect's
// vote-extension codec, own sha256 pair ids, own decoder of the price bytes).

var c15PairNames = []string{"TIMESTAMP/NANOSECOND", "BTC/USD", "ETH/USD", "ATOM/USD", "NEVER/USD"}

type c15Val struct {
	Priv *ed25519.PrivKey
	Pub  []byte // 32 bytes
	Addr []byte // 20 bytes
	ID   uint64
}

type c15Price struct {
	Pair int
	Val  *big.Int
}

type C15Vote struct {
	// what is put into the extended commit
	Addr []byte
	Flag int32
	Ext  []byte
	Sig  []byte
	// the power DECLARED in the entry (cometabci.Validator.Power): written by whoever submits the message,
	// covered by no signature, never read by the unchanged code - not part of the model's vote
	Decl    int64
	DeclSet bool
	// what the model is told (computed independently of the implementation)
	AddrID   uint64
	SigOK    bool
	DecOK    bool
	NonEmpty bool
	Prices   []c15Price
	Note     string
}

type c15Entry struct {
	Val   int // index into the universe
	Power int64
}

type C15Op struct {
	Kind string // oracle | hostset | execs | info | mkpair
	Blk  int64
	// oracle
	Sender   string
	SenderID uint64 // 0 = not a valid address string
	Height   uint64
	Round    int32
	CommitOK bool
	Votes    []C15Vote
	Data     []byte
	Note     string
	// hostset
	Client   string
	ClientID uint64
	HHeight  int64
	Entries  []c15Entry
	// execs
	Execs []uint64
	// info
	InfoNone bool
	Oracle   bool
	Chain    string
	// mkpair
	Pair int
	// speculative pre-execution: this operation is first executed on a DISCARDED branch (failed tx,
	// simulation, unwritten CacheContext) right before the operation itself; it is not part of the
	// chain's history and the model never sees it
	Pre *C15Op
}

func (v C15Vote) Coq() string {
	dec := "None"
	if v.DecOK {
		var ps []string
		for _, p := range v.Prices {
			ps = append(ps, fmt.Sprintf("(%s, %s)", coqU(uint64(p.Pair)), coqZ(p.Val)))
		}
		dec = fmt.Sprintf("(Some (%s, %s))", coqBool(v.NonEmpty), coqList(ps))
	}
	return fmt.Sprintf("MkVote %s %s %s %s %s %s", coqU(v.AddrID), coqBool(v.Flag == int32(cmtproto.BlockIDFlagCommit)),
		coqBool(len(v.Ext) == 0), coqBool(len(v.Sig) == 0), coqBool(v.SigOK), dec)
}

func (o C15Op) Coq() string {
	switch o.Kind {
	case "oracle":
		snd := "None"
		if o.SenderID != 0 {
			snd = "(Some " + coqU(o.SenderID) + ")"
		}
		c := "None"
		if o.CommitOK {
			var vs []string
			for _, v := range o.Votes {
				vs = append(vs, v.Coq())
			}
			c = "(Some " + coqList(vs) + ")"
		}
		return fmt.Sprintf("OUpdateOracle %s %s %s %s", coqU(uint64(o.Blk)), snd, coqU(o.Height), c)
	case "hostset":
		var es []string
		for _, en := range o.Entries {
			es = append(es, fmt.Sprintf("(%s, %s, %s)", coqU(uint64(en.Val+1)), coqU(uint64(en.Val+1)), coqI(en.Power)))
		}
		return fmt.Sprintf("OUpdateHostSet %s %s %s", coqU(o.ClientID), coqI(o.HHeight), coqList(es))
	case "execs":
		var es []string
		for _, x := range o.Execs {
			es = append(es, coqU(x))
		}
		return "OSetExecs " + coqList(es)
	case "info":
		if o.InfoNone {
			return "OSetInfo None"
		}
		return fmt.Sprintf("OSetInfo (Some (MkInfo %s %s %s))", coqBool(o.Oracle), coqU(c15StrID(o.Chain)), coqU(o.ClientID))
	case "mkpair":
		return "OCreatePair " + coqU(uint64(o.Pair))
	case "rmpair":
		return "ORemovePair " + coqU(uint64(o.Pair))
	}
	panic("c15 op kind " + o.Kind)
}

// small fixed table of the strings used as chain / client ids ("" = 0)
var c15Strings = []string{"", "07-tendermint-0", "07-tendermint-9", "l1chain", "otherchain"}

func c15StrID(s string) uint64 {
	for i, x := range c15Strings {
		if x == s {
			return uint64(i)
		}
	}
	panic("unknown string " + s)
}

// ---- independent oracles -------------------------------------------------------------------

func c15Varint(v uint64) []byte {
	var out []byte
	for v >= 0x80 {
		out = append(out, byte(v)|0x80)
		v >>= 7
	}
	return append(out, byte(v))
}

// canonical vote-extension sign bytes: length-delimited proto3 CanonicalVoteExtension
// { bytes extension = 1; sfixed64 height = 2; sfixed64 round = 3; string chain_id = 4 }
func c15SignBytes(chainID string, height int64, round int64, ext []byte) []byte {
	var body []byte
	if len(ext) > 0 {
		body = append(body, 0x0a)
		body = append(body, c15Varint(uint64(len(ext)))...)
		body = append(body, ext...)
	}
	if height != 0 {
		body = append(body, 0x11)
		body = binary.LittleEndian.AppendUint64(body, uint64(height))
	}
	if round != 0 {
		body = append(body, 0x19)
		body = binary.LittleEndian.AppendUint64(body, uint64(round))
	}
	if len(chainID) > 0 {
		body = append(body, 0x22)
		body = append(body, c15Varint(uint64(len(chainID)))...)
		body = append(body, chainID...)
	}
	return append(c15Varint(uint64(len(body))), body...)
}

func c15PairHash(name string) uint64 {
	h := sha256.Sum256([]byte(name))
	return binary.LittleEndian.Uint64(h[:8])
}

// price bytes: Go's big.Int gob form = (version 1 << 1 | sign) followed by the big-endian magnitude
func c15DecodePrice(b []byte) (*big.Int, bool) {
	if len(b) == 0 {
		return new(big.Int), true
	}
	if b[0]>>1 != 1 {
		return nil, false
	}
	m := new(big.Int).SetBytes(b[1:])
	if b[0]&1 == 1 && m.Sign() != 0 {
		return nil, false // negative prices are rejected
	}
	return m, true
}

func c15EncodePrice(v *big.Int) []byte {
	return append([]byte{2}, v.Bytes()...)
}

// ---- environment ---------------------------------------------------------------------------

type c15Env struct {
	E       *L2Env
	R       *Rng
	Vals    []*c15Val // universe, sorted by address; ids 1..
	AddrIDs map[string]uint64
	NextUnk uint64
	VeCodec connectcodec.VoteExtensionCodec
	EcCodec connectcodec.ExtendedCommitCodec
	// the harness's own record of the inputs it has set (not read from the implementation)
	Execs    []uint64
	HasInfo  bool
	OracleOn bool
	Chain    string
	ClientID string
	Created  map[int]bool
	// the set the last ACCEPTED, effective refresh installed (configured client, strictly higher height),
	// tracked from the stream's own operations, never read back from the keeper
	InstSet       map[string]*big.Int // consensus address -> tokens (voting power * 10^6)
	InstTotal     *big.Int
	SetH          int64
	LastEffective bool
	// per pair: the timestamp of the last ACCEPTED update that wrote it since the pair's last (re-)creation,
	// recorded by the stream itself
	LastTS map[int]int64
	Ops      []C15Op
	Obs      []Ov
	ID       int
	OpsCoq   []string
}

func newC15Env(seed uint64, id int, nVals int) *c15Env {
	e := NewL2Env(seed, 4, false)
	r := NewRng(seed ^ 0xc15c15)
	ce := &c15Env{E: e, R: r, AddrIDs: map[string]uint64{}, NextUnk: 900, Created: map[int]bool{}, LastTS: map[int]int64{}, ID: id}
	for i := 0; i < nVals; i++ {
		sk := make([]byte, 32)
		binary.BigEndian.PutUint64(sk, seed)
		binary.BigEndian.PutUint64(sk[8:], uint64(7000+i))
		p := ed25519.GenPrivKeyFromSecret(sk)
		ce.Vals = append(ce.Vals, &c15Val{Priv: p, Pub: p.PubKey().Bytes(), Addr: p.PubKey().Address()})
	}
	sort.Slice(ce.Vals, func(i, j int) bool { return bytes.Compare(ce.Vals[i].Addr, ce.Vals[j].Addr) < 0 })
	for i, v := range ce.Vals {
		v.ID = uint64(i + 1)
		ce.AddrIDs[string(v.Addr)] = v.ID
	}
	ce.VeCodec = connectcodec.NewCompressionVoteExtensionCodec(connectcodec.NewDefaultVoteExtensionCodec(), connectcodec.NewZLibCompressor())
	ce.EcCodec = connectcodec.NewCompressionExtendedCommitCodec(connectcodec.NewDefaultExtendedCommitCodec(), connectcodec.NewZStdCompressor())
	ps := opchildtypes.DefaultParams()
	ps.Admin = e.User(3).Str
	ps.BridgeExecutors = nil
	if err := e.K.SetParams(e.Ctx, ps); err != nil {
		panic(err)
	}
	e.OK.InitGenesis(e.Ctx, oracletypes.GenesisState{CurrencyPairGenesis: make([]oracletypes.CurrencyPairGenesis, 0)})
	return ce
}

func (ce *c15Env) addrID(a []byte) uint64 {
	if id, ok := ce.AddrIDs[string(a)]; ok {
		return id
	}
	ce.NextUnk++
	ce.AddrIDs[string(a)] = ce.NextUnk
	return ce.NextUnk
}

func c15Pair(i int) connecttypes.CurrencyPair {
	cp, err := connecttypes.CurrencyPairFromString(c15PairNames[i])
	if err != nil {
		panic(err)
	}
	return cp
}

// observation of the property-relevant state: quotes of all universe pairs, host height, host set
type c15Quote struct {
	Exists, Has bool
	Price       *big.Int
	TS          int64
	Blk         uint64
}
type c15State struct {
	Quotes  []c15Quote
	HasH    bool
	H       int64
	Tokens  map[uint64]*big.Int // addr id -> bonded tokens (universe validators)
	NVals   int
	TotalTk *big.Int
	ByAddr  map[string]*big.Int
}

func (ce *c15Env) readState() c15State {
	e := ce.E
	var st c15State
	for i := range c15PairNames {
		cp := c15Pair(i)
		q := c15Quote{}
		if e.OK.HasCurrencyPair(e.Ctx, cp) {
			q.Exists = true
			if qp, err := e.OK.GetPriceForCurrencyPair(e.Ctx, cp); err == nil {
				q.Has = true
				q.Price = qp.Price.BigInt()
				q.TS = qp.BlockTimestamp.UnixNano()
				q.Blk = qp.BlockHeight
			}
		}
		st.Quotes = append(st.Quotes, q)
	}
	if h, err := e.K.HostValidatorStore.GetLastHeight(e.Ctx); err == nil {
		st.HasH, st.H = true, h
	}
	st.Tokens = map[uint64]*big.Int{}
	st.ByAddr = map[string]*big.Int{}
	st.TotalTk = new(big.Int)
	vals, err := e.K.HostValidatorStore.GetAllValidators(e.Ctx)
	if err != nil {
		panic(err)
	}
	st.NVals = len(vals)
	for _, v := range vals {
		ca, err := v.GetConsAddr()
		if err != nil {
			panic(err)
		}
		tk := v.GetBondedTokens().BigInt()
		st.ByAddr[string(ca)] = tk
		st.TotalTk.Add(st.TotalTk, tk)
		if id, ok := ce.AddrIDs[string(ca)]; ok && id < 900 {
			st.Tokens[id] = tk
		}
	}
	return st
}

func (st c15State) Ov(res bool, nVals int) Ov {
	r := Ov(OS{"ERR"})
	if res {
		r = OS{"OK"}
	}
	var qs []Ov
	for _, q := range st.Quotes {
		switch {
		case !q.Exists:
			qs = append(qs, OS{"-"})
		case !q.Has:
			qs = append(qs, OL{nil})
		default:
			qs = append(qs, ol(OZ{q.Price}, ozI(q.TS), onU(q.Blk)))
		}
	}
	hh := Ov(OL{nil})
	if st.HasH {
		hh = ol(ozI(st.H))
	}
	var set []Ov
	for id := uint64(1); id <= uint64(nVals); id++ {
		if tk, ok := st.Tokens[id]; ok {
			set = append(set, ol(onU(id), OZ{tk}))
		} else {
			set = append(set, OL{nil})
		}
	}
	return ol(r, OL{qs}, hh, onU(uint64(st.NVals)), OL{set})
}

func (q c15Quote) eq(p c15Quote) bool {
	if q.Exists != p.Exists || q.Has != p.Has {
		return false
	}
	if !q.Has {
		return true
	}
	return q.Price.Cmp(p.Price) == 0 && q.TS == p.TS && q.Blk == p.Blk
}

func (st c15State) sameSet(o c15State) bool {
	if st.HasH != o.HasH || st.H != o.H || st.NVals != o.NVals || len(st.ByAddr) != len(o.ByAddr) {
		return false
	}
	for k, v := range st.ByAddr {
		w, ok := o.ByAddr[k]
		if !ok || v.Cmp(w) != 0 {
			return false
		}
	}
	return true
}

// ---- executing one op on the real code -----------------------------------------------------

func (ce *c15Env) exec(o C15Op) ExecResult {
	ctx := ce.E.Ctx.WithBlockHeight(o.Blk)
	return execAtomic(ctx, func(ctx sdk.Context) (interface{}, error) { return ce.run(ctx, o) })
}

// speculate executes the op on a branch of the state that is thrown away whatever the outcome
func (ce *c15Env) speculate(o C15Op) (ok bool) {
	cacheCtx, _ := ce.E.Ctx.WithBlockHeight(o.Blk).CacheContext()
	cacheCtx = cacheCtx.WithEventManager(sdk.NewEventManager())
	defer func() {
		if r := recover(); r != nil {
			ok = false
		}
	}()
	_, err := ce.run(cacheCtx, o)
	return err == nil
}

func (ce *c15Env) run(ctx sdk.Context, o C15Op) (interface{}, error) {
	e := ce.E
	{
		switch o.Kind {
		case "oracle":
			return e.Msg.UpdateOracle(ctx, opchildtypes.NewMsgUpdateOracle(o.Sender, o.Height, o.Data))
		case "hostset":
			vs := &cmtproto.ValidatorSet{}
			for _, en := range o.Entries {
				v := ce.Vals[en.Val]
				pk, err := cryptocodec.ToCmtProtoPublicKey(v.Priv.PubKey())
				if err != nil {
					panic(err)
				}
				vs.Validators = append(vs.Validators, &cmtproto.Validator{Address: v.Addr, PubKey: pk, VotingPower: en.Power})
			}
			return nil, e.K.UpdateHostValidatorSet(ctx, o.Client, o.HHeight, vs)
		case "execs":
			ps, err := e.K.GetParams(ctx)
			if err != nil {
				return nil, err
			}
			ps.BridgeExecutors = nil
			for _, x := range o.Execs {
				ps.BridgeExecutors = append(ps.BridgeExecutors, e.User(x).Str)
			}
			return nil, e.K.SetParams(ctx, ps)
		case "info":
			if o.InfoNone {
				return nil, e.K.BridgeInfo.Remove(ctx)
			}
			return nil, e.K.BridgeInfo.Set(ctx, opchildtypes.BridgeInfo{BridgeId: 1, BridgeAddr: e.User(4).Str, L1ChainId: o.Chain,
				L1ClientId: o.Client, BridgeConfig: ophosttypes.BridgeConfig{OracleEnabled: o.Oracle}})
		case "mkpair":
			return nil, e.OK.CreateCurrencyPair(ctx, c15Pair(o.Pair))
		case "rmpair": // the oracle module's own removal of a pair (deletes the pair with its quote)
			return nil, e.OK.RemoveCurrencyPair(ctx, c15Pair(o.Pair))
		}
		panic("c15 exec kind " + o.Kind)
	}
}

// effectiveSet: is this accepted validator-set update one that must replace the recorded set (configured,
// non-empty client id and a height above the last installed one), and which set does it carry
// (a repeated validator keeps its last entry; tokens = voting power * 10^6)
func (ce *c15Env) effectiveSet(o C15Op, ok bool) (map[string]*big.Int, bool) {
	if o.Kind != "hostset" || !ok || !ce.HasInfo || o.Client == "" || o.Client != ce.ClientID || o.HHeight <= ce.SetH {
		return nil, false
	}
	m := map[string]*big.Int{}
	for _, en := range o.Entries {
		m[string(ce.Vals[en.Val].Addr)] = new(big.Int).Mul(big.NewInt(en.Power), big.NewInt(1000000))
	}
	return m, true
}

// Do executes the op, records it and its observation, and runs the model-free monitor.
func (ce *c15Env) Do(o C15Op, rep *Report) bool {
	if o.Pre != nil {
		o.Pre.Blk = o.Blk
		st0 := ce.readState()
		okPre := ce.speculate(*o.Pre)
		st1 := ce.readState()
		rep.Hist(fmt.Sprintf("discarded-branch:%s:%v", o.Pre.Kind, okPre))
		same := st0.sameSet(st1)
		for i := range st0.Quotes {
			same = same && st0.Quotes[i].eq(st1.Quotes[i])
		}
		if !same {
			ce.Ops = append(ce.Ops, o)
			rep.Violate(Violation{Case: ce.ID, Step: len(ce.Ops) - 1, What: "an execution on a discarded branch changed the committed state", Sig: "C15:discarded-branch-changed-state", Ops: ce.history(len(ce.Ops) - 1)})
			ce.Ops = ce.Ops[:len(ce.Ops)-1]
		}
	}
	before := ce.readState()
	res := ce.exec(o)
	after := ce.readState()
	ce.Ops = append(ce.Ops, o)
	ce.Obs = append(ce.Obs, after.Ov(res.OK, len(ce.Vals)))
	step := len(ce.Ops) - 1
	ce.monitor(rep, step, o, before, after, res.OK)
	// the harness's own record of the inputs
	if o.Kind == "hostset" {
		m, eff := ce.effectiveSet(o, res.OK)
		ce.LastEffective = eff
		if eff {
			ce.InstSet, ce.SetH = m, o.HHeight
			ce.InstTotal = new(big.Int)
			for _, a := range sortedKeys(m) {
				ce.InstTotal.Add(ce.InstTotal, m[a])
			}
		}
	}
	if res.OK {
		switch o.Kind {
		case "execs":
			ce.Execs = append([]uint64{}, o.Execs...)
		case "info":
			ce.HasInfo = !o.InfoNone
			if ce.HasInfo {
				ce.OracleOn, ce.Chain, ce.ClientID = o.Oracle, o.Chain, o.Client
			}
		case "mkpair":
			ce.Created[o.Pair] = true
			delete(ce.LastTS, o.Pair)
		case "rmpair":
			ce.Created[o.Pair] = false
			delete(ce.LastTS, o.Pair)
		}
	} else if o.Kind == "execs" || o.Kind == "info" || o.Kind == "mkpair" || o.Kind == "rmpair" {
		panic("c15: environment op failed: " + res.Err)
	}
	kind := "ERR"
	if res.OK {
		kind = "OK"
	}
	rep.Hist(o.Kind + ":" + kind)
	if o.Kind == "oracle" && o.Note != "" {
		rep.Hist("oracle-shape:" + o.Note + ":" + kind)
	}
	if o.Kind == "oracle" && !res.OK {
		msg := "other"
		for _, kw := range []string{"codec error", "bech32", "empty address", "expected included", "failed to verify", "insufficient cumulative",
			"invalid oracle height", "non-commit vote extension present", "non-commit vote extension signature", "height is old", "oracle is disabled",
			"timestamp does not exist", "timestamp is old", "panic", "not registered", "signature is missing", "invalid input", "collections", "invalid height"} {
			if strings.Contains(res.Err, kw) {
				msg = kw
				break
			}
		}
		rep.Hist("oracle-error:" + msg)
	}
	return res.OK
}

func (ce *c15Env) history(upto int) []string {
	internOff = true
	defer func() { internOff = false }()
	var out []string
	for i := 0; i <= upto && i < len(ce.Ops); i++ {
		if ce.Ops[i].Pre != nil {
			out = append(out, "(* executed on a DISCARDED branch (not part of the history): "+ce.Ops[i].Pre.Coq()+" *)")
		}
		out = append(out, ce.Ops[i].Coq())
	}
	return out
}

// ---- the model-free monitor ----------------------------------------------------------------
// Restates C15 over the implementation's own before/after states and the submitted bytes.
func (ce *c15Env) monitor(rep *Report, step int, o C15Op, before, after c15State, ok bool) {
	viol := func(sig, what string, detail interface{}) {
		c15SigCount[sig]++
		if c15SigCount[sig] > 2 { // at most two reports per signature and run, so that different kinds stay visible
			return
		}
		if o.Kind == "oracle" && o.CommitOK {
			// the unsigned, submitter-controlled fields of the entries are not part of the model's op text
			var decl []string
			for _, v := range o.Votes {
				decl = append(decl, fmt.Sprintf("validator %d: declared power %d, flag %d, signature verified by the harness %v (%s)", v.AddrID, v.Decl, v.Flag, v.SigOK, v.Note))
			}
			detail = map[string]interface{}{"detail": detail, "entries_of_last_update": decl}
		}
		rep.Violate(Violation{Case: ce.ID, Step: step, What: what, Sig: sig, Ops: ce.history(step), Detail: detail})
	}
	// (1) the host set is only replaced by a higher-height set from the configured client
	if !before.sameSet(after) {
		switch {
		case o.Kind != "hostset":
			viol("C15:set-changed-by-other-op", "host validator set changed by an operation that is not a validator-set update", nil)
		case !ce.HasInfo || o.Client == "" || o.Client != ce.ClientID:
			viol("C15:set-foreign-client", fmt.Sprintf("host validator set replaced by an update from client %q (configured %q)", o.Client, ce.ClientID), nil)
		case before.HasH && o.HHeight <= before.H:
			viol("C15:set-not-higher", fmt.Sprintf("host validator set at height %d replaced by a set of height %d", before.H, o.HHeight), nil)
		case !after.HasH || after.H != o.HHeight:
			viol("C15:set-height-record", "recorded set height differs from the update's height", nil)
		}
	}
	// (1b) an accepted, effective refresh leaves EXACTLY its own set recorded: same validators, keys
	// (address = hash of the key), powers, and nothing else
	if want, eff := ce.effectiveSet(o, ok); eff {
		var diffs []string
		for _, a := range sortedKeys(want) {
			got, has := after.ByAddr[a]
			if !has {
				diffs = append(diffs, fmt.Sprintf("missing %X", a))
			} else if got.Cmp(want[a]) != 0 {
				diffs = append(diffs, fmt.Sprintf("%X recorded with %s tokens, update has %s", a, got, want[a]))
			}
		}
		for _, a := range sortedKeys(after.ByAddr) {
			if _, has := want[a]; !has {
				diffs = append(diffs, fmt.Sprintf("stale %X still recorded with %s tokens", a, after.ByAddr[a]))
			}
		}
		if after.NVals != len(want) && len(diffs) == 0 {
			diffs = append(diffs, fmt.Sprintf("%d validators recorded, update has %d", after.NVals, len(want)))
		}
		if !after.HasH || after.H != o.HHeight {
			diffs = append(diffs, fmt.Sprintf("recorded height %d (present=%v), update height %d", after.H, after.HasH, o.HHeight))
		}
		if len(diffs) > 0 {
			viol("C15:set-not-exactly-replaced", "after an accepted validator-set update the recorded set is not exactly the update's set: "+diffs[0], diffs)
		}
	}
	// quotes may change only by oracle updates
	changed := []int{}
	for i := range before.Quotes {
		if before.Quotes[i].Exists && !before.Quotes[i].eq(after.Quotes[i]) {
			changed = append(changed, i)
		}
	}
	if o.Kind != "oracle" {
		for _, pi := range changed {
			if !(o.Kind == "rmpair" && pi == o.Pair && ok && !after.Quotes[pi].Exists) {
				viol("C15:price-changed-by-other-op", "a stored price changed without an oracle update: "+c15PairNames[pi], nil)
				break
			}
		}
		return
	}
	// (1c) quorum, recomputed with math/big against the harness's own copy of the last COMMITTED set
	// (accepted refreshes on kept branches only) and the harness's own key material
	wAll, clean := ce.quorumView(o)
	total := ce.InstTotal
	if total == nil {
		total = new(big.Int)
	}
	if ok && (total.Sign() <= 0 || new(big.Int).Mul(wAll, big.NewInt(3)).Cmp(new(big.Int).Mul(total, big.NewInt(2))) < 0) {
		viol("C15:accepted-below-quorum", fmt.Sprintf("oracle update accepted although distinct validators of the committed set with validly signed commit votes hold only %s of %s (< 2/3)", wAll, total),
			map[string]string{"signed_power": wAll.String(), "committed_total": total.String()})
	}
	if !ok && clean {
		viol("C15:quorum-refused", fmt.Sprintf("well-formed oracle update refused although every entry is a validly signed commit vote of a distinct validator of the committed set pricing every pair with a fresh timestamp, together %s of %s (>= 0.667)", wAll, total),
			map[string]string{"signed_power": wAll.String(), "committed_total": total.String()})
	}
	if !ok {
		if len(changed) > 0 {
			viol("C15:failed-update-changed-price", "a rejected oracle update changed a stored price", nil)
		}
		return
	}
	// (2) an accepted update is never older than the recorded validator set
	if !before.HasH || int64(o.Height) < before.H || o.Height > uint64(1)<<63-1 {
		viol("C15:height-older-than-set", fmt.Sprintf("oracle update of height %d accepted with recorded set height %d (present=%v)", o.Height, before.H, before.HasH), nil)
	}
	if len(changed) == 0 {
		return
	}
	// (3) sender / oracle flag
	isExec := false
	for _, x := range ce.Execs {
		if x == o.SenderID && x != 0 {
			isExec = true
		}
	}
	if !isExec {
		viol("C15:not-executor", "prices changed by an update whose sender is not a current bridge executor", nil)
	}
	if !ce.HasInfo || !ce.OracleOn {
		viol("C15:oracle-disabled", "prices changed while the bridge has the oracle disabled", nil)
	}
	// (4) per changed pair: distinct known validators with a commit vote, a valid signature over
	// (chain id, height-1, round, extension) and a price for the pair hold >= 2/3 of the recorded power
	info, err := ce.EcCodec.Decode(o.Data)
	if err != nil {
		viol("C15:undecodable-accepted", "an undecodable extended commit changed prices", nil)
		return
	}
	var noQuorum []string
	for _, pi := range changed {
		hash := c15PairHash(c15PairNames[pi])
		seen := map[string]bool{}
		w := new(big.Int)
		for _, v := range info.Votes {
			tk, known := ce.InstSet[string(v.Validator.Address)]
			if !known || seen[string(v.Validator.Address)] || v.BlockIdFlag != cmtproto.BlockIDFlagCommit {
				continue
			}
			var pub []byte
			for _, u := range ce.Vals {
				if bytes.Equal(u.Addr, v.Validator.Address) {
					pub = u.Pub
				}
			}
			if pub == nil || len(v.ExtensionSignature) != stded.SignatureSize {
				continue
			}
			sb := c15SignBytes(ce.Chain, int64(o.Height)-1, int64(info.Round), v.VoteExtension)
			if !stded.Verify(stded.PublicKey(pub), sb, v.ExtensionSignature) {
				continue
			}
			ve, err := ce.VeCodec.Decode(v.VoteExtension)
			if err != nil {
				continue
			}
			pb, has := ve.Prices[hash]
			if !has {
				continue
			}
			if _, good := c15DecodePrice(pb); !good || len(pb) > 33 {
				continue
			}
			seen[string(v.Validator.Address)] = true
			w.Add(w, tk)
		}
		total := ce.InstTotal
		if total == nil {
			total = new(big.Int)
		}
		lhs := new(big.Int).Mul(w, big.NewInt(3))
		rhs := new(big.Int).Mul(total, big.NewInt(2))
		if lhs.Cmp(rhs) < 0 || total.Sign() <= 0 {
			noQuorum = append(noQuorum, fmt.Sprintf("%s: validly signed distinct power %s of %s (validators of the last installed set)", c15PairNames[pi], w, total))
		}
	}
	// (5) per pair the accepted timestamp strictly increases: compared with the timestamp of the last
	// accepted update that wrote the pair since its last (re-)creation, as recorded by the stream itself
	// (and with the quote that was stored before, which must say the same)
	tsReported := false
	for _, pi := range changed {
		if !after.Quotes[pi].Has {
			continue
		}
		last, has := ce.LastTS[pi]
		if has && !(after.Quotes[pi].TS > last) && !tsReported {
			tsReported = true
			viol("C15:timestamp-not-increasing", fmt.Sprintf("%s written with timestamp %d although an earlier accepted update already wrote it with timestamp %d (no removal of the pair in between)",
				c15PairNames[pi], after.Quotes[pi].TS, last), nil)
		} else if before.Quotes[pi].Has && !(after.Quotes[pi].TS > before.Quotes[pi].TS) && !tsReported {
			tsReported = true
			viol("C15:timestamp-not-increasing", fmt.Sprintf("%s rewritten with timestamp %d over stored %d", c15PairNames[pi], after.Quotes[pi].TS, before.Quotes[pi].TS), nil)
		}
		ce.LastTS[pi] = after.Quotes[pi].TS
	}
	if len(noQuorum) > 0 {
		viol("C15:no-quorum", "price changed with less than 2/3 of the recorded power behind validly signed commit votes of distinct validators: "+noQuorum[0], noQuorum)
	}
}

// quorumView recomputes, from the submitted bytes only: the power of the distinct validators of the
// committed set (the stream's own record) that have a commit-flag entry with a valid signature (own
// ed25519 call), and whether the update is "clean": a case in which the property leaves no reason to
// refuse it (executor, oracle on, height in range, every entry a validly signed commit vote of a
// distinct committed validator, every existing pair priced by everybody, fresh timestamps, >= 0.667)
func (ce *c15Env) quorumView(o C15Op) (*big.Int, bool) {
	w := new(big.Int)
	info, err := ce.EcCodec.Decode(o.Data)
	if err != nil {
		return w, false
	}
	clean := len(info.Votes) > 0 && ce.HasInfo && ce.OracleOn && o.SenderID != 0 && ce.InstSet != nil &&
		o.Height != 0 && o.Height < uint64(1)<<63 && int64(o.Height) >= ce.SetH && ce.Created[0]
	isExec := false
	for _, x := range ce.Execs {
		isExec = isExec || x == o.SenderID
	}
	clean = clean && isExec
	if ce.InstTotal == nil || ce.InstTotal.Sign() <= 0 || ce.InstTotal.BitLen() > 62 {
		clean = false
	}
	var maxLast int64
	hasLast := false
	for p := range c15PairNames {
		if t, has := ce.LastTS[p]; has && ce.Created[p] && (!hasLast || t > maxLast) {
			maxLast, hasLast = t, true
		}
	}
	seen := map[string]bool{}
	for _, v := range info.Votes {
		a := string(v.Validator.Address)
		tk, known := ce.InstSet[a]
		good := known && !seen[a] && v.BlockIdFlag == cmtproto.BlockIDFlagCommit && len(v.ExtensionSignature) == stded.SignatureSize
		if good {
			var pub []byte
			for _, u := range ce.Vals {
				if bytes.Equal(u.Addr, v.Validator.Address) {
					pub = u.Pub
				}
			}
			good = pub != nil && stded.Verify(stded.PublicKey(pub), c15SignBytes(ce.Chain, int64(o.Height)-1, int64(info.Round), v.VoteExtension), v.ExtensionSignature)
		}
		if !good {
			clean = false
			continue
		}
		seen[a] = true
		w.Add(w, tk)
		ve, err := ce.VeCodec.Decode(v.VoteExtension)
		if err != nil {
			clean = false
			continue
		}
		for p, name := range c15PairNames {
			if !ce.Created[p] {
				continue
			}
			pb, has := ve.Prices[c15PairHash(name)]
			val, dec := c15DecodePrice(pb)
			if !has || !dec || len(pb) > 33 {
				clean = false
				continue
			}
			if p == 0 && (val.BitLen() > 62 || (hasLast && val.Int64() <= maxLast)) {
				clean = false
			}
		}
	}
	if clean && new(big.Int).Mul(w, big.NewInt(1000)).Cmp(new(big.Int).Mul(ce.InstTotal, big.NewInt(667))) < 0 {
		clean = false
	}
	return w, clean
}

// ---- building votes ------------------------------------------------------------------------

func (ce *c15Env) encodeExt(prices map[uint64][]byte) []byte {
	bz, err := ce.VeCodec.Encode(vetypes.OracleVoteExtension{Prices: prices})
	if err != nil {
		panic(err)
	}
	return bz
}

func (ce *c15Env) sign(v *c15Val, chain string, height int64, round int64, ext []byte) []byte {
	sig, err := v.Priv.Sign(c15SignBytes(chain, height, round, ext))
	if err != nil {
		panic(err)
	}
	return sig
}

// finish fills the model-side data of a vote by independent computation
func (ce *c15Env) finish(v *C15Vote, height uint64, round int32) {
	v.AddrID = ce.addrID(v.Addr)
	v.SigOK = false
	if v.AddrID < 900 && len(v.Sig) == stded.SignatureSize {
		u := ce.Vals[v.AddrID-1]
		v.SigOK = stded.Verify(stded.PublicKey(u.Pub), c15SignBytes(ce.Chain, int64(height)-1, int64(round), v.Ext), v.Sig)
	}
	ve, err := ce.VeCodec.Decode(v.Ext)
	v.DecOK = err == nil
	v.Prices = nil
	v.NonEmpty = false
	if !v.DecOK {
		return
	}
	v.NonEmpty = len(ve.Prices) > 0
	ids := make([]uint64, 0, len(ve.Prices))
	for id := range ve.Prices {
		ids = append(ids, id)
	}
	sort.Slice(ids, func(i, j int) bool { return ids[i] < ids[j] })
	for _, id := range ids {
		pb := ve.Prices[id]
		if len(pb) > 33 {
			continue
		}
		pair := -1
		for i, n := range c15PairNames {
			if c15PairHash(n) == id {
				pair = i
			}
		}
		if pair < 0 {
			continue
		}
		val, good := c15DecodePrice(pb)
		if !good {
			continue
		}
		v.Prices = append(v.Prices, c15Price{pair, val})
	}
	sort.Slice(v.Prices, func(i, j int) bool { return v.Prices[i].Pair < v.Prices[j].Pair })
}

type c15Gen struct {
	ce       *c15Env
	r        *Rng
	profile  int
	inSet    []c15Entry // the harness's idea of the current stored set (for building mostly-valid commits)
	setH     int64
	tsNext   int64
	lastTS   int64
	blk      int64
	price    []int64
	accepted int
	rejected int
	jitter   int
	disrupt  int
	acc        []C15Op // accepted oracle updates since the last installed set (candidates for replays)
	foreign    []c15Entry // entries of the last validator-set update that was ignored while the configured client id was empty
	foreignH   int64
	wantClient string // the client id the bridge info of this case currently carries ("" = not completed yet)
	retired  []c15Entry // validators (with their last power) that left at the last rotating refresh
	attack   int        // number of upcoming updates to be signed only by the retired validators
}

// 2200-01-01T00:00:00Z in ns: far in the future of any wall clock, still inside int64
const c15Year2200 = int64(7258118400) * 1000000000

// rotate: a refresh in which validators LEAVE while the set size stays equal or grows: the r most
// powerful members retire, at least r newcomers (power 1) join, the others keep their power
func (g *c15Gen) rotate() ([]c15Entry, []c15Entry, bool) {
	r := g.r
	in := map[int]bool{}
	for _, en := range g.inSet {
		in[en.Val] = true
	}
	var outs []int
	for i := range g.ce.Vals {
		if !in[i] {
			outs = append(outs, i)
		}
	}
	if len(outs) == 0 || len(g.inSet) == 0 {
		return nil, nil, false
	}
	cur := append([]c15Entry{}, g.inSet...)
	sort.SliceStable(cur, func(i, j int) bool { return cur[i].Power > cur[j].Power })
	nr := 1 + r.Intn(len(cur))
	if nr > len(outs) {
		nr = len(outs)
	}
	retired, kept := cur[:nr], cur[nr:]
	for i := len(outs) - 1; i > 0; i-- {
		j := r.Intn(i + 1)
		outs[i], outs[j] = outs[j], outs[i]
	}
	nn := nr
	if len(outs) > nr && r.Bool() {
		nn = nr + 1
	}
	set := append([]c15Entry{}, kept...)
	for _, v := range outs[:nn] {
		set = append(set, c15Entry{Val: v, Power: 1})
	}
	for i := len(set) - 1; i > 0; i-- {
		j := r.Intn(i + 1)
		set[i], set[j] = set[j], set[i]
	}
	return set, append([]c15Entry{}, retired...), true
}

func (g *c15Gen) powerOf(val int) int64 {
	for _, en := range g.inSet {
		if en.Val == val {
			return en.Power
		}
	}
	return 0
}

// honest price map of one validator at logical time ts
func (g *c15Gen) priceMap(ts int64, dropPct int) map[uint64][]byte {
	r := g.r
	m := map[uint64][]byte{}
	for i, n := range c15PairNames {
		if r.Chance(dropPct) {
			continue
		}
		var val *big.Int
		if i == 0 {
			val = big.NewInt(ts + int64(r.Intn(1+g.jitter)))
		} else {
			val = big.NewInt(g.price[i] + int64(r.Intn(7)) - 3)
		}
		m[c15PairHash(n)] = c15EncodePrice(val)
	}
	return m
}

func (g *c15Gen) junkify(m map[uint64][]byte) {
	r := g.r
	switch r.Intn(6) {
	case 0:
		m[c15PairHash(c15PairNames[1+r.Intn(3)])] = bytes.Repeat([]byte{2}, 34+r.Intn(4)) // too long
	case 1:
		m[c15PairHash(c15PairNames[1+r.Intn(3)])] = []byte{3, 5, 7} // negative
	case 2:
		m[c15PairHash(c15PairNames[1+r.Intn(3)])] = []byte{9, 1} // unsupported version
	case 3:
		m[r.U64()] = c15EncodePrice(big.NewInt(77)) // unknown pair id
	case 4:
		m[c15PairHash(c15PairNames[1+r.Intn(3)])] = []byte{} // decodes as zero
	case 5:
		m[c15PairHash(c15PairNames[0])] = append([]byte{2}, r.Bytes(9+r.Intn(24))...) // timestamp beyond int64
	}
}

// one oracle update op
func (g *c15Gen) oracleOp() C15Op {
	ce, r := g.ce, g.r
	o := C15Op{Kind: "oracle", Blk: g.blk}
	// the validators commits are built from: the installed set, or - while the bridge info has an EMPTY
	// client id and some client's update was (rightly) ignored - the validators of that ignored update
	src, base, foreign := g.inSet, g.setH, false
	if ce.HasInfo && ce.ClientID == "" && len(g.foreign) > 0 && r.Chance(80) {
		src, base, foreign = g.foreign, g.foreignH, true
	}
	// 72% of the updates are well-formed in sender, height and timestamp; the others deviate in exactly one
	dev := r.Weighted([]int{72, 7, 9, 12})
	if g.attack > 0 && len(g.retired) > 0 {
		dev = 0
	}
	specKind := -1
	if !foreign && len(src) >= 3 && ce.HasInfo && ce.ClientID != "" && g.attack == 0 && r.Chance(14) {
		// a validator-set refresh is executed on a DISCARDED branch right before this (otherwise well-formed) update
		specKind = r.Intn(3)
		if specKind < 2 {
			dev = 0
		}
	}
	if r.Chance(2) && g.tsNext < c15Year2200 { // the L1 clock jumps far ahead of any wall clock (timestamps are inputs)
		g.tsNext = c15Year2200 + int64(r.Intn(1000000))
	}
	// sender
	sw := 0
	if dev == 1 {
		sw = 1 + r.Intn(3)
	}
	switch sw {
	case 0:
		if len(ce.Execs) > 0 {
			o.SenderID = ce.Execs[r.Intn(len(ce.Execs))]
		} else {
			o.SenderID = 1
		}
		o.Sender = ce.E.User(o.SenderID).Str
		if r.Chance(5) {
			o.Sender = upperBech32(o.Sender)
		}
	case 1, 2:
		o.SenderID = uint64(1 + r.Intn(4))
		o.Sender = ce.E.User(o.SenderID).Str
	case 3:
		o.SenderID = 0
		o.Sender = []string{"", "notanaddress", ce.E.User(1).Str + "x"}[r.Intn(3)]
	}
	// height
	hw := 0
	if dev == 2 {
		hw = 1 + r.Intn(5)
	}
	switch hw {
	case 0:
		o.Height = uint64(base + int64(r.Intn(4)))
	case 1, 2:
		o.Height = uint64(base - 1 - int64(r.Intn(2)))
	case 3:
		o.Height = 0
	case 4:
		o.Height = uint64(1)<<63 + uint64(r.Intn(3))
	case 5:
		o.Height = ^uint64(0) - uint64(r.Intn(2))
	}
	o.Round = int32(r.Intn(3))
	// timestamp: mostly fresh, sometimes a replay (same) or a rollback (older)
	ts := g.tsNext
	fresh := true
	g.jitter = 4
	if dev == 3 {
		switch r.Intn(3) {
		case 0:
			ts = g.lastTS
			fresh = false
			g.jitter = 0
		case 1:
			ts = g.lastTS - int64(1+r.Intn(1000))
			fresh = false
		case 2:
			ts = g.lastTS + 1
			g.jitter = 0
		}
	}
	if fresh {
		g.tsNext += 1000 + int64(r.Intn(1000))
	}
	// garbage / empty commit bytes
	if r.Chance(3) {
		if r.Bool() {
			o.Data = r.Bytes(5 + r.Intn(40))
			o.CommitOK = false
			o.Note = "garbage-commit"
			if _, err := ce.EcCodec.Decode(o.Data); err == nil {
				o.Data = []byte{1, 2, 3}
			}
		} else {
			o.Data = nil
			o.CommitOK = true
			o.Note = "empty-commit"
		}
		return o
	}
	shape := r.Weighted([]int{20, 25, 30, 15, 10})
	if dev != 0 && r.Chance(70) {
		shape = 0 // deviations are mostly paired with an otherwise honest commit
	}
	if len(g.retired) > 0 && (g.attack > 0 || r.Chance(6)) {
		shape = 5 // only validators that left the set sign (fresh timestamps, otherwise well-formed)
		if g.attack > 0 {
			g.attack--
		}
	}
	if specKind < 0 && dev == 0 && !foreign && len(src) >= 4 && g.attack == 0 && r.Chance(7) {
		shape = 7
	}
	switch specKind {
	case 0:
		shape = 6 // the discarded set = the signers (a lower-power subset of the committed set)
	case 1:
		shape = 0 // the discarded set has a much HIGHER total: an all-honest commit must still pass
	}
	notes := []string{"all-honest", "subset", "perturbed", "dup-attack", "unsigned-mix", "retired-only", "discarded-subset", "forged-zero-power"}
	o.Note = notes[shape]
	if foreign {
		o.Note = "foreign-set+" + o.Note
	}
	chain := ce.Chain
	h1 := int64(o.Height) - 1
	mk := func(val int, drop int) C15Vote {
		u := ce.Vals[val]
		ext := ce.encodeExt(g.priceMap(ts, drop))
		return C15Vote{Addr: u.Addr, Flag: int32(cmtproto.BlockIDFlagCommit), Ext: ext, Sig: ce.sign(u, chain, h1, int64(o.Round), ext)}
	}
	var votes []C15Vote
	members := append([]c15Entry{}, src...)
	// shuffle
	for i := len(members) - 1; i > 0; i-- {
		j := r.Intn(i + 1)
		members[i], members[j] = members[j], members[i]
	}
	var spec []c15Entry
	switch shape {
	case 7:
		// unsigned fields the submitter controls: a genuine, correctly signed super-majority, of which only a
		// minority (< 2/3) prices pair tp; every other recorded validator appears with a commit-flag entry, a
		// BOGUS signature, prices for everything and a declared power of 0 or less
		total := new(big.Int)
		for _, en := range src {
			total.Add(total, big.NewInt(en.Power))
		}
		tp := 1 + r.Intn(2)
		acc, acc1 := new(big.Int), new(big.Int)
		for _, en := range members {
			u := ce.Vals[en.Val]
			if new(big.Int).Mul(acc, big.NewInt(1000)).Cmp(new(big.Int).Mul(total, big.NewInt(667))) < 0 {
				acc.Add(acc, big.NewInt(en.Power))
				m := g.priceMap(ts, 0)
				nxt := new(big.Int).Add(acc1, big.NewInt(en.Power))
				if new(big.Int).Mul(nxt, big.NewInt(3)).Cmp(new(big.Int).Mul(total, big.NewInt(2))) < 0 {
					acc1 = nxt
				} else {
					delete(m, c15PairHash(c15PairNames[tp]))
				}
				ext := ce.encodeExt(m)
				votes = append(votes, C15Vote{Addr: u.Addr, Flag: int32(cmtproto.BlockIDFlagCommit), Ext: ext, Sig: ce.sign(u, chain, h1, int64(o.Round), ext),
					Decl: []int64{1, en.Power + 1}[r.Intn(2)], DeclSet: true})
			} else {
				ext := ce.encodeExt(g.priceMap(ts, 0))
				votes = append(votes, C15Vote{Addr: u.Addr, Flag: int32(cmtproto.BlockIDFlagCommit), Ext: ext, Sig: r.Bytes(64),
					Decl: []int64{0, 0, -3}[r.Intn(3)], DeclSet: true, Note: "forged-zero-power"})
			}
		}
	case 6: // signers: a subset holding between half and two thirds (if possible); all honest
		total := new(big.Int)
		for _, en := range src {
			total.Add(total, big.NewInt(en.Power))
		}
		acc := new(big.Int)
		for _, en := range members {
			nxt := new(big.Int).Add(acc, big.NewInt(en.Power))
			if new(big.Int).Mul(nxt, big.NewInt(3)).Cmp(new(big.Int).Mul(total, big.NewInt(2))) >= 0 {
				continue
			}
			acc = nxt
			spec = append(spec, en)
			votes = append(votes, mk(en.Val, 0))
		}
	case 5:
		for _, en := range g.retired {
			votes = append(votes, mk(en.Val, 0))
		}
		if r.Chance(30) { // plus a minority of the current set
			votes = append(votes, mk(members[0].Val, 0))
		}
	case 0:
		for _, en := range members {
			votes = append(votes, mk(en.Val, 0))
		}
	case 1, 3: // subset whose power is near the two-thirds line
		total := new(big.Int)
		for _, en := range src {
			total.Add(total, big.NewInt(en.Power))
		}
		acc := new(big.Int)
		stopAt := r.Intn(3) // 0: stop just below 2/3, 1: just at/above, 2: random cut
		cut := r.Intn(len(members) + 1)
		for i, en := range members {
			nxt := new(big.Int).Add(acc, big.NewInt(en.Power))
			over := new(big.Int).Mul(nxt, big.NewInt(3)).Cmp(new(big.Int).Mul(total, big.NewInt(2))) >= 0
			if stopAt == 0 && over {
				continue
			}
			if stopAt == 2 && i >= cut {
				break
			}
			votes = append(votes, mk(en.Val, 10*r.Intn(3)))
			acc = nxt
			if stopAt == 1 && new(big.Int).Mul(acc, big.NewInt(1000)).Cmp(new(big.Int).Mul(total, big.NewInt(667))) >= 0 {
				break
			}
		}
		if shape == 3 && len(votes) > 0 { // duplicate entries until the summed power passes the first check
			n := len(votes)
			for k := 0; k < n*(1+r.Intn(2)); k++ {
				d := votes[r.Intn(n)]
				if r.Chance(30) { // a different, also validly signed, second vote of the same validator
					d = mk(int(ce.addrID(d.Addr)-1), 20)
				}
				votes = append(votes, d)
			}
		}
	case 2:
		for _, en := range members {
			if r.Chance(12) {
				continue
			}
			votes = append(votes, mk(en.Val, 15*r.Intn(2)))
		}
	case 4:
		// validly signed commit votes holding less than two thirds; every other validator also supplies
		// prices but in ONE defective way (so that dropping a single check lets the update through);
		// repeated entries of the signed votes get the summed power over the first threshold
		total := new(big.Int)
		for _, en := range src {
			total.Add(total, big.NewInt(en.Power))
		}
		acc := new(big.Int)
		defect := r.Intn(5)
		o.Note = map[bool]string{false: "", true: "foreign-set+"}[foreign] + "unsigned-mix-" + []string{"noncommit-ext-nosig", "noncommit-ext-forged", "commit-forged", "commit-nosig", "commit-swapped"}[defect]
		var signed []C15Vote
		for _, en := range members {
			nxt := new(big.Int).Add(acc, big.NewInt(en.Power))
			over := new(big.Int).Mul(nxt, big.NewInt(3)).Cmp(new(big.Int).Mul(total, big.NewInt(2))) >= 0
			v := mk(en.Val, 0)
			if !over {
				acc = nxt
				signed = append(signed, v)
				votes = append(votes, v)
				continue
			}
			switch defect {
			case 0:
				v.Flag, v.Sig = int32(cmtproto.BlockIDFlagNil), nil
			case 1:
				v.Flag, v.Sig = int32(cmtproto.BlockIDFlagAbsent), r.Bytes(64)
			case 2:
				v.Sig = r.Bytes(64)
			case 3:
				v.Sig = nil
			case 4:
				v.Sig = ce.sign(ce.Vals[members[0].Val], chain, h1, int64(o.Round), v.Ext)
				if members[0].Val == en.Val {
					v.Sig = r.Bytes(64)
				}
			}
			v.Note = "defective"
			votes = append(votes, v)
		}
		if len(signed) > 0 && r.Chance(70) {
			for k := 0; k < 2*len(signed); k++ {
				votes = append(votes, signed[r.Intn(len(signed))])
			}
		}
	}
	// perturbations
	perturb := func(v *C15Vote) string {
		u := ce.Vals[int(ce.addrID(v.Addr))-1]
		switch r.Intn(16) {
		case 15:
			v.Flag = int32([]cmtproto.BlockIDFlag{cmtproto.BlockIDFlagAbsent, cmtproto.BlockIDFlagNil, cmtproto.BlockIDFlagUnknown}[r.Intn(3)])
			v.Sig = nil
			return "non-commit-ext-nosig"
		case 0:
			v.Sig = r.Bytes(64)
			return "forged"
		case 1:
			other := ce.Vals[r.Intn(len(ce.Vals))]
			v.Sig = ce.sign(other, chain, h1, int64(o.Round), v.Ext)
			return "swapped"
		case 2:
			v.Sig = ce.sign(u, "otherchain", h1, int64(o.Round), v.Ext)
			return "wrong-chain"
		case 3:
			v.Sig = ce.sign(u, chain, h1+int64(1+r.Intn(2)), int64(o.Round), v.Ext)
			return "wrong-height"
		case 4:
			v.Sig = ce.sign(u, chain, h1, int64(o.Round)+1, v.Ext)
			return "wrong-round"
		case 5:
			v.Sig = nil
			return "no-sig"
		case 6:
			v.Flag = int32([]cmtproto.BlockIDFlag{cmtproto.BlockIDFlagAbsent, cmtproto.BlockIDFlagNil, cmtproto.BlockIDFlagUnknown}[r.Intn(3)])
			return "non-commit-with-ext"
		case 7:
			v.Flag = int32(cmtproto.BlockIDFlagAbsent + cmtproto.BlockIDFlag(r.Intn(2)))
			v.Ext, v.Sig = nil, nil
			return "non-commit-empty"
		case 8:
			v.Flag = int32(cmtproto.BlockIDFlagNil)
			v.Ext = nil
			return "non-commit-signed"
		case 9:
			v.Ext = ce.encodeExt(g.priceMap(ts+3, 30)) // signature is for another extension
			return "ext-replaced"
		case 10:
			v.Ext = r.Bytes(7 + r.Intn(20))
			v.Sig = ce.sign(u, chain, h1, int64(o.Round), v.Ext)
			return "garbage-ext-signed"
		case 11:
			m := g.priceMap(ts, 20)
			g.junkify(m)
			v.Ext = ce.encodeExt(m)
			v.Sig = ce.sign(u, chain, h1, int64(o.Round), v.Ext)
			return "junk-price"
		case 12:
			v.Ext = nil
			v.Sig = ce.sign(u, chain, h1, int64(o.Round), nil)
			return "empty-ext-signed"
		case 13:
			v.Ext = ce.encodeExt(map[uint64][]byte{})
			v.Sig = ce.sign(u, chain, h1, int64(o.Round), v.Ext)
			return "no-prices-signed"
		default:
			v.Ext = ce.encodeExt(map[uint64][]byte{c15PairHash(c15PairNames[1]): {9, 9}, r.U64(): {2, 1}})
			v.Sig = ce.sign(u, chain, h1, int64(o.Round), v.Ext)
			return "only-undecodable-prices"
		}
	}
	pct := 0
	if shape == 2 {
		pct = 18
	} else if shape != 4 && r.Chance(20) {
		pct = 8
	}
	for i := range votes {
		if r.Chance(pct) {
			votes[i].Note = perturb(&votes[i])
		}
	}
	// later votes of validators that already voted
	if len(votes) > 0 && r.Chance(25) {
		k := 1 + r.Intn(2)
		for j := 0; j < k; j++ {
			src := votes[r.Intn(len(votes))]
			val := int(ce.addrID(src.Addr)) - 1
			nv := mk(val, 25)
			switch r.Intn(4) {
			case 0:
				nv.Note = perturb(&nv)
			case 1:
				nv.Ext = ce.encodeExt(map[uint64][]byte{})
				nv.Sig = ce.sign(ce.Vals[val], chain, h1, int64(o.Round), nv.Ext)
				nv.Note = "later-empty"
			}
			pos := r.Intn(len(votes) + 1)
			votes = append(votes[:pos], append([]C15Vote{nv}, votes[pos:]...)...)
		}
	}
	// votes of validators that are not in the stored set, and of unknown addresses
	if r.Chance(30) {
		k := 1 + r.Intn(3)
		for j := 0; j < k; j++ {
			var nv C15Vote
			switch r.Intn(5) {
			case 0, 1: // a universe validator outside the current set, with its own valid signature
				var outs []int
				for i := range ce.Vals {
					in := false
					for _, en := range src {
						if en.Val == i {
							in = true
						}
					}
					if !in {
						outs = append(outs, i)
					}
				}
				if len(outs) == 0 {
					continue
				}
				nv = mk(outs[r.Intn(len(outs))], 0)
				nv.Note = "outsider"
			case 2: // random address, prices, junk signature
				nv = C15Vote{Addr: r.Bytes(20), Flag: int32(cmtproto.BlockIDFlagCommit), Ext: ce.encodeExt(g.priceMap(ts, 0)), Sig: r.Bytes(64), Note: "unknown-addr"}
			case 3: // odd address lengths, non-commit flag with extension
				nv = C15Vote{Addr: r.Bytes([]int{0, 5, 32}[r.Intn(3)]), Flag: int32(cmtproto.BlockIDFlagNil), Ext: ce.encodeExt(g.priceMap(ts, 0)), Note: "unknown-odd"}
			case 4: // unknown validator with an undecodable extension
				nv = C15Vote{Addr: r.Bytes(20), Flag: int32(cmtproto.BlockIDFlagCommit), Ext: r.Bytes(11), Sig: r.Bytes(64), Note: "unknown-garbage"}
			}
			pos := r.Intn(len(votes) + 1)
			votes = append(votes[:pos], append([]C15Vote{nv}, votes[pos:]...)...)
		}
	}
	eci := cometabci.ExtendedCommitInfo{Round: o.Round}
	for i := range votes {
		if !votes[i].DeclSet { // declared power: independent of the recorded power
			rec := int64(1)
			if id := ce.addrID(votes[i].Addr); id < 900 {
				rec = g.powerOf(int(id) - 1)
			}
			votes[i].Decl = []int64{0, -7, 1, rec, int64(1) << 60}[r.Weighted([]int{10, 5, 35, 40, 10})]
			votes[i].DeclSet = true
		}
		ce.finish(&votes[i], o.Height, o.Round)
		eci.Votes = append(eci.Votes, cometabci.ExtendedVoteInfo{
			Validator:          cometabci.Validator{Address: votes[i].Addr, Power: votes[i].Decl},
			VoteExtension:      votes[i].Ext,
			ExtensionSignature: votes[i].Sig,
			BlockIdFlag:        cmtproto.BlockIDFlag(votes[i].Flag),
		})
	}
	bz, err := ce.EcCodec.Encode(eci)
	if err != nil {
		panic(err)
	}
	o.Data, o.Votes, o.CommitOK = bz, votes, true
	if specKind >= 0 {
		pre := C15Op{Kind: "hostset", Client: ce.ClientID, ClientID: c15StrID(ce.ClientID), HHeight: base + int64(1+r.Intn(3))}
		switch specKind {
		case 0:
			pre.Entries = spec
		case 1:
			for _, en := range src {
				pre.Entries = append(pre.Entries, c15Entry{Val: en.Val, Power: en.Power*3 + 5})
			}
		case 2:
			pre.Entries = g.newSet()
			if r.Bool() {
				pre.HHeight = base - int64(r.Intn(2))
			}
		}
		if len(pre.Entries) > 0 {
			o.Pre = &pre
			o.Note = "after-discarded-refresh+" + o.Note
		}
	}
	return o
}

// validator-set profiles: unequal powers around the 2/3 line, incl. totals that wrap totalVP*2
func (g *c15Gen) newSet() []c15Entry {
	r, n := g.r, len(g.ce.Vals)
	top := n
	if top > 7 {
		top = 7
	}
	k := 3 + r.Intn(top-2)
	perm := make([]int, n)
	for i := range perm {
		perm[i] = i
	}
	for i := n - 1; i > 0; i-- {
		j := r.Intn(i + 1)
		perm[i], perm[j] = perm[j], perm[i]
	}
	var out []c15Entry
	for i := 0; i < k; i++ {
		var p int64
		switch g.profile {
		case 0:
			p = int64(1 + r.Intn(10))
		case 1: // totals where 2/3 and 0.667 differ
			p = []int64{333, 334, 666, 667, 1000, 1, 2, 999}[r.Intn(8)]
		case 2: // total tokens in (2^62, 2^63): totalVP*2 wraps
			p = 4700000000000/int64(k) + int64(r.Intn(1000000)) + int64(r.Intn(3))*600000000000/int64(k)
		case 3: // total tokens beyond int64
			p = 9300000000000/int64(k) + int64(r.Intn(1000))
		case 4:
			p = []int64{0, 1, 1, 2, 5}[r.Intn(5)]
		}
		out = append(out, c15Entry{Val: perm[i], Power: p})
	}
	if r.Chance(10) { // a repeated validator entry: the last one wins
		out = append(out, c15Entry{Val: out[0].Val, Power: out[0].Power + 1})
	}
	return out
}

// noteIgnored remembers the validators of an update that was ignored while the configured client id is empty
func (g *c15Gen) noteIgnored(o C15Op) {
	if !g.ce.HasInfo || g.ce.ClientID != "" || o.Client == "" || o.HHeight <= 0 || len(o.Entries) == 0 {
		return
	}
	keep := g.inSet
	keepH := g.setH
	g.applySet(o)
	g.foreign, g.foreignH = g.inSet, g.setH
	g.inSet, g.setH = keep, keepH
}

// replay re-submits the bytes of an earlier accepted update (by a current executor, in a new block);
// the model-side data of its votes are recomputed for the current chain id
func (g *c15Gen) replay(old C15Op) C15Op {
	ce := g.ce
	o := old
	o.Note = "replay"
	o.SenderID = 1
	if len(ce.Execs) > 0 {
		o.SenderID = ce.Execs[g.r.Intn(len(ce.Execs))]
	}
	o.Sender = ce.E.User(o.SenderID).Str
	o.Votes = append([]C15Vote{}, old.Votes...)
	for i := range o.Votes {
		ce.finish(&o.Votes[i], o.Height, o.Round)
	}
	return o
}

func (g *c15Gen) applySet(o C15Op) {
	g.acc = nil
	// the harness's expectation of what is stored after a successful replacement
	last := map[int]int64{}
	var order []int
	for _, en := range o.Entries {
		if _, ok := last[en.Val]; !ok {
			order = append(order, en.Val)
		}
		last[en.Val] = en.Power
	}
	g.inSet = nil
	for _, v := range order {
		g.inSet = append(g.inSet, c15Entry{Val: v, Power: last[v]})
	}
	g.setH = o.HHeight
}

// c15LargeSets: scripted, monitor-only cases (no model evaluation: the recorded set has more than 100
// validators) judged by the quorum monitors: commits signed by 2/3 of the FIRST 100 recorded validators
// but < 2/3 of all (must be refused), by the 0.667 boundary of all (must be accepted), and only by
// validators beyond position 100
func c15LargeSets(seed uint64, rep *Report) {
	type cfg struct {
		n      int
		skewed bool
	}
	for ci, c := range []cfg{{101, false}, {150, false}, {257, true}} {
		r := NewRng(seed*31337 + uint64(ci))
		ce := newC15Env(seed*77003+uint64(ci), 1000+ci, c.n)
		g := &c15Gen{ce: ce, r: r, tsNext: 1000000000000000000, blk: 10, price: []int64{0, 6500000, 320000, 900, 5}, wantClient: "07-tendermint-0"}
		do := func(o C15Op) bool {
			o.Blk = g.blk
			g.blk++
			return ce.Do(o, rep)
		}
		do(C15Op{Kind: "execs", Execs: []uint64{1, 2}})
		do(C15Op{Kind: "info", Oracle: true, Chain: "l1chain", Client: "07-tendermint-0", ClientID: 1})
		for _, p := range []int{0, 1, 2} {
			do(C15Op{Kind: "mkpair", Pair: p})
		}
		set := C15Op{Kind: "hostset", Client: "07-tendermint-0", ClientID: 1, HHeight: 7}
		total := int64(0)
		for i := 0; i < c.n; i++ { // ce.Vals is sorted by address = the store's iteration order
			p := int64(10)
			if c.skewed {
				p = 1
				if i >= 100 {
					p = 3
				}
			}
			total += p
			set.Entries = append(set.Entries, c15Entry{Val: i, Power: p})
		}
		do(set)
		g.applySet(set)
		update := func(note string, vals []int) {
			ts := g.tsNext
			g.tsNext += 5000
			g.jitter = 0
			o := C15Op{Kind: "oracle", SenderID: 1, Sender: ce.E.User(1).Str, Height: 7, Round: 1, Note: "large-set:" + note}
			eci := cometabci.ExtendedCommitInfo{Round: o.Round}
			for _, vi := range vals {
				u := ce.Vals[vi]
				ext := ce.encodeExt(g.priceMap(ts, 0))
				v := C15Vote{Addr: u.Addr, Flag: int32(cmtproto.BlockIDFlagCommit), Ext: ext, Sig: ce.sign(u, ce.Chain, 6, int64(o.Round), ext), Decl: 1, DeclSet: true}
				ce.finish(&v, o.Height, o.Round)
				o.Votes = append(o.Votes, v)
				eci.Votes = append(eci.Votes, cometabci.ExtendedVoteInfo{Validator: cometabci.Validator{Address: v.Addr, Power: 1},
					VoteExtension: v.Ext, ExtensionSignature: v.Sig, BlockIdFlag: cmtproto.BlockIDFlagCommit})
			}
			bz, err := ce.EcCodec.Encode(eci)
			if err != nil {
				panic(err)
			}
			o.Data, o.CommitOK = bz, true
			do(o)
		}
		// (a) two thirds (67) of the first 100 recorded validators: below two thirds of all
		var a []int
		for i := 0; i < 67; i++ {
			a = append(a, i)
		}
		update("two-thirds-of-first-100", a)
		// (b) only validators beyond position 100
		var b []int
		for i := 100; i < c.n; i++ {
			b = append(b, i)
		}
		update("beyond-100-only", b)
		// (c) the smallest set from the end reaching 0.667 of all: must be accepted
		var cc []int
		w := int64(0)
		for i := c.n - 1; i >= 0 && w*1000 < 667*total; i-- {
			cc = append(cc, i)
			w += set.Entries[i].Power
		}
		update("boundary-of-all", cc)
		// (d) everybody
		var d []int
		for i := 0; i < c.n; i++ {
			d = append(d, i)
		}
		update("all", d)
		rep.Ops += len(ce.Ops)
		rep.Cases++
	}
	rep.Notes = append(rep.Notes, "3 scripted monitor-only cases with recorded sets of 101, 150 (equal power) and 257 (skewed) validators")
}

var c15SigCount = map[string]int{}

func init() { register("C15", genC15) }

func genC15(seed uint64, tier string, outdir string) *Report {
	rep := NewReport("C15", seed, tier)
	c15SigCount = map[string]int{}
	rep.Rule = "a case is one history of oracle updates, validator-set refreshes, executor / bridge-info changes on a fresh chain; distinct by hash of the op list; non-trivial = at least one oracle update accepted and at least one rejected"
	nCases, nOps := 72, 22
	if tier == "thorough" {
		nCases, nOps = 600, 30
	}
	var texts []string
	for k := 0; k < nCases; k++ {
		r := NewRng(seed*7919 + uint64(k))
		nVals := 4 + r.Intn(6) // 4..9 validators in the universe; a stored set has 3..7 of them
		ce := newC15Env(seed*100003+uint64(k), k+1, nVals)
		g := &c15Gen{ce: ce, r: r, profile: r.Weighted([]int{35, 25, 25, 5, 10}), tsNext: 1000000000000000000, blk: 10,
			price: []int64{0, 6500000, 320000, 900, 5}}
		if r.Chance(15) { // the whole case plays in the year 2200
			g.tsNext = c15Year2200 + int64(r.Intn(1000000))
		}
		do := func(o C15Op) bool {
			o.Blk = g.blk
			g.blk++
			return ce.Do(o, rep)
		}
		// setup (part of the recorded history)
		do(C15Op{Kind: "execs", Execs: []uint64{1, 2}})
		g.wantClient = "07-tendermint-0"
		if r.Chance(20) { // bridge info registered without an L1 client id
			g.wantClient = ""
		}
		do(C15Op{Kind: "info", Oracle: true, Chain: "l1chain", Client: g.wantClient, ClientID: c15StrID(g.wantClient)})
		for _, p := range []int{0, 1, 2} {
			do(C15Op{Kind: "mkpair", Pair: p})
		}
		if r.Chance(15) { // an update before any validator set is recorded
			do(g.oracleOp())
		}
		first := C15Op{Kind: "hostset", Client: "07-tendermint-0", ClientID: 1, HHeight: int64(5 + r.Intn(20)), Entries: g.newSet()}
		if do(first); ce.LastEffective {
			g.applySet(first)
		} else {
			g.noteIgnored(first)
		}
		for i := 0; i < nOps; i++ {
			// disruptions of the environment (oracle off, no bridge info, no executors) are undone after two operations
			if !ce.HasInfo || !ce.OracleOn || len(ce.Execs) == 0 {
				g.disrupt++
				if g.disrupt > 2 {
					g.disrupt = 0
					if len(ce.Execs) == 0 {
						do(C15Op{Kind: "execs", Execs: []uint64{1, 2}})
					}
					if !ce.HasInfo || !ce.OracleOn {
						do(C15Op{Kind: "info", Oracle: true, Chain: "l1chain", Client: g.wantClient, ClientID: c15StrID(g.wantClient)})
					}
				}
			}
			// a bridge info without client id is completed later (as SetBridgeInfo allows), then the set is refreshed legitimately
			if ce.HasInfo && ce.ClientID == "" && g.wantClient == "" && r.Chance(12) {
				g.wantClient = "07-tendermint-0"
				do(C15Op{Kind: "info", Oracle: true, Chain: ce.Chain, Client: g.wantClient, ClientID: 1})
				hh := g.setH
				if g.foreignH > hh {
					hh = g.foreignH
				}
				o := C15Op{Kind: "hostset", Client: g.wantClient, ClientID: 1, HHeight: hh + int64(1+r.Intn(3)), Entries: g.newSet()}
				if do(o); ce.LastEffective {
					g.applySet(o)
					g.retired, g.attack = nil, 0
				}
			}
			switch r.Weighted([]int{66, 13, 5, 6, 3, 5, 2}) {
			case 5:
				// the oracle module removes and re-creates a pair (the reserved timestamp pair or an ordinary
				// one): only THAT pair's quote goes away.  Then an earlier accepted commit is replayed.
				var live []int
				for p := 0; p < 4; p++ {
					if ce.Created[p] {
						live = append(live, p)
					}
				}
				if len(live) == 0 {
					break
				}
				p := live[r.Intn(len(live))]
				if ce.Created[0] && r.Chance(55) {
					p = 0
				}
				do(C15Op{Kind: "rmpair", Pair: p})
				if r.Chance(15) && len(g.acc) > 0 { // while the pair is gone
					if do(g.replay(g.acc[r.Intn(len(g.acc))])) {
						g.accepted++
					} else {
						g.rejected++
					}
				}
				do(C15Op{Kind: "mkpair", Pair: p})
				if len(g.acc) > 0 && r.Chance(75) {
					k := r.Intn(len(g.acc))
					if len(g.acc) > 1 && r.Chance(70) {
						k = r.Intn(len(g.acc) - 1) // not the latest: a rollback
					}
					if do(g.replay(g.acc[k])) {
						g.accepted++
					} else {
						g.rejected++
					}
				}
			case 6:
				if len(g.acc) > 0 { // plain replay of an earlier accepted commit
					if do(g.replay(g.acc[r.Intn(len(g.acc))])) {
						g.accepted++
					} else {
						g.rejected++
					}
				}
			case 0:
				o := g.oracleOp()
				before := ce.readState()
				if do(o) {
					g.accepted++
					if o.CommitOK && len(o.Votes) > 0 {
						g.acc = append(g.acc, o)
					}
					after := ce.readState()
					if after.Quotes[0].Has && (!before.Quotes[0].Has || after.Quotes[0].TS != before.Quotes[0].TS) {
						g.lastTS = after.Quotes[0].TS
					}
					for i := 1; i < len(g.price); i++ {
						g.price[i] += int64(r.Intn(100)) - 40
					}
				} else {
					g.rejected++
				}
			case 1:
				o := C15Op{Kind: "hostset", Client: "07-tendermint-0", ClientID: 1, Entries: g.newSet()}
				var retiring []c15Entry
				if r.Chance(35) {
					if set, ret, ok := g.rotate(); ok {
						o.Entries, retiring = set, ret
						o.Client, o.ClientID = ce.ClientID, c15StrID(ce.ClientID)
					}
				}
				hsel := r.Weighted([]int{55, 10, 10, 10, 8, 7})
				if retiring != nil {
					hsel = 0
				}
				switch hsel {
				case 0:
					o.HHeight = g.setH + int64(1+r.Intn(5))
				case 1:
					o.HHeight = g.setH
				case 2:
					o.HHeight = g.setH - int64(1+r.Intn(3))
				case 3:
					o.HHeight = g.setH + int64(1+r.Intn(5))
					o.Client, o.ClientID = "07-tendermint-9", 2
				case 4:
					o.HHeight = g.setH + int64(1+r.Intn(5))
					o.Client, o.ClientID = "", 0
				case 5:
					o.HHeight = []int64{0, -3}[r.Intn(2)]
				}
				if do(o); ce.LastEffective {
					g.applySet(o)
					g.retired = retiring
					if retiring != nil {
						g.attack = 1 + r.Intn(2)
					} else {
						g.attack = 0
					}
				} else {
					g.noteIgnored(o)
				}
			case 2:
				var ex []uint64
				for _, u := range []uint64{1, 2, 3} {
					if r.Chance(60) {
						ex = append(ex, u)
					}
				}
				do(C15Op{Kind: "execs", Execs: ex})
			case 3:
				switch r.Weighted([]int{40, 35, 10, 10, 5}) {
				case 0:
					do(C15Op{Kind: "info", Oracle: false, Chain: ce.Chain, Client: g.wantClient, ClientID: c15StrID(g.wantClient)})
				case 1:
					do(C15Op{Kind: "info", Oracle: true, Chain: "l1chain", Client: g.wantClient, ClientID: c15StrID(g.wantClient)})
				case 2:
					if r.Chance(25) { // the client id is (still / again) empty: every client's update must be ignored
						g.wantClient = ""
					}
					do(C15Op{Kind: "info", Oracle: true, Chain: "otherchain", Client: g.wantClient, ClientID: c15StrID(g.wantClient)})
				case 3:
					do(C15Op{Kind: "info", Oracle: true, Chain: "l1chain", Client: "07-tendermint-9", ClientID: 2})
				case 4:
					do(C15Op{Kind: "info", InfoNone: true})
				}
			case 4:
				if !ce.Created[3] {
					do(C15Op{Kind: "mkpair", Pair: 3})
				}
			}
		}
		var ops, obs []string
		for _, o := range ce.Ops {
			ops = append(ops, "("+o.Coq()+")")
		}
		for _, o := range ce.Obs {
			obs = append(obs, o.Coq())
		}
		text := fmt.Sprintf("(%d%%N,\n {| oc_nvals := %s; oc_npairs := %s;\n    oc_ops := [\n      %s] |},\n [\n  %s])",
			ce.ID, coqU(uint64(nVals)), coqU(uint64(len(c15PairNames))), strings.Join(ops, ";\n      "), strings.Join(obs, ";\n  "))
		texts = append(texts, text)
		rep.Ops += len(ce.Ops)
		rep.CountCase(strings.Join(ops, "\n"), g.accepted > 0 && g.rejected > 0)
		rep.Hist(fmt.Sprintf("profile:%d", g.profile))
		if k == 0 {
			rep.Sample(map[string]interface{}{"kind": "history (first 9 ops)", "ops": ce.history(8)})
		}
	}
	c15LargeSets(seed, rep)
	rep.Notes = append(rep.Notes, "power profiles: 0 small, 1 around 2/3 vs 0.667, 2 total tokens in (2^62,2^63) (totalVP*2 wraps), 3 total tokens beyond int64, 4 tiny incl. zero power")
	writeShards(outdir, "C15", c15CaseHeader, "run_ocase", "ocase", texts, 8, rep)
	return rep
}

const c15CaseHeader = `Require Import Model.Bytes Model.Obs Model.Oracle Model.TraceOracle.
From Coq Require Import List NArith ZArith String.
Import ListNotations.
Local Open Scope string_scope.
`
