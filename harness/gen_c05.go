package main

import (
	"fmt"
	"math"
	"math/big"
	"sort"
	"strings"
)

// C05: the challenge window is honoured and finality is irreversible.
// Stream (a): controlled time lines.  Non-positive periods {0, -1 ns, -1 h, MinInt64} are
// offered at creation (must be rejected), then a bridge with a period from
// {1 ns, 999 999 999 ns, 1 s, 2.5 s, 7 d, 2^62 ns} is created and funded; outputs are proposed
// at instants with a non-zero sub-second part, and the block time then visits - in order -
// the instants exactly on, 1 ns and 1 s around both boundaries (proposal time + period, and
// the first unix second in which the comparison of the code turns true); at each instant
// claims (fresh, repeated, against deleted or neighbouring indices), deletes by every kind of
// signer, further proposals, role / metadata / batch updates are interleaved.  After a
// successful delete the index is attacked with claims, then re-proposed, which restarts the
// clock.  Stream (b): the generic random L1 histories.  Both are re-executed by the Coq model
// and judged by the model-free time-line monitor and the log monitor (mon_l1out.go).

func init() { register("C05", genC05) }

var c05Periods = []int64{1, 999999999, sec, 2*sec + 500000000, 7 * 24 * 3600 * sec, 1 << 62}
var c05BadPeriods = []int64{0, -1, -3600 * sec, math.MinInt64}

func floorSec(x int64) int64 { // floor(x / 1e9) * 1e9 for x >= 0 (all instants here are after 1970)
	return x - x%sec
}

type c05Focus struct {
	b, idx uint64
	t      int64
	tree   *ProposedTree
	used   map[int]bool
}

// speculate pre-executes, on ONE state branch that is thrown away, a prefix that allocates the
// bridge ids the committed history is about to allocate - with OTHER configs (period, proposer,
// challenger) - and evaluates finality on them (claim, deletes, further proposals).  Nothing of it
// may survive: the committed bridges must behave according to their own configs.  (sc.Discarded
// records the group, so the observing pass and the shrinker repeat it.)
func speculate(sc *L1Scenario, periods ...int64) {
	e := sc.Env
	nb, _ := e.K.GetNextBridgeId(e.Ctx)
	creator := e.User(6).Str
	var g []L1Op
	for k, p := range periods {
		cfg := sc.NewConfig(uint64(5+k%2), uint64(6-k%2), p)
		g = append(g, sc.Create(creator, cfg))
	}
	for k := range periods {
		b := nb + uint64(k)
		prop, chal := e.User(uint64(5+k%2)).Str, e.User(uint64(6-k%2)).Str
		pt := sc.MakeTree(b, 2)
		pt.Idx = 1
		g = append(g, L1Op{Kind: "deposit", Sender: e.User(4).Str, Bridge: b, To: "l2user", Denom: pt.Tree.Ws[0].Denom, Amt: big.NewInt(500)},
			L1Op{Kind: "propose", Sender: prop, Bridge: b, Idx: 1, L2: 3, Root: pt.Root},
			sc.Claim(pt, 0, e.User(4).Str),
			L1Op{Kind: "propose", Sender: prop, Bridge: b, Idx: 2, L2: 4, Root: pt.Root},
			L1Op{Kind: "delete", Sender: chal, Bridge: b, Idx: 2},
			L1Op{Kind: "delete", Sender: e.Auth, Bridge: b, Idx: 1},
			L1Op{Kind: "uproposer", Sender: e.Auth, Bridge: b, NewAddr: chal})
	}
	sc.reg(creator, e.Auth, e.User(4).Str, e.User(5).Str, e.User(6).Str)
	sc.Discarded(g...)
}

// a speculative period that differs from the committed one, shorter where possible
func otherPeriod(p int64) int64 {
	switch {
	case p > sec:
		if p > 3600*sec {
			return sec
		}
		return 1
	case p > 1:
		return 1
	}
	return 3600 * sec
}

func c05Timeline(period int64) L1Builder {
	return func(sc *L1Scenario) {
		e, r, c := sc.Env, sc.R, sc.Case
		creator := e.User(7).Str
		// non-positive periods offered at creation
		for _, bp := range c05BadPeriods {
			if r.Chance(60) {
				c.Do(sc.Create(creator, sc.NewConfig(1, 2, bp)))
			}
		}
		other := c05Periods[r.Intn(4)]
		if r.Chance(75) { // the ids 1 and 2 are first allocated, with other configs, on a discarded branch
			speculate(sc, otherPeriod(period), otherPeriod(other))
		}
		c.Do(sc.Create(creator, sc.NewConfig(1, 2, period)))
		c.Do(sc.Create(creator, sc.NewConfig(3, 4, other)))
		if r.Chance(50) {
			c.Do(sc.Create(creator, sc.NewConfig(1, 2, c05BadPeriods[r.Intn(len(c05BadPeriods))])))
		}
		for b := uint64(1); b <= 2; b++ {
			for _, d := range sc.Denoms {
				c.Do(sc.op(L1Op{Kind: "deposit", Sender: e.User(5 + b - 1).Str, Bridge: b, To: "l2user", Denom: d, Amt: big.NewInt(3000)}))
			}
		}
		sc.reg(e.Auth)
		var old []*c05Focus
		propose := func(b uint64, reuse *ProposedTree) *c05Focus {
			prop, _, _, _ := sc.Config(b)
			next, _ := e.K.GetNextOutputIndex(e.Ctx, b)
			last := uint64(0)
			if next > 1 {
				if o, err := e.K.GetOutputProposal(e.Ctx, b, next-1); err == nil {
					last = o.L2BlockNumber
				}
			}
			pt := reuse
			if pt == nil {
				pt = sc.MakeTree(b, 3+r.Intn(4))
			}
			pt.Idx = next
			sc.reg(prop)
			l2 := last + 1 + uint64(r.Intn(3))
			if next == 1 && r.Chance(35) {
				l2 = 0 // legal for the first output only
			}
			if next > 1 && r.Chance(12) { // an equal L2 block number (0 included) must be refused
				c.Do(sc.op(L1Op{Kind: "propose", Sender: prop, Bridge: b, Idx: next, L2: last, Root: pt.Root}))
			}
			res := c.Do(sc.op(L1Op{Kind: "propose", Sender: prop, Bridge: b, Idx: next, L2: l2, Root: pt.Root}))
			if !res.OK {
				return nil
			}
			if r.Chance(15) { // the same message once more, byte for byte: must be refused without effect
				resubmitExact(sc, len(c.Ops)-1)
			}
			return &c05Focus{b: b, idx: next, t: sc.Now, tree: pt, used: map[int]bool{}}
		}
		claim := func(f *c05Focus, fresh bool) {
			i := r.Intn(len(f.tree.Tree.Ws))
			if fresh {
				for j := range f.tree.Tree.Ws {
					if !f.used[j] {
						i = j
						break
					}
				}
			}
			op := sc.Claim(f.tree, i, e.User(uint64(1+r.Intn(7))).Str)
			op.Bridge, op.Idx = f.b, f.idx
			switch r.Intn(12) {
			case 0:
				op.Idx = f.idx + 1
			case 1:
				if f.idx > 1 {
					op.Idx = f.idx - 1
				}
			}
			if res := c.Do(op); res.OK {
				f.used[i] = true
			}
		}
		signerFor := func(b uint64) string {
			prop, chal, _, _ := sc.Config(b)
			s := []string{chal, prop, e.Auth, e.User(6).Str}[r.Weighted([]int{45, 20, 20, 15})]
			sc.reg(s)
			return s
		}
		rounds := 2 + r.Intn(2)
		var reuse *ProposedTree
		for round := 0; round < rounds; round++ {
			b := uint64(1)
			p := period
			if r.Chance(15) {
				b, p = 2, other
			}
			// a proposal time with a sub-second part
			fr := []int64{0, 1, 500000000, 999999999, 123456789}[r.Intn(5)]
			sc.Advance(sec - sc.Now%sec + fr)
			if p > math.MaxInt64-sc.Now-10*sec {
				break
			}
			f := propose(b, reuse)
			reuse = nil
			if f == nil {
				continue
			}
			B := f.t + p
			S := floorSec(B)
			set := map[int64]bool{}
			for _, x := range []int64{f.t, f.t + 1, S - sec, S - 1, S, S + 1, S + sec, B - sec, B - 1, B, B + 1, B + sec} {
				if x >= sc.Now {
					set[x] = true
				}
			}
			var instants []int64
			for x := range set {
				instants = append(instants, x)
			}
			sort.Slice(instants, func(i, j int) bool { return instants[i] < instants[j] })
			deleted := false
			for _, inst := range instants {
				if inst != f.t && r.Chance(20) {
					continue
				}
				if inst > sc.Now {
					sc.Now = inst
					sc.Height++
				}
				nops := 1 + r.Intn(3)
				for k := 0; k < nops; k++ {
					switch r.Weighted([]int{34, 8, 14, 6, 10, 8, 6, 6, 8}) {
					case 0:
						claim(f, true)
					case 1:
						claim(f, false)
					case 2: // delete the focus index
						if deleted && !r.Chance(30) {
							claim(f, true)
							break
						}
						if res := c.Do(sc.op(L1Op{Kind: "delete", Sender: signerFor(f.b), Bridge: f.b, Idx: f.idx})); res.OK {
							deleted = true
						}
					case 3: // delete from an earlier (possibly final) index
						idx := uint64(1)
						if f.idx > 1 {
							idx = 1 + uint64(r.Intn(int(f.idx)))
						}
						if res := c.Do(sc.op(L1Op{Kind: "delete", Sender: signerFor(f.b), Bridge: f.b, Idx: idx})); res.OK && idx <= f.idx {
							deleted = true
						}
					case 4: // one more output on top (a non-final suffix above the focus)
						if !deleted {
							if g := propose(f.b, nil); g != nil {
								old = append(old, g)
							}
						}
					case 5: // claims against earlier outputs (final, deleted or replaced)
						if len(old) > 0 {
							claim(old[r.Intn(len(old))], r.Bool())
						}
					case 6:
						na := e.User(uint64(1 + r.Intn(7))).Str
						kind := []string{"uproposer", "uchallenger"}[r.Intn(2)]
						prop, chal, _, _ := sc.Config(f.b)
						signer := []string{e.Auth, prop, chal}[r.Intn(3)]
						sc.reg(na, signer)
						c.Do(sc.op(L1Op{Kind: kind, Sender: signer, Bridge: f.b, NewAddr: na}))
					case 7:
						prop, _, _, _ := sc.Config(f.b)
						signer := []string{e.Auth, prop}[r.Intn(2)]
						sc.reg(signer)
						if r.Bool() {
							c.Do(sc.op(L1Op{Kind: "umeta", Sender: signer, Bridge: f.b, Meta: r.Bytes(r.Intn(6))}))
						} else {
							c.Do(sc.op(L1Op{Kind: "ubatch", Sender: signer, Bridge: f.b, Submitter: e.User(uint64(1 + r.Intn(7))).Str, Chain: uint64(1 + r.Intn(2))}))
						}
					case 8: // the other bridge is alive too
						ob := 3 - f.b
						if r.Bool() {
							if g := propose(ob, nil); g != nil {
								old = append(old, g)
							}
						} else {
							c.Do(sc.op(L1Op{Kind: "delete", Sender: signerFor(ob), Bridge: ob, Idx: uint64(1 + r.Intn(2))}))
						}
					}
				}
			}
			old = append(old, f)
			if deleted && r.Chance(60) {
				reuse = f.tree // the same root again: its clock must restart
			}
		}
	}
}

func genC05(seed uint64, tier, outdir string) *Report {
	rep := NewReport("C05", seed, tier)
	rep.Rule = "a case is one L1 history on a fresh instance (a controlled time line around the finalization boundaries, or a random history); distinct by hash of the op list; non-trivial = at least one claim accepted and one rejected, and at least one delete accepted and one rejected (time lines); at least one propose and one finalize accepted and one of each rejected (random)"
	nT, nR, length := 48, 16, 60
	if tier == "thorough" {
		nT, nR, length = 1200, 300, 120
	}
	mons := []L1Monitor{timelineMonitor("C05"), logMonitor("C05")}
	var texts []string
	tt := newTermTable()
	for k := 0; k < nT; k++ {
		period := c05Periods[k%len(c05Periods)]
		c := runL1TwicePrep(seed*100000+50000+uint64(k), k+1, nil, c05Timeline(period), rep)
		okK, errK := map[string]bool{}, map[string]bool{}
		for i, o := range c.Ops {
			kind := o.Kind
			if kind == "create" && o.Config.Period <= 0 {
				kind = "create(period<=0)"
			}
			if c.Results[i].OK {
				rep.Hist("t:" + kind + ":OK")
				okK[o.Kind] = true
			} else {
				rep.Hist("t:" + kind + ":ERR")
				errK[o.Kind] = true
			}
		}
		rep.Hist(fmt.Sprintf("t:period=%d", period))
		runL1Monitors(rep, c, seed*100000+50000+uint64(k), mons) // monitors + minimisation of a failing history
		rep.Ops += len(c.Ops)
		rep.CountCase(strings.Join(l1OpsHuman(c.Ops), "\n"), okK["finalize"] && errK["finalize"] && okK["delete"] && errK["delete"])
		if k == 2 {
			m := len(c.Ops)
			if m > 24 {
				m = 24
			}
			rep.Sample(map[string]interface{}{"kind": "time line, period 1 s (first ops)", "ops": l1OpsHuman(c.Ops[:m])})
		}
		texts = append(texts, l1CaseText(c, tt))
	}
	w := DefaultL1Weights
	w.Propose, w.Claim, w.Delete, w.AdvanceChance = 20, 30, 8, 55
	texts = append(texts, runRandomL1(rep, tt, seed+4242, nT+1, nR, length, w, twoBridgeSetup(sec, 2*sec+500000000), mons, []string{"propose", "finalize"})...)
	c05Admission(rep, seed, len(texts)+100)
	// one long log per run: more than 100 pending outputs above the deleted index
	fill, dels := 104, []int{[]int{101, 102, 103}[seed%3]}
	if tier == "thorough" {
		fill, dels = 260, []int{129, 257}
	}
	long := l1CaseText(longLogCase(rep, "C05", seed+57, len(texts)+1, fill, dels, mons), tt)
	nf := writeShardsTerms(outdir, "C05", l1CaseHeader, "run_l1case", "l1case", texts, 15, rep, tt, 0)
	writeShardsTerms(outdir, "C05", l1CaseHeader, "run_l1case", "l1case", []string{long}, 1, rep, tt, nf) // its own file: it is the longest single evaluation
	return rep
}
