package main

import (
	"bytes"
	"fmt"
	"math/big"
	"strings"

	sdk "github.com/cosmos/cosmos-sdk/types"

	ophosttypes "github.com/initia-labs/OPinit/x/ophost/types"
)

// C16: exporting and re-importing genesis preserves all bridge state and behaviour.
//
// Stream C16 (L1 half): a state of the real ophost keeper is reached by a random history of all
// message kinds (generic generator l1gen.go, weights shifted towards several bridges, deleted
// outputs, several batch-info generations, finalized claims).  Then, on the real code:
//   ExportGenesis -> canonical JSON through the module codec -> ValidateGenesis ->
//   unmarshal -> InitGenesis into FRESH stores (auth/bank state copied through their own
//   genesis) -> ExportGenesis again: the two JSON documents must be byte-identical;
//   an identical probe sequence of messages is then executed on the original and on the
//   re-imported instance and every observation (L1Obs: results, counters, configs, outputs,
//   last finalized output, token pairs, batch infos, claim flags, balances, events, params)
//   must agree.
// Model tie: the case file carries the history and the real export projected to an [ov] tree;
// Model/TraceGen.v replays the history on the model, applies the Gallina [export] and must
// print the same tree, [validate] must hold, and [import] of it must export the same tree.

func init() { register("C16", genC16) }

func outOv(o ophosttypes.Output) Ov {
	var t int64
	if !o.L1BlockTime.IsZero() {
		t = o.L1BlockTime.UnixNano()
	}
	return ol(OB{o.OutputRoot}, onU(o.L1BlockNumber), ozI(t), onU(o.L2BlockNumber))
}

// genesis1Ov projects a real ophost GenesisState exactly as Model/TraceGen.v genesis1_ov does.
func genesis1Ov(gs *ophosttypes.GenesisState) Ov {
	var fee, brs []Ov
	for _, c := range gs.Params.RegistrationFee {
		fee = append(fee, ol(OB{[]byte(c.Denom)}, ozB(c.Amount.BigInt())))
	}
	for _, b := range gs.Bridges {
		cfg := b.BridgeConfig
		cfgOv := ol(OB{[]byte(cfg.Proposer)}, OB{[]byte(cfg.Challenger)}, ozI(int64(cfg.FinalizationPeriod)), ozI(int64(cfg.SubmissionInterval)),
			onU(cfg.SubmissionStartHeight), OB{[]byte(cfg.BatchInfo.Submitter)}, onU(uint64(cfg.BatchInfo.ChainType)), obool(cfg.OracleEnabled), OB{cfg.Metadata})
		var prs, pws, outs, bts []Ov
		for _, p := range b.TokenPairs {
			prs = append(prs, ol(OB{[]byte(p.L2Denom)}, OB{[]byte(p.L1Denom)}))
		}
		for _, h := range b.ProvenWithdrawals {
			pws = append(pws, OB{h})
		}
		for _, p := range b.Proposals {
			outs = append(outs, ol(onU(p.OutputIndex), outOv(p.OutputProposal)))
		}
		for _, x := range b.BatchInfos {
			bts = append(bts, ol(OB{[]byte(x.BatchInfo.Submitter)}, onU(uint64(x.BatchInfo.ChainType)), outOv(x.Output)))
		}
		brs = append(brs, ol(onU(b.BridgeId), onU(b.NextL1Sequence), onU(b.NextOutputIndex), cfgOv, OL{prs}, OL{pws}, OL{outs}, OL{bts}))
	}
	return ol(OL{fee}, OL{brs}, onU(gs.NextBridgeId))
}

// copyL1Foreign copies the state that belongs to other modules (x/auth accounts, x/bank
// balances and supply) through those modules' own genesis.
func copyL1Foreign(from, to *L1Env) {
	to.AK.InitGenesis(to.Ctx, *from.AK.ExportGenesis(from.Ctx))
	to.BK.InitGenesis(to.Ctx, from.BK.ExportGenesis(from.Ctx))
}

type c16L1Result struct {
	Case       *L1Case
	Export     Ov
	NonTrivial bool
}

func c16Weights() L1Weights {
	w := DefaultL1Weights
	w.Create, w.Deposit, w.Propose, w.Delete, w.Claim, w.Role, w.Meta, w.Batch, w.Oracle, w.Params, w.Send, w.Record = 4, 18, 20, 9, 20, 5, 3, 8, 2, 3, 4, 1
	return w
}

// c16Prefix: two or three bridges, each with funded escrow, one proposed output that is final
// and one or more paid withdrawals, so that the exported state regularly has several bridges
// with claim records (per-bridge selection / aliasing mistakes in export need that).
func (sc *L1Scenario) c16Prefix() {
	e, c := sc.Env, sc.Case
	nb := 2 + sc.R.Intn(2)
	for i := 0; i < nb; i++ {
		c.Do(sc.Create(e.User(7).Str, sc.NewConfig(uint64(1+i), uint64(2+i), sec)))
	}
	var pts []*ProposedTree
	for b := uint64(1); b <= uint64(nb); b++ {
		for _, d := range sc.Denoms {
			sender := e.User(uint64(1 + sc.R.Intn(6))).Str
			sc.reg(sender)
			c.Do(sc.op(L1Op{Kind: "deposit", Sender: sender, Bridge: b, To: "l2recipient", Denom: d, Amt: big.NewInt(500)}))
		}
		pt := sc.MakeTree(b, 2+sc.R.Intn(3))
		pt.Idx = 1
		prop, _, _, _ := sc.Config(b)
		sc.reg(prop)
		if c.Do(sc.op(L1Op{Kind: "propose", Sender: prop, Bridge: b, Idx: 1, L2: 5, Root: pt.Root})).OK {
			sc.Trees = append(sc.Trees, pt)
			pts = append(pts, pt)
		}
	}
	sc.Advance(3 * sec)
	for _, pt := range pts {
		n := 1 + sc.R.Intn(len(pt.Tree.Ws))
		for i := 0; i < n; i++ {
			c.Do(sc.Claim(pt, i, e.User(3).Str))
		}
	}
}

// runC16L1 builds one case; returns nil export when the round trip could not even be started.
func runC16L1(seed uint64, id int, histLen, probeLen int, prefix func(sc *L1Scenario), rep *Report) *c16L1Result {
	// pass 1: generate history + probes on a live instance
	sc := NewL1Scenario(seed, id, nil)
	sc.wts = c16Weights()
	if prefix != nil {
		prefix(sc)
	}
	for i := 0; i < histLen; i++ {
		sc.RandomStep()
	}
	nHist := len(sc.Case.Ops)
	for i := 0; i < probeLen; i++ {
		sc.RandomStep()
	}
	all := sc.Case.Ops
	// pass 2: replay the history on a fresh instance with the final tracked sets
	sc2 := NewL1Scenario(seed, id, nil)
	sc2.Case.Track = sc.Case.Track
	sc2.Env.Table = sc.Env.Table
	sc2.Case.Parse = sc.Case.Parse
	for i := 0; i < nHist; i++ {
		r := sc2.Case.DoObs(all[i])
		if r.OK != sc.Case.Results[i].OK {
			rep.Violate(Violation{Case: id, Step: i, What: "the same history gave different verdicts on two fresh instances", Sig: "nondeterministic-verdict", Ops: l1OpsHuman(all[:i+1])})
		}
		kind := all[i].Kind
		if r.OK {
			rep.Hist(kind + ":OK")
		} else {
			rep.Hist(kind + ":ERR")
		}
	}
	e := sc2.Env
	hist := l1OpsHuman(all[:nHist])
	viol := func(step int, sig, what string, detail interface{}) {
		rep.Violate(Violation{Case: id, Step: step, What: what, Sig: sig, Ops: hist, Detail: detail})
	}
	// export on the real keeper, canonical JSON through the module's codec
	gs := e.K.ExportGenesis(e.Ctx)
	json1, err := e.Enc.Marshaler.MarshalJSON(gs)
	if err != nil {
		viol(nHist, "C16:l1-export-marshal", "exported genesis does not marshal: "+err.Error(), nil)
		return &c16L1Result{Case: sc2.Case, Export: genesis1Ov(gs)}
	}
	res := &c16L1Result{Case: sc2.Case, Export: genesis1Ov(gs)}
	nb := 0
	for _, b := range gs.Bridges {
		nb++
		rep.Hist(fmt.Sprintf("l1-state:outputs=%d", bucket(len(b.Proposals))))
		rep.Hist(fmt.Sprintf("l1-state:claims=%d", bucket(len(b.ProvenWithdrawals))))
		rep.Hist(fmt.Sprintf("l1-state:batchinfos=%d", bucket(len(b.BatchInfos))))
		if len(b.Proposals) > 0 || len(b.ProvenWithdrawals) > 0 || len(b.TokenPairs) > 0 {
			res.NonTrivial = true
		}
		if b.NextOutputIndex > uint64(len(b.Proposals))+1 {
			rep.Hist("l1-state:never-happens-index-ahead")
		}
	}
	rep.Hist(fmt.Sprintf("l1-state:bridges=%d", nb))
	withClaims := 0
	for _, b := range gs.Bridges {
		if len(b.ProvenWithdrawals) > 0 {
			withClaims++
		}
	}
	rep.Hist(fmt.Sprintf("l1-state:bridges-with-claims=%d", withClaims))
	if err := ophosttypes.ValidateGenesis(gs, e.AK.AddressCodec()); err != nil {
		viol(nHist, "C16:l1-validate", "ValidateGenesis rejects the exported genesis of a reached state: "+err.Error(), string(json1))
		return res
	}
	var gs2 ophosttypes.GenesisState
	if err := e.Enc.Marshaler.UnmarshalJSON(json1, &gs2); err != nil {
		viol(nHist, "C16:l1-unmarshal", "exported genesis JSON does not unmarshal: "+err.Error(), string(json1))
		return res
	}
	// fresh stores
	e3 := NewL1Env(seed, 7, nil)
	e3.Table = e.Table
	copyL1Foreign(e, e3)
	panicked := func() (p interface{}) {
		defer func() { p = recover() }()
		e3.K.InitGenesis(e3.Ctx, &gs2)
		return nil
	}()
	if panicked != nil {
		viol(nHist, "C16:l1-init-panics", fmt.Sprintf("InitGenesis panics on the exported genesis: %v", panicked), string(json1))
		return res
	}
	json2, err := e3.Enc.Marshaler.MarshalJSON(e3.K.ExportGenesis(e3.Ctx))
	if err != nil || !bytes.Equal(json1, json2) {
		viol(nHist, "C16:l1-reexport-differs", "export after import differs from the first export", map[string]string{"first": string(json1), "second": string(json2)})
	}
	// the ORIGINAL chain's complete collections, read entry by entry with explicit page limits,
	// against the re-imported chain's (a truncated export re-exports identically)
	if v1, v2 := l1FullView(e), l1FullView(e3); v1 != v2 {
		viol(nHist, "C16:l1-probe-differs", "the stored collections (bridges, counters, outputs, token pairs, batch infos, claim records read entry by entry) of the re-imported instance differ from the original's: "+firstDiff(v1, v2), nil)
	}
	// identical probe sequence on the original and on the re-imported instance
	tr := sc2.Case.Track
	for i := nHist; i < len(all); i++ {
		o := all[i]
		r1 := e.L1Exec(o)
		o1 := e.L1Obs(tr, r1).Coq()
		r2 := e3.L1Exec(o)
		o2 := e3.L1Obs(tr, r2).Coq()
		if r1.OK {
			rep.Hist("probe:" + o.Kind + ":OK")
		} else {
			rep.Hist("probe:" + o.Kind + ":ERR")
		}
		if o1 != o2 {
			internOff = true
			d := map[string]string{"original": e.L1Obs(tr, r1).Coq(), "reimported": e3.L1Obs(tr, r2).Coq(), "probe": o.Coq(), "err1": r1.Err, "err2": r2.Err}
			internOff = false
			viol(i+1, "C16:l1-probe-differs", "a probe message is answered differently by the re-imported instance", d)
			break
		}
	}
	if v1, v2 := l1FullView(e), l1FullView(e3); v1 != v2 && len(rep.Violations) == 0 {
		viol(len(all), "C16:l1-probe-differs", "after the probe sequence the stored collections of the two instances differ: "+firstDiff(v1, v2), nil)
	}
	rep.Ops += len(all)
	return res
}

func bucket(n int) int {
	switch {
	case n <= 3:
		return n
	case n <= 7:
		return 4
	default:
		return 8
	}
}

const genCaseHeader = `Require Import Model.Bytes Model.Obs Model.Bank Model.Valset Model.L1 Model.TraceL1 Model.TraceGen.
From Coq Require Import List NArith ZArith String.
Import ListNotations.
Local Open Scope string_scope.
`

func genC16(seed uint64, tier, outdir string) *Report {
	rep := NewReport("C16", seed, tier)
	rep.Rule = "a case is one random L1 history on a fresh instance followed by export / validate / import into fresh stores / re-export and a probe sequence on both instances; distinct by hash of the op list; non-trivial = the exported state has at least one bridge with an output, a token pair or a claim record"
	n, histLen, probeLen := 36, 70, 25
	if tier == "thorough" {
		n, histLen, probeLen = 600, 110, 40
	}
	var texts []string
	for k := 0; k < n; k++ {
		id := k + 1
		hl := histLen
		if k%6 == 5 {
			hl = histLen / 5 // young states: bridges without deposits or outputs (absent counters)
		}
		var prefix func(sc *L1Scenario)
		if k%3 == 1 {
			prefix = func(sc *L1Scenario) { sc.c16Prefix() }
		}
		r := runC16L1(seed*100003+uint64(k), id, hl, probeLen, prefix, rep)
		c := r.Case
		rep.CountCase(strings.Join(l1OpsHuman(c.Ops), "\n"), r.NonTrivial)
		if k == 0 {
			m := len(c.Ops)
			if m > 8 {
				m = 8
			}
			rep.Sample(map[string]interface{}{"kind": "random L1 history (first ops), then export/validate/import/export + probes", "ops": l1OpsHuman(c.Ops[:m])})
		}
		// the case for the model: history, expected [export tree; validate = T; [re-export tree; same maps = T]]
		c.Obs = []Ov{r.Export, obool(true), ol(r.Export, obool(true))}
		texts = append(texts, c.Coq())
	}
	writeShards(outdir, "C16", genCaseHeader, "G1.run_gen1", "l1case", texts, 12, rep)
	// collections larger than a default page: two scripted cases, each in its own case file
	var big []string
	for j, pf := range []func(sc *L1Scenario){func(sc *L1Scenario) { sc.c16BigA() }, func(sc *L1Scenario) { sc.c16BigB() }} {
		r := runC16L1(seed*100003+900000+uint64(j), n+1+j, 8, 12, pf, rep)
		c := r.Case
		rep.CountCase(strings.Join(l1OpsHuman(c.Ops), "\n"), r.NonTrivial)
		rep.Hist("l1-state:big-collections-case")
		c.Obs = []Ov{r.Export, obool(true), ol(r.Export, obool(true))}
		big = append(big, c.Coq())
	}
	writeShards(outdir, "C16big", genCaseHeader, "G1.run_gen1", "l1case", big, len(big), rep)
	return rep
}

var _ = sdk.AccAddress{}
