package main

import (
	"fmt"
	"os"
	"strings"
)

// a monitor checks one property, model-free, on the implementation's own trace
type L1Monitor func(rep *Report, c *L1Case)

type L1StreamCfg struct {
	Prop     string
	Weights  L1Weights
	NCases   [2]int // quick, thorough
	Len      [2]int
	Monitors []L1Monitor
	Setup    func(sc *L1Scenario) // optional scripted prefix
	Rule     string
}

func runL1Stream(cfg L1StreamCfg, seed uint64, tier string, outdir string) *Report {
	rep := NewReport(cfg.Prop, seed, tier)
	rep.Rule = cfg.Rule
	ti := 0
	if tier == "thorough" {
		ti = 1
	}
	var texts []string
	for k := 0; k < cfg.NCases[ti]; k++ {
		id := k + 1
		c := RunL1Twice(seed*100000+uint64(k), id, func(sc *L1Scenario) {
			sc.wts = cfg.Weights
			if cfg.Setup != nil {
				cfg.Setup(sc)
			}
			for i := 0; i < cfg.Len[ti]; i++ {
				sc.RandomStep()
			}
		}, rep)
		okKinds, errKinds := map[string]bool{}, map[string]bool{}
		for i, o := range c.Ops {
			if c.Results[i].OK {
				rep.Hist(o.Kind + ":OK")
				okKinds[o.Kind] = true
			} else {
				rep.Hist(o.Kind + ":ERR")
				if os.Getenv("VERIF_DEBUG") != "" && (o.Kind == "uproposer" || o.Kind == "ubatch" || o.Kind == "uoracle") {
					fmt.Println(o.Kind, o.Bridge, o.Sender, c.Results[i].Err)
				}
				errKinds[o.Kind] = true
			}
		}
		runL1Monitors(rep, c, seed*100000+uint64(k), cfg.Monitors) // monitors + minimisation of a failing history
		rep.Ops += len(c.Ops)
		rep.CountCase(strings.Join(l1OpsHuman(c.Ops), "\n"), len(okKinds) >= 3 && len(errKinds) >= 2)
		if k == 0 {
			n := len(c.Ops)
			if n > 10 {
				n = 10
			}
			rep.Sample(map[string]interface{}{"kind": "random L1 history (first ops)", "ops": l1OpsHuman(c.Ops[:n])})
		}
		texts = append(texts, c.Coq())
	}
	writeShards(outdir, cfg.Prop, l1CaseHeader, "run_l1case", "l1case", texts, 16, rep)
	return rep
}

var _ = fmt.Sprintf
