package main

import (
	"fmt"
	"math/big"
	"sort"
	"strings"
	"time"

	cometabci "github.com/cometbft/cometbft/abci/types"
	sdk "github.com/cosmos/cosmos-sdk/types"

	cmtproto "github.com/cometbft/cometbft/proto/tendermint/types"
	opchildtypes "github.com/initia-labs/OPinit/x/opchild/types"
)

// C18, oracle family: histories of signed MsgUpdateOracle (real opchild msg server, real connect
// oracle keeper, the C15 plumbing of gen_c15.go) whose aggregated L1 timestamps are (past) far
// in the past, (future) far in the FUTURE of the node's wall clock - nothing requires a block or
// an L1 timestamp to be <= the local clock -, (now) just ahead of the wall clock at generation
// time, with later executions happening after that instant has passed.  All executions must
// agree byte for byte; a structurally valid, sufficiently signed, fresher update must be
// accepted whatever the wall clock says (C18:depends-on-wall-clock).

// an update in which every member of the stored host set votes honestly at logical time ts on
// exactly the given pairs (index 0 = the reserved timestamp pair) plus the given raw extra ids
func c18HonestOracleOp(g *c15Gen, ts int64, pairs []int, extraIDs []uint64, note string, perVal ...int) C15Op {
	ce := g.ce
	o := C15Op{Kind: "oracle", Blk: g.blk, SenderID: 1, Sender: ce.E.User(1).Str, Height: uint64(g.setH + 1), Round: 0, Note: note}
	var votes []C15Vote
	for _, en := range g.inSet {
		u := ce.Vals[en.Val]
		m := map[uint64][]byte{}
		for _, p := range pairs {
			val := big.NewInt(ts)
			if p != 0 {
				val = big.NewInt(g.price[p] + int64(g.r.Intn(7)) - 3)
			}
			m[c15PairHash(c15PairNames[p])] = c15EncodePrice(val)
		}
		for _, id := range extraIDs {
			m[id] = c15EncodePrice(big.NewInt(77))
		}
		if len(perVal) > 0 {
			for x := 0; x < perVal[0]; x++ { // ids that only this validator reports
				m[g.r.U64()] = c15EncodePrice(big.NewInt(int64(1 + g.r.Intn(1000))))
			}
		}
		ext := ce.encodeExt(m)
		votes = append(votes, C15Vote{Addr: u.Addr, Flag: int32(cmtproto.BlockIDFlagCommit), Ext: ext,
			Sig: ce.sign(u, ce.Chain, int64(o.Height)-1, 0, ext)})
	}
	eci := cometabci.ExtendedCommitInfo{Round: 0}
	for i := range votes {
		ce.finish(&votes[i], o.Height, 0)
		eci.Votes = append(eci.Votes, cometabci.ExtendedVoteInfo{Validator: cometabci.Validator{Address: votes[i].Addr, Power: 1},
			VoteExtension: votes[i].Ext, ExtensionSignature: votes[i].Sig, BlockIdFlag: cmtproto.BlockIDFlagCommit})
	}
	bz, err := ce.EcCodec.Encode(eci)
	if err != nil {
		panic(err)
	}
	o.Data, o.Votes, o.CommitOK = bz, votes, true
	return o
}

var c18AllPairs = []int{0, 1, 2, 3} // the pairs every oracle history creates (NEVER/USD, index 4, is never created)

// c18OracleExec executes an op of an oracle history: the C15 kinds, plus "dephook" = a
// MsgFinalizeTokenDeposit (sequence o.Height) whose bridge hook is the signed tx bytes o.Data
func c18OracleExec(ce *c15Env, o C15Op) ExecResult {
	if o.Kind != "dephook" {
		return ce.exec(o)
	}
	e := ce.E
	ctx := e.Ctx.WithBlockHeight(o.Blk)
	return execAtomic(ctx, func(ctx sdk.Context) (interface{}, error) {
		return e.Msg.FinalizeTokenDeposit(ctx, &opchildtypes.MsgFinalizeTokenDeposit{Sender: e.User(1).Str, From: "init1l1sender000000000000000000000000000",
			To: e.User(4).Str, Amount: coinOf("l2/c18oracle", big.NewInt(5)), Sequence: o.Height, Height: 7, BaseDenom: "uinit", Data: o.Data})
	})
}

type c18OracleHistory struct {
	family string
	seed   uint64
	nVals  int
	ops    []C15Op
	valid  []bool // a fresher, fully signed, well-formed update: must be accepted
	unkn   []bool // some vote extension carries a price id that is not a pair of the oracle store
	genOK  []bool
	passBy int64 // unix ns after which the "now" family's timestamps lie in the past
}

func c18GenOracle(seed uint64, id int, family string, base int64, nOps int, mode string) *c18OracleHistory {
	r := NewRng(seed ^ 0x0c18)
	nVals := 3 + r.Intn(3)
	ce := newC15Env(seed, id, nVals)
	scratch := NewReport("C18-oracle-generation", seed, "quick") // the C15 monitors are not this stream's subject
	g := &c15Gen{ce: ce, r: r, profile: 0, tsNext: base, lastTS: base - 5000, blk: 10, price: []int64{0, 6500000, 320000, 900, 5}}
	h := &c18OracleHistory{family: family, seed: seed, nVals: nVals}
	known := map[uint64]bool{}
	for _, p := range c18AllPairs {
		known[c15PairHash(c15PairNames[p])] = true
	}
	do := func(o C15Op, valid bool) bool {
		o.Blk = g.blk
		g.blk++
		before := ce.readState()
		var ok bool
		if o.Kind == "dephook" {
			ok = c18OracleExec(ce, o).OK
		} else {
			ok = ce.Do(o, scratch)
		}
		h.ops = append(h.ops, o)
		h.valid = append(h.valid, valid)
		h.genOK = append(h.genOK, ok)
		unk := false
		for _, v := range o.Votes {
			if ve, err := ce.VeCodec.Decode(v.Ext); err == nil {
				for _, id := range sortedU64Keys(ve.Prices) {
					unk = unk || !known[id]
				}
			}
		}
		h.unkn = append(h.unkn, unk)
		if ok && o.Kind == "oracle" {
			after := ce.readState()
			if after.Quotes[0].Has && (!before.Quotes[0].Has || after.Quotes[0].TS != before.Quotes[0].TS) {
				g.lastTS = after.Quotes[0].TS
			}
		}
		return ok
	}
	do(C15Op{Kind: "execs", Execs: []uint64{1, 2}}, false)
	do(C15Op{Kind: "info", Oracle: true, Chain: "l1chain", Client: "07-tendermint-0", ClientID: 1}, false)
	if mode != "empty-store" {
		for _, p := range c18AllPairs {
			do(C15Op{Kind: "mkpair", Pair: p}, false)
		}
	}
	var entries []c15Entry
	for i := 0; i < nVals; i++ {
		entries = append(entries, c15Entry{Val: i, Power: int64(1 + r.Intn(10))})
	}
	first := C15Op{Kind: "hostset", Client: "07-tendermint-0", ClientID: 1, HHeight: int64(5 + r.Intn(20)), Entries: entries}
	if !do(first, false) {
		panic("c18 oracle: host validator set refused")
	}
	g.applySet(first)
	fresh := func() int64 { g.tsNext += 1000 + int64(r.Intn(1000)); return g.tsNext }
	depSeq := uint64(0)
	for i := 0; i < nOps; i++ {
		switch mode { // shapes of the regression replays (c18OracleGasReplays)
		case "unknown-ids":
			do(c18HonestOracleOp(g, fresh(), []int{0, 1, 2, 3, 4}, []uint64{r.U64(), r.U64()}, "c18-honest-with-unknown-ids"), true)
			continue
		case "many-unknown": // six foreign ids in every vote, three more that differ per validator
			do(c18HonestOracleOp(g, fresh(), c18AllPairs, []uint64{r.U64(), r.U64(), r.U64(), r.U64(), r.U64(), r.U64()}, "c18-honest-many-unknown-ids", 3), true)
			continue
		case "unknown-with-ts": // besides the timestamp pair only foreign ids
			do(c18HonestOracleOp(g, fresh(), []int{0}, []uint64{r.U64(), r.U64(), r.U64(), r.U64()}, "c18-timestamp-and-unknown-ids-only", 2), true)
			continue
		case "unknown-only": // no id of the store at all: refused (no timestamp), gas still compared
			do(c18HonestOracleOp(g, fresh(), nil, []uint64{r.U64(), r.U64(), r.U64()}, "c18-unknown-ids-only", 2), false)
			continue
		case "empty-store": // the oracle store has no currency pair: every id is foreign
			do(c18HonestOracleOp(g, fresh(), c18AllPairs, []uint64{r.U64(), r.U64()}, "c18-honest-on-empty-oracle-store", 1), false)
			continue
		case "all-known":
			do(c18HonestOracleOp(g, fresh(), c18AllPairs, nil, "c18-honest"), true)
			continue
		}
		// a relayer submits the very same bytes again (valid, but stale by now): directly, and as the
		// bridge hook of a deposit (the refusal then ends up in the deposit event's reason attribute)
		relayAgain := func(o C15Op) {
			if o.Kind != "oracle" {
				return
			}
			if r.Chance(50) {
				o2 := o
				o2.Note = o.Note + "-relayed-again"
				do(o2, false)
			}
			if r.Chance(50) {
				u := ce.E.User(1)
				var accNum uint64
				if acc := ce.E.AK.GetAccount(ce.E.Ctx, u.Addr); acc != nil {
					accNum = acc.GetAccountNumber()
				}
				raw := ce.E.SignTx([]sdk.Msg{opchildtypes.NewMsgUpdateOracle(u.Str, o.Height, o.Data)}, u.Priv, accNum, ce.E.AccSeq(1), ce.E.Ctx.ChainID())
				depSeq++
				do(C15Op{Kind: "dephook", Height: depSeq, Data: raw, Note: "deposit whose hook relays the update of the previous step again"}, false)
			}
		}
		switch r.Weighted([]int{40, 16, 14, 8, 8, 8, 6}) {
		case 0: // honest, all created pairs, fresher than everything before
			o := c18HonestOracleOp(g, fresh(), c18AllPairs, nil, "c18-honest")
			do(o, true)
			relayAgain(o)
		case 1:
			// the validators report only a subset of the pairs ...
			sub := []int{0}
			for _, p := range []int{1, 2, 3} {
				if r.Chance(45) {
					sub = append(sub, p)
				}
			}
			if len(sub) == 4 {
				sub = sub[:3]
			}
			ts := fresh()
			do(c18HonestOracleOp(g, ts, sub, nil, fmt.Sprintf("c18-honest-subset%v", sub)), true)
			// ... and a later update over all pairs arrives with the same (non-increasing) L1 timestamp:
			// stale for the subset, writable for the others; must be refused, identically everywhere
			if r.Chance(85) {
				do(c18HonestOracleOp(g, ts-int64(r.Intn(2)), c18AllPairs, nil, "c18-replay-over-all-pairs"), false)
			}
		case 2: // the C15 generator's mix (wrong senders, heights, replays, perturbed votes, unknown ids ...)
			do(g.oracleOp(), false)
		case 3: // honest and fresh, but the extensions also carry ids that are not pairs of the store
			do(c18HonestOracleOp(g, fresh(), []int{0, 1, 2, 3, 4}, []uint64{r.U64()}, "c18-honest-with-unknown-ids"), true)
		case 4: // an honest replay of the last accepted timestamp: must be refused everywhere
			do(c18HonestOracleOp(g, g.lastTS, c18AllPairs, nil, "c18-replay"), false)
		case 5: // refresh of the host validator set
			var en []c15Entry
			for i := 0; i < nVals; i++ {
				en = append(en, c15Entry{Val: i, Power: int64(1 + r.Intn(10))})
			}
			o := C15Op{Kind: "hostset", Client: "07-tendermint-0", ClientID: 1, HHeight: g.setH + int64(1+r.Intn(4)), Entries: en}
			if do(o, false) {
				g.applySet(o)
			}
		case 6:
		}
	}
	h.passBy = g.tsNext + 50_000_000
	return h
}

func (h *c18OracleHistory) human(base int64) []string {
	var out []string
	for i, o := range h.ops {
		switch o.Kind {
		case "oracle":
			tag := ""
			if h.valid[i] {
				tag = " [well-formed, fully signed, fresher than every earlier update]"
			}
			ts := "-"
			for _, v := range o.Votes {
				for _, p := range v.Prices {
					if p.Pair == 0 {
						ts = "base" + new(big.Int).Sub(p.Val, big.NewInt(base)).Text(10) + " ns"
					}
				}
				break
			}
			out = append(out, fmt.Sprintf("MsgUpdateOracle sender=user%d height=%d votes=%d shape=%s first-vote-timestamp=%s%s", o.SenderID, o.Height, len(o.Votes), o.Note, ts, tag))
		case "hostset":
			out = append(out, fmt.Sprintf("UpdateHostValidatorSet client=%s height=%d entries=%v", o.Client, o.HHeight, o.Entries))
		case "execs":
			out = append(out, fmt.Sprintf("set bridge executors %v", o.Execs))
		case "info":
			out = append(out, fmt.Sprintf("set bridge info oracle=%v chain=%s client=%s", o.Oracle, o.Chain, o.Client))
		case "mkpair":
			out = append(out, "create currency pair "+c15PairNames[o.Pair])
		case "dephook":
			out = append(out, fmt.Sprintf("MsgFinalizeTokenDeposit sequence=%d by user1; hook = signed tx [MsgUpdateOracle]: %s", o.Height, o.Note))
		}
	}
	return out
}

func (h *c18OracleHistory) execute(id int, spec []int, rep *Report) []c18Print {
	ce := newC15Env(h.seed, id, h.nVals)
	var out []c18Print
	for i, o := range h.ops {
		if spec != nil {
			for x := 0; x < spec[i]; x++ {
				speculateL2(ce.E, func() { c18OracleExec(ce, o) })
				rep.Hist("oracle:speculated")
			}
		}
		freshGasL2(ce.E)
		res := c18OracleExec(ce, o)
		out = append(out, printOf(res, ce.E.Ctx, ce.E.Keys))
	}
	return out
}

func (h *c18OracleHistory) executeOnOwnGoroutine(id int, spec []int, rep *Report, env ...int) (out []c18Print) {
	x := 0
	if len(env) > 0 {
		x = env[0]
	} else {
		c18EnvCounter++
		x = c18EnvCounter
	}
	inLocalEnv(x, func() { out = h.execute(id, spec, rep) })
	return out
}

func genC18Oracle(rep *Report, seed uint64, tier string, R int, id *int) {
	type famT struct {
		name  string
		base  func() int64
		n     int
		isNow bool
	}
	nPast, nFuture, nNow, nOps := 3, 4, 1, 14
	if tier == "thorough" {
		nPast, nFuture, nNow, nOps = 30, 40, 2, 24
	}
	fams := []famT{
		{"past (year 2001)", func() int64 { return 1000000000000000000 }, nPast, false},
		// the ONLY wall-clock read of the generators: this family is about the wall clock
		{"now (wall clock at generation + 1.5 s)", func() int64 { return time.Now().UnixNano() + 1_500_000_000 }, nNow, true},
		{"future (year 2200)", func() int64 { return time.Date(2200, time.January, 1, 0, 0, 0, 0, time.UTC).UnixNano() }, nFuture, false},
	}
	accepted := 0
	for fi, fam := range fams {
		for k := 0; k < fam.n; k++ {
			*id++
			base := fam.base()
			h := c18GenOracle(seed*1000+uint64(7000+100*fi+k), *id, fam.name, base, nOps, "")
			human := h.human(base)
			human = append([]string{"oracle family: " + fam.name + "; timestamps are given relative to base"}, human...)
			runs := make([][]c18Print, R)
			for x := 0; x < R; x++ {
				if fam.isNow && x == R-1 {
					// the last execution happens after the instant has passed
					if d := time.Until(time.Unix(0, h.passBy)); d > 0 {
						time.Sleep(d)
					}
				}
				runs[x] = h.executeOnOwnGoroutine(*id, nil, rep, x)
			}
			pad := func(ps []c18Print) []c18Print { return append([]c18Print{{OK: true}}, ps...) } // human has a header line
			padded := make([][]c18Print, R)
			for x := range runs {
				padded[x] = pad(runs[x])
			}
			known := func(step int, d string, speculated bool) string {
				i := step - 1 // the human history has a header line
				if d != "gas" || i < 0 || h.ops[i].Kind != "oracle" {
					return ""
				}
				if speculated {
					return c18SigOracleGasHistory
				}
				if h.unkn[i] {
					return c18SigOracleGasMapOrder
				}
				return ""
			}
			if c18Compare(rep, *id, "oracle", padded, human, known) {
				plan := c18SpecPlan(NewRng(h.seed^0x5bec), len(h.ops), func(i int) bool { return h.ops[i].Kind == "oracle" && i%2 == 0 }, nil)
				spec := h.executeOnOwnGoroutine(*id, plan, rep)
				c18CompareSpec(rep, *id, "oracle", padded[R-1], pad(spec), human, append([]int{0}, plan...), known)
			}
			// expectation independent of the implementation's answer
			ok, bad := false, false
			for i, o := range h.ops {
				for x := 0; x < R; x++ {
					if x == 0 {
						v := "ERR"
						if runs[x][i].OK {
							v = "OK"
						}
						rep.Hist("oracle:" + o.Kind + ":" + v)
						if o.Kind == "dephook" {
							switch ev := runs[x][i].Events; {
							case strings.Contains(ev, "oracle timestamp is old"):
								rep.Hist("oracle:dephook:hook-refused-stale-timestamp")
							case strings.Contains(ev, `"success"="true"`):
								rep.Hist("oracle:dephook:hook-succeeded")
							default:
								rep.Hist("oracle:dephook:hook-failed-otherwise")
							}
						}
					}
					if h.valid[i] && !runs[x][i].OK {
						rep.Violate(Violation{Case: *id, Step: i + 1, Sig: "C18:depends-on-wall-clock",
							What: fmt.Sprintf("oracle history (%s): a well-formed, fully signed update that is fresher than every earlier one was rejected in execution %d (%s); "+
								"its only relation to this node is that its L1 timestamp is not in the past of the local wall clock", fam.name, x+1, runs[x][i].Err),
							Ops: human[:i+2]})
						bad = true
						break
					}
				}
				if o.Kind == "oracle" {
					if runs[0][i].OK {
						ok = true
						accepted++
					} else {
						bad = true
					}
				}
				if !h.genOK[i] != !runs[0][i].OK && !fam.isNow {
					rep.Violate(Violation{Case: *id, Step: i + 1, What: "oracle history: a repeated execution gave a different verdict than the generating execution", Sig: "C18:nondeterministic-verdict", Ops: human[:i+2]})
				}
			}
			rep.Ops += len(h.ops) * (R + 1)
			canon := strings.Join(human, "\n")
			rep.CountCase(canon, ok && bad)
			if fi == 2 && k == 0 {
				rep.Sample(map[string]interface{}{"kind": "oracle history, timestamps in year 2200 (first ops)", "ops": human[:min(10, len(human))]})
			}
		}
	}
	c18KnownOracleGas(rep, seed, id)
	rep.Notes = append(rep.Notes, fmt.Sprintf("oracle family: %d histories with L1 timestamps in 2001, %d in 2200, %d at wall clock + 1.5 s (last execution after that instant); %d oracle updates accepted in the first executions",
		nPast, nFuture, nNow, accepted))
}

var c18EnvCounter int // executions without an explicit index rotate through the environments

// ---- known findings of the oracle path (known_findings.json), replayed on every run ----
const (
	c18SigOracleGasMapOrder = "C18:oracle-gas-unknown-pair-map-order"
	c18SigOracleGasHistory  = "C18:oracle-gas-idcache-process-history"
)

func sortedU64Keys(m map[uint64][]byte) []uint64 {
	ks := make([]uint64, 0, len(m))
	for k := range m {
		ks = append(ks, k)
	}
	sort.Slice(ks, func(i, j int) bool { return ks[i] < ks[j] })
	return ks
}

// Regression replays of defect D15 (repaired in /repo by 629119a): the L2OracleHandler used to hold
// one connect HashCurrencyPairStrategy whose per-height id cache lived in process memory and paid a
// GetAllCurrencyPairs walk on every miss, so the GAS of MsgUpdateOracle depended (A) on Go map
// iteration order whenever a vote carried an id outside the oracle store and (B) on an earlier,
// discarded execution at the same height.  Several vote shapes; each is executed 6 times on fresh
// instances and once more with every oracle update pre-executed on discarded branches.
func c18KnownOracleGas(rep *Report, seed uint64, id *int) {
	base := int64(1000000000000000000)
	shapes := []string{"unknown-ids", "many-unknown", "unknown-with-ts", "unknown-only", "empty-store", "all-known"}
	failsA, failsB := false, false
	for si, shape := range shapes {
		*id++
		h := c18GenOracle(seed*1000+uint64(7901+si), *id, "regression replay: "+shape, base, 5, shape)
		human := append([]string{"oracle regression replay, vote shape: " + shape + "; timestamps relative to base"}, h.human(base)...)
		var runs [][]c18Print
		for x := 0; x < 6; x++ {
			runs = append(runs, h.executeOnOwnGoroutine(*id, nil, rep))
		}
		plan := make([]int, len(h.ops))
		for i, o := range h.ops {
			if o.Kind == "oracle" {
				plan[i] = 1 + i%2
			}
		}
		spec := h.executeOnOwnGoroutine(*id, plan, rep)
		report := func(i int, d, sig, what string, a, b c18Print) {
			rep.Violate(Violation{Case: *id, Step: i + 1, What: what, Sig: sig, Ops: human[:i+2], Detail: map[string]interface{}{"a": a, "b": b, "differs_in": d}})
		}
	plain:
		for x := 1; x < len(runs); x++ {
			for i := range runs[0] {
				if d := runs[0][i].diff(runs[x][i]); d == "gas" {
					failsA = true
					report(i, d, c18SigOracleGasMapOrder, fmt.Sprintf("oracle update (%s): gas used differs between execution 1 (%d) and execution %d (%d) on fresh instances; nothing else differs", shape, runs[0][i].Gas, x+1, runs[x][i].Gas), runs[0][i], runs[x][i])
					break plain
				} else if d != "" {
					report(i, d, "C18:nondeterministic-"+d, fmt.Sprintf("oracle update (%s): executions 1 and %d differ in %s", shape, x+1, d), runs[0][i], runs[x][i])
					break plain
				}
			}
		}
		for i := range runs[0] {
			if d := runs[0][i].diff(spec[i]); d == "gas" {
				failsB = true
				report(i, d, c18SigOracleGasHistory, fmt.Sprintf("oracle update (%s): gas used is %d on a fresh instance and %d on one that first executed the same update %dx on a discarded branch at the same height", shape, runs[0][i].Gas, spec[i].Gas, plan[i]), runs[0][i], spec[i])
				break
			} else if d != "" {
				report(i, d, "C18:depends-on-process-history", fmt.Sprintf("oracle update (%s): a pre-execution on a discarded branch changes %s", shape, d), runs[0][i], spec[i])
				break
			}
		}
		for i, o := range h.ops {
			if o.Kind == "oracle" {
				v := "ERR"
				if runs[0][i].OK {
					v = "OK"
				}
				rep.Hist("oracle-replay:" + shape + ":" + v)
			}
		}
		rep.Ops += len(h.ops) * 7
		rep.CountCase(strings.Join(human, "\n"), true)
	}
	rep.KnownChecked = append(rep.KnownChecked,
		KnownResult{ID: c18SigOracleGasMapOrder, StillFails: failsA, What: "gas of MsgUpdateOracle differs between executions for votes with ids outside the oracle store (D15, repaired by 629119a)"},
		KnownResult{ID: c18SigOracleGasHistory, StillFails: failsB, What: "gas of MsgUpdateOracle differs after a discarded pre-execution at the same height (D15, repaired by 629119a)"})
}
