package main

import (
	"fmt"
	"math/big"
	"strings"

	sdk "github.com/cosmos/cosmos-sdk/types"

	opchildtypes "github.com/initia-labs/OPinit/x/opchild/types"
	ophosttypes "github.com/initia-labs/OPinit/x/ophost/types"
)

// C09: L2 bridged supply is conserved; withdrawals burn exactly what they record; one gap-free
// L2 sequence shared with refund withdrawals; the denom map is write-once; tokens that did not
// come from L1 cannot be withdrawn.
//
// Stream: random histories of credited and refunded deposits (bad / blocked recipient, failing
// hook), deposits whose hook moves the credited funds on, transfers, fee-pool spends, executor
// changes, deposits inside ExecuteMessages, withdrawals of amounts below / equal to / above the
// balance and around 2^64, of bridged, native and unknown denoms, and later deposits naming a
// different base denom for an existing L2 denom.  Every history is replayed by the Coq model;
// the monitor below restates the property over the implementation's own trace.

func init() { register("C09", genC09) }

type c09Mon struct {
	rep       *Report
	c         *L2Case
	init      L2View
	credited  []*big.Int // per tracked denom
	withdrawn []*big.Int
	nextL2    uint64
	execs     []string
	hookGas   uint64
}

func (m *c09Mon) viol(i int, sig, what string) {
	m.rep.Violate(Violation{Case: m.c.ID, Step: i, What: what, Sig: sig, Ops: opsCoq(m.c.Ops[:i+1])})
}

// c09Check evaluates the monitors over a finished case. initObs = projected state before op 0.
func c09Check(rep *Report, c *L2Case, initObs Ov) {
	tr := c.Track
	m := &c09Mon{rep: rep, c: c, init: l2ViewOf(tr, initObs)}
	for range tr.Denoms {
		m.credited = append(m.credited, new(big.Int))
		m.withdrawn = append(m.withdrawn, new(big.Int))
	}
	m.nextL2 = m.init.N2
	prev := m.init
	m.execs = append([]string{}, c.Params.Execs...)
	m.hookGas = c.Params.HookGas
	for i, o := range c.Ops {
		cur := l2ViewOf(tr, c.Obs[i])
		evs := parseL2EvList(c.Results[i].Events)
		outcome := "ERR"
		if cur.OK {
			outcome = "OK"
			if cur.Resp == "NOOP" {
				outcome = "NOOP"
			}
		}
		rep.Hist(o.Kind + ":" + outcome)

		// (0) a failed message has no effect and no events
		if !cur.OK && (!cur.sameState(prev) || len(evs) != 0) {
			m.viol(i, "C09:err-changed-state", "a rejected message changed the projected state")
		}

		// (1) shared L2 sequence: all withdrawal events, user and refund, carry 1,2,3,...
		var wevs, devs []L2Ev
		pendingRefund := false
		for _, ev := range evs {
			if ev.IsDep {
				rep.Hist("deposit-event:" + map[bool]string{true: "credited", false: "refunded"}[ev.Success] + ":hook-" + o.Hook.Kind + o.Kind[:0])
				devs = append(devs, ev)
				pendingRefund = !ev.Success
				di := l2IdxS(tr.Denoms, ev.Denom)
				if ev.Success && di >= 0 {
					m.credited[di].Add(m.credited[di], ev.Amt)
				}
				continue
			}
			wevs = append(wevs, ev)
			if ev.Seq != m.nextL2 {
				m.viol(i, "C09:l2-seq-gap", fmt.Sprintf("withdrawal event carries sequence %d, expected %d", ev.Seq, m.nextL2))
			}
			m.nextL2 = ev.Seq + 1
			if !pendingRefund { // a user withdrawal
				di := l2IdxS(tr.Denoms, ev.Denom)
				if di >= 0 {
					m.withdrawn[di].Add(m.withdrawn[di], ev.Amt)
				}
			}
			pendingRefund = false
		}
		if cur.N2 != m.nextL2 {
			m.viol(i, "C09:l2-seq-gap", fmt.Sprintf("NextL2Sequence = %d, expected 1 + number of withdrawal events = %d", cur.N2, m.nextL2))
			m.nextL2 = cur.N2
		}

		// (2) supply ledger, for every tracked denom, after every message
		for di := range tr.Denoms {
			want := new(big.Int).Add(m.init.Sup[di], m.credited[di])
			want.Sub(want, m.withdrawn[di])
			if cur.Sup[di].Cmp(want) != 0 {
				m.viol(i, "C09:supply-ledger", fmt.Sprintf("supply of %s = %s, expected initial %s + credited %s - withdrawn %s",
					tr.Denoms[di], cur.Sup[di], m.init.Sup[di], m.credited[di], m.withdrawn[di]))
				// resynchronise so that one defect is reported once
				m.credited[di] = new(big.Int).Sub(new(big.Int).Add(cur.Sup[di], m.withdrawn[di]), m.init.Sup[di])
			}
		}

		// (3) the denom map is write-once, and written only by a processed deposit of that denom
		for di, d := range tr.Denoms {
			if prev.Pair[di] != nil && (cur.Pair[di] == nil || *cur.Pair[di] != *prev.Pair[di]) {
				m.viol(i, "C09:pair-overwritten", fmt.Sprintf("base denom of %s changed from %s", d, *prev.Pair[di]))
			}
			// ... and the first processed deposit of a denom does write it
			for _, ev := range devs {
				if ev.Denom == d && cur.Pair[di] == nil {
					m.viol(i, "C09:pair-not-recorded", fmt.Sprintf("a deposit of %s was processed but the denom has no base denom afterwards", d))
				}
			}
			if prev.Pair[di] == nil && cur.Pair[di] != nil {
				ok := false
				for _, ev := range devs {
					if ev.Denom == d && ev.Base == *cur.Pair[di] {
						ok = true
					}
				}
				if !ok {
					m.viol(i, "C09:pair-source", fmt.Sprintf("base denom of %s set to %s without a processed deposit naming it", d, *cur.Pair[di]))
				}
			}
		}

		if o.Kind == "fdep" && !cur.OK && o.Seq == prev.N1 && m.wellFormedDeposit(o) {
			m.viol(i, "C09:deposit-blocked", "a well-formed deposit at the expected sequence from a current executor was rejected: "+c.Results[i].Err)
		}
		switch o.Kind {
		case "withdraw":
			m.checkWithdraw(i, o, prev, cur, wevs, devs)
		case "fdep":
			m.checkDeposit(i, o, prev, cur, wevs, devs)
		default:
			if o.Kind != "exec" && len(evs) != 0 {
				m.viol(i, "C09:stray-event", "bridge event emitted by a message that is neither a deposit nor a withdrawal")
			}
		}
		if o.Kind == "params" && cur.OK {
			m.hookGas = o.Params.HookGas
			m.execs = append([]string{}, o.Params.Execs...)
		}
		prev = cur
	}
}

// a deposit the handler must process: valid fields, sender a current executor
func (m *c09Mon) wellFormedDeposit(o L2Op) bool {
	e := m.c.Env
	if o.From == "" || o.Height == 0 || o.Seq == 0 || sdk.ValidateDenom(o.Denom) != nil || sdk.ValidateDenom(o.Base) != nil || o.Amt.Sign() < 0 {
		return false
	}
	sb, err := e.AK.AddressCodec().StringToBytes(o.Sender)
	if err != nil {
		return false
	}
	for _, x := range m.execs { // the executor list in force, tracked from the accepted UpdateParams messages
		xb, err := e.AK.AddressCodec().StringToBytes(x)
		if err == nil && string(xb) == string(sb) {
			return true
		}
	}
	return false
}

func (m *c09Mon) checkWithdraw(i int, o L2Op, prev, cur L2View, wevs, devs []L2Ev) {
	tr := m.c.Track
	e := m.c.Env
	di := l2IdxS(tr.Denoms, o.Denom)
	id, resolves := e.Table[o.Sender]
	ai := -1
	if resolves {
		ai = l2IdxU(tr.Accts, id)
	}
	mapped := di >= 0 && prev.Pair[di] != nil
	if !cur.OK {
		// completeness: the documented guards are the only reasons for rejection
		if resolves && ai >= 0 && o.To != "" && mapped && sdk.ValidateDenom(o.Denom) == nil &&
			o.Amt.Sign() > 0 && o.Amt.Cmp(l2Two64) < 0 && o.Amt.Cmp(prev.Bal[ai][di]) <= 0 {
			m.viol(i, "C09:withdraw-rejected", "a funded withdrawal of a bridged denom was rejected")
		}
		return
	}
	if !mapped {
		m.viol(i, "C09:non-l1-withdrawn", fmt.Sprintf("withdrawal of %s accepted although it has no base denom", o.Denom))
		return
	}
	if ai < 0 {
		m.viol(i, "C09:withdraw-inexact", "withdrawal accepted from an unknown signer")
		return
	}
	bad := func(what string) { m.viol(i, "C09:withdraw-inexact", what) }
	if cur.Resp != "SEQ" || cur.RSeq != prev.N2 {
		bad(fmt.Sprintf("response sequence %d, expected the previous NextL2Sequence %d", cur.RSeq, prev.N2))
	}
	if cur.N2 != prev.N2+1 || cur.N1 != prev.N1 {
		bad("sequences after the withdrawal are not (same L1, L2 + 1)")
	}
	if len(devs) != 0 || len(wevs) != 1 {
		bad(fmt.Sprintf("%d withdrawal events and %d deposit events, expected exactly one withdrawal event", len(wevs), len(devs)))
	} else {
		w := wevs[0]
		if w.Seq != prev.N2 || w.From != o.Sender || w.To != o.To || w.Denom != o.Denom || w.Base != *prev.Pair[di] || w.Amt.Cmp(o.Amt) != 0 {
			bad(fmt.Sprintf("event (%d,%s,%s,%s,%s,%s) differs from the request / the denom map (%s)", w.Seq, w.From, w.To, w.Denom, w.Base, w.Amt, *prev.Pair[di]))
		}
	}
	if o.Amt.Cmp(prev.Bal[ai][di]) > 0 {
		bad("withdrawal above the balance accepted")
	}
	for a := range tr.Accts {
		for d := range tr.Denoms {
			want := new(big.Int).Set(prev.Bal[a][d])
			if a == ai && d == di {
				want.Sub(want, o.Amt)
			}
			if cur.Bal[a][d].Cmp(want) != 0 {
				bad(fmt.Sprintf("balance of account %d in %s is %s, expected %s", tr.Accts[a], tr.Denoms[d], cur.Bal[a][d], want))
			}
		}
	}
	for d := range tr.Denoms {
		want := new(big.Int).Set(prev.Sup[d])
		if d == di {
			want.Sub(want, o.Amt)
		}
		if cur.Sup[d].Cmp(want) != 0 {
			bad(fmt.Sprintf("supply of %s is %s, expected %s", tr.Denoms[d], cur.Sup[d], want))
		}
	}
	if !cur.samePairs(prev) || !cur.sameAccSeqs(prev) {
		bad("withdrawal changed the denom map or an account sequence")
	}
}

func (m *c09Mon) checkDeposit(i int, o L2Op, prev, cur L2View, wevs, devs []L2Ev) {
	tr := m.c.Track
	if !cur.OK || cur.Resp != "SUCCESS" {
		if cur.OK && len(wevs)+len(devs) != 0 {
			m.viol(i, "C09:stray-event", "NOOP deposit emitted an event")
		}
		return
	}
	di := l2IdxS(tr.Denoms, o.Denom)
	if len(devs) != 1 || devs[0].Seq != o.Seq || devs[0].Denom != o.Denom || devs[0].Amt.Cmp(o.Amt) != 0 {
		m.viol(i, "C09:deposit-event", "processed deposit without exactly one matching finalize_token_deposit event")
		return
	}
	if devs[0].Success && o.Hook.Kind != "none" && m.hookGas == 0 {
		m.viol(i, "C09:hook-dropped", "hook_max_gas is 0, yet a deposit carrying a hook payload was credited instead of refunded (the payload was silently dropped)")
	}
	if devs[0].Success {
		// the only records of a credited deposit are those of withdrawal messages carried by its
		// hook: as many events as NextL2Sequence advanced, consecutive, each an exact burn
		nHookW := 0
		for _, hm := range o.Hook.Sends {
			if hm.Withdraw {
				nHookW++
			}
		}
		if len(wevs) > nHookW || cur.N2 != prev.N2+uint64(len(wevs)) {
			m.viol(i, "C09:hook-withdrawal-unannounced", fmt.Sprintf("credited deposit: %d withdrawal events, hook carries %d withdrawals, NextL2Sequence %d -> %d", len(wevs), nHookW, prev.N2, cur.N2))
		}
		for d := range tr.Denoms {
			burnt := new(big.Int)
			for _, w := range wevs {
				if w.Denom == tr.Denoms[d] {
					burnt.Add(burnt, w.Amt)
				}
			}
			sumP, sumC := new(big.Int), new(big.Int)
			for a := range tr.Accts {
				sumP.Add(sumP, prev.Bal[a][d])
				sumC.Add(sumC, cur.Bal[a][d])
			}
			want := new(big.Int).Neg(burnt)
			if d == di {
				want.Add(want, o.Amt)
			}
			if new(big.Int).Sub(sumC, sumP).Cmp(want) != 0 || new(big.Int).Sub(cur.Sup[d], prev.Sup[d]).Cmp(want) != 0 {
				m.viol(i, "C09:credit-inexact", fmt.Sprintf("credited deposit: balances and supply of %s did not move by exactly amount - announced hook withdrawals = %s", tr.Denoms[d], want))
			}
		}
		return
	}
	// refunded: bank exactly as before, one refund record with the next shared sequence
	if !cur.sameBank(prev) {
		m.viol(i, "C09:refund-not-neutral", "refunded deposit changed a balance or a supply")
	}
	if len(wevs) != 1 || cur.N2 != prev.N2+1 {
		m.viol(i, "C09:refund-not-neutral", "refunded deposit without exactly one withdrawal record")
		return
	}
	w := wevs[0]
	base := ""
	if di >= 0 && cur.Pair[di] != nil {
		base = *cur.Pair[di]
	}
	if w.Seq != prev.N2 || w.From != o.To || w.To != o.From || w.Denom != o.Denom || w.Amt.Cmp(o.Amt) != 0 || (di >= 0 && w.Base != base) {
		m.viol(i, "C09:refund-record", fmt.Sprintf("refund record (%d,%s,%s,%s,%s,%s) differs from the deposit", w.Seq, w.From, w.To, w.Denom, w.Base, w.Amt))
	}
}

// c09Speculate pre-executes, in a branch of the state that is then DISCARDED (a simulation, a
// CheckTx, a rejected proposal), first deposits of both bridged denoms naming base denoms that
// differ from the ones the committed history will use, followed in the same branch by every
// reader of the mapping: a refund (failing deposit), a user withdrawal, Query/BaseDenom.  Nothing
// of this may influence the committed history: it is part of the scenario set-up (also on every
// replay of the shrinker), not of the case's operations, and the model never sees it.
func c09Speculate(sc *L2Scenario) {
	e := sc.Env
	saved := e.Ctx
	branch, _ := saved.CacheContext()
	e.Ctx = branch
	exec := e.User(1).Str
	seq := uint64(1)
	for di, d := range sc.L2Denoms {
		rcp := e.User(uint64(3 + di))
		op := sc.Deposit(exec, seq, rcp.Str, di, big.NewInt(40), Hook{Kind: "none"})
		op.Base = fmt.Sprintf("uspec%d", di)
		e.L2Exec(op)
		seq++
		bad := sc.Deposit(exec, seq, "notanaddress", di, big.NewInt(5), Hook{Kind: "none"}) // refund path reads the mapping
		bad.Base = op.Base
		e.L2Exec(bad)
		seq++
		e.L2Exec(L2Op{Kind: "withdraw", Sender: rcp.Str, To: sc.L1Addrs[0], Denom: d, Amt: big.NewInt(3)})
		_, _ = e.Q.BaseDenom(e.Ctx, &opchildtypes.QueryBaseDenomRequest{Denom: d})
	}
	e.Ctx = saved // the branch is dropped
}

func c09Amount(r *Rng) *big.Int {
	switch r.Weighted([]int{6, 60, 20, 6, 8}) {
	case 0:
		return big.NewInt(0)
	case 1:
		return big.NewInt(int64(1 + r.Intn(200)))
	case 2:
		return big.NewInt(int64(1000 + r.Intn(1000000)))
	case 3:
		return new(big.Int).Add(l2Two64, big.NewInt(int64(r.Intn(5))))
	default:
		return new(big.Int).Sub(l2Two64, big.NewInt(int64(1+r.Intn(3))))
	}
}

func genC09(seed uint64, tier string, outdir string) *Report {
	rep := NewReport("C09", seed, tier)
	rep.Rule = "a case is one random history on a fresh chain; distinct by hash of the op list; non-trivial = at least one withdrawal accepted, one rejected and one deposit refunded"
	nCases, length := 48, 70
	if tier == "thorough" {
		nCases, length = 240, 110
	}
	var texts []string
	for k := 0; k < nCases; k++ {
		kk := k
		fresh := func() *L2Scenario {
			sc := NewL2Scenario(seed*7919+uint64(kk), kk+1, false)
			c := sc.Case
			// also watch a bridged denom that is never deposited and an unknown one
			c.Track.Denoms = append(c.Track.Denoms, "l2/0000000000000000000000000000000000000000000000000000000000000000", "ufoo")
			c.Bals, c.Sups, c.Pairs = nil, nil, nil
			c.Snapshot()
			if kk%3 != 2 {
				c09Speculate(sc)
			}
			return sc
		}
		sc := fresh()
		e, r, c := sc.Env, sc.R, sc.Case
		initObs := e.L2Obs(c.Track, ExecResult{OK: true})
		wOK, wErr, refunded := false, false, false
		for i := 0; i < length; i++ {
			n1, _ := e.K.GetNextL1Sequence(e.Ctx)
			switch r.Weighted([]int{34, 12, 34, 5, 5, 4, 6}) {
			case 0: // deposit at the expected sequence (sometimes stale / ahead / by a stranger)
				seq := n1
				if r.Chance(6) {
					seq = n1 + 1
				} else if r.Chance(6) && n1 > 1 {
					seq = n1 - 1
				}
				sender := sc.SenderString(r.Weighted([]int{88, 4, 8, 0, 0, 0}))
				toID := uint64(1 + r.Intn(6))
				to := e.User(toID).Str
				switch r.Weighted([]int{76, 8, 8, 8}) {
				case 1:
					to = sc.SenderString(5) // not an address
				case 2:
					to = e.ModAddr[uint64(ModOpchild+r.Intn(3))].String() // blocked module account
					toID = 0
				case 3:
					to = upperBech32(to)
				}
				di := r.Intn(2)
				amt := c09Amount(r)
				hook := Hook{Kind: "none"}
				if toID != 0 && r.Chance(25) {
					// the recipient signs a tx that forwards part of (or more than) what it will hold
					bal := e.BK.GetBalance(e.Ctx, e.User(toID).Addr, sc.L2Denoms[di]).Amount.BigInt()
					have := new(big.Int).Add(bal, amt)
					var sendAmt *big.Int
					if r.Chance(50) || have.Sign() == 0 {
						sendAmt = new(big.Int).Add(have, big.NewInt(int64(1+r.Intn(5)))) // fails: refund
					} else {
						sendAmt = new(big.Int).Add(big.NewInt(1), new(big.Int).Rsh(have, 1))
					}
					txSeq := e.AccSeq(toID)
					if r.Chance(10) {
						txSeq++
					}
					fwd := HookSend{To: uint64(1 + r.Intn(6)), Denom: sc.L2Denoms[di], Amt: sendAmt}
					msgs := []HookSend{fwd}
					if have.Sign() > 0 {
						// a withdrawal carried by the hook (D14): part of the funds goes straight back to L1
						part := new(big.Int).Add(big.NewInt(1), new(big.Int).Rsh(have, 2))
						if part.Cmp(l2Two64) >= 0 {
							part = big.NewInt(7)
						}
						wd := HookSend{Withdraw: true, ToL1: sc.L1Addrs[r.Intn(len(sc.L1Addrs))], Denom: sc.L2Denoms[di], Amt: part}
						switch r.Weighted([]int{40, 20, 20, 20}) {
						case 1:
							msgs = []HookSend{wd} // withdraw only
						case 2:
							msgs = []HookSend{wd, fwd} // withdraw, then a transfer that may fail: all or nothing
						case 3:
							msgs = []HookSend{wd, wd}
						}
					}
					hook = e.MakeHookTx(toID, txSeq, !r.Chance(10), msgs)
				} else if r.Chance(5) {
					hook = Hook{Kind: "garbage", Raw: []byte{0xff, 0x01, 0x02}}
				}
				op := sc.Deposit(sender, seq, to, di, amt, hook)
				switch r.Weighted([]int{76, 12, 4, 4, 4}) {
				case 4: // a base denom at the length boundary L1 accepts (116..128 characters): its own, new L2 denom
					bd := c07BoundaryDenoms(kk)
					op.Base = bd[3+r.Intn(5)] // 115, 116, 117, 127, 128 characters
					op.Denom = ophosttypes.L2Denom(sc.BridgeID, op.Base)
				case 1:
					op.Base = "uevil" // a different base denom for a (possibly) existing L2 denom
				case 2:
					op.Base = sc.L1Denoms[1-di]
				case 3:
					op.Denom = sc.Native // an executor finalising a deposit of the native denom
				}
				res := c.Do(op)
				if res.OK {
					for _, ev := range parseL2EvList(res.Events) {
						if ev.IsDep && !ev.Success {
							refunded = true
						}
					}
				}
			case 1: // transfer
				from, to := uint64(1+r.Intn(6)), uint64(1+r.Intn(6))
				d := c.Track.Denoms[r.Intn(len(c.Track.Denoms))]
				bal := e.BK.GetBalance(e.Ctx, e.User(from).Addr, d).Amount.BigInt()
				amt := big.NewInt(int64(1 + r.Intn(50)))
				if bal.Sign() > 0 && r.Chance(60) {
					amt = new(big.Int).Add(big.NewInt(1), new(big.Int).Rsh(bal, 1))
				}
				c.Do(L2Op{Kind: "send", FromID: from, ToID: to, Denom: d, Amt: amt})
			case 2: // withdrawal
				uid := uint64(1 + r.Intn(6))
				u := e.User(uid)
				d := c.Track.Denoms[r.Weighted([]int{40, 30, 12, 9, 9})]
				bal := e.BK.GetBalance(e.Ctx, u.Addr, d).Amount.BigInt()
				var amt *big.Int
				switch r.Weighted([]int{30, 20, 20, 8, 6, 6, 5, 5}) {
				case 0:
					amt = big.NewInt(int64(1 + r.Intn(100)))
				case 1:
					amt = new(big.Int).Set(bal)
				case 2:
					amt = new(big.Int).Add(bal, big.NewInt(1))
				case 3:
					amt = new(big.Int).Sub(bal, big.NewInt(1))
				case 4:
					amt = big.NewInt(0)
				case 5:
					amt = new(big.Int).Set(l2Two64)
				case 6:
					amt = new(big.Int).Sub(l2Two64, big.NewInt(1))
				default:
					amt = new(big.Int).Add(big.NewInt(1), new(big.Int).Rsh(bal, 1))
				}
				if amt.Sign() < 0 {
					amt = big.NewInt(1)
				}
				sender := u.Str
				switch r.Weighted([]int{90, 5, 5}) {
				case 1:
					sender = upperBech32(sender)
					sc.register(sender)
				case 2:
					sender = sc.SenderString(5)
				}
				to := sc.L1Addrs[r.Intn(len(sc.L1Addrs))]
				if r.Chance(3) {
					to = ""
				}
				res := c.Do(L2Op{Kind: "withdraw", Sender: sender, To: to, Denom: d, Amt: amt})
				if res.OK {
					wOK = true
				} else {
					wErr = true
				}
			case 3: // executor list change (sometimes adds the module authority, enabling batched deposits)
				ps, _ := e.K.GetParams(e.Ctx)
				np := &L2Params{Admin: ps.Admin, MaxV: uint64(ps.MaxValidators), Hist: uint64(ps.HistoricalEntries), MinGas: c.Params.MinGas, Whitelist: []string{}, HookGas: ps.HookMaxGas}
				if r.Chance(35) {
					np.HookGas = []uint64{0, 1000000}[r.Intn(2)] // hooks switched off (hook_max_gas = 0) / on again
				}
				np.Execs = append(np.Execs, e.User(uint64(1+r.Intn(2))).Str)
				if r.Chance(60) {
					np.Execs = append(np.Execs, e.Auth)
				}
				auth := sc.SenderString(r.Weighted([]int{5, 0, 10, 80, 5, 0}))
				sc.register(auth, e.Auth)
				c.Do(L2Op{Kind: "params", Sender: auth, Params: np})
			case 4: // deposits wrapped in ExecuteMessages
				ps, _ := e.K.GetParams(e.Ctx)
				sc.register(ps.Admin, e.Auth)
				var inner []L2Op
				n := 1 + r.Intn(2)
				for j := 0; j < n; j++ {
					to := e.User(uint64(1 + r.Intn(6))).Str
					if r.Chance(30) {
						to = "notanaddress"
					}
					inner = append(inner, sc.Deposit(e.Auth, n1+uint64(j), to, r.Intn(2), big.NewInt(int64(1+r.Intn(40))), Hook{Kind: "none"}))
				}
				res := c.Do(L2Op{Kind: "exec", Sender: ps.Admin, Inner: inner})
				if res.OK {
					for _, ev := range parseL2EvList(res.Events) {
						if ev.IsDep && !ev.Success {
							refunded = true
						}
					}
				}
			case 5: // fee pool spend
				auth := sc.SenderString(r.Weighted([]int{0, 0, 15, 85, 0, 0}))
				to := e.User(uint64(1 + r.Intn(6))).Str
				sc.register(auth, to)
				c.Do(L2Op{Kind: "spend", Sender: auth, To: to, Coins: []HookSend{{Denom: sc.Native, Amt: big.NewInt(int64(1 + r.Intn(300)))}}})
			case 6: // withdrawal right after a deposit to the same user: the whole credited amount
				uid := uint64(1 + r.Intn(6))
				u := e.User(uid)
				di := r.Intn(2)
				amt := big.NewInt(int64(1 + r.Intn(500)))
				c.Do(sc.Deposit(sc.SenderString(0), n1, u.Str, di, amt, Hook{Kind: "none"}))
				bal := e.BK.GetBalance(e.Ctx, u.Addr, sc.L2Denoms[di]).Amount.BigInt()
				res := c.Do(L2Op{Kind: "withdraw", Sender: u.Str, To: sc.L1Addrs[0], Denom: sc.L2Denoms[di], Amt: bal})
				if res.OK {
					wOK = true
				} else {
					wErr = true
				}
			}
		}
		nv := len(rep.Violations)
		c09Check(rep, c, initObs)
		shrinkL2Violations(rep, nv, c, l2Replayer{Fresh: fresh, Monitor: c09Check})
		l2QueryMonitor(rep, c, "C09")
		rep.Ops += len(c.Ops)
		rep.CountCase(strings.Join(opsCoq(c.Ops), "\n"), wOK && wErr && refunded)
		if k == 0 {
			rep.Sample(map[string]interface{}{"kind": "random history (first 10 ops)", "ops": opsCoq(c.Ops[:10])})
		}
		texts = append(texts, c.Coq())
	}
	// Fault-injected histories (monitor-only: the L2 model has no fault notion; Model/L2Fault.v
	// proves the corresponding statement): errors and panics at MintCoins and at the transfer to
	// the recipient of some deposits, interleaved with normal traffic.  A failed deposit must be
	// refunded with the bank exactly as before, so the supply ledger has to keep holding.
	nFault, fLen := 10, 40
	if tier == "thorough" {
		nFault, fLen = 80, 80
	}
	for k := 0; k < nFault; k++ {
		kk := k
		fresh := func() *L2Scenario { return NewL2Scenario(seed*104729+uint64(kk), 100000+kk, true) }
		sc := fresh()
		e, r, c := sc.Env, sc.R, sc.Case
		initObs := e.L2Obs(c.Track, ExecResult{OK: true})
		for i := 0; i < fLen; i++ {
			n1, _ := e.K.GetNextL1Sequence(e.Ctx)
			switch r.Weighted([]int{55, 15, 30}) {
			case 0:
				to := e.User(uint64(1 + r.Intn(6))).Str
				amt := big.NewInt(int64(1 + r.Intn(300)))
				op := sc.Deposit(sc.SenderString(0), n1, to, r.Intn(2), amt, Hook{Kind: "none"})
				if r.Chance(50) { // keeper calls of a positive deposit: 1 = MintCoins, 2 = SendCoinsFromModuleToAccount
					op.FaultAt, op.FaultPanic = 1+r.Intn(2), r.Bool()
					kind := "error"
					if op.FaultPanic {
						kind = "panic"
					}
					rep.Hist(fmt.Sprintf("fault:%s@%d", kind, op.FaultAt))
				}
				doL2Op(c, op)
			case 1:
				from, to := uint64(1+r.Intn(6)), uint64(1+r.Intn(6))
				d := sc.L2Denoms[r.Intn(2)]
				c.Do(L2Op{Kind: "send", FromID: from, ToID: to, Denom: d, Amt: big.NewInt(int64(1 + r.Intn(40)))})
			case 2:
				u := e.User(uint64(1 + r.Intn(6)))
				d := sc.L2Denoms[r.Intn(2)]
				bal := e.BK.GetBalance(e.Ctx, u.Addr, d).Amount.BigInt()
				amt := new(big.Int).Add(big.NewInt(int64(r.Intn(3))), new(big.Int).Rsh(bal, 1))
				c.Do(L2Op{Kind: "withdraw", Sender: u.Str, To: sc.L1Addrs[0], Denom: d, Amt: amt})
			}
		}
		nv := len(rep.Violations)
		c09Check(rep, c, initObs)
		shrinkL2Violations(rep, nv, c, l2Replayer{Fresh: fresh, Monitor: c09Check})
		l2QueryMonitor(rep, c, "C09")
		rep.Ops += len(c.Ops)
		rep.CountCase(strings.Join(opsCoq(c.Ops), "\n"), true)
	}
	rep.Notes = append(rep.Notes, fmt.Sprintf("%d fault-injected histories of %d operations (error / panic at MintCoins, SendCoinsFromModuleToAccount of deposits), monitor-only", nFault, fLen))
	rep.Notes = append(rep.Notes, fmt.Sprintf("%d random histories of %d+ operations; monitors: supply ledger, shared L2 sequence, exact burn, write-once denom map, refund neutrality, withdrawal completeness", nCases, length))
	writeShards(outdir, "C09", l2CaseHeader, "run_l2case", "l2case", texts, 16, rep)
	return rep
}
