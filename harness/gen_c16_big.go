package main

import (
	"encoding/hex"
	"fmt"
	"math/big"
	"strings"

	"github.com/cosmos/cosmos-sdk/types/query"

	ophosttypes "github.com/initia-labs/OPinit/x/ophost/types"
)

// C16, class "collections larger than a default page" (query.DefaultLimit = 100): scripted cases
// whose exported state has > 100 token pairs on one bridge, > 100 bridges, > 100 outputs on one
// bridge, > 100 claim records (L1) and > 100 denom pairs (L2).  They go through the same
// export / validate / import / re-export / probe pipeline as the random cases; each is written
// to its own case file so that the model evaluates them in parallel.

const bigPage = 1000000

// l1FullView reads the complete ophost state of an instance ENTRY BY ENTRY through the keeper and
// the queries with explicit page limits - independently of ExportGenesis - so that the original
// chain and the re-imported chain are compared on everything they store.
func l1FullView(e *L1Env) string {
	ctx := e.Ctx
	var sb strings.Builder
	nb, err := e.K.GetNextBridgeId(ctx)
	if err != nil {
		panic(err)
	}
	fmt.Fprintf(&sb, "next_bridge=%d;fee=%s;", nb, e.K.GetParams(ctx).RegistrationFee.String())
	page := &query.PageRequest{Limit: bigPage}
	brs, err := e.Q.Bridges(ctx, &ophosttypes.QueryBridgesRequest{Pagination: page})
	if err != nil {
		panic(err)
	}
	fmt.Fprintf(&sb, "bridges=%d;", len(brs.Bridges))
	for _, br := range brs.Bridges {
		b := br.BridgeId
		cfg := br.BridgeConfig
		ns, _ := e.K.GetNextL1Sequence(ctx, b)
		no, _ := e.K.GetNextOutputIndex(ctx, b)
		fmt.Fprintf(&sb, "\nB%d{%s|%s|%d|%d|%d|%s|%d|%v|%x;seq=%d;out=%d;", b, cfg.Proposer, cfg.Challenger, cfg.FinalizationPeriod, cfg.SubmissionInterval,
			cfg.SubmissionStartHeight, cfg.BatchInfo.Submitter, cfg.BatchInfo.ChainType, cfg.OracleEnabled, cfg.Metadata, ns, no)
		outs, err := e.Q.OutputProposals(ctx, &ophosttypes.QueryOutputProposalsRequest{BridgeId: b, Pagination: page})
		if err != nil {
			panic(err)
		}
		fmt.Fprintf(&sb, "outputs=%d[", len(outs.OutputProposals))
		for _, o := range outs.OutputProposals {
			fmt.Fprintf(&sb, "%d:%x/%d/%d/%d,", o.OutputIndex, o.OutputProposal.OutputRoot, o.OutputProposal.L1BlockNumber, o.OutputProposal.L1BlockTime.UnixNano(), o.OutputProposal.L2BlockNumber)
		}
		tps, err := e.Q.TokenPairs(ctx, &ophosttypes.QueryTokenPairsRequest{BridgeId: b, Pagination: page})
		if err != nil {
			panic(err)
		}
		fmt.Fprintf(&sb, "];pairs=%d[", len(tps.TokenPairs))
		for _, p := range tps.TokenPairs {
			one, err := e.Q.TokenPairByL2Denom(ctx, &ophosttypes.QueryTokenPairByL2DenomRequest{BridgeId: b, L2Denom: p.L2Denom})
			got := "ERR"
			if err == nil {
				got = one.TokenPair.L1Denom
			}
			fmt.Fprintf(&sb, "%s=%s(%s),", p.L2Denom, p.L1Denom, got)
		}
		bis, err := e.Q.BatchInfos(ctx, &ophosttypes.QueryBatchInfosRequest{BridgeId: b, Pagination: page})
		if err != nil {
			panic(err)
		}
		fmt.Fprintf(&sb, "];batches=%d[", len(bis.BatchInfos))
		for _, x := range bis.BatchInfos {
			fmt.Fprintf(&sb, "%s/%d/%x/%d,", x.BatchInfo.Submitter, x.BatchInfo.ChainType, x.Output.OutputRoot, x.Output.L2BlockNumber)
		}
		n := 0
		var cl strings.Builder
		_ = e.K.IterateProvenWithdrawals(ctx, b, func(_ uint64, h [32]byte) (bool, error) {
			n++
			cl.WriteString(hex.EncodeToString(h[:8]) + ",")
			return false, nil
		})
		fmt.Fprintf(&sb, "];claims=%d[%s]}", n, cl.String())
	}
	return sb.String()
}

// firstDiff returns a short window around the first position where two views differ.
func firstDiff(a, b string) string {
	i := 0
	for i < len(a) && i < len(b) && a[i] == b[i] {
		i++
	}
	lo := i - 160
	if lo < 0 {
		lo = 0
	}
	cut := func(s string) string {
		hi := i + 160
		if hi > len(s) {
			hi = len(s)
		}
		if lo > len(s) {
			return ""
		}
		return s[lo:hi]
	}
	return fmt.Sprintf("at byte %d: original ...%s... | re-imported ...%s...", i, cut(a), cut(b))
}

// big case A: one bridge with 101..130 token pairs (zero-amount deposits of distinct denoms),
// more than 100 bridges, more than 100 outputs on one bridge.
func (sc *L1Scenario) c16BigA() {
	e, c := sc.Env, sc.Case
	c.Do(sc.Create(e.User(7).Str, sc.NewConfig(1, 2, sec)))
	c.Do(sc.Create(e.User(7).Str, sc.NewConfig(3, 4, 3600*sec)))
	nPairs := 101 + sc.R.Intn(30)
	sender := e.User(2).Str
	sc.reg(sender)
	for i := 0; i < nPairs; i++ {
		amt := big.NewInt(0)
		denom := fmt.Sprintf("tok%03d", i)
		c.Do(sc.op(L1Op{Kind: "deposit", Sender: sender, Bridge: 1, To: "l2recipient", Denom: denom, Amt: amt}))
	}
	for _, d := range sc.Denoms {
		c.Do(sc.op(L1Op{Kind: "deposit", Sender: sender, Bridge: 1, To: "l2recipient", Denom: d, Amt: big.NewInt(1)}))
	}
	nBridges := 101 + sc.R.Intn(8)
	for i := 2; i < nBridges; i++ {
		c.Do(sc.Create(e.User(7).Str, sc.NewConfig(uint64(1+i%7), uint64(1+(i+3)%7), 7*sec)))
	}
	prop, _, _, _ := sc.Config(2)
	sc.reg(prop)
	nOut := 101 + sc.R.Intn(12)
	for i := 1; i <= nOut; i++ {
		c.Do(sc.op(L1Op{Kind: "propose", Sender: prop, Bridge: 2, Idx: uint64(i), L2: uint64(3 * i), Root: sc.R.Bytes(32)}))
	}
	sc.Advance(2 * sec)
}

// big case B: more than 100 claim records on one bridge (101..104 outputs with one paid withdrawal each)
func (sc *L1Scenario) c16BigB() {
	e, c := sc.Env, sc.Case
	c.Do(sc.Create(e.User(7).Str, sc.NewConfig(1, 2, sec)))
	c.Do(sc.Create(e.User(7).Str, sc.NewConfig(2, 3, sec)))
	for _, d := range sc.Denoms {
		sender := e.User(5).Str
		sc.reg(sender)
		c.Do(sc.op(L1Op{Kind: "deposit", Sender: sender, Bridge: 1, To: "l2recipient", Denom: d, Amt: big.NewInt(6000)}))
	}
	// 101..104 outputs, each carrying a one-leaf tree (cheap proofs: the model evaluates every
	// claim's hashes under vm_compute), all paid after the finalization period
	prop, _, _, _ := sc.Config(1)
	sc.reg(prop)
	n := 101 + sc.R.Intn(4)
	var pts []*ProposedTree
	for i := 1; i <= n; i++ {
		pt := sc.MakeTree(1, 1)
		pt.Idx = uint64(i)
		if c.Do(sc.op(L1Op{Kind: "propose", Sender: prop, Bridge: 1, Idx: uint64(i), L2: uint64(3 * i), Root: pt.Root})).OK {
			sc.Trees = append(sc.Trees, pt)
			pts = append(pts, pt)
		}
	}
	sc.Advance(3 * sec)
	for _, pt := range pts {
		c.Do(sc.Claim(pt, 0, e.User(3).Str))
	}
}
