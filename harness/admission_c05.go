package main

import (
	"fmt"
	"math"
	"time"

	ophosttypes "github.com/initia-labs/OPinit/x/ophost/types"
)

// C05, admission of finalization periods on EVERY path by which the chain can come to hold a
// bridge config (monitor-only, no model case): a genesis state fed to InitGenesis on a fresh
// instance WITHOUT ValidateGenesis (the chain-start path; a panic = refused), the same genesis
// through ValidateGenesis first, and MsgCreateBridge.  The four role / config update messages
// carry no period (checked by C05:period-immutable / C05:period-mismatch on every history).
// A bridge with a non-positive period must never be accepted; a positive one must be.  When a
// non-positive one IS accepted the consequence is demonstrated: an output proposed on it is final
// in the block that proposed it and cannot be deleted.

type admPeriod struct {
	ns   int64
	name string
}

var admPeriods = []admPeriod{{0, "0"}, {-1, "-1ns"}, {-3600 * sec, "-1h"}, {math.MinInt64, "MinInt64"}, {1, "1ns"}, {sec, "1s"}, {7 * 24 * 3600 * sec, "7d"}}

func admConfig(e *L1Env, p int64) ophosttypes.BridgeConfig {
	c := &L1Config{Proposer: e.User(1).Str, Challenger: e.User(2).Str, Period: p, Interval: 10 * sec, Start: 1, Submitter: e.User(1).Str, Chain: 1, Meta: []byte("m")}
	return c.Real()
}

func admBridge(e *L1Env, id uint64, p int64) ophosttypes.Bridge {
	cfg := admConfig(e, p)
	return ophosttypes.Bridge{BridgeId: id, NextL1Sequence: 1, NextOutputIndex: 1, BridgeConfig: cfg,
		BatchInfos: []ophosttypes.BatchInfoWithOutput{{BatchInfo: cfg.BatchInfo, Output: ophosttypes.Output{}}}}
}

// consequence: what an accepted bridge b with a non-positive period does
func admConsequence(e *L1Env, b uint64) string {
	now := t0 + 5*sec + 123
	root := make([]byte, 32)
	root[0] = 9
	r := e.L1Exec(L1Op{Kind: "propose", Now: now, Height: 200, Sender: e.User(1).Str, Bridge: b, Idx: 1, L2: 4, Root: root})
	if !r.OK {
		return "a proposal on it is refused: " + r.Err
	}
	fin, _ := e.K.IsFinalized(e.Ctx, b, 1)
	d := e.L1Exec(L1Op{Kind: "delete", Now: now, Height: 200, Sender: e.User(2).Str, Bridge: b, Idx: 1})
	return fmt.Sprintf("output 1 proposed at %d: IsFinalized in the same block = %v; delete by the challenger in the same block accepted = %v (%s)", now, fin, d.OK, d.Err)
}

func initGenesisGuarded(e *L1Env, gs *ophosttypes.GenesisState) (panicked interface{}) {
	defer func() { panicked = recover() }()
	branch, write := e.Ctx.CacheContext()
	e.K.InitGenesis(branch, gs)
	write()
	return nil
}

func c05Admission(rep *Report, seed uint64, firstID int) {
	id := firstID
	n := 0
	check := func(path, desc string, period int64, accepted bool, e *L1Env, b uint64) {
		id++
		n++
		verdict := "refused"
		if accepted {
			verdict = "accepted"
		}
		class := "positive"
		if period <= 0 {
			class = "non-positive"
		}
		rep.Hist("adm:" + path + ":" + class + ":" + verdict)
		hist := []string{desc}
		if accepted && period <= 0 {
			rep.Violate(Violation{Case: id, Step: 0, Sig: "C05:nonpositive-period-accepted", Ops: hist,
				What: fmt.Sprintf("%s accepted a bridge with finalization period %d ns; consequence: %s", path, period, admConsequence(e, b))})
		}
		if !accepted && period > 0 {
			rep.Violate(Violation{Case: id, Step: 0, Sig: "C05:positive-period-refused", Ops: hist,
				What: fmt.Sprintf("%s refused a bridge with finalization period %d ns", path, period)})
		}
		rep.CountCase(path+"|"+desc, true)
		rep.Ops++
	}
	stored := func(e *L1Env, b uint64) (int64, bool) {
		cfg, err := e.K.GetBridgeConfig(e.Ctx, b)
		return int64(cfg.FinalizationPeriod), err == nil
	}
	for k, p := range admPeriods {
		// (a) InitGenesis alone, (b) ValidateGenesis then InitGenesis; one bridge, and the bridge in question
		// behind a perfectly good one
		for variant := 0; variant < 2; variant++ {
			for path := 0; path < 2; path++ {
				e := NewL1Env(seed+uint64(k), 7, nil)
				gs := &ophosttypes.GenesisState{Params: ophosttypes.DefaultParams(), NextBridgeId: 2}
				b := uint64(1)
				desc := fmt.Sprintf("genesis {next_bridge_id 2; bridge 1: period %s}", p.name)
				if variant == 1 {
					gs.Bridges = append(gs.Bridges, admBridge(e, 1, 3600*sec))
					gs.NextBridgeId, b = 3, 2
					desc = fmt.Sprintf("genesis {next_bridge_id 3; bridge 1: period 1h; bridge 2: period %s}", p.name)
				}
				gs.Bridges = append(gs.Bridges, admBridge(e, b, p.ns))
				name := "InitGenesis without ValidateGenesis"
				accepted := true
				if path == 1 {
					name = "ValidateGenesis + InitGenesis"
					if err := ophosttypes.ValidateGenesis(gs, e.AK.AddressCodec()); err != nil {
						accepted = false
					}
				}
				if accepted {
					if pan := initGenesisGuarded(e, gs); pan != nil {
						accepted = false
					} else if _, ok := stored(e, b); !ok {
						accepted = false
					}
				}
				check(name, desc, p.ns, accepted, e, b)
			}
		}
		// (c) MsgCreateBridge
		e := NewL1Env(seed+uint64(k), 7, nil)
		cfg := &L1Config{Proposer: e.User(1).Str, Challenger: e.User(2).Str, Period: p.ns, Interval: 10 * sec, Start: 1, Submitter: e.User(1).Str, Chain: 1, Meta: []byte("m")}
		r := e.L1Exec(L1Op{Kind: "create", Now: t0, Height: 100, Sender: e.User(7).Str, Config: cfg})
		_, ok := stored(e, 1)
		check("MsgCreateBridge", fmt.Sprintf("MsgCreateBridge {period %s}", p.name), p.ns, r.OK && ok, e, 1)
	}
	rep.Notes = append(rep.Notes, fmt.Sprintf("admission: %d (path, period) pairs - InitGenesis without / with ValidateGenesis (bridge alone and behind a valid bridge) and MsgCreateBridge, periods 0, -1ns, -1h, MinInt64, 1ns, 1s, 7d", n))
	_ = time.Second
}
