package main

// Shared by the C10 / C02 / C01 streams: a driver around RunL1Twice that mixes scripted
// scenarios with the generic random L1 history, typed access to the recorded observations
// (harness/l1ops.go L1Obs) and the scripted-step helpers.

import (
	"bytes"
	"context"
	"encoding/hex"
	"fmt"
	"math/big"
	"os"
	"sort"
	"strings"
	"time"

	"cosmossdk.io/math"
	sdk "github.com/cosmos/cosmos-sdk/types"

	ophosttypes "github.com/initia-labs/OPinit/x/ophost/types"
)

// ---- executions that are not part of the modelled op list ----
// discards[i]: ops executed on a state branch that is thrown away (simulation / failed tx) right
// before op i; reenter[i]: op i (a finalization) runs with a bank send restriction armed that
// submits the very same message once more from inside the payout transfer; nested[i]: what the
// nested submission returned.  The model ignores all of this: a discarded execution is a no-op and
// a re-entrant duplicate must be rejected without effect.
type l1Side struct {
	discards map[int][][]L1Op // groups; each group runs on one branch that is thrown away
	reenter  map[int]bool
	nested   map[int]string
	// reenterDep[i]: while the sender -> escrow transfer of deposit op i runs, this deposit is submitted
	// through the msg server from inside the transfer; nestedDep[i]: what it returned
	reenterDep map[int]L1Op
	nestedDep  map[int]*nestedDeposit
}

type nestedDeposit struct {
	Op      L1Op
	Reached bool
	OK      bool
	Seq     uint64
}

var l1Sides = map[*L1Case]*l1Side{}

func sideOf(c *L1Case) *l1Side {
	s := l1Sides[c]
	if s == nil {
		s = &l1Side{discards: map[int][][]L1Op{}, reenter: map[int]bool{}, nested: map[int]string{}, reenterDep: map[int]L1Op{}, nestedDep: map[int]*nestedDeposit{}}
		l1Sides[c] = s
	}
	return s
}

type reentryState struct {
	armed   bool
	msg     *ophosttypes.MsgFinalizeTokenWithdrawal
	escrow  sdk.AccAddress
	verdict string
	// nested deposit
	depArmed       bool
	depMsg         *ophosttypes.MsgInitiateTokenDeposit
	depFrom, depTo sdk.AccAddress
	depRes         nestedDeposit
}

var reentries = map[*L1Env]*reentryState{}

// installReentry appends a send restriction to the real bank keeper; unarmed it does nothing
func installReentry(e *L1Env) {
	st := &reentryState{}
	reentries[e] = st
	e.BK.AppendSendRestriction(func(ctx context.Context, from, to sdk.AccAddress, amt sdk.Coins) (sdk.AccAddress, error) {
		if st.armed && from.Equals(st.escrow) {
			st.armed = false
			if _, err := e.Msg.FinalizeTokenWithdrawal(ctx, st.msg); err == nil {
				st.verdict = "accepted"
			} else {
				st.verdict = "rejected"
			}
		}
		if st.depArmed && from.Equals(st.depFrom) && to.Equals(st.depTo) {
			st.depArmed = false
			st.depRes.Reached = true
			if resp, err := e.Msg.InitiateTokenDeposit(ctx, st.depMsg); err == nil {
				st.depRes.OK, st.depRes.Seq = true, resp.Sequence
			}
		}
		return to, nil
	})
}

func finalizeMsgOf(o L1Op) *ophosttypes.MsgFinalizeTokenWithdrawal {
	return &ophosttypes.MsgFinalizeTokenWithdrawal{Sender: o.Sender, BridgeId: o.Bridge, OutputIndex: o.Idx,
		WithdrawalProofs: o.Proofs, From: o.From, To: o.To, Sequence: o.Seq, Amount: coinOf(o.Denom, o.Amt), Version: o.Version, StorageRoot: o.SRoot, LastBlockHash: o.BHash}
}

// execWith runs op i of a case with its side executions: discarded pre-executions, armed re-entry
func execWith(c *L1Case, side *l1Side, i int, o L1Op, do func(L1Op) ExecResult) ExecResult {
	e := c.Env
	for _, g := range side.discards[i] {
		runDiscarded(e, g)
	}
	st := reentries[e]
	if side.reenter[i] && st != nil {
		st.armed, st.msg, st.escrow, st.verdict = true, finalizeMsgOf(o), escrowAddr(o.Bridge), "not-reached"
	}
	nd, hasDep := side.reenterDep[i]
	if hasDep && st != nil {
		from, _ := e.AK.AddressCodec().StringToBytes(o.Sender)
		st.depArmed, st.depFrom, st.depTo, st.depRes = true, from, escrowAddr(o.Bridge), nestedDeposit{Op: nd}
		st.depMsg = &ophosttypes.MsgInitiateTokenDeposit{Sender: nd.Sender, BridgeId: nd.Bridge, To: nd.To, Amount: coinOf(nd.Denom, nd.Amt), Data: nd.Data}
	}
	r := do(o)
	if side.reenter[i] && st != nil {
		st.armed = false
		side.nested[i] = st.verdict
	}
	if hasDep && st != nil {
		st.depArmed = false
		res := st.depRes
		if !r.OK { // the outer message failed: whatever the nested call did was discarded with it
			res.OK = false
		}
		side.nestedDep[i] = &res
	}
	return r
}

// DepositReentrant executes the deposit `outer` and, from inside its sender -> escrow transfer, the
// deposit `nested` (a receiver-side hook / send restriction re-entering the msg server)
func (sc *L1Scenario) DepositReentrant(outer, nested L1Op) ExecResult {
	sc.reg(outer.Sender, nested.Sender)
	side := sideOf(sc.Case)
	k := len(sc.Case.Ops)
	side.reenterDep[k] = sc.op(nested)
	saved := side.discards[k]
	side.discards[k] = nil
	r := execWith(sc.Case, side, k, sc.op(outer), sc.Case.Do)
	side.discards[k] = saved
	return r
}

func (s *l1Side) monitorOnly() bool { return s != nil && len(s.reenterDep) > 0 }

// Discarded executes ops on a branch of the current state and throws the branch away
func (sc *L1Scenario) Discarded(ops ...L1Op) {
	side := sideOf(sc.Case)
	i := len(sc.Case.Ops)
	var g []L1Op
	for _, o := range ops {
		g = append(g, sc.op(o))
	}
	side.discards[i] = append(side.discards[i], g)
	// replayed by execWith in the observing pass; run now as well so that generation sees whatever
	// in-memory residue the discarded execution leaves
	runDiscarded(sc.Env, g)
}

func runDiscarded(e *L1Env, g []L1Op) {
	saved := e.Ctx
	branch, _ := saved.CacheContext()
	e.Ctx = branch
	for _, d := range g {
		res := e.L1Exec(d)
		if os.Getenv("VERIF_DEBUG") != "" {
			fmt.Println("discarded", d.Kind, d.Bridge, res.OK, res.Err)
		}
	}
	e.Ctx = saved // the branch is never written back
}

// ClaimReentrant submits leaf i of pt with the re-entrancy restriction armed
func (sc *L1Scenario) ClaimReentrant(pt *ProposedTree, i int, bridge, idx uint64, submitter string) ExecResult {
	op := sc.Claim(pt, i, submitter)
	op.Bridge, op.Idx = bridge, idx
	side := sideOf(sc.Case)
	k := len(sc.Case.Ops)
	side.reenter[k] = true
	saved := side.discards[k]
	side.discards[k] = nil // already executed by Discarded during generation
	r := execWith(sc.Case, side, k, op, sc.Case.Do)
	side.discards[k] = saved
	return r
}

// ---- typed view of one L1 observation ----
type l1View struct{ v []Ov }

func viewL1(o Ov) l1View { return l1View{o.(OL).V} }

func (v l1View) OK() bool { _, ok := v.v[0].(OL); return ok }

// numeric response (bridge id of a creation, sequence of a deposit)
func (v l1View) RespN() (uint64, bool) {
	l, ok := v.v[0].(OL)
	if !ok {
		return 0, false
	}
	n, ok := l.V[1].(ON)
	if !ok {
		return 0, false
	}
	return n.V.Uint64(), true
}
func (v l1View) NextBridge() uint64 { return v.v[1].(ON).V.Uint64() }
func (v l1View) Bal(tr *L1Track, ai, di int) *big.Int {
	return v.v[2].(OL).V[ai*len(tr.Denoms)+di].(OZ).V
}
func (v l1View) Bridge(bi int) []Ov { return v.v[3].(OL).V[bi].(OL).V }
func (v l1View) Claimed(j int) bool { return v.v[4].(OL).V[j].(OS).V == "T" }
func (v l1View) NClaims() int       { return len(v.v[4].(OL).V) }
func (v l1View) Events() []Ov       { return v.v[5].(OL).V }

// a bridge block without the time-dependent LastFinalizedOutput answer
func bridgeStable(blk []Ov) string {
	return (OL{[]Ov{blk[0], blk[1], blk[2], blk[3], blk[5], blk[6]}}).Coq()
}
func bridgeHasConfig(blk []Ov) bool { return len(blk[0].(OL).V) > 0 }
func bridgeNextSeq(blk []Ov) uint64 { return blk[1].(ON).V.Uint64() }
func bridgeNextOut(blk []Ov) uint64 { return blk[2].(ON).V.Uint64() }
func bridgeBlank(blk []Ov) bool {
	return !bridgeHasConfig(blk) && bridgeNextSeq(blk) == 1 && bridgeNextOut(blk) == 1 &&
		len(blk[3].(OL).V) == 0 && len(blk[5].(OL).V) == 0 && len(blk[6].(OL).V) == 0
}

// everything except the verdict, the events of this step and LastFinalizedOutput
func (v l1View) StableState() string {
	var sb strings.Builder
	sb.WriteString(v.v[1].Coq())
	sb.WriteString(v.v[2].Coq())
	for _, b := range v.v[3].(OL).V {
		sb.WriteString(bridgeStable(b.(OL).V))
	}
	sb.WriteString(v.v[4].Coq())
	sb.WriteString(v.v[6].Coq())
	sb.WriteString(v.v[7].Coq())
	return sb.String()
}

func idxU(xs []uint64, x uint64) int {
	for i, y := range xs {
		if y == x {
			return i
		}
	}
	return -1
}
func idxS(xs []string, x string) int {
	for i, y := range xs {
		if y == x {
			return i
		}
	}
	return -1
}

// independent derivation of the L2 denom (golang.org/x/crypto/sha3 directly)
func l2DenomIndep(b uint64, l1 string) string {
	return "l2/" + hex.EncodeToString(h3(append(be8(b), []byte(l1)...)))
}

// the leaf a finalization op commits to, computed independently from its fields
func leafOfOp(o L1Op) []byte {
	if o.Amt == nil || o.Amt.Sign() < 0 || !o.Amt.IsUint64() {
		return nil
	}
	return Withdrawal{Bridge: o.Bridge, Seq: o.Seq, From: o.From, To: o.To, Denom: o.Denom, Amt: o.Amt}.Leaf()
}
func claimKey(o L1Op) string {
	return fmt.Sprintf("%d|%d|%s|%s|%s|%s", o.Bridge, o.Seq, o.From, o.To, o.Denom, o.Amt.String())
}

// account id of an address string as the case's table knows it (0 = unknown)
func (c *L1Case) idOf(s string) uint64 { return c.Env.Table[s] }

// ---- scripted-step helpers ----
func (sc *L1Scenario) do(o L1Op) ExecResult { return sc.Case.Do(sc.op(o)) }

// the first op of every case is rejected (empty sender): its observation is the initial state
func (sc *L1Scenario) Baseline() {
	sc.do(L1Op{Kind: "deposit", Sender: "", Bridge: 1, To: "x", Denom: sc.Denoms[0], Amt: big.NewInt(1)})
}
func (sc *L1Scenario) CreateStd(proposer, challenger uint64, period int64) (uint64, bool) {
	cfg := sc.NewConfig(proposer, challenger, period)
	r := sc.Case.Do(sc.Create(sc.Env.User(proposer).Str, cfg))
	if !r.OK {
		return 0, false
	}
	nb, _ := sc.Env.K.GetNextBridgeId(sc.Env.Ctx)
	return nb - 1, true
}
func (sc *L1Scenario) DepositOp(sender string, b uint64, to, denom string, amt int64, data []byte) ExecResult {
	sc.reg(sender)
	return sc.do(L1Op{Kind: "deposit", Sender: sender, Bridge: b, To: to, Denom: denom, Amt: big.NewInt(amt), Data: data})
}

// ProposeTree proposes pt on bridge b at the bridge's next index with a fresh L2 block number.
func (sc *L1Scenario) ProposeTree(b uint64, pt *ProposedTree) (*ProposedTree, bool) {
	e := sc.Env
	prop, _, _, ok := sc.Config(b)
	if !ok {
		return nil, false
	}
	next, _ := e.K.GetNextOutputIndex(e.Ctx, b)
	last := uint64(0)
	if next > 1 {
		if o, err := e.K.GetOutputProposal(e.Ctx, b, next-1); err == nil {
			last = o.L2BlockNumber
		}
	}
	cp := &ProposedTree{Bridge: b, Idx: next, Tree: pt.Tree, Version: pt.Version, BHash: pt.BHash, Root: pt.Root}
	sc.reg(prop)
	r := sc.do(L1Op{Kind: "propose", Sender: prop, Bridge: b, Idx: next, L2: last + 1 + uint64(sc.R.Intn(3)), Root: cp.Root})
	if r.OK {
		sc.Trees = append(sc.Trees, cp)
	}
	return cp, r.OK
}

// ClaimAt submits leaf i of pt to bridge `bridge` against output index `idx` (which may differ
// from the bridge / index the tree was built for and proposed at).
func (sc *L1Scenario) ClaimAt(pt *ProposedTree, i int, bridge, idx uint64, submitter string) ExecResult {
	op := sc.Claim(pt, i, submitter)
	op.Bridge, op.Idx = bridge, idx
	return sc.Case.Do(op)
}

// trackAllClaims makes the Claimed query of every finalization op of the case (under its own
// bridge id and under a neighbouring one) part of every observation.
func (sc *L1Scenario) trackAllClaims() {
	for _, o := range sc.Case.Ops {
		if o.Kind != "finalize" {
			continue
		}
		if leaf := leafOfOp(o); leaf != nil && o.Bridge != 0 {
			sc.track(o.Bridge, leaf)
			sc.track(o.Bridge%4+1, leaf)
		}
	}
}

// ---- driver ----
type MoneyStream struct {
	Prop     string
	Weights  L1Weights
	NRandom  [2]int                           // random cases per tier
	Len      [2]int                           // random steps per case
	Scripts  []func(sc *L1Scenario, tier int) // every script is run NScript times per tier (different seeds)
	NScript  [2]int
	Widen    func(tr *L1Track)
	Monitors []L1Monitor
	Extra    func(emit func(build L1Builder), tier int) // further fully scripted cases (exhaustive parts)
	Prep     func(sc *L1Scenario)                       // applied to the fresh instance of BOTH passes before the initial snapshot
	Spice    func(sc *L1Scenario)                       // extra step interleaved with the random steps
	SpicePct int
	Rule     string
}

// the trees successfully proposed in the case the monitors are looking at (set by the driver)
var curTrees []*ProposedTree

// runL1TwicePrep is RunL1Twice with a preparation of the initial state (e.g. extra funds) that is
// applied identically to the generating and to the observing instance and is part of the snapshot.
func runL1TwicePrep(seed uint64, id int, prep func(sc *L1Scenario), build L1Builder, rep *Report) *L1Case {
	sc := newPreparedScenario(seed, id, prep)
	build(sc)
	sc2 := newPreparedScenario(seed, id, prep)
	sc2.Case.Track = sc.Case.Track
	sc2.Env.Table = sc.Env.Table
	sc2.Case.Parse = sc.Case.Parse
	sc2.Case.Bals = nil
	sc2.Case.Snapshot() // with the final tracked account list
	side1, side2 := sideOf(sc.Case), sideOf(sc2.Case)
	side2.discards, side2.reenter, side2.reenterDep = side1.discards, side1.reenter, side1.reenterDep
	for i, o := range sc.Case.Ops {
		r := execWith(sc2.Case, side2, i, o, sc2.Case.DoObs)
		if r.OK != sc.Case.Results[i].OK {
			rep.Violate(Violation{Case: id, Step: i, What: "the same history gave different verdicts on two fresh instances", Sig: "nondeterministic-verdict", Ops: l1OpsHuman(sc.Case.Ops[:i+1])})
		}
	}
	curTrees = sc.Trees
	delete(l1Sides, sc.Case)
	delete(reentries, sc.Env)
	return sc2.Case
}

func newPreparedScenario(seed uint64, id int, prep func(sc *L1Scenario)) *L1Scenario {
	sc := NewL1Scenario(seed, id, nil)
	installReentry(sc.Env)
	if prep != nil {
		prep(sc)
		sc.Case.Bals = nil
		sc.Case.Snapshot()
	}
	return sc
}

// replayL1Sub re-executes the ops of c at the given positions (with their side executions) on a fresh
// instance built from the same seed and preparation; tracked sets and the address table are c's
func replayL1Sub(c *L1Case, seed uint64, id int, prep func(sc *L1Scenario), keep []int) *L1Case {
	sc := newPreparedScenario(seed, id, prep)
	sc.Case.Track = c.Track
	sc.Env.Table = c.Env.Table
	sc.Case.Parse = c.Parse
	sc.Case.Bals = nil
	sc.Case.Snapshot()
	orig, side := l1Sides[c], sideOf(sc.Case)
	for j, k := range keep {
		if orig != nil {
			if g := orig.discards[k]; g != nil {
				side.discards[j] = g
			}
			if orig.reenter[k] {
				side.reenter[j] = true
			}
			if nd, ok := orig.reenterDep[k]; ok {
				side.reenterDep[j] = nd
			}
		}
		execWith(sc.Case, side, j, c.Ops[k], sc.Case.DoObs)
	}
	return sc.Case
}

const shrinkMaxSigs, shrinkMaxRuns = 3, 150
const shrinkMaxTime = 20 * time.Second

// shrinkL1Violations minimises the history of the first violation of each not yet minimised
// signature among rep.Violations[from:] (all found on case c): ddmin over the op prefix up to the
// failing step, every candidate re-executed on a fresh instance (same seed and preparation) and
// judged by the same monitors; "still fails" = some monitor reports the same signature.  The first
// `pinned` ops (the baseline operation) are always kept.
func shrinkL1Violations(rep *Report, c *L1Case, seed uint64, id int, prep func(sc *L1Scenario), monitors []L1Monitor, from, pinned int, done map[string]bool) {
	for vi := from; vi < len(rep.Violations); vi++ {
		v := rep.Violations[vi]
		if done[v.Sig] || len(done) >= shrinkMaxSigs || v.Case != c.ID || v.Step < pinned || v.Step >= len(c.Ops) {
			continue
		}
		done[v.Sig] = true
		judge := func(cc *L1Case) *Violation {
			scratch := NewReport(rep.Property, rep.Seed, rep.Tier)
			for _, m := range monitors {
				m(scratch, cc)
			}
			for k := range scratch.Violations {
				if scratch.Violations[k].Sig == v.Sig {
					return &scratch.Violations[k]
				}
			}
			return nil
		}
		fixed := make([]int, pinned)
		for k := range fixed {
			fixed[k] = k
		}
		var items []int
		for k := pinned; k <= v.Step; k++ {
			items = append(items, k)
		}
		test := func(keep []int) bool {
			cc := replayL1Sub(c, seed, id, prep, append(append([]int{}, fixed...), keep...))
			hit := judge(cc) != nil
			delete(l1Sides, cc)
			delete(reentries, cc.Env)
			return hit
		}
		res := DDMin(items, test, shrinkMaxRuns, shrinkMaxTime)
		cc := replayL1Sub(c, seed, id, prep, append(append([]int{}, fixed...), res.Kept...))
		if nv := judge(cc); nv != nil {
			det := map[string]interface{}{"shrunk_from": v.Step + 1, "shrink_runs": res.Runs, "shrink_complete": res.Complete,
				"original_step": v.Step, "original_what": v.What}
			if m, ok := nv.Detail.(map[string]interface{}); ok {
				for k, x := range m {
					det[k] = x
				}
			}
			nv.Detail = det
			nv.Case = v.Case
			rep.Violations[vi] = *nv
			rep.Hist(fmt.Sprintf("shrunk:%s:%d->%d", v.Sig, v.Step+1, len(nv.Ops)))
		}
		delete(l1Sides, cc)
		delete(reentries, cc.Env)
	}
}

// whalePrep gives user 7 more than 2^66 of every denom, so that an escrow can hold more than 2^64
func whalePrep(sc *L1Scenario) {
	// (called by moneyPrep after the denom list is final)
	var cs sdk.Coins
	for _, d := range sc.Denoms {
		cs = append(cs, sdk.NewCoin(d, math.NewIntFromBigInt(new(big.Int).Lsh(big.NewInt(1), 66))))
	}
	sc.Env.Fund(sc.Env.User(7).Addr, cs.Sort())
}

// fundBig puts more than 2^64 of two denoms into the escrow of b: a donation of 2^65 and two
// deposits of 2^64-1 (the largest amount a deposit may carry)
func (sc *L1Scenario) fundBig(b uint64) {
	sc.do(L1Op{Kind: "send", FromID: 7, ToID: EscrowBase + b, Denom: sc.Denoms[0], Amt: new(big.Int).Lsh(big.NewInt(1), 65)})
	max := new(big.Int).Sub(two64, big.NewInt(1))
	for k := 0; k < 2; k++ {
		sc.reg(sc.Env.User(7).Str)
		sc.do(L1Op{Kind: "deposit", Sender: sc.Env.User(7).Str, Bridge: b, To: "l2recipient", Denom: sc.Denoms[1], Amt: new(big.Int).Set(max)})
	}
}

// variantStep resubmits withdrawals in other spellings: a PAID claim with the recipient in upper-case
// bech32 (same account, other string), or a claim of a proposed tree with amount + k*2^64 (same
// low 64 bits); sometimes it first donates 2^65 to an escrow so that such an amount is payable.
func (sc *L1Scenario) variantStep() {
	e, r, c := sc.Env, sc.R, sc.Case
	sub := e.User(uint64(1 + r.Intn(7))).Str
	switch r.Weighted([]int{40, 30, 12, 18}) {
	case 0:
		var paid []int
		for i, o := range c.Ops {
			if o.Kind == "finalize" && c.Results[i].OK && upperBech32(o.To) != o.To {
				paid = append(paid, i)
			}
		}
		if len(paid) == 0 {
			return
		}
		o := c.Ops[paid[r.Intn(len(paid))]]
		o.To = upperBech32(o.To)
		if _, ok := e.Resolve(o.To); !ok {
			return
		}
		o.Sender = sub
		sc.reg(sub)
		c.Do(sc.op(o))
	case 1:
		if len(sc.Trees) == 0 {
			return
		}
		pt := sc.Trees[r.Intn(len(sc.Trees))]
		op := sc.Claim(pt, r.Intn(len(pt.Tree.Ws)), sub)
		op.Amt = new(big.Int).Add(op.Amt, new(big.Int).Mul(two64, big.NewInt(int64(1+r.Intn(2)))))
		c.Do(op)
	case 3: // a claim of a proposed tree with the denom or the L2 sender string in the other letter case
		if len(sc.Trees) == 0 {
			return
		}
		pt := sc.Trees[r.Intn(len(sc.Trees))]
		op := sc.Claim(pt, r.Intn(len(pt.Tree.Ws)), sub)
		if r.Chance(70) {
			op.Denom = swapCase(op.Denom)
		} else {
			op.From = swapCase(op.From)
		}
		c.Do(op)
	case 2:
		ex := sc.existingBridges()
		if len(ex) == 0 {
			return
		}
		sc.do(L1Op{Kind: "send", FromID: 7, ToID: EscrowBase + ex[r.Intn(len(ex))], Denom: sc.Denoms[r.Intn(len(sc.Denoms))], Amt: new(big.Int).Lsh(big.NewInt(1), 65)})
	}
}

// provenLeafMonitor: every accepted finalization must pay exactly a withdrawal that is a leaf of a
// tree proposed under the output root the message names - same bridge, sequence, sender string,
// recipient string, denom and amount.  Model-free: the trees are the ones the harness built.
func provenLeafMonitor(prop string) L1Monitor {
	return func(rep *Report, c *L1Case) {
		for i, o := range c.Ops {
			if o.Kind != "finalize" || !viewL1(c.Obs[i]).OK() {
				continue
			}
			found := false
			if len(o.Version) == 1 {
				root := outputRootOf(o.Version[0], o.SRoot, o.BHash)
				for _, pt := range curTrees {
					if !bytes.Equal(pt.Root, root) {
						continue
					}
					for _, w := range pt.Tree.Ws {
						if w.Bridge == o.Bridge && w.Seq == o.Seq && w.From == o.From && w.To == o.To && w.Denom == o.Denom && w.Amt.Cmp(o.Amt) == 0 {
							found = true
						}
					}
				}
			}
			if !found {
				l1Violate(rep, c, i, prop+":paid-unproven-withdrawal", fmt.Sprintf("bridge %d paid %s%s to %s for sequence %d, but no tree proposed under the named output root has that withdrawal as a leaf", o.Bridge, o.Amt, o.Denom, o.To, o.Seq))
			}
		}
	}
}

func runMoneyStream(cfg MoneyStream, seed uint64, tier string, outdir string) *Report {
	rep := NewReport(cfg.Prop, seed, tier)
	rep.Rule = cfg.Rule
	ti := 0
	if tier == "thorough" {
		ti = 1
	}
	var texts []string
	id := 0
	shrunk := map[string]bool{} // signatures whose first violation has been minimised
	emit := func(build L1Builder) {
		id++
		c := runL1TwicePrep(seed*100000+uint64(id), id, cfg.Prep, func(sc *L1Scenario) {
			sc.wts = cfg.Weights
			if cfg.Widen != nil {
				cfg.Widen(sc.Case.Track)
			}
			sc.Baseline()
			build(sc)
			sc.trackAllClaims()
		}, rep)
		okKinds, errKinds := map[string]bool{}, map[string]bool{}
		for i, o := range c.Ops {
			if c.Results[i].OK {
				rep.Hist(o.Kind + ":OK")
				okKinds[o.Kind] = true
			} else {
				rep.Hist(o.Kind + ":ERR")
				errKinds[o.Kind] = true
			}
		}
		nviol := len(rep.Violations)
		mons := append(append([]L1Monitor{}, cfg.Monitors...), queryDiffMonitor)
		for _, m := range mons {
			m(rep, c)
		}
		if len(rep.Violations) > nviol {
			shrinkL1Violations(rep, c, seed*100000+uint64(id), id, cfg.Prep, mons, nviol, 1, shrunk)
		}
		rep.Ops += len(c.Ops)
		rep.CountCase(strings.Join(l1OpsHuman(c.Ops), "\n"), len(okKinds) >= 2 && len(errKinds) >= 1 && okKinds[cfg.mainKind()] && errKinds[cfg.mainKind()])
		if len(rep.Samples) < 2 {
			n := len(c.Ops)
			if n > 12 {
				n = 12
			}
			rep.Sample(map[string]interface{}{"kind": "L1 history (first ops)", "ops": l1OpsHuman(c.Ops[:n])})
		}
		if sd := l1Sides[c]; sd.monitorOnly() {
			rep.Hist("case:monitor-only(nested deposit)")
		} else {
			texts = append(texts, c.Coq())
		}
		delete(l1Sides, c)
		delete(reentries, c.Env)
	}
	for si, s := range cfg.Scripts {
		s := s
		_ = si
		for k := 0; k < cfg.NScript[ti]; k++ {
			emit(func(sc *L1Scenario) {
				s(sc, ti)
				for i := 0; i < cfg.Len[ti]/3; i++ {
					sc.RandomStep()
					if cfg.Spice != nil && sc.R.Chance(cfg.SpicePct) {
						cfg.Spice(sc)
					}
				}
			})
		}
	}
	for k := 0; k < cfg.NRandom[ti]; k++ {
		emit(func(sc *L1Scenario) {
			for i := 0; i < cfg.Len[ti]; i++ {
				sc.RandomStep()
				if cfg.Spice != nil && sc.R.Chance(cfg.SpicePct) {
					cfg.Spice(sc)
				}
			}
		})
	}
	if cfg.Extra != nil {
		cfg.Extra(emit, ti)
	}
	// minimised histories first: the check prints the first few violations
	sort.SliceStable(rep.Violations, func(i, j int) bool { return isShrunk(rep.Violations[i]) && !isShrunk(rep.Violations[j]) })
	if n := rep.Histogram["case:monitor-only(nested deposit)"]; n > 0 {
		rep.Notes = append(rep.Notes, fmt.Sprintf("%d of the %d cases contain deposits submitted from inside another deposit's bank transfer; the model has no nested execution, so these cases are evaluated by the monitors only and are not among the model-compared case files (%d)", n, rep.Cases, len(texts)))
	}
	writeShards(outdir, cfg.Prop, l1CaseHeader, "run_l1case", "l1case", texts, 16, rep)
	return rep
}

func (cfg MoneyStream) mainKind() string {
	if cfg.Prop == "C10" {
		return "deposit"
	}
	return "finalize"
}

// violation helper: the failing history is the op list up to and including step i
func l1Violate(rep *Report, c *L1Case, i int, sig, what string) {
	v := Violation{Case: c.ID, Step: i, What: what, Sig: sig, Ops: l1OpsHuman(c.Ops[:i+1])}
	if side := l1Sides[c]; side != nil {
		// executions that are not part of the op list: needed to reproduce the history
		extra := map[string]interface{}{}
		for k := 0; k <= i; k++ {
			for _, g := range side.discards[k] {
				extra[fmt.Sprintf("before step %d, executed on a discarded state branch", k)] = l1OpsHuman(g)
			}
			if nd := side.nestedDep[k]; nd != nil {
				extra[fmt.Sprintf("step %d (nested)", k)] = fmt.Sprintf("while the sender -> escrow transfer of this deposit ran, this deposit was submitted from inside the transfer: %s; reached=%v accepted=%v returned sequence %d", l1OpsHuman([]L1Op{nd.Op})[0], nd.Reached, nd.OK, nd.Seq)
			}
			if side.reenter[k] {
				extra[fmt.Sprintf("step %d", k)] = "executed with a bank send restriction that submits the same message once more from inside the payout transfer; nested verdict: " + side.nested[k]
			}
		}
		if len(extra) > 0 {
			v.Detail = extra
		}
	}
	rep.Violate(v)
}

// reentryMonitor: a finalization submitted again from inside its own payout transfer must be rejected
func reentryMonitor(prop string) L1Monitor {
	return func(rep *Report, c *L1Case) {
		side := l1Sides[c]
		if side == nil {
			return
		}
		for i := range c.Ops {
			if side.reenter[i] {
				rep.Hist("reentrant-finalize:" + side.nested[i])
				if side.nested[i] == "accepted" {
					o := c.Ops[i]
					l1Violate(rep, c, i, prop+":reentrant-claim-accepted", fmt.Sprintf("the same finalization (bridge %d, sequence %d, %s%s) submitted again from inside its own payout transfer was accepted", o.Bridge, o.Seq, o.Amt, o.Denom))
				}
			}
		}
	}
}

// doublePayMonitor: at most one accepted finalization per withdrawal (bridge, sequence, from,
// recipient account, denom, amount)
func doublePayMonitor(prop string) L1Monitor {
	return func(rep *Report, c *L1Case) {
		paid := map[string]int{}
		for i, o := range c.Ops {
			if o.Kind != "finalize" || !viewL1(c.Obs[i]).OK() {
				continue
			}
			k := fmt.Sprintf("%d|%d|%s|%d|%s|%s", o.Bridge, o.Seq, o.From, c.idOf(o.To), o.Denom, o.Amt.String())
			paid[k]++
			if paid[k] > 1 {
				l1Violate(rep, c, i, prop+":paid-twice", fmt.Sprintf("withdrawal (bridge %d, sequence %d, %s -> account %d, %s%s) was paid %d times (this time against output index %d)", o.Bridge, o.Seq, o.From, c.idOf(o.To), o.Amt, o.Denom, paid[k], o.Idx))
			}
		}
	}
}

// longDenomPrep adds valid denoms of 119, 121, 121 and 128 characters (sharing a 119/120-character prefix)
// to the scenario and funds every user with them
func longDenomPrep(sc *L1Scenario) {
	p := "u" + strings.Repeat("x", 118) // 119 characters
	long := []string{p, p + "ab", p + "ac", p + "abcdefghi"}
	var cs sdk.Coins
	for _, d := range long {
		cs = append(cs, sdk.NewInt64Coin(d, 100000))
	}
	cs = cs.Sort()
	for _, u := range sc.Env.Users {
		sc.Env.Fund(u.Addr, cs)
	}
	sc.Denoms = append(sc.Denoms, long...)
	sc.Case.Track.Denoms = sc.Denoms
}

// discardStep: a creation (and a deposit into the id it would get) executed on a branch that is
// thrown away, followed by a real deposit to that still unassigned id
func (sc *L1Scenario) discardStep() {
	e, r := sc.Env, sc.R
	nb, _ := e.K.GetNextBridgeId(e.Ctx)
	cfg := sc.NewConfig(uint64(1+r.Intn(7)), uint64(1+r.Intn(7)), sc.Periods[r.Intn(len(sc.Periods))])
	creator := e.User(uint64(1 + r.Intn(7))).Str
	sender := e.User(uint64(1 + r.Intn(7))).Str
	sc.reg(sender)
	d := sc.Denoms[r.Intn(len(sc.Denoms))]
	dep := L1Op{Kind: "deposit", Sender: sender, Bridge: nb, To: "l2recipient", Denom: d, Amt: big.NewInt(int64(1 + r.Intn(50)))}
	sc.Discarded(sc.Create(creator, cfg), dep)
	if r.Chance(70) {
		sc.do(dep) // the bridge does not exist: must be rejected
	}
}

func swapCase(s string) string {
	b := []byte(s)
	for i, ch := range b {
		switch {
		case ch >= 'a' && ch <= 'z':
			b[i] = ch - 32
		case ch >= 'A' && ch <= 'Z':
			b[i] = ch + 32
		}
	}
	return string(b)
}

// moneyPrep: a denom pair differing only in letter case (uinit / UINIT, both valid) and a whale
func moneyPrep(sc *L1Scenario) {
	up := swapCase(sc.Denoms[0])
	for _, u := range sc.Env.Users {
		sc.Env.Fund(u.Addr, sdk.NewCoins(sdk.NewInt64Coin(up, 100000)))
	}
	sc.Denoms = append(sc.Denoms, up)
	sc.Case.Track.Denoms = sc.Denoms
	whalePrep(sc)
}

// specialLeaves: withdrawals whose recipient is a module account (distribution, gov, minter) or
// another bridge's escrow address, zero-amount withdrawals, and one in the upper-case twin denom
func (sc *L1Scenario) specialLeaves(b uint64, firstSeq uint64) []Withdrawal {
	e, r := sc.Env, sc.R
	tos := []string{sdk.AccAddress(e.AddrOf(ModDistr)).String(), sdk.AccAddress(e.AddrOf(ModGov)).String(), sdk.AccAddress(e.AddrOf(ModL1Minter)).String(),
		sdk.AccAddress(e.AddrOf(EscrowBase + b%4 + 1)).String()}
	var ws []Withdrawal
	seq := firstSeq
	for _, to := range tos {
		ws = append(ws, Withdrawal{Bridge: b, Seq: seq, From: "l2user", To: to, Denom: sc.Denoms[r.Intn(len(sc.Denoms))], Amt: big.NewInt(int64(1 + r.Intn(30)))})
		seq++
	}
	for k := 0; k < 2; k++ {
		ws = append(ws, Withdrawal{Bridge: b, Seq: seq, From: "l2user", To: e.User(uint64(1 + r.Intn(7))).Str, Denom: sc.Denoms[r.Intn(len(sc.Denoms))], Amt: big.NewInt(0)})
		seq++
	}
	ws = append(ws, Withdrawal{Bridge: b, Seq: seq, From: "L2User", To: e.User(uint64(1 + r.Intn(7))).Str, Denom: sc.Denoms[len(sc.Denoms)-1], Amt: big.NewInt(int64(1 + r.Intn(30)))})
	seq++
	// all-lower-case leaves in the lower-case twin denom: the ones a case-folding hash would confuse
	for k := 0; k < 2; k++ {
		ws = append(ws, Withdrawal{Bridge: b, Seq: seq, From: "l2user", To: e.User(uint64(1 + r.Intn(7))).Str, Denom: sc.Denoms[0], Amt: big.NewInt(int64(1 + r.Intn(30)))})
		seq++
	}
	return ws
}

// claimTwice submits leaf i of pt and immediately resubmits it (other submitter)
func (sc *L1Scenario) claimTwice(pt *ProposedTree, i int, b uint64) {
	e, r := sc.Env, sc.R
	sc.ClaimAt(pt, i, b, pt.Idx, e.User(uint64(1+r.Intn(7))).Str)
	sc.ClaimAt(pt, i, b, pt.Idx, e.User(uint64(1+r.Intn(7))).Str)
}

// twinDenomClaim submits a leaf of pt whose denom belongs to the lower/upper-case denom pair with
// the denom in the OTHER letter case (the escrow holds both); falls back to the other-case sender
func (sc *L1Scenario) twinDenomClaim(pt *ProposedTree, b uint64) {
	e, r := sc.Env, sc.R
	lo, up := sc.Denoms[0], swapCase(sc.Denoms[0])
	var cand []int
	for i, w := range pt.Tree.Ws {
		if (w.Denom == lo || (w.Denom == up && r.Chance(25))) && w.Amt.Sign() > 0 {
			cand = append(cand, i)
		}
	}
	sub := e.User(uint64(1 + r.Intn(7))).Str
	if len(cand) == 0 {
		op := sc.Claim(pt, r.Intn(len(pt.Tree.Ws)), sub)
		op.Bridge, op.Idx = b, pt.Idx
		op.From = swapCase(op.From)
		sc.Case.Do(op)
		return
	}
	op := sc.Claim(pt, cand[r.Intn(len(cand))], sub)
	op.Bridge, op.Idx = b, pt.Idx
	op.Denom = swapCase(op.Denom)
	res := sc.Case.Do(op)
	if os.Getenv("VERIF_DEBUG") != "" {
		fmt.Println("twin", op.Bridge, op.Idx, op.Denom, op.Amt, res.OK, res.Err)
	}
}

// runL1Monitors evaluates the monitors on a case produced by RunL1Twice(caseSeed, c.ID, ...) and
// minimises the history of the first new violation of each signature (see shrinkL1Violations); a
// drop-in replacement for `for _, m := range mons { m(rep, c) }` in the other L1 streams.
var shrunkByReport = map[*Report]map[string]bool{}

func runL1Monitors(rep *Report, c *L1Case, caseSeed uint64, mons []L1Monitor) {
	n := len(rep.Violations)
	mons = append(append([]L1Monitor{}, mons...), queryDiffMonitor)
	for _, m := range mons {
		m(rep, c)
	}
	if len(rep.Violations) > n {
		if shrunkByReport[rep] == nil {
			shrunkByReport[rep] = map[string]bool{}
		}
		shrinkL1Violations(rep, c, caseSeed, c.ID, nil, mons, n, 0, shrunkByReport[rep])
	}
}

func isShrunk(v Violation) bool {
	m, ok := v.Detail.(map[string]interface{})
	if !ok {
		return false
	}
	_, has := m["shrunk_from"]
	return has
}

// queryDiffMonitor: every gRPC query the observation uses (and Bridge / Bridges / TokenPairByL1Denom /
// TokenPairByL2Denom / OutputProposal for the tracked ids) must answer what the keeper reads and the
// documented derivations give; L1Obs records the differences per observation
func queryDiffMonitor(rep *Report, c *L1Case) {
	for _, d := range c.Env.QueryDiffs {
		if d.Obs < len(c.Ops) {
			l1Violate(rep, c, d.Obs, rep.Property+":query-differs-from-state", d.What)
		}
	}
}

// outputLogMonitor recomputes every bridge's output log (index -> root, proposal time) and period
// from the recorded history of accepted creations, proposals and deletions - not from keeper reads -
// and requires (a) every accepted finalization on bridge b to be justified by an output stored
// UNDER bridge b at the claimed index whose root is the commitment of the message's fields and which
// is final by bridge b's own period; (b) every honest claim - leaf, proof and root of a tree the
// harness proposed at exactly (b, index), output final, leaf unpaid, escrow funded - to be accepted.
func outputLogMonitor(prop string) L1Monitor {
	type entry struct {
		root []byte
		at   int64
	}
	floorSec := func(ns int64) int64 {
		q := ns / 1000000000
		if ns%1000000000 < 0 {
			q--
		}
		return q
	}
	return func(rep *Report, c *L1Case) {
		tr := c.Track
		logs := map[uint64]map[uint64]entry{}
		next := map[uint64]uint64{}
		period := map[uint64]int64{}
		paid := map[string]bool{}
		for i, o := range c.Ops {
			v := viewL1(c.Obs[i])
			ok := v.OK()
			switch o.Kind {
			case "create":
				if ok {
					id, _ := v.RespN()
					period[id] = o.Config.Period
				}
			case "propose":
				if ok {
					if logs[o.Bridge] == nil {
						logs[o.Bridge] = map[uint64]entry{}
					}
					logs[o.Bridge][o.Idx] = entry{append([]byte{}, o.Root...), o.Now}
					next[o.Bridge] = o.Idx + 1
				}
			case "delete":
				if ok {
					for k := range logs[o.Bridge] {
						if k >= o.Idx {
							delete(logs[o.Bridge], k)
						}
					}
					next[o.Bridge] = o.Idx
				}
			case "finalize":
				if len(o.Version) != 1 || o.Amt == nil {
					continue
				}
				root := outputRootOf(o.Version[0], o.SRoot, o.BHash)
				ent, has := logs[o.Bridge][o.Idx]
				final := has && floorSec(ent.at+period[o.Bridge]) <= floorSec(o.Now)
				if ok {
					why := ""
					switch {
					case !has:
						why = fmt.Sprintf("bridge %d has no output %d", o.Bridge, o.Idx)
					case !bytes.Equal(ent.root, root):
						why = fmt.Sprintf("output %d of bridge %d commits to another root than the message's storage root / block hash", o.Idx, o.Bridge)
					case !final:
						why = fmt.Sprintf("output %d of bridge %d is not final by that bridge's period of %d ns", o.Idx, o.Bridge, period[o.Bridge])
					}
					if why != "" {
						if other, hasT := logs[o.Idx][o.Bridge]; hasT && bytes.Equal(other.root, root) {
							why += fmt.Sprintf("; the root is the one of output %d of bridge %d", o.Bridge, o.Idx)
						}
						l1Violate(rep, c, i, prop+":claim-against-foreign-output", fmt.Sprintf("bridge %d paid %s%s (sequence %d) for a claim against output index %d, but %s", o.Bridge, o.Amt, o.Denom, o.Seq, o.Idx, why))
					}
					if leaf := leafOfOp(o); leaf != nil {
						paid[fmt.Sprintf("%d:%x", o.Bridge, leaf)] = true
					}
					continue
				}
				// refused: was it an honest claim against a final own output?
				if !final || !bytes.Equal(ent.root, root) || o.Amt.Sign() <= 0 || !o.Amt.IsUint64() || i == 0 {
					continue
				}
				if c.idOf(o.Sender) == 0 || c.idOf(o.To) == 0 {
					continue
				}
				leaf := leafOfOp(o)
				if leaf == nil || paid[fmt.Sprintf("%d:%x", o.Bridge, leaf)] {
					continue
				}
				ai, di := idxU(tr.Accts, EscrowBase+o.Bridge), idxS(tr.Denoms, o.Denom)
				if ai < 0 || di < 0 || viewL1(c.Obs[i-1]).Bal(tr, ai, di).Cmp(o.Amt) < 0 {
					continue
				}
				honest := false
				for _, pt := range curTrees {
					if !bytes.Equal(pt.Root, root) || !bytes.Equal(pt.Tree.Root(), o.SRoot) {
						continue
					}
					for k, w := range pt.Tree.Ws {
						if w.Bridge != o.Bridge || w.Seq != o.Seq || w.From != o.From || w.To != o.To || w.Denom != o.Denom || w.Amt.Cmp(o.Amt) != 0 {
							continue
						}
						pr := pt.Tree.Proof(k)
						same := len(pr) == len(o.Proofs)
						for x := 0; same && x < len(pr); x++ {
							same = bytes.Equal(pr[x], o.Proofs[x])
						}
						honest = honest || same
					}
				}
				if honest {
					l1Violate(rep, c, i, prop+":honest-claim-refused", fmt.Sprintf("the claim of %s%s (bridge %d, sequence %d) with the proof of a leaf of the tree proposed as output %d of bridge %d was refused although that output is final, the leaf is unpaid and the escrow is funded", o.Amt, o.Denom, o.Bridge, o.Seq, o.Idx, o.Bridge))
				}
			}
		}
	}
}
