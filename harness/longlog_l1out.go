package main

import (
	"fmt"
	"math/big"
	"strings"

	"github.com/cosmos/cosmos-sdk/types/query"

	ophosttypes "github.com/initia-labs/OPinit/x/ophost/types"
)

// Scripted LONG-LOG cases for C11 / C05: one bridge with 100-260 pending outputs, suffix deletes
// whose length sits on and around typical per-message caps (99, 100, 101, 128, 129, 256, 257),
// re-proposals, and after the finalization period a claim against a formerly stored high index
// (it carries a real withdrawal tree).  The generic observer reads `OutputProposals` without a
// page request (first 100 entries only); here the whole list is fetched with an explicit page
// limit and put into the observation, so the model comparison and the monitors see every stored
// output - also one that a broken delete left above the counter.

func fullOutputs(e *L1Env, b uint64) []Ov {
	resp, err := e.Q.OutputProposals(e.Ctx, &ophosttypes.QueryOutputProposalsRequest{BridgeId: b, Pagination: &query.PageRequest{Limit: 1000000}})
	if err != nil {
		panic(err)
	}
	outs := make([]Ov, 0, len(resp.OutputProposals))
	for _, op := range resp.OutputProposals {
		outs = append(outs, outputOv(op.OutputIndex, op.OutputProposal))
	}
	return outs
}

// doObsFull = L1Case.DoObs with the complete output list of every tracked bridge.
func doObsFull(c *L1Case, o L1Op) ExecResult {
	r := c.Env.L1Exec(o)
	obs := c.Env.L1Obs(c.Track, r)
	brs := obs.(OL).V[3].(OL).V
	for k, b := range c.Track.Bridges {
		brs[k].(OL).V[3] = OL{fullOutputs(c.Env, b)}
	}
	c.Ops = append(c.Ops, o)
	c.Results = append(c.Results, r)
	c.Obs = append(c.Obs, obs)
	return r
}

// phases: fill the log up to `fill` outputs, then for each count in dels: delete the last `count`
// outputs (index = next - count) and fill up to `fill` again (not after the last one).
func longLogCase(rep *Report, prop string, seed uint64, id int, fill int, dels []int, mons []L1Monitor) *L1Case {
	sc := NewL1Scenario(seed, id, nil)
	e, c := sc.Env, sc.Case
	period := 3600 * sec
	c.Track = &L1Track{Accts: []uint64{3, 5, EscrowBase + 1}, Denoms: sc.Denoms, Bridges: []uint64{1, 2}}
	c.Bals = nil
	c.Snapshot()
	// the withdrawal tree that the output at index `fill` (the top of the first fill) will carry
	pt := sc.MakeTree(1, 2)
	for i := range pt.Tree.Ws {
		pt.Tree.Ws[i].To = e.User(3).Str
		pt.Tree.Ws[i].Denom = sc.Denoms[0]
	}
	pt.Tree = BuildTree(pt.Tree.Ws)
	pt.Root = outputRootOf(pt.Version, pt.Tree.Root(), pt.BHash)
	pt.Idx = uint64(fill)
	for _, w := range pt.Tree.Ws {
		sc.track(1, w.Leaf())
	}
	sc.reg(e.Auth)
	for id := uint64(1); id <= 7; id++ {
		sc.reg(e.User(id).Str)
	}
	do := func(o L1Op) ExecResult { return doObsFull(c, sc.op(o)) }
	must := func(r ExecResult, what string) {
		if !r.OK {
			rep.Notes = append(rep.Notes, "long-log: "+what+" failed: "+r.Err)
		}
	}
	must(do(sc.Create(e.User(7).Str, sc.NewConfig(1, 2, period))), "create 1")
	must(do(sc.Create(e.User(7).Str, sc.NewConfig(3, 4, sec))), "create 2")
	must(do(L1Op{Kind: "deposit", Sender: e.User(5).Str, Bridge: 1, To: "l2user", Denom: sc.Denoms[0], Amt: big.NewInt(1000)}), "deposit")
	must(do(L1Op{Kind: "propose", Sender: e.User(3).Str, Bridge: 2, Idx: 1, L2: 7, Root: make([]byte, 32)}), "propose on bridge 2")
	l2 := uint64(0)
	nprop := 0
	fillUp := func() {
		for {
			next, _ := e.K.GetNextOutputIndex(e.Ctx, 1)
			if int(next) > fill {
				return
			}
			root := make([]byte, 32)
			root[0], root[1], root[2] = byte(next), byte(next>>8), byte(nprop)
			if int(next) == fill {
				root = pt.Root
			}
			nprop++
			if nprop%10 == 0 {
				sc.Advance(sec)
			}
			l2 += 1 + uint64(nprop%3)
			must(do(L1Op{Kind: "propose", Sender: e.User(1).Str, Bridge: 1, Idx: next, L2: l2, Root: root}), fmt.Sprintf("propose %d", next))
		}
	}
	claim := func(i int) ExecResult {
		op := sc.Claim(pt, i, e.User(4).Str)
		return doObsFull(c, op)
	}
	signers := []string{e.User(2).Str, e.Auth, e.User(1).Str}
	for k, cnt := range dels {
		fillUp()
		next, _ := e.K.GetNextOutputIndex(e.Ctx, 1)
		idx := next - uint64(cnt)
		if k == 0 {
			claim(0) // not final yet: refused
		}
		must(do(L1Op{Kind: "delete", Sender: signers[k%3], Bridge: 1, Idx: idx}), fmt.Sprintf("delete of the last %d outputs", cnt))
		if k == 0 {
			claim(0) // deleted: refused
		}
		do(L1Op{Kind: "delete", Sender: signers[(k+1)%3], Bridge: 1, Idx: idx}) // now out of range
	}
	// after the period everything still stored is final; the deleted top index must stay unusable
	sc.Advance(period + 30*sec)
	claim(0)
	do(L1Op{Kind: "uproposer", Sender: e.Auth, Bridge: 1, NewAddr: e.User(6).Str}) // answers with the last finalized output
	do(L1Op{Kind: "delete", Sender: e.Auth, Bridge: 1, Idx: 1})                         // final (or empty): refused
	claim(1)
	next, _ := e.K.GetNextOutputIndex(e.Ctx, 1)
	must(do(L1Op{Kind: "propose", Sender: e.User(6).Str, Bridge: 1, Idx: next, L2: l2 + 5, Root: pt.Root}), "final proposal")
	pt.Idx = next
	claim(1) // proposed just now: not final
	sc.Advance(period)
	claim(1) // final: paid
	claim(1) // paid once only
	okN, errN := 0, 0
	for i, o := range c.Ops {
		if c.Results[i].OK {
			rep.Hist("long:" + o.Kind + ":OK")
			okN++
		} else {
			rep.Hist("long:" + o.Kind + ":ERR")
			errN++
		}
	}
	// no shrinking here: the generic replay observes only the first 100 outputs of a bridge
	for _, m := range mons {
		m(rep, c)
	}
	rep.Ops += len(c.Ops)
	rep.CountCase(strings.Join(l1OpsHuman(c.Ops), "\n"), okN > 0 && errN > 0)
	rep.Notes = append(rep.Notes, fmt.Sprintf("long-log case (%s): bridge 1 filled to %d outputs, suffix deletes of %v outputs with refills, claim against the deleted top index after the period; %d operations", prop, fill, dels, len(c.Ops)))
	return c
}
