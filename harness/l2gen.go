package main

import (
	"bytes"
	"fmt"
	"math/big"
	"sort"
	"strings"

	sdk "github.com/cosmos/cosmos-sdk/types"
	banktypes "github.com/cosmos/cosmos-sdk/x/bank/types"

	ophosttypes "github.com/initia-labs/OPinit/x/ophost/types"
)

// L2Case is one recorded trace: initial state description, ops, observations.
type L2Case struct {
	ID      int
	Env     *L2Env
	Track   L2Track
	Params  *L2Params
	NextL1  uint64
	NextL2  uint64
	Bals    []string // coq triples
	Sups    []string
	Pairs   []string
	Ops     []L2Op
	Obs     []Ov
	Results []ExecResult
	// SenderIsExec[i]: whether the sender string of op i decodes to an address that is in the bridge
	// executor list stored at the moment op i was executed (read from the real params, independently
	// of the handler's own check)
	SenderIsExec []bool
}

// senderIsExecutor decodes the sender and every stored executor with the real address codec.
func (e *L2Env) senderIsExecutor(sender string) bool {
	ac := e.AK.AddressCodec()
	sb, err := ac.StringToBytes(sender)
	if err != nil {
		return false
	}
	ps, err := e.K.GetParams(e.Ctx)
	if err != nil {
		return false
	}
	for _, x := range ps.BridgeExecutors {
		xb, err := ac.StringToBytes(x)
		if err == nil && bytes.Equal(xb, sb) {
			return true
		}
	}
	return false
}

// snapshot the initial state into the case header
func (c *L2Case) Snapshot() {
	e := c.Env
	n1, _ := e.K.GetNextL1Sequence(e.Ctx)
	n2, _ := e.K.GetNextL2Sequence(e.Ctx)
	c.NextL1, c.NextL2 = n1, n2
	for _, a := range c.Track.Accts {
		for _, d := range c.Track.Denoms {
			b := e.BK.GetBalance(e.Ctx, e.AddrOf(a), d).Amount.BigInt()
			if b.Sign() != 0 {
				c.Bals = append(c.Bals, fmt.Sprintf("(%s, %s, %s)", coqU(a), coqStr(d), coqZ(b)))
			}
		}
	}
	for _, d := range c.Track.Denoms {
		s := e.BK.GetSupply(e.Ctx, d).Amount.BigInt()
		if s.Sign() != 0 {
			c.Sups = append(c.Sups, fmt.Sprintf("(%s, %s)", coqStr(d), coqZ(s)))
		}
		if base, err := e.K.DenomPairs.Get(e.Ctx, d); err == nil { // the stored map itself, not the query that may fall back
			c.Pairs = append(c.Pairs, fmt.Sprintf("(%s, %s)", coqStr(d), coqStr(base)))
		}
	}
}

func (c *L2Case) Do(o L2Op) ExecResult {
	c.SenderIsExec = append(c.SenderIsExec, c.Env.senderIsExecutor(o.Sender))
	r := c.Env.L2Exec(o)
	c.Ops = append(c.Ops, o)
	c.Results = append(c.Results, r)
	c.Obs = append(c.Obs, c.Env.L2Obs(c.Track, r))
	return r
}

func (c *L2Case) Coq() string {
	e := c.Env
	var tbl []string
	for _, s := range sortedKeys(e.Table) {
		tbl = append(tbl, fmt.Sprintf("(%s, %s)", coqStr(s), coqU(e.Table[s])))
	}
	var blocked []string
	ids := []int{}
	for _, id := range e.Modules {
		ids = append(ids, int(id))
	}
	sort.Ints(ids)
	for _, id := range ids {
		blocked = append(blocked, coqU(uint64(id)))
	}
	var accts, denoms, ops, obs []string
	for _, a := range c.Track.Accts {
		accts = append(accts, coqU(a))
	}
	for _, d := range c.Track.Denoms {
		denoms = append(denoms, coqStr(d))
	}
	for _, o := range c.Ops {
		ops = append(ops, "("+o.Coq()+")")
	}
	for _, o := range c.Obs {
		obs = append(obs, o.Coq())
	}
	return fmt.Sprintf("(%d%%N,\n {| c_table := %s;\n    c_blocked := %s; c_auth := %s; c_mod := %s; c_fee := %s;\n    c_params := %s;\n    c_next_l1 := %s; c_next_l2 := %s;\n    c_bals := %s;\n    c_sups := %s;\n    c_pairs := %s;\n    c_accts := %s; c_denoms := %s;\n    c_ops := %s |},\n %s)",
		c.ID, coqList(tbl), coqList(blocked), coqStr(e.Auth), coqU(ModOpchild), coqU(ModFeeCol), c.Params.Coq(),
		coqU(c.NextL1), coqU(c.NextL2), coqList(c.Bals), coqList(c.Sups), coqList(c.Pairs), coqList(accts), coqList(denoms),
		"[\n      "+strings.Join(ops, ";\n      ")+"]", "[\n  "+strings.Join(obs, ";\n  ")+"]")
}

const l2CaseHeader = `Require Import Model.Bytes Model.Obs Model.Bank Model.Valset Model.L2 Model.TraceL2.
From Coq Require Import List NArith ZArith String.
Import ListNotations.
Local Open Scope string_scope.
`

func l2CasesFile(cases []*L2Case) string {
	var sb strings.Builder
	sb.WriteString(l2CaseHeader)
	sb.WriteString("Definition cases : list (N * l2case * list ov) := [\n")
	for i, c := range cases {
		if i > 0 {
			sb.WriteString(";\n")
		}
		sb.WriteString(c.Coq())
	}
	sb.WriteString("].\nDefinition M := Eval vm_compute in check_all run_l2case cases.\nPrint M.\n")
	return sb.String()
}

// ---- standard L2 scenario setup ----
type L2Scenario struct {
	Env      *L2Env
	Case     *L2Case
	R        *Rng
	L1Denoms []string // base denoms
	L2Denoms []string // bridged denoms (l2/...)
	Native   string
	BridgeID uint64
	L1Addrs  []string // L1-side sender strings
	MetaNoPair bool   // L2Denoms[1] starts with bank metadata but without a denom pair
	ExecIDs  []uint64
	AdminID  uint64
}

// SetL2DenomMeta writes ordinary bank metadata for a denom (what bank genesis or setDenomMetadata leave).
func SetL2DenomMeta(e *L2Env, denom, display string) {
	e.BK.SetDenomMetaData(e.Ctx, banktypes.Metadata{Base: denom, Display: display, Symbol: display, Name: display + " token",
		Description: "token " + display, DenomUnits: []*banktypes.DenomUnit{{Denom: display, Exponent: 0}}})
}

func NewL2Scenario(seed uint64, id int, withFaults bool) *L2Scenario {
	r := NewRng(seed)
	e := NewL2Env(seed, 6, withFaults)
	sc := &L2Scenario{Env: e, R: r, Native: "unative", BridgeID: 1 + uint64(r.Intn(3))}
	sc.L1Denoms = []string{"uinit", "uusdc"}
	for _, d := range sc.L1Denoms {
		sc.L2Denoms = append(sc.L2Denoms, ophosttypes.L2Denom(sc.BridgeID, d))
	}
	sc.L1Addrs = []string{"init1l1sender000000000000000000000000000", "0x1234abcd", e.User(6).Str}
	sc.ExecIDs = []uint64{1, 2}
	sc.AdminID = 3
	p := &L2Params{Admin: e.User(3).Str, Execs: []string{e.User(1).Str, e.User(2).Str}, MaxV: 3, Hist: 2,
		MinGas: []GasPrice{{"unative", big.NewInt(150000000000000000)}}, Whitelist: []string{}, HookGas: 1000000}
	if err := e.K.SetParams(e.Ctx, p.Real()); err != nil {
		panic(err)
	}
	for _, u := range e.Users {
		e.Fund(u.Addr, sdk.NewCoins(sdk.NewInt64Coin(sc.Native, 1000)))
	}
	e.FundModule("fee_collector", sdk.NewCoins(sdk.NewInt64Coin(sc.Native, 500)))
	// richer initial states: the native denom always has ordinary bank metadata, and in a
	// seed-derived third of the scenarios the second bridged denom has bank metadata but NO denom
	// pair yet (bank genesis / upgrade).  The model ignores metadata: on a correct tree pair
	// registration and withdrawability do not depend on it.
	SetL2DenomMeta(e, sc.Native, sc.Native)
	if NewRng(seed^0x6d657461).Intn(3) == 0 {
		SetL2DenomMeta(e, sc.L2Denoms[1], sc.L1Denoms[1])
		sc.MetaNoPair = true
	}
	accts := []uint64{1, 2, 3, 4, 5, 6, ModOpchild, ModFeeCol, ModFeeCol + 1}
	denoms := append(append([]string{}, sc.L2Denoms...), sc.Native)
	sc.Case = &L2Case{ID: id, Env: e, Track: L2Track{accts, denoms}, Params: p}
	sc.Case.Snapshot()
	return sc
}

// sender strings of different classes
func (sc *L2Scenario) SenderString(class int) string {
	e := sc.Env
	switch class {
	case 0: // a current executor
		ps, _ := e.K.GetParams(e.Ctx)
		if len(ps.BridgeExecutors) > 0 {
			return ps.BridgeExecutors[sc.R.Intn(len(ps.BridgeExecutors))]
		}
		return e.User(1).Str
	case 1: // upper-case spelling of a current executor
		ps, _ := e.K.GetParams(e.Ctx)
		if len(ps.BridgeExecutors) > 0 {
			return upperBech32(ps.BridgeExecutors[sc.R.Intn(len(ps.BridgeExecutors))])
		}
		return upperBech32(e.User(1).Str)
	case 2: // any user
		return e.User(uint64(1 + sc.R.Intn(len(e.Users)))).Str
	case 3: // module authority
		return e.Auth
	case 4: // admin
		ps, _ := e.K.GetParams(e.Ctx)
		return ps.Admin
	default:
		bad := []string{"", "notanaddress", "init1qqqqqqqqqqqqqqqqqqqqqqqqqqqqqqqqqqqqq", e.User(1).Str + "x", "cosmosvaloper1abc"}
		return bad[sc.R.Intn(len(bad))]
	}
}

func (sc *L2Scenario) register(ss ...string) {
	for _, s := range ss {
		sc.Env.Resolve(s)
	}
}

func (sc *L2Scenario) Deposit(sender string, seq uint64, to string, denomIdx int, amt *big.Int, hook Hook) L2Op {
	sc.register(sender, to)
	return L2Op{Kind: "fdep", Sender: sender, From: sc.L1Addrs[sc.R.Intn(len(sc.L1Addrs))], To: to,
		Denom: sc.L2Denoms[denomIdx], Base: sc.L1Denoms[denomIdx], Amt: amt, Seq: seq, Height: 1 + uint64(sc.R.Intn(50)), Hook: hook}
}
