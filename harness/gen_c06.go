package main

import (
	"fmt"
	"math/big"
	"sort"
	"strings"

	sdk "github.com/cosmos/cosmos-sdk/types"

	opchildtypes "github.com/initia-labs/OPinit/x/opchild/types"
	ophosttypes "github.com/initia-labs/OPinit/x/ophost/types"
)

// c06BInfo builds a MsgSetBridgeInfo payload (and its model description).
func c06BInfo(e *L2Env, id uint64, addr, chain, client string, cfgOK bool) *BInfo {
	cfg := ophosttypes.BridgeConfig{Challenger: e.User(5).Str, Proposer: e.User(6).Str,
		BatchInfo:          ophosttypes.BatchInfo{Submitter: e.User(6).Str, ChainType: ophosttypes.BatchInfo_CHAIN_TYPE_INITIA},
		SubmissionInterval: 10 * 1e9, FinalizationPeriod: 100 * 1e9, SubmissionStartHeight: 1, Metadata: []byte("m")}
	if !cfgOK {
		cfg.SubmissionInterval = 0
	}
	real := opchildtypes.BridgeInfo{BridgeId: id, BridgeAddr: addr, L1ChainId: chain, L1ClientId: client, BridgeConfig: cfg}
	return &BInfo{ID: id, Addr: addr, Chain: chain, Client: client, CfgOK: cfg.ValidateWithNoAddrValidation() == nil, Real: real}
}

// C06: L2 credits each L1 deposit exactly once, in order, under any relay schedule.
// Streams: (a) exhaustive delivery schedules of bounded length over {seq-1, seq, seq+1} x
// {executor A, executor B, stranger}, each on a cache branch of a base state;
// (b) long random schedules interleaved with transfers, withdrawals, executor changes, bridge-info
// registrations (first / repeated / refused), validator add / remove and fee-pool spends;
// (b') fixed scripts around the first SetBridgeInfo; (c) hook re-entrancy (monitor-only).

type c06Monitor struct {
	rep      *Report
	expected uint64
}

// model-free monitor: SUCCESS only at the expected sequence and then expected+1; NOOP / ERR
// leave every projected observable unchanged; the next-sequence query equals expected.
func c06Check(rep *Report, c *L2Case, startNext uint64) {
	expected := startNext
	var prev Ov
	for i, o := range c.Ops {
		obs := c.Obs[i].(OL)
		res := obs.V[0]
		nl1 := obs.V[1].(ON).V.Uint64()
		stateNow := (OL{obs.V[1:7]}).Coq()
		if o.Kind != "fdep" {
			if _, ok := res.(OL); ok {
				rep.Hist(o.Kind + ":OK")
			} else {
				rep.Hist(o.Kind + ":ERR")
			}
		}
		if o.Kind == "fdep" {
			kind := "ERR"
			if l, ok := res.(OL); ok {
				kind = l.V[1].(OS).V
			}
			rep.Hist("fdep:" + kind)
			// a sender that is not a listed executor at that moment must be rejected whatever the sequence
			if i < len(c.SenderIsExec) && !c.SenderIsExec[i] && kind != "ERR" {
				rep.Violate(Violation{Case: c.ID, Step: i, What: fmt.Sprintf("deposit finalization (seq %d) by %q, who is not a listed bridge executor, returned %s instead of an error", o.Seq, o.Sender, kind), Sig: "C06:unauthorised-accepted", Ops: opsCoq(c.Ops[:i+1])})
			}
			switch kind {
			case "SUCCESS":
				if o.Seq != expected {
					rep.Violate(Violation{Case: c.ID, Step: i, What: fmt.Sprintf("deposit seq %d processed while %d was expected", o.Seq, expected), Sig: "C06:out-of-order", Ops: opsCoq(c.Ops[:i+1])})
				}
				expected++
			case "NOOP", "ERR":
				if prev != nil && stateNow != (OL{prev.(OL).V[1:7]}).Coq() {
					rep.Violate(Violation{Case: c.ID, Step: i, What: kind + " changed state", Sig: "C06:noop-changed-state", Ops: opsCoq(c.Ops[:i+1])})
				}
				if kind == "NOOP" && !(o.Seq < expected) {
					rep.Violate(Violation{Case: c.ID, Step: i, What: "NOOP for a sequence not yet processed", Sig: "C06:noop-unprocessed", Ops: opsCoq(c.Ops[:i+1])})
				}
			}
			// number of deposit events must match
			devs := obs.V[8].(OL).V
			want := 0
			if kind == "SUCCESS" {
				want = 1
			}
			if len(devs) != want {
				rep.Violate(Violation{Case: c.ID, Step: i, What: "wrong number of finalize_token_deposit events", Sig: "C06:event-count", Ops: opsCoq(c.Ops[:i+1])})
			}
		}
		if nl1 != expected {
			rep.Violate(Violation{Case: c.ID, Step: i, What: fmt.Sprintf("NextL1Sequence = %d, expected 1 + processed = %d", nl1, expected), Sig: "C06:next-seq", Ops: opsCoq(c.Ops[:i+1])})
			expected = nl1
		}
		prev = c.Obs[i]
	}
}

func opsCoq(ops []L2Op) []string {
	internOff = true
	defer func() { internOff = false }()
	out := make([]string, len(ops))
	for i, o := range ops {
		out[i] = o.Coq()
	}
	return out
}

func init() { register("C06", genC06) }

func genC06(seed uint64, tier string, outdir string) *Report {
	rep := NewReport("C06", seed, tier)
	rep.Rule = "a case is one delivery schedule run on a fresh branch; distinct by hash of the op list; non-trivial = at least one deposit SUCCESS and at least one NOOP or ERR"
	var texts []string
	caseID := 0
	depth := 3
	nRandom := 40
	randLen := 80
	if tier == "thorough" {
		depth = 4
		nRandom = 400
		randLen = 200
	}
	// (a) exhaustive schedules from two base states
	for base := 0; base < 2; base++ {
		sc := NewL2Scenario(seed+uint64(base), 0, false)
		e := sc.Env
		if base == 1 { // advance to next = 3 first
			refused := false
			for s := uint64(1); s <= 2 && !refused; s++ {
				op := sc.Deposit(e.User(1).Str, s, e.User(4).Str, 0, big.NewInt(10), Hook{Kind: "none"})
				if r := e.L2Exec(op); !r.OK {
					l2SetupRefused(rep, "C06", e, 0, op, r)
					refused = true
				}
			}
			if refused {
				continue
			}
			sc.Case.Bals, sc.Case.Sups, sc.Case.Pairs = nil, nil, nil
			sc.Case.Snapshot()
		}
		start := sc.Case.NextL1
		senders := []string{e.User(1).Str, e.User(2).Str, e.User(5).Str}
		var seqs []uint64
		if start == 1 {
			seqs = []uint64{1, 2, 3}
		} else {
			seqs = []uint64{start - 1, start, start + 1}
		}
		nChoices := len(senders) * len(seqs)
		total := 1
		for i := 0; i < depth; i++ {
			total *= nChoices
		}
		baseCtx := e.Ctx
		for idx := 0; idx < total; idx++ {
			caseID++
			branch, _ := baseCtx.CacheContext()
			e.Ctx = branch
			c := &L2Case{ID: caseID, Env: e, Track: sc.Case.Track, Params: sc.Case.Params, NextL1: sc.Case.NextL1, NextL2: sc.Case.NextL2,
				Bals: sc.Case.Bals, Sups: sc.Case.Sups, Pairs: sc.Case.Pairs}
			x := idx
			succ, rej := false, false
			for d := 0; d < depth; d++ {
				ch := x % nChoices
				x /= nChoices
				op := sc.Deposit(senders[ch%len(senders)], seqs[ch/len(senders)], e.User(4).Str, 0, big.NewInt(int64(7+d)), Hook{Kind: "none"})
				op.From = sc.L1Addrs[0]
				op.Height = 5
				r := c.Do(op)
				if r.OK {
					succ = true
				} else {
					rej = true
				}
			}
			c06Check(rep, c, start)
			l2AuthorisedCheck(rep, c, "C06", start)
			l2QueryMonitor(rep, c, "C06")
			rep.Ops += len(c.Ops)
			rep.CountCase(strings.Join(opsCoq(c.Ops), "\n"), succ && rej)
			if idx == total/2 {
				rep.Sample(map[string]interface{}{"kind": "exhaustive schedule", "ops": opsCoq(c.Ops)})
			}
			texts = append(texts, c.Coq())
		}
		e.Ctx = baseCtx
	}
	rep.Exhaustive = true
	rep.Notes = append(rep.Notes, fmt.Sprintf("exhaustive: all schedules of length %d over 3 sequences x 3 senders from 2 base states", depth))
	// (b) random long schedules
	for k := 0; k < nRandom; k++ {
		caseID++
		kk, cid := k, caseID
		fresh := func() *L2Scenario { return NewL2Scenario(seed*1000+uint64(kk), cid, false) }
		sc := fresh()
		e := sc.Env
		r := sc.R
		c := sc.Case
		succ, rej := false, false
		for i := 0; i < randLen; i++ {
			n1, _ := e.K.GetNextL1Sequence(e.Ctx)
			var res ExecResult
			switch r.Weighted([]int{60, 10, 10, 8, 4, 7, 4, 4}) {
			case 0: // deposit
				var seq uint64
				switch r.Weighted([]int{50, 25, 15, 5, 5}) {
				case 0:
					seq = n1
				case 1:
					if n1 > 1 {
						seq = 1 + uint64(r.Intn(int(n1-1)))
					} else {
						seq = n1
					}
				case 2:
					seq = n1 + 1 + uint64(r.Intn(3))
				case 3:
					seq = 0
				case 4:
					seq = ^uint64(0) - uint64(r.Intn(2))
				}
				sender := sc.SenderString(r.Weighted([]int{60, 10, 20, 3, 3, 4}))
				to := e.User(uint64(1 + r.Intn(6))).Str
				if r.Chance(8) {
					to = sc.SenderString(5)
				}
				amt := big.NewInt(int64(r.Intn(50)))
				res = c.Do(sc.Deposit(sender, seq, to, r.Intn(2), amt, Hook{Kind: "none"}))
				if res.OK {
					succ = true
				} else {
					rej = true
				}
			case 1: // transfer
				from, to := uint64(1+r.Intn(6)), uint64(1+r.Intn(6))
				d := c.Track.Denoms[r.Intn(len(c.Track.Denoms))]
				c.Do(L2Op{Kind: "send", FromID: from, ToID: to, Denom: d, Amt: big.NewInt(int64(1 + r.Intn(30)))})
			case 2: // withdrawal
				u := e.User(uint64(1 + r.Intn(6)))
				d := c.Track.Denoms[r.Intn(len(c.Track.Denoms))]
				c.Do(L2Op{Kind: "withdraw", Sender: u.Str, To: sc.L1Addrs[r.Intn(len(sc.L1Addrs))], Denom: d, Amt: big.NewInt(int64(1 + r.Intn(30)))})
			case 3: // executor list change by the authority (or somebody else)
				ps, _ := e.K.GetParams(e.Ctx)
				np := &L2Params{Admin: ps.Admin, MaxV: uint64(ps.MaxValidators), Hist: uint64(ps.HistoricalEntries), MinGas: c.Params.MinGas, Whitelist: []string{}, HookGas: ps.HookMaxGas}
				if r.Chance(25) {
					np.HookGas = []uint64{0, 1000000}[r.Intn(2)] // hooks switched off / on again
				}
				n := 1 + r.Intn(3)
				for j := 0; j < n; j++ {
					np.Execs = append(np.Execs, e.User(uint64(1+r.Intn(6))).Str)
				}
				auth := sc.SenderString(r.Weighted([]int{10, 0, 10, 75, 5, 0}))
				sc.register(auth)
				c.Do(L2Op{Kind: "params", Sender: auth, Params: np})
			case 4: // deposit wrapped in ExecuteMessages (only works when the authority is an executor)
				ps, _ := e.K.GetParams(e.Ctx)
				sc.register(ps.Admin, e.Auth)
				inner := sc.Deposit(e.Auth, n1, e.User(4).Str, 0, big.NewInt(3), Hook{Kind: "none"})
				c.Do(L2Op{Kind: "exec", Sender: ps.Admin, Inner: []L2Op{inner}})
			case 5: // bridge info: first registration (after some deposits), repeats, incompatible ones, strangers
				id, addr, chain, client, ok := sc.BridgeID, e.User(1).Str, "l1chain", "", true
				switch r.Weighted([]int{60, 8, 8, 8, 8, 8}) {
				case 1:
					id++
				case 2:
					addr = e.User(2).Str
				case 3:
					chain = "otherchain"
				case 4:
					client = "07-tendermint-0"
				case 5:
					ok = false
				}
				sender := sc.SenderString(r.Weighted([]int{70, 5, 20, 0, 0, 5}))
				sc.register(sender)
				c.Do(L2Op{Kind: "setinfo", Sender: sender, Info: c06BInfo(e, id, addr, chain, client, ok)})
			case 6: // validator add / remove by the authority (or somebody else)
				auth := sc.SenderString(r.Weighted([]int{0, 0, 15, 85, 0, 0}))
				sc.register(auth)
				if r.Chance(60) {
					c.Do(L2Op{Kind: "addval", Sender: auth, OpID: uint64(1 + r.Intn(4)), KeyID: uint64(1 + r.Intn(4))})
				} else {
					c.Do(L2Op{Kind: "rmval", Sender: auth, OpID: uint64(1 + r.Intn(4))})
				}
			case 7: // fee-pool spend
				auth := sc.SenderString(r.Weighted([]int{0, 0, 15, 85, 0, 0}))
				to := e.User(uint64(1 + r.Intn(6))).Str
				sc.register(auth, to)
				c.Do(L2Op{Kind: "spend", Sender: auth, To: to, Coins: []HookSend{{Denom: sc.Native, Amt: big.NewInt(int64(1 + r.Intn(200)))}}})
			}
		}
		nv := len(rep.Violations)
		c06Check(rep, c, 1)
		l2AuthorisedCheck(rep, c, "C06", 1)
		shrinkL2Violations(rep, nv, c, l2Replayer{Fresh: fresh, Monitor: func(rp *Report, cc *L2Case, _ Ov) { c06Check(rp, cc, 1); l2AuthorisedCheck(rp, cc, "C06", 1) }})
		l2QueryMonitor(rep, c, "C06")
		rep.Ops += len(c.Ops)
		rep.CountCase(strings.Join(opsCoq(c.Ops), "\n"), succ && rej)
		if k == 0 {
			rep.Sample(map[string]interface{}{"kind": "random schedule (first 12 ops)", "ops": opsCoq(c.Ops[:12])})
		}
		texts = append(texts, c.Coq())
	}
	// (b') fixed scripts: deposits 1..k, the FIRST SetBridgeInfo, every processed sequence
	// delivered again (must all be no-ops), then k+1; with a second registration and a refused one
	for k := 0; k <= 4; k++ {
		for variant := 0; variant < 2; variant++ {
			caseID++
			kk, vv, cid := k, variant, caseID
			fresh := func() *L2Scenario {
				sc := NewL2Scenario(seed*977+uint64(10*kk+vv), cid, false)
				if kk%2 == 0 {
					// a genesis that wrote 0 into the L1 cursor (types.NewGenesisState leaves it 0 and
					// ValidateGenesis does not check it); the other scripts start from a never-written cursor
					if err := sc.Env.K.SetNextL1Sequence(sc.Env.Ctx, 0); err != nil {
						panic(err)
					}
				}
				return sc
			}
			sc := fresh()
			e, c := sc.Env, sc.Case
			A, B := e.User(1).Str, e.User(2).Str
			for q := 1; q <= k; q++ {
				c.Do(sc.Deposit(A, uint64(q), e.User(4).Str, 0, big.NewInt(int64(10+q)), Hook{Kind: "none"}))
			}
			info := c06BInfo(e, sc.BridgeID, A, "l1chain", "", true)
			if variant == 1 { // a stranger is refused first, then executor B registers
				sc.register(e.User(5).Str)
				c.Do(L2Op{Kind: "setinfo", Sender: e.User(5).Str, Info: info})
				c.Do(L2Op{Kind: "setinfo", Sender: B, Info: info})
			} else {
				c.Do(L2Op{Kind: "setinfo", Sender: A, Info: info})
			}
			for q := 1; q <= k; q++ {
				c.Do(sc.Deposit(B, uint64(q), e.User(5).Str, 0, big.NewInt(int64(10+q)), Hook{Kind: "none"}))
			}
			c.Do(sc.Deposit(A, uint64(k+1), e.User(4).Str, 0, big.NewInt(5), Hook{Kind: "none"}))
			c.Do(L2Op{Kind: "setinfo", Sender: A, Info: info})                                               // repeated registration
			c.Do(L2Op{Kind: "setinfo", Sender: A, Info: c06BInfo(e, sc.BridgeID+1, A, "l1chain", "", true)}) // incompatible: refused
			c.Do(sc.Deposit(A, uint64(k+1), e.User(4).Str, 0, big.NewInt(5), Hook{Kind: "none"}))            // no-op
			c.Do(sc.Deposit(B, uint64(k+2), e.User(4).Str, 0, big.NewInt(6), Hook{Kind: "none"}))
			nv := len(rep.Violations)
			c06Check(rep, c, 1)
			c06EventCheck(rep, c)
			l2AuthorisedCheck(rep, c, "C06", 1)
			shrinkL2Violations(rep, nv, c, l2Replayer{Fresh: fresh, Monitor: func(rp *Report, cc *L2Case, _ Ov) {
				c06Check(rp, cc, 1)
				c06EventCheck(rp, cc)
				l2AuthorisedCheck(rp, cc, "C06", 1)
			}})
			l2QueryMonitor(rep, c, "C06")
			rep.Ops += len(c.Ops)
			rep.CountCase(strings.Join(opsCoq(c.Ops), "\n"), k > 0)
			rep.Hist("script:first-bridge-info-after-deposits")
			texts = append(texts, c.Coq())
		}
	}
	c06Reentrancy(rep, seed, tier)
	// (d) natural panic in the guarded region (monitor-only: the model's amounts are unbounded): two
	// consecutive deposits of 2^255 of one denom make the stock bank keeper panic with an integer
	// overflow in MintCoins; the second must be processed (refunded) and the sequence consumed
	for variant := 0; variant < 2; variant++ {
		caseID++
		vv, cid := variant, caseID
		fresh := func() *L2Scenario { return NewL2Scenario(seed*4241+uint64(vv), cid, false) }
		sc := fresh()
		e, c := sc.Env, sc.Case
		p255 := new(big.Int).Lsh(big.NewInt(1), 255)
		amts := []*big.Int{p255, p255, big.NewInt(5)}
		if variant == 1 {
			amts = []*big.Int{big.NewInt(3), p255, new(big.Int).Sub(p255, big.NewInt(3)), big.NewInt(1), big.NewInt(2)}
		}
		for k, a := range amts {
			c.Do(sc.Deposit(e.User(uint64(1+k%2)).Str, uint64(k+1), e.User(4).Str, 0, a, Hook{Kind: "none"}))
		}
		nv := len(rep.Violations)
		c06Check(rep, c, 1)
		c06EventCheck(rep, c)
		l2AuthorisedCheck(rep, c, "C06", 1)
		shrinkL2Violations(rep, nv, c, l2Replayer{Fresh: fresh, Monitor: func(rp *Report, cc *L2Case, _ Ov) {
			c06Check(rp, cc, 1)
			c06EventCheck(rp, cc)
			l2AuthorisedCheck(rp, cc, "C06", 1)
		}})
		rep.Ops += len(c.Ops)
		rep.CountCase(strings.Join(opsCoq(c.Ops), "\n"), true)
		rep.Hist("script:supply-overflow-panic")
	}
	writeShards(outdir, "C06", l2CaseHeader, "run_l2case", "l2case", texts, 16, rep)
	return rep
}

// (c) hook re-entrancy (monitor-only: a hook tx carrying MsgFinalizeTokenDeposit is outside the
// model's hook language).  A deposit at the expected sequence n from executor A whose hook payload
// is a well-signed tx of another executor B (or of a non-executor) that itself finalizes a
// deposit of sequence n (same), n-1 (stale) or n+1 (next), followed by ordinary deliveries of
// n, n+1, n+2.  Judged from the events alone: over the whole history the finalize_token_deposit
// events - including those emitted from inside hooks - carry every sequence exactly once,
// contiguously; NextL1Sequence = 1 + number of processed sequences; supply and balances grow by
// exactly the credited amounts.
func c06Reentrancy(rep *Report, seed uint64, tier string) {
	bases := []int{0, 2}
	if tier == "thorough" {
		bases = []int{0, 1, 2, 5}
	}
	caseNo := 0
	for _, pre := range bases {
		for _, hookSigner := range []uint64{2, 5} { // executor B, non-executor
			for _, delta := range []int{-1, 0, 1} {
				for _, innerAmt := range []int64{11, 0} {
					caseNo++
					cn := caseNo
					fresh := func() *L2Scenario { return NewL2Scenario(seed*31337+uint64(cn), 200000+cn, false) }
					sc := fresh()
					e, c := sc.Env, sc.Case
					A := e.User(1).Str
					refused := false
					for q := 0; q < pre && !refused; q++ {
						op := sc.Deposit(A, uint64(q+1), e.User(4).Str, 0, big.NewInt(10), Hook{Kind: "none"})
						if r := c.Do(op); !r.OK {
							l2SetupRefused(rep, "C06", e, c.ID, op, r)
							refused = true
						}
					}
					if refused {
						continue
					}
					n := uint64(pre + 1)
					innerSeq := uint64(int(n) + delta)
					inner := sc.Deposit(e.User(hookSigner).Str, innerSeq, e.User(6).Str, 0, big.NewInt(innerAmt), Hook{Kind: "none"})
					hook := e.MakeHookTxMsgs(hookSigner, e.AccSeq(hookSigner), []sdk.Msg{e.RealMsg(inner)},
						fmt.Sprintf("MsgFinalizeTokenDeposit seq=%d by user %d to user 6 amount %d", innerSeq, hookSigner, innerAmt))
					initObs := e.L2Obs(c.Track, ExecResult{OK: true})
					if pre > 0 {
						initObs = nil
					}
					c.Do(sc.Deposit(A, n, e.User(4).Str, 0, big.NewInt(7), hook))
					// the relayer then delivers n (again), n+1, n+2 in order
					for _, sq := range []uint64{n, n + 1, n + 2} {
						c.Do(sc.Deposit(A, sq, e.User(5).Str, 0, big.NewInt(int64(20+sq)), Hook{Kind: "none"}))
					}
					nv := len(rep.Violations)
					c06EventCheck(rep, c)
					shrinkL2Violations(rep, nv, c, l2Replayer{Fresh: fresh, Monitor: func(rp *Report, cc *L2Case, _ Ov) { c06EventCheck(rp, cc) }})
					l2QueryMonitor(rep, c, "C06")
					_ = initObs
					rep.Ops += len(c.Ops)
					rep.CountCase(strings.Join(opsCoq(c.Ops), "\n"), true)
					rep.Hist(fmt.Sprintf("reentrant-hook:signer%d:delta%+d", hookSigner, delta))
				}
			}
		}
	}
	rep.Notes = append(rep.Notes, fmt.Sprintf("%d hook re-entrancy histories (hook tx of another executor / a non-executor finalizing sequence n-1, n, n+1), monitor-only", caseNo))
}

// c06EventCheck: the event-based statement of "exactly once, in order" for a history from a fresh chain.
func c06EventCheck(rep *Report, c *L2Case) {
	tr := c.Track
	expected := uint64(1)
	credited := make([]*big.Int, len(tr.Denoms))
	for i := range credited {
		credited[i] = new(big.Int)
	}
	seen := map[uint64]int{}
	viol := func(i int, sig, what string) {
		rep.Violate(Violation{Case: c.ID, Step: i, What: what, Sig: sig, Ops: opsCoq(c.Ops[:i+1])})
	}
	for i := range c.Ops {
		cur := l2ViewOf(tr, c.Obs[i])
		var seqs []uint64
		for _, ev := range parseL2EvList(c.Results[i].Events) {
			if !ev.IsDep {
				continue
			}
			seqs = append(seqs, ev.Seq)
			seen[ev.Seq]++
			if seen[ev.Seq] > 1 {
				viol(i, "C06:processed-twice", fmt.Sprintf("L1 sequence %d was processed %d times (finalize_token_deposit events, incl. those emitted inside hooks)", ev.Seq, seen[ev.Seq]))
			}
			if di := l2IdxS(tr.Denoms, ev.Denom); di >= 0 && ev.Success {
				credited[di].Add(credited[di], ev.Amt)
			}
		}
		// within one message the hook's events precede the handler's own: compare as a set
		if len(seqs) > 1 {
			rep.Hist("reentrant-hook:deposit-processed-inside-hook")
		}
		sort.Slice(seqs, func(a, b int) bool { return seqs[a] < seqs[b] })
		for _, sq := range seqs {
			if sq != expected && seen[sq] == 1 {
				viol(i, "C06:out-of-order", fmt.Sprintf("L1 sequence %d processed while %d was expected", sq, expected))
			}
			if sq >= expected {
				expected = sq + 1
			}
		}
		if cur.N1 != uint64(len(seen))+1 || cur.N1 != expected {
			viol(i, "C06:next-seq", fmt.Sprintf("NextL1Sequence = %d, but %d distinct sequences were processed (highest %d)", cur.N1, len(seen), expected-1))
		}
		// supply and total balances = what the events say was credited (no user withdrawals here; refunds net zero)
		for di := range tr.Denoms {
			sum := new(big.Int)
			for a := range tr.Accts {
				sum.Add(sum, cur.Bal[a][di])
			}
			if tr.Denoms[di] != "unative" && (cur.Sup[di].Cmp(credited[di]) != 0 || sum.Cmp(credited[di]) != 0) {
				viol(i, "C06:credit-sum", fmt.Sprintf("supply %s / balances %s of %s, credited by events %s", cur.Sup[di], sum, tr.Denoms[di], credited[di]))
			}
		}
	}
}
