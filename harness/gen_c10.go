package main

import (
	"bytes"
	"fmt"
	"math/big"
	"sort"
)

// C10: L1 deposits - per-bridge gap-free sequences, real bridges only, faithful events,
// immutable token pairs.
// Streams: (a) scripted interleavings of creations and deposits over ids 1..5 (most ids do
// not exist yet when first addressed), zero amounts, odd recipients and payloads, followed by a
// random tail; (b) generic random L1 histories weighted towards deposits and creations.
// The sequence/event monitor below is model-free: it recomputes, from the operations and the
// implementation's own answers alone, what every response, event, counter, token-pair table and
// moved coin has to be.

func init() { register("C10", genC10) }

func c10Monitor(rep *Report, c *L1Case) {
	tr := c.Track
	if len(c.Ops) == 0 || viewL1(c.Obs[0]).OK() {
		l1Violate(rep, c, 0, "C10:baseline", "the baseline operation (empty sender) was accepted")
		return
	}
	expSeq := map[uint64]uint64{}
	exp := func(b uint64) uint64 {
		if expSeq[b] == 0 {
			expSeq[b] = 1
		}
		return expSeq[b]
	}
	created := map[uint64]bool{}
	pairs := map[uint64]map[string]string{}
	prev := viewL1(c.Obs[0])
	for bi, b := range tr.Bridges {
		if !bridgeBlank(prev.Bridge(bi)) {
			l1Violate(rep, c, 0, "C10:new-bridge-not-clean", fmt.Sprintf("bridge id %d has records in the initial state", b))
		}
	}
	for i := 1; i < len(c.Ops); i++ {
		o := c.Ops[i]
		v := viewL1(c.Obs[i])
		ok := v.OK()
		evs := v.Events()
		if o.Kind == "deposit" && ok {
			b := o.Bridge
			if !created[b] {
				l1Violate(rep, c, i, "C10:deposit-to-nonexistent-bridge", fmt.Sprintf("a deposit to bridge id %d, which was never created, was accepted", b))
			}
			seq, has := v.RespN()
			if !has || seq != exp(b) {
				l1Violate(rep, c, i, "C10:response-sequence", fmt.Sprintf("deposit into bridge %d returned sequence %d, expected %d", b, seq, exp(b)))
			}
			if len(evs) != 1 {
				l1Violate(rep, c, i, "C10:event-count", fmt.Sprintf("accepted deposit emitted %d initiate_token_deposit events", len(evs)))
			} else {
				f := evs[0].(OL).V
				want := []Ov{onU(b), onU(exp(b)), OB{[]byte(o.Sender)}, OB{[]byte(o.To)}, OB{[]byte(o.Denom)},
					OB{[]byte(l2DenomIndep(b, o.Denom))}, ozB(o.Amt), OB{o.Data}}
				names := []string{"bridge_id", "l1_sequence", "from", "to", "l1_denom", "l2_denom", "amount", "data"}
				for k := range want {
					if normOv(f[k]) != normOv(want[k]) {
						l1Violate(rep, c, i, "C10:event-field", fmt.Sprintf("event attribute %s differs from the request (bridge %d sequence %d)", names[k], b, exp(b)))
					}
				}
			}
			// exactly the announced coin moved from the sender to the escrow of b
			sd := c.idOf(o.Sender)
			for ai, a := range tr.Accts {
				for di, d := range tr.Denoms {
					delta := new(big.Int).Sub(v.Bal(tr, ai, di), prev.Bal(tr, ai, di))
					want := big.NewInt(0)
					if d == o.Denom && a == EscrowBase+b {
						want.Add(want, o.Amt)
					}
					if d == o.Denom && a == sd {
						want.Sub(want, o.Amt)
					}
					if delta.Cmp(want) != 0 {
						l1Violate(rep, c, i, "C10:moved-amount", fmt.Sprintf("deposit of %s%s into bridge %d changed the balance of account %d in %s by %s, expected %s", o.Amt, o.Denom, b, a, d, delta, want))
					}
				}
			}
			expSeq[b] = exp(b) + 1
			if pairs[b] == nil {
				pairs[b] = map[string]string{}
			}
			l2 := l2DenomIndep(b, o.Denom)
			if _, has := pairs[b][l2]; !has {
				pairs[b][l2] = o.Denom
			}
		} else if len(evs) != 0 {
			l1Violate(rep, c, i, "C10:event-count", fmt.Sprintf("%d initiate_token_deposit events without an accepted deposit", len(evs)))
		}
		if o.Kind == "create" && ok {
			id, _ := v.RespN()
			if id != prev.NextBridge() {
				l1Violate(rep, c, i, "C10:bridge-id", fmt.Sprintf("created bridge got id %d, next id was %d", id, prev.NextBridge()))
			}
			if bi := idxU(tr.Bridges, id); bi >= 0 {
				if !bridgeBlank(prev.Bridge(bi)) {
					l1Violate(rep, c, i, "C10:new-bridge-not-clean", fmt.Sprintf("bridge id %d had records before it was created", id))
				}
				blk := v.Bridge(bi)
				if bridgeNextSeq(blk) != 1 || len(blk[5].(OL).V) != 0 {
					l1Violate(rep, c, i, "C10:new-bridge-not-clean", fmt.Sprintf("bridge %d does not start at sequence 1 with no token pairs", id))
				}
			}
			created[id] = true
		}
		for bi, b := range tr.Bridges {
			blk := v.Bridge(bi)
			if bridgeNextSeq(blk) != exp(b) {
				l1Violate(rep, c, i, "C10:next-sequence", fmt.Sprintf("NextL1Sequence(%d) = %d, expected 1 + accepted deposits = %d", b, bridgeNextSeq(blk), exp(b)))
				expSeq[b] = bridgeNextSeq(blk)
			}
			if got, want := blk[5].Coq(), pairsOv(pairs[b]).Coq(); got != want {
				l1Violate(rep, c, i, "C10:token-pairs", fmt.Sprintf("TokenPairs(%d) differs from the first-deposit derivations", b))
			}
			if !created[b] && !bridgeBlank(blk) {
				l1Violate(rep, c, i, "C10:recorded-under-unassigned-id", fmt.Sprintf("records exist under bridge id %d, which was never created", b))
			}
		}
		if !ok && v.StableState() != prev.StableState() {
			l1Violate(rep, c, i, "C10:error-changed-state", "a rejected "+o.Kind+" changed observable state")
		}
		prev = v
	}
}

// observation values print naturals and integers differently; compare by content
func normOv(o Ov) string {
	switch x := o.(type) {
	case ON:
		return "n" + x.V.String()
	case OZ:
		return "n" + x.V.String()
	case OB:
		return "b" + string(x.V)
	}
	return o.Coq()
}

func pairsOv(m map[string]string) Ov {
	ks := make([]string, 0, len(m))
	for k := range m {
		ks = append(ks, k)
	}
	sort.Slice(ks, func(i, j int) bool { return bytes.Compare([]byte(ks[i]), []byte(ks[j])) < 0 })
	var out []Ov
	for _, k := range ks {
		out = append(out, ol(OB{[]byte(k)}, OB{[]byte(m[k])}))
	}
	return OL{out}
}

// scripted: creations and deposits interleaved over ids 1..5
func c10Script(sc *L1Scenario, tier int) {
	e, r := sc.Env, sc.R
	n := 36
	if tier == 1 {
		n = 70
	}
	recipients := []string{"l2recipient", e.User(3).Str, "0xAbC0000000000000000000000000000000000001", " ", "init1" + string(bytes.Repeat([]byte("q"), 90)),
		"a\x00b", "名前", upperBech32(e.User(2).Str)}
	for i := 0; i < n; i++ {
		if r.Chance(20) {
			sc.Advance(sec)
		}
		if r.Chance(8) {
			sc.discardStep()
			continue
		}
		if r.Chance(18) {
			sc.CreateStd(uint64(1+r.Intn(7)), uint64(1+r.Intn(7)), sc.Periods[r.Intn(len(sc.Periods))])
			continue
		}
		b := uint64(1 + r.Intn(5))
		var amt int64
		switch r.Intn(6) {
		case 0:
			amt = 0
		case 1:
			amt = 1
		default:
			amt = int64(r.Intn(400))
		}
		var data []byte
		switch r.Intn(5) {
		case 0:
			data = []byte{0}
		case 1:
			data = r.Bytes(1 + r.Intn(64))
		case 2:
			data = []byte(`{"hook":"x"}`)
		}
		sender := e.User(uint64(1 + r.Intn(7))).Str
		if r.Chance(6) {
			sender = upperBech32(sender)
		}
		sc.DepositOp(sender, b, recipients[r.Intn(len(recipients))], sc.Denoms[r.Intn(len(sc.Denoms))], amt, data)
	}
}

func widen5(tr *L1Track) {
	tr.Bridges = []uint64{1, 2, 3, 4, 5}
	tr.Accts = append(tr.Accts, EscrowBase+5)
}

func genC10(seed uint64, tier, outdir string) *Report {
	w := DefaultL1Weights
	w.Create, w.Deposit, w.Propose, w.Claim, w.Send = 10, 50, 6, 8, 6
	return runMoneyStream(MoneyStream{Prop: "C10", Weights: w, NRandom: [2]int{24, 250}, Len: [2]int{60, 120},
		Scripts: []func(*L1Scenario, int){c10Script}, NScript: [2]int{24, 200}, Widen: widen5,
		Monitors: []L1Monitor{c10Monitor}, Prep: longDenomPrep, Spice: (*L1Scenario).discardStep, SpicePct: 5,
		Rule: "a case is one L1 history on a fresh instance (scripted creation/deposit interleaving over ids 1-5 plus random tail, or fully random); distinct by hash of the op list; non-trivial = at least one deposit accepted and at least one rejected"},
		seed, tier, outdir)
}
