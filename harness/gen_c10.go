package main

import (
	"bytes"
	"fmt"
	"math/big"
	"regexp"
	"sort"
)

// C10: L1 deposits - per-bridge gap-free sequences, real bridges only, faithful events,
// immutable token pairs.
// Streams: (a) scripted interleavings of creations and deposits over ids 1..5 (most ids do
// not exist yet when first addressed), zero amounts, odd recipients and payloads, followed by a
// random tail; (b) generic random L1 histories weighted towards deposits and creations.
// The sequence/event monitor below is model-free: it recomputes, from the operations and the
// implementation's own answers alone, what every response, event, counter, token-pair table and
// moved coin has to be.

func init() { register("C10", genC10) }

// the denom rule of the bank module, restated (not taken from the SDK)
var c10DenomRe = regexp.MustCompile(`^[a-zA-Z][a-zA-Z0-9/:._-]{2,127}$`)

func c10Monitor(rep *Report, c *L1Case) {
	tr := c.Track
	if len(c.Ops) == 0 || viewL1(c.Obs[0]).OK() {
		l1Violate(rep, c, 0, "C10:baseline", "the baseline operation (empty sender) was accepted")
		return
	}
	expSeq := map[uint64]uint64{}
	exp := func(b uint64) uint64 {
		if expSeq[b] == 0 {
			expSeq[b] = 1
		}
		return expSeq[b]
	}
	created := map[uint64]bool{}
	pairs := map[uint64]map[string]string{}
	usedSeq := map[uint64]map[uint64]bool{}   // sequences returned by accepted deposits, per bridge
	usedEvSeq := map[uint64]map[uint64]bool{} // sequences announced by events, per bridge
	side := l1Sides[c]
	prev := viewL1(c.Obs[0])
	for bi, b := range tr.Bridges {
		if !bridgeBlank(prev.Bridge(bi)) {
			l1Violate(rep, c, 0, "C10:new-bridge-not-clean", fmt.Sprintf("bridge id %d has records in the initial state", b))
		}
	}
	for i := 1; i < len(c.Ops); i++ {
		o := c.Ops[i]
		v := viewL1(c.Obs[i])
		ok := v.OK()
		evs := v.Events()
		// the accepted deposits of this step: the op itself and - monitor-only - a deposit submitted
		// from inside its bank transfer (the outer one took its sequence first)
		type accDep struct {
			op     L1Op
			seq    uint64
			has    bool
			nested bool
		}
		var deps []accDep
		if o.Kind == "deposit" && ok {
			seq, has := v.RespN()
			deps = append(deps, accDep{o, seq, has, false})
			if side != nil {
				if nd := side.nestedDep[i]; nd != nil {
					rep.Hist(fmt.Sprintf("nested-deposit:reached=%v,accepted=%v", nd.Reached, nd.OK))
					if nd.OK {
						deps = append(deps, accDep{nd.Op, nd.Seq, true, true})
					}
				}
			}
		}
		matched := make([]bool, len(evs))
		wantDelta := map[[2]int]*big.Int{}
		for _, d := range deps {
			b := d.op.Bridge
			kind := "deposit"
			if d.nested {
				kind = "nested deposit"
			}
			if !c10DenomRe.MatchString(d.op.Denom) {
				l1Violate(rep, c, i, "C10:invalid-denom-accepted", fmt.Sprintf("a %s of %s of the invalid denom %q into bridge %d was accepted (sequence %d consumed, event emitted)", kind, d.op.Amt, d.op.Denom, b, d.seq))
			}
			if !created[b] {
				l1Violate(rep, c, i, "C10:deposit-to-nonexistent-bridge", fmt.Sprintf("a %s to bridge id %d, which was never created, was accepted", kind, b))
			}
			if usedSeq[b] == nil {
				usedSeq[b] = map[uint64]bool{}
			}
			if d.has && usedSeq[b][d.seq] {
				l1Violate(rep, c, i, "C10:sequence-reused", fmt.Sprintf("%s into bridge %d returned sequence %d, which an earlier accepted deposit of that bridge already carries", kind, b, d.seq))
			} else if !d.has || d.seq != exp(b) {
				l1Violate(rep, c, i, "C10:response-sequence", fmt.Sprintf("%s into bridge %d returned sequence %d, expected %d", kind, b, d.seq, exp(b)))
			}
			usedSeq[b][d.seq] = true
			// exactly one event repeating this request with the expected sequence
			want := []Ov{onU(b), onU(exp(b)), OB{[]byte(d.op.Sender)}, OB{[]byte(d.op.To)}, OB{[]byte(d.op.Denom)},
				OB{[]byte(l2DenomIndep(b, d.op.Denom))}, ozB(d.op.Amt), OB{d.op.Data}}
			names := []string{"bridge_id", "l1_sequence", "from", "to", "l1_denom", "l2_denom", "amount", "data"}
			best, bestDiff := -1, 99
			for k, ev := range evs {
				if matched[k] {
					continue
				}
				f := ev.(OL).V
				diff := 0
				for x := range want {
					if normOv(f[x]) != normOv(want[x]) {
						diff++
					}
				}
				if diff < bestDiff {
					best, bestDiff = k, diff
				}
			}
			if best < 0 {
				l1Violate(rep, c, i, "C10:event-count", fmt.Sprintf("accepted %s has no initiate_token_deposit event (%d events for %d accepted deposits)", kind, len(evs), len(deps)))
			} else {
				matched[best] = true
				f := evs[best].(OL).V
				for x := range want {
					if normOv(f[x]) != normOv(want[x]) {
						if names[x] == "l1_sequence" && usedEvSeq[b][f[x].(ON).V.Uint64()] {
							l1Violate(rep, c, i, "C10:sequence-reused", fmt.Sprintf("the event of the %s into bridge %d announces sequence %s, which an earlier event of that bridge already carries", kind, b, f[x].(ON).V))
						} else {
							l1Violate(rep, c, i, "C10:event-field", fmt.Sprintf("event attribute %s differs from the request (bridge %d sequence %d)", names[x], b, exp(b)))
						}
					}
				}
				if usedEvSeq[b] == nil {
					usedEvSeq[b] = map[uint64]bool{}
				}
				usedEvSeq[b][f[1].(ON).V.Uint64()] = true
			}
			// the announced coin moves from the sender to the escrow of b
			sd := c.idOf(d.op.Sender)
			if di := idxS(tr.Denoms, d.op.Denom); di >= 0 {
				for _, a := range [][2]uint64{{EscrowBase + b, 1}, {sd, 0}} {
					if ai := idxU(tr.Accts, a[0]); ai >= 0 {
						key := [2]int{ai, di}
						if wantDelta[key] == nil {
							wantDelta[key] = new(big.Int)
						}
						if a[1] == 1 {
							wantDelta[key].Add(wantDelta[key], d.op.Amt)
						} else {
							wantDelta[key].Sub(wantDelta[key], d.op.Amt)
						}
					}
				}
			}
			expSeq[b] = exp(b) + 1
			if pairs[b] == nil {
				pairs[b] = map[string]string{}
			}
			l2 := l2DenomIndep(b, d.op.Denom)
			if _, has := pairs[b][l2]; !has {
				pairs[b][l2] = d.op.Denom
			}
		}
		if len(evs) != len(deps) {
			l1Violate(rep, c, i, "C10:event-count", fmt.Sprintf("%d initiate_token_deposit events for %d accepted deposits", len(evs), len(deps)))
		}
		if len(deps) > 0 {
			for ai, a := range tr.Accts {
				for di, d := range tr.Denoms {
					delta := new(big.Int).Sub(v.Bal(tr, ai, di), prev.Bal(tr, ai, di))
					want := wantDelta[[2]int{ai, di}]
					if want == nil {
						want = big.NewInt(0)
					}
					if delta.Cmp(want) != 0 {
						l1Violate(rep, c, i, "C10:moved-amount", fmt.Sprintf("deposit of %s%s into bridge %d changed the balance of account %d in %s by %s, expected %s", o.Amt, o.Denom, o.Bridge, a, d, delta, want))
					}
				}
			}
		}
		if o.Kind == "create" && ok {
			id, _ := v.RespN()
			if id != prev.NextBridge() {
				l1Violate(rep, c, i, "C10:bridge-id", fmt.Sprintf("created bridge got id %d, next id was %d", id, prev.NextBridge()))
			}
			if bi := idxU(tr.Bridges, id); bi >= 0 {
				if !bridgeBlank(prev.Bridge(bi)) {
					l1Violate(rep, c, i, "C10:new-bridge-not-clean", fmt.Sprintf("bridge id %d had records before it was created", id))
				}
				blk := v.Bridge(bi)
				if bridgeNextSeq(blk) != 1 || len(blk[5].(OL).V) != 0 {
					l1Violate(rep, c, i, "C10:new-bridge-not-clean", fmt.Sprintf("bridge %d does not start at sequence 1 with no token pairs", id))
				}
			}
			created[id] = true
		}
		for bi, b := range tr.Bridges {
			blk := v.Bridge(bi)
			if bridgeNextSeq(blk) != exp(b) {
				l1Violate(rep, c, i, "C10:next-sequence", fmt.Sprintf("NextL1Sequence(%d) = %d, expected 1 + accepted deposits = %d", b, bridgeNextSeq(blk), exp(b)))
				expSeq[b] = bridgeNextSeq(blk)
			}
			if got, want := blk[5].Coq(), pairsOv(pairs[b]).Coq(); got != want {
				l1Violate(rep, c, i, "C10:token-pairs", fmt.Sprintf("TokenPairs(%d) differs from the first-deposit derivations", b))
			}
			if !created[b] && !bridgeBlank(blk) {
				l1Violate(rep, c, i, "C10:recorded-under-unassigned-id", fmt.Sprintf("records exist under bridge id %d, which was never created", b))
			}
		}
		if !ok && v.StableState() != prev.StableState() {
			l1Violate(rep, c, i, "C10:error-changed-state", "a rejected "+o.Kind+" changed observable state")
		}
		prev = v
	}
}

// observation values print naturals and integers differently; compare by content
func normOv(o Ov) string {
	switch x := o.(type) {
	case ON:
		return "n" + x.V.String()
	case OZ:
		return "n" + x.V.String()
	case OB:
		return "b" + string(x.V)
	}
	return o.Coq()
}

func pairsOv(m map[string]string) Ov {
	ks := make([]string, 0, len(m))
	for k := range m {
		ks = append(ks, k)
	}
	sort.Slice(ks, func(i, j int) bool { return bytes.Compare([]byte(ks[i]), []byte(ks[j])) < 0 })
	var out []Ov
	for _, k := range ks {
		out = append(out, ol(OB{[]byte(k)}, OB{[]byte(m[k])}))
	}
	return OL{out}
}

// scripted: creations and deposits interleaved over ids 1..5
func c10Script(sc *L1Scenario, tier int) {
	e, r := sc.Env, sc.R
	n := 36
	if tier == 1 {
		n = 70
	}
	recipients := []string{"l2recipient", e.User(3).Str, "0xAbC0000000000000000000000000000000000001", " ", "init1" + string(bytes.Repeat([]byte("q"), 90)),
		"a\x00b", "名前", upperBech32(e.User(2).Str)}
	for i := 0; i < n; i++ {
		if r.Chance(20) {
			sc.Advance(sec)
		}
		if r.Chance(8) {
			sc.discardStep()
			continue
		}
		if r.Chance(7) { // amounts around 2^63 and the largest one, funded (user 7 holds 2^66 of every denom)
			big63 := new(big.Int).Lsh(big.NewInt(1), 63)
			amts := []*big.Int{new(big.Int).Sub(big63, big.NewInt(1)), big63, new(big.Int).Add(big63, big.NewInt(1)), new(big.Int).Sub(new(big.Int).Lsh(big.NewInt(1), 64), big.NewInt(1))}
			b := uint64(1 + r.Intn(5))
			if ex := sc.existingBridges(); len(ex) > 0 {
				b = ex[r.Intn(len(ex))]
			}
			sc.reg(e.User(7).Str)
			sc.do(L1Op{Kind: "deposit", Sender: e.User(7).Str, Bridge: b, To: "l2recipient", Denom: sc.Denoms[r.Intn(3)], Amt: amts[r.Intn(len(amts))]})
			continue
		}
		if r.Chance(10) { // zero (and one) amount x every invalid-denom shape, into an existing or any bridge
			bad := []string{"x", "ab", "1stake", "u stake", "", "uinit!", "u" + string(bytes.Repeat([]byte("x"), 128))}
			ex := sc.existingBridges()
			for _, d := range bad {
				b := uint64(1 + r.Intn(5))
				if len(ex) > 0 && r.Chance(80) {
					b = ex[r.Intn(len(ex))]
				}
				amt := int64(0)
				if r.Chance(20) {
					amt = 1
				}
				sc.DepositOp(e.User(uint64(1+r.Intn(7))).Str, b, "l2recipient", d, amt, nil)
			}
			continue
		}
		if r.Chance(18) {
			sc.CreateStd(uint64(1+r.Intn(7)), uint64(1+r.Intn(7)), sc.Periods[r.Intn(len(sc.Periods))])
			continue
		}
		b := uint64(1 + r.Intn(5))
		var amt int64
		switch r.Intn(6) {
		case 0:
			amt = 0
		case 1:
			amt = 1
		default:
			amt = int64(r.Intn(400))
		}
		var data []byte
		switch r.Intn(5) {
		case 0:
			data = []byte{0}
		case 1:
			data = r.Bytes(1 + r.Intn(64))
		case 2:
			data = []byte(`{"hook":"x"}`)
		}
		sender := e.User(uint64(1 + r.Intn(7))).Str
		if r.Chance(6) {
			sender = upperBech32(sender)
		}
		sc.DepositOp(sender, b, recipients[r.Intn(len(recipients))], sc.Denoms[r.Intn(len(sc.Denoms))], amt, data)
	}
}

// scripted, monitor-only for the nested calls: deposits submitted from inside another deposit's
// sender -> escrow transfer (same bridge and another bridge), between ordinary deposits
func c10ReentryScript(sc *L1Scenario, tier int) {
	e, r := sc.Env, sc.R
	var bs []uint64
	for k := 0; k < 2+r.Intn(2); k++ {
		if b, ok := sc.CreateStd(uint64(1+r.Intn(7)), uint64(1+r.Intn(7)), sc.Periods[r.Intn(len(sc.Periods))]); ok {
			bs = append(bs, b)
		}
	}
	if len(bs) == 0 {
		return
	}
	n := 16
	if tier == 1 {
		n = 40
	}
	dep := func(b uint64) L1Op {
		amt := int64(1 + r.Intn(200))
		if r.Chance(10) {
			amt = 0
		}
		var data []byte
		if r.Chance(30) {
			data = r.Bytes(1 + r.Intn(8))
		}
		return L1Op{Kind: "deposit", Sender: e.User(uint64(1 + r.Intn(7))).Str, Bridge: b, To: "l2recipient", Denom: sc.Denoms[r.Intn(len(sc.Denoms))], Amt: big.NewInt(amt), Data: data}
	}
	for i := 0; i < n; i++ {
		b := bs[r.Intn(len(bs))]
		if r.Chance(45) {
			o := dep(b)
			sc.reg(o.Sender)
			sc.do(o)
			continue
		}
		nb := b // nested: mostly the same bridge, sometimes another one or one that does not exist
		switch r.Intn(6) {
		case 0:
			nb = bs[r.Intn(len(bs))]
		case 1:
			nb = uint64(len(bs) + 1)
		}
		sc.DepositReentrant(dep(b), dep(nb))
	}
}

func c10Prep(sc *L1Scenario) {
	longDenomPrep(sc)
	whalePrep(sc)
}

func widen5(tr *L1Track) {
	tr.Bridges = []uint64{1, 2, 3, 4, 5}
	tr.Accts = append(tr.Accts, EscrowBase+5)
}

func genC10(seed uint64, tier, outdir string) *Report {
	w := DefaultL1Weights
	w.Create, w.Deposit, w.Propose, w.Claim, w.Send = 10, 50, 6, 8, 6
	return runMoneyStream(MoneyStream{Prop: "C10", Weights: w, NRandom: [2]int{24, 250}, Len: [2]int{60, 120},
		Scripts: []func(*L1Scenario, int){c10Script, c10ReentryScript}, NScript: [2]int{16, 150}, Widen: widen5,
		Monitors: []L1Monitor{c10Monitor}, Prep: c10Prep, Spice: (*L1Scenario).discardStep, SpicePct: 5,
		Rule: "a case is one L1 history on a fresh instance (scripted creation/deposit interleaving over ids 1-5 plus random tail, or fully random); distinct by hash of the op list; non-trivial = at least one deposit accepted and at least one rejected"},
		seed, tier, outdir)
}
