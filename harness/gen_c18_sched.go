package main

import (
	"context"
	"fmt"
	"math/big"
	"os"
	"os/exec"
	"path/filepath"
	"runtime"
	"strings"
	"sync"
	"sync/atomic"
	"time"

	sdk "github.com/cosmos/cosmos-sdk/types"
	banktypes "github.com/cosmos/cosmos-sdk/x/bank/types"

	opchildante "github.com/initia-labs/OPinit/x/opchild/ante"
	opchildkeeper "github.com/initia-labs/OPinit/x/opchild/keeper"
	opchildlanes "github.com/initia-labs/OPinit/x/opchild/lanes"
	opchildtypes "github.com/initia-labs/OPinit/x/opchild/types"
	ophosttypes "github.com/initia-labs/OPinit/x/ophost/types"
)

// C18, schedule family ("schedules" of the quantifier; class: shared mutable package state reached
// from query goroutines).  A node answers gRPC queries on their own goroutines while a block
// executes.  Each history - a few thousand cheap deposits over several bridges and many denoms,
// plus proposals - is executed (a) alone and (b) while N goroutines continuously call the modules'
// pure / public read paths on OTHER instances (one instance per goroutine) and the package-level
// helpers: ophost Querier, opchild Querier, L2Denom, BridgeAddress, GenerateWithdrawalHash,
// GenerateOutputRoot, GenerateNodeHash, the ante fee helpers, the lane match handlers.  Nothing
// the hammering goroutines do touches the instance under test, so (a) and (b) must agree byte for
// byte (responses, events, gas, errors per operation; store dumps at checkpoints).
// This SAMPLES schedules; it proves nothing about the ones not hit.

type c18Lite struct {
	OK     bool
	Err    string
	Resp   string
	Events string
	Gas    uint64
	Stores string // only at checkpoints
}

func (a c18Lite) diff(b c18Lite) string {
	switch {
	case a.OK != b.OK:
		return "verdict"
	case a.Err != b.Err:
		return "error-string"
	case a.Resp != b.Resp:
		return "response"
	case a.Events != b.Events:
		return "events"
	case a.Stores != b.Stores:
		return "store-bytes"
	case a.Gas != b.Gas:
		return "gas"
	}
	return ""
}

func c18SchedHistory(seed uint64, id int, nDeposits int) []L1Op {
	sc := NewL1Scenario(seed, id, nil)
	e, r := sc.Env, sc.R
	var ops []L1Op
	do := func(o L1Op) ExecResult {
		o = sc.op(o)
		res := e.L1Exec(o)
		ops = append(ops, o)
		return res
	}
	nBridges := 4
	for b := 0; b < nBridges; b++ {
		cfg := sc.NewConfig(uint64(1+b), uint64(5+b%2), 100*sec)
		if !do(sc.Create(e.User(uint64(1+b)).Str, cfg)).OK {
			panic("c18 sched: bridge creation failed")
		}
	}
	denoms := []string{"uinit", "uusdc"}
	for i := 0; i < 60; i++ {
		denoms = append(denoms, fmt.Sprintf("coin%03d/%x", i, r.Bytes(1+r.Intn(20))))
	}
	for i := 0; i < nDeposits; i++ {
		b := uint64(1 + r.Intn(nBridges))
		if i%97 == 96 {
			sc.Advance(int64(1+r.Intn(3)) * sec)
			cfgP, _, _, _ := sc.Config(b)
			next, _ := e.K.GetNextOutputIndex(e.Ctx, b)
			do(L1Op{Kind: "propose", Sender: cfgP, Bridge: b, Idx: next, L2: next * 10, Root: r.Bytes(32)})
			continue
		}
		amt := big.NewInt(0)
		d := denoms[r.Intn(len(denoms))]
		if r.Chance(5) {
			amt, d = big.NewInt(int64(1+r.Intn(3))), "uinit"
		}
		do(L1Op{Kind: "deposit", Sender: e.User(uint64(1 + r.Intn(7))).Str, Bridge: b, To: "init1l2recipient" + fmt.Sprint(r.Intn(50)), Denom: d, Amt: amt})
	}
	return ops
}

func c18SchedExecute(seed uint64, id int, ops []L1Op, every int) []c18Lite {
	sc := NewL1Scenario(seed, id, nil)
	e := sc.Env
	out := make([]c18Lite, 0, len(ops))
	for i, o := range ops {
		freshGasL1(e)
		res := e.L1Exec(o)
		p := c18Lite{OK: res.OK, Err: res.Err, Resp: respString(res.Resp), Events: eventsString(res.Events), Gas: e.Ctx.GasMeter().GasConsumed()}
		if i%every == every-1 || i == len(ops)-1 {
			p.Stores, _ = dumpStores(e.Ctx, e.Keys)
		}
		out = append(out, p)
	}
	return out
}

// the read paths hammered from other goroutines; every goroutine has instances of its own
func c18Hammer(seed uint64, idx int, stop *atomic.Bool, calls *atomic.Uint64) {
	r := NewRng(seed ^ uint64(0xabc0+idx))
	var n uint64
	defer func() { calls.Add(n) }()
	switch idx % 3 {
	case 0: // package-level helpers
		a, b := r.Bytes(32), r.Bytes(32)
		for !stop.Load() {
			bid := uint64(100 + r.Intn(1000))
			_ = ophosttypes.L2Denom(bid, "other/denom/"+fmt.Sprint(r.Intn(500)))
			_ = ophosttypes.L2Denom(bid+1, "uinit")
			_ = ophosttypes.BridgeAddress(bid)
			_ = ophosttypes.GenerateWithdrawalHash(bid, uint64(r.Intn(99)), "sender", "receiver", "uinit", uint64(r.Intn(1000)))
			_ = ophosttypes.GenerateOutputRoot(0, a, b)
			_ = ophosttypes.GenerateNodeHash(a, b)
			_ = ophosttypes.L2Denom(bid+2, "uusdc")
			n += 7
		}
	case 1: // ophost Querier on another instance
		sc := NewL1Scenario(seed+uint64(1000+idx), 900+idx, nil)
		e := sc.Env
		cfg := sc.NewConfig(1, 2, 100*sec)
		e.L1Exec(sc.op(sc.Create(e.User(1).Str, cfg)))
		e.L1Exec(sc.op(L1Op{Kind: "deposit", Sender: e.User(1).Str, Bridge: 1, To: "x", Denom: "uinit", Amt: big.NewInt(1)}))
		ctx := context.Context(e.Ctx)
		for !stop.Load() {
			bid := uint64(200 + r.Intn(1000))
			_, _ = e.Q.TokenPairByL1Denom(ctx, &ophosttypes.QueryTokenPairByL1DenomRequest{BridgeId: bid, L1Denom: "queried/" + fmt.Sprint(r.Intn(500))})
			_, _ = e.Q.TokenPairByL1Denom(ctx, &ophosttypes.QueryTokenPairByL1DenomRequest{BridgeId: 1, L1Denom: "uinit"})
			_, _ = e.Q.Bridge(ctx, &ophosttypes.QueryBridgeRequest{BridgeId: 1})
			_, _ = e.Q.OutputProposal(ctx, &ophosttypes.QueryOutputProposalRequest{BridgeId: 1, OutputIndex: 1})
			_, _ = e.Q.Claimed(ctx, &ophosttypes.QueryClaimedRequest{BridgeId: 1, WithdrawalHash: r.Bytes(32)})
			_, _ = e.Q.NextL1Sequence(ctx, &ophosttypes.QueryNextL1SequenceRequest{BridgeId: 1})
			_, _ = e.Q.Params(ctx, &ophosttypes.QueryParamsRequest{})
			_, _ = e.Q.TokenPairByL1Denom(ctx, &ophosttypes.QueryTokenPairByL1DenomRequest{BridgeId: bid + 7, L1Denom: "uusdc"})
			n += 8
		}
	case 2: // opchild Querier, ante fee helpers, lane match handlers on another instance
		sc := NewL2Scenario(seed+uint64(2000+idx), 900+idx, false)
		e := sc.Env
		q := opchildkeeper.NewQuerier(e.K)
		ctx := context.Context(e.Ctx)
		checker := opchildante.NewMempoolFeeChecker(e.K)
		sys := opchildlanes.SystemLaneMatchHandler()
		free := opchildlanes.NewFreeLaneMatchHandler(e.AK.AddressCodec(), e.K).MatchHandler()
		b := e.Enc.TxConfig.NewTxBuilder()
		_ = b.SetMsgs(&banktypes.MsgSend{FromAddress: e.User(1).Str, ToAddress: e.User(2).Str, Amount: sdk.NewCoins(sdk.NewInt64Coin(sc.Native, 1))})
		b.SetGasLimit(100000)
		b.SetFeeAmount(sdk.NewCoins(sdk.NewInt64Coin(sc.Native, 20000)))
		tx := b.GetTx()
		node := sdk.DecCoins{sdk.NewInt64DecCoin(sc.Native, 1)}
		chain := sdk.DecCoins{sdk.NewInt64DecCoin(sc.Native, 2), sdk.NewInt64DecCoin("uzzz", 3)}
		cctx := e.Ctx.WithIsCheckTx(true)
		for !stop.Load() {
			_, _ = q.Params(ctx, &opchildtypes.QueryParamsRequest{})
			_, _ = q.NextL1Sequence(ctx, &opchildtypes.QueryNextL1SequenceRequest{})
			_, _ = q.NextL2Sequence(ctx, &opchildtypes.QueryNextL2SequenceRequest{})
			_, _ = q.BaseDenom(ctx, &opchildtypes.QueryBaseDenomRequest{Denom: sc.L2Denoms[0]})
			_ = opchildante.CombinedMinGasPrices(node, chain)
			_, _, _ = checker.CheckTxFeeWithMinGasPrices(cctx, tx)
			_ = sys(e.Ctx, tx)
			_ = free(e.Ctx, tx)
			_ = ophosttypes.L2Denom(uint64(300+r.Intn(100)), sc.L1Denoms[0])
			n += 9
		}
	}
}

func genC18Sched(rep *Report, seed uint64, tier string, id *int) {
	nHist, nDep := 1, 3000
	if tier == "thorough" {
		nHist, nDep = 8, 6000
	}
	savedProcs := runtime.GOMAXPROCS(0)
	procs := savedProcs
	if procs < 4 {
		procs = 4
	}
	if procs > 8 {
		procs = 8 // the machine is shared
	}
	runtime.GOMAXPROCS(procs)
	defer runtime.GOMAXPROCS(savedProcs)
	nHammer := procs - 1
	var totalCalls uint64
	for k := 0; k < nHist; k++ {
		*id++
		s := seed*100000 + 8000 + uint64(k)
		ops := c18SchedHistory(s, *id, nDep)
		human := l1OpsHuman(ops)
		alone := c18SchedExecute(s, *id, ops, 250)
		var stop atomic.Bool
		var calls atomic.Uint64
		var wg sync.WaitGroup
		ready := make(chan struct{}, nHammer)
		for i := 0; i < nHammer; i++ {
			wg.Add(1)
			go func(i int) {
				defer wg.Done()
				ready <- struct{}{}
				c18Hammer(s, i, &stop, &calls)
			}(i)
		}
		for i := 0; i < nHammer; i++ {
			<-ready
		}
		var busy []c18Lite
		onOwnGoroutine(func() { busy = c18SchedExecute(s, *id, ops, 250) })
		stop.Store(true)
		wg.Wait()
		totalCalls += calls.Load()
		wrong := 0
		first := -1
		firstD := ""
		for i := range alone {
			if d := alone[i].diff(busy[i]); d != "" {
				wrong++
				if first < 0 {
					first, firstD = i, d
				}
			}
		}
		if first >= 0 {
			from := first - 2
			if from < 4 {
				from = 4
			}
			hist := append(append([]string{}, human[:4]...), fmt.Sprintf("... %d further operations (deposits of many denoms on 4 bridges, proposals) ...", from-4))
			hist = append(hist, human[from:first+1]...)
			rep.Violate(Violation{Case: *id, Step: first, Sig: "C18:depends-on-concurrent-queries",
				What: fmt.Sprintf("L1 history of %d operations: executed alone and executed while %d goroutines call read-only query paths and package helpers on OTHER instances, the results differ in %s at operation %d (%s); %d operations differ in all",
					len(ops), nHammer, firstD, first, human[first], wrong),
				Ops: hist, Detail: map[string]interface{}{"alone": alone[first], "with_concurrent_queries": busy[first], "operations_that_differ": wrong}})
		}
		okN, errN := 0, 0
		for i, p := range alone {
			if p.OK {
				okN++
			} else {
				errN++
			}
			_ = i
		}
		rep.Histogram["sched:ops:OK"] += okN
		rep.Histogram["sched:ops:ERR"] += errN
		rep.Ops += 2 * len(ops)
		rep.CountCase(strings.Join(human[:min(200, len(human))], "\n"), true)
	}
	rep.Notes = append(rep.Notes, fmt.Sprintf("schedule family: %d L1 histories of %d operations (zero-amount deposits of 62 denoms on 4 bridges, proposals), each executed alone and while %d goroutines (GOMAXPROCS %d) made %d calls of read-only query paths / package helpers on other instances; schedules are sampled, not enumerated",
		nHist, nDep+4, nHammer, procs, totalCalls))
}

// the schedule family alone (used by the race-detector build of the thorough tier)
func init() { register("C18sched", genC18SchedOnly) }

func genC18SchedOnly(seed uint64, tier string, outdir string) *Report {
	rep := NewReport("C18", seed, tier)
	rep.Rule = "schedule family only"
	id := 0
	genC18Sched(rep, seed, tier, &id)
	return rep
}

// Thorough-tier extra: the schedule family under the Go race detector.  A DATA RACE between a
// read-only query path / package helper and a message path is a deterministic witness of the class
// "shared mutable package state reached from query goroutines".  The harness is rebuilt with
// `go build -race` (cgo + gcc; works offline on this image) against the same OPinit tree and only
// the C18sched stream is run.  Anything that prevents the build is a note, not a violation.
func c18RaceExtra(rep *Report, seed uint64) {
	exe, err := os.Executable()
	if err != nil {
		rep.Notes = append(rep.Notes, "race detector: skipped ("+err.Error()+")")
		return
	}
	root := filepath.Dir(filepath.Dir(exe))
	src := filepath.Join(root, "harness")
	if _, err := os.Stat(filepath.Join(src, "go.mod")); err != nil {
		rep.Notes = append(rep.Notes, "race detector: skipped (harness sources not found next to the binary)")
		return
	}
	bin := filepath.Join(root, ".build", "harness_race")
	env := append(os.Environ(), "GOWORK=off", "GOFLAGS=-mod=mod", "GOPROXY=off", "GOSUMDB=off", "GOTOOLCHAIN=local", "CGO_ENABLED=1")
	ctx, cancel := context.WithTimeout(context.Background(), 25*time.Minute)
	defer cancel()
	build := exec.CommandContext(ctx, "go", "build", "-race", "-p", "6", "-tags", "verif", "-o", bin, ".")
	build.Dir, build.Env = src, env
	if out, err := build.CombinedOutput(); err != nil {
		msg := string(out)
		if len(msg) > 400 {
			msg = msg[len(msg)-400:]
		}
		rep.Notes = append(rep.Notes, "race detector: the -race build of the harness failed, skipped: "+err.Error()+" "+msg)
		return
	}
	tmp, err := os.MkdirTemp(filepath.Join(root, ".build"), "race")
	if err != nil {
		rep.Notes = append(rep.Notes, "race detector: skipped ("+err.Error()+")")
		return
	}
	defer os.RemoveAll(tmp)
	run := exec.CommandContext(ctx, bin, "C18sched", "-seed", fmt.Sprint(seed), "-tier", "quick", "-out", tmp)
	run.Dir = tmp
	run.Env = append(env, "GORACE=halt_on_error=0")
	var stderr strings.Builder
	run.Stderr = &stderr
	_ = run.Run()
	text := stderr.String()
	n := strings.Count(text, "WARNING: DATA RACE")
	rep.Histogram["race-detector:data-races"] += n
	if n == 0 {
		rep.Notes = append(rep.Notes, "race detector: schedule family rebuilt with -race and run: no data race reported")
		return
	}
	first := text
	if i := strings.Index(first, "WARNING: DATA RACE"); i >= 0 {
		first = first[i:]
	}
	if j := strings.Index(first, "\n=================="); j >= 0 {
		first = first[:j]
	}
	lines := strings.Split(first, "\n")
	if strings.Contains(first, "github.com/initia-labs/OPinit/x/") {
		rep.Violate(Violation{Case: 0, Step: 0, Sig: "C18:data-race-query-vs-message",
			What: fmt.Sprintf("the Go race detector reports %d data races while read-only query paths / package helpers run on goroutines next to message execution; first report attached", n),
			Ops:  lines})
	} else {
		rep.Notes = append(rep.Notes, fmt.Sprintf("race detector: %d data races reported, none with a frame in OPinit/x (first: %s)", n, strings.Join(lines[:min(6, len(lines))], " | ")))
	}
}
