package main

import (
	"bytes"
	"context"
	"encoding/binary"
	"fmt"
	"sort"
	"strings"
	"time"

	tmproto "github.com/cometbft/cometbft/proto/tendermint/types"

	"cosmossdk.io/log"
	"cosmossdk.io/store"
	"cosmossdk.io/store/metrics"
	storetypes "cosmossdk.io/store/types"
	signingmod "cosmossdk.io/x/tx/signing"
	dbm "github.com/cosmos/cosmos-db"
	"github.com/cosmos/cosmos-sdk/baseapp"
	"github.com/cosmos/cosmos-sdk/client"
	clienttx "github.com/cosmos/cosmos-sdk/client/tx"
	"github.com/cosmos/cosmos-sdk/codec"
	codecaddress "github.com/cosmos/cosmos-sdk/codec/address"
	codectypes "github.com/cosmos/cosmos-sdk/codec/types"
	"github.com/cosmos/cosmos-sdk/crypto/keys/ed25519"
	"github.com/cosmos/cosmos-sdk/crypto/keys/secp256k1"
	cryptotypes "github.com/cosmos/cosmos-sdk/crypto/types"
	"github.com/cosmos/cosmos-sdk/runtime"
	"github.com/cosmos/cosmos-sdk/std"
	sdk "github.com/cosmos/cosmos-sdk/types"
	"github.com/cosmos/cosmos-sdk/types/module"
	"github.com/cosmos/cosmos-sdk/types/tx/signing"
	"github.com/cosmos/cosmos-sdk/x/auth"
	authante "github.com/cosmos/cosmos-sdk/x/auth/ante"
	authcodec "github.com/cosmos/cosmos-sdk/x/auth/codec"
	authkeeper "github.com/cosmos/cosmos-sdk/x/auth/keeper"
	authsign "github.com/cosmos/cosmos-sdk/x/auth/signing"
	authtx "github.com/cosmos/cosmos-sdk/x/auth/tx"
	authtypes "github.com/cosmos/cosmos-sdk/x/auth/types"
	"github.com/cosmos/cosmos-sdk/x/bank"
	bankkeeper "github.com/cosmos/cosmos-sdk/x/bank/keeper"
	banktypes "github.com/cosmos/cosmos-sdk/x/bank/types"
	distributiontypes "github.com/cosmos/cosmos-sdk/x/distribution/types"
	stakingtypes "github.com/cosmos/cosmos-sdk/x/staking/types"
	"github.com/cosmos/gogoproto/proto"

	opchild "github.com/initia-labs/OPinit/x/opchild"
	opchildkeeper "github.com/initia-labs/OPinit/x/opchild/keeper"
	opchildtypes "github.com/initia-labs/OPinit/x/opchild/types"
	oraclekeeper "github.com/skip-mev/connect/v2/x/oracle/keeper"
	oracletypes "github.com/skip-mev/connect/v2/x/oracle/types"
)

type EncodingConfig struct {
	InterfaceRegistry codectypes.InterfaceRegistry
	Marshaler         codec.Codec
	TxConfig          client.TxConfig
	Amino             *codec.LegacyAmino
}

func makeEncodingConfig(basics module.BasicManager) EncodingConfig {
	interfaceRegistry, _ := codectypes.NewInterfaceRegistryWithOptions(codectypes.InterfaceRegistryOptions{
		ProtoFiles: proto.HybridResolver,
		SigningOptions: signingmod.Options{
			AddressCodec:          codecaddress.NewBech32Codec(sdk.GetConfig().GetBech32AccountAddrPrefix()),
			ValidatorAddressCodec: codecaddress.NewBech32Codec(sdk.GetConfig().GetBech32ValidatorAddrPrefix()),
		},
	})
	appCodec := codec.NewProtoCodec(interfaceRegistry)
	legacyAmino := codec.NewLegacyAmino()
	txConfig := authtx.NewTxConfig(appCodec, authtx.DefaultSignModes)
	std.RegisterInterfaces(interfaceRegistry)
	std.RegisterLegacyAminoCodec(legacyAmino)
	basics.RegisterLegacyAminoCodec(legacyAmino)
	basics.RegisterInterfaces(interfaceRegistry)
	return EncodingConfig{interfaceRegistry, appCodec, txConfig, legacyAmino}
}

// Account is a user account known to the address table of a trace.
type Account struct {
	ID   uint64
	Priv cryptotypes.PrivKey
	Addr sdk.AccAddress
	Str  string // canonical (lower-case) bech32
}

// wrappers used for fault injection (C07): they satisfy the keeper's expected interfaces
type FaultPlan struct {
	Count    int  // number of calls seen so far (recording)
	FailAt   int  // 1-based call index to fail at; 0 = none
	Panic    bool // panic instead of returning an error
	Calls    []string
	Disabled bool
	InHook   int // > 0 while a hook message that reaches the opchild keeper is executing
}

func (f *FaultPlan) hit(name string) error {
	if f == nil || f.Disabled {
		return nil
	}
	if f.InHook > 0 {
		name = "hook:" + name
	}
	f.Count++
	f.Calls = append(f.Calls, name)
	if f.FailAt != 0 && f.Count == f.FailAt {
		if f.Panic {
			panic("injected panic at " + name)
		}
		return fmt.Errorf("injected fault at %s", name)
	}
	return nil
}

type faultBank struct {
	bankkeeper.Keeper
	f *FaultPlan
}

func (b faultBank) MintCoins(ctx context.Context, moduleName string, amt sdk.Coins) error {
	if err := b.f.hit("MintCoins"); err != nil {
		return err
	}
	return b.Keeper.MintCoins(ctx, moduleName, amt)
}
func (b faultBank) BurnCoins(ctx context.Context, moduleName string, amt sdk.Coins) error {
	if err := b.f.hit("BurnCoins"); err != nil {
		return err
	}
	return b.Keeper.BurnCoins(ctx, moduleName, amt)
}
func (b faultBank) SendCoinsFromModuleToAccount(ctx context.Context, senderModule string, recipientAddr sdk.AccAddress, amt sdk.Coins) error {
	if err := b.f.hit("SendCoinsFromModuleToAccount"); err != nil {
		return err
	}
	return b.Keeper.SendCoinsFromModuleToAccount(ctx, senderModule, recipientAddr, amt)
}
func (b faultBank) SendCoinsFromAccountToModule(ctx context.Context, senderAddr sdk.AccAddress, recipientModule string, amt sdk.Coins) error {
	if err := b.f.hit("SendCoinsFromAccountToModule"); err != nil {
		return err
	}
	return b.Keeper.SendCoinsFromAccountToModule(ctx, senderAddr, recipientModule, amt)
}
func (b faultBank) HasDenomMetaData(ctx context.Context, denom string) bool {
	if err := b.f.hit("HasDenomMetaData"); err != nil {
		panic(err) // no error return: an injected fault here can only be a panic
	}
	return b.Keeper.HasDenomMetaData(ctx, denom)
}
func (b faultBank) SetDenomMetaData(ctx context.Context, denomMetaData banktypes.Metadata) {
	if err := b.f.hit("SetDenomMetaData"); err != nil {
		panic(err)
	}
	b.Keeper.SetDenomMetaData(ctx, denomMetaData)
}

// faultBankMsgServer wraps the bank msg server that executes hook messages (the SDK's bank msg
// server insists on a BaseKeeper, so the fault is injected at the handler boundary): the fault
// stands for an error / panic of a keeper call made by the hook's MsgSend.
type faultBankMsgServer struct {
	banktypes.MsgServer
	f *FaultPlan
}

func (m faultBankMsgServer) Send(ctx context.Context, msg *banktypes.MsgSend) (*banktypes.MsgSendResponse, error) {
	if err := m.f.hit("SendCoins"); err != nil {
		return nil, err
	}
	return m.MsgServer.Send(ctx, msg)
}

// faultOpchildMsgServer marks the keeper calls made by a hook's MsgInitiateTokenWithdrawal
// (they reach the same wrapped bank keeper as the handler's own reclaim / burn, but run inside
// handleBridgeHook's cache + recover)
type faultOpchildMsgServer struct {
	opchildtypes.MsgServer
	f *FaultPlan
}

func (m faultOpchildMsgServer) InitiateTokenWithdrawal(ctx context.Context, msg *opchildtypes.MsgInitiateTokenWithdrawal) (*opchildtypes.MsgInitiateTokenWithdrawalResponse, error) {
	m.f.InHook++
	defer func() { m.f.InHook-- }()
	return m.MsgServer.InitiateTokenWithdrawal(ctx, msg)
}

// faultAcct wraps the account keeper handed to the opchild keeper (zero-amount deposit path).
// None of these calls returns an error: an injected fault can only be a panic.
type faultAcct struct {
	authkeeper.AccountKeeper
	f *FaultPlan
}

func (a faultAcct) HasAccount(ctx context.Context, addr sdk.AccAddress) bool {
	if err := a.f.hit("HasAccount"); err != nil {
		panic(err)
	}
	return a.AccountKeeper.HasAccount(ctx, addr)
}
func (a faultAcct) NewAccountWithAddress(ctx context.Context, addr sdk.AccAddress) sdk.AccountI {
	if err := a.f.hit("NewAccountWithAddress"); err != nil {
		panic(err)
	}
	return a.AccountKeeper.NewAccountWithAddress(ctx, addr)
}
func (a faultAcct) SetAccount(ctx context.Context, acc sdk.AccountI) {
	if err := a.f.hit("SetAccount"); err != nil {
		panic(err)
	}
	a.AccountKeeper.SetAccount(ctx, acc)
}

type L2Env struct {
	Ctx     sdk.Context
	MS      storetypes.CommitMultiStore
	Enc     EncodingConfig
	AK      authkeeper.AccountKeeper
	BK      bankkeeper.Keeper
	OK      *oraclekeeper.Keeper
	K       *opchildkeeper.Keeper
	Msg     *opchildkeeper.MsgServer
	Q       opchildtypes.QueryServer // the real gRPC query server: observables that have a public query are read through it
	QueryDiffs []string            // query answers that differ from the keeper state (filled by L2Obs)
	Router  *baseapp.MsgServiceRouter
	Users   []*Account          // sorted by address bytes, ids 1..n
	Table   map[string]uint64   // address string (any accepted spelling used so far) -> id
	Modules map[string]uint64   // module name -> id
	ModAddr map[uint64]sdk.AccAddress
	Fault   *FaultPlan
	Auth    string
	Keys    map[string]*storetypes.KVStoreKey
	// validators
	ValOps  []sdk.ValAddress        // sorted, ids 1..
	ValKeys []cryptotypes.PubKey    // consensus keys sorted by cons address, ids 1..
}

const (
	ModOpchild = 100
	ModFeeCol  = 101
)

var l2Basics = module.NewBasicManager(auth.AppModuleBasic{}, bank.AppModuleBasic{}, opchild.AppModuleBasic{})

func detPriv(seed uint64, i int) cryptotypes.PrivKey {
	b := make([]byte, 16)
	binary.BigEndian.PutUint64(b, seed)
	binary.BigEndian.PutUint64(b[8:], uint64(i))
	return secp256k1.GenPrivKeyFromSecret(b)
}

func NewL2Env(seed uint64, nUsers int, withFaults bool) *L2Env {
	db := dbm.NewMemDB()
	keys := storetypes.NewKVStoreKeys(authtypes.StoreKey, banktypes.StoreKey, opchildtypes.StoreKey, oracletypes.StoreKey)
	ms := store.NewCommitMultiStore(db, log.NewNopLogger(), metrics.NewNoOpMetrics())
	for _, v := range keys {
		ms.MountStoreWithDB(v, storetypes.StoreTypeIAVL, db)
	}
	if err := ms.LoadLatestVersion(); err != nil {
		panic(err)
	}
	ctx := sdk.NewContext(ms, tmproto.Header{
		ChainID: "l2chain",
		Height:  10,
		Time:    time.Date(2024, time.January, 1, 0, 0, 0, 0, time.UTC),
	}, false, log.NewNopLogger())

	enc := makeEncodingConfig(l2Basics)
	appCodec := enc.Marshaler
	maccPerms := map[string][]string{
		authtypes.FeeCollectorName:     nil,
		distributiontypes.ModuleName:   nil,
		stakingtypes.BondedPoolName:    {authtypes.Burner, authtypes.Staking},
		stakingtypes.NotBondedPoolName: {authtypes.Burner, authtypes.Staking},
		opchildtypes.ModuleName:        {authtypes.Burner, authtypes.Minter},
		authtypes.Minter:               {authtypes.Minter, authtypes.Burner},
	}
	authority := authtypes.NewModuleAddress(opchildtypes.ModuleName).String()
	ak := authkeeper.NewAccountKeeper(appCodec, runtime.NewKVStoreService(keys[authtypes.StoreKey]),
		authtypes.ProtoBaseAccount, maccPerms,
		authcodec.NewBech32Codec(sdk.GetConfig().GetBech32AccountAddrPrefix()),
		sdk.GetConfig().GetBech32AccountAddrPrefix(), authority)
	if err := ak.Params.Set(ctx, authtypes.DefaultParams()); err != nil {
		panic(err)
	}
	blocked := make(map[string]bool)
	for acc := range maccPerms {
		blocked[authtypes.NewModuleAddress(acc).String()] = true
	}
	bk := bankkeeper.NewBaseKeeper(appCodec, runtime.NewKVStoreService(keys[banktypes.StoreKey]), ak, blocked, authority, ctx.Logger())
	if err := bk.SetParams(ctx, banktypes.DefaultParams()); err != nil {
		panic(err)
	}
	router := baseapp.NewMsgServiceRouter()
	router.SetInterfaceRegistry(enc.InterfaceRegistry)
	var faultPlan *FaultPlan
	if withFaults {
		// hook messages (bank MsgSend) reach the bank keeper through the fault wrapper too
		faultPlan = &FaultPlan{Disabled: true}
		banktypes.RegisterMsgServer(router, faultBankMsgServer{bankkeeper.NewMsgServerImpl(bk), faultPlan})
	} else {
		banktypes.RegisterMsgServer(router, bankkeeper.NewMsgServerImpl(bk))
	}
	ok := oraclekeeper.NewKeeper(runtime.NewKVStoreService(keys[oracletypes.StoreKey]), appCodec, nil, authtypes.NewModuleAddress(opchildtypes.ModuleName))

	env := &L2Env{MS: ms, Enc: enc, AK: ak, BK: bk, OK: &ok, Router: router, Auth: authority,
		Table: map[string]uint64{}, Modules: map[string]uint64{}, ModAddr: map[uint64]sdk.AccAddress{}, Keys: keys}
	var bankForKeeper opchildtypes.BankKeeper = bk
	var acctForKeeper opchildtypes.AccountKeeper = ak
	if withFaults {
		env.Fault = faultPlan
		bankForKeeper = faultBank{bk, env.Fault}
		acctForKeeper = faultAcct{ak, env.Fault}
	}
	k := opchildkeeper.NewKeeper(appCodec, runtime.NewKVStoreService(keys[opchildtypes.StoreKey]), acctForKeeper, bankForKeeper, &ok,
		sdk.ChainAnteDecorators(
			authante.NewSetPubKeyDecorator(ak),
			authante.NewValidateSigCountDecorator(ak),
			authante.NewSigGasConsumeDecorator(ak, authante.DefaultSigVerificationGasConsumer),
			authante.NewSigVerificationDecorator(ak, enc.TxConfig.SignModeHandler()),
			authante.NewIncrementSequenceDecorator(ak),
		),
		enc.TxConfig.TxDecoder(), router, authority,
		authcodec.NewBech32Codec(sdk.GetConfig().GetBech32AccountAddrPrefix()),
		authcodec.NewBech32Codec(sdk.GetConfig().GetBech32ValidatorAddrPrefix()),
		authcodec.NewBech32Codec(sdk.GetConfig().GetBech32ConsensusAddrPrefix()),
		ctx.Logger())
	env.K = k
	env.Msg = opchildkeeper.NewMsgServerImpl(k)
	env.Q = opchildkeeper.NewQuerier(k)
	if withFaults {
		// router = messages executed by hooks (the harness calls env.Msg directly)
		opchildtypes.RegisterMsgServer(router, faultOpchildMsgServer{env.Msg, env.Fault})
	} else {
		opchildtypes.RegisterMsgServer(router, env.Msg)
	}

	// users, sorted by address bytes
	for i := 0; i < nUsers; i++ {
		p := detPriv(seed, i)
		a := sdk.AccAddress(p.PubKey().Address())
		env.Users = append(env.Users, &Account{Priv: p, Addr: a, Str: a.String()})
	}
	sort.Slice(env.Users, func(i, j int) bool { return bytes.Compare(env.Users[i].Addr, env.Users[j].Addr) < 0 })
	for i, u := range env.Users {
		u.ID = uint64(i + 1)
		env.Table[u.Str] = u.ID
		acc := ak.NewAccountWithAddress(ctx, u.Addr)
		ak.SetAccount(ctx, acc)
	}
	mods := []string{opchildtypes.ModuleName, authtypes.FeeCollectorName, distributiontypes.ModuleName,
		stakingtypes.BondedPoolName, stakingtypes.NotBondedPoolName, authtypes.Minter}
	for i, m := range mods {
		id := uint64(ModOpchild + i)
		addr := authtypes.NewModuleAddress(m)
		env.Modules[m] = id
		env.ModAddr[id] = addr
		env.Table[addr.String()] = id
		ak.GetModuleAccount(ctx, m) // create
	}
	// validator operators / consensus keys
	for i := 0; i < 5; i++ {
		p := detPriv(seed^0xabcdef, 100+i)
		env.ValOps = append(env.ValOps, sdk.ValAddress(p.PubKey().Address()))
		sk := make([]byte, 32)
		binary.BigEndian.PutUint64(sk, seed)
		binary.BigEndian.PutUint64(sk[8:], uint64(200+i))
		env.ValKeys = append(env.ValKeys, ed25519.GenPrivKeyFromSecret(sk).PubKey())
	}
	sort.Slice(env.ValOps, func(i, j int) bool { return bytes.Compare(env.ValOps[i], env.ValOps[j]) < 0 })
	sort.Slice(env.ValKeys, func(i, j int) bool {
		return bytes.Compare(env.ValKeys[i].Address(), env.ValKeys[j].Address()) < 0
	})
	env.Ctx = ctx
	return env
}

func (e *L2Env) User(id uint64) *Account { return e.Users[id-1] }

// Upper returns the all-upper-case bech32 spelling of s (accepted by the codec, same bytes).
func upperBech32(s string) string { return strings.ToUpper(s) }

// Resolve classifies an address string with the REAL codec and returns its table id.
func (e *L2Env) Resolve(s string) (uint64, bool) {
	b, err := e.AK.AddressCodec().StringToBytes(s)
	if err != nil {
		return 0, false
	}
	canon := sdk.AccAddress(b).String()
	id, ok := e.Table[canon]
	if !ok {
		id = uint64(900 + len(e.Table))
		e.Table[canon] = id
	}
	e.Table[s] = id
	return id, true
}

func (e *L2Env) AddrOf(id uint64) sdk.AccAddress {
	if id >= ModOpchild && id < 900 {
		return e.ModAddr[id]
	}
	return e.User(id).Addr
}

// Fund mints coins directly to an account (test faucet), outside any trace.
func (e *L2Env) Fund(addr sdk.AccAddress, coins sdk.Coins) {
	ctx := e.Ctx.WithEventManager(sdk.NewEventManager())
	if err := e.BK.MintCoins(ctx, authtypes.Minter, coins); err != nil {
		panic(err)
	}
	if err := e.BK.SendCoinsFromModuleToAccount(ctx, authtypes.Minter, addr, coins); err != nil {
		panic(err)
	}
}

func (e *L2Env) FundModule(name string, coins sdk.Coins) {
	ctx := e.Ctx.WithEventManager(sdk.NewEventManager())
	if err := e.BK.MintCoins(ctx, authtypes.Minter, coins); err != nil {
		panic(err)
	}
	if err := e.BK.SendCoinsFromModuleToModule(ctx, authtypes.Minter, name, coins); err != nil {
		panic(err)
	}
}

// ExecResult is what the implementation showed for one message.
type ExecResult struct {
	OK     bool
	Resp   interface{}
	Err    string
	Events sdk.Events
}

// Exec runs fn on a cache of the current context, commits on success, discards on error or
// panic: exactly what baseapp.runTx/runMsgs does for one message.
func execAtomic(ctx sdk.Context, fn func(ctx sdk.Context) (interface{}, error)) (res ExecResult) {
	cacheCtx, write := ctx.CacheContext()
	cacheCtx = cacheCtx.WithEventManager(sdk.NewEventManager())
	defer func() {
		if r := recover(); r != nil {
			res = ExecResult{OK: false, Err: fmt.Sprintf("panic: %v", r)}
		}
	}()
	resp, err := fn(cacheCtx)
	if err != nil {
		return ExecResult{OK: false, Err: err.Error()}
	}
	write()
	return ExecResult{OK: true, Resp: resp, Events: cacheCtx.EventManager().Events()}
}

// SignTx builds a signed tx (SIGN_MODE_DIRECT) over msgs.
func (e *L2Env) SignTx(msgs []sdk.Msg, priv cryptotypes.PrivKey, accNum, accSeq uint64, chainID string) []byte {
	txConfig := e.Enc.TxConfig
	b := txConfig.NewTxBuilder()
	mode, err := authsign.APISignModeToInternal(txConfig.SignModeHandler().DefaultMode())
	if err != nil {
		panic(err)
	}
	if err := b.SetMsgs(msgs...); err != nil {
		panic(err)
	}
	b.SetGasLimit(1000000)
	sig := signing.SignatureV2{PubKey: priv.PubKey(), Data: &signing.SingleSignatureData{SignMode: mode}, Sequence: accSeq}
	if err := b.SetSignatures(sig); err != nil {
		panic(err)
	}
	sd := authsign.SignerData{Address: sdk.AccAddress(priv.PubKey().Address()).String(), ChainID: chainID,
		AccountNumber: accNum, Sequence: accSeq, PubKey: priv.PubKey()}
	sig, err = clienttx.SignWithPrivKey(context.TODO(), mode, sd, b, priv, txConfig, accSeq)
	if err != nil {
		panic(err)
	}
	if err := b.SetSignatures(sig); err != nil {
		panic(err)
	}
	bz, err := txConfig.TxEncoder()(b.GetTx())
	if err != nil {
		panic(err)
	}
	return bz
}
