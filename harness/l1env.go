package main

import (
	"bytes"
	"context"
	"sort"
	"time"

	tmproto "github.com/cometbft/cometbft/proto/tendermint/types"

	"cosmossdk.io/log"
	"cosmossdk.io/store"
	"cosmossdk.io/store/metrics"
	storetypes "cosmossdk.io/store/types"
	dbm "github.com/cosmos/cosmos-db"
	"github.com/cosmos/cosmos-sdk/runtime"
	sdk "github.com/cosmos/cosmos-sdk/types"
	"github.com/cosmos/cosmos-sdk/types/module"
	"github.com/cosmos/cosmos-sdk/x/auth"
	authcodec "github.com/cosmos/cosmos-sdk/x/auth/codec"
	authkeeper "github.com/cosmos/cosmos-sdk/x/auth/keeper"
	authtypes "github.com/cosmos/cosmos-sdk/x/auth/types"
	"github.com/cosmos/cosmos-sdk/x/bank"
	bankkeeper "github.com/cosmos/cosmos-sdk/x/bank/keeper"
	banktypes "github.com/cosmos/cosmos-sdk/x/bank/types"
	distributiontypes "github.com/cosmos/cosmos-sdk/x/distribution/types"
	govtypes "github.com/cosmos/cosmos-sdk/x/gov/types"

	ophost "github.com/initia-labs/OPinit/x/ophost"
	ophostkeeper "github.com/initia-labs/OPinit/x/ophost/keeper"
	ophosttypes "github.com/initia-labs/OPinit/x/ophost/types"
)

var l1Basics = module.NewBasicManager(auth.AppModuleBasic{}, bank.AppModuleBasic{}, ophost.AppModuleBasic{})

// community pool keeper backed by the bank: the fee really leaves the creator's account
type poolKeeper struct {
	bk   bankkeeper.Keeper
	fail bool
}

func (p *poolKeeper) FundCommunityPool(ctx context.Context, amount sdk.Coins, sender sdk.AccAddress) error {
	return p.bk.SendCoinsFromAccountToModule(ctx, sender, distributiontypes.ModuleName, amount)
}

const (
	ModGov      = 100
	ModDistr    = 101
	ModL1Minter = 102
	EscrowBase  = 1000 // escrow of bridge b has id EscrowBase + b
)

type L1Env struct {
	Ctx     sdk.Context
	MS      storetypes.CommitMultiStore
	Enc     EncodingConfig
	AK      authkeeper.AccountKeeper
	BK      bankkeeper.Keeper
	K       *ophostkeeper.Keeper
	Msg     ophostkeeper.MsgServer
	Q       ophostkeeper.Querier
	Users   []*Account
	Table   map[string]uint64
	ModAddr map[uint64]sdk.AccAddress
	Auth    string // gov authority
	Hook    ophosttypes.BridgeHook
	Keys    map[string]*storetypes.KVStoreKey
	EnvOp   func(ctx sdk.Context, o L1Op) error
	AdminOf func(ctx sdk.Context, port, ch string) (uint64, bool)
	// observation hygiene: every L1Obs call compares the gRPC queries with the keeper reads
	ObsCount    int
	QueryDiffs  []QueryDiff
	bridgesList map[uint64]ophosttypes.QueryBridgeResponse
}

// a query answer that differs from the corresponding keeper read, found by the ObsCount-th L1Obs call
type QueryDiff struct {
	Obs  int
	What string
}

// escrowAddr is the documented escrow address of a bridge (sha256 module-address derivation done
// in the harness, harness/gen_c17.go indepAddr) - not ophosttypes.BridgeAddress: the accounts the
// observations and monitors read must not depend on the code under test
func escrowAddr(b uint64) sdk.AccAddress { return sdk.AccAddress(indepAddr(b)) }

type noHook struct{}

func (noHook) BridgeCreated(context.Context, uint64, ophosttypes.BridgeConfig) error           { return nil }
func (noHook) BridgeChallengerUpdated(context.Context, uint64, ophosttypes.BridgeConfig) error { return nil }
func (noHook) BridgeProposerUpdated(context.Context, uint64, ophosttypes.BridgeConfig) error   { return nil }
func (noHook) BridgeBatchInfoUpdated(context.Context, uint64, ophosttypes.BridgeConfig) error  { return nil }
func (noHook) BridgeMetadataUpdated(context.Context, uint64, ophosttypes.BridgeConfig) error   { return nil }

func NewL1Env(seed uint64, nUsers int, hook ophosttypes.BridgeHook, extraKeys ...string) *L1Env {
	db := dbm.NewMemDB()
	names := append([]string{authtypes.StoreKey, banktypes.StoreKey, ophosttypes.StoreKey}, extraKeys...)
	keys := storetypes.NewKVStoreKeys(names...)
	ms := store.NewCommitMultiStore(db, log.NewNopLogger(), metrics.NewNoOpMetrics())
	for _, v := range keys {
		ms.MountStoreWithDB(v, storetypes.StoreTypeIAVL, db)
	}
	if err := ms.LoadLatestVersion(); err != nil {
		panic(err)
	}
	ctx := sdk.NewContext(ms, tmproto.Header{ChainID: "l1chain", Height: 100,
		Time: time.Date(2024, time.January, 1, 0, 0, 0, 0, time.UTC)}, false, log.NewNopLogger())
	enc := makeEncodingConfig(l1Basics)
	maccPerms := map[string][]string{
		distributiontypes.ModuleName: nil,
		govtypes.ModuleName:          {authtypes.Burner},
		authtypes.Minter:             {authtypes.Minter, authtypes.Burner},
	}
	authority := authtypes.NewModuleAddress(govtypes.ModuleName).String()
	ak := authkeeper.NewAccountKeeper(enc.Marshaler, runtime.NewKVStoreService(keys[authtypes.StoreKey]),
		authtypes.ProtoBaseAccount, maccPerms,
		authcodec.NewBech32Codec(sdk.GetConfig().GetBech32AccountAddrPrefix()),
		sdk.GetConfig().GetBech32AccountAddrPrefix(), authority)
	if err := ak.Params.Set(ctx, authtypes.DefaultParams()); err != nil {
		panic(err)
	}
	blocked := map[string]bool{}
	for acc := range maccPerms {
		blocked[authtypes.NewModuleAddress(acc).String()] = true
	}
	bk := bankkeeper.NewBaseKeeper(enc.Marshaler, runtime.NewKVStoreService(keys[banktypes.StoreKey]), ak, blocked, authority, ctx.Logger())
	if err := bk.SetParams(ctx, banktypes.DefaultParams()); err != nil {
		panic(err)
	}
	if hook == nil {
		hook = noHook{}
	}
	k := ophostkeeper.NewKeeper(enc.Marshaler, runtime.NewKVStoreService(keys[ophosttypes.StoreKey]), ak, bk,
		&poolKeeper{bk: bk}, hook, authority)
	if err := k.SetParams(ctx, ophosttypes.DefaultParams()); err != nil {
		panic(err)
	}
	e := &L1Env{Ctx: ctx, MS: ms, Enc: enc, AK: ak, BK: bk, K: k, Msg: ophostkeeper.NewMsgServerImpl(*k), Q: ophostkeeper.NewQuerier(*k),
		Table: map[string]uint64{}, ModAddr: map[uint64]sdk.AccAddress{}, Auth: authority, Hook: hook, Keys: keys}
	for i := 0; i < nUsers; i++ {
		p := detPriv(seed^0x5151, i)
		a := sdk.AccAddress(p.PubKey().Address())
		e.Users = append(e.Users, &Account{Priv: p, Addr: a, Str: a.String()})
	}
	sort.Slice(e.Users, func(i, j int) bool { return bytes.Compare(e.Users[i].Addr, e.Users[j].Addr) < 0 })
	for i, u := range e.Users {
		u.ID = uint64(i + 1)
		e.Table[u.Str] = u.ID
	}
	for i, m := range []string{govtypes.ModuleName, distributiontypes.ModuleName, authtypes.Minter} {
		id := uint64(ModGov + i)
		e.ModAddr[id] = authtypes.NewModuleAddress(m)
		e.Table[e.ModAddr[id].String()] = id
		ak.GetModuleAccount(ctx, m)
	}
	// escrow addresses of the first bridges are part of the table: they are valid recipients
	for b := uint64(1); b <= 8; b++ {
		e.Table[escrowAddr(b).String()] = EscrowBase + b
	}
	return e
}

func (e *L1Env) User(id uint64) *Account { return e.Users[id-1] }
func (e *L1Env) AddrOf(id uint64) sdk.AccAddress {
	if id > EscrowBase {
		return escrowAddr(id - EscrowBase)
	}
	if id >= ModGov {
		return e.ModAddr[id]
	}
	return e.User(id).Addr
}
func (e *L1Env) Resolve(s string) (uint64, bool) {
	b, err := e.AK.AddressCodec().StringToBytes(s)
	if err != nil {
		return 0, false
	}
	canon := sdk.AccAddress(b).String()
	id, ok := e.Table[canon]
	if !ok {
		id = uint64(900 + len(e.Table))
		e.Table[canon] = id
	}
	e.Table[s] = id
	return id, true
}
func (e *L1Env) Fund(addr sdk.AccAddress, coins sdk.Coins) {
	ctx := e.Ctx.WithEventManager(sdk.NewEventManager())
	if err := e.BK.MintCoins(ctx, authtypes.Minter, coins); err != nil {
		panic(err)
	}
	if err := e.BK.SendCoinsFromModuleToAccount(ctx, authtypes.Minter, addr, coins); err != nil {
		panic(err)
	}
}
