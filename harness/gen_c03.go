package main

import (
	"bytes"
	"encoding/hex"
	"errors"
	"fmt"
	"math/big"
	"strings"
	"time"

	"cosmossdk.io/math"
	sdk "github.com/cosmos/cosmos-sdk/types"
	sdkerrors "github.com/cosmos/cosmos-sdk/types/errors"

	ophosttypes "github.com/initia-labs/OPinit/x/ophost/types"
)

// C03: withdrawals cannot be forged (proof soundness and field binding).
//
// Each case is one L1 history on a fresh instance: two bridges, funded escrows, output 1 of
// bridge 1 commits to tree A (1..40 leaves, built by the independent tree builder), output 2
// to tree A2, bridge 2 stores a COPY of A's output root at index 1 and its own tree B at
// index 2, a late output 3 (tree C) is not final yet.  For every leaf of A: perturbed claims
// (see c03Perturb), the valid claim, the valid claim again, perturbed claims after the payout.
// All claims go through the real MsgFinalizeTokenWithdrawal; model cases are also replayed by
// the Coq model (Model/L1.v through TraceL1.v).
//
// Monitor (model-free, the property restated over the implementation's trace):
//   OK  => the claim is legitimate: the named (bridge, index) stores an output whose root is
//          the commitment to the message's (version, storage root, block hash), it is final,
//          the independently computed leaf of exactly the claimed fields is one of the leaves
//          committed there, the independently folded proof gives the storage root, and
//          (bridge, leaf) was not paid before; and the effect is exactly escrow -> recipient;
//   ERR => the full observation block is unchanged;
//   a valid claim is OK the first time (and ERR the second).

type c03Meta struct {
	label string // setup | valid | replay | perturbed | notfinal
	desc  string
}

type c03Stored struct {
	root    []byte // output root stored on chain
	leaves  map[string]bool
	time    int64
	period  int64
	deleted bool
}

type c03Run struct {
	sc     *L1Scenario
	meta   []c03Meta
	stored map[[2]uint64]*c03Stored
	track  bool // also track the claim flags of perturbed leaves (model cases)
}

func (x *c03Run) do(o L1Op, label, desc string) ExecResult {
	x.meta = append(x.meta, c03Meta{label, desc})
	return x.sc.Case.Do(o)
}
func (x *c03Run) must(o L1Op) {
	if r := x.do(o, "setup", o.Kind); !r.OK {
		panic("C03 setup op failed: " + o.Kind + ": " + r.Err)
	}
}
func (x *c03Run) propose(b, idx, l2 uint64, root []byte, leaves [][]byte, period int64) {
	sc := x.sc
	x.must(sc.op(L1Op{Kind: "propose", Sender: sc.Env.User(1).Str, Bridge: b, Idx: idx, L2: l2, Root: root}))
	st := &c03Stored{root: root, leaves: map[string]bool{}, time: sc.Now, period: period}
	for _, l := range leaves {
		st.leaves[hex.EncodeToString(l)] = true
	}
	x.stored[[2]uint64{b, idx}] = st
}

func cloneOp(o L1Op) L1Op {
	n := o
	n.Proofs = make([][]byte, len(o.Proofs))
	for i, p := range o.Proofs {
		n.Proofs[i] = append([]byte{}, p...)
	}
	n.Amt = new(big.Int).Set(o.Amt)
	n.Version = append([]byte{}, o.Version...)
	n.SRoot = append([]byte{}, o.SRoot...)
	n.BHash = append([]byte{}, o.BHash...)
	return n
}

type c03Pert struct {
	desc string
	op   L1Op
}

func flipBit(b []byte, r *Rng) []byte {
	c := append([]byte{}, b...)
	if len(c) > 0 {
		c[r.Intn(len(c))] ^= 1 << uint(r.Intn(8))
	}
	return c
}

// c03Perturb lists the perturbations of one valid claim.
func c03Perturb(sc *L1Scenario, v L1Op, pt, other, copyOn2 *ProposedTree, leafIdx int) []c03Pert {
	r, e := sc.R, sc.Env
	var out []c03Pert
	add := func(desc string, f func(o *L1Op)) {
		o := cloneOp(v)
		f(&o)
		out = append(out, c03Pert{desc, o})
	}
	// --- fields ---
	add("seq+1", func(o *L1Op) { o.Seq++ })
	add("seq-1", func(o *L1Op) { o.Seq-- })
	add("seq bit", func(o *L1Op) { o.Seq ^= 1 << uint(r.Intn(64)) })
	add("amount+1", func(o *L1Op) { o.Amt.Add(o.Amt, big.NewInt(1)) })
	add("amount-1", func(o *L1Op) { o.Amt.Sub(o.Amt, big.NewInt(1)) })
	add("amount bit", func(o *L1Op) { o.Amt.Xor(o.Amt, new(big.Int).Lsh(big.NewInt(1), uint(r.Intn(64)))) })
	add("amount+2^64", func(o *L1Op) { o.Amt.Add(o.Amt, new(big.Int).Lsh(big.NewInt(1), 64)) })
	add("sender changed", func(o *L1Op) { o.From = o.From + "x" })
	add("sender byte", func(o *L1Op) { o.From = string(flipBit([]byte(o.From), r)) })
	add("recipient changed", func(o *L1Op) {
		for k := uint64(1); k <= 7; k++ {
			if e.User(k).Str != o.To {
				o.To = e.User(k).Str
				return
			}
		}
	})
	add("recipient = claim submitter", func(o *L1Op) { o.To = o.Sender })
	add("sender<->recipient", func(o *L1Op) { o.From, o.To = o.To, o.From })
	add("denom changed", func(o *L1Op) {
		for _, d := range sc.Denoms {
			if d != o.Denom {
				o.Denom = d
				return
			}
		}
	})
	// --- same value, other spelling: the leaf is computed from EXACTLY the claimed text ---
	respell := func(t string) string {
		if u := strings.ToUpper(t); u != t {
			return u
		}
		return strings.ToLower(t)
	}
	add("recipient: same address, other letter case (valid bech32)", func(o *L1Op) { o.To = respell(o.To) })
	add("sender: same text, other letter case", func(o *L1Op) { o.From = respell(o.From) })
	add("sender and recipient: other letter case", func(o *L1Op) { o.From, o.To = respell(o.From), respell(o.To) })
	add("denom: other letter case", func(o *L1Op) { o.Denom = respell(o.Denom) })
	add("sender: a leading zero inserted after the hex prefix / in front", func(o *L1Op) {
		if strings.HasPrefix(o.From, "0x") {
			o.From = "0x0" + o.From[2:]
		} else {
			o.From = "0" + o.From
		}
	})
	add("sender: trailing space", func(o *L1Op) { o.From = o.From + " " })
	add("amount+2*2^64", func(o *L1Op) { o.Amt.Add(o.Amt, new(big.Int).Lsh(big.NewInt(1), 65)) })
	add("amount+3*2^64", func(o *L1Op) { o.Amt.Add(o.Amt, new(big.Int).Mul(big.NewInt(3), new(big.Int).Lsh(big.NewInt(1), 64))) })
	add("amount+2^63", func(o *L1Op) { o.Amt.Add(o.Amt, new(big.Int).Lsh(big.NewInt(1), 63)) })
	add("amount+2^32", func(o *L1Op) { o.Amt.Add(o.Amt, new(big.Int).Lsh(big.NewInt(1), 32)) })
	// --- values RELATED in state (token pairs were registered by real deposits in the setup) ---
	escrowStr := func(b uint64) string { return sdk.AccAddress(e.AddrOf(EscrowBase + b)).String() }
	add("denom = this bridge's L2 denom of the claimed L1 denom (registered pair)", func(o *L1Op) { o.Denom = indepDenom(o.Bridge, o.Denom) })
	add("denom = the other bridge's L2 denom of the claimed L1 denom", func(o *L1Op) { o.Denom = indepDenom(3-o.Bridge, o.Denom) })
	add("denom = this bridge's L2 denom of another registered L1 denom", func(o *L1Op) {
		for _, d := range sc.Denoms {
			if d != o.Denom {
				o.Denom = indepDenom(o.Bridge, d)
				return
			}
		}
	})
	add("denom = L1 denom of another registered pair", func(o *L1Op) {
		for k := len(sc.Denoms) - 1; k >= 0; k-- {
			if sc.Denoms[k] != o.Denom {
				o.Denom = sc.Denoms[k]
				return
			}
		}
	})
	add("denom = L2 denom of the L2 denom", func(o *L1Op) { o.Denom = indepDenom(o.Bridge, indepDenom(o.Bridge, o.Denom)) })
	add("sender = escrow address of the bridge", func(o *L1Op) { o.From = escrowStr(o.Bridge) })
	add("recipient = escrow address of the bridge", func(o *L1Op) { o.To = escrowStr(o.Bridge) })
	add("recipient = escrow address of the other bridge", func(o *L1Op) { o.To = escrowStr(3 - o.Bridge) })
	add("sender = recipient", func(o *L1Op) { o.From = o.To })
	add("recipient = proposer", func(o *L1Op) { o.To = e.User(1).Str })
	if n := len(pt.Tree.Ws); n > 1 {
		w := pt.Tree.Ws[(leafIdx+1)%n]
		add("sequence of another leaf of the tree", func(o *L1Op) { o.Seq = w.Seq })
		add("amount of another leaf of the tree", func(o *L1Op) { o.Amt = new(big.Int).Set(w.Amt) })
		add("sequence and amount of another leaf", func(o *L1Op) { o.Seq, o.Amt = w.Seq, new(big.Int).Set(w.Amt) })
		add("recipient and denom of another leaf", func(o *L1Op) { o.To, o.Denom = w.To, w.Denom })
	}
	add("sequence of a leaf of the other output", func(o *L1Op) { o.Seq = other.Tree.Ws[0].Seq })
	add("sequence = output index", func(o *L1Op) { o.Seq = o.Idx })
	add("output index = sequence", func(o *L1Op) { o.Idx = o.Seq })
	// --- bridge / output index / output root ---
	add("other bridge (stores a copy of this output root)", func(o *L1Op) { o.Bridge = copyOn2.Bridge; o.Idx = copyOn2.Idx })
	add("other bridge, its own output", func(o *L1Op) { o.Bridge = 2; o.Idx = 2 })
	add("bridge that does not exist", func(o *L1Op) { o.Bridge = 9 })
	add("other output index", func(o *L1Op) { o.Idx = other.Idx })
	add("output index that does not exist", func(o *L1Op) { o.Idx = 77 })
	add("other output's index and root", func(o *L1Op) {
		o.Idx, o.Version, o.SRoot, o.BHash = other.Idx, []byte{other.Version}, append([]byte{}, other.Tree.Root()...), append([]byte{}, other.BHash...)
	})
	add("other output's root, this index", func(o *L1Op) {
		o.Version, o.SRoot, o.BHash = []byte{other.Version}, append([]byte{}, other.Tree.Root()...), append([]byte{}, other.BHash...)
	})
	add("other output's index, root and a proof from that tree", func(o *L1Op) {
		o.Idx, o.Version, o.SRoot, o.BHash = other.Idx, []byte{other.Version}, append([]byte{}, other.Tree.Root()...), append([]byte{}, other.BHash...)
		o.Proofs = other.Tree.Proof(leafIdx % len(other.Tree.Ws))
	})
	add("version+1", func(o *L1Op) { o.Version[0]++ })
	add("version two bytes", func(o *L1Op) { o.Version = append(o.Version, 0) })
	add("version empty", func(o *L1Op) { o.Version = nil })
	add("storage root bit", func(o *L1Op) { o.SRoot = flipBit(o.SRoot, r) })
	add("storage root 31 bytes", func(o *L1Op) { o.SRoot = o.SRoot[:31] })
	add("storage root 33 bytes", func(o *L1Op) { o.SRoot = append(o.SRoot, 0) })
	add("block hash bit", func(o *L1Op) { o.BHash = flipBit(o.BHash, r) })
	add("block hash 33 bytes", func(o *L1Op) { o.BHash = append(o.BHash, 7) })
	add("block hash 31 bytes", func(o *L1Op) { o.BHash = o.BHash[:31] })
	// --- proof ---
	for j := range v.Proofs {
		j := j
		add(fmt.Sprintf("proof[%d] bit", j), func(o *L1Op) { o.Proofs[j] = flipBit(o.Proofs[j], r) })
		add(fmt.Sprintf("proof[%d] dropped", j), func(o *L1Op) { o.Proofs = append(o.Proofs[:j:j], o.Proofs[j+1:]...) })
		add(fmt.Sprintf("proof[%d] duplicated", j), func(o *L1Op) {
			o.Proofs = append(o.Proofs[:j+1:j+1], append([][]byte{append([]byte{}, o.Proofs[j]...)}, o.Proofs[j+1:]...)...)
		})
	}
	// zero-length entries (nil and empty, 1..3 of them) at every position, also as the only entries of an empty proof
	for j := 0; j <= len(v.Proofs); j++ {
		j := j
		add(fmt.Sprintf("proof: %d zero-length entries inserted at [%d]", 1+j%3, j), func(o *L1Op) {
			var ins [][]byte
			for k := 0; k < 1+j%3; k++ {
				if (j+k)%2 == 0 {
					ins = append(ins, nil)
				} else {
					ins = append(ins, []byte{})
				}
			}
			o.Proofs = append(o.Proofs[:j:j], append(ins, o.Proofs[j:]...)...)
		})
	}
	if len(v.Proofs) > 1 {
		j := r.Intn(len(v.Proofs) - 1)
		add(fmt.Sprintf("proof[%d] and [%d] merged into one 64-byte entry", j, j+1), func(o *L1Op) {
			m := append(append([]byte{}, o.Proofs[j]...), o.Proofs[j+1]...)
			o.Proofs = append(o.Proofs[:j:j], append([][]byte{m}, o.Proofs[j+2:]...)...)
		})
	}
	if len(v.Proofs) > 0 {
		j := r.Intn(len(v.Proofs))
		add(fmt.Sprintf("proof[%d] replaced by a zero-length entry", j), func(o *L1Op) { o.Proofs[j] = []byte{} })
		add(fmt.Sprintf("proof[%d] 31 bytes", j), func(o *L1Op) { o.Proofs[j] = o.Proofs[j][:31] })
		add(fmt.Sprintf("proof[%d] 33 bytes", j), func(o *L1Op) { o.Proofs[j] = append(o.Proofs[j], 0) })
		add("proof reversed", func(o *L1Op) {
			for a, b := 0, len(o.Proofs)-1; a < b; a, b = a+1, b-1 {
				o.Proofs[a], o.Proofs[b] = o.Proofs[b], o.Proofs[a]
			}
		})
		add("proof empty", func(o *L1Op) { o.Proofs = nil })
	}
	add("proof + random element", func(o *L1Op) { o.Proofs = append(o.Proofs, r.Bytes(32)) })
	add("proof + the storage root", func(o *L1Op) { o.Proofs = append(o.Proofs, append([]byte{}, o.SRoot...)) })
	add("proof + the leaf itself", func(o *L1Op) { o.Proofs = append(o.Proofs, pt.Tree.Ws[leafIdx].Leaf()) })
	if sib := leafIdx ^ 1; sib < len(pt.Tree.Ws) {
		add("proof of the sibling", func(o *L1Op) { o.Proofs = pt.Tree.Proof(sib) })
	}
	if far := (leafIdx + 2) % len(pt.Tree.Ws); far != leafIdx {
		add("proof of a leaf of the sibling subtree", func(o *L1Op) { o.Proofs = pt.Tree.Proof(far) })
		add("fields of another leaf, this proof", func(o *L1Op) {
			w := pt.Tree.Ws[far]
			o.Seq, o.From, o.To, o.Denom, o.Amt = w.Seq, w.From, w.To, w.Denom, new(big.Int).Set(w.Amt)
		})
	}
	// inner nodes offered as leaves: the claim names the parent level (first proof elements cut)
	for l := 1; l < len(v.Proofs); l++ {
		l := l
		add(fmt.Sprintf("proof cut to level %d (inner node in the leaf's place)", l), func(o *L1Op) { o.Proofs = o.Proofs[l:] })
	}
	// --- multi-field ---
	n := len(out)
	for k := 0; k < 3 && n > 1; k++ {
		a, b := out[r.Intn(n)], out[r.Intn(n)]
		o := cloneOp(a.op)
		// apply b's differing scalar fields on top of a
		if b.op.Seq != v.Seq {
			o.Seq = b.op.Seq
		}
		if b.op.Amt.Cmp(v.Amt) != 0 {
			o.Amt = new(big.Int).Set(b.op.Amt)
		}
		if b.op.From != v.From {
			o.From = b.op.From
		}
		if b.op.To != v.To {
			o.To = b.op.To
		}
		if b.op.Denom != v.Denom {
			o.Denom = b.op.Denom
		}
		if b.op.Bridge != v.Bridge {
			o.Bridge = b.op.Bridge
		}
		if b.op.Idx != v.Idx {
			o.Idx = b.op.Idx
		}
		out = append(out, c03Pert{"multi: " + a.desc + " & " + b.desc, o})
	}
	return out
}

func sameClaim(a, b L1Op) bool {
	if a.Bridge != b.Bridge || a.Idx != b.Idx || a.Seq != b.Seq || a.From != b.From || a.To != b.To || a.Denom != b.Denom || a.Amt.Cmp(b.Amt) != 0 ||
		!bytes.Equal(a.Version, b.Version) || !bytes.Equal(a.SRoot, b.SRoot) || !bytes.Equal(a.BHash, b.BHash) || len(a.Proofs) != len(b.Proofs) {
		return false
	}
	for i := range a.Proofs {
		if !bytes.Equal(a.Proofs[i], b.Proofs[i]) {
			return false
		}
	}
	return true
}

// leafOf: the independently computed leaf of the claim's fields (nil when the amount is not a uint64)
func leafOf(o L1Op) []byte {
	if o.Amt == nil || o.Amt.Sign() < 0 || !o.Amt.IsUint64() {
		return nil
	}
	return indepLeaf(o.Bridge, o.Seq, o.From, o.To, o.Denom, o.Amt.Uint64())
}

// c03Build generates the history of one case.  fullLeaves: which leaves of A get the whole
// perturbation list (nil = all); the others get two random perturbations.
type c03Trees struct {
	A, A2, copyOn2, B, C *ProposedTree
	period               int64
}

// c03Setup: two bridges, funded escrows, the five outputs described at the top of this file.
func c03Setup(x *c03Run, nA int, rep *Report) c03Trees {
	sc := x.sc
	e, r := sc.Env, sc.R
	period := []int64{7 * sec, sec, 2*sec + 500000000}[r.Intn(3)]
	x.must(sc.Create(e.User(1).Str, sc.NewConfig(1, 2, period)))
	x.must(sc.Create(e.User(1).Str, sc.NewConfig(1, 2, period)))
	for _, d := range sc.Denoms {
		x.must(sc.op(L1Op{Kind: "deposit", Sender: e.User(3).Str, Bridge: 1, To: "l2addr", Denom: d, Amt: big.NewInt(30000)}))
		x.must(sc.op(L1Op{Kind: "deposit", Sender: e.User(4).Str, Bridge: 2, To: "l2addr", Denom: d, Amt: big.NewInt(30000)}))
		// a plain transfer makes the escrow of bridge 1 a whale (more than 2^66): an amount of a + k*2^64 is not refused merely for lack of funds
		x.must(sc.op(L1Op{Kind: "send", FromID: 3, ToID: EscrowBase + 1, Denom: d, Amt: new(big.Int).Add(new(big.Int).Lsh(big.NewInt(1), 66), big.NewInt(7))}))
	}
	leavesOf := func(pt *ProposedTree) [][]byte { return pt.Tree.Levels[0] }
	A := sc.MakeTree(1, nA)
	A.Idx = 1
	// some leaves are committed with the UPPER-CASE spelling of the recipient / sender text: claimed
	// verbatim they must be paid, in lower case they must be refused
	for i := range A.Tree.Ws {
		switch i % 4 {
		case 1:
			A.Tree.Ws[i].To = strings.ToUpper(A.Tree.Ws[i].To)
		case 2:
			A.Tree.Ws[i].From = strings.ToUpper(A.Tree.Ws[i].From)
		}
	}
	A.Tree = BuildTree(A.Tree.Ws)
	A.Root = outputRootOf(A.Version, A.Tree.Root(), A.BHash)
	x.propose(1, 1, 10, A.Root, leavesOf(A), period)
	sc.Advance(sec)
	A2 := sc.MakeTree(1, 1+r.Intn(6))
	A2.Idx = 2
	x.propose(1, 2, 20, A2.Root, leavesOf(A2), period)
	// bridge 2, index 1: a copy of A's commitment (same storage root, version, block hash)
	copyOn2 := &ProposedTree{Bridge: 2, Idx: 1, Tree: A.Tree, Version: A.Version, BHash: A.BHash, Root: A.Root}
	x.propose(2, 1, 10, A.Root, leavesOf(A), period)
	B := sc.MakeTree(2, 1+r.Intn(4))
	B.Idx = 2
	x.propose(2, 2, 20, B.Root, leavesOf(B), period)
	sc.Advance(period + sec)
	C := sc.MakeTree(1, 1+r.Intn(3))
	C.Idx = 3
	x.propose(1, 3, 30, C.Root, leavesOf(C), period)
	rep.Hist(fmt.Sprintf("tree-size:%02d", nA))
	return c03Trees{A, A2, copyOn2, B, C, period}
}

func c03Build(x *c03Run, nA int, fullLeaves map[int]bool, rep *Report) {
	sc := x.sc
	e, r := sc.Env, sc.R
	ts := c03Setup(x, nA, rep)
	A, A2, copyOn2, B, C, period := ts.A, ts.A2, ts.copyOn2, ts.B, ts.C, ts.period

	claim := func(pt *ProposedTree, i int) L1Op {
		return sc.Claim(pt, i, e.User(uint64(5+r.Intn(3))).Str)
	}
	doPert := func(p c03Pert, valid L1Op) {
		if sameClaim(p.op, valid) {
			return // the perturbation did not change anything (e.g. sender = recipient swapped)
		}
		sc.reg(p.op.Sender, p.op.To)
		if x.track {
			if l := leafOf(p.op); l != nil {
				sc.track(p.op.Bridge, l)
			}
		}
		x.do(sc.op(p.op), "perturbed", p.desc)
	}
	order := make([]int, nA)
	for i := range order {
		order[i] = i
	}
	for i := nA - 1; i > 0; i-- { // claims arrive in any order
		j := r.Intn(i + 1)
		order[i], order[j] = order[j], order[i]
	}
	for _, i := range order {
		v := claim(A, i)
		ps := c03Perturb(sc, v, A, A2, copyOn2, i)
		if fullLeaves != nil && !fullLeaves[i] {
			var few []c03Pert
			for k := 0; k < 2; k++ {
				few = append(few, ps[r.Intn(len(ps))])
			}
			ps = few
		}
		// a third of the perturbations are tried after the payout
		var after []c03Pert
		for _, p := range ps {
			if r.Intn(3) == 0 {
				after = append(after, p)
			} else {
				doPert(p, v)
			}
		}
		x.do(sc.op(v), "valid", fmt.Sprintf("leaf %d of %d", i, nA))
		x.do(sc.op(cloneOp(v)), "replay", "the same claim again")
		for _, p := range after {
			doPert(p, v)
		}
		// direct calls: soundness of the proof function on its own
		c03Direct(rep, x.sc.Case.ID, A, i, r)
	}
	// the other output of the same bridge and the other bridge's own tree are claimable too
	// output 2 is the NEWEST finalized output of bridge 1 while output 3 is pending: a claim valid
	// against it, resubmitted under any other output index, must fail
	v2 := claim(A2, r.Intn(len(A2.Tree.Ws)))
	idxPerts := func() {
		for _, ip := range []struct {
			desc string
			idx  uint64
		}{{"output index N+1 (pending, other root)", 3}, {"output index N+2 (never proposed)", 4}, {"output index 7 (never proposed)", 7},
			{"output index 0", 0}, {"output index 2^64-1", ^uint64(0)}, {"lower finalized output index (other root)", 1}} {
			o := cloneOp(v2)
			o.Idx = ip.idx
			doPert(c03Pert{"newest finalized output's claim under " + ip.desc, o}, v2)
		}
	}
	idxPerts()
	x.do(sc.op(v2), "valid", "leaf of output 2")
	idxPerts()
	x.do(sc.op(claim(B, r.Intn(len(B.Tree.Ws)))), "valid", "leaf of bridge 2 output 2")
	// an output that is not final yet
	vc := claim(C, 0)
	x.do(sc.op(vc), "notfinal", "valid proof, output not final")
	sc.Advance(period - sec + 1)
	if (sc.Now / sec) < (x.stored[[2]uint64{1, 3}].time+period)/sec {
		x.do(sc.op(cloneOp(vc)), "notfinal", "valid proof, output not final (one step before)")
	}
	sc.Advance(sec)
	x.do(sc.op(cloneOp(vc)), "valid", "the same claim once the output is final")
}

// c03Direct calls GenerateRootHashFromProofs directly: honest proofs climb to the root, every
// inner node on the path also climbs to the root with the rest of the proof (this is why the
// message never lets the caller choose the leaf hash), perturbed proofs do not.
func c03Direct(rep *Report, caseID int, pt *ProposedTree, i int, r *Rng) {
	t := pt.Tree
	root := t.Root()
	proof := t.Proof(i)
	var leaf [32]byte
	copy(leaf[:], t.Levels[0][i])
	got := ophosttypes.GenerateRootHashFromProofs(leaf, proof)
	rep.Hist("direct:honest-proof")
	if !bytes.Equal(got[:], root) {
		rep.Violate(Violation{Case: caseID, Step: i, What: "GenerateRootHashFromProofs on an honest proof does not give the root of the independently built tree", Sig: "C03:tree-rule",
			Ops: []string{fmt.Sprintf("GenerateRootHashFromProofs(%x, %v) tree of %d leaves, position %d", leaf, hexList(proof), len(t.Ws), i)}})
	}
	pos := i
	for l := 1; l < len(t.Levels); l++ {
		pos /= 2
		var inner [32]byte
		copy(inner[:], t.Levels[l][pos])
		g := ophosttypes.GenerateRootHashFromProofs(inner, proof[l:])
		rep.Hist("direct:inner-node-as-leaf-climbs")
		if !bytes.Equal(g[:], root) {
			rep.Violate(Violation{Case: caseID, Step: i, What: "inner node with the rest of the proof does not give the root", Sig: "C03:tree-rule",
				Ops: []string{fmt.Sprintf("GenerateRootHashFromProofs(%x, %v)", inner, hexList(proof[l:]))}})
		}
	}
	bad := func(desc string, p [][]byte) {
		g := ophosttypes.GenerateRootHashFromProofs(leaf, p)
		rep.Hist("direct:perturbed-proof")
		if bytes.Equal(g[:], root) {
			rep.Violate(Violation{Case: caseID, Step: i, What: "a perturbed proof (" + desc + ") still gives the committed root", Sig: "C03:proof-accepted-directly",
				Ops: []string{fmt.Sprintf("GenerateRootHashFromProofs(%x, %v)", leaf, hexList(p))}})
		}
	}
	for j := range proof {
		p := t.Proof(i)
		p[j] = flipBit(p[j], r)
		bad("bit flip", p)
		p = t.Proof(i)
		bad("dropped", append(p[:j:j], p[j+1:]...))
	}
	bad("appended", append(t.Proof(i), r.Bytes(32)))
}

// ---- the monitor ----
// the bridge blocks without the "last finalized output" query result, which moves with the
// block time alone (C05's subject), so that observations at different block times compare
func c03Bridges(o Ov) Ov {
	var out []Ov
	for _, b := range o.(OL).V {
		bv := append([]Ov{}, b.(OL).V...)
		bv[4] = ol()
		out = append(out, OL{bv})
	}
	return OL{out}
}
func c03StatePart(o Ov) string {
	v := o.(OL).V
	return (OL{[]Ov{v[1], v[2], c03Bridges(v[3]), v[4], v[6], v[7]}}).Coq()
}

func c03Monitor(rep *Report, c *L1Case, x *c03Run) {
	paid := map[string]bool{}
	var prev Ov
	hist := func(upto int) []string { return l1OpsHuman(c.Ops[:upto+1]) }
	for i, o := range c.Ops {
		m := x.meta[i]
		ok := c.Results[i].OK
		if o.Kind != "finalize" {
			prev = c.Obs[i]
			continue
		}
		verdict := "ERR"
		if ok {
			verdict = "OK"
		}
		rep.Hist("claim:" + m.label + ":" + verdict)
		if m.label == "perturbed" {
			d := m.desc
			if k := strings.Index(d, "["); k >= 0 && strings.HasPrefix(d, "proof[") {
				d = "proof[j]" + d[strings.Index(d, "]")+1:]
			}
			if strings.HasPrefix(d, "multi:") {
				d = "multi-field"
			}
			if strings.HasPrefix(d, "proof: ") && strings.Contains(d, "zero-length entries inserted") {
				d = "proof: 1..3 zero-length entries inserted at [j]"
			}
			if strings.Contains(d, "merged into one 64-byte entry") {
				d = "proof[j] and [j+1] merged into one 64-byte entry"
			}
			if strings.HasPrefix(d, "proof cut") {
				d = "proof cut (inner node as leaf)"
			}
			rep.Hist("perturbation:" + d)
		}
		// is the claim legitimate, judged independently of the chain's code?
		legit, why := false, ""
		leaf := leafOf(o)
		st := x.stored[[2]uint64{o.Bridge, o.Idx}]
		switch {
		case st == nil || st.deleted:
			why = "no output stored at (bridge, index)"
		case len(o.Version) != 1 || len(o.SRoot) != 32 || len(o.BHash) != 32:
			why = "bad lengths"
		case !bytes.Equal(outputRootOf(o.Version[0], o.SRoot, o.BHash), st.root):
			why = "the stored output root is not the commitment to the message's (version, storage root, block hash)"
		case o.Now/sec < (st.time+st.period)/sec:
			why = "output not final"
		case leaf == nil || o.Amt.Sign() == 0:
			why = "amount out of range"
		case !st.leaves[hex.EncodeToString(leaf)]:
			why = "the leaf of the claimed fields is not committed in that output"
		default:
			all32 := true
			for _, p := range o.Proofs {
				if len(p) != 32 {
					all32 = false
				}
			}
			if !all32 {
				why = "proof element of wrong length"
			} else if !bytes.Equal(indepRoot(leaf, o.Proofs), o.SRoot) {
				why = "proof does not lead to the storage root"
			} else {
				legit = true
			}
		}
		key := ""
		if leaf != nil {
			key = fmt.Sprintf("%d:%x", o.Bridge, leaf)
		}
		if ok {
			if !legit {
				rep.Violate(Violation{Case: c.ID, Step: i, What: "a claim that is not a committed withdrawal was paid (" + m.label + ": " + m.desc + "): " + why, Sig: "C03:forged-claim-accepted", Ops: hist(i)})
			} else if paid[key] {
				rep.Violate(Violation{Case: c.ID, Step: i, What: "a withdrawal was paid twice (" + m.label + ": " + m.desc + ")", Sig: "C03:paid-twice", Ops: hist(i)})
			}
			// exact effect
			if msg := c03Effect(c, prev, c.Obs[i], o); msg != "" {
				rep.Violate(Violation{Case: c.ID, Step: i, What: "wrong effect of a successful claim: " + msg, Sig: "C03:wrong-effect", Ops: hist(i)})
			}
			paid[key] = true
		} else {
			if prev != nil && c03StatePart(prev) != c03StatePart(c.Obs[i]) {
				rep.Violate(Violation{Case: c.ID, Step: i, What: "a rejected claim changed the state (" + m.label + ": " + m.desc + ")", Sig: "C03:reject-changed-state", Ops: hist(i)})
			}
			if m.label == "valid" && legit && !paid[key] {
				rep.Violate(Violation{Case: c.ID, Step: i, What: "a valid, unclaimed, final withdrawal was rejected (" + m.desc + "): " + c.Results[i].Err, Sig: "C03:valid-claim-rejected", Ops: hist(i)})
			}
		}
		if m.label == "valid" && !legit {
			panic("C03 generator: a claim labelled valid is not legitimate: " + why)
		}
		prev = c.Obs[i]
	}
}

// c03Effect: between prev and cur exactly escrow(bridge) -amt and recipient +amt of the denom,
// the claim flag(s) of this leaf set, nothing else.
func c03Effect(c *L1Case, prev, cur Ov, o L1Op) string {
	if prev == nil {
		return ""
	}
	pv, cv := prev.(OL).V, cur.(OL).V
	for _, k := range []int{1, 6, 7} {
		if pv[k].Coq() != cv[k].Coq() {
			return fmt.Sprintf("observation component %d changed", k)
		}
	}
	if c03Bridges(pv[3]).Coq() != c03Bridges(cv[3]).Coq() {
		return "bridge configuration / output log / counters changed"
	}
	e := c.Env
	rcv, _ := e.Resolve(o.To)
	esc := EscrowBase + o.Bridge
	pb, cb := pv[2].(OL).V, cv[2].(OL).V
	nd := len(c.Track.Denoms)
	for ai, a := range c.Track.Accts {
		for di, d := range c.Track.Denoms {
			want := new(big.Int).Set(pb[ai*nd+di].(OZ).V)
			if d == o.Denom {
				if a == esc {
					want.Sub(want, o.Amt)
				}
				if a == rcv {
					want.Add(want, o.Amt)
				}
			}
			if want.Cmp(cb[ai*nd+di].(OZ).V) != 0 {
				return fmt.Sprintf("balance of account %d in %s is %s, expected %s", a, d, cb[ai*nd+di].(OZ).V, want)
			}
		}
	}
	leaf := leafOf(o)
	pc, cc := pv[4].(OL).V, cv[4].(OL).V
	seen := false
	for k, cl := range c.Track.Claims {
		mine := cl[0] == fmt.Sprint(o.Bridge) && cl[1] == hex.EncodeToString(leaf)
		if mine {
			seen = true
			if pc[k].Coq() != obool(false).Coq() || cc[k].Coq() != obool(true).Coq() {
				return "the claim flag of the paid leaf did not go from false to true"
			}
		} else if pc[k].Coq() != cc[k].Coq() {
			return "the claim flag of another leaf changed"
		}
	}
	if !seen {
		return "the paid leaf is not among the tracked claims"
	}
	return ""
}

// c03RunTwice is RunL1Twice with a preparation step applied to both fresh instances: user 3
// holds more than 2^64 of every denom, so that the escrow of bridge 1 can be made to hold more
// than 2^64 (by plain bank transfers) and a claim of amount + 2^64 is not rejected merely for
// lack of funds.
func c03RunTwice(seed uint64, id int, build L1Builder, rep *Report) *L1Case {
	mk := func() *L1Scenario { return c03NewScenario(seed, id) }
	sc := mk()
	build(sc)
	sc2 := mk()
	sc2.Case.Track = sc.Case.Track
	sc2.Env.Table = sc.Env.Table
	sc2.Case.Parse = sc.Case.Parse
	for i, o := range sc.Case.Ops {
		r := sc2.Case.DoObs(o)
		if r.OK != sc.Case.Results[i].OK {
			rep.Violate(Violation{Case: id, Step: i, What: "the same history gave different verdicts on two fresh instances", Sig: "nondeterministic-verdict", Ops: l1OpsHuman(sc.Case.Ops[:i+1])})
		}
	}
	return sc2.Case
}

func c03NewScenario(seed uint64, id int) *L1Scenario {
	sc := NewL1Scenario(seed, id, nil)
	var cs sdk.Coins
	for _, d := range sc.Denoms {
		cs = append(cs, sdk.NewCoin(d, math.NewIntFromBigInt(c03Huge())))
	}
	sc.Env.Fund(sc.Env.User(3).Addr, cs.Sort())
	sc.Case.Bals = nil
	sc.Case.Snapshot()
	return sc
}

// ---- handler level: a rejected claim must leave no effect even WITHOUT the transaction rollback ----
// The chain-level monitor above sees every message through execAtomic (CacheContext + recover =
// baseapp), so writes made by a handler before it returns an error are invisible to it.  The
// property says a perturbed claim "fails with no effect"; here the real handler is called
// directly on a branch of the state that is KEPT when it returns an error: the full
// observation block, including Claimed(bridge, leaf) of the honest and of the perturbed claim,
// must be unchanged, and the honest claim submitted next on that same branch must be paid.
// Rejections caused by the payout itself (bank: insufficient funds) are excluded: the current
// code records the claim before paying and legitimately relies on the rollback there; the
// escrows are funded so that this does not occur for honest amounts.
func finalizeMsg(o L1Op) *ophosttypes.MsgFinalizeTokenWithdrawal {
	return &ophosttypes.MsgFinalizeTokenWithdrawal{Sender: o.Sender, BridgeId: o.Bridge, OutputIndex: o.Idx,
		WithdrawalProofs: o.Proofs, From: o.From, To: o.To, Sequence: o.Seq, Amount: coinOf(o.Denom, o.Amt), Version: o.Version, StorageRoot: o.SRoot, LastBlockHash: o.BHash}
}

// callHandler calls the message server directly (no rollback); a panic counts as a rejection.
func callHandler(e *L1Env, ctx sdk.Context, o L1Op) (err error) {
	defer func() {
		if r := recover(); r != nil {
			err = fmt.Errorf("panic: %v", r)
		}
	}()
	_, err = e.Msg.FinalizeTokenWithdrawal(ctx, finalizeMsg(o))
	return err
}

func c03HandlerLevel(rep *Report, seed uint64, sizes []int) {
	nth := 0 // running number of the perturbation: distinct replay files
	for k, nA := range sizes {
		sc := c03NewScenario(seed*7000+uint64(k), 9000+k)
		x := &c03Run{sc: sc, stored: map[[2]uint64]*c03Stored{}}
		ts := c03Setup(x, nA, NewReport("scratch", 0, ""))
		sc.Advance(ts.period + sec) // every output final
		e := sc.Env
		base := e.Ctx.WithBlockTime(time.Unix(0, sc.Now).UTC()).WithBlockHeight(int64(sc.Height))
		for i := range ts.A.Tree.Ws {
			v := sc.Claim(ts.A, i, e.User(uint64(5+sc.R.Intn(3))).Str)
			v = sc.op(v)
			honestLeaf := leafOf(v)
			for _, p := range c03Perturb(sc, v, ts.A, ts.A2, ts.copyOn2, i) {
				if sameClaim(p.op, v) {
					continue
				}
				o := sc.op(p.op)
				nth++
				sc.reg(o.Sender, o.To)
				tr := &L1Track{Accts: sc.Case.Track.Accts, Denoms: sc.Case.Track.Denoms, Bridges: sc.Case.Track.Bridges,
					Claims: [][2]string{{fmt.Sprint(v.Bridge), hex.EncodeToString(honestLeaf)}}}
				if l := leafOf(o); l != nil {
					tr.Claims = append(tr.Claims, [2]string{fmt.Sprint(o.Bridge), hex.EncodeToString(l)})
					if o.Bridge != v.Bridge {
						tr.Claims = append(tr.Claims, [2]string{fmt.Sprint(v.Bridge), hex.EncodeToString(l)})
					}
				}
				br, _ := base.CacheContext() // never written back: every perturbation starts from the same state
				e.Ctx = br
				before := c03StatePart(e.L1Obs(tr, ExecResult{}))
				err := callHandler(e, br, o)
				human := func() []string {
					e.Ctx = base
					return append(l1OpsHuman(sc.Case.Ops), "-- handler called directly, state kept on error: "+p.desc, l1OpsHuman([]L1Op{o})[0])
				}
				switch {
				case err == nil:
					rep.Hist("handler:perturbed-accepted") // judged by the chain-level monitor
				case errors.Is(err, sdkerrors.ErrInsufficientFunds):
					rep.Hist("handler:bank-failure-excluded")
				default:
					rep.Hist("handler:rejected")
					after := c03StatePart(e.L1Obs(tr, ExecResult{}))
					if before != after {
						rep.Violate(Violation{Case: 9000 + k, Step: nth, What: "the handler rejected a perturbed claim (" + p.desc + ": " + err.Error() + ") but left an effect in the state it was given", Sig: "C03:rejected-claim-left-effect", Ops: human()})
					} else if herr := callHandler(e, br, v); herr != nil {
						rep.Violate(Violation{Case: 9000 + k, Step: nth, What: "after the handler rejected a perturbed claim (" + p.desc + ") the honest claim is refused on the same state: " + herr.Error(), Sig: "C03:rejected-claim-left-effect", Ops: append(human(), l1OpsHuman([]L1Op{v})[0])})
					} else {
						rep.Hist("handler:honest-claim-after-rejection:OK")
					}
				}
				e.Ctx = base
				rep.Ops++
			}
		}
	}
}

// 2^67 + 10^6
func c03Huge() *big.Int {
	return new(big.Int).Add(new(big.Int).Lsh(big.NewInt(1), 67), big.NewInt(1000000))
}

func init() { register("C03", genC03) }

func genC03(seed uint64, tier string, outdir string) *Report {
	rep := NewReport("C03", seed, tier)
	rep.Rule = "a case is one L1 history (two bridges, five outputs, every leaf of tree A claimed among perturbed claims); distinct by hash of the op list; " +
		"non-trivial = at least one valid claim was paid and at least one perturbed claim was rejected"
	nModel, nMon := 16, 6
	if tier == "thorough" {
		nModel, nMon = 160, 200
	}
	modelSizes := []int{1, 2, 3, 4, 5, 6, 7, 8, 2, 3, 5, 4}
	var texts []string
	run := func(k int, nA int, full func(r *Rng) map[int]bool, model bool) {
		id := k + 1
		var last *c03Run
		c := c03RunTwice(seed*100000+uint64(k), id, func(sc *L1Scenario) {
			x := &c03Run{sc: sc, stored: map[[2]uint64]*c03Stored{}, track: model}
			c03Build(x, nA, full(sc.R), rep) // the builder is called once (pass 1)
			last = x
		}, rep)
		c03Monitor(rep, c, last)
		paidOK, rejected := false, false
		for i, o := range c.Ops {
			if o.Kind == "finalize" {
				if c.Results[i].OK {
					paidOK = true
				} else if last.meta[i].label == "perturbed" {
					rejected = true
				}
			}
		}
		rep.Ops += len(c.Ops)
		rep.CountCase(strings.Join(l1OpsHuman(c.Ops), "\n"), paidOK && rejected)
		if k == 0 {
			var s []string
			for i, o := range c.Ops {
				if o.Kind == "finalize" && len(s) < 6 {
					v := "ERR"
					if c.Results[i].OK {
						v = "OK"
					}
					s = append(s, fmt.Sprintf("%s (%s) -> %s", last.meta[i].label, last.meta[i].desc, v))
				}
			}
			rep.Sample(map[string]interface{}{"kind": "first claims of case 1", "claims": s, "first_claim_op": l1OpsHuman(c.Ops[len(c.Ops)-1:])})
		}
		if model {
			texts = append(texts, c.Coq())
		}
	}
	// model cases: small trees, the whole perturbation list on one or two leaves
	for k := 0; k < nModel; k++ {
		nA := modelSizes[(k+int(seed))%len(modelSizes)]
		run(k, nA, func(r *Rng) map[int]bool {
			return map[int]bool{r.Intn(nA): true}
		}, true)
	}
	// monitor-only cases: trees of 1..40 leaves, every leaf, every perturbation
	for k := 0; k < nMon; k++ {
		nA := 1 + (k*7+int(seed)*3)%40
		if k < 3 {
			nA = []int{40, 33, 1}[k]
		}
		run(nModel+k, nA, func(r *Rng) map[int]bool { return nil }, false)
	}
	// handler level (no rollback): every perturbation of every leaf
	hs := []int{1, 2, 3, 5, 8}
	if tier == "thorough" {
		hs = []int{1, 2, 3, 4, 5, 6, 7, 8, 9, 13, 16, 21, 27, 33, 40}
	}
	c03HandlerLevel(rep, seed, hs)
	rep.Notes = append(rep.Notes, fmt.Sprintf("handler level: trees of %v leaves, every perturbation of every leaf called directly on a kept branch", hs))
	rep.Notes = append(rep.Notes, fmt.Sprintf("%d model cases (replayed by the Coq model), %d monitor-only cases with every perturbation on every leaf of trees up to 40 leaves", nModel, nMon))
	writeShards(outdir, "C03", l1CaseHeader, "run_l1case", "l1case", texts, 16, rep)
	return rep
}
