package main

import (
	"bytes"
	"fmt"
	"math/big"
	"sort"
	"strings"

	abci "github.com/cometbft/cometbft/abci/types"
	cmttypes "github.com/cometbft/cometbft/types"
	cryptotypes "github.com/cosmos/cosmos-sdk/crypto/types"
	sdk "github.com/cosmos/cosmos-sdk/types"
	authcodec "github.com/cosmos/cosmos-sdk/x/auth/codec"
	cosmostypes "github.com/cosmos/cosmos-sdk/x/staking/types"

	opchild "github.com/initia-labs/OPinit/x/opchild"
	opchildtypes "github.com/initia-labs/OPinit/x/opchild/types"
)

// Validator-set traces (streams C13, C14): the real msg server, BeginBlocker / EndBlocker,
// InitGenesis, RegisterExecutorChangePlan and the REAL CometBFT ValidatorSet, driven case by
// case on cache branches of one environment.  Mirrors coq/Model/TraceVal.v.

type VRec struct {
	Op, Key uint64
	Pow     int64
}
type KP struct {
	Key uint64
	Pow int64
}
type OpPow struct {
	Op  uint64
	Pow int64
}
type ValGenesis struct {
	Vals     []VRec
	MaxV     uint64
	Entries  uint64
	Exported bool
	Last     []OpPow
}

type TVOp struct {
	Kind          string // add | rm | params | begin | end | register | engine | dryblock
	Op, Key       uint64 // add / rm; register: 0 = undecodable
	MaxV, Entries uint64
	H             int64
	Pid, PH       uint64
	Execs         []string
	Batch         []KP
	// register: literal operator string / consensus-key JSON (when non-empty they replace the
	// strings derived from Op / Key; Op and Key are then what the address codec / the interface
	// registry - called directly, not through the keeper - make of them: 0 = undecodable)
	OpStr, KeyStr string
	Moniker       string // register: the plan validator's moniker ("" = "m"); not an observable, not in the model
	Sender        string // probe: the account that tries to act as bridge executor
	ProbeWant     bool   // set by Do: Sender's address BYTES are among the decoded BridgeExecutors (codec called directly)
	BadExec       bool   // set by Do: some executor string does not decode (address codec, called directly)
}

func (o TVOp) Coq() string {
	switch o.Kind {
	case "add":
		return fmt.Sprintf("TOp (VAdd %s %s)", coqU(o.Op), coqU(o.Key))
	case "rm":
		return fmt.Sprintf("TOp (VRemove %s)", coqU(o.Op))
	case "params":
		return fmt.Sprintf("TOp (VSetParams %s %s)", coqU(o.MaxV), coqU(o.Entries))
	case "begin":
		return fmt.Sprintf("TBegin %s", coqI(o.H))
	case "end":
		return fmt.Sprintf("TEnd %s", coqI(o.H))
	case "register":
		ex := []string{}
		for _, e := range o.Execs {
			ex = append(ex, coqStr(e))
		}
		return fmt.Sprintf("TRegister {| rq_pid := %s; rq_height := %s; rq_op := %s; rq_key := %s; rq_execs := %s |}",
			coqU(o.Pid), coqU(o.PH), coqOptU(o.Op), coqOptU(o.Key), coqList(ex))
	case "engine":
		return "TEngine " + coqKPs(o.Batch)
	case "dryblock":
		return fmt.Sprintf("TDryBlock %s", coqI(o.H))
	case "probe":
		return "TProbeExec " + coqStr(o.Sender)
	}
	panic("unknown tvop " + o.Kind)
}

// short human-readable form for reports
func (o TVOp) String() string {
	switch o.Kind {
	case "add":
		return fmt.Sprintf("add(op%d,key%d)", o.Op, o.Key)
	case "rm":
		return fmt.Sprintf("remove(op%d)", o.Op)
	case "params":
		return fmt.Sprintf("params(max=%d,entries=%d)", o.MaxV, o.Entries)
	case "begin":
		return fmt.Sprintf("begin(%d)", o.H)
	case "end":
		return fmt.Sprintf("end(%d)", o.H)
	case "register":
		x := fmt.Sprintf("register(pid=%d,h=%d,op%d,key%d,execs=%q", o.Pid, o.PH, o.Op, o.Key, o.Execs)
		if o.OpStr != "" {
			x += fmt.Sprintf(",operator=%q", o.OpStr)
		}
		if o.KeyStr != "" {
			x += fmt.Sprintf(",key=%q", o.KeyStr)
		}
		if o.Moniker != "" {
			m := o.Moniker
			if len(m) > 12 {
				m = m[:12] + "..."
			}
			x += fmt.Sprintf(",moniker=%d bytes %q", len(o.Moniker), m)
		}
		return x + ")"
	case "engine":
		return fmt.Sprintf("engine%v", o.Batch)
	case "dryblock":
		return fmt.Sprintf("begin+end(%d) on a DISCARDED cache branch", o.H)
	case "probe":
		return fmt.Sprintf("FinalizeTokenDeposit by %s (discarded)", o.Sender)
	}
	return o.Kind
}

func coqKPs(l []KP) string {
	items := make([]string, len(l))
	for i, x := range l {
		items[i] = fmt.Sprintf("(%s, %s)", coqU(x.Key), coqI(x.Pow))
	}
	return coqList(items)
}

func (g ValGenesis) Coq() string {
	vs := make([]string, len(g.Vals))
	for i, v := range g.Vals {
		vs[i] = fmt.Sprintf("(%s, %s, %s)", coqU(v.Op), coqU(v.Key), coqI(v.Pow))
	}
	ls := make([]string, len(g.Last))
	for i, l := range g.Last {
		ls[i] = fmt.Sprintf("(%s, %s)", coqU(l.Op), coqI(l.Pow))
	}
	return fmt.Sprintf("{| g_vals := %s; g_maxv := %s; g_entries := %s; g_exported := %s; g_last := %s |}",
		coqList(vs), coqU(g.MaxV), coqU(g.Entries), coqBool(g.Exported), coqList(ls))
}
func (g ValGenesis) String() string {
	return fmt.Sprintf("genesis{vals=%v max=%d entries=%d exported=%v last=%v}", g.Vals, g.MaxV, g.Entries, g.Exported, g.Last)
}

type HistRec struct {
	H    int64
	Recs []KP // sorted by key id
}

// ValSnap is what the implementation showed after one step.
type ValSnap struct {
	Verdict  string // OK | ERR | INVALID | PANIC
	Err      string
	HasBatch bool
	Batch    []KP
	Acc      bool
	EngErr   string
	Vals     []VRec
	Idx      [][2]uint64 // (key, op)
	Last     []OpPow
	QVal     []*KP
	QKey     []*VRec
	MaxV     uint64
	Entries  uint64
	Execs    []string
	Hist     []HistRec
	Eng      []KP
	Plans    []uint64
}

func kpOv(l []KP) Ov {
	xs := []Ov{}
	for _, x := range l {
		xs = append(xs, ol(onU(x.Key), ozI(x.Pow)))
	}
	return OL{xs}
}

func (s ValSnap) Ov() Ov {
	if s.Verdict == "INVALID" || s.Verdict == "PANIC" {
		return OS{s.Verdict}
	}
	var batch Ov = ol()
	if s.HasBatch {
		batch = ol(kpOv(s.Batch), obool(s.Acc))
	}
	vals, idx, last, qv, qk, execs, hist, plans := []Ov{}, []Ov{}, []Ov{}, []Ov{}, []Ov{}, []Ov{}, []Ov{}, []Ov{}
	for _, v := range s.Vals {
		vals = append(vals, ol(onU(v.Op), onU(v.Key), ozI(v.Pow)))
	}
	for _, x := range s.Idx {
		idx = append(idx, ol(onU(x[0]), onU(x[1])))
	}
	for _, x := range s.Last {
		last = append(last, ol(onU(x.Op), ozI(x.Pow)))
	}
	for _, q := range s.QVal {
		if q == nil {
			qv = append(qv, ol())
		} else {
			qv = append(qv, ol(ol(onU(q.Key), ozI(q.Pow))))
		}
	}
	for _, q := range s.QKey {
		if q == nil {
			qk = append(qk, ol())
		} else {
			qk = append(qk, ol(ol(onU(q.Op), onU(q.Key), ozI(q.Pow))))
		}
	}
	for _, e := range s.Execs {
		execs = append(execs, OB{[]byte(e)})
	}
	for _, h := range s.Hist {
		hist = append(hist, ol(ozI(h.H), kpOv(h.Recs)))
	}
	for _, p := range s.Plans {
		plans = append(plans, onU(p))
	}
	return ol(OS{s.Verdict}, batch, OL{vals}, OL{idx}, OL{last}, OL{qv}, OL{qk}, ol(onU(s.MaxV), onU(s.Entries)), OL{execs}, OL{hist}, kpOv(s.Eng), OL{plans})
}

type ValEnv struct {
	E      *L2Env
	Base   sdk.Context
	Params *L2Params
	opID   map[string]uint64
	keyID  map[string]uint64
	keyJS  []string
}

func NewValEnv(seed uint64) *ValEnv {
	e := NewL2Env(seed, 6, false)
	ve := &ValEnv{E: e, Base: e.Ctx, opID: map[string]uint64{}, keyID: map[string]uint64{}}
	ve.Params = &L2Params{Admin: e.User(3).Str, Execs: []string{e.User(1).Str, e.User(2).Str}, MaxV: 3, Hist: 2,
		MinGas: []GasPrice{{"unative", big.NewInt(150000000000000000)}}, Whitelist: []string{}, HookGas: 1000000}
	for i, o := range e.ValOps {
		ve.opID[string(o)] = uint64(i + 1)
	}
	for i, k := range e.ValKeys {
		ve.keyID[string(k.Address())] = uint64(i + 1)
		js, err := e.Enc.Marshaler.MarshalInterfaceJSON(k)
		if err != nil {
			panic(err)
		}
		ve.keyJS = append(ve.keyJS, string(js))
	}
	return ve
}

func (ve *ValEnv) valBytes(s string) ([]byte, error) {
	return authcodec.NewBech32Codec(sdk.GetConfig().GetBech32ValidatorAddrPrefix()).StringToBytes(s)
}

func (ve *ValEnv) op(b []byte) uint64 {
	if id, ok := ve.opID[string(b)]; ok {
		return id
	}
	return 999
}
func (ve *ValEnv) key(b []byte) uint64 {
	if id, ok := ve.keyID[string(b)]; ok {
		return id
	}
	return 999
}

// ValRun is one case being executed.
type ValRun struct {
	VE    *ValEnv
	ID    int
	Ctx   sdk.Context
	Eng   *cmttypes.ValidatorSet
	Gen   ValGenesis
	NOps  int
	NKeys int
	Ops   []TVOp
	Snaps []ValSnap // Snaps[0] = genesis, Snaps[i+1] = after Ops[i]
}

func (ve *ValEnv) realValidator(v VRec) opchildtypes.Validator {
	rv, err := opchildtypes.NewValidator(ve.E.ValOps[v.Op-1], ve.E.ValKeys[v.Key-1], "m")
	if err != nil {
		panic(err)
	}
	rv.ConsPower = v.Pow
	return rv
}

func (ve *ValEnv) Start(id int, g ValGenesis, nOps, nKeys int) *ValRun {
	e := ve.E
	for k := range e.K.ExecutorChangePlans {
		delete(e.K.ExecutorChangePlans, k)
	}
	branch, _ := ve.Base.CacheContext()
	r := &ValRun{VE: ve, ID: id, Ctx: branch, Eng: cmttypes.NewValidatorSet(nil), Gen: g, NOps: nOps, NKeys: nKeys}
	p := *ve.Params
	p.MaxV, p.Hist = g.MaxV, g.Entries
	gs := opchildtypes.DefaultGenesisState()
	gs.Params = p.Real()
	gs.Exported = g.Exported
	for _, v := range g.Vals {
		gs.Validators = append(gs.Validators, ve.realValidator(v))
	}
	for _, l := range g.Last {
		gs.LastValidatorPowers = append(gs.LastValidatorPowers, opchildtypes.LastValidatorPower{Address: e.ValOps[l.Op-1].String(), Power: l.Pow})
	}
	if err := opchildtypes.ValidateGenesis(gs, e.AK.AddressCodec()); err != nil {
		r.Snaps = append(r.Snaps, ValSnap{Verdict: "INVALID", Err: err.Error()})
		return r
	}
	var batch []abci.ValidatorUpdate
	res := execAtomic(r.Ctx, func(ctx sdk.Context) (interface{}, error) {
		batch = e.K.InitGenesis(ctx, gs)
		return nil, nil
	})
	if !res.OK {
		r.Snaps = append(r.Snaps, ValSnap{Verdict: "PANIC", Err: res.Err})
		return r
	}
	s := ValSnap{Verdict: "OK"}
	r.feed(&s, batch)
	r.fill(&s)
	r.Snaps = append(r.Snaps, s)
	return r
}

func (r *ValRun) Dead() bool { return r.Snaps[0].Verdict != "OK" }

// feed gives a batch to the real CometBFT validator set
func (r *ValRun) feed(s *ValSnap, batch []abci.ValidatorUpdate) {
	s.HasBatch = true
	s.Batch = []KP{}
	for _, u := range batch {
		pk, err := cmttypes.PB2TM.ValidatorUpdates([]abci.ValidatorUpdate{u})
		if err != nil {
			panic(err)
		}
		s.Batch = append(s.Batch, KP{r.VE.key(pk[0].Address), u.Power})
	}
	s.Acc, s.EngErr = feedEngine(r.Eng, batch)
}

func feedEngine(eng *cmttypes.ValidatorSet, batch []abci.ValidatorUpdate) (acc bool, msg string) {
	defer func() {
		if x := recover(); x != nil {
			acc, msg = false, fmt.Sprintf("panic: %v", x)
		}
	}()
	vs, err := cmttypes.PB2TM.ValidatorUpdates(batch)
	if err != nil {
		return false, err.Error()
	}
	if err := eng.UpdateWithChangeSet(vs); err != nil {
		return false, err.Error()
	}
	return true, ""
}

// fill reads everything the stream compares from the stores and the engine object
func (r *ValRun) fill(s *ValSnap) {
	ve, e, ctx := r.VE, r.VE.E, r.Ctx
	s.Vals, s.Idx, s.Last, s.Hist, s.Eng, s.Plans = []VRec{}, [][2]uint64{}, []OpPow{}, []HistRec{}, []KP{}, []uint64{}
	must := func(err error) {
		if err != nil {
			panic(err)
		}
	}
	all, err := e.K.GetAllValidators(ctx)
	must(err)
	for _, v := range all {
		ob, err := ve.valBytes(v.GetOperator())
		must(err)
		ca, err := v.GetConsAddr()
		must(err)
		s.Vals = append(s.Vals, VRec{ve.op(ob), ve.key(ca), v.ConsPower})
	}
	must(e.K.ValidatorsByConsAddr.Walk(ctx, nil, func(k []byte, v []byte) (bool, error) {
		s.Idx = append(s.Idx, [2]uint64{ve.key(k), ve.op(v)})
		return false, nil
	}))
	must(e.K.IterateLastValidatorPowers(ctx, func(op []byte, p int64) (bool, error) {
		s.Last = append(s.Last, OpPow{ve.op(op), p})
		return false, nil
	}))
	for i := 0; i < r.NOps; i++ {
		vi := e.K.Validator(ctx, e.ValOps[i])
		if vi == nil {
			s.QVal = append(s.QVal, nil)
			continue
		}
		ca, err := vi.GetConsAddr()
		must(err)
		s.QVal = append(s.QVal, &KP{ve.key(ca), vi.GetConsensusPower()})
	}
	for i := 0; i < r.NKeys; i++ {
		vi := e.K.ValidatorByConsAddr(ctx, sdk.ConsAddress(e.ValKeys[i].Address()))
		if vi == nil {
			s.QKey = append(s.QKey, nil)
			continue
		}
		ca, err := vi.GetConsAddr()
		must(err)
		ob, err := ve.valBytes(vi.GetOperator())
		must(err)
		s.QKey = append(s.QKey, &VRec{ve.op(ob), ve.key(ca), vi.GetConsensusPower()})
	}
	ps, err := e.K.GetParams(ctx)
	must(err)
	s.MaxV, s.Entries, s.Execs = uint64(ps.MaxValidators), uint64(ps.HistoricalEntries), ps.BridgeExecutors
	must(e.K.HistoricalInfos.Walk(ctx, nil, func(h int64, hi cosmostypes.HistoricalInfo) (bool, error) {
		rec := HistRec{H: h, Recs: []KP{}}
		for _, v := range hi.Valset {
			ca, err := v.GetConsAddr()
			must(err)
			rec.Recs = append(rec.Recs, KP{ve.key(ca), v.Tokens.Quo(sdk.DefaultPowerReduction).Int64()})
		}
		sort.SliceStable(rec.Recs, func(i, j int) bool { return rec.Recs[i].Key < rec.Recs[j].Key })
		s.Hist = append(s.Hist, rec)
		return false, nil
	}))
	sort.SliceStable(s.Hist, func(i, j int) bool { return s.Hist[i].H < s.Hist[j].H })
	for _, v := range r.Eng.Validators {
		s.Eng = append(s.Eng, KP{ve.key(v.Address), v.VotingPower})
	}
	sort.Slice(s.Eng, func(i, j int) bool { return s.Eng[i].Key < s.Eng[j].Key })
	for h := range e.K.ExecutorChangePlans {
		s.Plans = append(s.Plans, h)
	}
	sort.Slice(s.Plans, func(i, j int) bool { return s.Plans[i] < s.Plans[j] })
}

func (r *ValRun) Do(o TVOp) ValSnap {
	ve, e := r.VE, r.VE.E
	s := ValSnap{Verdict: "OK"}
	var batch []abci.ValidatorUpdate
	var res ExecResult
	switch o.Kind {
	case "add":
		res = execAtomic(r.Ctx, func(ctx sdk.Context) (interface{}, error) {
			m, err := opchildtypes.NewMsgAddValidator("m", e.Auth, e.ValOps[o.Op-1].String(), e.ValKeys[o.Key-1])
			if err != nil {
				panic(err)
			}
			return e.Msg.AddValidator(ctx, m)
		})
	case "rm":
		res = execAtomic(r.Ctx, func(ctx sdk.Context) (interface{}, error) {
			return e.Msg.RemoveValidator(ctx, &opchildtypes.MsgRemoveValidator{Authority: e.Auth, ValidatorAddress: e.ValOps[o.Op-1].String()})
		})
	case "params":
		res = execAtomic(r.Ctx, func(ctx sdk.Context) (interface{}, error) {
			cur, err := e.K.GetParams(ctx)
			if err != nil {
				return nil, err
			}
			cur.MaxValidators, cur.HistoricalEntries = uint32(o.MaxV), uint32(o.Entries)
			return e.Msg.UpdateParams(ctx, &opchildtypes.MsgUpdateParams{Authority: e.Auth, Params: &cur})
		})
	case "begin":
		res = execAtomic(r.Ctx.WithBlockHeight(o.H), func(ctx sdk.Context) (interface{}, error) {
			return nil, opchild.BeginBlocker(ctx, e.K)
		})
	case "end":
		res = execAtomic(r.Ctx.WithBlockHeight(o.H), func(ctx sdk.Context) (interface{}, error) {
			b, err := opchild.EndBlocker(ctx, e.K)
			batch = b
			return nil, err
		})
		if res.OK {
			r.feed(&s, batch)
		}
	case "probe":
		// is Sender accepted as bridge executor?  A well-formed next-in-order deposit through the
		// real msg server on a branch that is thrown away.
		ps, err := e.K.GetParams(r.Ctx)
		if err != nil {
			panic(err)
		}
		if sb, err := e.AK.AddressCodec().StringToBytes(o.Sender); err == nil {
			for _, x := range ps.BridgeExecutors {
				if xb, err := e.AK.AddressCodec().StringToBytes(x); err == nil && bytes.Equal(xb, sb) {
					o.ProbeWant = true
				}
			}
		}
		res = func() (res ExecResult) {
			branch, _ := r.Ctx.CacheContext()
			branch = branch.WithEventManager(sdk.NewEventManager())
			defer func() {
				if x := recover(); x != nil {
					res = ExecResult{OK: false, Err: fmt.Sprintf("panic: %v", x)}
				}
			}()
			seq, err := e.K.GetNextL1Sequence(branch)
			if err != nil {
				panic(err)
			}
			_, err = e.Msg.FinalizeTokenDeposit(branch, &opchildtypes.MsgFinalizeTokenDeposit{
				Sender: o.Sender, From: "l1sender", To: e.User(6).Str, Amount: sdk.NewInt64Coin("l2/probe", 3),
				Sequence: seq, Height: 1, BaseDenom: "uinit"})
			if err != nil {
				return ExecResult{OK: false, Err: err.Error()}
			}
			return ExecResult{OK: true}
		}()
	case "dryblock":
		// the whole (empty) block on a branch of the store that is thrown away afterwards: what
		// baseapp does with a proposal it ends up rejecting, or a simulation
		res = func() (res ExecResult) {
			branch, _ := r.Ctx.WithBlockHeight(o.H).CacheContext()
			branch = branch.WithEventManager(sdk.NewEventManager())
			defer func() {
				if x := recover(); x != nil {
					res = ExecResult{OK: false, Err: fmt.Sprintf("panic: %v", x)}
				}
			}()
			if err := opchild.BeginBlocker(branch, e.K); err != nil {
				return ExecResult{OK: false, Err: err.Error()}
			}
			if _, err := opchild.EndBlocker(branch, e.K); err != nil {
				return ExecResult{OK: false, Err: err.Error()}
			}
			return ExecResult{OK: true}
		}()
	case "register":
		opStr, keyStr := "notavaloper", "{notjson"
		if o.Op != 0 {
			opStr = e.ValOps[o.Op-1].String()
		}
		if o.Key != 0 {
			keyStr = ve.keyJS[o.Key-1]
		}
		if o.OpStr != "" {
			opStr, o.Op = o.OpStr, 0
			if b, err := ve.valBytes(o.OpStr); err == nil {
				o.Op = ve.op(b)
			}
		}
		if o.KeyStr != "" {
			keyStr, o.Key = o.KeyStr, 0
			var pk cryptotypes.PubKey
			if err := e.Enc.Marshaler.UnmarshalInterfaceJSON([]byte(o.KeyStr), &pk); err == nil && pk != nil {
				o.Key = ve.key(pk.Address())
			}
		}
		for _, x := range o.Execs {
			if _, err := e.AK.AddressCodec().StringToBytes(x); err != nil {
				o.BadExec = true
			}
		}
		// the plan table is a Go map on the keeper, not store state: no cache to discard
		err := func() (err error) {
			defer func() {
				if x := recover(); x != nil {
					err = fmt.Errorf("panic: %v", x)
				}
			}()
			moniker := o.Moniker
			if moniker == "" {
				moniker = "m"
			}
			if moniker == "<empty>" {
				moniker = ""
			}
			return e.K.RegisterExecutorChangePlan(o.Pid, o.PH, opStr, moniker, keyStr, "info", o.Execs)
		}()
		res = ExecResult{OK: err == nil}
		if err != nil {
			res.Err = err.Error()
		}
	case "engine":
		for _, kp := range o.Batch {
			tmpk, err := ve.realValidator(VRec{1, kp.Key, 1}).TmConsPublicKey()
			if err != nil {
				panic(err)
			}
			batch = append(batch, abci.ValidatorUpdate{PubKey: tmpk, Power: kp.Pow})
		}
		res = ExecResult{OK: true}
		r.feed(&s, batch)
	default:
		panic("unknown op " + o.Kind)
	}
	if !res.OK {
		s.Verdict, s.Err = "ERR", res.Err
	}
	r.fill(&s)
	r.Ops = append(r.Ops, o)
	r.Snaps = append(r.Snaps, s)
	return s
}

func (r *ValRun) Coq() string {
	e := r.VE.E
	var tbl []string
	for _, u := range e.Users {
		tbl = append(tbl, fmt.Sprintf("(%s, %s)", coqStr(u.Str), coqU(u.ID)))
	}
	// other decodable spellings used as executor addresses (the real codec decides)
	seen := map[string]bool{}
	for _, u := range e.Users {
		seen[u.Str] = true
	}
	for _, o := range r.Ops {
		spellings := o.Execs
		if o.Kind == "probe" {
			spellings = []string{o.Sender}
		}
		for _, x := range spellings {
			if seen[x] {
				continue
			}
			seen[x] = true
			if b, err := e.AK.AddressCodec().StringToBytes(x); err == nil {
				id := uint64(900)
				for _, u := range e.Users {
					if bytes.Equal(u.Addr, b) {
						id = u.ID
					}
				}
				tbl = append(tbl, fmt.Sprintf("(%s, %s)", coqStr(x), coqU(id)))
			}
		}
	}
	ops, obs := []string{}, []string{}
	for _, o := range r.Ops {
		ops = append(ops, "("+o.Coq()+")")
	}
	for _, s := range r.Snaps {
		obs = append(obs, s.Ov().Coq())
	}
	p := *r.VE.Params
	p.MaxV, p.Hist = r.Gen.MaxV, r.Gen.Entries
	return fmt.Sprintf("(%d%%N,\n {| tc_table := %s; tc_auth := %s;\n    tc_params := %s;\n    tc_genesis := %s;\n    tc_nops := %s; tc_nkeys := %s;\n    tc_ops := %s |},\n %s)",
		r.ID, coqList(tbl), coqStr(e.Auth), p.Coq(), r.Gen.Coq(), coqU(uint64(r.NOps)), coqU(uint64(r.NKeys)),
		"[\n      "+strings.Join(ops, ";\n      ")+"]", "[\n  "+strings.Join(obs, ";\n  ")+"]")
}

// History renders genesis + ops for violation reports.
func (r *ValRun) History(upto int) []string {
	out := []string{r.Gen.String()}
	for i := 0; i < upto && i < len(r.Ops); i++ {
		out = append(out, fmt.Sprintf("%s -> %s", r.Ops[i].String(), r.Snaps[i+1].Verdict))
	}
	return out
}

func (r *ValRun) Canon() string {
	var sb strings.Builder
	sb.WriteString(r.Gen.String())
	for _, o := range r.Ops {
		sb.WriteString(";" + o.String())
	}
	return sb.String()
}

const valCaseHeader = `Require Import Model.Bytes Model.Obs Model.Bank Model.Valset Model.L2 Model.ValChain Model.Plans Model.TraceVal.
From Coq Require Import List NArith ZArith String.
Import ListNotations.
Local Open Scope string_scope.
`

var _ = bytes.Compare
