package main

import (
	"context"
	"errors"
	"fmt"
	"math/big"
	"strings"

	codectypes "github.com/cosmos/cosmos-sdk/codec/types"
	sdk "github.com/cosmos/cosmos-sdk/types"
	"github.com/cosmos/cosmos-sdk/x/authz"
	banktypes "github.com/cosmos/cosmos-sdk/x/bank/types"

	opchildante "github.com/initia-labs/OPinit/x/opchild/ante"
	opchildlanes "github.com/initia-labs/OPinit/x/opchild/lanes"
	opchildtypes "github.com/initia-labs/OPinit/x/opchild/types"
)

// ---- message shapes (mirror Model/Lanes.v shape) ----
type c20Shape struct {
	Kind  string // "UO" | "Exec" | "ExecBad" | "ExecBadMixed" | "Dep" | "Other"
	Inner []c20Shape
	Valid bool
	Seq   uint64
	Alt   int // which concrete message stands for "Other" / which kind of invalidity
}

func (s c20Shape) Coq() string {
	switch s.Kind {
	case "UO":
		return "UpdateOracle"
	case "Exec":
		var in []string
		for _, x := range s.Inner {
			in = append(in, x.Coq())
		}
		return "(Exec " + coqList(in) + ")"
	case "ExecBad", "ExecBadMixed":
		return "ExecUndecodable"
	case "Dep":
		return fmt.Sprintf("(Deposit %s %s)", coqBool(s.Valid), coqU(s.Seq))
	}
	return "Other"
}
func (s c20Shape) decodable() bool {
	if s.Kind == "ExecBad" || s.Kind == "ExecBadMixed" {
		return false
	}
	for _, x := range s.Inner {
		if !x.decodable() {
			return false
		}
	}
	return true
}
func shapesCoq(ss []c20Shape) string {
	var out []string
	for _, s := range ss {
		out = append(out, s.Coq())
	}
	return coqList(out)
}

type c20Env struct {
	sc *L2Scenario
	e  *L2Env
}

// the real message for a shape
func (c *c20Env) real(s c20Shape) sdk.Msg {
	e := c.e
	switch s.Kind {
	case "UO":
		return opchildtypes.NewMsgUpdateOracle(e.User(1).Str, 7, []byte{1, 2, 3})
	case "Exec":
		var inner []sdk.Msg
		for _, x := range s.Inner {
			inner = append(inner, c.real(x))
		}
		m := authz.NewMsgExec(e.User(2).Addr, inner)
		return &m
	case "ExecBad": // one inner Any that was never decoded
		return &authz.MsgExec{Grantee: e.User(2).Str, Msgs: []*codectypes.Any{{TypeUrl: "/opinit.opchild.v1.MsgUpdateOracle", Value: []byte{10, 1, 65}}}}
	case "ExecBadMixed": // a decoded oracle update followed by an undecoded Any
		good, err := codectypes.NewAnyWithValue(opchildtypes.NewMsgUpdateOracle(e.User(1).Str, 7, []byte{1}))
		if err != nil {
			panic(err)
		}
		return &authz.MsgExec{Grantee: e.User(2).Str, Msgs: []*codectypes.Any{good, {TypeUrl: "/nowhere.Unknown", Value: []byte{1}}}}
	case "Dep":
		sender := e.User(1).Str // a bridge executor
		amt := big.NewInt(5)
		base := c.sc.L1Denoms[0]
		if !s.Valid {
			switch s.Alt % 3 {
			case 0:
				sender = e.User(5).Str // not an executor
			case 1:
				sender = "notanaddress"
			case 2:
				base = "!" // invalid base denom
			}
		}
		return &opchildtypes.MsgFinalizeTokenDeposit{Sender: sender, From: c.sc.L1Addrs[0], To: e.User(4).Str,
			Amount: coinOf(c.sc.L2Denoms[0], amt), Sequence: s.Seq, Height: 5, BaseDenom: base}
	}
	switch s.Alt % 3 {
	case 0:
		return &banktypes.MsgSend{FromAddress: e.User(3).Str, ToAddress: e.User(4).Str, Amount: sdk.NewCoins(sdk.NewInt64Coin(c.sc.Native, 1))}
	case 1:
		return &opchildtypes.MsgInitiateTokenWithdrawal{Sender: e.User(3).Str, To: c.sc.L1Addrs[0], Amount: coinOf(c.sc.L2Denoms[0], big.NewInt(1))}
	}
	return &opchildtypes.MsgSetBridgeInfo{Sender: e.User(1).Str}
}

func (c *c20Env) tx(shapes []c20Shape, payer, granter sdk.AccAddress) sdk.Tx {
	b := c.e.Enc.TxConfig.NewTxBuilder()
	var msgs []sdk.Msg
	for _, s := range shapes {
		msgs = append(msgs, c.real(s))
	}
	if err := b.SetMsgs(msgs...); err != nil {
		panic(err)
	}
	b.SetGasLimit(200000)
	if payer != nil {
		b.SetFeePayer(payer)
	}
	if granter != nil {
		b.SetFeeGranter(granter)
	}
	return b.GetTx()
}

// the same transaction after encoding and decoding with the real TxEncoder / TxDecoder
func (c *c20Env) roundTrip(tx sdk.Tx) (sdk.Tx, error) {
	bz, err := c.e.Enc.TxConfig.TxEncoder()(tx)
	if err != nil {
		return nil, err
	}
	return c.e.Enc.TxConfig.TxDecoder()(bz)
}

const laneCaseHeader = `Require Import Model.Bytes Model.Obs Model.Lanes Model.TraceLanes.
From Coq Require Import List NArith ZArith String.
Import ListNotations.
Local Open Scope string_scope.
`

func laneCaseText(id int, input string, obs []Ov) string {
	var os []string
	for _, o := range obs {
		os = append(os, o.Coq())
	}
	return fmt.Sprintf("(%d%%N, %s,\n [%s])", id, input, strings.Join(os, "; "))
}

// ---- system lane ----
func c20SystemAtoms() []c20Shape {
	uo := c20Shape{Kind: "UO"}
	other := c20Shape{Kind: "Other"}
	dep := c20Shape{Kind: "Dep", Valid: true, Seq: 3}
	ex := func(in ...c20Shape) c20Shape { return c20Shape{Kind: "Exec", Inner: in} }
	return []c20Shape{uo, ex(uo), ex(), ex(uo, uo), ex(ex(uo)), ex(ex(ex(uo))), ex(other), ex(dep), ex(uo, other),
		{Kind: "ExecBad"}, {Kind: "ExecBadMixed"}, dep, other, {Kind: "Other", Alt: 1}}
}

func genC20System(rep *Report, c *c20Env, seed uint64, tier string, id *int) []string {
	atoms := c20SystemAtoms()
	r := NewRng(seed*7919 + 21)
	var lists [][]c20Shape
	lists = append(lists, nil)
	for _, a := range atoms {
		lists = append(lists, []c20Shape{a})
	}
	for _, a := range atoms {
		for _, b := range atoms {
			lists = append(lists, []c20Shape{a, b})
		}
	}
	if tier == "thorough" {
		for _, a := range atoms {
			for _, b := range atoms {
				for _, d := range atoms {
					lists = append(lists, []c20Shape{a, b, d})
				}
			}
		}
	} else {
		for k := 0; k < 120; k++ {
			n := 3 + r.Intn(2)
			var l []c20Shape
			for i := 0; i < n; i++ {
				l = append(l, atoms[r.Intn(len(atoms))])
			}
			lists = append(lists, l)
		}
	}
	handler := opchildlanes.SystemLaneMatchHandler()
	var texts []string
	for _, l := range lists {
		canon := shapesCoq(l)
		want := canon == "[UpdateOracle]" || canon == "[(Exec [UpdateOracle])]" // table oracle
		txs := []sdk.Tx{c.tx(l, nil, nil)}
		kinds := []string{"built"}
		dec := true
		for _, s := range l {
			dec = dec && s.decodable()
		}
		if dec && len(l) > 0 {
			rt, err := c.roundTrip(txs[0])
			if err != nil {
				panic(fmt.Sprintf("round trip of %s: %v", canon, err))
			}
			txs = append(txs, rt)
			kinds = append(kinds, "decoded")
		}
		for i, tx := range txs {
			*id++
			got := handler(c.e.Ctx, tx)
			rep.Hist(fmt.Sprintf("system:%s:%v", kinds[i], got))
			if got != want {
				what := "a transaction that is not exactly one oracle update (possibly wrapped once in a single-message authz execution) is matched by the system lane"
				sig := "C20:system-lane-matches-other"
				if want {
					what, sig = "a single (possibly once-wrapped) oracle update is not matched by the system lane", "C20:system-lane-misses-oracle-update"
				}
				rep.Violate(Violation{Case: *id, Step: 0, What: what, Sig: sig, Ops: []string{"messages (" + kinds[i] + " tx) = " + canon}})
			}
			text := laneCaseText(*id, "LSystem "+canon, []Ov{obool(got)})
			rep.CountCase(text, true)
			rep.Ops++
			texts = append(texts, text)
		}
	}
	rep.Notes = append(rep.Notes, fmt.Sprintf("system lane: %d message lists over %d atoms (all of length <= 2%s), each as built and as decoded transaction",
		len(lists), len(atoms), map[bool]string{true: " and 3", false: ", random longer ones"}[tier == "thorough"]))
	return texts
}

// ---- free lane ----
type fakeWhitelistKeeper struct {
	wl  []string
	err error
}

func (f fakeWhitelistKeeper) FeeWhitelist(ctx context.Context) ([]string, error) { return f.wl, f.err }

func genC20Free(rep *Report, c *c20Env, id *int) []string {
	e := c.e
	A, B, C, D := e.User(1), e.User(2), e.User(3), e.User(4)
	type wlT struct {
		list []string
		fake bool
		err  bool
	}
	wls := []wlT{
		{list: []string{}}, {list: []string{A.Str}}, {list: []string{C.Str}}, {list: []string{A.Str, C.Str}},
		{list: []string{D.Str}}, {list: []string{upperBech32(A.Str)}}, {list: []string{B.Str, D.Str}},
		{list: []string{upperBech32(C.Str), B.Str}},
		{fake: true, err: true}, {list: []string{""}, fake: true}, {list: []string{"", A.Str}, fake: true},
		{list: []string{C.Str, C.Str, "garbage"}, fake: true},
	}
	signers := []*Account{A, B}
	payers := []*Account{nil, B, C}
	granters := []*Account{nil, A, C, D}
	var texts []string
	for _, wl := range wls {
		ctx, _ := e.Ctx.CacheContext()
		var fwk opchildlanes.FeeWhitelistKeeper
		if wl.fake {
			f := fakeWhitelistKeeper{wl: wl.list}
			if wl.err {
				f.err = errors.New("no params")
			}
			fwk = f
		} else {
			ps, err := e.K.GetParams(ctx)
			if err != nil {
				panic(err)
			}
			ps.FeeWhitelist = wl.list
			if err := ps.Validate(e.AK.AddressCodec()); err != nil {
				panic(err) // every list given to the real keeper is one governance could set
			}
			if err := e.K.Params.Set(ctx, ps); err != nil {
				panic(err)
			}
			fwk = e.K
		}
		handler := opchildlanes.NewFreeLaneMatchHandler(e.AK.AddressCodec(), fwk).MatchHandler()
		for _, s := range signers {
			for _, p := range payers {
				for _, g := range granters {
					*id++
					msg := &banktypes.MsgSend{FromAddress: s.Str, ToAddress: D.Str, Amount: sdk.NewCoins(sdk.NewInt64Coin(c.sc.Native, 1))}
					b := e.Enc.TxConfig.NewTxBuilder()
					if err := b.SetMsgs(msg); err != nil {
						panic(err)
					}
					payer := s // intention: the first signer pays unless a fee payer is named
					if p != nil {
						b.SetFeePayer(p.Addr)
						payer = p
					}
					if g != nil {
						b.SetFeeGranter(g.Addr)
					}
					var tx sdk.Tx = b.GetTx()
					if (*id)%2 == 0 { // every other case on the decoded form
						rt, err := c.roundTrip(tx)
						if err != nil {
							panic(err)
						}
						tx = rt
					}
					got := handler(ctx, tx)
					// table oracle (string comparison as the handler is specified)
					want := false
					gs := ""
					if g != nil {
						gs = g.Str
					}
					if !wl.err {
						for _, a := range wl.list {
							if a == payer.Str || a == gs {
								want = true
							}
						}
					}
					// the property: exempt only if payer or granter is on the whitelist (as addresses)
					onList := func(acc *Account) bool {
						if acc == nil {
							return false
						}
						for _, a := range wl.list {
							if bz, err := e.AK.AddressCodec().StringToBytes(a); err == nil && string(bz) == string(acc.Addr) {
								return true
							}
						}
						return false
					}
					hasEmpty := false
					for _, a := range wl.list {
						hasEmpty = hasEmpty || a == ""
					}
					desc := fmt.Sprintf("whitelist=%q keeper_error=%v signer=%d fee_payer=%v granter=%v", wl.list, wl.err, s.ID, accID(p), accID(g))
					if got && !(onList(payer) || onList(g)) && !hasEmpty {
						rep.Violate(Violation{Case: *id, Step: 0, What: "fee-exempt although neither the fee payer nor the fee granter is on the whitelist",
							Sig: "C20:free-lane-exempt-not-whitelisted", Ops: []string{desc}})
					} else if got != want {
						rep.Violate(Violation{Case: *id, Step: 0, What: fmt.Sprintf("free lane match = %v, table says %v", got, want),
							Sig: "C20:free-lane-table", Ops: []string{desc}})
					}
					rep.Hist(fmt.Sprintf("free:%v", got))
					wlCoq := "None"
					if !wl.err {
						var items []string
						for _, a := range wl.list {
							items = append(items, coqStr(a))
						}
						wlCoq = "(Some " + coqList(items) + ")"
					}
					gCoq := "None"
					if g != nil {
						gCoq = "(Some " + coqStr(g.Str) + ")"
					}
					text := laneCaseText(*id, fmt.Sprintf("LFree %s %s %s", wlCoq, coqStr(payer.Str), gCoq), []Ov{obool(got)})
					rep.CountCase(text, true)
					rep.Ops++
					texts = append(texts, text)
				}
			}
		}
	}
	rep.Notes = append(rep.Notes, fmt.Sprintf("free lane: %d whitelists (8 through the real keeper, 4 through a stub incl. keeper error and empty-string entries) x 2 signers x 3 fee payers x 4 granters", len(wls)))
	return texts
}

// ---- free lane, ONE long-lived handler while the on-chain whitelist changes ----
// The match handler is constructed once per application; between two consultations the whitelist
// may change (UpdateParams) at the SAME block height or at a later one.  Every decision must be
// the table's answer for the whitelist that is on chain at that moment.
func genC20FreeLongLived(rep *Report, c *c20Env, seed uint64, tier string, id *int) []string {
	e := c.e
	r := NewRng(seed*7919 + 23)
	users := []*Account{e.User(1), e.User(2), e.User(3), e.User(4)}
	handler := opchildlanes.NewFreeLaneMatchHandler(e.AK.AddressCodec(), e.K).MatchHandler() // once
	live, _ := e.Ctx.CacheContext()
	var cur []string // the harness's own record of what it wrote
	var history []string
	setWL := func(wl []string) {
		ps, err := e.K.GetParams(live)
		if err != nil {
			panic(err)
		}
		ps.FeeWhitelist = append([]string{}, wl...)
		if err := e.K.SetParams(live, ps); err != nil {
			panic(err)
		}
		cur = wl
		history = append(history, fmt.Sprintf("height %d: UpdateParams fee_whitelist := %v", live.BlockHeight(), accNames(e, wl)))
		rep.Hist("free-long-lived:whitelist-change")
	}
	var texts []string
	match := func(signer, payer, granter *Account) {
		*id++
		b := e.Enc.TxConfig.NewTxBuilder()
		if err := b.SetMsgs(&banktypes.MsgSend{FromAddress: signer.Str, ToAddress: users[3].Str, Amount: sdk.NewCoins(sdk.NewInt64Coin(c.sc.Native, 1))}); err != nil {
			panic(err)
		}
		p := signer
		if payer != nil {
			b.SetFeePayer(payer.Addr)
			p = payer
		}
		gs := ""
		if granter != nil {
			b.SetFeeGranter(granter.Addr)
			gs = granter.Str
		}
		got := handler(live, b.GetTx())
		want := false
		for _, a := range cur {
			if a == p.Str || a == gs {
				want = true
			}
		}
		history = append(history, fmt.Sprintf("height %d: match signer=%d fee_payer=%v granter=%v -> %v", live.BlockHeight(), signer.ID, accID(payer), accID(granter), got))
		rep.Hist(fmt.Sprintf("free-long-lived:match:%v", got))
		if got != want {
			n := len(history)
			from := 0
			if n > 12 {
				from = n - 12
			}
			rep.Violate(Violation{Case: *id, Step: n - 1, Sig: "C20:free-lane-stale",
				What: fmt.Sprintf("a long-lived free-lane handler answered %v, the whitelist on chain at that moment (%v) says %v", got, accNames(e, cur), want),
				Ops:  append([]string{"one FreeLaneMatchHandler instance for the whole sequence (last steps):"}, history[from:]...)})
		}
		var items []string
		for _, a := range cur {
			items = append(items, coqStr(a))
		}
		gCoq := "None"
		if granter != nil {
			gCoq = "(Some " + coqStr(granter.Str) + ")"
		}
		text := laneCaseText(*id, fmt.Sprintf("LFree (Some %s) %s %s", coqList(items), coqStr(p.Str), gCoq), []Ov{obool(got)})
		rep.CountCase(text, true)
		rep.Ops++
		texts = append(texts, text)
	}
	A, B, C := users[0], users[1], users[2]
	// scripted: consult, change at the same height, consult again
	setWL([]string{A.Str})
	match(A, nil, nil)
	setWL([]string{})
	match(A, nil, nil) // no longer exempt
	setWL([]string{C.Str})
	match(B, C, nil) // exempt now
	match(A, nil, C)
	setWL([]string{A.Str, B.Str})
	match(B, C, nil)
	nSteps := 80
	if tier == "thorough" {
		nSteps = 2000
	}
	pick := func(allowNil bool) *Account {
		if allowNil && r.Chance(45) {
			return nil
		}
		return users[r.Intn(len(users))]
	}
	for k := 0; k < nSteps; k++ {
		switch r.Weighted([]int{35, 20, 45}) {
		case 0:
			var wl []string
			for _, u := range users {
				if r.Chance(40) {
					wl = append(wl, u.Str)
				}
			}
			setWL(wl)
		case 1:
			live = live.WithBlockHeight(live.BlockHeight() + 1 + int64(r.Intn(2)))
			history = append(history, fmt.Sprintf("new block height %d", live.BlockHeight()))
		}
		for n := 1 + r.Intn(2); n > 0; n-- {
			match(users[r.Intn(2)], pick(true), pick(true))
		}
	}
	rep.Notes = append(rep.Notes, fmt.Sprintf("free lane, long-lived: ONE handler instance over %d steps of whitelist changes (through Keeper.SetParams) at the same and at later block heights, each followed by matches checked against the whitelist on chain at that moment", nSteps+5))
	return texts
}

func accNames(e *L2Env, wl []string) []string {
	out := []string{}
	for _, a := range wl {
		name := a
		for _, u := range e.Users {
			if u.Str == a {
				name = fmt.Sprintf("user%d", u.ID)
			}
		}
		out = append(out, name)
	}
	return out
}

func accID(a *Account) interface{} {
	if a == nil {
		return "none"
	}
	return a.ID
}

// ---- redundant-relay filter ----
func genC20Redundant(rep *Report, c *c20Env, seed uint64, tier string, id *int) []string {
	e, sc := c.e, c.sc
	r := NewRng(seed*7919 + 22)
	// base state: two deposits processed, next expected sequence = 3
	for s := uint64(1); s <= 2; s++ {
		res := e.L2Exec(sc.Deposit(e.User(1).Str, s, e.User(4).Str, 0, big.NewInt(10), Hook{Kind: "none"}))
		if !res.OK {
			panic("setup deposit failed: " + res.Err)
		}
	}
	next, _ := e.K.GetNextL1Sequence(e.Ctx)
	if next != 3 {
		panic("unexpected base sequence")
	}
	dep := func(valid bool, seq uint64, alt int) c20Shape { return c20Shape{Kind: "Dep", Valid: valid, Seq: seq, Alt: alt} }
	choices := []c20Shape{dep(true, 1, 0), dep(true, 2, 0), dep(true, 3, 0), dep(true, 4, 0), dep(true, 5, 0), dep(false, 3, 0), dep(false, 1, 1)}
	fillers := []c20Shape{{Kind: "Other"}, {Kind: "Other", Alt: 1}, {Kind: "UO"}, {Kind: "Exec", Inner: []c20Shape{dep(true, 3, 0)}},
		{Kind: "Exec", Inner: []c20Shape{dep(true, 1, 0)}}, {Kind: "Other", Alt: 2}}
	maxLen, nMixed := 3, 1
	if tier == "thorough" {
		maxLen, nMixed = 4, 3
	}
	var depLists [][]c20Shape
	var rec func(cur []c20Shape)
	rec = func(cur []c20Shape) {
		depLists = append(depLists, append([]c20Shape{}, cur...))
		if len(cur) == maxLen {
			return
		}
		for _, ch := range choices {
			rec(append(cur, ch))
		}
	}
	rec(nil)
	var lists [][]c20Shape
	for _, dl := range depLists {
		lists = append(lists, dl)
		for k := 0; k < nMixed; k++ { // the same deposits with other messages mixed in
			var l []c20Shape
			for _, d := range dl {
				for r.Chance(40) {
					l = append(l, fillers[r.Intn(len(fillers))])
				}
				if !d.Valid {
					d.Alt = r.Intn(3)
				}
				l = append(l, d)
			}
			for len(l) == len(dl) || r.Chance(30) {
				l = append(l, fillers[r.Intn(len(fillers))])
			}
			lists = append(lists, l)
		}
	}
	// random longer lists that mostly follow the order (more PASS / REDUNDANT outcomes)
	nRandom := 300
	if tier == "thorough" {
		nRandom = 6000
	}
	randList := func(next uint64) []c20Shape {
		var l []c20Shape
		cur := next
		n := 1 + r.Intn(6)
		fresh := r.Chance(60)
		for i := 0; i < n; i++ {
			for r.Chance(25) {
				l = append(l, fillers[r.Intn(len(fillers))])
			}
			x := r.Intn(100)
			switch {
			case x < 50 || (!fresh && x < 90):
				l = append(l, dep(true, 1+uint64(r.Intn(int(cur-1))), 0))
			case x < 90:
				l = append(l, dep(true, cur, 0))
				cur++
			case x < 95:
				l = append(l, dep(true, cur+1+uint64(r.Intn(2)), 0))
			default:
				l = append(l, dep(false, 1+uint64(r.Intn(int(cur))), r.Intn(3)))
			}
		}
		return l
	}
	for k := 0; k < nRandom; k++ {
		lists = append(lists, randList(next))
	}
	dec := opchildante.NewRedundantBridgeDecorator(e.K)
	type modeT struct {
		name     string
		check    bool
		recheck  bool
		simulate bool
	}
	modes := []modeT{{"check", true, false, false}, {"recheck", true, true, false}, {"deliver", false, false, false},
		{"check+simulate", true, false, true}, {"recheck+simulate", true, true, true}, {"deliver+simulate", false, false, true}}
	var texts []string
	evalList := func(base sdk.Context, next uint64, l []c20Shape, longLived bool) {
		*id++
		canon := shapesCoq(l)
		tx := c.tx(l, nil, nil)
		// the property restated on the input (model-free): classify the deposit messages
		nDep, allStale, allValid, noneAhead, hasNext := 0, true, true, true, false
		for _, s := range l {
			if s.Kind != "Dep" {
				continue
			}
			nDep++
			allValid = allValid && s.Valid
			allStale = allStale && s.Valid && s.Seq < next
			noneAhead = noneAhead && s.Seq <= next
			hasNext = hasNext || s.Seq == next
		}
		var obs []Ov
		someRej, somePass := false, false
		for mi, m := range modes {
			ctx, _ := base.CacheContext()
			ctx = ctx.WithEventManager(sdk.NewEventManager())
			if m.recheck {
				ctx = ctx.WithIsReCheckTx(true)
			} else {
				ctx = ctx.WithIsCheckTx(m.check)
			}
			called := false
			class := "ERR"
			func() {
				defer func() {
					if p := recover(); p != nil {
						class = "ERR"
					}
				}()
				_, err := dec.AnteHandle(ctx, tx, m.simulate, func(ctx sdk.Context, tx sdk.Tx, simulate bool) (sdk.Context, error) {
					called = true
					return ctx, nil
				})
				switch {
				case err == nil && called:
					class = "PASS"
				case err == nil:
					class = "SWALLOWED"
				case errors.Is(err, opchildtypes.ErrRedundantTx):
					class = "REDUNDANT"
				}
			}()
			obs = append(obs, OS{class})
			if longLived {
				rep.Hist("red-long-lived:" + m.name + ":" + class)
			} else {
				rep.Hist("red:" + m.name + ":" + class)
			}
			rep.Ops++
			active := m.check && !m.simulate
			viol := func(sig, what string) {
				rep.Violate(Violation{Case: *id, Step: mi, What: what, Sig: sig,
					Ops: []string{fmt.Sprintf("next expected L1 sequence = %d (long-lived decorator instance, sequence advanced between calls: %v)", next, longLived), "mode = " + m.name, "messages = " + canon}})
			}
			switch {
			case class == "SWALLOWED":
				viol("C20:redundant-swallowed", "the decorator returned without error and without calling the next handler")
			case !active && class != "PASS":
				viol("C20:redundant-enforced-outside-check", "the decorator rejected ("+class+") in deliver or simulate mode")
			case active && nDep > 0 && allStale && class != "REDUNDANT":
				viol("C20:redundant-all-stale-not-rejected", "every deposit message is already processed, yet the result is "+class)
			case active && nDep == 0 && class != "PASS":
				viol("C20:redundant-no-deposit-rejected", "a transaction without deposit messages was rejected ("+class+")")
			case active && nDep > 0 && allValid && noneAhead && hasNext && class != "PASS":
				viol("C20:redundant-fresh-rejected", "stale and next-in-order deposits with a fresh one, yet the result is "+class)
			}
			if class == "PASS" {
				somePass = true
			} else {
				someRej = true
			}
		}
		text := laneCaseText(*id, fmt.Sprintf("LRedundant %s %s", coqU(next), canon), obs)
		rep.CountCase(text, somePass && someRej)
		if len(l) == 5 && len(rep.Samples) < 3 {
			rep.Sample(map[string]interface{}{"kind": "redundancy case", "next": next, "messages": canon, "results(check,recheck,deliver,check+sim,recheck+sim,deliver+sim)": fmt.Sprint(obs)})
		}
		texts = append(texts, text)
	}
	for _, l := range lists {
		evalList(e.Ctx, next, l, false)
	}
	// the same decorator instance while the chain moves on: deposits are processed between the calls
	// (a decision may depend only on the CURRENT next sequence)
	nSteps := 60
	if tier == "thorough" {
		nSteps = 1200
	}
	live, _ := e.Ctx.CacheContext()
	cur := next
	for k := 0; k < nSteps; k++ {
		evalList(live, cur, randList(cur), true)
		if r.Chance(30) {
			live = live.WithBlockHeight(live.BlockHeight() + 1)
		}
		for n := r.Intn(3); n > 0; n-- {
			res := execAtomic(live, func(ctx sdk.Context) (interface{}, error) {
				return e.Msg.FinalizeTokenDeposit(ctx, c.real(dep(true, cur, 0)).(*opchildtypes.MsgFinalizeTokenDeposit))
			})
			if !res.OK {
				panic("c20: deposit between decorator calls failed: " + res.Err)
			}
			cur++
		}
	}
	rep.Exhaustive = true
	rep.Notes = append(rep.Notes, fmt.Sprintf("redundancy, long-lived: %d further calls of the SAME decorator instance with 0-2 deposits processed (and sometimes a new block height) between calls", nSteps))
	rep.Notes = append(rep.Notes, fmt.Sprintf("redundancy: exhaustive over all lists of <= %d deposit messages from {stale 1, stale 2, next 3, 4, ahead 5, invalid@3, invalid@1}, each plain and with %d random interleavings of other messages, in 6 mode combinations", maxLen, nMixed))
	return texts
}

func genC20Lanes(rep *Report, seed uint64, tier string, outdir string) {
	sc := NewL2Scenario(seed+3, 0, false)
	authz.RegisterInterfaces(sc.Env.Enc.InterfaceRegistry)
	c := &c20Env{sc: sc, e: sc.Env}
	id := 100000
	var texts []string
	texts = append(texts, genC20System(rep, c, seed, tier, &id)...)
	texts = append(texts, genC20Free(rep, c, &id)...)
	texts = append(texts, genC20FreeLongLived(rep, c, seed, tier, &id)...)
	texts = append(texts, genC20Redundant(rep, c, seed, tier, &id)...)
	writeShards(outdir, "C20lanes", laneCaseHeader, "run_lanecase", "lanecase", texts, 8, rep)
}
