#!/usr/bin/env python3
"""Third, independent implementation of the documented OPinit formats (specs/withdrawal_proving.md,
specs/l2_output_oracle.md, cosmos-sdk address.Module) on top of Python's hashlib.  Run once to
produce c17_vectors.json; the file is committed and embedded into the harness, which checks the
chain's exported Go functions AND the Coq definitions (Model/Hashes.v with the Gallina SHA3 /
SHA-256) against these outputs on every run.  Usage: python3 gen_c17_vectors.py > c17_vectors.json"""
import hashlib, json, struct

def h3(b): return hashlib.sha3_256(b).digest()
def h2(b): return hashlib.sha256(b).digest()
def be64(n): return struct.pack(">Q", n)
def leaf(bridge, seq, sender, receiver, denom, amount):
    return h3(h3(be64(bridge) + be64(seq) + h3(sender) + h3(receiver) + h3(denom) + be64(amount)))
def node(a, b):
    return h3(a + b) if a < b else h3(b + a)      # bytes compare lexicographically in Python
def root(l, proofs):
    for p in proofs: l = node(l, p)
    return l
def out_root(v, sr, bh): return h3(bytes([v]) + sr + bh)
def l2denom(bridge, d): return b"l2/" + h3(be64(bridge) + d).hex().encode()
def bridge_addr(bridge): return h2(h2(b"module") + b"ophost" + b"\x00" + be64(bridge))

V = []
def add(kind, out, **kw):
    d = {"kind": kind, "out": out.hex()}
    for k, v in kw.items():
        d[k] = v.hex() if isinstance(v, bytes) else ([x.hex() for x in v] if isinstance(v, list) else str(v))
    V.append(d)

M = 2**64 - 1
for m in [b"", b"abc", b"a" * 135, b"a" * 136, b"a" * 137, bytes(range(256)) * 2]:
    add("sha3", h3(m), m=m)
for m in [b"", b"abc", b"a" * 55, b"a" * 56, b"a" * 64, bytes(range(200))]:
    add("sha256", h2(m), m=m)
L = [(1, 1, b"l2user1", b"init1recipient", b"uinit", 1),
     (0, 0, b"", b"", b"", 0),
     (M, M, b"x" * 300, "é中文\U0001F600".encode(), b"ibc/27394FB092D2ECCD56123C74F36E4C1F926001CEADA9CA97EA622B25F41E5EB2", M),
     (2**63, 2**63 - 1, b"0xdeadbeef", b"cosmos1qqqq", b"l2/abcdef", 2**63),
     (256, 65536, b"sender", b"receiver", b"denom", 2**32)]
for (b, s, f, t, d, a) in L:
    add("leaf", leaf(b, s, f, t, d, a), bridge=b, seq=s, sender=f, receiver=t, denom=d, amount=a)
l0 = leaf(*L[0]); l1 = leaf(*L[1]); l2 = leaf(*L[2])
zero = bytes(32); ff = b"\xff" * 32
adj = zero[:31] + b"\x01"
for (a, b) in [(l0, l1), (l1, l0), (l0, l0), (zero, adj), (adj, zero), (ff, zero), (zero, zero)]:
    add("node", node(a, b), a=a, b=b)
add("root", root(l0, []), leaf=l0, proofs=[])
add("root", root(l0, [l1]), leaf=l0, proofs=[l1])
add("root", root(l0, [l1, l2, l0, zero, ff]), leaf=l0, proofs=[l1, l2, l0, zero, ff])
add("root", root(l2, [l2, l2, l2]), leaf=l2, proofs=[l2, l2, l2])
for (v, sr, bh) in [(0, zero, zero), (1, l0, l1), (255, ff, l2), (7, l1, l1)]:
    add("out", out_root(v, sr, bh), version=v, sroot=sr, bhash=bh)
for (b, d) in [(1, b"uinit"), (0, b""), (M, b"x" * 200), (2**63, "é".encode())]:
    add("denom", l2denom(b, d), bridge=b, l1denom=d)
for b in [0, 1, 2, 255, 256, 2**63, M]:
    add("addr", bridge_addr(b), bridge=b)
print(json.dumps(V, indent=0))
