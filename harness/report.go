package main

import (
	"crypto/sha256"
	"encoding/hex"
	"encoding/json"
	"fmt"
	"os"
	"path/filepath"
	"sort"
	"strings"
)

// Violation found by a model-free property monitor on the implementation's own trace.
type Violation struct {
	Property string      `json:"property"`
	Case     int         `json:"case"`
	Step     int         `json:"step"`
	What     string      `json:"what"`
	Sig      string      `json:"signature"` // structural signature used to match known findings
	Ops      []string    `json:"ops"`       // the history (Coq syntax = replayable description)
	Seed     uint64      `json:"seed"`
	Detail   interface{} `json:"detail,omitempty"`
}

type Report struct {
	Property     string         `json:"property"`
	Seed         uint64         `json:"seed"`
	Tier         string         `json:"tier"`
	Cases        int            `json:"cases"`
	Ops          int            `json:"ops"`
	Distinct     int            `json:"distinct_nontrivial"`
	Rule         string         `json:"rule"`
	Histogram    map[string]int `json:"histogram"`
	Samples      []interface{}  `json:"samples"`
	Violations   []Violation    `json:"violations"`
	KnownChecked []KnownResult  `json:"known_checked"`
	Shards       []string       `json:"shards"`
	Exhaustive   bool           `json:"exhaustive"`
	Notes        []string       `json:"notes"`
	seen         map[string]bool
}

type KnownResult struct {
	ID         string `json:"id"`
	StillFails bool   `json:"still_fails"`
	What       string `json:"what"`
}

func NewReport(prop string, seed uint64, tier string) *Report {
	return &Report{Property: prop, Seed: seed, Tier: tier, Histogram: map[string]int{}, seen: map[string]bool{}}
}
func (r *Report) Hist(k string) { r.Histogram[k]++ }
func (r *Report) CountCase(canon string, nontrivial bool) {
	r.Cases++
	if nontrivial {
		h := sha256.Sum256([]byte(canon))
		k := hex.EncodeToString(h[:8])
		if !r.seen[k] {
			r.seen[k] = true
			r.Distinct++
		}
	}
}
func (r *Report) Sample(s interface{}) {
	if len(r.Samples) < 3 {
		r.Samples = append(r.Samples, s)
	}
}
func (r *Report) Violate(v Violation) {
	v.Property = r.Property
	v.Seed = r.Seed
	// keep the report small but diverse: at most 4 violations per signature, 40 in all
	n := 0
	for _, x := range r.Violations {
		if x.Sig == v.Sig {
			n++
		}
	}
	if n < 4 && len(r.Violations) < 40 {
		r.Violations = append(r.Violations, v)
	}
}
func (r *Report) Write(dir string) {
	if r.Violations == nil {
		r.Violations = []Violation{}
	}
	sort.Strings(r.Shards)
	b, err := json.MarshalIndent(r, "", " ")
	if err != nil {
		panic(err)
	}
	if err := os.WriteFile(filepath.Join(dir, "report.json"), b, 0o644); err != nil {
		panic(err)
	}
}

// writeShards distributes case texts over n files cases_<prop>_<k>.v
func writeShards(dir, prop string, header string, runFn string, caseType string, cases []string, n int, rep *Report) {
	// at most ~250 cases per file keeps one coqc run below ~1 GB and a few minutes
	if len(cases)/250 > n {
		n = len(cases) / 250
	}
	if n > len(cases) {
		n = len(cases)
	}
	if n < 1 {
		n = 1
	}
	for k := 0; k < n; k++ {
		var body []string
		for i := k; i < len(cases); i += n {
			body = append(body, cases[i])
		}
		name := fmt.Sprintf("cases_%s_%03d.v", prop, k)
		f, err := os.Create(filepath.Join(dir, name))
		if err != nil {
			panic(err)
		}
		fmt.Fprint(f, header)
		fmt.Fprint(f, internDefs(strings.Join(body, "\n")))
		fmt.Fprintf(f, "Definition cases : list (N * %s * list ov) := [\n", caseType)
		for i, c := range body {
			if i > 0 {
				fmt.Fprint(f, ";\n")
			}
			fmt.Fprint(f, c)
		}
		fmt.Fprintf(f, "].\nDefinition M := Eval vm_compute in firstn 4 (check_all %s cases).\nPrint M.\n", runFn)
		f.Close()
		rep.Shards = append(rep.Shards, name)
	}
}
