package main

import (
	"fmt"
	"strings"
)

// C11: the output oracle of every bridge is a contiguous, strictly increasing log; deletion is
// suffix-only.  Streams: (a) random multi-bridge L1 histories of ALL message kinds, weighted
// towards propose / delete, with wrong signers, index gaps, stale indices, equal and lower L2
// block numbers, short roots; (b) exhaustive propose / delete / re-propose scripts of bounded
// depth over two bridges (every word over a fixed alphabet of state-relative operations), run
// on cache branches of one base state.  Every case is re-executed by the Coq model and
// judged by the model-free log monitor (mon_l1out.go).

func init() { register("C11", genC11) }

// runRandomL1 runs n random histories and returns their Coq texts.
// c11Step, when set by a stream, replaces sc.RandomStep for that stream (it falls back to it).
var l1StepHook func(sc *L1Scenario)

func runRandomL1(rep *Report, tt *termTable, seed uint64, firstID, n, length int, w L1Weights, setup func(sc *L1Scenario), mons []L1Monitor, kindsOfInterest []string) []string {
	var texts []string
	step := l1StepHook
	for k := 0; k < n; k++ {
		c := runL1TwicePrep(seed*100000+uint64(k), firstID+k, nil, func(sc *L1Scenario) {
			sc.wts = w
			if setup != nil {
				setup(sc)
			}
			for i := 0; i < length; i++ {
				if step != nil {
					step(sc)
				} else {
					sc.RandomStep()
				}
			}
		}, rep)
		okK, errK := map[string]bool{}, map[string]bool{}
		for i, o := range c.Ops {
			if c.Results[i].OK {
				rep.Hist(o.Kind + ":OK")
				okK[o.Kind] = true
			} else {
				rep.Hist(o.Kind + ":ERR")
				errK[o.Kind] = true
			}
		}
		runL1Monitors(rep, c, seed*100000+uint64(k), mons) // monitors + minimisation of a failing history
		rep.Ops += len(c.Ops)
		nontrivial := true
		for _, kd := range kindsOfInterest {
			nontrivial = nontrivial && okK[kd] && errK[kd]
		}
		rep.CountCase(strings.Join(l1OpsHuman(c.Ops), "\n"), nontrivial)
		if k == 0 {
			m := len(c.Ops)
			if m > 10 {
				m = 10
			}
			rep.Sample(map[string]interface{}{"kind": "random L1 history (first ops)", "ops": l1OpsHuman(c.Ops[:m])})
		}
		texts = append(texts, l1CaseText(c, tt))
	}
	return texts
}

// c11Step: every fourth step is a proposal by the RIGHT proposer at the RIGHT index whose L2 block
// number is a boundary value: 0 (legal only as the first output), the previous number, one less,
// one more, 2^64-1 (after which nothing can be proposed).  Otherwise the generic random step.
// resubmitExact submits the message of op k of the case once more, byte for byte (same signer,
// index, L2 block number, root), at the current block time.
func resubmitExact(sc *L1Scenario, k int) ExecResult {
	o := sc.Case.Ops[k]
	return sc.Case.Do(sc.op(o))
}

// resubmitStored proposes a STORED output of bridge b once more, byte for byte, by the current proposer.
func resubmitStored(sc *L1Scenario, b, idx uint64) {
	e := sc.Env
	st, err := e.K.GetOutputProposal(e.Ctx, b, idx)
	prop, _, _, ok := sc.Config(b)
	if err != nil || !ok {
		return
	}
	sc.reg(prop)
	sc.Case.Do(sc.op(L1Op{Kind: "propose", Sender: prop, Bridge: b, Idx: idx, L2: st.L2BlockNumber, Root: st.OutputRoot}))
}

// afterStep: exact resubmission of what has just been submitted - accepted proposals (once or
// twice), accepted deletes, rejected proposals / deletes - and of older stored outputs.
func afterStep(sc *L1Scenario, from int) {
	r := sc.R
	for k := from; k < len(sc.Case.Ops) && k < from+2; k++ {
		o, ok := sc.Case.Ops[k], sc.Case.Results[k].OK
		switch {
		case o.Kind == "propose" && ok && r.Chance(40):
			resubmitExact(sc, k)
			if r.Chance(40) {
				if r.Bool() {
					sc.Advance(sec)
				}
				resubmitExact(sc, k)
			}
		case o.Kind == "delete" && ok && r.Chance(50):
			resubmitExact(sc, k)
		case (o.Kind == "propose" || o.Kind == "delete") && !ok && r.Chance(15):
			resubmitExact(sc, k)
		}
	}
	if r.Chance(6) {
		if ex := sc.existingBridges(); len(ex) > 0 {
			b := ex[r.Intn(len(ex))]
			if next, _ := sc.Env.K.GetNextOutputIndex(sc.Env.Ctx, b); next > 1 {
				resubmitStored(sc, b, 1+uint64(r.Intn(int(next-1))))
			}
		}
	}
}

func c11Step(sc *L1Scenario) {
	from := len(sc.Case.Ops)
	c11StepInner(sc)
	afterStep(sc, from)
}

func c11StepInner(sc *L1Scenario) {
	e, r := sc.Env, sc.R
	ex := sc.existingBridges()
	if len(ex) == 0 || !r.Chance(25) {
		sc.RandomStep()
		return
	}
	b := ex[r.Intn(len(ex))]
	prop, _, _, ok := sc.Config(b)
	if !ok {
		sc.RandomStep()
		return
	}
	next, _ := e.K.GetNextOutputIndex(e.Ctx, b)
	last := uint64(0)
	if next > 1 {
		if o, err := e.K.GetOutputProposal(e.Ctx, b, next-1); err == nil {
			last = o.L2BlockNumber
		}
	}
	l2 := []uint64{0, last, last - 1, last + 1, ^uint64(0)}[r.Weighted([]int{35, 20, 10, 25, 10})]
	if r.Chance(40) {
		sc.Advance(sec)
	}
	pt := sc.MakeTree(b, 1+r.Intn(3))
	pt.Idx = next
	sc.reg(prop)
	if res := sc.Case.Do(sc.op(L1Op{Kind: "propose", Sender: prop, Bridge: b, Idx: next, L2: l2, Root: pt.Root})); res.OK {
		sc.Trees = append(sc.Trees, pt)
	}
}

// two bridges with short periods so that partly final logs are common
func twoBridgeSetup(p1, p2 int64) func(sc *L1Scenario) {
	return func(sc *L1Scenario) {
		e := sc.Env
		if sc.R.Chance(75) { // the two ids are first allocated with other configs on a discarded branch
			speculate(sc, otherPeriod(p1), otherPeriod(p2))
		}
		sc.Case.Do(sc.Create(e.User(7).Str, sc.NewConfig(1, 2, p1)))
		sc.Case.Do(sc.Create(e.User(7).Str, sc.NewConfig(3, 4, p2)))
	}
}

// ---- exhaustive scripts ----
type c11Sym struct {
	Name string
	Adv  int64 // ns to advance before the operation
	Make func(sc *L1Scenario) L1Op
}

func c11Alphabet() []c11Sym {
	root := func(sc *L1Scenario, tag byte) []byte {
		b := make([]byte, 32)
		b[0], b[1] = tag, byte(sc.Height)
		return b
	}
	nextLast := func(sc *L1Scenario, b uint64) (uint64, uint64) {
		e := sc.Env
		next, _ := e.K.GetNextOutputIndex(e.Ctx, b)
		last := uint64(10)
		if next > 1 {
			if o, err := e.K.GetOutputProposal(e.Ctx, b, next-1); err == nil {
				last = o.L2BlockNumber
			}
		}
		return next, last
	}
	prop := func(b uint64, signer uint64, dIdx int, dL2 int, tag byte) func(sc *L1Scenario) L1Op {
		return func(sc *L1Scenario) L1Op {
			next, last := nextLast(sc, b)
			return sc.op(L1Op{Kind: "propose", Sender: sc.Env.User(signer).Str, Bridge: b, Idx: uint64(int(next) + dIdx), L2: last + uint64(int64(dL2)), Root: root(sc, tag)})
		}
	}
	propAbs := func(b uint64, signer uint64, l2 uint64, tag byte) func(sc *L1Scenario) L1Op {
		return func(sc *L1Scenario) L1Op {
			next, _ := nextLast(sc, b)
			return sc.op(L1Op{Kind: "propose", Sender: sc.Env.User(signer).Str, Bridge: b, Idx: next, L2: l2, Root: root(sc, tag)})
		}
	}
	del := func(b uint64, who func(sc *L1Scenario) string, idx uint64) func(sc *L1Scenario) L1Op {
		return func(sc *L1Scenario) L1Op {
			return sc.op(L1Op{Kind: "delete", Sender: who(sc), Bridge: b, Idx: idx})
		}
	}
	user := func(id uint64) func(sc *L1Scenario) string {
		return func(sc *L1Scenario) string { return sc.Env.User(id).Str }
	}
	gov := func(sc *L1Scenario) string { return sc.Env.Auth }
	return []c11Sym{
		{"p1", 0, prop(1, 1, 0, 1, 1)},           // bridge 1: next index, higher block
		{"p1+1s", sec, prop(1, 1, 0, 3, 2)},      // the same one second later
		{"p1eq", 0, prop(1, 1, 0, 0, 3)},         // equal L2 block number
		{"p1gap", 0, prop(1, 1, 1, 1, 4)},        // index gap
		{"p1stale", 0, prop(1, 1, -1, 1, 5)},     // previous index again
		{"p2", 0, prop(2, 3, 0, 1, 6)},           // other bridge
		{"d1@1", 0, del(1, user(2), 1)},          // challenger deletes from 1
		{"d1@2+1s", sec, del(1, gov, 2)},         // authority deletes from 2, one second later
		{"d1@3", 0, del(1, user(1), 3)},          // proposer deletes from 3
		{"d2@1", 0, del(2, user(4), 1)},          // other bridge
		{"d1@1x", 0, del(1, user(4), 1)},         // challenger of the OTHER bridge
		{"p1low", 0, prop(1, 1, 0, -1, 7)},       // lower L2 block number
		{"d1@1+1s", sec, del(1, user(2), 1)},     // challenger deletes from 1 one second later (partly final log)
		{"p1again", 0, func(sc *L1Scenario) L1Op { // the NEWEST stored output of bridge 1 once more, byte for byte
			e := sc.Env
			next, _ := e.K.GetNextOutputIndex(e.Ctx, 1)
			o := L1Op{Kind: "propose", Sender: e.User(1).Str, Bridge: 1, Idx: next - 1, L2: 0, Root: make([]byte, 32)}
			if next > 1 {
				if st, err := e.K.GetOutputProposal(e.Ctx, 1, next-1); err == nil {
					o.L2, o.Root = st.L2BlockNumber, st.OutputRoot
				}
			}
			return sc.op(o)
		}},
		{"p1zero", 0, propAbs(1, 1, 0, 8)},                 // L2 block 0 (legal at index 1 only; then p1eq / p1low / p1zero must fail)
		{"p1max", 0, propAbs(1, 1, ^uint64(0), 9)},         // L2 block 2^64-1: nothing can follow it
	}
}

func genC11Exhaustive(rep *Report, tt *termTable, seed uint64, firstID int, alphabet []c11Sym, depth int) []string {
	sc := NewL1Scenario(seed, 0, nil)
	e := sc.Env
	base := sc.Case
	base.Track = &L1Track{Bridges: []uint64{1, 2}}
	base.Bals = nil
	// period 2 s and 1 s: after two one-second steps the first output of bridge 1 is final
	for _, o := range []L1Op{sc.Create(e.User(7).Str, sc.NewConfig(1, 2, 2*sec)), sc.Create(e.User(7).Str, sc.NewConfig(3, 4, sec))} {
		if r := base.DoObs(o); !r.OK {
			panic("C11 exhaustive: base bridge creation failed: " + r.Err)
		}
	}
	// all address strings used by the alphabet must be in the table before any case is printed
	sc.reg(e.Auth)
	for id := uint64(1); id <= 7; id++ {
		sc.reg(e.User(id).Str)
	}
	var texts []string
	id := firstID
	total := 0
	var rec func(d int, ops []L1Op, obs []Ov, res []ExecResult, words []string)
	rec = func(d int, ops []L1Op, obs []Ov, res []ExecResult, words []string) {
		if d == depth {
			c := &L1Case{ID: id, Env: e, Track: base.Track, Parse: base.Parse, Ops: ops, Obs: obs, Results: res}
			id++
			total++
			logMonitor("C11")(rep, c)
			okP, errP := false, false
			for i, o := range ops {
				if i < 2 {
					continue
				}
				if res[i].OK {
					rep.Hist("x:" + o.Kind + ":OK")
					okP = true
				} else {
					rep.Hist("x:" + o.Kind + ":ERR")
					errP = true
				}
			}
			rep.Ops += len(ops)
			rep.CountCase(strings.Join(l1OpsHuman(ops), "\n"), okP && errP)
			if total == 1 || strings.Join(words, " ") == "p1 p1+1s d1@1+1s" {
				rep.Sample(map[string]interface{}{"kind": "exhaustive script " + strings.Join(words, " "), "ops": l1OpsHuman(ops)})
			}
			texts = append(texts, l1CaseText(c, tt))
			return
		}
		nodeCtx, now, height := e.Ctx, sc.Now, sc.Height
		for _, sym := range alphabet {
			branch, _ := nodeCtx.CacheContext()
			e.Ctx = branch
			sc.Now, sc.Height = now, height
			if sym.Adv > 0 {
				sc.Advance(sym.Adv)
			}
			o := sym.Make(sc)
			r := e.L1Exec(o)
			ob := e.L1Obs(base.Track, r)
			rec(d+1, append(append([]L1Op{}, ops...), o), append(append([]Ov{}, obs...), ob), append(append([]ExecResult{}, res...), r), append(append([]string{}, words...), sym.Name))
		}
		e.Ctx, sc.Now, sc.Height = nodeCtx, now, height
	}
	rec(0, base.Ops, base.Obs, base.Results, nil)
	names := make([]string, len(alphabet))
	for i, s := range alphabet {
		names[i] = s.Name
	}
	rep.Exhaustive = true
	rep.Notes = append(rep.Notes, fmt.Sprintf("exhaustive: all %d scripts of length %d over the alphabet {%s} on two bridges (periods 2 s and 1 s)", total, depth, strings.Join(names, ", ")))
	return texts
}

func genC11(seed uint64, tier, outdir string) *Report {
	rep := NewReport("C11", seed, tier)
	rep.Rule = "a case is one L1 history on a fresh instance (random) or one script on a cache branch of the two-bridge base state (exhaustive); distinct by hash of the op list; non-trivial = at least one propose and one delete accepted and one of each rejected (random), at least one script operation accepted and one rejected (exhaustive)"
	w := DefaultL1Weights
	w.Propose, w.Delete, w.Claim, w.Deposit = 40, 16, 6, 8
	w2 := w
	w2.Create, w2.Propose, w2.Delete, w2.Claim, w2.Deposit, w2.Role, w2.AdvanceChance = 1, 50, 25, 4, 4, 8, 35
	nA, nB, length, depth := 20, 20, 60, 3
	alphabet := c11Alphabet()
	if tier == "thorough" {
		nA, nB, length, depth = 300, 300, 120, 4
	}
	mons := []L1Monitor{logMonitor("C11")}
	interest := []string{"propose", "delete"}
	tt := newTermTable()
	// exhaustive scripts first: their (short) histories are the first to be reported
	pick := func(drop map[string]bool, keep []string) []c11Sym {
		var out []c11Sym
		for _, s := range alphabet {
			if drop != nil && !drop[s.Name] {
				out = append(out, s)
			}
		}
		for _, n := range keep {
			for _, s := range alphabet {
				if s.Name == n {
					out = append(out, s)
				}
			}
		}
		return out
	}
	// quick: 15 symbols (a lower L2 block number is left to the random proposer); thorough depth 4: 13
	first := pick(map[string]bool{"p1low": true}, nil)
	if tier == "thorough" {
		first = pick(map[string]bool{"p1low": true, "p1stale": true, "d1@1x": true}, nil)
	}
	texts := genC11Exhaustive(rep, tt, seed, 1, first, depth)
	if tier == "thorough" {
		// deeper, over a core alphabet
		core := pick(nil, []string{"p1", "p1+1s", "p1again", "p1zero", "d1@2+1s", "d1@1+1s"})
		texts = append(texts, genC11Exhaustive(rep, tt, seed, 1+len(texts), core, 5)...)
	}
	l1StepHook = func(sc *L1Scenario) { from := len(sc.Case.Ops); sc.RandomStep(); afterStep(sc, from) }
	texts = append(texts, runRandomL1(rep, tt, seed, 1+len(texts), nA, length, w, nil, mons, interest)...)
	l1StepHook = c11Step
	texts = append(texts, runRandomL1(rep, tt, seed+7777, 1+len(texts), nB, length, w2, twoBridgeSetup(2*sec, 5*sec), mons, interest)...)
	l1StepHook = nil
	// one long log per run: suffix deletes of 101 and of a boundary count; thorough: the whole chain on 257 outputs
	fill, dels := 130, []int{101, []int{99, 100, 128, 129}[seed%4]}
	if tier == "thorough" {
		fill, dels = 257, []int{99, 100, 101, 128, 129, 256, 257}
	}
	long := l1CaseText(longLogCase(rep, "C11", seed+31, 1+len(texts), fill, dels, mons), tt)
	nf := writeShardsTerms(outdir, "C11", l1CaseHeader, "run_l1case", "l1case", texts, 15, rep, tt, 0)
	writeShardsTerms(outdir, "C11", l1CaseHeader, "run_l1case", "l1case", []string{long}, 1, rep, tt, nf) // its own file: it is the longest single evaluation
	return rep
}
