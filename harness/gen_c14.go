package main

import (
	"fmt"
	"strings"

	sdk "github.com/cosmos/cosmos-sdk/types"
)

// C14: a registered executor-change plan replaces the sequencer safely and exactly once.
// Streams: (a) plans x validator states (reached by the C13 random generator) x max-validator
// settings x heights, through Keeper.RegisterExecutorChangePlan and the real EndBlocker, every
// batch into the real CometBFT validator set; (b) malformed registrations; (c) the replays of
// the known findings D8 (plan re-uses a stored operator address), D9 (plan re-uses a consensus
// key in use), D10 (plan arrives at the validator cap).

func init() { register("C14", genC14) }

func (ve *ValEnv) userStrs(ids ...uint64) []string {
	out := []string{}
	for _, i := range ids {
		out = append(out, ve.E.User(i).Str)
	}
	return out
}

// probeExecutors: every account of the current executor list must be able to act as executor
// in its lower- and its upper-case spelling, the other users must be refused
func probeExecutors(r *ValRun) {
	e := r.VE.E
	for _, u := range e.Users {
		r.Do(TVOp{Kind: "probe", Sender: u.Str})
		r.Do(TVOp{Kind: "probe", Sender: upperBech32(u.Str)})
	}
}

func genC14(seed uint64, tier string, outdir string) *Report {
	rep := NewReport("C14", seed, tier)
	rep.Rule = "a case is one genesis, a history of blocks with one or two registered plans and the blocks around the plan heights; distinct by hash of genesis + operation list; non-trivial = at least one message or registration succeeded and at least one was rejected"
	st := &valStream{rep: rep, ve: NewValEnv(seed)}
	ve := st.ve
	thorough := tier == "thorough"
	valNoZeroEntries = true
	nRandom := 150
	if thorough {
		nRandom = 2500
	}
	// the fixed scenarios first: their replays are the shortest
	// (b) malformed registrations against a fixed state
	{
		st.caseID++
		r := ve.Start(st.caseID, genesisOf(3, 2, VRec{1, 1, 1}), 3, 3)
		ok := ve.userStrs(1, 2)
		r.Do(TVOp{Kind: "begin", H: 1})
		bad := []TVOp{
			{Kind: "register", Pid: 0, PH: 5, Op: 2, Key: 2, Execs: ok},
			{Kind: "register", Pid: 1, PH: 0, Op: 2, Key: 2, Execs: ok},
			{Kind: "register", Pid: 1, PH: 5, Op: 0, Key: 2, Execs: ok},
			{Kind: "register", Pid: 1, PH: 5, Op: 2, Key: 0, Execs: ok},
			{Kind: "register", Pid: 1, PH: 5, Op: 2, Key: 2, Execs: []string{ve.E.User(1).Str, "notanaddress"}},
			{Kind: "register", Pid: 1, PH: 5, Op: 2, Key: 2, Execs: ok}, // good
			{Kind: "register", Pid: 2, PH: 5, Op: 3, Key: 3, Execs: ok}, // duplicate height
			{Kind: "register", Pid: 2, PH: 6, Op: 3, Key: 3, Execs: ok}, // second plan, other height
		}
		want := []string{"ERR", "ERR", "ERR", "ERR", "ERR", "OK", "ERR", "OK"}
		for i, o := range bad {
			s := r.Do(o)
			if s.Verdict != want[i] {
				rep.Violate(Violation{Case: st.caseID, Step: len(r.Ops), What: fmt.Sprintf("registration %s: %s, want %s", o.String(), s.Verdict, want[i]), Sig: "C14:register-verdict", Ops: r.History(len(r.Ops))})
			}
		}
		r.Do(TVOp{Kind: "end", H: 1})
		for h := int64(2); h <= 7; h++ {
			r.Do(TVOp{Kind: "begin", H: h})
			r.Do(TVOp{Kind: "end", H: h})
		}
		st.finish(r, true, "registrations")
	}

	// (b1) malformed registrations, systematically: an undecodable executor address at EVERY
	// position of executor lists of length 1..4 (the other entries valid, in lower- and
	// upper-case spelling), every kind of undecodable string; malformed operator strings and
	// consensus keys; each registration for its own height, then the blocks of the first
	// heights are run: none of these plans may exist, and no end blocker may fail.
	{
		e := ve.E
		u := func(i uint64) string { return e.User(i).Str }
		wrongPrefix, err := sdk.Bech32ifyAddressBytes("init", e.User(2).Addr)
		if err != nil {
			panic(err)
		}
		mixed := strings.ToUpper(u(1)[:8]) + u(1)[8:]
		badAddrs := []string{"", "notanaddress", wrongPrefix, mixed, u(3) + "x", e.ValOps[0].String(), " " + u(1)}
		goodAddrs := []string{u(1), upperBech32(u(2)), u(4), upperBech32(u(5)), u(6)}
		for n := 1; n <= 4; n++ {
			for pos := 0; pos < n; pos++ {
				st.caseID++
				r := ve.Start(st.caseID, genesisOf(3, 2, VRec{1, 1, 1}), 3, 3)
				r.Do(TVOp{Kind: "begin", H: 1})
				for bi, bad := range badAddrs {
					execs := make([]string, n)
					for i := range execs {
						execs[i] = goodAddrs[(i+bi)%len(goodAddrs)]
					}
					execs[pos] = bad
					r.Do(TVOp{Kind: "register", Pid: 1, PH: uint64(2 + bi), Op: 2, Key: 2, Execs: execs})
				}
				r.Do(TVOp{Kind: "end", H: 1})
				for h := int64(2); h <= 4; h++ {
					r.Do(TVOp{Kind: "begin", H: h})
					r.Do(TVOp{Kind: "end", H: h})
				}
				kind := ""
				if n == 3 && pos == 0 {
					kind = "undecodable executor address not in last position"
				}
				st.finish(r, true, kind)
			}
		}
		// the other fields
		accAsOp, err := sdk.Bech32ifyAddressBytes(sdk.GetConfig().GetBech32AccountAddrPrefix(), e.ValOps[1])
		if err != nil {
			panic(err)
		}
		op2 := e.ValOps[1].String()
		st.caseID++
		r := ve.Start(st.caseID, genesisOf(3, 2, VRec{1, 1, 1}), 3, 3)
		r.Do(TVOp{Kind: "begin", H: 1})
		h := uint64(2)
		for _, bad := range []string{" ", "notavaloper", accAsOp, strings.ToUpper(op2[:10]) + op2[10:], op2 + "x", u(1)} {
			r.Do(TVOp{Kind: "register", Pid: 1, PH: h, OpStr: bad, Key: 2, Execs: goodAddrs[:2]})
			h++
		}
		for _, bad := range []string{" ", "{notjson", "{}", "null", `{"@type":"/not.a.registered.Type","key":"AAAA"}`, `"` + ve.keyJS[1] + `"`} {
			r.Do(TVOp{Kind: "register", Pid: 1, PH: h, Op: 2, KeyStr: bad, Execs: goodAddrs[:2]})
			h++
		}
		r.Do(TVOp{Kind: "register", Pid: 0, PH: h, Op: 2, Key: 2, Execs: goodAddrs[:2]})
		r.Do(TVOp{Kind: "register", Pid: 1, PH: 0, Op: 2, Key: 2, Execs: goodAddrs[:2]})
		// a decodable upper-case operator string and upper-case executors are fine: registered, applied
		r.Do(TVOp{Kind: "register", Pid: 1, PH: 3, OpStr: strings.ToUpper(op2), Key: 2, Execs: []string{upperBech32(u(2)), u(4)}})
		r.Do(TVOp{Kind: "end", H: 1})
		for hh := int64(2); hh <= 4; hh++ {
			r.Do(TVOp{Kind: "begin", H: hh})
			r.Do(TVOp{Kind: "end", H: hh})
		}
		st.finish(r, true, "")
	}

	// (b3) the plan names an EXISTING validator with its OWN key (keeps the sequencer, drops the
	// others, swaps the executors): a good plan, also at the cap; afterwards the key must still be
	// indexed (adding another operator with it is refused) and the dropped ones can come back.
	for variant := 0; variant < 4; variant++ {
		st.caseID++
		g := genesisOf(3, 2, VRec{1, 1, 1}, VRec{2, 2, 1})
		switch variant {
		case 1:
			g = genesisOf(2, 2, VRec{1, 1, 5}, VRec{2, 2, 1}) // at the cap, power 5 -> 1
		case 3:
			g = genesisOf(3, 2, VRec{2, 2, 1}, VRec{3, 1, 1}) // the kept one is last in store order
		}
		keep := g.Vals[len(g.Vals)-1]
		if variant < 3 {
			keep = g.Vals[0]
		}
		r := ve.Start(st.caseID, g, 3, 3)
		r.Do(TVOp{Kind: "begin", H: 1})
		r.Do(TVOp{Kind: "register", Pid: 1, PH: 2, Op: keep.Op, Key: keep.Key, Execs: ve.userStrs(5)})
		r.Do(TVOp{Kind: "end", H: 1})
		r.Do(TVOp{Kind: "begin", H: 2})
		if variant == 2 { // removed earlier in the plan's own block: the plan brings it back
			r.Do(TVOp{Kind: "rm", Op: keep.Op})
		}
		r.Do(TVOp{Kind: "end", H: 2})
		r.Do(TVOp{Kind: "begin", H: 3})
		other := uint64(1)
		for other == keep.Op || other == g.Vals[0].Op || other == g.Vals[1].Op {
			other++
		}
		if s := r.Do(TVOp{Kind: "add", Op: other, Key: keep.Key}); s.Verdict == "OK" {
			rep.Violate(Violation{Case: st.caseID, Step: len(r.Ops), What: "after a plan that kept an existing validator, another operator could be added with the same consensus key", Sig: "C14:plan-failed", Ops: r.History(len(r.Ops))})
		}
		for _, v := range g.Vals {
			if v.Op != keep.Op {
				r.Do(TVOp{Kind: "add", Op: v.Op, Key: v.Key}) // a dropped validator may be added again (room permitting)
			}
		}
		r.Do(TVOp{Kind: "end", H: 3})
		kind := ""
		if variant == 0 {
			kind = "plan = an existing validator with its own key"
		}
		st.finish(r, true, kind)
	}

	// (b4) after the plan the authorised bridge executors are exactly the plan's list - as
	// ACCOUNTS: each of them can act as executor in the lower- and the upper-case spelling of its
	// address whichever spelling the plan used, every other account (the former executors
	// included) is refused.  Probed with a real FinalizeTokenDeposit on a discarded branch.
	for variant := 0; variant < 3; variant++ {
		st.caseID++
		e := ve.E
		execs := [][]string{
			{upperBech32(e.User(2).Str), e.User(4).Str},
			{e.User(5).Str},
			{upperBech32(e.User(6).Str), upperBech32(e.User(1).Str), e.User(3).Str},
		}[variant]
		r := ve.Start(st.caseID, genesisOf(3, 2, VRec{1, 1, 1}), 3, 3)
		r.Do(TVOp{Kind: "begin", H: 1})
		probeExecutors(r) // users 1 and 2 are the executors of the genesis params
		r.Do(TVOp{Kind: "register", Pid: 1, PH: 2, Op: 2, Key: 2, Execs: execs})
		r.Do(TVOp{Kind: "end", H: 1})
		r.Do(TVOp{Kind: "begin", H: 2})
		r.Do(TVOp{Kind: "end", H: 2})
		probeExecutors(r)
		r.Do(TVOp{Kind: "begin", H: 3})
		r.Do(TVOp{Kind: "end", H: 3})
		kind := ""
		if variant == 0 {
			kind = "executor probes around a plan with an upper-case executor address"
		}
		st.finish(r, true, kind)
	}

	// (b5) the fields registration does not constrain: whatever RegisterExecutorChangePlan ACCEPTS
	// must execute at its height without an end-blocker error.  Monikers of length 0, 1, 69, 70,
	// 71, 84, 255, 1000 bytes in ASCII and in multi-byte characters; executor lists with
	// duplicates, upper-case spellings, many entries, the empty list.
	{
		e := ve.E
		type variant struct {
			moniker string
			execs   []string
		}
		var vs []variant
		for _, n := range []int{0, 1, 69, 70, 71, 84, 255, 1000} {
			m := strings.Repeat("a", n)
			if n == 0 {
				m = "<empty>"
			}
			vs = append(vs, variant{m, ve.userStrs(4)})
			if n >= 2 {
				mb := strings.Repeat("\u00e9", n/2) // 2 bytes each
				if n%2 == 1 {
					mb += "x"
				}
				vs = append(vs, variant{mb, ve.userStrs(4)})
			}
		}
		u := func(i uint64) string { return e.User(i).Str }
		vs = append(vs,
			variant{"", []string{u(2), u(2)}},
			variant{"", []string{u(2), upperBech32(u(2)), u(2)}},
			variant{"", []string{upperBech32(u(1)), upperBech32(u(3))}},
			variant{"", []string{u(1), u(2), u(3), u(4), u(5), u(6), upperBech32(u(1)), upperBech32(u(6))}},
			variant{"", []string{}},
			variant{strings.Repeat("\u4e16", 24), []string{u(5), upperBech32(u(5))}}, // 72 bytes, 24 characters
		)
		for i, v := range vs {
			st.caseID++
			r := ve.Start(st.caseID, genesisOf(3, 2, VRec{1, 1, 1}), 3, 3)
			r.Do(TVOp{Kind: "begin", H: 1})
			op := TVOp{Kind: "register", Pid: 1, PH: 2, Op: 2, Key: 2, Execs: v.execs, Moniker: v.moniker}
			if i%3 == 2 { // sometimes the upper-case operator spelling
				op.OpStr = strings.ToUpper(e.ValOps[1].String())
			}
			r.Do(op)
			r.Do(TVOp{Kind: "end", H: 1})
			r.Do(TVOp{Kind: "begin", H: 2})
			r.Do(TVOp{Kind: "end", H: 2})
			if i >= len(vs)-6 {
				probeExecutors(r)
			}
			r.Do(TVOp{Kind: "begin", H: 3})
			r.Do(TVOp{Kind: "end", H: 3})
			kind := ""
			if i == 8 {
				kind = "plan with a long moniker"
			}
			st.finish(r, true, kind)
		}
	}

	// (b2) block h executed twice by one process: first on a DISCARDED cache branch, then for
	// real.  The plan registry is node memory, not store state; the real run must still apply
	// the plan (fresh operator, fresh key, room below the cap: the good situation).
	for variant := 0; variant < 3; variant++ {
		st.caseID++
		r := ve.Start(st.caseID, genesisOf(3, 2, VRec{1, 1, 1}), 3, 3)
		r.Do(TVOp{Kind: "begin", H: 1})
		r.Do(TVOp{Kind: "register", Pid: 1, PH: 2, Op: 2, Key: 2, Execs: ve.userStrs(4, 5)})
		r.Do(TVOp{Kind: "end", H: 1})
		for n := 0; n <= variant; n++ { // once, twice, three times discarded
			r.Do(TVOp{Kind: "dryblock", H: 2})
		}
		r.Do(TVOp{Kind: "begin", H: 2})
		if variant == 2 {
			r.Do(TVOp{Kind: "add", Op: 3, Key: 3})
		}
		r.Do(TVOp{Kind: "end", H: 2})
		r.Do(TVOp{Kind: "dryblock", H: 2}) // replaying the old height afterwards changes nothing either
		r.Do(TVOp{Kind: "begin", H: 3})
		r.Do(TVOp{Kind: "end", H: 3})
		kind := ""
		if variant == 0 {
			kind = "plan height pre-executed on a discarded branch"
		}
		st.finish(r, true, kind)
	}

	good, total := 0, 0
	sit := map[string]int{}
	for k := 0; k < nRandom; k++ {
		st.caseID++
		rg := NewRng(seed*2000003 + uint64(k))
		g := randGenesis(rg, 5, 5)
		if g.Entries == 0 {
			g.Entries = 1
		}
		if rg.Chance(75) { // leave room for the plan's validator more often than not
			g.MaxV = uint64(len(g.Vals) + 2 + rg.Intn(2))
		}
		r := ve.Start(st.caseID, g, 5, 5)
		if r.Dead() {
			rep.Violate(Violation{Case: st.caseID, What: "valid genesis rejected: " + r.Snaps[0].Err, Sig: "C13:valid-genesis-rejected", Ops: []string{g.String()}})
			continue
		}
		h := int64(rg.Intn(3))
		planH := h + 1 + int64(rg.Intn(4))
		registered := false
		nBlocks := int(planH-h) + rg.Intn(3)
		for b := 0; b < nBlocks; b++ {
			h++
			// sometimes the block is first executed on a branch that is thrown away (a proposal
			// that ends up rejected, a simulation): that must not change anything, in particular
			// it must not consume a plan registered for this height
			if (h == planH && rg.Chance(35)) || rg.Chance(8) {
				r.Do(TVOp{Kind: "dryblock", H: h})
			}
			r.Do(TVOp{Kind: "begin", H: h})
			for j := rg.Intn(4); j > 0; j-- {
				r.Do(randValOp(rg, r, 5, 5, true))
			}
			if !registered && (h == planH || rg.Chance(50)) {
				// choose the plan against the live state: mostly fresh operator and key
				cur := r.Snaps[len(r.Snaps)-1]
				usedOp, usedKey := map[uint64]bool{}, map[uint64]bool{}
				for _, v := range cur.Vals {
					usedOp[v.Op], usedKey[v.Key] = true, true
				}
				op, key := uint64(1+rg.Intn(5)), uint64(1+rg.Intn(5))
				if rg.Chance(75) {
					for t := 0; t < 8 && usedOp[op]; t++ {
						op = uint64(1 + rg.Intn(5))
					}
				}
				if rg.Chance(75) {
					for t := 0; t < 8 && usedKey[key]; t++ {
						key = uint64(1 + rg.Intn(5))
					}
				}
				if len(cur.Vals) > 0 && rg.Chance(15) { // an existing validator with its own key: keep the sequencer
					v := cur.Vals[rg.Intn(len(cur.Vals))]
					op, key = v.Op, v.Key
				}
				var execs []string
				for n := rg.Intn(4); n > 0; n-- {
					x := ve.E.User(uint64(1 + rg.Intn(6))).Str
					if rg.Chance(35) {
						x = upperBech32(x)
					}
					execs = append(execs, x)
				}
				if execs == nil {
					execs = []string{}
				}
				if rg.Chance(20) && len(execs) > 0 { // the same plan with one undecodable executor: must be refused
					bad := append([]string{}, execs...)
					bad[rg.Intn(len(bad))] = []string{"", "notanaddress", ve.E.User(1).Str + "x", ve.E.ValOps[0].String()}[rg.Intn(4)]
					r.Do(TVOp{Kind: "register", Pid: 2, PH: uint64(planH), Op: op, Key: key, Execs: bad})
				}
				moniker := ""
				if rg.Chance(30) {
					moniker = strings.Repeat([]string{"m", "\u00fc", "\u4e16"}[rg.Intn(3)], []int{1, 23, 35, 70, 71, 100, 400}[rg.Intn(7)])
				}
				s := r.Do(TVOp{Kind: "register", Pid: uint64(1 + rg.Intn(9)), PH: uint64(planH), Op: op, Key: key, Execs: execs, Moniker: moniker})
				registered = s.Verdict == "OK"
				if rg.Chance(15) { // the same height again: must be refused
					r.Do(TVOp{Kind: "register", Pid: 3, PH: uint64(planH), Op: uint64(1 + rg.Intn(5)), Key: uint64(1 + rg.Intn(5)), Execs: execs})
				}
			}
			r.Do(TVOp{Kind: "end", H: h})
			if h == planH && registered && rg.Chance(40) {
				probeExecutors(r)
			}
		}
		kind := ""
		if k == 2 {
			kind = "random plan history"
		}
		res := st.finish(r, true, kind)
		total += res.PlanRuns
		good += res.PlanGood
		for s, n := range res.PlanSig {
			sit[s] += n
		}
	}
	rep.Notes = append(rep.Notes, fmt.Sprintf("plans executed: %d, of which %d in the good situation (fresh operator, fresh key, room below the cap) with the full C14 outcome; failing situations seen in the random stream: %v", total, good, sit))

	// (c) known findings, replayed every run
	type known struct {
		sig  string
		g    ValGenesis
		plan TVOp // registered in block 1 for height 2
	}
	ex := ve.userStrs(4)
	kns := []known{
		{"C14:plan-reuses-operator", genesisOf(3, 2, VRec{1, 1, 1}),
			TVOp{Kind: "register", Pid: 1, PH: 2, Op: 1, Key: 2, Execs: ex}},
		{"C14:plan-reuses-key", genesisOf(3, 2, VRec{1, 1, 1}),
			TVOp{Kind: "register", Pid: 1, PH: 2, Op: 2, Key: 1, Execs: ex}},
		{"C14:plan-at-cap", genesisOf(1, 2, VRec{1, 1, 1}),
			TVOp{Kind: "register", Pid: 1, PH: 2, Op: 2, Key: 2, Execs: ex}},
	}
	for _, kn := range kns {
		st.caseID++
		r := ve.Start(st.caseID, kn.g, 3, 3)
		r.Do(TVOp{Kind: "begin", H: 1})
		r.Do(kn.plan)
		r.Do(TVOp{Kind: "end", H: 1})
		r.Do(TVOp{Kind: "begin", H: 2})
		endSnap := r.Do(TVOp{Kind: "end", H: 2})
		r.Do(TVOp{Kind: "begin", H: 3})
		r.Do(TVOp{Kind: "end", H: 3})
		res := st.finish(r, true, "")
		what := fmt.Sprintf("%s, plan %s: EndBlocker(2) %s %s batch %v accepted=%v; validators %v, index %v, engine %v",
			kn.g.String(), kn.plan.String(), endSnap.Verdict, endSnap.Err, endSnap.Batch, endSnap.Acc, endSnap.Vals, endSnap.Idx, endSnap.Eng)
		rep.KnownChecked = append(rep.KnownChecked, KnownResult{ID: kn.sig, StillFails: res.PlanSig[kn.sig] > 0, What: what})
	}
	writeShards(outdir, "C14", valCaseHeader, "run_valcase", "valcase", st.texts, 16, rep)
	return rep
}
